(* C01, block parser: no exception.  For every source and every configuration with the paragraph rule
   and silent-capable terminator chains, ParserBlock.parse never raises: every table read is in
   range and every unguarded src[...] read hits a character.  The invariant RI says what the line
   tables promise (lengths, marks inside the source, a line feed at every end mark but the last, a
   non-blank at the logical line start of a non-empty line); it holds for fresh tables and is kept
   by every rule, through the block quote and list-item rewrites and their restores. *)
From RecordUpdate Require Import RecordUpdate.
From MD Require Import Base.Py Base.Str Base.Regex Base.Opt Model.Token Model.Utils Model.StateBlock Model.Helpers
     Model.Url Model.Render Model.Block Lemmas.StrLemmas Lemmas.StrLemmas2 Lemmas.BlockLemmas Lemmas.BlockWF Lemmas.MapLemmas
     Lemmas.QuoteLemmas Lemmas.ScanLemmas Lemmas.Verbatim Lemmas.MapWhole.
From Coq Require Import ZifyBool.

Local Arguments Z.eqb : simpl never.
Local Arguments Z.ltb : simpl never.
Local Arguments Z.leb : simpl never.
Local Arguments str_eqb : simpl never.

(* ---- "does not raise" ---- *)
Definition nr {A} (m : res A) : Prop := forall e, m <> Raise e.

Lemma nr_ok {A} (v : A) : nr (Ok v). Proof. intros e H. discriminate H. Qed.
Lemma nr_oof {A} : nr (@OutOfFuel A). Proof. intros e H. discriminate H. Qed.
Lemma nr_bind {A B} (m : res A) (k : A -> res B) : nr m -> (forall x, m = Ok x -> nr (k x)) -> nr (bind m k).
Proof. intros Hm Hk e. destruct m as [x|e'|]; cbn [bind]; [apply Hk; reflexivity | intros _; apply (Hm e'); reflexivity | discriminate]. Qed.

Lemma nr_tb l i : 0 <= i < len l -> nr (tb l i).
Proof.
  intros H e. rewrite tb_nonneg by lia. destruct (nth_error l (Z.to_nat i)) eqn:E; [discriminate|].
  apply nth_error_None in E. unfold len in H. lia.
Qed.
Lemma nr_py_idx s i : 0 <= i < len s -> nr (py_idx s i).
Proof.
  intros H e. unfold py_idx, get. cbv zeta. assert (X : (i <? 0) = false) by lia. rewrite !X.
  destruct (nth_error s (Z.to_nat i)) eqn:E; [discriminate|]. apply nth_error_None in E. unfold len in H. lia.
Qed.
Lemma tb_set_nr l i v : 0 <= i < len l -> nr (tb_set l i v).
Proof. intros H e. unfold tb_set. cbv zeta. assert (X : (i <? 0) = false) by lia. rewrite !X. assert (Y : (len l <=? i) = false) by lia. rewrite Y. cbn. discriminate. Qed.

(* ---- the table invariant ---- *)
Definition row_ok (src : str) (N l b e t : Z) : Prop :=
  0 <= b /\ (0 <= t /\ b + t <= e) /\ 0 <= e <= len src
  /\ (l <= N - 2 -> e < len src)
  /\ (e < len src -> py_idx src e = Ok 10)
  /\ (b + t < e -> exists c, py_idx src (b + t) = Ok c /\ is_space c = false).

Definition RI (N : Z) (st : bstate) : Prop :=
  0 <= b_lineMax st <= N
  /\ len (b_bMarks st) = N + 1 /\ len (b_eMarks st) = N + 1 /\ len (b_tShift st) = N + 1
  /\ len (b_sCount st) = N + 1 /\ len (b_bsCount st) = N + 1
  /\ forall l b e t, 0 <= l <= N -> tb (b_bMarks st) l = Ok b -> tb (b_eMarks st) l = Ok e -> tb (b_tShift st) l = Ok t ->
       row_ok (b_src st) N l b e t.

Lemma RI_reads N st l : RI N st -> 0 <= l <= N ->
  exists b e t sc bs, tb (b_bMarks st) l = Ok b /\ tb (b_eMarks st) l = Ok e /\ tb (b_tShift st) l = Ok t
    /\ tb (b_sCount st) l = Ok sc /\ tb (b_bsCount st) l = Ok bs /\ row_ok (b_src st) N l b e t.
Proof.
  intros (LM & L1 & L2 & L3 & L4 & L5 & R) Hl.
  assert (G : forall T, len T = N + 1 -> exists v, tb T l = Ok v).
  { intros T HT. destruct (tb T l) as [v|e|] eqn:E; [exists v; reflexivity| |].
    - exfalso. apply (nr_tb T l ltac:(lia) e E).
    - exfalso. rewrite tb_nonneg in E by lia. destruct (nth_error T (Z.to_nat l)); discriminate E. }
  destruct (G _ L1) as [b Eb]. destruct (G _ L2) as [e Ee]. destruct (G _ L3) as [t Et].
  destruct (G _ L4) as [sc Es]. destruct (G _ L5) as [bs Ebs].
  exists b, e, t, sc, bs. repeat split; try assumption; try apply (R l b e t Hl Eb Ee Et).
Qed.

(* frames: same tables *)
Definition tabs_eq (st st' : bstate) : Prop :=
  b_src st' = b_src st /\ b_bMarks st' = b_bMarks st /\ b_eMarks st' = b_eMarks st /\ b_tShift st' = b_tShift st
  /\ b_sCount st' = b_sCount st /\ b_bsCount st' = b_bsCount st /\ b_lineMax st' = b_lineMax st.
Lemma tabs_eq_refl st : tabs_eq st st. Proof. repeat split. Qed.
Lemma tabs_eq_RI N st st' : tabs_eq st st' -> RI N st -> RI N st'.
Proof. intros (A1 & A2 & A3 & A4 & A5 & A6 & A7). unfold RI. rewrite A1, A2, A3, A4, A5, A6, A7. exact (fun x => x). Qed.
Lemma tabs_eq_trans a b c : tabs_eq a b -> tabs_eq b c -> tabs_eq a c.
Proof. unfold tabs_eq. intros (A1 & A2 & A3 & A4 & A5 & A6 & A7) (B1 & B2 & B3 & B4 & B5 & B6 & B7). repeat split; congruence. Qed.
Lemma tabs_eq_bpush st ty tag n f : tabs_eq st (bpush st ty tag n f).
Proof. repeat split. Qed.
Lemma tabs_eq_lineMax st st' : tabs_eq st st' -> b_lineMax st' = b_lineMax st.
Proof. intros (_ & _ & _ & _ & _ & _ & A). exact A. Qed.
Lemma fr_tabs_eq st st' : fr st st' -> tabs_eq st st'.
Proof. intros H. rewrite H. repeat split. Qed.

(* small reads *)
Lemma line_start_nr N st l : RI N st -> 0 <= l <= N -> nr (line_start st l).
Proof.
  intros R Hl. destruct (RI_reads N st l R Hl) as (b & e & t & sc & bs & Eb & Ee & Et & _).
  unfold line_start. rewrite Eb, Et. cbn [bind]. apply nr_ok.
Qed.
Lemma is_empty_nr N st l : RI N st -> 0 <= l <= N -> nr (is_empty st l).
Proof.
  intros R Hl. destruct (RI_reads N st l R Hl) as (b & e & t & sc & bs & Eb & Ee & Et & _).
  unfold is_empty, line_start. rewrite Eb, Et. cbn [bind]. rewrite Ee. cbn [bind]. apply nr_ok.
Qed.
Lemma is_code_block_nr N en st l : RI N st -> 0 <= l <= N -> nr (is_code_block en st l).
Proof.
  intros R Hl. destruct (RI_reads N st l R Hl) as (b & e & t & sc & bs & _ & _ & _ & Es & _).
  unfold is_code_block. rewrite Es. cbn [bind]. apply nr_ok.
Qed.

(* ---- indentation columns as getLines counts them ---- *)
Fixpoint gcol (fuel : nat) (src : str) (first p0 li bs : Z) : Z :=
  match fuel with
  | O => li
  | S f =>
      if first <? p0 then
        match char_at src first with
        | Some ch => gcol f src (first + 1) p0 (if is_space ch then (if ch =? 9 then li + (4 - (li + bs) mod 4) else li + 1) else li + 1) bs
        | None => li
        end
      else li
  end.
Definition gcols (src : str) (first p0 li bs : Z) : Z := gcol (S (Z.to_nat (p0 - first))) src first p0 li bs.

Lemma gcol_fuel : forall f1 f2 src first p0 li bs, (Z.to_nat (p0 - first) < f1)%nat -> (Z.to_nat (p0 - first) < f2)%nat ->
  gcol f1 src first p0 li bs = gcol f2 src first p0 li bs.
Proof.
  induction f1 as [|f1 IH]; intros f2 src first p0 li bs H1 H2; [lia|]. destruct f2 as [|f2]; [lia|]. cbn [gcol].
  destruct (first <? p0) eqn:E; [|reflexivity]. destruct (char_at src first); [|reflexivity]. apply IH; lia.
Qed.

Lemma gcols_step src first p0 li bs : first < p0 ->
  gcols src first p0 li bs = match char_at src first with
                             | Some ch => gcols src (first + 1) p0 (if is_space ch then (if ch =? 9 then li + (4 - (li + bs) mod 4) else li + 1) else li + 1) bs
                             | None => li end.
Proof.
  intros H. unfold gcols. replace (S (Z.to_nat (p0 - first))) with (S (S (Z.to_nat (p0 - (first + 1))))) by lia.
  cbn [gcol]. assert (E : (first <? p0) = true) by lia. rewrite E. destruct (char_at src first); reflexivity.
Qed.
Lemma gcols_end src first p0 li bs : p0 <= first -> gcols src first p0 li bs = li.
Proof. intros H. unfold gcols. cbn [gcol]. assert (E : (first <? p0) = false) by lia. rewrite E. reflexivity. Qed.

Lemma tabstop_mono bs x y : x <= y -> x + (4 - (x + bs) mod 4) <= y + (4 - (y + bs) mod 4).
Proof.
  intros H. pose proof (Z.mod_pos_bound (x + bs) 4 ltac:(lia)). pose proof (Z.mod_pos_bound (y + bs) 4 ltac:(lia)).
  pose proof (Z.div_mod (x + bs) 4 ltac:(lia)). pose proof (Z.div_mod (y + bs) 4 ltac:(lia)).
  assert ((x + bs) / 4 <= (y + bs) / 4) by (apply Z.div_le_mono; lia). lia.
Qed.

Lemma gcols_mono src bs p0 : forall (k : nat) first li li', Z.to_nat (p0 - first) = k -> li <= li' ->
  gcols src first p0 li bs <= gcols src first p0 li' bs.
Proof.
  induction k as [|k IH]; intros first li li' Hk Hl.
  - rewrite !gcols_end by lia. exact Hl.
  - rewrite !gcols_step by lia. destruct (char_at src first) as [ch|]; [|exact Hl].
    apply IH; [lia|]. destruct (is_space ch); [|lia]. destruct (ch =? 9); [apply tabstop_mono; exact Hl | lia].
Qed.
Lemma gcols_ge src bs p0 : forall (k : nat) first li, Z.to_nat (p0 - first) = k -> li <= gcols src first p0 li bs.
Proof.
  induction k as [|k IH]; intros first li Hk.
  - rewrite gcols_end by lia. lia.
  - rewrite gcols_step by lia. destruct (char_at src first) as [ch|]; [|lia].
    eapply Z.le_trans; [|apply IH; lia]. destruct (is_space ch); [|lia]. destruct (ch =? 9); [|lia].
    pose proof (Z.mod_pos_bound (li + bs) 4 ltac:(lia)). lia.
Qed.

Lemma gcols_split src bs p0 mid : forall (k : nat) first li, Z.to_nat (mid - first) = k -> 0 <= first -> first <= mid -> mid <= p0 ->
  gcols src first p0 li bs = gcols src mid p0 (gcols src first mid li bs) bs.
Proof.
  induction k as [|k IH]; intros first li Hk H0 H1 H2.
  - assert (first = mid) by lia. subst first. rewrite (gcols_end src mid mid) by lia. reflexivity.
  - rewrite (gcols_step src first p0) by lia. rewrite (gcols_step src first mid) by lia.
    destruct (char_at src first) as [ch|] eqn:E.
    + apply IH; lia.
    + (* beyond the end of the source nothing is counted on either side *)
      rewrite LfCount.char_at_nonneg in E by lia. apply nth_error_None in E.
      assert (G : forall (j : nat) f l, Z.to_nat (p0 - f) = j -> first <= f -> gcols src f p0 l bs = l).
      { induction j as [|j IHj]; intros f l Hj Hf; [apply gcols_end; lia|]. rewrite gcols_step by lia.
        rewrite LfCount.char_at_nonneg by lia.
        assert (X : nth_error src (Z.to_nat f) = None) by (apply nth_error_None; lia). rewrite X. reflexivity. }
      symmetry. eapply G; [reflexivity | lia].
Qed.

Lemma gcols_chars src bs p0 : forall (k : nat) first li, Z.to_nat (p0 - first) = k -> 0 <= first -> p0 <= len src ->
  li + (p0 - first) <= gcols src first p0 li bs \/ p0 < first.
Proof.
  induction k as [|k IH]; intros first li Hk H0 HL.
  - destruct (Z_lt_le_dec p0 first); [right; assumption|]. left. rewrite gcols_end by lia. lia.
  - left. rewrite gcols_step by lia.
    assert (E : exists ch, char_at src first = Some ch).
    { rewrite LfCount.char_at_nonneg by lia. destruct (nth_error src (Z.to_nat first)) eqn:X; [eexists; reflexivity|]. apply nth_error_None in X. unfold len in HL. lia. }
    destruct E as [ch E]. rewrite E.
    destruct (IH (first + 1) (if is_space ch then if ch =? 9 then li + (4 - (li + bs) mod 4) else li + 1 else li + 1) ltac:(lia) ltac:(lia) HL) as [A|A]; [|lia].
    eapply Z.le_trans; [|exact A]. destruct (is_space ch); [|lia]. destruct (ch =? 9); [|lia].
    pose proof (Z.mod_pos_bound (li + bs) 4 ltac:(lia)). lia.
Qed.

(* once the columns up to the logical line start reach the indent, the scan stops there at the latest *)
Lemma gl_scan_nr_cols : forall fuel src first last b li indent ts bs,
  0 <= first -> b <= first <= b + ts -> b + ts <= len src -> indent <= gcols src first (b + ts) li bs ->
  nr (gl_scan fuel src first last b li indent ts bs).
Proof.
  induction fuel as [|f IH]; intros src first last b li indent ts bs H0 HB HL HC; cbn [gl_scan]; [apply nr_ok|].
  destruct ((first <? last) && (li <? indent)) eqn:E; [|apply nr_ok].
  destruct (Z.eq_dec first (b + ts)) as [Eq|Ne]; [rewrite gcols_end in HC by lia; lia|].
  rewrite gcols_step in HC by lia.
  destruct (py_idx src first) as [ch|ex|] eqn:Ec; cbn [bind].
  2:{ intros e' X. exact (nr_py_idx src first ltac:(lia) ex Ec). }
  2:{ apply nr_oof. }
  assert (CA : char_at src first = Some ch).
  { unfold char_at. unfold py_idx in Ec. cbv zeta in *. destruct (get src (if first <? 0 then first + len src else first)); [congruence | discriminate Ec]. }
  rewrite CA in HC.
  destruct (is_space ch) eqn:Sp.
  - apply IH; try lia; try exact HC.
  - assert (X : (first - b <? ts) = true) by lia. rewrite X. apply IH; try lia; try exact HC.
Qed.

(* ---- getLines ---- *)
(* the scan reads only positions below [lim] *)
Lemma gl_scan_nr_lim : forall fuel src first last b li indent ts bs,
  0 <= first -> last <= len src -> nr (gl_scan fuel src first last b li indent ts bs).
Proof.
  induction fuel as [|f IH]; intros src first last b li indent ts bs H0 HL; cbn [gl_scan]; [apply nr_ok|].
  destruct ((first <? last) && (li <? indent)) eqn:E; [|apply nr_ok].
  apply nr_bind; [apply nr_py_idx; lia|]. intros ch Ec.
  destruct (is_space ch); [apply IH; lia|]. destruct (first - b <? ts); [apply IH; lia | apply nr_ok].
Qed.

(* the scan stops at the logical line start p0 = b + ts when a non-blank sits there *)
Lemma gl_scan_nr_stop : forall fuel src first last b li indent ts bs c0,
  0 <= first -> b <= first <= b + ts -> py_idx src (b + ts) = Ok c0 -> is_space c0 = false -> 0 <= b ->
  nr (gl_scan fuel src first last b li indent ts bs).
Proof.
  induction fuel as [|f IH]; intros src first last b li indent ts bs c0 H0 HB E0 S0 Hb; cbn [gl_scan]; [apply nr_ok|].
  destruct ((first <? last) && (li <? indent)) eqn:E; [|apply nr_ok].
  destruct (py_idx_get src (b + ts) c0 ltac:(lia) E0) as [_ L0].
  apply nr_bind; [apply nr_py_idx; lia|]. intros ch Ec.
  destruct (Z.eq_dec first (b + ts)) as [->|Ne].
  - rewrite E0 in Ec. injection Ec as <-. rewrite S0. replace (b + ts - b <? ts) with false by lia. apply nr_ok.
  - destruct (is_space ch); [eapply IH; try eassumption; lia|].
    destruct (first - b <? ts); [eapply IH; try eassumption; lia | apply nr_ok].
Qed.

(* a line may be cut with its line feed kept if the line feed exists or the line is not empty *)
Definition keep_ok (st : bstate) (l indent : Z) : Prop :=
  forall b e t bs, tb (b_bMarks st) l = Ok b -> tb (b_eMarks st) l = Ok e -> tb (b_tShift st) l = Ok t -> tb (b_bsCount st) l = Ok bs ->
    e < len (b_src st) \/ b + t < e \/ indent <= gcols (b_src st) b (b + t) 0 bs.

(* the recorded indentation never exceeds the columns getLines counts up to the logical line start *)
Definition CI (st : bstate) : Prop :=
  forall l b t sc bs, 0 <= l < b_lineMax st -> tb (b_bMarks st) l = Ok b -> tb (b_tShift st) l = Ok t -> tb (b_sCount st) l = Ok sc -> tb (b_bsCount st) l = Ok bs ->
    sc <= gcols (b_src st) b (b + t) 0 bs.

Lemma get_lines_loop_nr N st (R : RI N st) : forall fuel line endl indent keep,
  0 <= line -> endl <= N -> (keep = true -> line < endl -> keep_ok st (endl - 1) indent) ->
  nr (get_lines_loop fuel st line endl indent keep).
Proof.
  induction fuel as [|f IH]; intros line endl indent keep H0 HE HK; cbn [get_lines_loop]; [apply nr_ok|].
  destruct (negb (line <? endl)) eqn:E; [apply nr_ok|].
  destruct (RI_reads N st line R ltac:(lia)) as (b & e & t & sc & bs & Eb & Ee & Et & Es & Ebs & (B0 & T0 & E0 & I1 & I3 & I2)).
  rewrite Eb, Ee, Et, Ebs. cbn [bind].
  apply nr_bind.
  - destruct ((line + 1 <? endl) || keep) eqn:K.
    + (* the line feed is kept *)
      assert (Safe : e < len (b_src st) \/ b + t < e \/ indent <= gcols (b_src st) b (b + t) 0 bs).
      { destruct (line + 1 <? endl) eqn:X; [left; apply I1; lia|]. cbn [orb] in K. subst keep.
        assert (line = endl - 1) by lia. subst line. exact (HK eq_refl ltac:(lia) b e t bs Eb Ee Et Ebs). }
      destruct Safe as [S|[S|S]]; [apply gl_scan_nr_lim; lia| |apply gl_scan_nr_cols; try lia; exact S].
      destruct (I2 S) as (c0 & Ec0 & Sp0). eapply gl_scan_nr_stop; try eassumption; lia.
    + apply gl_scan_nr_lim; lia.
  - intros [first li] _. apply nr_bind; [|intros rest _; apply nr_ok].
    apply IH; [lia | exact HE|]. intros Hk Hl. apply HK; [exact Hk | lia].
Qed.

Lemma get_lines_nr N st (R : RI N st) a b indent keep :
  0 <= a -> b <= N -> (keep = true -> a < b -> keep_ok st (b - 1) indent) -> nr (get_lines st a b indent keep).
Proof. intros H0 HE HK. unfold get_lines. destruct (b <=? a); [apply nr_ok|]. apply (get_lines_loop_nr N st R); assumption. Qed.

(* ---- writing saved table entries back gives the original table ---- *)
Lemma tb_ext (l l' : list Z) : len l = len l' -> (forall j, 0 <= j < len l -> tb l j = tb l' j) -> l = l'.
Proof.
  revert l'. induction l as [|x l IH]; intros [|y l'] HL H; try reflexivity; try (unfold len in HL; cbn in HL; lia).
  assert (H0 := H 0 ltac:(rewrite len_cons; pose proof (len_nonneg l); lia)). rewrite !tb_nonneg in H0 by lia. cbn in H0. injection H0 as ->.
  f_equal. apply IH; [rewrite !len_cons in HL; lia|]. intros j Hj.
  specialize (H (j + 1) ltac:(rewrite len_cons; lia)). rewrite !tb_nonneg in * by lia.
  replace (Z.to_nat (j + 1)) with (S (Z.to_nat j)) in H by lia. exact H.
Qed.

(* T differs from T0 only on [lo, hi); S holds T0's entries of that range *)
Definition sv_tab (T T0 S : list Z) (lo hi : Z) : Prop :=
  len T = len T0 /\ (forall j, 0 <= j -> j < lo \/ hi <= j -> tb T j = tb T0 j)
  /\ len S = hi - lo /\ (forall i, 0 <= i < hi - lo -> tb S i = tb T0 (lo + i)).

Lemma sv_tab_init T lo : sv_tab T T [] lo lo.
Proof. split; [reflexivity|]. split; [reflexivity|]. split; [unfold len; cbn; lia|]. intros i Hi. lia. Qed.

(* save the entry of line hi, then (maybe) overwrite it *)
Lemma sv_tab_step T T0 S lo hi v T' x : sv_tab T T0 S lo hi -> 0 <= lo <= hi -> tb T hi = Ok x ->
  (T' = T \/ tb_set T hi v = Ok T') -> sv_tab T' T0 (S ++ [x]) lo (hi + 1).
Proof.
  intros (L & OO & LS & V) Hh Ex HT. pose proof (len_nonneg S).
  assert (LT : len T' = len T /\ forall j, 0 <= j -> j <> hi -> tb T' j = tb T j).
  { destruct HT as [->|HS]; [split; [reflexivity | intros; reflexivity]|]. destruct (tb_set_spec _ _ _ _ HS ltac:(lia)) as (_ & A & B). split; assumption. }
  destruct LT as [LT OT].
  split; [lia|]. split.
  - intros j Hj Hr. rewrite OT by lia. apply OO; lia.
  - split; [rewrite len_app; unfold len at 2; cbn; lia|]. intros i Hi.
    destruct (Z.eq_dec i (hi - lo)) as [->|Ni].
    + replace (lo + (hi - lo)) with hi by lia. rewrite tb_nonneg by lia. rewrite nth_error_app2 by (unfold len in LS; lia).
      replace (Z.to_nat (hi - lo) - length S)%nat with 0%nat by (unfold len in LS; lia). cbn. rewrite <- Ex. apply OO; lia.
    + rewrite <- V by lia. rewrite !tb_nonneg by lia. rewrite nth_error_app1 by (unfold len in LS; lia). reflexivity.
Qed.

(* sequential write-back *)
Fixpoint put_all (T : list Z) (line : Z) (vals : list Z) : res (list Z) :=
  match vals with [] => Ok T | v :: r => do T1 <- tb_set T line v; put_all T1 (line + 1) r end.

Lemma put_all_spec : forall vals T line T', put_all T line vals = Ok T' -> 0 <= line ->
  len T' = len T /\ (forall j, 0 <= j -> j < line \/ line + len vals <= j -> tb T' j = tb T j)
  /\ (forall i, 0 <= i < len vals -> tb T' (line + i) = tb vals i).
Proof.
  induction vals as [|v r IH]; intros T line T' H Hl; cbn [put_all] in H.
  - injection H as <-. split; [reflexivity|]. split; [reflexivity|]. intros i Hi. unfold len in Hi. cbn in Hi. lia.
  - destruct (tb_set T line v) as [T1|?|] eqn:E; cbn [bind] in H; try discriminate H.
    destruct (tb_set_spec _ _ _ _ E Hl) as (V1 & O1 & L1). destruct (IH _ _ _ H ltac:(lia)) as (L2 & O2 & V2).
    rewrite len_cons. pose proof (len_nonneg r). split; [lia|]. split.
    + intros j Hj Hr. rewrite O2 by lia. apply O1; lia.
    + intros i Hi. destruct (Z.eq_dec i 0) as [->|Ni].
      * rewrite Z.add_0_r. rewrite O2 by lia. rewrite V1. rewrite tb_nonneg by lia. reflexivity.
      * replace (line + i) with (line + 1 + (i - 1)) by lia. rewrite V2 by lia. rewrite !tb_nonneg by lia.
        replace (Z.to_nat i) with (S (Z.to_nat (i - 1))) by lia. reflexivity.
Qed.

Lemma put_all_restores T T0 S lo hi T' : sv_tab T T0 S lo hi -> 0 <= lo <= hi -> put_all T lo S = Ok T' -> T' = T0.
Proof.
  intros (L & OO & LS & V) Hh H. destruct (put_all_spec _ _ _ _ H ltac:(lia)) as (L' & O' & V').
  apply tb_ext; [lia|]. intros j Hj.
  destruct (Z_lt_le_dec j lo) as [A|A]; [rewrite O' by lia; apply OO; lia|].
  destruct (Z_lt_le_dec j hi) as [B|B]; [|rewrite O' by lia; apply OO; lia].
  replace j with (lo + (j - lo)) by lia. rewrite V' by lia. apply V. lia.
Qed.

Lemma tb_set_back T i v T1 x T2 : tb_set T i v = Ok T1 -> tb T i = Ok x -> tb_set T1 i x = Ok T2 -> 0 <= i -> T2 = T.
Proof.
  intros A B C Hi. destruct (tb_set_spec _ _ _ _ A Hi) as (V1 & O1 & L1). destruct (tb_set_spec _ _ _ _ C Hi) as (V2 & O2 & L2).
  apply tb_ext; [lia|]. intros j Hj. destruct (Z.eq_dec j i) as [->|N]; [rewrite V2; symmetry; exact B|]. rewrite O2 by lia. apply O1; lia.
Qed.

(* ---- leaf rules ---- *)
Section Rules.
Context (cfg : bcfg) (rf cf : str -> str).

Definition pre2 (N : Z) (st : bstate) (sl el : Z) : Prop := RI N st /\ 0 <= sl /\ sl < el /\ el <= b_lineMax st.

(* the shared prologue: line start, end mark, code test *)
Ltac prologue R Hl :=
  let b := fresh "b" in let e := fresh "e" in let t := fresh "t" in let sc := fresh "sc" in let bs := fresh "bs" in
  destruct (RI_reads _ _ _ R Hl) as (b & e & t & sc & bs & Eb & Ee & Et & Es & Ebs & (B0 & T0 & E0 & I1 & I3 & I2)).

Lemma hr_scan_nr : forall fuel src pos maximum marker cnt, 0 <= pos -> maximum <= len src -> nr (hr_scan fuel src pos maximum marker cnt).
Proof.
  induction fuel as [|f IH]; intros src pos maximum marker cnt H0 HM; cbn [hr_scan]; [apply nr_ok|].
  destruct (negb (pos <? maximum)) eqn:E; [apply nr_ok|].
  apply nr_bind; [apply nr_py_idx; lia|]. intros ch _.
  destruct (negb (ch =? marker) && negb (is_space ch)); [apply nr_ok | apply IH; lia].
Qed.

Lemma r_hr_nr N st sl el silent : pre2 N st sl el -> nr (r_hr cfg st sl el silent).
Proof.
  intros (R & S0 & S1 & S2). assert (Hl : 0 <= sl <= N) by (destruct R as [LM _]; lia). prologue R Hl.
  unfold r_hr, line_start, code_block_at, is_code_block. rewrite Eb, Et, Ee, Es. cbn [bind].
  destruct (c_code cfg && (4 <=? sc - b_blkIndent st)); [apply nr_ok|].
  destruct (char_at (b_src st) (b + t)) as [marker|]; [|apply nr_ok].
  destruct (negb ((marker =? 42) || (marker =? 45) || (marker =? 95))); [apply nr_ok|].
  apply nr_bind; [apply hr_scan_nr; lia|]. intros r _. destruct r as [cnt|]; [|apply nr_ok].
  destruct (cnt <? 3); [apply nr_ok|]. destruct silent; apply nr_ok.
Qed.

Lemma code_scan_nr N st (R : RI N st) : forall fuel nl el last, 0 <= nl -> el <= N -> nr (code_scan cfg fuel st nl el last).
Proof.
  induction fuel as [|f IH]; intros nl el last H0 HE; cbn [code_scan]; [apply nr_ok|].
  destruct (negb (nl <? el)) eqn:E; [apply nr_ok|].
  apply nr_bind; [apply (is_empty_nr N); [exact R | lia]|]. intros e _.
  destruct e; [apply IH; lia|].
  apply nr_bind; [apply (is_code_block_nr N); [exact R | lia]|]. intros c _.
  destruct c; [apply IH; lia | apply nr_ok].
Qed.

Lemma r_code_nr N st sl el silent : pre2 N st sl el -> nr (r_code cfg st sl el silent).
Proof.
  intros (R & S0 & S1 & S2). assert (LMN : b_lineMax st <= N) by (destruct R as [LM _]; lia).
  unfold r_code.
  apply nr_bind; [apply (is_code_block_nr N); [exact R | lia]|]. intros c _.
  destruct (negb c); [apply nr_ok|].
  apply nr_bind; [apply (code_scan_nr N st R); lia|]. intros last CS.
  apply code_scan_bounds in CS; [|lia]. destruct CS as [C1 C2]. specialize (C2 ltac:(lia)).
  apply nr_bind; [|intros content _; apply nr_ok].
  rewrite get_lines_line. apply (get_lines_nr N st R); [lia | lia | discriminate].
Qed.

Lemma fence_scan_nr N st (R : RI N st) : forall fuel nl el marker flen, 0 <= nl -> el <= N -> nr (fence_scan cfg fuel st nl el marker flen).
Proof.
  induction fuel as [|f IH]; intros nl el marker flen H0 HE; cbn [fence_scan]; [apply nr_ok|]. cbv zeta.
  destruct (el <=? nl + 1) eqn:E; [apply nr_ok|].
  destruct (RI_reads N st (nl + 1) R ltac:(lia)) as (b & e & t & sc & bs & Eb & Ee & Et & Es & Ebs & _).
  unfold line_start. rewrite Eb, Et. cbn [bind]. rewrite Ee. cbn [bind]. rewrite Es. cbn [bind].
  destruct ((b + t <? e) && (sc <? b_blkIndent st)); [apply nr_ok|].
  destruct (char_at (b_src st) (b + t)) as [c|]; [|apply nr_ok].
  destruct (negb (c =? marker)); [apply IH; lia|].
  unfold code_block_at, is_code_block. rewrite Es. cbn [bind].
  destruct (c_code cfg && (4 <=? sc - b_blkIndent st)); [apply IH; lia|].
  destruct (skip_chars (b_src st) (b + t) marker - (b + t) <? flen); [apply IH; lia|].
  destruct (skip_spaces (b_src st) (skip_chars (b_src st) (b + t) marker) <? e); [apply IH; lia | apply nr_ok].
Qed.

(* the body of a fence: every line it took in either has its line feed or is not empty *)
Lemma fence_scan_keep N st (R : RI N st) : forall fuel nl el marker flen r have,
  fence_scan cfg fuel st nl el marker flen = Ok (r, have) -> 0 <= nl -> el <= N ->
  (nl < r - 1 -> forall indent, keep_ok st (r - 1) indent).
Proof.
  induction fuel as [|f IH]; intros nl el marker flen r have H H0 HE; cbn [fence_scan] in H; [rfinish H; lia|]. cbv zeta in H.
  destruct (el <=? nl + 1) eqn:E; [rfinish H; lia|].
  destruct (RI_reads N st (nl + 1) R ltac:(lia)) as (b & e & t & sc & bs & Eb & Ee & Et & Es & Ebs & (B0 & T0 & E0 & I1 & I3 & I2)).
  unfold line_start in H. rewrite Eb, Et in H. cbn [bind] in H. rewrite Ee in H. cbn [bind] in H. rewrite Es in H. cbn [bind] in H.
  destruct ((b + t <? e) && (sc <? b_blkIndent st)); [rfinish H; lia|].
  destruct (char_at (b_src st) (b + t)) as [c|] eqn:Ec; [|rfinish H; lia].
  (* the line nl + 1 may be part of the body: it is keep-safe *)
  assert (KS : forall indent, keep_ok st (nl + 1) indent).
  { intros indent b' e' t' bs' Eb' Ee' Et' _. rewrite Eb in Eb'. rewrite Ee in Ee'. rewrite Et in Et'. injection Eb' as <-. injection Ee' as <-. injection Et' as <-.
    destruct (Z_lt_le_dec (b + t) e) as [Lt|Ge]; [right; left; exact Lt|]. left.
    rewrite LfCount.char_at_nonneg in Ec by lia.
    assert (Z.to_nat (b + t) < length (b_src st))%nat by (apply nth_error_Some; congruence). unfold len. lia. }
  assert (G : forall r' h', fence_scan cfg f st (nl + 1) el marker flen = Ok (r', h') -> nl < r' - 1 -> forall indent, keep_ok st (r' - 1) indent).
  { intros r' h' H' Hr. destruct (Z.eq_dec (r' - 1) (nl + 1)) as [Eq|Ne]; [rewrite Eq; exact KS|].
    apply (IH _ _ _ _ _ _ H'); [lia | lia|]. pose proof (fence_scan_bounds cfg _ _ _ _ _ _ _ _ H') as (A & _). lia. }
  destruct (negb (c =? marker)); [intros Hr; eapply G; eassumption|].
  unfold code_block_at, is_code_block in H. rewrite Es in H. cbn [bind] in H.
  destruct (c_code cfg && (4 <=? sc - b_blkIndent st)); [intros Hr; eapply G; eassumption|].
  destruct (skip_chars (b_src st) (b + t) marker - (b + t) <? flen); [intros Hr; eapply G; eassumption|].
  destruct (skip_spaces (b_src st) (skip_chars (b_src st) (b + t) marker) <? e); [intros Hr; eapply G; eassumption|].
  rfinish H. lia.
Qed.

Lemma r_fence_nr N st sl el silent : pre2 N st sl el -> nr (r_fence cfg st sl el silent).
Proof.
  intros (R & S0 & S1 & S2). assert (Hl : 0 <= sl <= N) by (destruct R as [LM _]; lia).
  assert (LMN : b_lineMax st <= N) by (destruct R as [LM _]; lia). prologue R Hl.
  unfold r_fence, line_start, code_block_at, is_code_block. rewrite Eb, Et, Ee, Es. cbn [bind].
  destruct (c_code cfg && (4 <=? sc - b_blkIndent st)); [apply nr_ok|].
  destruct (e <? b + t + 3) eqn:E3; [apply nr_ok|].
  apply nr_bind; [apply nr_py_idx; lia|]. intros marker _.
  destruct (negb ((marker =? 126) || (marker =? 96))); [apply nr_ok|]. cbv zeta.
  destruct (skip_chars (b_src st) (b + t) marker - (b + t) <? 3); [apply nr_ok|].
  destruct ((marker =? 96) && mem_z 96 (slice (b_src st) (skip_chars (b_src st) (b + t) marker) e)); [apply nr_ok|].
  destruct silent; [apply nr_ok|].
  apply nr_bind; [apply (fence_scan_nr N st R); lia|]. intros [nl have] FS.
  cbn [bind].
  pose proof (fence_scan_bounds cfg _ _ _ _ _ _ _ _ FS) as (F0 & F1 & F2 & F3). specialize (F2 S1).
  apply nr_bind; [|intros content _; apply nr_ok].
  rewrite get_lines_line. apply (get_lines_nr N st R); [lia | lia|].
  intros _ Hlt. apply (fence_scan_keep N st R _ _ _ _ _ _ _ FS); lia.
Qed.

Lemma skip_back_spec : forall fuel p src pos minimum r, skip_back fuel p src pos minimum = Ok r ->
  (minimum <= pos -> minimum <= r <= pos) /\ (pos < minimum -> r = pos).
Proof.
  induction fuel as [|f IH]; intros p src pos minimum r H; cbn [skip_back] in H; [rfinish H; lia|].
  destruct (pos <=? minimum) eqn:E; [rfinish H; lia|].
  rstep H. destruct (p x); [apply IH in H; lia | rfinish H; lia].
Qed.
Lemma skip_back_nr : forall fuel p src pos minimum, 0 <= minimum -> pos <= len src -> nr (skip_back fuel p src pos minimum).
Proof.
  induction fuel as [|f IH]; intros p src pos minimum H0 HL; cbn [skip_back]; [apply nr_ok|].
  destruct (pos <=? minimum) eqn:E; [apply nr_ok|].
  apply nr_bind; [apply nr_py_idx; lia|]. intros c _. destruct (p c); [apply IH; lia | apply nr_ok].
Qed.

Lemma r_heading_nr N st sl el silent : pre2 N st sl el -> nr (r_heading cfg st sl el silent).
Proof.
  intros (R & S0 & S1 & S2). assert (Hl : 0 <= sl <= N) by (destruct R as [LM _]; lia). prologue R Hl.
  unfold r_heading, line_start, code_block_at, is_code_block. rewrite Eb, Et, Ee, Es. cbn [bind].
  destruct (c_code cfg && (4 <=? sc - b_blkIndent st)); [apply nr_ok|].
  destruct (e <=? b + t) eqn:EP; [apply nr_ok|].
  apply nr_bind; [apply nr_py_idx; lia|]. intros ch _.
  destruct (negb (ch =? 35)); [apply nr_ok|].
  destruct (heading_level 8 (b_src st) (b + t + 1) e 1) as [p level] eqn:HL.
  apply heading_level_spec in HL; [|lia]. destruct HL as (A & B & _).
  destruct ((6 <? level) || ((p <? e) && negb (is_space_at (b_src st) p))); [apply nr_ok|].
  destruct silent; [apply nr_ok|].
  unfold skip_spaces_back, skip_chars_back.
  apply nr_bind; [apply skip_back_nr; lia|]. intros m1 M1. apply skip_back_spec in M1.
  apply nr_bind; [apply skip_back_nr; lia|]. intros tmp M2. apply skip_back_spec in M2.
  apply nr_bind; [|intros m2 _; apply nr_ok].
  destruct (p <? tmp) eqn:PT; [|apply nr_ok].
  apply nr_bind; [apply nr_py_idx; lia|]. intros c _. apply nr_ok.
Qed.

Lemma html_scan_nr N st (R : RI N st) : forall fuel closer nl el, 0 <= nl -> el <= N -> nr (html_scan fuel st closer nl el).
Proof.
  induction fuel as [|f IH]; intros closer nl el H0 HE; cbn [html_scan]; [apply nr_ok|].
  destruct (negb (nl <? el)) eqn:E; [apply nr_ok|].
  destruct (RI_reads N st nl R ltac:(lia)) as (b & e & t & sc & bs & Eb & Ee & Et & Es & Ebs & _).
  unfold line_start. rewrite Es. cbn [bind]. destruct (sc <? b_blkIndent st); [apply nr_ok|].
  rewrite Eb, Et. cbn [bind]. rewrite Ee. cbn [bind]. cbv zeta.
  destruct (test closer (slice (b_src st) (b + t) e)); [apply nr_ok | apply IH; lia].
Qed.

(* the last body line of an html block: it passed the indentation test, so its blanks cover the block indent *)
Lemma html_scan_keep N st (R : RI N st) (C : CI st) : forall fuel closer nl el r,
  html_scan fuel st closer nl el = Ok r -> 0 <= nl -> el <= b_lineMax st -> nl < r -> keep_ok st (r - 1) (b_blkIndent st).
Proof.
  induction fuel as [|f IH]; intros closer nl el r H H0 HE HR; cbn [html_scan] in H; [rfinish H; lia|].
  assert (LMN : b_lineMax st <= N) by (destruct R as [LM _]; lia).
  destruct (negb (nl <? el)) eqn:E; [rfinish H; lia|].
  destruct (RI_reads N st nl R ltac:(lia)) as (b & e & t & sc & bs & Eb & Ee & Et & Es & Ebs & (B0 & T0 & E0 & I1 & I3 & I2)).
  unfold line_start in H. rewrite Es in H. cbn [bind] in H. destruct (sc <? b_blkIndent st) eqn:SB; [rfinish H; lia|].
  rewrite Eb, Et in H. cbn [bind] in H. rewrite Ee in H. cbn [bind] in H. cbv zeta in H.
  assert (KS : keep_ok st nl (b_blkIndent st)).
  { intros b' e' t' bs' Eb' Ee' Et' Ebs'. rewrite Eb in Eb'. rewrite Ee in Ee'. rewrite Et in Et'. rewrite Ebs in Ebs'.
    injection Eb' as <-. injection Ee' as <-. injection Et' as <-. injection Ebs' as <-.
    right. right. pose proof (C nl b t sc bs ltac:(lia) Eb Et Es Ebs). lia. }
  destruct (test closer (slice (b_src st) (b + t) e)).
  - rfinish H. destruct (negb (len (slice (b_src st) (b + t) e) =? 0)); [|lia]. replace (nl + 1 - 1) with nl by lia. exact KS.
  - destruct (Z.eq_dec r (nl + 1)) as [->|Ne]; [replace (nl + 1 - 1) with nl by lia; exact KS|].
    pose proof (html_scan_bounds _ _ _ _ _ _ H) as [A _]. eapply IH; [exact H | lia | lia | lia].
Qed.

Lemma r_html_block_nr N st sl el silent : (silent = false -> CI st) -> pre2 N st sl el -> nr (r_html_block cfg st sl el silent).
Proof.
  intros HC (R & S0 & S1 & S2). assert (Hl : 0 <= sl <= N) by (destruct R as [LM _]; lia).
  assert (LMN : b_lineMax st <= N) by (destruct R as [LM _]; lia). prologue R Hl.
  unfold r_html_block, line_start, code_block_at, is_code_block. rewrite Eb, Et, Ee, Es. cbn [bind].
  destruct (c_code cfg && (4 <=? sc - b_blkIndent st)); [apply nr_ok|].
  destruct (negb (c_html cfg)); [apply nr_ok|].
  destruct (e <=? b + t) eqn:EP; [apply nr_ok|].
  apply nr_bind; [apply nr_py_idx; lia|]. intros c _. destruct (negb (c =? 60)); [apply nr_ok|]. cbv zeta.
  match goal with |- nr (match ?X with Some _ => _ | None => _ end) => destruct X as [[[opener closer] can]|] end; [|apply nr_ok].
  destruct silent; [apply nr_ok|]. specialize (HC eq_refl).
  assert (KSL : keep_ok st sl (b_blkIndent st)).
  { intros b' e' t' bs' Eb' Ee' Et' _. rewrite Eb in Eb'. rewrite Ee in Ee'. rewrite Et in Et'.
    injection Eb' as <-. injection Ee' as <-. injection Et' as <-. right. left. lia. }
  apply nr_bind.
  { destruct (test closer (slice (b_src st) (b + t) e)); [apply nr_ok|]. apply (html_scan_nr N st R); lia. }
  intros nl NL.
  assert (B : sl + 1 <= nl /\ nl <= el).
  { destruct (test closer (slice (b_src st) (b + t) e)); [rfinish NL; lia|]. apply html_scan_bounds in NL. lia. }
  apply nr_bind; [|intros content _; apply nr_ok].
  rewrite get_lines_line. change (b_blkIndent (st_line st nl)) with (b_blkIndent st).
  apply (get_lines_nr N st R); [lia | lia|]. intros _ _.
  destruct (test closer (slice (b_src st) (b + t) e)); [rfinish NL; replace (sl + 1 - 1) with sl by lia; exact KSL|].
  destruct (Z.eq_dec nl (sl + 1)) as [->|Ne]; [replace (sl + 1 - 1) with sl by lia; exact KSL|].
  eapply (html_scan_keep N st R HC); [exact NL | lia | lia | lia].
Qed.

(* ---- the paragraph-like rules ---- *)
(* a terminator callback: does not raise where the rules do not, returns the state it was given *)
Definition term_nr (N : Z) (term : term_t) : Prop :=
  forall ch st a b, ch <> [] -> pre2 N st a b -> nr (term ch st a b).

Lemma pre2_fr N st st' a b : fr st st' -> pre2 N st a b -> pre2 N st' a b.
Proof.
  intros F (R & A & B & C). split; [exact (tabs_eq_RI _ _ _ (fr_tabs_eq _ _ F) R)|]. split; [exact A|]. split; [exact B|].
  rewrite (fr_lineMax _ _ F). exact C.
Qed.

Lemma para_scan_nr N term (T : term_fr term) (TN : term_nr N term) chain (CN : chain <> []) : forall fuel st nl el cu,
  RI N st -> 0 <= nl -> el <= b_lineMax st -> nr (para_scan fuel term chain st nl el cu).
Proof.
  induction fuel as [|f IH]; intros st nl el cu R H0 HE; [apply nr_oof|]. cbn [para_scan].
  assert (LMN : b_lineMax st <= N) by (destruct R as [LM _]; lia).
  destruct (negb (nl <? el)) eqn:E; [apply nr_ok|].
  destruct (RI_reads N st nl R ltac:(lia)) as (b & e & t & sc & bs & Eb & Ee & Et & Es & Ebs & (B0 & T0 & E0 & I1 & I3 & I2)).
  unfold is_empty, line_start. rewrite Eb, Et. cbn [bind]. rewrite Ee. cbn [bind].
  destruct (e <=? b + t) eqn:EM; [apply nr_ok|]. rewrite Es. cbn [bind].
  destruct (3 <? sc - b_blkIndent st); [apply IH; try assumption; lia|].
  apply nr_bind.
  { destruct (cu && (b_blkIndent st <=? sc)); [|apply nr_ok]. cbn [bind].
    destruct (b + t <? e) eqn:PM; [|apply nr_ok].
    apply nr_bind; [apply nr_py_idx; lia|]. intros marker _.
    destruct ((marker =? 45) || (marker =? 61)); [|apply nr_ok]. cbv zeta.
    destruct (e <=? skip_spaces (b_src st) (skip_chars (b_src st) (b + t) marker)); apply nr_ok. }
  intros ul _. destruct ul as [ml|]; [apply nr_ok|].
  destruct (sc <? 0); [apply IH; try assumption; lia|].
  apply nr_bind; [apply TN; [exact CN|]; split; [exact R|]; lia|].
  intros [tt st'] TE. pose proof (T _ _ _ _ _ _ CN TE) as F.
  destruct tt; [apply nr_ok|]. apply IH; [exact (tabs_eq_RI _ _ _ (fr_tabs_eq _ _ F) R) | lia|].
  rewrite (fr_lineMax _ _ F). exact HE.
Qed.

Lemma r_paragraph_nr N term (T : term_fr term) (TN : term_nr N term) st sl el silent :
  pre2 N st sl el -> nr (r_paragraph term st sl el silent).
Proof.
  intros (R & S0 & S1 & S2). assert (LMN : b_lineMax st <= N) by (destruct R as [LM _]; lia).
  unfold r_paragraph. cbv zeta.
  apply nr_bind.
  { apply (para_scan_nr N term T TN nm_paragraph ltac:(discriminate)); [exact R | lia | cbn; lia]. }
  intros [[nl u] st1] PS.
  pose proof (para_scan_bounds _ _ _ _ _ _ _ _ _ _ PS) as (P1 & P2 & _). cbn [b_lineMax st_parent] in P2.
  specialize (P2 ltac:(change (b_lineMax (st_parent st nm_paragraph)) with (b_lineMax st); lia)).
  change (b_lineMax (st_parent st nm_paragraph)) with (b_lineMax st) in P2.
  apply (para_scan_fr term T nm_paragraph ltac:(discriminate)) in PS.
  assert (R1 : RI N st1) by (apply (tabs_eq_RI _ (st_parent st nm_paragraph)); [apply fr_tabs_eq, PS | exact R]).
  apply nr_bind; [|intros raw _; apply nr_ok].
  apply (get_lines_nr N st1 R1); [lia | lia | discriminate].
Qed.

Lemma r_lheading_nr N term (T : term_fr term) (TN : term_nr N term) st sl el silent :
  pre2 N st sl el -> nr (r_lheading cfg term st sl el silent).
Proof.
  intros (R & S0 & S1 & S2). assert (LMN : b_lineMax st <= N) by (destruct R as [LM _]; lia).
  unfold r_lheading.
  apply nr_bind; [apply (is_code_block_nr N); [exact R | lia]|]. intros c _.
  destruct c; [apply nr_ok|]. cbv zeta.
  apply nr_bind.
  { apply (para_scan_nr N term T TN nm_paragraph ltac:(discriminate)); [exact R | lia | cbn; lia]. }
  intros [[nl u] st1] PS.
  pose proof (para_scan_bounds _ _ _ _ _ _ _ _ _ _ PS) as (P1 & P2 & P3). specialize (P2 ltac:(lia)).
  apply (para_scan_fr term T nm_paragraph ltac:(discriminate)) in PS.
  assert (R1 : RI N st1) by (apply (tabs_eq_RI _ (st_parent st nm_paragraph)); [apply fr_tabs_eq, PS | exact R]).
  destruct u as [[marker level]|]; [|apply nr_ok].
  apply nr_bind; [|intros raw _; apply nr_ok].
  apply (get_lines_nr N st1 R1); [lia | lia | discriminate].
Qed.

(* ---- reference ---- *)
Lemma nr_py_idx_wrap (s : str) i : - len s <= i < len s -> nr (py_idx s i).
Proof.
  intros H e. unfold py_idx, get. cbv zeta.
  destruct (i <? 0) eqn:X.
  - assert (Y : (i + len s <? 0) = false) by lia. rewrite Y.
    destruct (nth_error s (Z.to_nat (i + len s))) eqn:E; [discriminate|]. apply nth_error_None in E. unfold len in *. lia.
  - rewrite X. destruct (nth_error s (Z.to_nat i)) eqn:E; [discriminate|]. apply nth_error_None in E. unfold len in *. lia.
Qed.

Lemma ref_prescan_nr : forall fuel src pos maximum, 0 <= pos -> maximum <= len src -> nr (ref_prescan fuel src pos maximum).
Proof.
  induction fuel as [|f IH]; intros src pos maximum H0 HM; cbn [ref_prescan]; [apply nr_ok|].
  destruct (negb (pos <? maximum)) eqn:E; [apply nr_ok|].
  apply nr_bind; [apply nr_py_idx; lia|]. intros c _.
  apply nr_bind; [apply nr_py_idx_wrap; lia|]. intros prev _.
  destruct ((c =? 93) && negb (prev =? 92)); [|apply IH; lia].
  destruct (pos + 1 =? maximum) eqn:PM; [apply nr_ok|].
  apply nr_bind; [apply nr_py_idx; lia|]. intros n _. apply nr_ok.
Qed.

(* the line a block rule is tried on is never empty: the line loop skips empty lines first *)
Definition nonempty (st : bstate) (l : Z) : Prop :=
  forall b e t, tb (b_bMarks st) l = Ok b -> tb (b_eMarks st) l = Ok e -> tb (b_tShift st) l = Ok t -> b + t < e.

Lemma r_reference_nr N term (T : term_fr term) (TN : term_nr N term) st sl el silent :
  pre2 N st sl el -> nonempty st sl -> nr (r_reference cfg rf cf term st sl el silent).
Proof.
  intros (R & S0 & S1 & S2) NE. assert (Hl : 0 <= sl <= N) by (destruct R as [LM _]; lia).
  assert (LMN : b_lineMax st <= N) by (destruct R as [LM _]; lia). prologue R Hl.
  specialize (NE b e t Eb Ee Et).
  unfold r_reference, line_start, code_block_at, is_code_block. rewrite Eb, Et, Ee, Es. cbn [bind].
  destruct (c_code cfg && (4 <=? sc - b_blkIndent st)); [apply nr_ok|].
  apply nr_bind; [apply nr_py_idx; lia|]. intros c0 _.
  destruct (negb (c0 =? 91)); [apply nr_ok|].
  apply nr_bind; [apply ref_prescan_nr; lia|]. intros ok _.
  destruct (negb ok); [apply nr_ok|]. cbv zeta.
  apply nr_bind.
  { apply (para_scan_nr N term T TN nm_reference ltac:(discriminate)); [exact R | lia | cbn; lia]. }
  intros [[nl u] st1] PS.
  pose proof (para_scan_bounds _ _ _ _ _ _ _ _ _ _ PS) as (P1 & P2 & _). cbn [b_lineMax st_parent] in P2.
  specialize (P2 ltac:(change (b_lineMax (st_parent st nm_reference)) with (b_lineMax st); lia)).
  change (b_lineMax (st_parent st nm_reference)) with (b_lineMax st) in P2.
  apply (para_scan_fr term T nm_reference ltac:(discriminate)) in PS.
  assert (R1 : RI N st1) by (apply (tabs_eq_RI _ (st_parent st nm_reference)); [apply fr_tabs_eq, PS | exact R]).
  apply nr_bind; [apply (get_lines_nr N st1 R1); [lia | lia | discriminate]|].
  intros raw _.
  (* the rest computes on the extracted string and the env: no table or source read *)
  cbv zeta.
  repeat first
    [ apply nr_ok
    | match goal with |- context [ref_label ?a ?b ?c ?d ?e] => destruct (ref_label a b c d e) as [[[?|] ?]|] end
    | match goal with |- context [skip_ws_nl ?a ?b ?c ?d ?e] => destruct (skip_ws_nl a b c d e) end
    | match goal with |- context [if ?c then _ else _] => destruct c end
    | progress cbv beta iota ].
Qed.

(* ---- table ---- *)
Lemma get_line_nr N st l : RI N st -> 0 <= l <= N -> nr (get_line st l).
Proof.
  intros R Hl. destruct (RI_reads N st l R Hl) as (b & e & t & sc & bs & Eb & Ee & Et & _).
  unfold get_line, line_start. rewrite Eb, Et. cbn [bind]. rewrite Ee. cbn [bind]. apply nr_ok.
Qed.

Lemma delim_chars_nr : forall fuel src pos maximum, 0 <= pos -> maximum <= len src -> nr (delim_chars fuel src pos maximum).
Proof.
  induction fuel as [|f IH]; intros src pos maximum H0 HM; cbn [delim_chars]; [apply nr_ok|].
  destruct (negb (pos <? maximum)) eqn:E; [apply nr_ok|].
  apply nr_bind; [apply nr_py_idx; lia|]. intros ch _.
  destruct (negb ((ch =? 124) || (ch =? 45) || (ch =? 58)) && negb (is_space ch)); [apply nr_ok | apply IH; lia].
Qed.

Lemma push_cells_tabs : forall aligns st oty cty tag cols a b sne, tabs_eq st (push_cells st oty cty tag aligns cols a b sne).
Proof.
  induction aligns as [|al aligns IH]; intros st oty cty tag cols a b sne; cbn [push_cells]; [apply tabs_eq_refl|].
  match goal with |- tabs_eq _ (push_cells ?s _ _ _ _ _ _ _ _) => pose proof (IH s oty cty tag (match cols with _ :: r => r | [] => [] end) a b sne) as H end.
  destruct H as (A1 & A2 & A3 & A4 & A5 & A6 & A7). repeat split; try (etransitivity; [eassumption|reflexivity]).
Qed.

Lemma table_rows_nr N term (T : term_fr term) (TN : term_nr N term) : forall fuel st aligns sl nl el tbody,
  RI N st -> 0 <= nl -> el <= b_lineMax st -> nr (table_rows cfg fuel term st aligns sl nl el tbody).
Proof.
  induction fuel as [|f IH]; intros st aligns sl nl el tbody R H0 HE; [apply nr_oof|]. cbn [table_rows].
  assert (LMN : b_lineMax st <= N) by (destruct R as [LM _]; lia).
  destruct (negb (nl <? el)) eqn:E; [apply nr_ok|].
  apply nr_bind; [apply nr_tb; destruct R as (_ & _ & _ & _ & L4 & _); lia|]. intros sc _.
  destruct (sc <? b_blkIndent st); [apply nr_ok|].
  apply nr_bind; [apply TN; [discriminate|]; split; [exact R|]; lia|].
  intros [tt st1] TE. pose proof (T nm_blockquote _ _ _ _ _ ltac:(discriminate) TE) as F.
  assert (R1 : RI N st1) by exact (tabs_eq_RI _ _ _ (fr_tabs_eq _ _ F) R).
  destruct tt; [apply nr_ok|].
  apply nr_bind; [apply (get_line_nr N); [exact R1 | lia]|]. intros raw _. cbv zeta.
  destruct (py_strip raw) as [|c0 lt]; [apply nr_ok|].
  apply nr_bind; [apply (is_code_block_nr N); [exact R1 | lia]|]. intros cb _.
  destruct cb; [apply nr_ok|].
  assert (ROW : forall s2 tb2, tabs_eq st1 s2 ->
            nr (table_rows cfg f term
                  (bpush (push_cells (bpush s2 s_tr_open s_tr 1 (map_tok nl (nl + 1))) [116; 100; 95; 111; 112; 101; 110] [116; 100; 95; 99; 108; 111; 115; 101] [116; 100]
                                     aligns (trim_cols (escaped_split (c0 :: lt))) nl (nl + 1) true) s_tr_close s_tr (-1) (fun t => t))
                  aligns sl (nl + 1) el tb2)).
  { intros s2 tb2 TE2.
    assert (TT : tabs_eq st1 (bpush (push_cells (bpush s2 s_tr_open s_tr 1 (map_tok nl (nl + 1))) [116; 100; 95; 111; 112; 101; 110] [116; 100; 95; 99; 108; 111; 115; 101] [116; 100]
                                     aligns (trim_cols (escaped_split (c0 :: lt))) nl (nl + 1) true) s_tr_close s_tr (-1) (fun t => t))).
    { eapply tabs_eq_trans; [exact TE2|]. eapply tabs_eq_trans; [apply tabs_eq_bpush|]. eapply tabs_eq_trans; [apply push_cells_tabs | apply tabs_eq_bpush]. }
    apply IH; [exact (tabs_eq_RI _ _ _ TT R1) | lia|]. rewrite (tabs_eq_lineMax _ _ TT), (fr_lineMax _ _ F). exact HE. }
  destruct (nl =? sl + 2); cbv beta iota; apply ROW; [apply tabs_eq_bpush | apply tabs_eq_refl].
Qed.

Lemma r_table_nr N term (T : term_fr term) (TN : term_nr N term) st sl el silent :
  pre2 N st sl el -> nr (r_table cfg term st sl el silent).
Proof.
  intros (R & S0 & S1 & S2). assert (LMN : b_lineMax st <= N) by (destruct R as [LM _]; lia).
  unfold r_table. destruct (el <? sl + 2) eqn:E2; [apply nr_ok|]. cbv zeta.
  destruct (RI_reads N st (sl + 1) R ltac:(lia)) as (b & e & t & sc & bs & Eb & Ee & Et & Es & Ebs & (B0 & T0 & E0 & I1 & I3 & I2)).
  rewrite Es. cbn [bind]. destruct (sc <? b_blkIndent st); [apply nr_ok|].
  unfold code_block_at, is_code_block at 1. rewrite Es. cbn [bind].
  destruct (c_code cfg && (4 <=? sc - b_blkIndent st)); [apply nr_ok|].
  unfold line_start at 1. rewrite Eb, Et. cbn [bind]. rewrite Ee. cbn [bind].
  destruct (e <=? b + t) eqn:EP; [apply nr_ok|].
  apply nr_bind; [apply nr_py_idx; lia|]. intros c1 _.
  destruct (negb ((c1 =? 124) || (c1 =? 45) || (c1 =? 58))); [apply nr_ok|].
  destruct (e <=? b + t + 1) eqn:EP1; [apply nr_ok|].
  apply nr_bind; [apply nr_py_idx; lia|]. intros c2 _.
  destruct (negb ((c2 =? 124) || (c2 =? 45) || (c2 =? 58)) && negb (is_space c2)); [apply nr_ok|].
  destruct ((c1 =? 45) && is_space c2); [apply nr_ok|].
  apply nr_bind; [apply delim_chars_nr; lia|]. intros okc _. destruct (negb okc); [apply nr_ok|].
  apply nr_bind; [apply (get_line_nr N); [exact R | lia]|]. intros delim _.
  destruct (table_aligns (split_char 124 delim) 0 (len (split_char 124 delim))) as [aligns|]; [|apply nr_ok].
  apply nr_bind; [apply (get_line_nr N); [exact R | lia]|]. intros hraw _.
  destruct (negb (mem_z 124 (py_strip hraw))); [apply nr_ok|].
  apply nr_bind; [apply (is_code_block_nr N); [exact R | lia]|]. intros cb2 _. destruct cb2; [apply nr_ok|].
  match goal with |- nr (if ?c then _ else _) => destruct c end; [apply nr_ok|].
  destruct silent; [apply nr_ok|].
  apply nr_bind; [|intros [[nl tbody] st7] _; apply nr_ok].
  match goal with |- nr (table_rows _ _ _ ?S _ _ _ _ _) => assert (TT : tabs_eq st S) end.
  { repeat (eapply tabs_eq_trans; [|apply tabs_eq_bpush]).
    eapply tabs_eq_trans; [|apply push_cells_tabs]. repeat (eapply tabs_eq_trans; [|apply tabs_eq_bpush]). repeat split. }
  apply (table_rows_nr N term T TN); [exact (tabs_eq_RI _ _ _ TT R) | lia|].
  rewrite (tabs_eq_lineMax _ _ TT). lia.
Qed.


(* ---- block quote ---- *)
Lemma bq_blanks_nr : forall fuel src pos maximum offset bs adj, 0 <= pos -> maximum <= len src ->
  nr (bq_blanks fuel src pos maximum offset bs adj).
Proof.
  induction fuel as [|f IH]; intros src pos maximum offset bs adj H0 HM; cbn [bq_blanks]; [apply nr_ok|].
  destruct (negb (pos <? maximum)) eqn:E; [apply nr_ok|].
  apply nr_bind; [apply nr_py_idx; lia|]. intros ch _. destruct (is_space ch); [apply IH; lia | apply nr_ok].
Qed.

(* where the blank scan stops: at the end mark, or on a non-blank (fuel = length of the source suffices) *)
Lemma bq_blanks_stop : forall fuel src pos maximum offset bs adj p2 o2,
  bq_blanks fuel src pos maximum offset bs adj = Ok (p2, o2) -> 0 <= pos -> (Z.to_nat (maximum - pos) < fuel)%nat ->
  p2 < maximum -> exists c, py_idx src p2 = Ok c /\ is_space c = false.
Proof.
  induction fuel as [|f IH]; intros src pos maximum offset bs adj p2 o2 H H0 HF HP; [lia|]. cbn [bq_blanks] in H.
  destruct (negb (pos <? maximum)) eqn:E; [rfinish H; lia|].
  destruct (py_idx src pos) as [ch|?|] eqn:Ec; cbn [bind] in H; try discriminate H.
  destruct (is_space ch) eqn:Sp; [eapply IH; [exact H | lia | lia | exact HP]|].
  rfinish H. exists ch. split; assumption.
Qed.

Lemma bq_blanks_le : forall fuel src pos maximum offset bs adj p2 o2,
  bq_blanks fuel src pos maximum offset bs adj = Ok (p2, o2) -> pos <= maximum -> p2 <= maximum.
Proof.
  induction fuel as [|f IH]; intros src pos maximum offset bs adj p2 o2 H HP; cbn [bq_blanks] in H; [rfinish H; lia|].
  destruct (negb (pos <? maximum)) eqn:E; [rfinish H; lia|].
  rstep H. destruct (is_space x); [apply IH in H; lia | rfinish H; lia].
Qed.

Lemma bq_strip_nr src pos0 maximum sc bs : 0 <= pos0 -> maximum <= len src -> nr (bq_strip src pos0 maximum sc bs).
Proof.
  intros H0 HM. unfold bq_strip. cbv zeta.
  set (tup := match char_at src (pos0 + 1) with
              | Some 32 => (pos0 + 1 + 1, sc + 1 + 1, sc + 1 + 1, false, true)
              | Some 9 => if (bs + (sc + 1)) mod 4 =? 3 then (pos0 + 1 + 1, sc + 1 + 1, sc + 1 + 1, false, true)
                          else (pos0 + 1, sc + 1, sc + 1, true, true)
              | _ => (pos0 + 1, sc + 1, sc + 1, false, false)
              end).
  assert (P : let '(pos1, _, _, _, _) := tup in 0 <= pos1).
  { unfold tup. destruct (char_at src (pos0 + 1)) as [[|p|p]|]; try lia.
    do 6 (try destruct p as [p|p|]); try lia. destruct ((bs + (sc + 1)) mod 4 =? 3); lia. }
  destruct tup as [[[[pos1 initial] offset] adj] sa].
  apply nr_bind; [apply bq_blanks_nr; lia|]. intros [p2 o2] _. apply nr_ok.
Qed.

(* the new row of a stripped line is well formed *)
Lemma bq_strip_row src N l pos0 e sc bs q : bq_strip src pos0 e sc bs = Ok q ->
  0 <= pos0 -> pos0 < e -> 0 <= e <= len src -> (l <= N - 2 -> e < len src) -> (e < len src -> py_idx src e = Ok 10) ->
  row_ok src N l (q_bMark q) e (q_tShift q) /\ 0 <= q_sCount q.
Proof.
  intros H H0 HP HE I1 I3. unfold bq_strip in H. cbv zeta in H.
  set (tup := match char_at src (pos0 + 1) with
              | Some 32 => (pos0 + 1 + 1, sc + 1 + 1, sc + 1 + 1, false, true)
              | Some 9 => if (bs + (sc + 1)) mod 4 =? 3 then (pos0 + 1 + 1, sc + 1 + 1, sc + 1 + 1, false, true)
                          else (pos0 + 1, sc + 1, sc + 1, true, true)
              | _ => (pos0 + 1, sc + 1, sc + 1, false, false)
              end) in *.
  (* a blank directly behind the marker lies before the end mark: at the end mark sits a line feed or nothing *)
  assert (P : let '(pos1, initial, offset, _, _) := tup in pos0 + 1 <= pos1 <= e /\ offset = initial).
  { unfold tup. destruct (char_at src (pos0 + 1)) as [c|] eqn:Ec; [|split; [lia | reflexivity]].
    assert (BL : is_space c = true -> pos0 + 2 <= e).
    { intros Sp. destruct (Z.eq_dec (pos0 + 1) e) as [Eq|Ne]; [|lia]. exfalso.
      rewrite LfCount.char_at_nonneg in Ec by lia.
      assert (LL : pos0 + 1 < len src) by (assert (Z.to_nat (pos0 + 1) < length src)%nat by (apply nth_error_Some; congruence); unfold len; lia).
      rewrite Eq in *. specialize (I3 LL). apply py_idx_get in I3; [|lia]. destruct I3 as [I3 _]. rewrite I3 in Ec. injection Ec as <-. discriminate Sp. }
    destruct c as [|p|p]; try (split; [lia | reflexivity]).
    do 6 (try destruct p as [p|p|]); try (split; [lia | reflexivity]).
    - destruct ((bs + (sc + 1)) mod 4 =? 3); (split; [|reflexivity]); [specialize (BL eq_refl); lia | lia].
    - specialize (BL eq_refl). split; [lia | reflexivity]. }
  destruct tup as [[[[pos1 initial] offset] adj] sa]. destruct P as [P1 ->].
  destruct (bq_blanks (S (length src)) src pos1 e initial bs adj) as [[p2 o2]|?|] eqn:BB; cbn [bind] in H; try discriminate H.
  pose proof (bq_blanks_mono _ _ _ _ _ _ _ _ _ BB) as [M1 M2]. pose proof (bq_blanks_le _ _ _ _ _ _ _ _ _ BB ltac:(lia)) as M3.
  injection H as <-. cbn [q_bMark q_tShift q_sCount]. split; [|lia].
  unfold row_ok. repeat split; try lia; try assumption.
  intros Hlt. replace (pos1 + (p2 - pos1)) with p2 in * by lia.
  eapply bq_blanks_stop; [exact BB | lia | | exact Hlt]. unfold len in HE. lia.
Qed.

(* the blank scans count columns as getLines does *)
Lemma py_idx_char_at (s : str) p c : 0 <= p -> py_idx s p = Ok c -> char_at s p = Some c.
Proof. intros H E. rewrite LfCount.char_at_nonneg by lia. destruct (py_idx_get _ _ _ H E) as [A _]. exact A. Qed.

Lemma bq_blanks_cols K : forall fuel src pos mx offset bs adj p2 o2 li bs',
  bq_blanks fuel src pos mx offset bs adj = Ok (p2, o2) -> 0 <= pos ->
  bs' = bs + (if adj then 1 else 0) + K -> offset <= li + K -> o2 <= gcols src pos p2 li bs' + K.
Proof.
  induction fuel as [|f IH]; intros src pos mx offset bs adj p2 o2 li bs' H H0 HB HO; cbn [bq_blanks] in H.
  - rfinish H. rewrite gcols_end by lia. exact HO.
  - destruct (negb (pos <? mx)) eqn:E; [rfinish H; rewrite gcols_end by lia; exact HO|].
    destruct (py_idx src pos) as [ch|?|] eqn:Ec; cbn [bind] in H; try discriminate H.
    destruct (is_space ch) eqn:Sp; [|rfinish H; rewrite gcols_end by lia; exact HO].
    pose proof (bq_blanks_mono _ _ _ _ _ _ _ _ _ H) as [M1 _].
    rewrite gcols_step by lia. rewrite (py_idx_char_at _ _ _ H0 Ec). rewrite Sp.
    eapply IH; [exact H | lia | exact HB|].
    destruct (ch =? 9); [|lia].
    set (a := if adj then 1 else 0) in *.
    pose proof (tabstop_mono (bs + a) offset (li + K) HO) as TM.
    replace (li + bs') with (li + K + (bs + a)) by lia. replace (offset + bs + a) with (offset + (bs + a)) by lia. lia.
Qed.

Lemma list_blanks_cols : forall fuel src pos mx offset bs p2 o2 li,
  list_blanks fuel src pos mx offset bs = Ok (p2, o2) -> 0 <= pos -> offset <= li -> o2 <= gcols src pos p2 li bs.
Proof.
  induction fuel as [|f IH]; intros src pos mx offset bs p2 o2 li H H0 HO; cbn [list_blanks] in H.
  - rfinish H. rewrite gcols_end by lia. exact HO.
  - destruct (negb (pos <? mx)) eqn:E; [rfinish H; rewrite gcols_end by lia; exact HO|].
    destruct (py_idx src pos) as [ch|?|] eqn:Ec; cbn [bind] in H; try discriminate H.
    destruct (ch =? 9) eqn:E9.
    + pose proof (list_blanks_mono _ _ _ _ _ _ _ _ H) as [M1 _].
      rewrite gcols_step by lia. rewrite (py_idx_char_at _ _ _ H0 Ec). assert (ch = 9) by lia. subst ch. change (is_space 9) with true. cbv iota. change (9 =? 9) with true. cbv iota.
      eapply IH; [exact H | lia|]. apply tabstop_mono. exact HO.
    + destruct (ch =? 32) eqn:E32; [|rfinish H; rewrite gcols_end by lia; exact HO].
      pose proof (list_blanks_mono _ _ _ _ _ _ _ _ H) as [M1 _].
      rewrite gcols_step by lia. rewrite (py_idx_char_at _ _ _ H0 Ec). assert (ch = 32) by lia. subst ch. change (is_space 32) with true. cbv iota. change (32 =? 9) with false. cbv iota.
      eapply IH; [exact H | lia | lia].
Qed.

(* the row a block quote writes: its indentation is covered by the columns of its blanks *)
Lemma bq_strip_cols src pos0 e sc bs q : bq_strip src pos0 e sc bs = Ok q -> 0 <= pos0 ->
  q_sCount q <= gcols src (q_bMark q) (q_bMark q + q_tShift q) 0 (q_bsCount q).
Proof.
  intros H H0. unfold bq_strip in H. cbv zeta in H.
  set (tup := match char_at src (pos0 + 1) with
              | Some 32 => (pos0 + 1 + 1, sc + 1 + 1, sc + 1 + 1, false, true)
              | Some 9 => if (bs + (sc + 1)) mod 4 =? 3 then (pos0 + 1 + 1, sc + 1 + 1, sc + 1 + 1, false, true)
                          else (pos0 + 1, sc + 1, sc + 1, true, true)
              | _ => (pos0 + 1, sc + 1, sc + 1, false, false)
              end) in *.
  assert (P : let '(pos1, initial, offset, adj, sa) := tup in
              0 <= pos1 /\ offset = initial /\ bs + sc + 1 + (if sa then 1 else 0) = bs + (if adj then 1 else 0) + initial).
  { unfold tup. destruct (char_at src (pos0 + 1)) as [[|p|p]|]; try (repeat split; lia).
    do 6 (try destruct p as [p|p|]); try (repeat split; lia). destruct ((bs + (sc + 1)) mod 4 =? 3); repeat split; lia. }
  destruct tup as [[[[pos1 initial] offset] adj] sa]. destruct P as (P1 & -> & P3).
  destruct (bq_blanks (S (length src)) src pos1 e initial bs adj) as [[p2 o2]|?|] eqn:BB; cbn [bind] in H; try discriminate H.
  pose proof (bq_blanks_cols initial _ _ _ _ _ _ _ _ _ 0 (bs + sc + 1 + (if sa then 1 else 0)) BB P1 P3 ltac:(lia)) as C.
  injection H as <-. cbn [q_bMark q_tShift q_sCount q_bsCount]. replace (pos1 + (p2 - pos1)) with p2 by lia. lia.
Qed.

(* rewriting one row keeps the invariant *)
Lemma RI_row_update N st st' l :
  RI N st -> 0 <= l <= N ->
  b_src st' = b_src st -> b_eMarks st' = b_eMarks st -> 0 <= b_lineMax st' <= N ->
  len (b_bMarks st') = N + 1 -> len (b_tShift st') = N + 1 -> len (b_sCount st') = N + 1 -> len (b_bsCount st') = N + 1 ->
  (forall j, 0 <= j -> j <> l -> tb (b_bMarks st') j = tb (b_bMarks st) j /\ tb (b_tShift st') j = tb (b_tShift st) j) ->
  (forall b e t, tb (b_bMarks st') l = Ok b -> tb (b_eMarks st) l = Ok e -> tb (b_tShift st') l = Ok t -> row_ok (b_src st) N l b e t) ->
  RI N st'.
Proof.
  intros (LM & L1 & L2 & L3 & L4 & L5 & R) Hl ES EE LM' M1 M3 M4 M5 OT NEW.
  unfold RI. rewrite ES, EE. split; [exact LM'|]. repeat (split; [assumption|]).
  intros j b e t Hj Eb Ee Et. destruct (Z.eq_dec j l) as [->|Nj].
  - exact (NEW b e t Eb Ee Et).
  - destruct (OT j ltac:(lia) Nj) as [A B]. rewrite A in Eb. rewrite B in Et. exact (R j b e t Hj Eb Ee Et).
Qed.

Lemma apply_bq_r N st line q : RI N st -> 0 <= line <= N ->
  (forall e, tb (b_eMarks st) line = Ok e -> row_ok (b_src st) N line (q_bMark q) e (q_tShift q)) ->
  nr (apply_bq st line q)
  /\ forall st', apply_bq st line q = Ok st' ->
       RI N st' /\ b_src st' = b_src st /\ b_eMarks st' = b_eMarks st /\ b_lineMax st' = b_lineMax st
       /\ tb (b_sCount st') line = Ok (q_sCount q) /\ (forall j, 0 <= j -> j <> line -> tb (b_sCount st') j = tb (b_sCount st) j)
       /\ b_blkIndent st' = b_blkIndent st /\ b_tokens st' = b_tokens st /\ b_line st' = b_line st.
Proof.
  intros R Hl G. pose proof R as (LM & L1 & L2 & L3 & L4 & L5 & _). unfold apply_bq. split.
  - apply nr_bind; [apply tb_set_nr; lia|]. intros bm _. apply nr_bind; [apply tb_set_nr; lia|]. intros bs _.
    apply nr_bind; [apply tb_set_nr; lia|]. intros sc _. apply nr_bind; [apply tb_set_nr; lia|]. intros ts _. apply nr_ok.
  - intros st' H.
    destruct (tb_set (b_bMarks st) line (q_bMark q)) as [bm|?|] eqn:E1; cbn [bind] in H; try discriminate H.
    destruct (tb_set (b_bsCount st) line (q_bsCount q)) as [bs|?|] eqn:E2; cbn [bind] in H; try discriminate H.
    destruct (tb_set (b_sCount st) line (q_sCount q)) as [sc|?|] eqn:E3; cbn [bind] in H; try discriminate H.
    destruct (tb_set (b_tShift st) line (q_tShift q)) as [ts|?|] eqn:E4; cbn [bind] in H; try discriminate H.
    injection H as <-.
    destruct (tb_set_spec _ _ _ _ E1 ltac:(lia)) as (V1 & O1 & K1). destruct (tb_set_spec _ _ _ _ E2 ltac:(lia)) as (V2 & O2 & K2).
    destruct (tb_set_spec _ _ _ _ E3 ltac:(lia)) as (V3 & O3 & K3). destruct (tb_set_spec _ _ _ _ E4 ltac:(lia)) as (V4 & O4 & K4).
    split; [|cbn; split; [reflexivity|]; split; [reflexivity|]; split; [reflexivity|]; split; [exact V3|]; split; [exact O3|]; split; [reflexivity|]; split; reflexivity].
    apply (RI_row_update N st _ line R Hl); cbn; try reflexivity; try lia.
    + intros j Hj Nj. split; [apply O1 | apply O4]; assumption.
    + intros b e t Eb Ee Et. rewrite V1 in Eb. rewrite V4 in Et. injection Eb as <-. injection Et as <-. exact (G e Ee).
Qed.

(* saved rows that may be written back *)
Fixpoint svr (src : str) (eM : list Z) (N line : Z) (b ts : list Z) : Prop :=
  match b, ts with
  | x :: b', t :: ts' => (forall e, tb eM line = Ok e -> row_ok src N line x e t) /\ svr src eM N (line + 1) b' ts'
  | _, _ => True
  end.

Lemma svr_snoc src eM N : forall b ts line x t, svr src eM N line b ts -> length b = length ts ->
  (forall e, tb eM (line + len b) = Ok e -> row_ok src N (line + len b) x e t) -> svr src eM N line (b ++ [x]) (ts ++ [t]).
Proof.
  induction b as [|y b IH]; intros ts line x t H L G.
  - destruct ts; [|discriminate L]. cbn. unfold len in G. cbn in G. rewrite Z.add_0_r in G. split; [exact G | trivial].
  - destruct ts as [|u ts]; [discriminate L|]. cbn [app svr] in *. destruct H as [H1 H2]. split; [exact H1|].
    apply IH; [exact H2 | cbn in L; lia|]. replace (line + 1 + len b) with (line + len (y :: b)) by (unfold len; cbn [length]; lia). exact G.
Qed.

Lemma save_line_r N sv st line sl0 : RI N st -> 0 <= line <= N ->
  svr (b_src st) (b_eMarks st) N sl0 (o_b sv) (o_ts sv) -> len (o_b sv) = line - sl0 -> len (o_ts sv) = line - sl0 ->
  len (o_bs sv) = line - sl0 -> len (o_sc sv) = line - sl0 ->
  nr (save_line sv st line)
  /\ forall sv', save_line sv st line = Ok sv' ->
       svr (b_src st) (b_eMarks st) N sl0 (o_b sv') (o_ts sv') /\ len (o_b sv') = line + 1 - sl0 /\ len (o_ts sv') = line + 1 - sl0
       /\ len (o_bs sv') = line + 1 - sl0 /\ len (o_sc sv') = line + 1 - sl0.
Proof.
  intros R Hl SO L1 L2 L3 L4.
  destruct (RI_reads N st line R Hl) as (b & e & t & sc & bs & Eb & Ee & Et & Es & Ebs & RO).
  unfold save_line. rewrite Eb, Ebs, Et, Es. cbn [bind]. split; [apply nr_ok|].
  intros sv' H. injection H as <-. cbn [o_b o_ts o_bs o_sc]. split.
  - apply svr_snoc; [exact SO | unfold len in *; lia|]. replace (sl0 + len (o_b sv)) with line by lia.
    intros e' Ee'. rewrite Ee in Ee'. injection Ee' as <-. exact RO.
  - rewrite !len_app. unfold len at 2 4 6 8. cbn [length]. lia.
Qed.

Lemma restore_tables_r N : forall ts st line b bs sc,
  RI N st -> 0 <= line -> line + len ts <= N + 1 -> length b = length ts -> length bs = length ts -> length sc = length ts ->
  svr (b_src st) (b_eMarks st) N line b ts ->
  nr (restore_tables st line b bs ts sc)
  /\ forall st', restore_tables st line b bs ts sc = Ok st' ->
       RI N st' /\ b_src st' = b_src st /\ b_eMarks st' = b_eMarks st /\ b_lineMax st' = b_lineMax st
       /\ b_tokens st' = b_tokens st /\ b_line st' = b_line st /\ b_blkIndent st' = b_blkIndent st.
Proof.
  induction ts as [|t ts IH]; intros st line b bs sc R H0 HN Lb Lbs Lsc SO.
  - destruct b; [|discriminate Lb]. destruct bs; [|discriminate Lbs]. destruct sc; [|discriminate Lsc].
    cbn [restore_tables]. split; [apply nr_ok|]. intros st' H. injection H as <-. split; [exact R|]. repeat split.
  - destruct b as [|x b]; [discriminate Lb|]. destruct bs as [|y bs]; [discriminate Lbs|]. destruct sc as [|s sc]; [discriminate Lsc|].
    cbn [restore_tables]. rewrite len_cons in HN. pose proof (len_nonneg ts) as Lt.
    pose proof R as (LM & L1 & L2 & L3 & L4 & L5 & _). cbn [svr] in SO. destruct SO as [G SO].
    destruct (tb_set (b_bMarks st) line x) as [bm|e1|] eqn:E1; [|exfalso; exact (tb_set_nr (b_bMarks st) line x ltac:(lia) e1 E1)|cbn [bind]; split; [apply nr_oof | discriminate]].
    destruct (tb_set (b_tShift st) line t) as [tsl|e2|] eqn:E2; [|exfalso; exact (tb_set_nr (b_tShift st) line t ltac:(lia) e2 E2)|cbn [bind]; split; [apply nr_oof | discriminate]].
    destruct (tb_set (b_sCount st) line s) as [scl|e3|] eqn:E3; [|exfalso; exact (tb_set_nr (b_sCount st) line s ltac:(lia) e3 E3)|cbn [bind]; split; [apply nr_oof | discriminate]].
    destruct (tb_set (b_bsCount st) line y) as [bsl|e4|] eqn:E4; [|exfalso; exact (tb_set_nr (b_bsCount st) line y ltac:(lia) e4 E4)|cbn [bind]; split; [apply nr_oof | discriminate]].
    cbn [bind].
    destruct (tb_set_spec _ _ _ _ E1 ltac:(lia)) as (V1 & O1 & K1). destruct (tb_set_spec _ _ _ _ E2 ltac:(lia)) as (V2 & O2 & K2).
    destruct (tb_set_spec _ _ _ _ E3 ltac:(lia)) as (V3 & O3 & K3). destruct (tb_set_spec _ _ _ _ E4 ltac:(lia)) as (V4 & O4 & K4).
    match goal with |- nr (restore_tables ?S _ _ _ _ _) /\ _ => assert (R1 : RI N S) end.
    { apply (RI_row_update N st _ line R ltac:(lia)); cbn; try reflexivity; try lia.
      - intros j Hj Nj. split; [apply O1 | apply O2]; assumption.
      - intros b0 e t0 Eb Ee Et. rewrite V1 in Eb. rewrite V2 in Et. injection Eb as <-. injection Et as <-. exact (G e Ee). }
    match goal with |- nr (restore_tables ?S _ _ _ _ _) /\ _ =>
      destruct (IH S (line + 1) b bs sc R1 ltac:(lia) ltac:(lia) ltac:(cbn in Lb; lia) ltac:(cbn in Lbs; lia) ltac:(cbn in Lsc; lia) SO) as [NR POST] end.
    split; [exact NR|]. intros st' H. destruct (POST st' H) as (A & B & C & D & E & F & G2). cbn in B, C, D, E, F, G2.
    split; [exact A|]. repeat split; assumption.
Qed.

(* the four rewritten tables against their originals *)
Definition sv4 (st st0 : bstate) (sv : saved) (lo hi : Z) : Prop :=
  sv_tab (b_bMarks st) (b_bMarks st0) (o_b sv) lo hi /\ sv_tab (b_bsCount st) (b_bsCount st0) (o_bs sv) lo hi
  /\ sv_tab (b_tShift st) (b_tShift st0) (o_ts sv) lo hi /\ sv_tab (b_sCount st) (b_sCount st0) (o_sc sv) lo hi.

Lemma sv4_same st st' st0 sv lo hi :
  b_bMarks st' = b_bMarks st -> b_bsCount st' = b_bsCount st -> b_tShift st' = b_tShift st -> b_sCount st' = b_sCount st ->
  sv4 st st0 sv lo hi -> sv4 st' st0 sv lo hi.
Proof. intros A B C D H. unfold sv4. rewrite A, B, C, D. exact H. Qed.

Lemma restore_is_put_all : forall ts st line b bs sc st', restore_tables st line b bs ts sc = Ok st' ->
  length b = length ts -> length bs = length ts -> length sc = length ts ->
  put_all (b_bMarks st) line b = Ok (b_bMarks st') /\ put_all (b_bsCount st) line bs = Ok (b_bsCount st')
  /\ put_all (b_tShift st) line ts = Ok (b_tShift st') /\ put_all (b_sCount st) line sc = Ok (b_sCount st').
Proof.
  induction ts as [|t ts IH]; intros st line b bs sc st' H Lb Lbs Lsc.
  - destruct b; [|discriminate Lb]. destruct bs; [|discriminate Lbs]. destruct sc; [|discriminate Lsc].
    cbn [restore_tables] in H. injection H as <-. repeat split.
  - destruct b as [|x b]; [discriminate Lb|]. destruct bs as [|y bs]; [discriminate Lbs|]. destruct sc as [|s sc]; [discriminate Lsc|].
    cbn [restore_tables] in H.
    destruct (tb_set (b_bMarks st) line x) as [bm|?|] eqn:E1; cbn [bind] in H; try discriminate H.
    destruct (tb_set (b_tShift st) line t) as [tsl|?|] eqn:E2; cbn [bind] in H; try discriminate H.
    destruct (tb_set (b_sCount st) line s) as [scl|?|] eqn:E3; cbn [bind] in H; try discriminate H.
    destruct (tb_set (b_bsCount st) line y) as [bsl|?|] eqn:E4; cbn [bind] in H; try discriminate H.
    apply IH in H; [|cbn in Lb; lia|cbn in Lbs; lia|cbn in Lsc; lia]. cbn in H. destruct H as (A & B & C & D).
    cbn [put_all]. rewrite E1, E2, E3, E4. cbn [bind]. repeat split; assumption.
Qed.

Lemma save_line_vals sv st line sv' : save_line sv st line = Ok sv' ->
  exists b bs t sc, tb (b_bMarks st) line = Ok b /\ tb (b_bsCount st) line = Ok bs /\ tb (b_tShift st) line = Ok t /\ tb (b_sCount st) line = Ok sc
    /\ o_b sv' = o_b sv ++ [b] /\ o_bs sv' = o_bs sv ++ [bs] /\ o_ts sv' = o_ts sv ++ [t] /\ o_sc sv' = o_sc sv ++ [sc].
Proof.
  unfold save_line. intros H.
  destruct (tb (b_bMarks st) line) as [b|?|] eqn:E1; cbn [bind] in H; try discriminate H.
  destruct (tb (b_bsCount st) line) as [bs|?|] eqn:E2; cbn [bind] in H; try discriminate H.
  destruct (tb (b_tShift st) line) as [t|?|] eqn:E3; cbn [bind] in H; try discriminate H.
  destruct (tb (b_sCount st) line) as [sc|?|] eqn:E4; cbn [bind] in H; try discriminate H.
  injection H as <-. exists b, bs, t, sc. repeat split.
Qed.

(* save line hi, then rewrite (some of) its entries *)
Lemma sv4_step st st0 sv lo hi sv' st' v1 v2 v3 v4 :
  sv4 st st0 sv lo hi -> 0 <= lo <= hi -> save_line sv st hi = Ok sv' ->
  (b_bMarks st' = b_bMarks st \/ tb_set (b_bMarks st) hi v1 = Ok (b_bMarks st')) ->
  (b_bsCount st' = b_bsCount st \/ tb_set (b_bsCount st) hi v2 = Ok (b_bsCount st')) ->
  (b_tShift st' = b_tShift st \/ tb_set (b_tShift st) hi v3 = Ok (b_tShift st')) ->
  (b_sCount st' = b_sCount st \/ tb_set (b_sCount st) hi v4 = Ok (b_sCount st')) ->
  sv4 st' st0 sv' lo (hi + 1).
Proof.
  intros (A & B & C & D) Hh SL H1 H2 H3 H4.
  destruct (save_line_vals _ _ _ _ SL) as (b & bs & t & sc & E1 & E2 & E3 & E4 & O1 & O2 & O3 & O4).
  unfold sv4. rewrite O1, O2, O3, O4. split; [|split; [|split]].
  - eapply (sv_tab_step _ _ _ _ _ v1); eassumption.
  - eapply (sv_tab_step _ _ _ _ _ v2); eassumption.
  - eapply (sv_tab_step _ _ _ _ _ v3); eassumption.
  - eapply (sv_tab_step _ _ _ _ _ v4); eassumption.
Qed.

Lemma apply_bq_sets st line q st' : apply_bq st line q = Ok st' ->
  tb_set (b_bMarks st) line (q_bMark q) = Ok (b_bMarks st') /\ tb_set (b_bsCount st) line (q_bsCount q) = Ok (b_bsCount st')
  /\ tb_set (b_tShift st) line (q_tShift q) = Ok (b_tShift st') /\ tb_set (b_sCount st) line (q_sCount q) = Ok (b_sCount st').
Proof.
  unfold apply_bq. intros H.
  destruct (tb_set (b_bMarks st) line (q_bMark q)) as [bm|?|] eqn:E1; cbn [bind] in H; try discriminate H.
  destruct (tb_set (b_bsCount st) line (q_bsCount q)) as [bs|?|] eqn:E2; cbn [bind] in H; try discriminate H.
  destruct (tb_set (b_sCount st) line (q_sCount q)) as [sc|?|] eqn:E3; cbn [bind] in H; try discriminate H.
  destruct (tb_set (b_tShift st) line (q_tShift q)) as [ts|?|] eqn:E4; cbn [bind] in H; try discriminate H.
  injection H as <-. repeat split.
Qed.

Definition CIb (st : bstate) (M : Z) : Prop :=
  forall l b t sc bs, 0 <= l < M -> tb (b_bMarks st) l = Ok b -> tb (b_tShift st) l = Ok t -> tb (b_sCount st) l = Ok sc -> tb (b_bsCount st) l = Ok bs ->
    sc <= gcols (b_src st) b (b + t) 0 bs.
Lemma CI_CIb st : CI st <-> CIb st (b_lineMax st).
Proof. unfold CI, CIb. tauto. Qed.

Lemma apply_bq_CIb st line q st' M : apply_bq st line q = Ok st' -> 0 <= line -> CIb st M ->
  q_sCount q <= gcols (b_src st) (q_bMark q) (q_bMark q + q_tShift q) 0 (q_bsCount q) -> CIb st' M.
Proof.
  intros AB Hl C Q. destruct (apply_bq_sets _ _ _ _ AB) as (W1 & W2 & W3 & W4).
  destruct (tb_set_spec _ _ _ _ W1 Hl) as (V1 & O1 & _). destruct (tb_set_spec _ _ _ _ W2 Hl) as (V2 & O2 & _).
  destruct (tb_set_spec _ _ _ _ W3 Hl) as (V3 & O3 & _). destruct (tb_set_spec _ _ _ _ W4 Hl) as (V4 & O4 & _).
  assert (ES : b_src st' = b_src st).
  { unfold apply_bq in AB. rewrite W1, W2, W4, W3 in AB. cbn [bind] in AB. injection AB as <-. reflexivity. }
  intros l b t sc bs Hlm Eb Et Es Ebs. rewrite ES. destruct (Z.eq_dec l line) as [->|Nl].
  - rewrite V1 in Eb. rewrite V3 in Et. rewrite V4 in Es. rewrite V2 in Ebs. injection Eb as <-. injection Et as <-. injection Es as <-. injection Ebs as <-. exact Q.
  - rewrite O1 in Eb by lia. rewrite O3 in Et by lia. rewrite O4 in Es by lia. rewrite O2 in Ebs by lia. exact (C l b t sc bs Hlm Eb Et Es Ebs).
Qed.

(* only an sCount entry changes, to something not larger *)
Lemma CIb_sc_update st st' line v M : CIb st M -> 0 <= line ->
  b_src st' = b_src st -> b_bMarks st' = b_bMarks st -> b_tShift st' = b_tShift st -> b_bsCount st' = b_bsCount st ->
  tb_set (b_sCount st) line v = Ok (b_sCount st') ->
  (line < M -> forall b t bs, tb (b_bMarks st) line = Ok b -> tb (b_tShift st) line = Ok t -> tb (b_bsCount st) line = Ok bs -> v <= gcols (b_src st) b (b + t) 0 bs) ->
  CIb st' M.
Proof.
  intros C Hl A1 A2 A3 A4 TS Q. destruct (tb_set_spec _ _ _ _ TS Hl) as (V & O & _).
  intros l b t sc bs Hlm Eb Et Es Ebs. rewrite A1. rewrite A2 in Eb. rewrite A3 in Et. rewrite A4 in Ebs.
  destruct (Z.eq_dec l line) as [->|Nl].
  - rewrite V in Es. injection Es as <-. apply Q; try assumption; lia.
  - rewrite O in Es by lia. exact (C l b t sc bs Hlm Eb Et Es Ebs).
Qed.

Lemma CIb_same st st' M : b_src st' = b_src st -> b_bMarks st' = b_bMarks st -> b_tShift st' = b_tShift st -> b_sCount st' = b_sCount st ->
  b_bsCount st' = b_bsCount st -> CIb st M -> CIb st' M.
Proof. intros A1 A2 A3 A4 A5 H. unfold CIb. rewrite A1, A2, A3, A4, A5. exact H. Qed.

Lemma CIb_weaken st M M' : CIb st M -> M' <= M -> CIb st M'.
Proof. intros H Hm l b t sc bs Hl. apply H. lia. Qed.

(* changes that leave the marks alone: lineMax lowered, sCount entries rewritten *)
Lemma RI_same_marks N st st' : RI N st ->
  b_src st' = b_src st -> b_bMarks st' = b_bMarks st -> b_eMarks st' = b_eMarks st -> b_tShift st' = b_tShift st ->
  0 <= b_lineMax st' <= N -> len (b_sCount st') = N + 1 -> len (b_bsCount st') = N + 1 -> RI N st'.
Proof.
  intros (LM & L1 & L2 & L3 & L4 & L5 & RR) A1 A2 A3 A4 LM' K4 K5. unfold RI. rewrite A1, A2, A3, A4.
  split; [exact LM'|]. split; [exact L1|]. split; [exact L2|]. split; [exact L3|]. split; [exact K4|]. split; [exact K5|]. exact RR.
Qed.

Definition sv_lens (sv : saved) (n : Z) : Prop := len (o_b sv) = n /\ len (o_ts sv) = n /\ len (o_bs sv) = n /\ len (o_sc sv) = n.

Lemma bq_loop_r N term (T : term_fr term) (TN : term_nr N term) sl0 st0 : forall fuel st sv nl el lle,
  RI N st -> 0 <= sl0 -> sl0 < nl -> nl <= el -> el <= b_lineMax st ->
  svr (b_src st) (b_eMarks st) N sl0 (o_b sv) (o_ts sv) -> sv_lens sv (nl - sl0) -> sv4 st st0 sv sl0 nl -> CIb st (b_lineMax st) ->
  nr (bq_loop fuel term st sv nl el lle)
  /\ forall r sv' st', bq_loop fuel term st sv nl el lle = Ok (r, sv', st') ->
       RI N st' /\ nl <= r <= el /\ r <= b_lineMax st' <= b_lineMax st
       /\ b_src st' = b_src st /\ b_eMarks st' = b_eMarks st
       /\ svr (b_src st') (b_eMarks st') N sl0 (o_b sv') (o_ts sv')
       /\ (exists n, sv_lens sv' n /\ r - sl0 <= n <= r + 1 - sl0 /\ sv4 st' st0 sv' sl0 (sl0 + n)) /\ CIb st' (b_lineMax st').
Proof.
  induction fuel as [|f IH]; intros st sv nl el lle R S0 S1 L0 L1 SO (N1 & N2 & N3 & N4) S4 CB; [split; [apply nr_oof | discriminate]|].
  assert (S4' : sv4 st st0 sv sl0 (sl0 + (nl - sl0))) by (replace (sl0 + (nl - sl0)) with nl by lia; exact S4).
  cbn [bq_loop].
  assert (LMN : b_lineMax st <= N) by (destruct R as [LM _]; lia).
  destruct (negb (nl <? el)) eqn:NE.
  { split; [apply nr_ok|]. intros r sv' st' H. injection H as <- <- <-. split; [exact R|]. split; [lia|]. split; [lia|].
    split; [reflexivity|]. split; [reflexivity|]. split; [exact SO|]. split; [|exact CB]. exists (nl - sl0). split; [repeat split; assumption|]. split; [lia | exact S4']. }
  destruct (RI_reads N st nl R ltac:(lia)) as (b & e & t & sc & bs & Eb & Ee & Et & Es & Ebs & (B0 & T0 & E0 & I1 & I3 & I2)).
  unfold line_start. rewrite Es. cbn [bind]. rewrite Eb, Et. cbn [bind]. rewrite Ee. cbn [bind].
  destruct (e <=? b + t) eqn:MP.
  { split; [apply nr_ok|]. intros r sv' st' H. injection H as <- <- <-. split; [exact R|]. split; [lia|]. split; [lia|].
    split; [reflexivity|]. split; [reflexivity|]. split; [exact SO|]. split; [|exact CB]. exists (nl - sl0). split; [repeat split; assumption|]. split; [lia | exact S4']. }
  destruct (py_idx (b_src st) (b + t)) as [c|ex|] eqn:Ec; cbn [bind].
  2:{ exfalso. exact (nr_py_idx (b_src st) (b + t) ltac:(lia) ex Ec). }
  2:{ split; [apply nr_oof | discriminate]. }
  destruct ((c =? 62) && negb (sc <? b_blkIndent st)) eqn:Q.
  - (* a quoted line *)
    rewrite Ebs. cbn [bind].
    destruct (bq_strip (b_src st) (b + t) e sc bs) as [q|ex|] eqn:BS; cbn [bind].
    2:{ exfalso. exact (bq_strip_nr (b_src st) (b + t) e sc bs ltac:(lia) ltac:(lia) ex BS). }
    2:{ split; [apply nr_oof | discriminate]. }
    destruct (bq_strip_row _ N nl _ _ _ _ _ BS ltac:(lia) ltac:(lia) E0 I1 I3) as [RO QS].
    destruct (save_line_r N sv st nl sl0 R ltac:(lia) SO N1 N2 N3 N4) as [SN SP].
    destruct (save_line sv st nl) as [sv1|ex|] eqn:SL; cbn [bind].
    2:{ exfalso. exact (SN ex eq_refl). }
    2:{ split; [apply nr_oof | discriminate]. }
    destruct (SP sv1 eq_refl) as (SO1 & M1 & M2 & M3 & M4).
    destruct (apply_bq_r N st nl q R ltac:(lia)) as [AN AP].
    { intros e' Ee'. rewrite Ee in Ee'. injection Ee' as <-. exact RO. }
    destruct (apply_bq st nl q) as [st1|ex|] eqn:AB; cbn [bind].
    2:{ exfalso. exact (AN ex eq_refl). }
    2:{ split; [apply nr_oof | discriminate]. }
    destruct (AP st1 eq_refl) as (R1 & A1 & A2 & A3 & _).
    destruct (apply_bq_sets _ _ _ _ AB) as (W1 & W2 & W3 & W4).
    destruct (IH st1 sv1 (nl + 1) el (q_empty q) R1 S0 ltac:(lia) ltac:(lia) ltac:(lia)) as [NR POST].
    { rewrite A1, A2. exact SO1. }
    { repeat split; lia. }
    { eapply (sv4_step st st0 sv sl0 nl sv1 st1); [exact S4 | lia | exact SL | right; exact W1 | right; exact W2 | right; exact W3 | right; exact W4]. }
    { rewrite A3. eapply apply_bq_CIb; [exact AB | lia | exact CB|]. eapply bq_strip_cols; [exact BS | lia]. }
    split; [exact NR|]. intros r sv' st' H. destruct (POST r sv' st' H) as (P1 & P2 & P3 & P4 & P5 & P6 & P7 & P8).
    split; [exact P1|]. split; [lia|]. split; [lia|]. split; [congruence|]. split; [congruence|]. split; [exact P6|]. split; [exact P7 | exact P8].
  - destruct lle.
    { split; [apply nr_ok|]. intros r sv' st' H. injection H as <- <- <-. split; [exact R|]. split; [lia|]. split; [lia|].
      split; [reflexivity|]. split; [reflexivity|]. split; [exact SO|]. split; [|exact CB]. exists (nl - sl0). split; [repeat split; assumption|]. split; [lia | exact S4']. }
    destruct (term nm_blockquote st nl el) as [[tt st1]|ex|] eqn:TE; cbn [bind].
    2:{ exfalso. refine (TN nm_blockquote st nl el ltac:(discriminate) _ ex TE). split; [exact R|]. lia. }
    2:{ split; [apply nr_oof | discriminate]. }
    pose proof (T nm_blockquote _ _ _ _ _ ltac:(discriminate) TE) as F.
    pose proof (fr_tabs_eq _ _ F) as TQ. pose proof (tabs_eq_RI _ _ _ TQ R) as R1.
    destruct TQ as (Q1 & Q2 & Q3 & Q4 & Q5 & Q6 & Q7).
    destruct tt.
    + (* a terminator stops the quote here *)
      cbv zeta.
      assert (R2 : RI N (st1 <| b_lineMax := nl |>)).
      { pose proof R1 as (LM1 & K1 & K2 & K3 & K4 & K5 & RR). apply (RI_same_marks N st1 _ R1); try reflexivity; cbn; try lia; assumption. }
      destruct (negb (b_blkIndent (st1 <| b_lineMax := nl |>) =? 0)).
      * destruct (save_line_r N sv (st1 <| b_lineMax := nl |>) nl sl0 R2 ltac:(lia)) as [SN SP]; try assumption.
        { cbn. rewrite Q1, Q3. exact SO. }
        destruct (save_line sv (st1 <| b_lineMax := nl |>) nl) as [sv1|ex|] eqn:SL; cbn [bind].
        2:{ exfalso. exact (SN ex eq_refl). }
        2:{ split; [apply nr_oof | discriminate]. }
        destruct (SP sv1 eq_refl) as (SO1 & M1 & M2 & M3 & M4). cbn in SO1.
        pose proof R1 as (_ & _ & _ & _ & K4 & _).
        destruct (tb_set (b_sCount (st1 <| b_lineMax := nl |>)) nl (sc - b_blkIndent (st1 <| b_lineMax := nl |>))) as [scs|ex|] eqn:TS; cbn [bind].
        2:{ exfalso. refine (tb_set_nr _ _ _ _ ex TS). cbn. lia. }
        2:{ split; [apply nr_oof | discriminate]. }
        split; [apply nr_ok|]. intros r sv' st' H. injection H as <- <- <-.
        destruct (tb_set_spec _ _ _ _ TS ltac:(lia)) as (_ & _ & KL). cbn in KL.
        split.
        { pose proof R2 as (LM2 & K1' & K2' & K3' & K4' & K5' & RR). apply (RI_same_marks N (st1 <| b_lineMax := nl |>) _ R2); try reflexivity; cbn in *; try lia; assumption. }
        cbn. split; [lia|]. split; [lia|]. split; [exact Q1|]. split; [exact Q3|]. split; [exact SO1|].
        split.
        2:{ eapply (CIb_sc_update (st1 <| b_lineMax := nl |>) _ nl _ nl); [|lia|reflexivity|reflexivity|reflexivity|reflexivity|exact TS|intros X; lia].
            apply (CIb_same st); cbn; try assumption. eapply CIb_weaken; [exact CB | lia]. }
        exists (nl + 1 - sl0). split; [repeat split; assumption|]. split; [lia|].
        replace (sl0 + (nl + 1 - sl0)) with (nl + 1) by lia.
        eapply (sv4_step (st1 <| b_lineMax := nl |>) st0 sv sl0 nl sv1 _ 0 0 0); [|lia|exact SL|left; reflexivity|left; reflexivity|left; reflexivity|right; exact TS].
        apply (sv4_same st); cbn; try assumption.
      * split; [apply nr_ok|]. intros r sv' st' H. injection H as <- <- <-.
        split; [exact R2|]. cbn. split; [lia|]. split; [lia|]. split; [exact Q1|]. split; [exact Q3|].
        split; [rewrite Q1, Q3; exact SO|]. split.
        2:{ apply (CIb_same st); cbn; try assumption. eapply CIb_weaken; [exact CB | lia]. }
        exists (nl - sl0). split; [repeat split; assumption|]. split; [lia|].
        apply (sv4_same st); cbn; try assumption.
    + (* a lazy continuation line *)
      destruct (save_line_r N sv st1 nl sl0 R1 ltac:(lia)) as [SN SP]; try assumption.
      { rewrite Q1, Q3. exact SO. }
      destruct (save_line sv st1 nl) as [sv1|ex|] eqn:SL; cbn [bind].
      2:{ exfalso. exact (SN ex eq_refl). }
      2:{ split; [apply nr_oof | discriminate]. }
      destruct (SP sv1 eq_refl) as (SO1 & M1 & M2 & M3 & M4).
      pose proof R1 as (LM1 & K1 & K2 & K3 & K4 & K5 & RR).
      destruct (tb_set (b_sCount st1) nl (-1)) as [scs|ex|] eqn:TS; cbn [bind].
      2:{ exfalso. refine (tb_set_nr _ _ _ _ ex TS). lia. }
      2:{ split; [apply nr_oof | discriminate]. }
      destruct (tb_set_spec _ _ _ _ TS ltac:(lia)) as (_ & _ & KL).
      assert (R3 : RI N (st1 <| b_sCount := scs |>)).
      { apply (RI_same_marks N st1 _ R1); try reflexivity; cbn; try lia; assumption. }
      destruct (IH (st1 <| b_sCount := scs |>) sv1 (nl + 1) el false R3 S0 ltac:(lia) ltac:(lia)) as [NR POST].
      { cbn. lia. }
      { cbn. exact SO1. }
      { repeat split; lia. }
      { eapply (sv4_step st1 st0 sv sl0 nl sv1 _ 0 0 0); [|lia|exact SL|left; reflexivity|left; reflexivity|left; reflexivity|right; exact TS].
        apply (sv4_same st); try assumption. }
      { cbn [b_lineMax set]. eapply (CIb_sc_update st1 _ nl (-1)); [|lia|reflexivity|reflexivity|reflexivity|reflexivity|exact TS|].
        - apply (CIb_same st); try assumption. rewrite Q7. exact CB.
        - intros _ b' t' bs' _ _ _. pose proof (gcols_ge (b_src st1) bs' (b' + t') (Z.to_nat (b' + t' - b')) b' 0 eq_refl). lia. }
      split; [exact NR|]. intros r sv' st' H. destruct (POST r sv' st' H) as (P1 & P2 & P3 & P4 & P5 & P6 & P7 & P8). cbn in P3, P4, P5.
      split; [exact P1|]. split; [lia|]. split; [lia|]. split; [congruence|]. split; [congruence|]. split; [exact P6|]. split; [exact P7 | exact P8].
Qed.

(* what a rule or the nested tokenize leaves behind *)
Definition post_ok (N : Z) (st st' : bstate) : Prop :=
  RI N st' /\ TI st' /\ b_lineMax st' = b_lineMax st /\ b_src st' = b_src st /\ b_eMarks st' = b_eMarks st.
Lemma tabs_eq_TI st st' : tabs_eq st st' -> TI st -> TI st'.
Proof. intros (A1 & A2 & A3 & A4 & _) H. unfold TI. rewrite A1, A2, A3, A4. exact H. Qed.
Lemma tabs_eq_CI st st' : tabs_eq st st' -> CI st -> CI st'.
Proof. intros (A1 & A2 & A3 & A4 & A5 & A6 & A7) H. unfold CI. rewrite A1, A2, A4, A5, A6, A7. exact H. Qed.
Lemma post_tabs N st st' : RI N st -> TI st -> tabs_eq st st' -> post_ok N st st'.
Proof.
  intros R HT T. split; [exact (tabs_eq_RI _ _ _ T R)|]. split; [exact (tabs_eq_TI _ _ T HT)|].
  destruct T as (A1 & _ & A3 & _ & _ & _ & A7). repeat split; assumption.
Qed.

(* the nested tokenize: no exception; what it leaves behind; where the cursor ends *)
Definition rec_n (N : Z) (rec : rec_t) : Prop := forall st a b,
  RI N st -> TI st -> CI st -> 0 <= a -> a < b -> b <= b_lineMax st ->
  nr (rec st a b) /\ forall st', rec st a b = Ok st' -> tabs_eq st st' /\ a <= b_line st' <= b_lineMax st.

Lemma r_blockquote_r N rec term (RN : rec_n N rec) (T : term_fr term) (TN : term_nr N term) st sl el silent :
  pre2 N st sl el -> (silent = false -> TI st) -> (silent = false -> CI st) ->
  nr (r_blockquote cfg rec term st sl el silent)
  /\ forall b st', r_blockquote cfg rec term st sl el silent = Ok (b, st') -> tabs_eq st st'.
Proof.
  intros (R & S0 & S1 & S2) HTI HCI. assert (Hl : 0 <= sl <= N) by (destruct R as [LM _]; lia).
  assert (LMN : b_lineMax st <= N) by (destruct R as [LM _]; lia). prologue R Hl.
  assert (SAME : tabs_eq st st) by apply tabs_eq_refl.
  unfold r_blockquote, line_start, code_block_at, is_code_block. cbv zeta. rewrite Eb, Et, Ee, Es. cbn [bind].
  destruct (c_code cfg && (4 <=? sc - b_blkIndent st)); [split; [apply nr_ok | intros b0 st' H; injection H as <- <-; exact SAME]|].
  rewrite match_some_62.
  destruct (match char_at (b_src st) (b + t) with Some z => z =? 62 | None => false end) eqn:C62;
    [|split; [apply nr_ok | intros b0 st' H; injection H as <- <-; exact SAME]].
  destruct silent; [split; [apply nr_ok | intros b0 st' H; injection H as <- <-; exact SAME]|]. specialize (HTI eq_refl). specialize (HCI eq_refl).
  rewrite Ebs. cbn [bind].
  (* the marker is a character of the line: the line is not empty *)
  assert (PE : b + t < e).
  { destruct (Z_lt_le_dec (b + t) e) as [Lt|Ge]; [exact Lt|]. exfalso.
    destruct (char_at (b_src st) (b + t)) as [z|] eqn:Ez; [|discriminate C62]. assert (z = 62) by lia. subst z.
    rewrite LfCount.char_at_nonneg in Ez by lia.
    assert (LL : b + t < len (b_src st)) by (assert (Z.to_nat (b + t) < length (b_src st))%nat by (apply nth_error_Some; congruence); unfold len; lia).
    assert (b + t = e) by lia. rewrite H in *. specialize (I3 LL). apply py_idx_get in I3; [|lia]. destruct I3 as [I3 _].
    rewrite I3 in Ez. discriminate Ez. }
  destruct (bq_strip (b_src st) (b + t) e sc bs) as [q|ex|] eqn:BS; cbn [bind].
  2:{ exfalso. exact (bq_strip_nr (b_src st) (b + t) e sc bs ltac:(lia) ltac:(lia) ex BS). }
  2:{ split; [apply nr_oof | discriminate]. }
  destruct (bq_strip_row _ N sl _ _ _ _ _ BS ltac:(lia) PE E0 I1 I3) as [RO QS].
  pose proof (bq_strip_spec _ _ _ _ _ _ BS) as (Q1 & Q2 & Q3).
  assert (G : goodbt (b_src st) (b_eMarks st) sl (q_bMark q) (q_tShift q)).
  { pose proof (TIp_good _ _ _ _ sl _ _ HTI ltac:(lia) Eb Et) as G0. eapply goodbt_mono; [exact G0 | lia | lia]. }
  destruct (save_line_r N (mkSaved [] [] [] []) st sl sl R Hl I ltac:(cbn; lia) ltac:(cbn; lia) ltac:(cbn; lia) ltac:(cbn; lia)) as [SN SP].
  destruct (save_line (mkSaved [] [] [] []) st sl) as [sv0|ex|] eqn:SL; cbn [bind].
  2:{ exfalso. exact (SN ex eq_refl). }
  2:{ split; [apply nr_oof | discriminate]. }
  destruct (SP sv0 eq_refl) as (SO1 & M1 & M2 & M3 & M4).
  destruct (save_line_m (mkSaved [] [] [] []) st sl sv0 sl SL S0 HTI I ltac:(cbn; lia) ltac:(cbn; lia)) as (TSO1 & _ & _).
  destruct (apply_bq_r N st sl q R Hl) as [AN AP].
  { intros e' Ee'. rewrite Ee in Ee'. injection Ee' as <-. exact RO. }
  destruct (apply_bq st sl q) as [st1|ex|] eqn:AB; cbn [bind].
  2:{ exfalso. exact (AN ex eq_refl). }
  2:{ split; [apply nr_oof | discriminate]. }
  destruct (AP st1 eq_refl) as (R1 & A1 & A2 & A3 & _).
  destruct (apply_bq_m _ _ _ _ AB S0 HTI G) as (HT1 & (K11 & K12 & K13 & K14 & K15) & _).
  destruct (apply_bq_sets _ _ _ _ AB) as (W1 & W2 & W3 & W4).
  assert (S41 : sv4 (st_parent st1 nm_blockquote) st sv0 sl (sl + 1)).
  { apply (sv4_same st1); try reflexivity.
    eapply (sv4_step st st (mkSaved [] [] [] []) sl sl sv0 st1); [|lia|exact SL|right; exact W1|right; exact W2|right; exact W3|right; exact W4].
    unfold sv4. cbn [o_b o_bs o_ts o_sc]. split; [|split; [|split]]; apply sv_tab_init. }
  destruct (bq_loop_r N term T TN sl st (S (Z.to_nat (el - sl))) (st_parent st1 nm_blockquote) sv0 (sl + 1) el (q_empty q)) as [LN LP].
  { exact R1. } { lia. } { lia. } { lia. } { cbn. lia. } { cbn. rewrite A1, A2. exact SO1. } { repeat split; lia. } { exact S41. }
  { cbn [b_lineMax st_parent set]. apply (CIb_same st1); try reflexivity. rewrite A3. eapply apply_bq_CIb; [exact AB | lia | apply CI_CIb; exact HCI|]. eapply bq_strip_cols; [exact BS | lia]. }
  destruct (bq_loop (S (Z.to_nat (el - sl))) term (st_parent st1 nm_blockquote) sv0 (sl + 1) el (q_empty q)) as [[[nl sv] st3]|ex|] eqn:BL; cbn [bind].
  2:{ exfalso. exact (LN ex eq_refl). }
  2:{ split; [apply nr_oof | discriminate]. }
  destruct (LP nl sv st3 eq_refl) as (R3 & B1 & B2 & B3 & B4 & SO3 & (n & (V1 & V2 & V3 & V4) & NB & S43) & CB3). cbn in B2, B3, B4.
  pose proof BL as BL'. apply (bq_loop_m term T sl) in BL'; try lia.
  2: cbn; lia. 2: exact HT1. 2: cbn; rewrite K13, K14; exact TSO1.
  destruct BL' as (_ & _ & _ & HT3 & TSO3 & _ & _).
  match goal with |- nr (bind (rec ?S5 _ _) _) /\ _ => assert (R5 : RI N S5 /\ TI S5 /\ b_lineMax S5 = b_lineMax st3 /\ b_src S5 = b_src st3 /\ b_eMarks S5 = b_eMarks st3) end.
  { split; [|split; [exact HT3 | repeat split]]. pose proof R3 as (LM3 & K1 & K2 & K3 & K4 & K5 & RR).
    apply (RI_same_marks N st3 _ R3); try reflexivity; cbn; try lia; assumption. }
  destruct R5 as (R5 & HT5 & LM5 & SR5 & EM5).
  match goal with |- nr (bind (rec ?S5 ?a ?b0) _) /\ _ => assert (C5 : CI S5) by (apply CI_CIb; apply (CIb_same st3); try reflexivity; exact CB3);
    destruct (RN S5 a b0 R5 HT5 C5 S0 ltac:(lia) ltac:(rewrite LM5; lia)) as [RNN RNP];
    destruct (rec S5 a b0) as [st6|ex|] eqn:RC; cbn [bind] end.
  2:{ exfalso. exact (RNN ex eq_refl). }
  2:{ split; [apply nr_oof | discriminate]. }
  destruct (RNP st6 eq_refl) as (TE6 & _).
  pose proof (tabs_eq_RI _ _ _ TE6 R5) as R6. pose proof (tabs_eq_TI _ _ TE6 HT5) as HT6.
  pose proof TE6 as (SR6 & BM6 & EM6 & TS6 & SC6 & BS6 & LM6).
  match goal with |- nr (bind (restore_tables ?S9 _ _ _ _ _) _) /\ _ =>
    assert (R9 : RI N S9 /\ TI S9 /\ b_src S9 = b_src st6 /\ b_eMarks S9 = b_eMarks st6 /\ b_lineMax S9 = b_lineMax st) end.
  { split; [|split; [exact HT6 | repeat split]]. pose proof R6 as (LM6' & K1 & K2 & K3 & K4 & K5 & RR).
    apply (RI_same_marks N st6 _ R6); try reflexivity; cbn; try lia; assumption. }
  destruct R9 as (R9 & HT9 & SR9 & EM9 & LM9).
  match goal with |- nr (bind (restore_tables ?S9 ?l ?bb ?bss ?tss ?scs) _) /\ _ =>
    destruct (restore_tables_r N tss S9 l bb bss scs R9 S0) as [TN9 TP9] end.
  { unfold len in *. lia. } { unfold len in *. lia. } { unfold len in *. lia. } { unfold len in *. lia. }
  { rewrite SR9, EM9, SR6, EM6, SR5, EM5. exact SO3. }
  match goal with |- nr (bind ?m _) /\ _ => destruct m as [st10|ex|] eqn:RT; cbn [bind] end.
  2:{ exfalso. exact (TN9 ex eq_refl). }
  2:{ split; [apply nr_oof | discriminate]. }
  destruct (TP9 st10 eq_refl) as (R10 & SR10 & EM10 & LM10 & _).
  apply restore_is_put_all in RT; [|unfold len in *; lia|unfold len in *; lia|unfold len in *; lia].
  cbn [b_bMarks b_bsCount b_tShift b_sCount set st_parent bpush] in RT. destruct RT as (P1 & P2 & P3 & P4).
  destruct S43 as (X1 & X2 & X3 & X4).
  assert (HI : 0 <= sl <= sl + n) by lia.
  split; [apply nr_ok|]. intros b0 st' H. injection H as <- <-.
  unfold tabs_eq. cbn.
  split; [congruence|].
  split; [eapply put_all_restores; [| exact HI | exact P1]; rewrite BM6; exact X1|].
  split; [congruence|].
  split; [eapply put_all_restores; [| exact HI | exact P3]; rewrite TS6; exact X3|].
  split; [eapply put_all_restores; [| exact HI | exact P4]; rewrite SC6; exact X4|].
  split; [eapply put_all_restores; [| exact HI | exact P2]; rewrite BS6; exact X2|].
  congruence.
Qed.

(* ---- list ---- *)
Lemma list_blanks_nr : forall fuel src pos maximum offset bs, 0 <= pos -> maximum <= len src -> nr (list_blanks fuel src pos maximum offset bs).
Proof.
  induction fuel as [|f IH]; intros src pos maximum offset bs H0 HM; cbn [list_blanks]; [apply nr_ok|].
  destruct (negb (pos <? maximum)) eqn:E; [apply nr_ok|].
  apply nr_bind; [apply nr_py_idx; lia|]. intros ch _.
  destruct (ch =? 9); [apply IH; lia|]. destruct (ch =? 32); [apply IH; lia | apply nr_ok].
Qed.

Lemma list_blanks_stop : forall fuel src pos maximum offset bs p2 o2,
  list_blanks fuel src pos maximum offset bs = Ok (p2, o2) -> 0 <= pos -> (Z.to_nat (maximum - pos) < fuel)%nat ->
  (pos <= maximum -> p2 <= maximum) /\ (p2 < maximum -> exists c, py_idx src p2 = Ok c /\ is_space c = false).
Proof.
  induction fuel as [|f IH]; intros src pos maximum offset bs p2 o2 H H0 HF; [lia|]. cbn [list_blanks] in H.
  destruct (negb (pos <? maximum)) eqn:E; [rfinish H; split; lia|].
  destruct (py_idx src pos) as [ch|?|] eqn:Ec; cbn [bind] in H; try discriminate H.
  destruct (ch =? 9) eqn:E9; [apply IH in H; [|lia|lia]; destruct H as [A B]; split; [intros; apply A; lia | exact B]|].
  destruct (ch =? 32) eqn:E32; [apply IH in H; [|lia|lia]; destruct H as [A B]; split; [intros; apply A; lia | exact B]|].
  rfinish H. split; [lia|]. intros _. exists ch. split; [exact Ec|]. unfold is_space. rewrite E9, E32. reflexivity.
Qed.

Lemma ordered_digits_nr : forall fuel src start pos maximum, 0 <= pos -> maximum <= len src -> nr (ordered_digits fuel src start pos maximum).
Proof.
  induction fuel as [|f IH]; intros src start pos maximum H0 HM; cbn [ordered_digits]; [apply nr_ok|].
  destruct (maximum <=? pos) eqn:E; [apply nr_ok|].
  apply nr_bind; [apply nr_py_idx; lia|]. intros ch _. cbv zeta.
  destruct (is_digit ch); [destruct (10 <=? pos + 1 - start); [apply nr_ok | apply IH; lia]|].
  destruct ((ch =? 41) || (ch =? 46)); [|apply nr_ok].
  destruct (pos + 1 <? maximum) eqn:PM; [|apply nr_ok].
  apply nr_bind; [apply nr_py_idx; lia|]. intros c _. apply nr_ok.
Qed.

Lemma ordered_digits_le : forall fuel src start pos maximum r,
  ordered_digits fuel src start pos maximum = Ok r -> r = -1 \/ (pos < r <= maximum).
Proof.
  induction fuel as [|f IH]; intros src start pos maximum r H; cbn [ordered_digits] in H; [rfinish H; left; reflexivity|].
  destruct (maximum <=? pos) eqn:E; [rfinish H; left; reflexivity|].
  rstep H. cbv zeta in H. destruct (is_digit x).
  - destruct (10 <=? pos + 1 - start); [rfinish H; left; reflexivity|]. apply IH in H. lia.
  - destruct ((x =? 41) || (x =? 46)); [|rfinish H; left; reflexivity].
    destruct (pos + 1 <? maximum) eqn:PM; [|rfinish H; right; lia].
    rstep H. rfinish H. destruct (is_space x0); [right; lia | left; reflexivity].
Qed.

(* the position after a list marker: inside the line, right behind a character of the source *)
Lemma skip_ordered_r N st l : RI N st -> 0 <= l <= N ->
  nr (skip_ordered st l)
  /\ forall r b e t, skip_ordered st l = Ok r -> tb (b_bMarks st) l = Ok b -> tb (b_eMarks st) l = Ok e -> tb (b_tShift st) l = Ok t ->
       r = -1 \/ (b + t < r <= e).
Proof.
  intros R Hl. destruct (RI_reads N st l R Hl) as (b & e & t & sc & bs & Eb & Ee & Et & Es & Ebs & (B0 & T0 & E0 & I1 & I3 & I2)).
  unfold skip_ordered, line_start. rewrite Eb, Et. cbn [bind]. rewrite Ee. cbn [bind]. split.
  - destruct (e <=? b + t + 1) eqn:X; [apply nr_ok|].
    apply nr_bind; [apply nr_py_idx; lia|]. intros ch _. destruct (negb (is_digit ch)); [apply nr_ok|].
    apply ordered_digits_nr; lia.
  - intros r b' e' t' H Eb' Ee' Et'. injection Eb' as <-. injection Ee' as <-. injection Et' as <-.
    destruct (e <=? b + t + 1) eqn:X; [rfinish H; left; reflexivity|].
    rstep H. destruct (negb (is_digit x)); [rfinish H; left; reflexivity|].
    apply ordered_digits_le in H. lia.
Qed.

Lemma skip_bullet_r N st l : RI N st -> 0 <= l <= N ->
  nr (skip_bullet st l)
  /\ forall r b e t, skip_bullet st l = Ok r -> tb (b_bMarks st) l = Ok b -> tb (b_eMarks st) l = Ok e -> tb (b_tShift st) l = Ok t ->
       r = -1 \/ (b + t < r <= e).
Proof.
  intros R Hl. destruct (RI_reads N st l R Hl) as (b & e & t & sc & bs & Eb & Ee & Et & Es & Ebs & (B0 & T0 & E0 & I1 & I3 & I2)).
  unfold skip_bullet, line_start. rewrite Eb, Et. cbn [bind]. rewrite Ee. cbn [bind].
  (* a marker character at the logical line start lies before the end mark *)
  assert (MK : forall m, char_at (b_src st) (b + t) = Some m -> (m =? 42) || (m =? 45) || (m =? 43) = true -> b + t < e).
  { intros m Em Hm. destruct (Z_lt_le_dec (b + t) e) as [Lt|Ge]; [exact Lt|]. exfalso. assert (b + t = e) by lia.
    rewrite LfCount.char_at_nonneg in Em by lia.
    assert (LL : e < len (b_src st)) by (assert (Z.to_nat (b + t) < length (b_src st))%nat by (apply nth_error_Some; congruence); unfold len; lia).
    specialize (I3 LL). apply py_idx_get in I3; [|lia]. destruct I3 as [I3 _]. rewrite H in Em. rewrite I3 in Em. injection Em as <-. discriminate Hm. }
  split.
  - destruct (char_at (b_src st) (b + t)) as [m|] eqn:Em; [|apply nr_ok].
    destruct (negb ((m =? 42) || (m =? 45) || (m =? 43))) eqn:NM; [apply nr_ok|].
    destruct (b + t + 1 <? e) eqn:X; [|apply nr_ok].
    apply nr_bind; [apply nr_py_idx; lia|]. intros ch _. apply nr_ok.
  - intros r b' e' t' H Eb' Ee' Et'. injection Eb' as <-. injection Ee' as <-. injection Et' as <-.
    destruct (char_at (b_src st) (b + t)) as [m|] eqn:Em; [|rfinish H; left; reflexivity].
    destruct (negb ((m =? 42) || (m =? 45) || (m =? 43))) eqn:NM; [rfinish H; left; reflexivity|].
    specialize (MK m eq_refl ltac:(destruct ((m =? 42) || (m =? 45) || (m =? 43)); [reflexivity | discriminate NM])).
    destruct (b + t + 1 <? e) eqn:X; [|rfinish H; right; lia].
    rstep H. rfinish H. destruct (is_space x); [right; lia | left; reflexivity].
Qed.

Definition pam_ok (st : bstate) (sl pam : Z) : Prop :=
  forall b e t, tb (b_bMarks st) sl = Ok b -> tb (b_eMarks st) sl = Ok e -> tb (b_tShift st) sl = Ok t -> b + t < pam <= e.

Lemma list_items_r N rec term (RN : rec_n N rec) (T : term_fr term) (TN : term_nr N term) :
  forall fuel st isOrd mc sl el pam start tight pee,
  RI N st -> TI st -> CI st -> 0 <= sl -> sl < el -> el <= b_lineMax st -> b_line st = sl -> pam_ok st sl pam ->
  nr (list_items cfg fuel rec term st isOrd mc sl sl el pam start tight pee)
  /\ forall nl t' st', list_items cfg fuel rec term st isOrd mc sl sl el pam start tight pee = Ok (nl, t', st') -> tabs_eq st st'.
Proof.
  induction fuel as [|f IH]; intros st isOrd mc sl el pam start tight pee R HT HC S0 S1 S2 BL PM; [split; [apply nr_oof | discriminate]|].
  cbn [list_items].
  assert (NE : negb (sl <? el) = false) by lia. rewrite NE.
  assert (LMN : b_lineMax st <= N) by (destruct R as [LM _]; lia). assert (Hl : 0 <= sl <= N) by lia.
  destruct (RI_reads N st sl R Hl) as (b & e & t & sc & bs & Eb & Ee & Et & Es & Ebs & (B0 & T0 & E0 & I1 & I3 & I2)).
  specialize (PM b e t Eb Ee Et).
  assert (LS : line_start st sl = Ok (b + t)) by (unfold line_start; rewrite Eb, Et; reflexivity).
  rewrite Ee, Es, LS, Ebs. cbn [bind].
  destruct (list_blanks (S (length (b_src st))) (b_src st) pam e (sc + pam - (b + t)) bs) as [[contentStart offset]|ex|] eqn:LB; cbn [bind].
  2:{ exfalso. exact (list_blanks_nr _ (b_src st) pam e _ bs ltac:(lia) ltac:(lia) ex LB). }
  2:{ split; [apply nr_oof | discriminate]. }
  pose proof (list_blanks_mono _ _ _ _ _ _ _ _ LB) as [LB1 LB2].
  destruct (list_blanks_stop _ _ _ _ _ _ _ _ LB ltac:(lia) ltac:(unfold len in *; lia)) as [LB3 LB4]. specialize (LB3 ltac:(lia)).
  cbv zeta.
  match goal with |- context [bpush st s_list_item_open s_li 1 ?f] => set (st1 := bpush st s_list_item_open s_li 1 f) in * end.
  change (b_tShift st1) with (b_tShift st). change (b_sCount st1) with (b_sCount st). change (b_bMarks st1) with (b_bMarks st).
  rewrite Et, Es, Eb. cbn [bind].
  pose proof R as (LM & L1 & L2 & L3 & L4 & L5 & RR).
  destruct (tb_set (b_tShift st) sl (contentStart - b)) as [ts'|ex|] eqn:S1'; cbn [bind].
  2:{ exfalso. exact (tb_set_nr (b_tShift st) sl _ ltac:(lia) ex S1'). }
  2:{ split; [apply nr_oof | discriminate]. }
  destruct (tb_set (b_sCount st) sl offset) as [sc'|ex|] eqn:S2'; cbn [bind].
  2:{ exfalso. exact (tb_set_nr (b_sCount st) sl _ ltac:(lia) ex S2'). }
  2:{ split; [apply nr_oof | discriminate]. }
  destruct (tb_set_spec _ _ _ _ S1' S0) as (TS1 & TSO & TSL). destruct (tb_set_spec _ _ _ _ S2' S0) as (SC1 & SCO & SCL).
  match goal with |- context [st1 <| b_listIndent := ?a |> <| b_blkIndent := ?b0 |> <| b_tight := ?c |> <| b_tShift := ?d |> <| b_sCount := ?e0 |>] =>
    set (st2 := st1 <| b_listIndent := a |> <| b_blkIndent := b0 |> <| b_tight := c |> <| b_tShift := d |> <| b_sCount := e0 |>) in * end.
  assert (R2 : RI N st2).
  { apply (RI_row_update N st st2 sl R Hl); try reflexivity; unfold st2, st1; cbn; try lia.
    - intros j Hj Nj. split; [reflexivity | apply TSO; assumption].
    - intros b' e' t' Eb' Ee' Et'. rewrite Eb in Eb'. rewrite Ee in Ee'. rewrite TS1 in Et'. injection Eb' as <-. injection Ee' as <-. injection Et' as <-.
      unfold row_ok. replace (b + (contentStart - b)) with contentStart by lia. repeat split; try lia; assumption. }
  assert (HT2 : TI st2) by (unfold TI, st2, st1; cbn; exact (TIp_set_ts _ _ _ _ _ _ _ HT S0 S1' ltac:(lia))).
  assert (L2' : b_lineMax st2 = b_lineMax st) by reflexivity.
  assert (C2 : CI st2).
  { intros l b' t' sx bs' Hlm Eb' Et' Es' Ebs'. change (b_src st2) with (b_src st). change (b_lineMax st2) with (b_lineMax st) in Hlm.
    change (b_bMarks st2) with (b_bMarks st) in Eb'. change (b_tShift st2) with ts' in Et'. change (b_sCount st2) with sc' in Es'. change (b_bsCount st2) with (b_bsCount st) in Ebs'.
    destruct (Z.eq_dec l sl) as [->|Nl].
    - rewrite Eb in Eb'. rewrite TS1 in Et'. rewrite SC1 in Es'. rewrite Ebs in Ebs'.
      injection Eb' as <-. injection Et' as <-. injection Es' as <-. injection Ebs' as <-.
      replace (b + (contentStart - b)) with contentStart by lia.
      pose proof (HC sl b t sc bs ltac:(lia) Eb Et Es Ebs) as C0.
      rewrite (gcols_split (b_src st) bs contentStart (b + t) (Z.to_nat (b + t - b)) b 0 eq_refl) by lia.
      rewrite (gcols_split (b_src st) bs contentStart pam (Z.to_nat (pam - (b + t))) (b + t) _ eq_refl) by lia.
      destruct (gcols_chars (b_src st) bs pam (Z.to_nat (pam - (b + t))) (b + t) (gcols (b_src st) b (b + t) 0 bs) eq_refl ltac:(lia) ltac:(lia)) as [GC|GC]; [|lia].
      eapply (list_blanks_cols _ _ _ _ _ _ _ _ _ LB); lia.
    - rewrite (TSO l ltac:(lia) Nl) in Et'. rewrite (SCO l ltac:(lia) Nl) in Es'. exact (HC l b' t' sx bs' Hlm Eb' Et' Es' Ebs'). }
  (* the item body *)
  match goal with |- nr (bind ?m _) /\ _ => assert (BODY : nr m /\ forall st3, m = Ok st3 -> tabs_eq st2 st3 /\ sl <= b_line st3 <= b_lineMax st) end.
  { destruct (e <=? contentStart) eqn:MC.
    - destruct (is_empty st2 (sl + 1)) as [em|ex|] eqn:IE; cbn [bind].
      2:{ exfalso. exact (is_empty_nr N st2 (sl + 1) R2 ltac:(lia) ex IE). }
      2:{ split; [apply nr_oof | discriminate]. }
      destruct em.
      + split; [apply nr_ok|]. intros st3 H. injection H as <-. change (b_line st2) with (b_line st). rewrite BL.
        split; [repeat split|]. cbn. lia.
      + destruct (RN st2 sl el R2 HT2 C2 S0 S1 ltac:(rewrite L2'; lia)) as [A B']. split; [exact A|]. intros st3 H.
        destruct (B' st3 H) as (P1 & P6). rewrite L2' in *. split; assumption.
    - cbn [bind]. destruct (RN st2 sl el R2 HT2 C2 S0 S1 ltac:(rewrite L2'; lia)) as [A B']. split; [exact A|]. intros st3 H.
      destruct (B' st3 H) as (P1 & P6). rewrite L2' in *. split; assumption. }
  destruct BODY as [BN BP].
  match goal with |- nr (bind ?m _) /\ _ => destruct m as [st3|ex|] eqn:BD; cbn [bind] end.
  2:{ exfalso. exact (BN ex eq_refl). }
  2:{ split; [apply nr_oof | discriminate]. }
  destruct (BP st3 eq_refl) as (TE3 & LB3'). clear BN BP.
  pose proof (tabs_eq_RI _ _ _ TE3 R2) as R3. pose proof (tabs_eq_TI _ _ TE3 HT2) as HT3.
  pose proof TE3 as (SR3 & BM3 & EM3 & TS3 & SC3 & BS3 & LM3).
  pose proof R3 as (LM3' & K1 & K2 & K3 & K4 & K5 & RR3).
  match goal with |- nr (bind ?m _) /\ _ => assert (PE : nr m) end.
  { destruct (1 <? b_line st3 - sl) eqn:X; [apply (is_empty_nr N); [exact R3 | lia] | apply nr_ok]. }
  match goal with |- nr (bind ?m _) /\ _ => destruct m as [pee'|ex|] eqn:PEE; cbn [bind] end.
  2:{ exfalso. exact (PE ex eq_refl). }
  2:{ split; [apply nr_oof | discriminate]. }
  destruct (tb_set (b_tShift st3) sl t) as [ts''|ex|] eqn:S3'; cbn [bind].
  2:{ exfalso. exact (tb_set_nr (b_tShift st3) sl _ ltac:(lia) ex S3'). }
  2:{ split; [apply nr_oof | discriminate]. }
  destruct (tb_set (b_sCount st3) sl sc) as [sc''|ex|] eqn:S4'; cbn [bind].
  2:{ exfalso. exact (tb_set_nr (b_sCount st3) sl _ ltac:(lia) ex S4'). }
  2:{ split; [apply nr_oof | discriminate]. }
  (* the two entries are back to what they were *)
  assert (TSB : ts'' = b_tShift st).
  { rewrite TS3 in S3'. unfold st2, st1 in S3'. cbn in S3'. exact (tb_set_back _ _ _ _ _ _ S1' Et S3' S0). }
  assert (SCB : sc'' = b_sCount st).
  { rewrite SC3 in S4'. unfold st2, st1 in S4'. cbn in S4'. exact (tb_set_back _ _ _ _ _ _ S2' Es S4' S0). }
  subst ts'' sc''.
  match goal with |- context [bpush ?s4 s_list_item_close s_li (-1) ?f] => set (st5 := bpush s4 s_list_item_close s_li (-1) f) in * end.
  change (b_line st5) with (b_line st3).
  match goal with |- context [st5 <| b_tokens := ?v |>] => set (st6 := st5 <| b_tokens := v |>) in * end.
  assert (TE6 : tabs_eq st st6).
  { unfold tabs_eq, st6, st5. cbn. unfold st2, st1 in *. cbn in *. repeat split; congruence. }
  pose proof (tabs_eq_RI _ _ _ TE6 R) as R6. pose proof (tabs_eq_TI _ _ TE6 HT) as HT6.
  assert (B6 : b_line st6 = b_line st3) by reflexivity.
  destruct (el <=? b_line st3) eqn:EN; [split; [apply nr_ok|]; intros nl t' st' H; injection H as <- <- <-; exact TE6|].
  destruct (RI_reads N st6 (b_line st3) R6 ltac:(lia)) as (b6 & e6 & t6 & sc6 & bs6 & Eb6 & Ee6 & Et6 & Es6 & Ebs6 & (B06 & T06 & E06 & I16 & I36 & I26)).
  rewrite Es6. cbn [bind].
  destruct (sc6 <? b_blkIndent st6); [split; [apply nr_ok|]; intros nl t' st' H; injection H as <- <- <-; exact TE6|].
  unfold code_block_at, is_code_block. rewrite Es6. cbn [bind].
  destruct (c_code cfg && (4 <=? sc6 - b_blkIndent st6)); [split; [apply nr_ok|]; intros nl t' st' H; injection H as <- <- <-; exact TE6|].
  destruct (term nm_list st6 (b_line st3) el) as [[tt st7]|ex|] eqn:TE; cbn [bind].
  2:{ exfalso. refine (TN nm_list st6 (b_line st3) el ltac:(discriminate) _ ex TE). split; [exact R6|]. destruct TE6 as (_ & _ & _ & _ & _ & _ & X). rewrite X. lia. }
  2:{ split; [apply nr_oof | discriminate]. }
  pose proof (T nm_list _ _ _ _ _ ltac:(discriminate) TE) as F7.
  pose proof (tabs_eq_trans _ _ _ TE6 (fr_tabs_eq _ _ F7)) as TE7.
  pose proof (tabs_eq_RI _ _ _ TE7 R) as R7. pose proof (tabs_eq_TI _ _ TE7 HT) as HT7. pose proof (tabs_eq_CI _ _ TE7 HC) as HC7.
  destruct tt; [split; [apply nr_ok|]; intros nl t' st' H; injection H as <- <- <-; exact TE7|].
  assert (SKIP : nr (if isOrd then skip_ordered st7 (b_line st3) else skip_bullet st7 (b_line st3))
                 /\ forall pam', (if isOrd then skip_ordered st7 (b_line st3) else skip_bullet st7 (b_line st3)) = Ok pam' -> pam' = -1 \/ pam_ok st7 (b_line st3) pam').
  { destruct isOrd.
    - destruct (skip_ordered_r N st7 (b_line st3) R7 ltac:(lia)) as [A B']. split; [exact A|]. intros pam' H.
      destruct (Z.eq_dec pam' (-1)) as [->|Np]; [left; reflexivity|]. right. intros b' e' t' X1 X2 X3. destruct (B' pam' b' e' t' H X1 X2 X3); lia.
    - destruct (skip_bullet_r N st7 (b_line st3) R7 ltac:(lia)) as [A B']. split; [exact A|]. intros pam' H.
      destruct (Z.eq_dec pam' (-1)) as [->|Np]; [left; reflexivity|]. right. intros b' e' t' X1 X2 X3. destruct (B' pam' b' e' t' H X1 X2 X3); lia. }
  destruct SKIP as [SKN SKP].
  match goal with |- nr (bind ?m _) /\ _ => destruct m as [pam'|ex|] eqn:SK; cbn [bind] end.
  2:{ exfalso. exact (SKN ex eq_refl). }
  2:{ split; [apply nr_oof | discriminate]. }
  destruct (pam' <? 0) eqn:PN; [split; [apply nr_ok|]; intros nl t' st' H; injection H as <- <- <-; exact TE7|].
  destruct (SKP pam' eq_refl) as [->|PM']; [discriminate PN|].
  destruct (RI_reads N st7 (b_line st3) R7 ltac:(lia)) as (b7 & e7 & t7 & sc7 & bs7 & Eb7 & Ee7 & Et7 & Es7 & Ebs7 & (B07 & T07 & E07 & I17 & I37 & I27)).
  pose proof (PM' b7 e7 t7 Eb7 Ee7 Et7) as PMB.
  match goal with |- nr (bind ?m _) /\ _ => assert (STN : nr m) end.
  { destruct isOrd; [apply (line_start_nr N); [exact R7 | lia] | apply nr_ok]. }
  match goal with |- nr (bind ?m _) /\ _ => destruct m as [start'|ex|] eqn:ST'; cbn [bind] end.
  2:{ exfalso. exact (STN ex eq_refl). }
  2:{ split; [apply nr_oof | discriminate]. }
  destruct (py_idx (b_src st7) (pam' - 1)) as [mc'|ex|] eqn:MC'; cbn [bind].
  2:{ exfalso. exact (nr_py_idx (b_src st7) (pam' - 1) ltac:(lia) ex MC'). }
  2:{ split; [apply nr_oof | discriminate]. }
  destruct (negb (mc' =? mc)); [split; [apply nr_ok|]; intros nl t' st' H; injection H as <- <- <-; exact TE7|].
  destruct (IH st7 isOrd mc (b_line st3) el pam' start' (if negb (b_tight st3) || pee then false else tight) pee' R7 HT7 HC7 ltac:(lia) ltac:(lia)) as [NR POST].
  { destruct TE7 as (_ & _ & _ & _ & _ & _ & X). rewrite X. lia. }
  { rewrite (fr_line _ _ F7). exact B6. }
  { exact PM'. }
  split; [exact NR|]. intros nl t' st' H. exact (tabs_eq_trans _ _ _ TE7 (POST nl t' st' H)).
Qed.

Lemma r_list_r N rec term (RN : rec_n N rec) (T : term_fr term) (TN : term_nr N term) st sl el silent :
  pre2 N st sl el -> (silent = false -> TI st) -> (silent = false -> CI st) -> (silent = false -> b_line st = sl) ->
  nr (r_list cfg rec term st sl el silent)
  /\ forall b st', r_list cfg rec term st sl el silent = Ok (b, st') -> tabs_eq st st'.
Proof.
  intros (R & S0 & S1 & S2) HTI HCI BLn. assert (Hl : 0 <= sl <= N) by (destruct R as [LM _]; lia).
  assert (LMN : b_lineMax st <= N) by (destruct R as [LM _]; lia). prologue R Hl.
  assert (SAME : forall b0 st', Ok (false, st) = Ok (b0, st') \/ Ok (true, st) = Ok (b0, st') -> tabs_eq st st').
  { intros b0 st' [H|H]; injection H as <- <-; apply tabs_eq_refl. }
  assert (LS : line_start st sl = Ok (b + t)) by (unfold line_start; rewrite Eb, Et; reflexivity).
  unfold r_list, code_block_at, is_code_block. rewrite Es. cbn [bind].
  destruct (c_code cfg && (4 <=? sc - b_blkIndent st)); [split; [apply nr_ok | intros b0 st' H; apply (SAME b0 st'); left; exact H]|].
  match goal with |- nr (if ?c then _ else _) /\ _ => destruct c end; [split; [apply nr_ok | intros b0 st' H; apply (SAME b0 st'); left; exact H]|].
  cbv zeta.
  destruct (skip_ordered_r N st sl R Hl) as [ON OP]. destruct (skip_bullet_r N st sl R Hl) as [BN BP].
  destruct (skip_ordered st sl) as [pamo|ex|] eqn:SO; cbn [bind].
  2:{ exfalso. exact (ON ex eq_refl). }
  2:{ split; [apply nr_oof | discriminate]. }
  rewrite LS. cbn [bind].
  match goal with |- nr (bind ?m _) /\ _ => assert (SEL : nr m /\ forall sel, m = Ok sel -> match sel with None => True | Some (_, pam, _) => b + t < pam <= e end) end.
  { destruct (0 <=? pamo) eqn:P0.
    - match goal with |- nr (if ?c then _ else _) /\ _ => destruct c end; (split; [apply nr_ok|]); intros sel H; injection H as <-; [exact I|].
      destruct (OP pamo b e t eq_refl Eb Ee Et); lia.
    - destruct (skip_bullet st sl) as [pamb|ex|] eqn:SB; cbn [bind].
      2:{ exfalso. exact (BN ex eq_refl). }
      2:{ split; [apply nr_oof | discriminate]. }
      destruct (0 <=? pamb) eqn:P1; (split; [apply nr_ok|]); intros sel H; injection H as <-; [|exact I].
      destruct (BP pamb b e t eq_refl Eb Ee Et); lia. }
  destruct SEL as [SN SP].
  match goal with |- nr (bind ?m _) /\ _ => destruct m as [sel|ex|] eqn:SE; cbn [bind] end.
  2:{ exfalso. exact (SN ex eq_refl). }
  2:{ split; [apply nr_oof | discriminate]. }
  specialize (SP sel eq_refl).
  destruct sel as [[[isOrd pam] mv]|]; [|split; [apply nr_ok | intros b0 st' H; apply (SAME b0 st'); left; exact H]].
  rewrite Ee. cbn [bind].
  match goal with |- nr (if ?c then _ else _) /\ _ => destruct c end; [split; [apply nr_ok | intros b0 st' H; apply (SAME b0 st'); left; exact H]|].
  destruct (py_idx (b_src st) (pam - 1)) as [mc|ex|] eqn:MC0; cbn [bind].
  2:{ exfalso. exact (nr_py_idx (b_src st) (pam - 1) ltac:(lia) ex MC0). }
  2:{ split; [apply nr_oof | discriminate]. }
  destruct silent; [split; [apply nr_ok | intros b0 st' H; apply (SAME b0 st'); right; exact H]|]. specialize (BLn eq_refl). specialize (HTI eq_refl). specialize (HCI eq_refl).
  match goal with |- context [list_items _ _ _ _ (st_parent ?s1 _)] => set (st1 := s1) in * end.
  assert (TE1 : tabs_eq st (st_parent st1 nm_list)) by (unfold st1; destruct isOrd; repeat split).
  destruct (list_items_r N rec term RN T TN (S (Z.to_nat (el - sl))) (st_parent st1 nm_list) isOrd mc sl el pam (b + t) true false) as [LN LP].
  { exact (tabs_eq_RI _ _ _ TE1 R). } { exact (tabs_eq_TI _ _ TE1 HTI). } { exact (tabs_eq_CI _ _ TE1 HCI). } { exact S0. } { exact S1. }
  { rewrite (tabs_eq_lineMax _ _ TE1). exact S2. } { unfold st1. destruct isOrd; exact BLn. }
  { intros b' e' t' X1 X2 X3. destruct TE1 as (_ & Y2 & Y3 & Y4 & _). rewrite Y2 in X1. rewrite Y3 in X2. rewrite Y4 in X3.
    rewrite Eb in X1. rewrite Ee in X2. rewrite Et in X3. injection X1 as <-. injection X2 as <-. injection X3 as <-. exact SP. }
  match goal with |- nr (bind ?m _) /\ _ => destruct m as [[[nextLine tight] st3]|ex|] eqn:LI; cbn [bind] end.
  2:{ exfalso. exact (LN ex eq_refl). }
  2:{ split; [apply nr_oof | discriminate]. }
  pose proof (tabs_eq_trans _ _ _ TE1 (LP _ _ _ eq_refl)) as TE3.
  split; [apply nr_ok|]. intros b0 st' H. injection H as <- <-.
  destruct TE3 as (Y1 & Y2 & Y3 & Y4 & Y5 & Y6 & Y7).
  destruct tight; destruct isOrd; unfold tabs_eq; cbn; repeat split; assumption.
Qed.

(* ---- every other rule leaves the tables alone ---- *)
Ltac tabs_done := first [ apply tabs_eq_refl | repeat split ].

Lemma r_hr_tabs st sl el silent b st' : r_hr cfg st sl el silent = Ok (b, st') -> tabs_eq st st'.
Proof. unfold r_hr. intros H. repeat rstep H; try discriminate H. all: rfinish H; tabs_done. Qed.
Lemma r_code_tabs st sl el silent b st' : r_code cfg st sl el silent = Ok (b, st') -> tabs_eq st st'.
Proof. unfold r_code. intros H. repeat rstep H; try discriminate H. all: rfinish H; tabs_done. Qed.
Lemma r_fence_tabs st sl el silent b st' : r_fence cfg st sl el silent = Ok (b, st') -> tabs_eq st st'.
Proof. unfold r_fence. intros H. repeat rstep H; try discriminate H. all: rfinish H; tabs_done. Qed.
Lemma r_heading_tabs st sl el silent b st' : r_heading cfg st sl el silent = Ok (b, st') -> tabs_eq st st'.
Proof. unfold r_heading. intros H. repeat rstep H; try discriminate H. all: rfinish H; tabs_done. Qed.
Lemma r_html_block_tabs st sl el silent b st' : r_html_block cfg st sl el silent = Ok (b, st') -> tabs_eq st st'.
Proof.
  unfold r_html_block. intros H.
  do 3 rstep H. rstep H; [rfinish H; tabs_done|]. rstep H; [rfinish H; tabs_done|]. rstep H; [rfinish H; tabs_done|].
  rstep H. rstep H; [rfinish H; tabs_done|]. rstep H; [|rfinish H; tabs_done]. destruct p as [[opener closer] can].
  rstep H; [rfinish H; tabs_done|]. do 2 rstep H. rfinish H. tabs_done.
Qed.

Lemma r_paragraph_tabs term (T : term_fr term) st sl el silent b st' : r_paragraph term st sl el silent = Ok (b, st') -> tabs_eq st st'.
Proof.
  unfold r_paragraph. intros H.
  match type of H with bind ?m _ = _ => destruct m as [[[nl u] st1]|?|] eqn:PS end; cbn [bind] in H; try discriminate H.
  apply (para_scan_fr term T nm_paragraph ltac:(discriminate)) in PS. apply fr_tabs_eq in PS.
  rstep H. rfinish H. eapply tabs_eq_trans; [|exact (tabs_eq_trans _ _ _ PS ltac:(repeat split))]. repeat split.
Qed.
Lemma r_lheading_tabs term (T : term_fr term) st sl el silent b st' : r_lheading cfg term st sl el silent = Ok (b, st') -> tabs_eq st st'.
Proof.
  unfold r_lheading. intros H. rstep H. rstep H; [rfinish H; tabs_done|].
  match type of H with bind ?m _ = _ => destruct m as [[[nl u] st1]|?|] eqn:PS end; cbn [bind] in H; try discriminate H.
  apply (para_scan_fr term T nm_paragraph ltac:(discriminate)) in PS. apply fr_tabs_eq in PS.
  assert (P0 : tabs_eq st st1) by (eapply tabs_eq_trans; [|exact PS]; repeat split).
  destruct u as [[marker level]|]; [|rfinish H; exact P0].
  rstep H. rfinish H. eapply tabs_eq_trans; [exact P0|]. repeat split.
Qed.
Lemma r_reference_tabs term (T : term_fr term) st sl el silent b st' : r_reference cfg rf cf term st sl el silent = Ok (b, st') -> tabs_eq st st'.
Proof.
  intros H. pose proof (r_reference_c cfg rf cf term T _ _ _ _ _ _ H) as C. unfold rule_c in C.
  destruct (b && negb silent) eqn:E; [|exact (fr_tabs_eq _ _ C)].
  (* success: replay the rule to see that only tokens, env, line and parentType change *)
  unfold r_reference in H.
  do 3 rstep H. rstep H; [rfinish H; discriminate E|]. rstep H. rstep H; [rfinish H; discriminate E|].
  rstep H. rstep H; [rfinish H; discriminate E|].
  match type of H with bind ?m _ = _ => destruct m as [[[nl u] st1]|?|] eqn:PS end; cbn [bind] in H; try discriminate H.
  apply (para_scan_fr term T nm_reference ltac:(discriminate)) in PS. apply fr_tabs_eq in PS.
  assert (P0 : tabs_eq st st1) by (eapply tabs_eq_trans; [|exact PS]; repeat split).
  rstep H. cbv zeta in H.
  repeat first
    [ match type of H with Ok _ = Ok _ => idtac end; fail 1
    | match type of H with context [ref_label ?a ?b0 ?c ?d ?e] => destruct (ref_label a b0 c d e) as [[[?|] ?]|] end
    | match type of H with context [skip_ws_nl ?a ?b0 ?c ?d ?e] => destruct (skip_ws_nl a b0 c d e) end
    | match type of H with context [if ?c then _ else _] => destruct c end
    | progress cbv beta iota in H ].
  all: rfinish H; try exact P0; try discriminate E.
  all: eapply tabs_eq_trans; [exact P0|]; destruct (c_inline_defs cfg); repeat split.
Qed.

Lemma table_rows_tabs term (T : term_fr term) : forall fuel st aligns sl nl el tbody r tb' st',
  table_rows cfg fuel term st aligns sl nl el tbody = Ok (r, tb', st') -> tabs_eq st st'.
Proof.
  induction fuel as [|f IH]; intros st aligns sl nl el tbody r tb' st' H; [discriminate H|]. cbn [table_rows] in H.
  destruct (negb (nl <? el)); [rfinish H; tabs_done|].
  rstep H. rstep H; [rfinish H; tabs_done|].
  destruct (term nm_blockquote st nl el) as [[tt st1]|?|] eqn:TE; cbn [bind] in H; try discriminate H.
  pose proof (fr_tabs_eq _ _ (T nm_blockquote _ _ _ _ _ ltac:(discriminate) TE)) as F.
  destruct tt; [rfinish H; exact F|].
  rstep H. destruct (py_strip x0) as [|c0 lt]; [rfinish H; exact F|].
  rstep H. rstep H; [rfinish H; exact F|].
  destruct (nl =? sl + 2); cbv beta iota in H; apply IH in H; (eapply tabs_eq_trans; [exact F|]); (eapply tabs_eq_trans; [|exact H]).
  all: repeat (eapply tabs_eq_trans; [|apply tabs_eq_bpush]); (eapply tabs_eq_trans; [|apply push_cells_tabs]); repeat (eapply tabs_eq_trans; [|apply tabs_eq_bpush]); repeat split.
Qed.

Lemma r_table_tabs term (T : term_fr term) st sl el silent b st' : r_table cfg term st sl el silent = Ok (b, st') -> tabs_eq st st'.
Proof.
  intros H. pose proof (r_table_c cfg term T _ _ _ _ _ _ H) as C. unfold rule_c in C.
  destruct (b && negb silent) eqn:E; [|exact (fr_tabs_eq _ _ C)].
  unfold r_table in H. destruct (el <? sl + 2); [rfinish H; discriminate E|]. cbv zeta in H.
  repeat first
    [ match type of H with bind (table_rows _ _ _ _ _ _ _ _ _) _ = _ => fail 2 end
    | match type of H with (match ?o with Some _ => _ | None => _ end) = _ => destruct o
      | (if ?c then _ else _) = _ => destruct c
      | bind ?m _ = _ => let x := fresh "x" in destruct m as [x|?|]; cbn [bind] in H; [|discriminate H|discriminate H]
      end ].
  all: try (rfinish H; discriminate E).
  match type of H with bind ?m _ = _ => destruct m as [[[nl tbody] st7]|?|] eqn:TR end; cbn [bind] in H; try discriminate H.
  apply (table_rows_tabs term T) in TR. rfinish H.
  destruct tbody as [bi|].
  all: eapply tabs_eq_trans; [|repeat split].
  all: eapply tabs_eq_trans; [|exact TR].
  all: repeat (eapply tabs_eq_trans; [|apply tabs_eq_bpush]); (eapply tabs_eq_trans; [|apply push_cells_tabs]); repeat (eapply tabs_eq_trans; [|apply tabs_eq_bpush]); repeat split.
Qed.

End Rules.

(* ---- dispatch, terminator chains, the rule loop, the line loop ---- *)
Section Loop.
Context (cfg : bcfg) (rf cf : str -> str).

(* terminator chains: silent-capable rules, and not the reference rule (it reads the first character
   of the line unguarded; the Ruler never puts it into a chain: it has no alt entry) *)
Definition term_names_ok : Prop :=
  forall ch n, ch <> [] -> In n (c_term cfg ch) -> silent_capable n /\ str_eqb n nm_reference = false.

Lemma term_names_silent : term_names_ok -> silent_terms cfg.
Proof. intros H ch n CN I. exact (proj1 (H ch n CN I)). Qed.

Lemma apply_rule_r N rec term (RN : rec_n N rec) (T : term_fr term) (TN : term_nr N term)
      n st sl el silent :
  pre2 N st sl el -> (silent = false -> TI st) -> (silent = false -> CI st) -> (silent = false -> b_line st = sl) ->
  (silent = true -> silent_capable n /\ str_eqb n nm_reference = false) -> (silent = false -> nonempty st sl) ->
  nr (apply_rule cfg rf cf rec term n st sl el silent)
  /\ forall b st', apply_rule cfg rf cf rec term n st sl el silent = Ok (b, st') -> tabs_eq st st'.
Proof.
  intros P HT HC BL SC NE. unfold apply_rule.
  destruct (str_eqb n nm_table); [split; [apply (r_table_nr cfg N); assumption | intros b st'; apply r_table_tabs; assumption]|].
  destruct (str_eqb n nm_code) eqn:N2; [split; [apply (r_code_nr cfg N); assumption | intros b st'; apply r_code_tabs]|].
  destruct (str_eqb n nm_fence); [split; [apply (r_fence_nr cfg N); assumption | intros b st'; apply r_fence_tabs]|].
  destruct (str_eqb n nm_blockquote); [apply (r_blockquote_r cfg N); assumption|].
  destruct (str_eqb n nm_hr); [split; [apply (r_hr_nr cfg N); assumption | intros b st'; apply r_hr_tabs]|].
  destruct (str_eqb n nm_list); [apply (r_list_r cfg N); assumption|].
  destruct (str_eqb n nm_reference) eqn:N7.
  { destruct silent; [destruct (SC eq_refl) as [_ X]; congruence|].
    split; [apply (r_reference_nr cfg rf cf N); try assumption; apply NE; reflexivity | intros b st'; apply r_reference_tabs; assumption]. }
  destruct (str_eqb n nm_html_block); [split; [apply (r_html_block_nr cfg N); assumption | intros b st'; apply r_html_block_tabs]|].
  destruct (str_eqb n nm_heading); [split; [apply (r_heading_nr cfg N); assumption | intros b st'; apply r_heading_tabs]|].
  destruct (str_eqb n nm_lheading); [split; [apply (r_lheading_nr cfg N); assumption | intros b st'; apply r_lheading_tabs; assumption]|].
  destruct (str_eqb n nm_paragraph); [split; [apply (r_paragraph_nr N); assumption | intros b st'; apply r_paragraph_tabs; assumption]|].
  split; [apply nr_ok | intros b st' H; injection H as <- <-; apply tabs_eq_refl].
Qed.

Lemma no_rec_n N : rec_n N no_rec.
Proof. intros st a b _ _ _ _ _ _. split; [apply nr_oof | discriminate]. Qed.
Lemma no_term_nr N : term_nr N no_term.
Proof. intros ch st a b _ _. apply nr_oof. Qed.

Lemma pre2_tabs N st st' a b : tabs_eq st st' -> pre2 N st a b -> pre2 N st' a b.
Proof.
  intros TE (R & A & B & C). split; [exact (tabs_eq_RI _ _ _ TE R)|]. split; [exact A|]. split; [exact B|].
  rewrite (tabs_eq_lineMax _ _ TE). exact C.
Qed.

(* a silent chain *)
Lemma run_chain_nr N : forall names st l el,
  (forall n, In n names -> silent_capable n /\ str_eqb n nm_reference = false) ->
  pre2 N st l el -> nr (run_chain cfg rf cf names st l el).
Proof.
  induction names as [|n names IH]; intros st l el SC P; cbn [run_chain]; [apply nr_ok|].
  destruct (apply_rule_r N no_rec no_term (no_rec_n N) no_term_fr (no_term_nr N) n st l el true P
              ltac:(discriminate) ltac:(discriminate) ltac:(discriminate) (fun _ => SC n (or_introl eq_refl)) ltac:(discriminate)) as [A B].
  apply nr_bind; [exact A|]. intros [r s1] E. specialize (B r s1 E).
  destruct r; [apply nr_ok|]. apply IH; [intros m Hm; apply SC; right; exact Hm | exact (pre2_tabs _ _ _ _ _ B P)].
Qed.

Lemma terminated_nr N (TNO : term_names_ok) : term_nr N (terminated cfg rf cf).
Proof.
  intros ch st a b CN P. unfold terminated. apply (run_chain_nr N); [|exact P].
  intros n Hn. exact (TNO ch n CN Hn).
Qed.

Lemma nonempty_tabs st st' l : tabs_eq st st' -> nonempty st l -> nonempty st' l.
Proof. intros (_ & A2 & A3 & A4 & _) H b e t. rewrite A2, A3, A4. apply H. Qed.

Lemma try_rules_r N rec (RN : rec_n N rec) (RC : rec_c rec) (TNO : term_names_ok) :
  forall names st sl el, pre2 N st sl el -> TI st -> CI st -> b_line st = sl -> nonempty st sl ->
  nr (try_rules cfg rf cf rec names st sl el)
  /\ forall st', try_rules cfg rf cf rec names st sl el = Ok st' -> tabs_eq st st'.
Proof.
  induction names as [|n names IH]; intros st sl el P HT HC BL NE; cbn [try_rules].
  { split; [apply nr_ok | intros st' H; injection H as <-; apply tabs_eq_refl]. }
  destruct (apply_rule_r N rec (terminated cfg rf cf) RN (terminated_fr cfg rf cf (term_names_silent TNO)) (terminated_nr N TNO)
              n st sl el false P (fun _ => HT) (fun _ => HC) (fun _ => BL) ltac:(discriminate) (fun _ => NE)) as [A B].
  destruct (apply_rule cfg rf cf rec (terminated cfg rf cf) n st sl el false) as [[r s1]|ex|] eqn:AR; cbn [bind].
  2:{ exfalso. exact (A ex eq_refl). }
  2:{ split; [apply nr_oof | discriminate]. }
  specialize (B r s1 eq_refl).
  destruct r; [split; [apply nr_ok | intros st' H; injection H as <-; exact B]|].
  destruct (apply_rule_c cfg rf cf rec _ RC (terminated_fr cfg rf cf (term_names_silent TNO)) _ _ _ _ _ _ _ AR ltac:(discriminate)) as [C _].
  unfold rule_c in C. cbn [andb] in C.
  destruct (IH s1 sl el (pre2_tabs _ _ _ _ _ B P) (tabs_eq_TI _ _ B HT) (tabs_eq_CI _ _ B HC) ltac:(rewrite (fr_line _ _ C); exact BL) (nonempty_tabs _ _ _ B NE)) as [A2 B2].
  split; [exact A2|]. intros st' H. exact (tabs_eq_trans _ _ _ B (B2 st' H)).
Qed.

Lemma skip_empty_nonempty : forall fuel st a, (Z.to_nat (b_lineMax st - a) < fuel)%nat ->
  skip_empty_lines fuel st a < b_lineMax st -> is_empty st (skip_empty_lines fuel st a) = Ok false.
Proof.
  induction fuel as [|f IH]; intros st a HF HL; [lia|]. cbn [skip_empty_lines] in *.
  destruct (negb (a <? b_lineMax st)) eqn:E; [lia|].
  destruct (is_empty st a) as [[|]|?|] eqn:IE; try (apply IH; [lia | exact HL]). exact IE.
Qed.

Lemma is_empty_false_nonempty st l : is_empty st l = Ok false -> nonempty st l.
Proof.
  unfold is_empty, line_start, nonempty. intros H b e t Eb Ee Et. rewrite Eb, Et in H. cbn [bind] in H. rewrite Ee in H. cbn [bind] in H.
  injection H as H. lia.
Qed.

Lemma tok_loop_r N rec (RN : rec_n N rec) (RC : rec_c rec) (TNO : term_names_ok)
      (PA : mem_str nm_paragraph (c_rules cfg) = true) :
  forall fuel st line el hel,
  RI N st -> TI st -> CI st -> 0 <= line -> line <= b_lineMax st -> el <= b_lineMax st -> (line < el \/ b_line st = line) ->
  nr (tok_loop cfg rf cf fuel rec st line el hel)
  /\ forall st', tok_loop cfg rf cf fuel rec st line el hel = Ok st' -> tabs_eq st st'.
Proof.
  induction fuel as [|f IH]; intros st line el hel R HT HC L0 L1 L2 LB; [split; [apply nr_oof | discriminate]|].
  cbn [tok_loop].
  assert (LMN : b_lineMax st <= N) by (destruct R as [LM _]; lia).
  destruct (negb (line <? el)) eqn:NE; [split; [apply nr_ok | intros st' H; injection H as <-; apply tabs_eq_refl]|].
  cbv zeta.
  set (line1 := skip_empty_lines (S (Z.to_nat (b_lineMax st))) st line) in *.
  destruct (skip_empty_spec (S (Z.to_nat (b_lineMax st))) st line) as [E1 E2]. specialize (E2 L1). fold line1 in E1, E2.
  assert (T1 : tabs_eq st (st_line st line1)) by repeat split.
  destruct (el <=? line1) eqn:EL; [split; [apply nr_ok | intros st' H; injection H as <-; exact T1]|].
  change (b_sCount (st_line st line1)) with (b_sCount st).
  destruct (RI_reads N st line1 R ltac:(lia)) as (b & e & t & sc & bs & Eb & Ee & Et & Es & Ebs & _).
  rewrite Es. cbn [bind].
  change (b_blkIndent (st_line st line1)) with (b_blkIndent st).
  destruct (sc <? b_blkIndent st); [split; [apply nr_ok | intros st' H; injection H as <-; exact T1]|].
  destruct (c_maxNesting cfg <=? b_level (st_line st line1)); [split; [apply nr_ok | intros st' H; injection H as <-; repeat split]|].
  assert (NEl : nonempty (st_line st line1) line1).
  { apply (nonempty_tabs st); [exact T1|]. apply is_empty_false_nonempty. unfold line1. apply skip_empty_nonempty; [lia|]. fold line1. lia. }
  assert (P1 : pre2 N (st_line st line1) line1 el).
  { split; [exact (tabs_eq_RI _ _ _ T1 R)|]. change (b_lineMax (st_line st line1)) with (b_lineMax st). lia. }
  destruct (try_rules_r N rec RN RC TNO (c_rules cfg) (st_line st line1) line1 el P1 HT HC eq_refl NEl) as [TN0 TP0].
  destruct (try_rules cfg rf cf rec (c_rules cfg) (st_line st line1) line1 el) as [st2|ex|] eqn:TR; cbn [bind].
  2:{ exfalso. exact (TN0 ex eq_refl). }
  2:{ split; [apply nr_oof | discriminate]. }
  specialize (TP0 st2 eq_refl).
  pose proof TR as TR'. apply (try_rules_m cfg rf cf rec RC (term_names_silent TNO)) in TR'; [| |exact PA].
  2:{ split; [lia|]. split; [lia|]. split; [exact L2|]. split; [reflexivity | exact HT]. }
  destruct TR' as (A1 & A2 & A3 & A4 & A5). cbn [b_lineMax st_line set] in A1, A2.
  set (st3 := st2 <| b_tight := negb hel |>) in *.
  change (b_line st3) with (b_line st2).
  assert (T3 : tabs_eq st st3) by (eapply tabs_eq_trans; [exact T1|]; eapply tabs_eq_trans; [exact TP0|]; repeat split).
  pose proof (tabs_eq_RI _ _ _ T3 R) as R3. pose proof (tabs_eq_TI _ _ T3 HT) as HT3. pose proof (tabs_eq_CI _ _ T3 HC) as HC3.
  match goal with |- nr (bind ?m _) /\ _ => assert (N1 : nr m) end.
  { destruct (b_line st2 - 1 <? el); [apply (is_empty_nr N); [exact R3 | lia] | apply nr_ok]. }
  match goal with |- nr (bind ?m _) /\ _ => destruct m as [e1|ex|] eqn:E1'; cbn [bind] end.
  2:{ exfalso. exact (N1 ex eq_refl). }
  2:{ split; [apply nr_oof | discriminate]. }
  match goal with |- nr (bind ?m _) /\ _ => assert (N2 : nr m) end.
  { destruct (b_line st2 <? el) eqn:X; [apply (is_empty_nr N); [exact R3 | lia] | apply nr_ok]. }
  match goal with |- nr (bind ?m _) /\ _ => destruct m as [e2|ex|] eqn:E2'; cbn [bind] end.
  2:{ exfalso. exact (N2 ex eq_refl). }
  2:{ split; [apply nr_oof | discriminate]. }
  destruct e2.
  - assert (LT2 : b_line st2 < el) by (destruct (b_line st2 <? el) eqn:X; [lia | discriminate E2']).
    assert (T4 : tabs_eq st (st_line st3 (b_line st2 + 1))) by (eapply tabs_eq_trans; [exact T3|]; repeat split).
    destruct (IH (st_line st3 (b_line st2 + 1)) (b_line st2 + 1) el true (tabs_eq_RI _ _ _ T4 R) (tabs_eq_TI _ _ T4 HT) (tabs_eq_CI _ _ T4 HC) ltac:(lia)) as [A B].
    { rewrite (tabs_eq_lineMax _ _ T4). lia. } { rewrite (tabs_eq_lineMax _ _ T4). lia. } { right. reflexivity. }
    split; [exact A|]. intros st' H. exact (tabs_eq_trans _ _ _ T4 (B st' H)).
  - destruct (IH st3 (b_line st2) el (hel || e1) R3 HT3 HC3 ltac:(lia)) as [A B].
    { rewrite (tabs_eq_lineMax _ _ T3). lia. } { rewrite (tabs_eq_lineMax _ _ T3). lia. } { right. reflexivity. }
    split; [exact A|]. intros st' H. exact (tabs_eq_trans _ _ _ T3 (B st' H)).
Qed.

Lemma tokenize_rec_n N (TNO : term_names_ok) (PA : mem_str nm_paragraph (c_rules cfg) = true) :
  forall d, rec_n N (tokenize cfg rf cf d).
Proof.
  induction d as [|d IH]; intros st a b R HT HC A0 AB BL; [split; [apply nr_oof | discriminate]|].
  cbn [tokenize].
  pose proof (tokenize_rec_c cfg rf cf (term_names_silent TNO) PA d) as RC.
  destruct (tok_loop_r N _ IH RC TNO PA (S (S (Z.to_nat (b - a)))) st a b false R HT HC A0 ltac:(lia) BL ltac:(lia)) as [A B].
  split; [exact A|]. intros st' H. split; [exact (B st' H)|].
  destruct (tokenize_rec_c cfg rf cf (term_names_silent TNO) PA (S d) st a b st' H A0 AB BL HT) as (_ & C2 & _). exact C2.
Qed.

End Loop.

(* ---- the tables of a fresh StateBlock satisfy RI ---- *)
Definition P4 (src : str) (b e t : Z) : Prop :=
  0 <= b /\ (0 <= t /\ b + t <= e) /\ 0 <= e <= len src
  /\ (e < len src -> py_idx src e = Ok 10)
  /\ (b + t < e -> exists c, py_idx src (b + t) = Ok c /\ is_space c = false).

Definition rowsJ (src : str) (pos : Z) (bM eM tS : list Z) : Prop :=
  length eM = length bM /\ length tS = length bM
  /\ forall i b e t, nth_error (rev bM) i = Some b -> nth_error (rev eM) i = Some e -> nth_error (rev tS) i = Some t ->
       P4 src b e t /\ (e < len src \/ (pos = len src /\ i = (length bM - 1)%nat)).

Lemma rowsJ_cons src pos pos' bM eM tS b e t : rowsJ src pos bM eM tS -> pos < len src -> P4 src b e t -> (e < len src \/ pos' = len src) ->
  rowsJ src pos' (b :: bM) (e :: eM) (t :: tS).
Proof.
  intros (L1 & L2 & H) Hp P Q. split; [cbn [length]; lia|]. split; [cbn [length]; lia|].
  intros i b' e' t' Hb He Ht. cbn [rev] in Hb, He, Ht.
  apply nth_error_snoc in Hb. apply nth_error_snoc in He. apply nth_error_snoc in Ht. rewrite !rev_length in *.
  destruct Hb as [[Lb Hb]|[Lb ->]]; destruct He as [[Le He]|[Le ->]]; destruct Ht as [[Lt Ht]|[Lt ->]]; try lia.
  - destruct (H i b' e' t' Hb He Ht) as [A [B|[B _]]]; [split; [exact A | left; exact B] | lia].
  - split; [exact P|]. destruct Q as [Q|Q]; [left; exact Q | right; split; [exact Q | cbn [length]; lia]].
Qed.

Lemma rowsJ_pos src pos pos' bM eM tS : rowsJ src pos bM eM tS -> pos < len src -> rowsJ src pos' bM eM tS.
Proof.
  intros (L1 & L2 & H) Hp. split; [exact L1|]. split; [exact L2|]. intros i b e t Hb He Ht.
  destruct (H i b e t Hb He Ht) as [A [B|[B _]]]; [split; [exact A | left; exact B] | lia].
Qed.

Definition scanJ (full : str) (r : scan) (pos : Z) : Prop :=
  rowsJ full pos (sc_bM r) (sc_eM r) (sc_tS r) /\ 0 <= sc_start r /\ 0 <= sc_indent r
  /\ (pos < len full -> sc_start r + sc_indent r <= pos
        /\ (sc_found r = false -> sc_start r + sc_indent r = pos)
        /\ (sc_found r = true -> sc_start r + sc_indent r < pos
                                 /\ exists c, py_idx full (sc_start r + sc_indent r) = Ok c /\ is_space c = false)).

Lemma scan_step_J full r pos c : scanJ full r pos -> 0 <= pos -> py_idx full pos = Ok c ->
  scanJ full (scan_step (len full) r pos c) (pos + 1).
Proof.
  intros (R & S0 & I0 & F) Hp Ec. destruct (py_idx_get _ _ _ Hp Ec) as [_ PL]. destruct (F PL) as (F1 & F2 & F3).
  unfold scan_step.
  destruct (negb (sc_found r) && is_space c) eqn:E.
  - assert (Sp : is_space c = true) by (destruct (is_space c); [reflexivity | rewrite Bool.andb_false_r in E; discriminate E]).
    assert (Fd : sc_found r = false) by (destruct (sc_found r); [discriminate E | reflexivity]).
    split; [exact (rowsJ_pos _ _ _ _ _ _ R PL)|]. cbn [sc_start sc_indent sc_found]. split; [exact S0|]. split; [lia|].
    intros _. specialize (F2 Fd). split; [lia|]. split; [intros _; lia | discriminate].
  - destruct ((c =? 10) || (pos =? len full - 1)) eqn:E2.
    + cbv zeta. unfold scanJ. cbn [sc_bM sc_eM sc_tS sc_start sc_indent sc_found]. split.
      * apply (rowsJ_cons full pos); [exact R | exact PL| |destruct (c =? 10) eqn:X; [left; lia | right; lia]].
        unfold P4. split; [exact S0|]. split; [destruct (c =? 10); lia|]. split; [destruct (c =? 10); lia|]. split.
        -- intros Hlt. destruct (c =? 10) eqn:X; [assert (c = 10) by lia; subst c; exact Ec | lia].
        -- intros Hlt. destruct (sc_found r) eqn:Fd; [exact (proj2 (F3 eq_refl))|].
           specialize (F2 eq_refl). destruct (c =? 10) eqn:X; [lia|].
           assert (Sp : is_space c = false) by (cbn in E; exact E).
           exists c. rewrite F2. split; [exact Ec | exact Sp].
      * split; [destruct (c =? 10); lia|]. split; [lia|]. intros HL.
        assert (CX : (c =? 10) = true) by (destruct (c =? 10) eqn:X; [reflexivity | lia]). rewrite CX.
        split; [lia|]. split; [intros _; lia | discriminate].
    + assert (c <> 10) by lia.
      split; [exact (rowsJ_pos _ _ _ _ _ _ R PL)|]. cbn [sc_start sc_indent sc_found]. split; [exact S0|]. split; [exact I0|].
      intros _. split; [lia|]. split; [discriminate|]. intros _.
      destruct (sc_found r) eqn:Fd; [destruct (F3 eq_refl) as [A B]; split; [lia | exact B]|].
      specialize (F2 eq_refl). split; [lia|]. exists c. rewrite F2. split; [exact Ec|]. cbn in E. exact E.
Qed.

Lemma scan_loop_J full : forall rest done r, full = done ++ rest -> scanJ full r (len done) ->
  scanJ full (scan_loop (len full) r (len done) rest) (len full).
Proof.
  induction rest as [|c rest IH]; intros done r E H; cbn [scan_loop].
  - rewrite E, app_nil_r. rewrite E, app_nil_r in H. exact H.
  - replace (len done + 1) with (len (done ++ [c])) by (rewrite len_app; unfold len; cbn; lia).
    apply IH; [rewrite <- app_assoc; exact E|].
    replace (len (done ++ [c])) with (len done + 1) by (rewrite len_app; unfold len; cbn; lia).
    apply scan_step_J; [exact H | apply len_nonneg|]. rewrite E. apply py_idx_app.
Qed.

Theorem state_init_RI src env toks : RI (b_lineMax (state_init src env toks)) (state_init src env toks).
Proof.
  destruct (state_init_tables src env toks) as (T1 & T2 & T3 & T4 & T5 & LM & _). cbv zeta in *.
  unfold RI. split; [lia|]. repeat (split; [assumption|]).
  unfold state_init in *. cbv zeta in *. cbn [b_src b_bMarks b_eMarks b_tShift b_lineMax] in *.
  set (r := scan_loop (len src) (mkScan [] [] [] [] false 0 0 0) 0 src) in *.
  assert (HI : scanJ src r (len src)).
  { unfold r. apply (scan_loop_J src src [] _ eq_refl). unfold scanJ. cbn.
    split; [split; [reflexivity|]; split; [reflexivity|]; intros i b e t Hb; destruct i; discriminate Hb|].
    split; [lia|]. split; [lia|]. intros _. split; [lia|]. split; [intros _; lia | discriminate]. }
  destruct HI as ((L1 & L2 & H) & S0 & I0 & _). pose proof (len_nonneg src) as Ln.
  set (N := len (rev (len src :: sc_bM r)) - 1) in *.
  assert (NK : N = Z.of_nat (length (sc_bM r))) by (unfold N, len; rewrite rev_length; cbn [length]; lia).
  intros l b e t Hl Eb Ee Et. rewrite tb_nonneg in Eb, Ee, Et by lia.
  destruct (nth_error (rev (len src :: sc_bM r)) (Z.to_nat l)) eqn:X1; [|discriminate Eb].
  destruct (nth_error (rev (len src :: sc_eM r)) (Z.to_nat l)) eqn:X2; [|discriminate Ee].
  destruct (nth_error (rev (0 :: sc_tS r)) (Z.to_nat l)) eqn:X3; [|discriminate Et].
  injection Eb as <-. injection Ee as <-. injection Et as <-.
  cbn [rev] in X1, X2, X3. apply nth_error_snoc in X1. apply nth_error_snoc in X2. apply nth_error_snoc in X3. rewrite !rev_length in *.
  destruct X1 as [[A1 X1]|[A1 ->]]; destruct X2 as [[A2 X2]|[A2 ->]]; destruct X3 as [[A3 X3]|[A3 ->]]; try lia.
  - destruct (H _ _ _ _ X1 X2 X3) as ((P0 & P1 & P2 & P3 & P5) & Q).
    unfold row_ok. split; [exact P0|]. split; [exact P1|]. split; [exact P2|]. split; [|split; [exact P3 | exact P5]].
    intros HL. destruct Q as [Q|[_ Q]]; [exact Q | lia].
  - (* the sentinel row *)
    unfold row_ok. repeat split; try lia; intros; lia.
Qed.

(* ---- the tables of a fresh StateBlock satisfy the column invariant CI ---- *)
Definition rowsK (src : str) (bM tS sC : list Z) : Prop :=
  length tS = length bM /\ length sC = length bM
  /\ forall i b t s, nth_error (rev bM) i = Some b -> nth_error (rev tS) i = Some t -> nth_error (rev sC) i = Some s ->
       s = gcols src b (b + t) 0 0.

Lemma rowsK_cons src bM tS sC b t s : rowsK src bM tS sC -> s = gcols src b (b + t) 0 0 -> rowsK src (b :: bM) (t :: tS) (s :: sC).
Proof.
  intros (L1 & L2 & H) P. split; [cbn [length]; lia|]. split; [cbn [length]; lia|].
  intros i b' t' s' Hb Ht Hs. cbn [rev] in Hb, Ht, Hs.
  apply nth_error_snoc in Hb. apply nth_error_snoc in Ht. apply nth_error_snoc in Hs. rewrite !rev_length in *.
  destruct Hb as [[Lb Hb]|[Lb ->]]; destruct Ht as [[Lt Ht]|[Lt ->]]; destruct Hs as [[Ls Hs]|[Ls ->]]; try lia.
  exact (H i b' t' s' Hb Ht Hs).
Qed.

Definition scanK (full : str) (r : scan) : Prop :=
  rowsK full (sc_bM r) (sc_tS r) (sc_sC r)
  /\ sc_offset r = gcols full (sc_start r) (sc_start r + sc_indent r) 0 0.

Lemma scan_step_K full r pos c : scanJ full r pos -> scanK full r -> 0 <= pos -> py_idx full pos = Ok c ->
  scanK full (scan_step (len full) r pos c).
Proof.
  intros (_ & S0 & I0 & F) (RK & OK) Hp Ec. destruct (py_idx_get _ _ _ Hp Ec) as [_ PL]. destruct (F PL) as (F1 & F2 & F3).
  unfold scan_step.
  destruct (negb (sc_found r) && is_space c) eqn:E.
  - assert (Sp : is_space c = true) by (destruct (is_space c); [reflexivity | rewrite Bool.andb_false_r in E; discriminate E]).
    assert (Fd : sc_found r = false) by (destruct (sc_found r); [discriminate E | reflexivity]).
    specialize (F2 Fd).
    split; [exact RK|]. cbn [sc_start sc_indent sc_offset].
    rewrite (gcols_split full 0 (sc_start r + (sc_indent r + 1)) (sc_start r + sc_indent r) _ (sc_start r) 0 eq_refl) by lia.
    rewrite <- OK. rewrite gcols_step by lia. rewrite F2. rewrite (py_idx_char_at _ _ _ Hp Ec). rewrite Sp.
    rewrite gcols_end by lia. rewrite Z.add_0_r. reflexivity.
  - destruct ((c =? 10) || (pos =? len full - 1)) eqn:E2.
    + cbv zeta. split; cbn [sc_bM sc_tS sc_sC sc_start sc_indent sc_offset].
      * apply rowsK_cons; [exact RK | exact OK].
      * rewrite gcols_end by lia. reflexivity.
    + split; [exact RK|]. cbn [sc_start sc_indent sc_offset]. exact OK.
Qed.

Lemma scan_loop_K full : forall rest done r, full = done ++ rest -> scanJ full r (len done) -> scanK full r ->
  scanK full (scan_loop (len full) r (len done) rest).
Proof.
  induction rest as [|c rest IH]; intros done r E H K; cbn [scan_loop]; [exact K|].
  assert (Ec : py_idx full (len done) = Ok c) by (rewrite E; apply py_idx_app).
  replace (len done + 1) with (len (done ++ [c])) by (rewrite len_app; unfold len; cbn; lia).
  apply IH; [rewrite <- app_assoc; exact E| |].
  - replace (len (done ++ [c])) with (len done + 1) by (rewrite len_app; unfold len; cbn; lia).
    apply scan_step_J; [exact H | apply len_nonneg | exact Ec].
  - apply (scan_step_K full r (len done) c H K (len_nonneg _) Ec).
Qed.

Lemma nth_error_map_const {A} (l : list A) i (v : Z) : nth_error (map (fun _ => 0) l) i = Some v -> v = 0.
Proof. revert i. induction l as [|a l IH]; intros [|i] H; cbn in H; try discriminate; [injection H as <-; reflexivity | exact (IH _ H)]. Qed.

Theorem state_init_CI src env toks : CI (state_init src env toks).
Proof.
  unfold CI, state_init. cbv zeta. cbn [b_src b_bMarks b_tShift b_sCount b_bsCount b_lineMax].
  set (r := scan_loop (len src) (mkScan [] [] [] [] false 0 0 0) 0 src) in *.
  assert (HJ0 : scanJ src (mkScan [] [] [] [] false 0 0 0) (len (@nil Z))).
  { unfold scanJ. cbn.
    split; [split; [reflexivity|]; split; [reflexivity|]; intros i b e t Hb; destruct i; discriminate Hb|].
    split; [lia|]. split; [lia|]. intros _. split; [lia|]. split; [intros _; lia | discriminate]. }
  assert (HK : scanK src r).
  { unfold r. apply (scan_loop_K src src [] _ eq_refl HJ0). unfold scanK. cbn [sc_bM sc_tS sc_sC sc_start sc_indent sc_offset].
    split; [split; [reflexivity|]; split; [reflexivity|]; intros i b t s Hb; destruct i; discriminate Hb|].
    rewrite gcols_end by lia. reflexivity. }
  destruct HK as ((L1 & L2 & H) & _).
  intros l b t sc bs Hl Eb Et Es Ebs. rewrite tb_nonneg in Eb, Et, Es, Ebs by lia.
  destruct (nth_error (rev (len src :: sc_bM r)) (Z.to_nat l)) eqn:X1; [|discriminate Eb].
  destruct (nth_error (rev (0 :: sc_tS r)) (Z.to_nat l)) eqn:X2; [|discriminate Et].
  destruct (nth_error (rev (0 :: sc_sC r)) (Z.to_nat l)) eqn:X3; [|discriminate Es].
  destruct (nth_error (map (fun _ : Z => 0) (rev (len src :: sc_bM r))) (Z.to_nat l)) eqn:X4; [|discriminate Ebs].
  injection Eb as <-. injection Et as <-. injection Es as <-. injection Ebs as <-.
  apply nth_error_map_const in X4. subst z2.
  cbn [rev] in X1, X2, X3. apply nth_error_snoc in X1. apply nth_error_snoc in X2. apply nth_error_snoc in X3. rewrite !rev_length in *.
  destruct X1 as [[A1 X1]|[A1 ->]]; destruct X2 as [[A2 X2]|[A2 ->]]; destruct X3 as [[A3 X3]|[A3 ->]]; try lia.
  - rewrite (H _ _ _ _ X1 X2 X3). lia.
  - rewrite gcols_end by lia. lia.
Qed.

(* ---- ParserBlock.parse never raises ---- *)
Theorem block_parse_no_raise cfg rf cf src env toks :
  term_names_ok cfg -> mem_str nm_paragraph (c_rules cfg) = true ->
  nr (block_parse cfg rf cf src env toks).
Proof.
  intros TNO PA. unfold block_parse.
  destruct src as [|c src0]; [apply nr_ok|].
  set (st0 := state_init (c :: src0) env toks).
  pose proof (state_init_RI (c :: src0) env toks) as R. pose proof (state_init_TI (c :: src0) env toks) as HT.
  pose proof (state_init_CI (c :: src0) env toks) as HC. fold st0 in R, HT, HC.
  assert (B0 : b_line st0 = 0) by reflexivity. rewrite B0.
  destruct (Z.eq_dec (b_lineMax st0) 0) as [Z0|NZ].
  - rewrite Z0. cbn [tokenize Z.to_nat Z.sub tok_loop]. change (negb (0 <? 0)) with true. cbv iota. apply nr_ok.
  - assert (LM : 0 <= b_lineMax st0) by (destruct R as [LM _]; lia).
    destruct (tokenize_rec_n cfg rf cf (b_lineMax st0) TNO PA (S (S (Z.to_nat (c_maxNesting cfg)))) st0 0 (b_lineMax st0) R HT HC ltac:(lia) ltac:(lia) ltac:(lia)) as [A _].
    exact A.
Qed.

(* the terminator hypothesis for Ruler-compiled configurations *)
From MD Require Import Model.Ruler.
Definition no_silent_or_ref (n : str) : bool := no_silent_mode n || str_eqb n nm_reference.
Definition alts_ok2 (rs : list (@rule str)) : bool :=
  forallb (fun r => if no_silent_or_ref (rfn r) then match ralt r with [] => true | _ => false end else true) rs.

Theorem ruler_cfg_term_names_ok (rs : list (@rule str)) code mn html defs :
  alts_ok2 rs = true -> term_names_ok (mkBCfg (compile_chain rs []) (compile_chain rs) code mn html defs).
Proof.
  intros A ch n CN H. cbn [c_term] in H. unfold compile_chain in H. apply in_map_iff in H.
  destruct H as (r & <- & I). apply filter_In in I. destruct I as [I C].
  apply Bool.andb_true_iff in C. destruct C as [_ C].
  unfold alts_ok2 in A. rewrite forallb_forall in A. specialize (A r I).
  unfold in_chain in C. destruct ch as [|c0 ch]; [contradiction CN; reflexivity|].
  unfold silent_capable. unfold no_silent_or_ref, no_silent_mode in A.
  destruct (str_eqb (rfn r) nm_code); [destruct (ralt r); [discriminate C | discriminate A]|].
  destruct (str_eqb (rfn r) nm_lheading); [destruct (ralt r); [discriminate C | discriminate A]|].
  destruct (str_eqb (rfn r) nm_paragraph); [destruct (ralt r); [discriminate C | discriminate A]|].
  destruct (str_eqb (rfn r) nm_reference); [destruct (ralt r); [discriminate C | discriminate A]|].
  repeat split.
Qed.
