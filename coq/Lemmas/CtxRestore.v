(* C07: no container context leaks.  Every block rule, successful or not, silent or not, every
   terminator chain, the nested tokenize at any depth and the line loop return with blkIndent and
   listIndent exactly as they found them (the line tables, lineMax, src: Lemmas/NoRaise.v; the level:
   Lemmas/BlockWF.v).  What a top-level block leaves behind is tokens, the cursor, env, the tight
   flag and parentType - and parentType is read by one rule only, in silent mode, where the caller
   has just set it. *)
From RecordUpdate Require Import RecordUpdate.
From MD Require Import Base.Py Base.Str Base.Regex Base.Opt Model.Token Model.Utils Model.StateBlock Model.Helpers
     Model.Url Model.Render Model.Block Lemmas.StrLemmas Lemmas.StrLemmas2 Lemmas.BlockLemmas Lemmas.BlockWF Lemmas.MapLemmas
     Lemmas.ScanLemmas Lemmas.MapWhole.
From Coq Require Import ZifyBool.

Local Arguments Z.eqb : simpl never.
Local Arguments Z.ltb : simpl never.
Local Arguments Z.leb : simpl never.
Local Arguments str_eqb : simpl never.

Definition ctx (st st' : bstate) : Prop :=
  b_blkIndent st' = b_blkIndent st /\ b_listIndent st' = b_listIndent st.
Lemma ctx_refl st : ctx st st. Proof. split; reflexivity. Qed.
Lemma ctx_trans a b c : ctx a b -> ctx b c -> ctx a c.
Proof. intros [A1 A2] [B1 B2]. split; congruence. Qed.
Lemma fr_ctx st st' : fr st st' -> ctx st st'.
Proof. intros H. rewrite H. split; reflexivity. Qed.

Definition rec_x (rec : rec_t) : Prop := forall s a b s', rec s a b = Ok s' -> ctx s s'.
Lemma no_rec_x : rec_x no_rec. Proof. intros s a b s' H. discriminate H. Qed.

Ltac ctx_done := first [ apply ctx_refl | split; reflexivity ].

Section Rules.
Context (cfg : bcfg) (rf cf : str -> str).

Lemma r_hr_x st sl el silent b st' : r_hr cfg st sl el silent = Ok (b, st') -> ctx st st'.
Proof. unfold r_hr. intros H. repeat rstep H; try discriminate H. all: rfinish H; ctx_done. Qed.
Lemma r_code_x st sl el silent b st' : r_code cfg st sl el silent = Ok (b, st') -> ctx st st'.
Proof. unfold r_code. intros H. repeat rstep H; try discriminate H. all: rfinish H; ctx_done. Qed.
Lemma r_fence_x st sl el silent b st' : r_fence cfg st sl el silent = Ok (b, st') -> ctx st st'.
Proof. unfold r_fence. intros H. repeat rstep H; try discriminate H. all: rfinish H; ctx_done. Qed.
Lemma r_heading_x st sl el silent b st' : r_heading cfg st sl el silent = Ok (b, st') -> ctx st st'.
Proof. unfold r_heading. intros H. repeat rstep H; try discriminate H. all: rfinish H; ctx_done. Qed.
Lemma r_html_block_x st sl el silent b st' : r_html_block cfg st sl el silent = Ok (b, st') -> ctx st st'.
Proof.
  unfold r_html_block. intros H.
  do 3 rstep H. rstep H; [rfinish H; ctx_done|]. rstep H; [rfinish H; ctx_done|]. rstep H; [rfinish H; ctx_done|].
  rstep H. rstep H; [rfinish H; ctx_done|]. rstep H; [|rfinish H; ctx_done]. destruct p as [[opener closer] can].
  rstep H; [rfinish H; ctx_done|]. do 2 rstep H. rfinish H. ctx_done.
Qed.

Lemma r_paragraph_x term (T : term_fr term) st sl el silent b st' : r_paragraph term st sl el silent = Ok (b, st') -> ctx st st'.
Proof.
  unfold r_paragraph. intros H.
  match type of H with bind ?m _ = _ => destruct m as [[[nl u] st1]|?|] eqn:PS end; cbn [bind] in H; try discriminate H.
  apply (para_scan_fr term T nm_paragraph ltac:(discriminate)) in PS. apply fr_ctx in PS.
  rstep H. rfinish H. eapply ctx_trans; [|exact (ctx_trans _ _ _ PS ltac:(split; reflexivity))]. split; reflexivity.
Qed.

Lemma r_lheading_x term (T : term_fr term) st sl el silent b st' : r_lheading cfg term st sl el silent = Ok (b, st') -> ctx st st'.
Proof.
  unfold r_lheading. intros H. rstep H. rstep H; [rfinish H; ctx_done|].
  match type of H with bind ?m _ = _ => destruct m as [[[nl u] st1]|?|] eqn:PS end; cbn [bind] in H; try discriminate H.
  apply (para_scan_fr term T nm_paragraph ltac:(discriminate)) in PS. apply fr_ctx in PS.
  assert (P0 : ctx st st1) by (eapply ctx_trans; [|exact PS]; split; reflexivity).
  destruct u as [[mk lv]|]; [|rfinish H; exact P0]. rstep H. rfinish H. eapply ctx_trans; [exact P0|]. split; reflexivity.
Qed.

Lemma r_reference_x term (T : term_fr term) st sl el silent b st' : r_reference cfg rf cf term st sl el silent = Ok (b, st') -> ctx st st'.
Proof.
  unfold r_reference. intros H.
  do 3 rstep H. rstep H; [rfinish H; ctx_done|]. rstep H. rstep H; [rfinish H; ctx_done|]. rstep H. rstep H; [rfinish H; ctx_done|].
  cbv zeta in H.
  match type of H with bind ?m _ = _ => destruct m as [[[nl u] st1]|?|] eqn:PS end; cbn [bind] in H; try discriminate H.
  apply (para_scan_fr term T nm_reference ltac:(discriminate)) in PS. apply fr_ctx in PS.
  assert (P0 : ctx st st1) by (eapply ctx_trans; [|exact PS]; split; reflexivity).
  rstep H. cbv zeta in H.
  repeat first
    [ match type of H with Ok (_, st1) = Ok _ => rfinish H; exact P0 end
    | match type of H with (let '(_, _) := ?p in _) = Ok _ => destruct p end
    | match type of H with (if ?c then _ else _) = Ok _ => destruct c end
    | match type of H with (match ?o with _ => _ end) = Ok _ => destruct o end ].
  all: try (rfinish H; exact P0).
  all: rfinish H; eapply ctx_trans; [exact P0|]; repeat match goal with |- context [if ?c then _ else _] => destruct c end; split; reflexivity.
Qed.

Lemma push_cells_x : forall aligns st oty cty tag cols a b sne, ctx st (push_cells st oty cty tag aligns cols a b sne).
Proof.
  induction aligns as [|al aligns IH]; intros st oty cty tag cols a b sne; cbn [push_cells]; [apply ctx_refl|].
  cbv zeta. eapply ctx_trans; [|apply IH]. split; reflexivity.
Qed.

Lemma table_rows_x term (T : term_fr term) : forall fuel st aligns sl nl el tbody r tb' st',
  table_rows cfg fuel term st aligns sl nl el tbody = Ok (r, tb', st') -> ctx st st'.
Proof.
  induction fuel as [|f IH]; intros st aligns sl nl el tbody r tb' st' H; [discriminate H|].
  cbn [table_rows] in H.
  destruct (negb (nl <? el)); [rfinish H; apply ctx_refl|].
  rstep H. rstep H; [rfinish H; apply ctx_refl|].
  destruct (term nm_blockquote st nl el) as [[t st1]|?|] eqn:TE; cbn [bind] in H; try discriminate H.
  pose proof (fr_ctx _ _ (T nm_blockquote _ _ _ _ _ ltac:(discriminate) TE)) as E1.
  destruct t; [rfinish H; exact E1|].
  rstep H. cbv zeta in H. destruct (py_strip x0) as [|c0 lt]; [rfinish H; exact E1|].
  rstep H. rstep H; [rfinish H; exact E1|]. cbv zeta in H.
  destruct (nl =? sl + 2); cbv iota beta in H; apply IH in H; (eapply ctx_trans; [exact E1|]); (eapply ctx_trans; [|exact H]).
  all: match goal with |- ctx ?s1 (bpush (push_cells ?X ?o ?c ?t ?al ?co ?a ?b ?sn) _ _ _ _) =>
         apply (ctx_trans s1 X); [split; reflexivity|];
         apply (ctx_trans X (push_cells X o c t al co a b sn)); [apply push_cells_x | split; reflexivity] end.
Qed.

Lemma r_table_x term (T : term_fr term) st sl el silent b st' : r_table cfg term st sl el silent = Ok (b, st') -> ctx st st'.
Proof.
  unfold r_table. intros H. destruct (el <? sl + 2); [rfinish H; ctx_done|]. cbv zeta in H.
  repeat (lazymatch type of H with
          | bind (table_rows _ _ _ _ _ _ _ _ _) _ = _ => fail
          | Ok _ = Ok _ => fail
          | _ => rstep H end).
  all: try (rfinish H; apply ctx_refl).
  match type of H with bind ?m _ = _ => destruct m as [[[nl tbody] st7]|?|] eqn:TR end; cbn [bind] in H; try discriminate H.
  apply (table_rows_x term T) in TR. rfinish H.
  match type of TR with ctx ?s6 st7 => apply (ctx_trans st s6) end.
  - match goal with |- ctx st (bpush (bpush (push_cells ?X ?o ?c ?t ?al ?co ?a ?b ?sn) _ _ _ _) _ _ _ _) =>
      apply (ctx_trans st X); [split; reflexivity|];
      apply (ctx_trans X (push_cells X o c t al co a b sn)); [apply push_cells_x | split; reflexivity] end.
  - eapply ctx_trans; [exact TR|]. destruct tbody; split; reflexivity.
Qed.

(* ---- block quote ---- *)
Lemma apply_bq_x st line q st' : apply_bq st line q = Ok st' -> ctx st st'.
Proof. unfold apply_bq. intros H. repeat rstep H. rfinish H. split; reflexivity. Qed.
Lemma restore_tables_x : forall ts st line b bs sc st', restore_tables st line b bs ts sc = Ok st' -> ctx st st'.
Proof.
  induction ts as [|t ts IH]; intros st line b bs sc st' H.
  - destruct b, sc, bs; cbn [restore_tables] in H; rfinish H; apply ctx_refl.
  - destruct b as [|x b]; [discriminate H|]. destruct sc as [|s0 sc]; [discriminate H|]. destruct bs as [|y bs]; [discriminate H|].
    cbn [restore_tables] in H. repeat rstep H. eapply ctx_trans; [|eapply IH; exact H]. split; reflexivity.
Qed.

Lemma bq_loop_x term (T : term_fr term) : forall fuel st sv nl el lle r sv' st',
  bq_loop fuel term st sv nl el lle = Ok (r, sv', st') -> ctx st st'.
Proof.
  induction fuel as [|f IH]; intros st sv nl el lle r sv' st' H; [discriminate H|].
  cbn [bq_loop] in H.
  destruct (negb (nl <? el)); [rfinish H; apply ctx_refl|].
  do 3 rstep H. destruct (x1 <=? x0); [rfinish H; apply ctx_refl|].
  rstep H. cbv zeta in H.
  destruct ((x2 =? 62) && negb (x <? b_blkIndent st)).
  - do 3 rstep H.
    match type of H with bind ?m _ = _ => destruct m as [st1|?|] eqn:AB end; cbn [bind] in H; try discriminate H.
    apply apply_bq_x in AB. apply IH in H. exact (ctx_trans _ _ _ AB H).
  - destruct lle; [rfinish H; apply ctx_refl|].
    destruct (term nm_blockquote st nl el) as [[t st1]|?|] eqn:TE; cbn [bind] in H; try discriminate H.
    pose proof (fr_ctx _ _ (T nm_blockquote _ _ _ _ _ ltac:(discriminate) TE)) as E1.
    destruct t.
    + cbv zeta in H. destruct (negb (b_blkIndent (st1 <| b_lineMax := nl |>) =? 0)).
      * do 2 rstep H. rfinish H. eapply ctx_trans; [exact E1|]. split; reflexivity.
      * rfinish H. eapply ctx_trans; [exact E1|]. split; reflexivity.
    + do 2 rstep H. apply IH in H. eapply ctx_trans; [exact E1|]. eapply ctx_trans; [|exact H]. split; reflexivity.
Qed.

Lemma r_blockquote_x rec term (R : rec_x rec) (T : term_fr term) st sl el silent b st' :
  r_blockquote cfg rec term st sl el silent = Ok (b, st') -> ctx st st'.
Proof.
  unfold r_blockquote. intros H.
  do 3 rstep H. rstep H; [rfinish H; ctx_done|]. rewrite match_some_62 in H.
  rstep H; [|rfinish H; ctx_done]. destruct silent; [rfinish H; ctx_done|].
  do 4 rstep H.
  match type of H with bind (apply_bq ?a ?b ?c) _ = _ => destruct (apply_bq a b c) as [st1|?|] eqn:AB end;
    cbn [bind] in H; try discriminate H.
  match type of H with bind ?m _ = _ => destruct m as [[[nl sv] st3]|?|] eqn:BL end; cbn [bind] in H; try discriminate H.
  match type of H with bind (rec ?a ?b ?c) _ = _ => destruct (rec a b c) as [st6|?|] eqn:RC end;
    cbn [bind] in H; try discriminate H.
  match type of H with bind ?m _ = _ => destruct m as [st10|?|] eqn:RT end; cbn [bind] in H; try discriminate H.
  rfinish H. apply apply_bq_x in AB. apply (bq_loop_x term T) in BL. apply R in RC. apply restore_tables_x in RT.
  destruct AB as [A1 A2]. destruct BL as [B1 B2]. destruct RC as [C1 C2]. destruct RT as [D1 D2].
  cbn in *. split; cbn; congruence.
Qed.

(* ---- list ---- *)
Lemma list_items_x rec term (R : rec_x rec) (T : term_fr term) : forall fuel st isOrd mc sl nl el pam start tight pee r tight' st',
  list_items cfg fuel rec term st isOrd mc sl nl el pam start tight pee = Ok (r, tight', st') -> ctx st st'.
Proof.
  induction fuel as [|f IH]; intros st isOrd mc sl nl el pam start tight pee r tight' st' H; [discriminate H|].
  cbn [list_items] in H.
  destruct (negb (nl <? el)); [rfinish H; apply ctx_refl|].
  do 4 rstep H.
  match type of H with bind ?m _ = _ => destruct m as [[contentStart offset]|?|] end; cbn [bind] in H; try discriminate H.
  cbv zeta in H. do 5 rstep H.
  match type of H with bind ?m _ = _ => destruct m as [st3|?|] eqn:BODY end; cbn [bind] in H; try discriminate H.
  match type of BODY with bind ?m _ = _ => destruct m as [e|?|] end; cbn [bind] in BODY; try discriminate BODY.
  assert (B32 : b_listIndent st3 = b_blkIndent st).
  { destruct e; [rfinish BODY; reflexivity|]. apply R in BODY. destruct BODY as [E1 E2]. cbn in E2. exact E2. }
  do 3 rstep H.
  match type of H with context [bpush ?s4 s_list_item_close s_li (-1) ?f] => set (st5 := bpush s4 s_list_item_close s_li (-1) f) in * end.
  match type of H with context [st5 <| b_tokens := ?v |>] => set (st6 := st5 <| b_tokens := v |>) in * end.
  assert (C6 : ctx st st6) by (unfold st6, st5; split; cbn; [exact B32 | reflexivity]).
  destruct (el <=? b_line st5); [rfinish H; exact C6|].
  rstep H. rstep H; [rfinish H; exact C6|]. rstep H. rstep H; [rfinish H; exact C6|].
  match type of H with bind (term ?a ?b ?c ?d) _ = _ => destruct (term a b c d) as [[t st7]|?|] eqn:TE end; cbn [bind] in H; try discriminate H.
  pose proof (fr_ctx _ _ (T nm_list _ _ _ _ _ ltac:(discriminate) TE)) as E7.
  pose proof (ctx_trans _ _ _ C6 E7) as C7.
  destruct t; [rfinish H; exact C7|].
  rstep H. rstep H; [rfinish H; exact C7|]. do 2 rstep H. rstep H; [rfinish H; exact C7|].
  apply IH in H. exact (ctx_trans _ _ _ C7 H).
Qed.

Lemma r_list_x rec term (R : rec_x rec) (T : term_fr term) st sl el silent b st' :
  r_list cfg rec term st sl el silent = Ok (b, st') -> ctx st st'.
Proof.
  unfold r_list. intros H.
  rstep H. rstep H; [rfinish H; ctx_done|]. rstep H. rstep H; [rfinish H; ctx_done|]. cbv zeta in H.
  do 3 rstep H. destruct x2 as [[[isOrd pam] mv]|]; [|rfinish H; ctx_done].
  rstep H. rstep H; [rfinish H; ctx_done|]. rstep H. destruct silent; [rfinish H; ctx_done|].
  match type of H with bind ?m _ = _ => destruct m as [[[nextLine tight] st3]|?|] eqn:LI end; cbn [bind] in H; try discriminate H.
  apply (list_items_x rec term R T) in LI. rfinish H.
  assert (C3 : ctx st st3) by (eapply ctx_trans; [|exact LI]; destruct isOrd; split; reflexivity).
  eapply ctx_trans; [exact C3|]. destruct tight, isOrd; split; reflexivity.
Qed.

(* ---- dispatch and loops ---- *)
Lemma apply_rule_x rec term (R : rec_x rec) (T : term_fr term) n st sl el silent b st' :
  apply_rule cfg rf cf rec term n st sl el silent = Ok (b, st') -> ctx st st'.
Proof.
  unfold apply_rule. intros H.
  destruct (str_eqb n nm_table); [eapply r_table_x; eassumption|].
  destruct (str_eqb n nm_code); [eapply r_code_x; eassumption|].
  destruct (str_eqb n nm_fence); [eapply r_fence_x; eassumption|].
  destruct (str_eqb n nm_blockquote); [eapply r_blockquote_x; eassumption|].
  destruct (str_eqb n nm_hr); [eapply r_hr_x; eassumption|].
  destruct (str_eqb n nm_list); [eapply r_list_x; eassumption|].
  destruct (str_eqb n nm_reference); [eapply r_reference_x; eassumption|].
  destruct (str_eqb n nm_html_block); [eapply r_html_block_x; eassumption|].
  destruct (str_eqb n nm_heading); [eapply r_heading_x; eassumption|].
  destruct (str_eqb n nm_lheading); [eapply r_lheading_x; eassumption|].
  destruct (str_eqb n nm_paragraph); [eapply r_paragraph_x; eassumption|].
  rfinish H. apply ctx_refl.
Qed.

Lemma try_rules_x rec (R : rec_x rec) (ST : silent_terms cfg) : forall names st l el st',
  try_rules cfg rf cf rec names st l el = Ok st' -> ctx st st'.
Proof.
  induction names as [|n names IH]; intros st l el st' H; cbn [try_rules] in H; [rfinish H; apply ctx_refl|].
  destruct (apply_rule cfg rf cf rec (terminated cfg rf cf) n st l el false) as [[r s1]|?|] eqn:AR; cbn [bind] in H; try discriminate H.
  apply (apply_rule_x rec _ R (terminated_fr cfg rf cf ST)) in AR.
  destruct r; [rfinish H; exact AR|]. exact (ctx_trans _ _ _ AR (IH _ _ _ _ H)).
Qed.

Lemma tok_loop_x rec (R : rec_x rec) (ST : silent_terms cfg) : forall fuel st line el hel st',
  tok_loop cfg rf cf fuel rec st line el hel = Ok st' -> ctx st st'.
Proof.
  induction fuel as [|f IH]; intros st line el hel st' H; [discriminate H|].
  cbn [tok_loop] in H.
  destruct (negb (line <? el)); [rfinish H; apply ctx_refl|]. cbv zeta in H.
  destruct (el <=? _); [rfinish H; split; reflexivity|].
  rstep H. rstep H; [rfinish H; split; reflexivity|]. rstep H; [rfinish H; split; reflexivity|].
  match type of H with bind ?m _ = _ => destruct m as [st2|?|] eqn:TR end; cbn [bind] in H; try discriminate H.
  apply (try_rules_x rec R ST) in TR.
  do 2 rstep H. destruct x1; apply IH in H; (eapply ctx_trans; [|exact H]); destruct TR as [A B]; split; cbn in *; assumption.
Qed.

Theorem tokenize_x (ST : silent_terms cfg) : forall d, rec_x (tokenize cfg rf cf d).
Proof.
  induction d as [|d IH]; intros s a b s' H; [discriminate H|]. cbn [tokenize] in H. exact (tok_loop_x _ IH ST _ _ _ _ _ _ H).
Qed.

(* one rule call from the line loop: whatever happens, the container context comes back *)
Theorem rule_restores_context (ST : silent_terms cfg) d n st sl el silent b st' :
  apply_rule cfg rf cf (tokenize cfg rf cf d) (terminated cfg rf cf) n st sl el silent = Ok (b, st') ->
  b_blkIndent st' = b_blkIndent st /\ b_listIndent st' = b_listIndent st.
Proof. intros H. exact (apply_rule_x _ _ (tokenize_x ST d) (terminated_fr cfg rf cf ST) _ _ _ _ _ _ _ H). Qed.

End Rules.
