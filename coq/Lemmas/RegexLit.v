(* C05: the two regular expressions of validateLink, run by the backtracking matcher of Base/Regex.v on EVERY string,
   compute the direct prefix tests: BAD_PROTO_RE is "starts with vbscript: / javascript: / file: / data:", GOOD_DATA_RE is
   "starts with data:image/(gif|png|jpeg|webp);".  Hence the validator the rule models call (validate_link_re, whose
   regular expressions are regenerated from /repo on every run) IS the direct definition the scheme theorems speak about. *)
From MD Require Import Base.Py Base.Str Base.Regex Base.Opt Model.Utils Model.Url Gen.Regexes.
From Coq Require Import Lia.

Local Arguments Z.eqb : simpl never.

(* a literal string as the translator writes it: right-nested concatenation of one-character classes *)
Fixpoint lit (c : Z) (p : str) : re :=
  match p with [] => RIn false [CChar c] | d :: p' => RCat (RIn false [CChar c]) (lit d p') end.

(* the state after consuming the characters p *)
Definition eatp (st : mstate) (p rest : str) : mstate := mkM (rev p ++ m_before st) rest (m_pos st + Z.of_nat (length p)) (m_groups st).

Lemma starts_with_split : forall p s, starts_with p s = true -> exists rest, s = p ++ rest.
Proof.
  induction p as [|x p IH]; intros s H; [exists s; reflexivity|]. destruct s as [|y s]; cbn [starts_with] in H; [discriminate|].
  apply Bool.andb_true_iff in H. destruct H as [E H]. apply Z.eqb_eq in E. subst y. destruct (IH s H) as [rest ->]. exists rest. reflexivity.
Qed.

Lemma starts_with_app p rest : starts_with p (p ++ rest) = true.
Proof. induction p as [|x p IH]; [reflexivity|]. cbn [app starts_with]. rewrite Z.eqb_refl, IH. reflexivity. Qed.

Lemma starts_with_cons x p y s : starts_with (x :: p) (y :: s) = (x =? y) && starts_with p s.
Proof. reflexivity. Qed.

(* matching a literal: succeeds exactly on that prefix, and then continues after it *)
Lemma mt_lit : forall p c st k,
  mt (lit c p) st k = if starts_with (c :: p) (m_after st)
                      then k (eatp st (c :: p) (skipn (S (length p)) (m_after st))) else None.
Proof.
  induction p as [|d p IH]; intros c st k; cbn [lit mt].
  - unfold advance. destruct (m_after st) as [|y s] eqn:E; [reflexivity|]. cbn [in_cls existsb in_item xorb orb].
    rewrite Bool.orb_false_r. rewrite starts_with_cons. cbn [starts_with]. rewrite Bool.andb_true_r. rewrite (Z.eqb_sym y c).
    destruct (c =? y) eqn:EQ; [|reflexivity].
    apply Z.eqb_eq in EQ. subst y. unfold eatp. cbn [rev app length skipn]. repeat f_equal.
  - unfold advance. destruct (m_after st) as [|y s] eqn:E; [reflexivity|]. cbn [in_cls existsb in_item xorb orb].
    rewrite Bool.orb_false_r. rewrite starts_with_cons. rewrite (Z.eqb_sym y c). destruct (c =? y) eqn:EQ; cbn [andb]; [|reflexivity].
    apply Z.eqb_eq in EQ. subst y. rewrite IH. cbn [m_after].
    destruct (starts_with (d :: p) s); [|reflexivity]. unfold eatp. cbn [m_before m_pos m_groups rev app length skipn].
    f_equal. f_equal; [rewrite <- !app_assoc; reflexivity | lia].
Qed.

(* a pattern anchored with ^ (no MULTILINE) matches at the start of the string only *)
Lemma match_bol_later r st : m_before st <> [] -> match_at (RCat (RBol false) r) st = None.
Proof. intros H. unfold match_at. cbn [mt]. destruct (m_before st); [contradiction H; reflexivity | reflexivity]. Qed.

Lemma search_from_later r : forall fuel st, m_before st <> [] -> search_from fuel (RCat (RBol false) r) st = None.
Proof.
  induction fuel as [|f IH]; intros st H; cbn [search_from].
  - rewrite match_bol_later by exact H. reflexivity.
  - rewrite match_bol_later by exact H. unfold advance. destruct (m_after st) as [|c rest]; [reflexivity|]. apply IH. cbn [m_before]. discriminate.
Qed.

Lemma test_bol r s : test (RCat (RBol false) r) s = match match_at r (init_state s) with Some _ => true | None => false end.
Proof.
  unfold test, search.
  assert (M0 : match_at (RCat (RBol false) r) (mkM (m_before (init_state s)) (m_after (init_state s)) (m_pos (init_state s)) [])
               = match_at r (init_state s)) by reflexivity.
  destruct s as [|c s]; cbn [length search_from]; rewrite M0.
  - destruct (match_at r (init_state [])); reflexivity.
  - destruct (match_at r (init_state (c :: s))); [reflexivity|].
    unfold advance. cbn [m_after init_state]. rewrite search_from_later by (cbn [m_before]; discriminate). reflexivity.
Qed.

Definition is_some {A} (o : option A) : bool := match o with Some _ => true | None => false end.

Lemma is_some_alt a b st k : is_some (mt (RAlt a b) st k) = is_some (mt a st k) || is_some (mt b st k).
Proof. cbn [mt]. destruct (mt a st k); reflexivity. Qed.

Lemma is_some_lit c p st k :
  is_some (mt (lit c p) st k)
  = starts_with (c :: p) (m_after st) && is_some (k (eatp st (c :: p) (skipn (S (length p)) (m_after st)))).
Proof. rewrite mt_lit. destruct (starts_with (c :: p) (m_after st)); reflexivity. Qed.

Lemma starts_with_pre : forall p w rest, starts_with (p ++ w) (p ++ rest) = starts_with w rest.
Proof. induction p as [|x p IH]; intros w rest; [reflexivity|]. cbn [app]. rewrite starts_with_cons, Z.eqb_refl. cbn [andb]. apply IH. Qed.
Lemma skipn_app_len {A} (pre rest : list A) : skipn (length pre) (pre ++ rest) = rest.
Proof. induction pre as [|x pre IH]; cbn; [reflexivity | exact IH]. Qed.

Lemma starts_with_app_split : forall a b u, starts_with (a ++ b) u = starts_with a u && starts_with b (skipn (length a) u).
Proof.
  induction a as [|x a IH]; intros b u; [reflexivity|]. destruct u as [|y u]; cbn [app length skipn].
  - reflexivity.
  - rewrite !starts_with_cons, IH. apply Bool.andb_assoc.
Qed.

(* a word, then the continuation "one more literal, then accept" - whatever is done to the groups in between *)
Lemma is_some_word c p d q u (f : mstate -> mstate) :
  (forall st, m_after (f st) = m_after st) ->
  is_some (mt (lit c p) (init_state u) (fun st' => mt (lit d q) (f st') (fun e => Some e)))
  = starts_with ((c :: p) ++ (d :: q)) u.
Proof.
  intros F. rewrite is_some_lit. cbn [m_after init_state]. rewrite is_some_lit, F. cbn [m_after eatp is_some].
  rewrite Bool.andb_true_r. rewrite starts_with_app_split. reflexivity.
Qed.

Lemma mt_cat a b st k : mt (RCat a b) st k = mt a st (fun st' => mt b st' k).
Proof. reflexivity. Qed.
Lemma mt_group g body st k :
  mt (RGroup g body) st k = mt body st (fun st' => k (mkM (m_before st') (m_after st') (m_pos st') (set_group g (m_pos st) (m_pos st') (m_groups st')))).
Proof. reflexivity. Qed.

Ltac words := repeat (rewrite is_some_alt); rewrite !is_some_word by reflexivity.

(* BAD_PROTO_RE *)
Theorem bad_proto_re u : test re_normalize_url_BAD_PROTO_RE u = bad_proto u.
Proof.
  change re_normalize_url_BAD_PROTO_RE with
    (RCat (RBol false) (RCat (RGroup 1%nat (RAlt (lit 118 [98; 115; 99; 114; 105; 112; 116]) (RAlt (lit 106 [97; 118; 97; 115; 99; 114; 105; 112; 116])
                                             (RAlt (lit 102 [105; 108; 101]) (lit 100 [97; 116; 97]))))) (lit 58 []))).
  rewrite test_bol. fold (@is_some mstate (match_at (RCat (RGroup 1%nat (RAlt (lit 118 [98; 115; 99; 114; 105; 112; 116]) (RAlt (lit 106 [97; 118; 97; 115; 99; 114; 105; 112; 116])
                                             (RAlt (lit 102 [105; 108; 101]) (lit 100 [97; 116; 97]))))) (lit 58 [])) (init_state u))).
  unfold match_at. rewrite mt_cat, mt_group. words. unfold bad_proto. rewrite !Bool.orb_assoc. reflexivity.
Qed.

(* GOOD_DATA_RE *)
Theorem good_data_re u : test re_normalize_url_GOOD_DATA_RE u = good_data u.
Proof.
  change re_normalize_url_GOOD_DATA_RE with
    (RCat (RBol false) (RCat (RIn false [CChar 100]) (RCat (RIn false [CChar 97]) (RCat (RIn false [CChar 116]) (RCat (RIn false [CChar 97]) (RCat (RIn false [CChar 58])
       (RCat (RIn false [CChar 105]) (RCat (RIn false [CChar 109]) (RCat (RIn false [CChar 97]) (RCat (RIn false [CChar 103]) (RCat (RIn false [CChar 101]) (RCat (RIn false [CChar 47])
       (RCat (RGroup 1%nat (RAlt (lit 103 [105; 102]) (RAlt (lit 112 [110; 103]) (RAlt (lit 106 [112; 101; 103]) (lit 119 [101; 98; 112]))))) (lit 59 [])))))))))))))).
  rewrite test_bol.
  (* the prefix data:image/ is a literal followed by the rest: reassociate the concatenation *)
  set (tail := RCat (RGroup 1%nat (RAlt (lit 103 [105; 102]) (RAlt (lit 112 [110; 103]) (RAlt (lit 106 [112; 101; 103]) (lit 119 [101; 98; 112]))))) (lit 59 [])).
  assert (PRE : forall st k, mt (RCat (RIn false [CChar 100]) (RCat (RIn false [CChar 97]) (RCat (RIn false [CChar 116]) (RCat (RIn false [CChar 97]) (RCat (RIn false [CChar 58])
       (RCat (RIn false [CChar 105]) (RCat (RIn false [CChar 109]) (RCat (RIn false [CChar 97]) (RCat (RIn false [CChar 103]) (RCat (RIn false [CChar 101]) (RCat (RIn false [CChar 47]) tail))))))))))) st k
       = mt (lit 100 [97; 116; 97; 58; 105; 109; 97; 103; 101; 47]) st (fun st' => mt tail st' k)) by reflexivity.
  unfold match_at. rewrite PRE. rewrite mt_lit. cbn [m_after init_state]. unfold good_data, p_img.
  destruct (starts_with [100; 97; 116; 97; 58; 105; 109; 97; 103; 101; 47] u) eqn:P.
  - destruct (starts_with_split _ _ P) as [rest ->].
    change (S (length [97; 116; 97; 58; 105; 109; 97; 103; 101; 47])) with (length [100; 97; 116; 97; 58; 105; 109; 97; 103; 101; 47]).
    rewrite skipn_app_len. rewrite !starts_with_pre.
    unfold tail. rewrite mt_cat, mt_group.
    match goal with |- (match ?m with _ => _ end) = _ => change (match m with Some _ => true | None => false end) with (is_some m) end.
    repeat (rewrite is_some_alt). rewrite !is_some_lit. cbn [m_after eatp].
    cbn [is_some]. rewrite !Bool.andb_true_r.
    change [103; 105; 102; 59] with ([103; 105; 102] ++ [59]). change [112; 110; 103; 59] with ([112; 110; 103] ++ [59]).
    change [106; 112; 101; 103; 59] with ([106; 112; 101; 103] ++ [59]). change [119; 101; 98; 112; 59] with ([119; 101; 98; 112] ++ [59]).
    rewrite !starts_with_app_split. cbn [length]. rewrite !Bool.orb_assoc. reflexivity.
  - assert (G : forall q, starts_with ([100; 97; 116; 97; 58; 105; 109; 97; 103; 101; 47] ++ q) u = false) by (intros q; rewrite starts_with_app_split, P; reflexivity).
    rewrite !G. reflexivity.
Qed.

(* the validator the rule models call is the direct definition *)
Theorem validate_link_re_eq url : validate_link_re url = validate_link url.
Proof. unfold validate_link_re, validate_link. rewrite bad_proto_re, good_data_re. reflexivity. Qed.
