(* The line tables built by StateBlock.__init__ (state_init): accumulator independence, shift,
   independence of the total length on LF-terminated input, concatenation (C07), and the
   well-formedness of every recorded row (C01 / C03). *)
From RecordUpdate Require Import RecordUpdate.
From MD Require Import Base.Py Base.Str Base.Opt Model.Token Model.Utils Model.StateBlock
     Lemmas.StrLemmas Lemmas.BlockLemmas.
From Coq Require Import ZifyBool.

Local Arguments Z.eqb : simpl never.
Local Arguments Z.ltb : simpl never.
Local Arguments Z.leb : simpl never.

(* ---- the finished rows do not influence the scan -------------------------------------- *)

Definition scan_cat (r : scan) (bM eM tS sC : list Z) : scan :=
  mkScan (sc_bM r ++ bM) (sc_eM r ++ eM) (sc_tS r ++ tS) (sc_sC r ++ sC)
         (sc_found r) (sc_start r) (sc_indent r) (sc_offset r).

Lemma scan_step_cat n r bM eM tS sC pos c :
  scan_step n (scan_cat r bM eM tS sC) pos c = scan_cat (scan_step n r pos c) bM eM tS sC.
Proof.
  unfold scan_step, scan_cat. cbn [sc_bM sc_eM sc_tS sc_sC sc_found sc_start sc_indent sc_offset].
  destruct (negb (sc_found r) && is_space c); [reflexivity|].
  destruct ((c =? 10) || (pos =? n - 1)); reflexivity.
Qed.

Lemma scan_loop_cat n : forall src r bM eM tS sC pos,
  scan_loop n (scan_cat r bM eM tS sC) pos src = scan_cat (scan_loop n r pos src) bM eM tS sC.
Proof.
  induction src as [|c src IH]; intros r bM eM tS sC pos; cbn [scan_loop]; [reflexivity|].
  rewrite scan_step_cat. apply IH.
Qed.

(* ---- moving the text to the right moves the offsets ------------------------------------ *)

Definition scan_shift (d : Z) (r : scan) : scan :=
  mkScan (map (Z.add d) (sc_bM r)) (map (Z.add d) (sc_eM r)) (sc_tS r) (sc_sC r)
         (sc_found r) (d + sc_start r) (sc_indent r) (sc_offset r).

Lemma scan_step_shift d n r pos c :
  scan_step (d + n) (scan_shift d r) (d + pos) c = scan_shift d (scan_step n r pos c).
Proof.
  unfold scan_step, scan_shift. cbn [sc_bM sc_eM sc_tS sc_sC sc_found sc_start sc_indent sc_offset].
  destruct (negb (sc_found r) && is_space c); [reflexivity|].
  assert (Eq : (d + pos =? d + n - 1) = (pos =? n - 1)) by (destruct (Z.eqb_spec (d + pos) (d + n - 1)), (Z.eqb_spec pos (n - 1)); lia || reflexivity).
  rewrite Eq.
  destruct ((c =? 10) || (pos =? n - 1)); [|reflexivity].
  cbn [sc_bM sc_eM sc_tS sc_sC sc_found sc_start sc_indent sc_offset map].
  destruct (c =? 10); f_equal; try lia; f_equal; lia.
Qed.

Lemma scan_loop_shift d n : forall src r pos,
  scan_loop (d + n) (scan_shift d r) (d + pos) src = scan_shift d (scan_loop n r pos src).
Proof.
  induction src as [|c src IH]; intros r pos; cbn [scan_loop]; [reflexivity|].
  rewrite scan_step_shift. replace (d + pos + 1) with (d + (pos + 1)) by lia. apply IH.
Qed.

(* ---- the total length matters only at the last position -------------------------------- *)

(* every character is a line feed or sits at a position that is the last one for neither length *)
Fixpoint len_free (n1 n2 : Z) (pos : Z) (src : str) : Prop :=
  match src with
  | [] => True
  | c :: rest => (c = 10 \/ (pos <> n1 - 1 /\ pos <> n2 - 1)) /\ len_free n1 n2 (pos + 1) rest
  end.

Lemma scan_loop_len_free n1 n2 : forall src r pos,
  len_free n1 n2 pos src -> scan_loop n1 r pos src = scan_loop n2 r pos src.
Proof.
  induction src as [|c src IH]; intros r pos H; cbn [scan_loop]; [reflexivity|].
  destruct H as [Hc Hr]. rewrite (IH _ _ Hr). f_equal.
  unfold scan_step. destruct (negb (sc_found r) && is_space c); [reflexivity|].
  destruct Hc as [-> | [H1 H2]].
  - change (10 =? 10) with true. reflexivity.
  - assert (E1 : (pos =? n1 - 1) = false) by (apply Z.eqb_neq; exact H1).
    assert (E2 : (pos =? n2 - 1) = false) by (apply Z.eqb_neq; exact H2). rewrite E1, E2. reflexivity.
Qed.

Lemma len_free_lf_terminated n1 n2 : forall a pos,
  pos + len a + 1 <= n1 -> pos + len a + 1 <= n2 -> len_free n1 n2 pos (a ++ [10]).
Proof.
  induction a as [|c a IH]; intros pos H1 H2; cbn [app len_free].
  - split; [left; reflexivity | exact I].
  - assert (Hl : len (c :: a) = 1 + len a) by (unfold len; cbn [length]; lia).
    assert (0 <= len a) by (unfold len; lia).
    split; [right; lia|]. apply IH; lia.
Qed.

(* ---- after a line feed the scanner is in its initial mode ------------------------------- *)

Definition fresh_at (r : scan) (p : Z) : Prop :=
  sc_found r = false /\ sc_start r = p /\ sc_indent r = 0 /\ sc_offset r = 0.

Lemma scan_loop_ends_fresh n a r pos :
  fresh_at (scan_loop n r pos (a ++ [10])) (pos + len a + 1).
Proof.
  rewrite scan_loop_app. cbn [scan_loop].
  destruct (scan_step_lf n (scan_loop n r pos a) (pos + len a)) as (H1 & H2 & H3 & H4 & _).
  unfold fresh_at. repeat split; assumption.
Qed.

Definition scan0 : scan := mkScan [] [] [] [] false 0 0 0.

Lemma scan_fresh_eq r p : fresh_at r p ->
  r = scan_cat (scan_shift p scan0) (sc_bM r) (sc_eM r) (sc_tS r) (sc_sC r).
Proof.
  intros (H1 & H2 & H3 & H4). destruct r as [bM eM tS sC f st ind off]. cbn in *. subst.
  unfold scan_cat, scan_shift, scan0. cbn. rewrite Z.add_0_r. reflexivity.
Qed.

(* ---- concatenation --------------------------------------------------------------------- *)

(* scanning  a LF b  inside a text of length  len a + 1 + len b : first the rows of  a LF  (as
   if scanned alone), then the rows of b moved right by  len a + 1  *)
Theorem scan_concat a b :
  let d := len a + 1 in
  let ra := scan_loop d scan0 0 (a ++ [10]) in
  let rb := scan_loop (len b) scan0 0 b in
  scan_loop (d + len b) scan0 0 ((a ++ [10]) ++ b)
  = scan_cat (scan_shift d rb) (sc_bM ra) (sc_eM ra) (sc_tS ra) (sc_sC ra).
Proof.
  intros d ra rb.
  assert (Hla : len (a ++ [10]) = d).
  { unfold d, len. rewrite app_length. cbn [length]. lia. }
  assert (Hb0 : 0 <= len b) by (unfold len; lia).
  assert (Ha0 : 0 <= len a) by (unfold len; lia).
  rewrite scan_loop_app. rewrite Hla. rewrite Z.add_0_l.
  rewrite (scan_loop_len_free (d + len b) d (a ++ [10]) scan0 0)
    by (apply len_free_lf_terminated; unfold d; lia).
  fold ra.
  assert (Hf : fresh_at ra d).
  { unfold ra. pose proof (scan_loop_ends_fresh d a scan0 0) as H. rewrite Z.add_0_l in H. exact H. }
  rewrite (scan_fresh_eq ra d Hf) at 1.
  rewrite scan_loop_cat.
  replace d with (d + 0) at 3 by lia.
  rewrite scan_loop_shift. reflexivity.
Qed.

(* the tables of  a LF LF b : those of  a LF , then those of b moved by len a + 2.  The sentinel
   row of the first part doubles as the row of the separating blank line. *)
Theorem tables_concat a b env toks env1 toks1 env2 toks2 :
  let A := a ++ [10] in
  let d := len A + 1 in
  let s := state_init (A ++ [10] ++ b) env toks in
  let sa := state_init A env1 toks1 in
  let sb := state_init b env2 toks2 in
  b_bMarks s = b_bMarks sa ++ map (Z.add d) (b_bMarks sb)
  /\ b_eMarks s = b_eMarks sa ++ map (Z.add d) (b_eMarks sb)
  /\ b_tShift s = b_tShift sa ++ b_tShift sb
  /\ b_sCount s = b_sCount sa ++ b_sCount sb
  /\ b_bsCount s = b_bsCount sa ++ b_bsCount sb
  /\ b_lineMax s = b_lineMax sa + 1 + b_lineMax sb.
Proof.
  intros A d s sa sb.
  assert (HA : len A = len a + 1) by (unfold A, len; rewrite app_length; cbn [length]; lia).
  assert (Hdoc : A ++ [10] ++ b = ((a ++ [10]) ++ [10]) ++ b) by (unfold A; rewrite <- !app_assoc; reflexivity).
  assert (Hlen : len (A ++ [10] ++ b) = d + len b).
  { unfold d, len. rewrite !app_length. cbn [length]. unfold len in HA. lia. }
  pose proof (scan_concat (a ++ [10]) b) as H. cbv zeta in H.
  fold A in H. replace (len A + 1) with d in H by reflexivity.
  (* the scan of A LF with length d is the scan of A with length len A plus one blank row *)
  assert (HAl : scan_loop d scan0 0 (A ++ [10])
                = (let ra := scan_loop (len A) scan0 0 A in
                   mkScan (len A :: sc_bM ra) (len A :: sc_eM ra) (0 :: sc_tS ra) (0 :: sc_sC ra) false (len A + 1) 0 0)).
  { rewrite scan_loop_app. rewrite Z.add_0_l.
    assert (LF : len_free d (len A) 0 A) by (apply (len_free_lf_terminated d (len A) a 0); unfold d; lia).
    rewrite (scan_loop_len_free d (len A) A scan0 0 LF).
    cbv zeta. set (ra := scan_loop (len A) scan0 0 A).
    assert (Hf : fresh_at ra (len A)).
    { unfold ra. pose proof (scan_loop_ends_fresh (len A) a scan0 0) as Hx.
      rewrite Z.add_0_l in Hx. rewrite <- HA in Hx. exact Hx. }
    destruct Hf as (F1 & F2 & F3 & F4).
    cbn [scan_loop]. unfold scan_step. rewrite F1. cbn [negb andb]. change (is_space 10) with false. cbv iota.
    change (10 =? 10) with true. cbn [orb]. cbv iota. rewrite F2, F3, F4. reflexivity. }
  rewrite HAl in H. cbv zeta in H.
  set (ra := scan_loop (len A) scan0 0 A) in *.
  set (rb := scan_loop (len b) scan0 0 b) in *.
  unfold s, sa, sb, state_init. rewrite Hlen. rewrite Hdoc. cbv zeta.
  fold scan0. fold A. rewrite H. fold ra rb.
  unfold scan_cat, scan_shift.
  cbn [sc_bM sc_eM sc_tS sc_sC sc_found sc_start sc_indent sc_offset
       b_bMarks b_eMarks b_tShift b_sCount b_bsCount b_lineMax].
  assert (R1 : forall x l (m : list Z), rev (x :: map (Z.add d) l ++ m) = rev m ++ map (Z.add d) (rev l) ++ [x]).
  { intros x l m. cbn [rev]. rewrite rev_app_distr, map_rev, app_assoc. reflexivity. }
  assert (R2 : forall (x : Z) l (m : list Z), rev (x :: l ++ m) = rev m ++ rev l ++ [x]).
  { intros x l m. cbn [rev]. rewrite rev_app_distr, app_assoc. reflexivity. }
  assert (Lm : forall l : list Z, len (map (Z.add d) l) = len l) by (intros l; unfold len; rewrite map_length; reflexivity).
  repeat split.
  - rewrite R1. cbn [rev]. rewrite map_app. cbn [map]. reflexivity.
  - rewrite R1. cbn [rev]. rewrite map_app. cbn [map]. reflexivity.
  - rewrite R2. cbn [rev]. reflexivity.
  - rewrite R2. cbn [rev]. reflexivity.
  - rewrite R1. cbn [rev]. rewrite !map_app, !map_map. cbn [map]. reflexivity.
  - unfold len. rewrite !rev_length. cbn [length]. rewrite !app_length, !map_length. cbn [length]. lia.
Qed.

(* ---- every recorded row is well formed -------------------------------------------------- *)

(* rows: start <= start + indent <= end <= n, 0 <= indent, 0 <= offset *)
Fixpoint rows_ok (n : Z) (bM eM tS sC : list Z) : Prop :=
  match bM, eM, tS, sC with
  | [], [], [], [] => True
  | b :: bM', e :: eM', t :: tS', s :: sC' =>
      0 <= b /\ 0 <= t /\ 0 <= s /\ b + t <= e /\ e <= n /\ rows_ok n bM' eM' tS' sC'
  | _, _, _, _ => False
  end.

Definition scan_inv (n : Z) (r : scan) (pos : Z) : Prop :=
  rows_ok n (sc_bM r) (sc_eM r) (sc_tS r) (sc_sC r)
  /\ 0 <= sc_start r /\ 0 <= sc_indent r /\ 0 <= sc_offset r
  /\ (pos < n -> sc_start r + sc_indent r <= pos /\ (sc_found r = false -> sc_start r + sc_indent r = pos)).

Lemma scan_step_inv n r pos c :
  scan_inv n r pos -> 0 <= pos < n -> scan_inv n (scan_step n r pos c) (pos + 1).
Proof.
  intros (Hr & H1 & H2 & H3 & H45) Hn. destruct (H45 ltac:(lia)) as [H4 H5]. unfold scan_step.
  destruct (negb (sc_found r) && is_space c) eqn:E.
  - assert (Hf : sc_found r = false) by (destruct (sc_found r); [discriminate|reflexivity]).
    specialize (H5 Hf). unfold scan_inv. cbn [sc_bM sc_eM sc_tS sc_sC sc_found sc_start sc_indent sc_offset].
    repeat split; try assumption; try lia.
    destruct (c =? 9); [|lia].
    assert (0 <= sc_offset r mod 4 < 4) by (apply Z.mod_pos_bound; lia). lia.
  - destruct ((c =? 10) || (pos =? n - 1)) eqn:E2.
    + unfold scan_inv. cbn [sc_bM sc_eM sc_tS sc_sC sc_found sc_start sc_indent sc_offset rows_ok].
      destruct (c =? 10) eqn:E3; repeat split; try assumption; try lia.
    + unfold scan_inv. cbn [sc_bM sc_eM sc_tS sc_sC sc_found sc_start sc_indent sc_offset].
      repeat split; try assumption; try lia; try discriminate.
Qed.

Lemma scan_loop_inv n : forall src r pos,
  scan_inv n r pos -> 0 <= pos -> pos + len src <= n -> scan_inv n (scan_loop n r pos src) (pos + len src).
Proof.
  induction src as [|c src IH]; intros r pos H H0 Hn; cbn [scan_loop].
  - unfold len. cbn. rewrite Z.add_0_r. exact H.
  - assert (Hl : len (c :: src) = 1 + len src) by (unfold len; cbn [length]; lia).
    assert (0 <= len src) by (unfold len; lia).
    rewrite Hl. replace (pos + (1 + len src)) with (pos + 1 + len src) by lia.
    apply IH; [apply scan_step_inv; [exact H | lia] | lia | lia].
Qed.

Lemma rows_ok_lengths n : forall bM eM tS sC, rows_ok n bM eM tS sC ->
  length eM = length bM /\ length tS = length bM /\ length sC = length bM.
Proof.
  induction bM as [|b bM IH]; intros [|e eM] [|t tS] [|s sC] H; cbn in H; try contradiction.
  - repeat split.
  - destruct H as (_ & _ & _ & _ & _ & H). destruct (IH _ _ _ H) as (A & B & C). cbn [length]. lia.
Qed.

(* the tables of a fresh StateBlock: five lists of the same length lineMax + 1, and every
   read of a line in [0, lineMax] succeeds *)
Theorem state_init_tables src env toks :
  let s := state_init src env toks in
  len (b_bMarks s) = b_lineMax s + 1 /\ len (b_eMarks s) = b_lineMax s + 1 /\ len (b_tShift s) = b_lineMax s + 1
  /\ len (b_sCount s) = b_lineMax s + 1 /\ len (b_bsCount s) = b_lineMax s + 1 /\ 0 <= b_lineMax s
  /\ rows_ok (len src) (rev (b_bMarks s)) (rev (b_eMarks s)) (rev (b_tShift s)) (rev (b_sCount s)).
Proof.
  cbv zeta. unfold state_init. cbv zeta.
  set (r := scan_loop (len src) (mkScan [] [] [] [] false 0 0 0) 0 src).
  assert (Hinv : scan_inv (len src) r (0 + len src)).
  { unfold r. apply scan_loop_inv; [|lia|lia]. unfold scan_inv. cbn. repeat split; try lia. }
  destruct Hinv as (Hr & H1 & H2 & H3 & _).
  destruct (rows_ok_lengths _ _ _ _ _ Hr) as (L1 & L2 & L3).
  assert (0 <= len src) by (unfold len; lia).
  cbn [b_bMarks b_eMarks b_tShift b_sCount b_bsCount b_lineMax].
  unfold len. rewrite !map_length, !rev_length. cbn [length]. rewrite L1, L2, L3.
  repeat split; try lia.
  rewrite !rev_involutive. cbn [rows_ok]. repeat split; try lia. exact Hr.
Qed.

Corollary state_init_reads_ok src env toks line :
  let s := state_init src env toks in
  0 <= line <= b_lineMax s ->
  exists b e t c bs, tb (b_bMarks s) line = Ok b /\ tb (b_eMarks s) line = Ok e /\ tb (b_tShift s) line = Ok t
                     /\ tb (b_sCount s) line = Ok c /\ tb (b_bsCount s) line = Ok bs.
Proof.
  cbv zeta. intros H.
  destruct (state_init_tables src env toks) as (A & B & C & D & E & _).
  cbv zeta in *.
  assert (G : forall l, len l = b_lineMax (state_init src env toks) + 1 -> exists v, tb l line = Ok v).
  { intros l Hl. unfold tb, len in *. cbv zeta. assert (E0 : (line <? 0) = false) by lia. rewrite !E0.
    destruct (nth_error l (Z.to_nat line)) eqn:N; [eexists; reflexivity|]. apply nth_error_None in N. lia. }
  destruct (G _ A) as [b Hb]. destruct (G _ B) as [e He]. destruct (G _ C) as [t Ht].
  destruct (G _ D) as [c Hc]. destruct (G _ E) as [bs Hbs].
  exists b, e, t, c, bs. repeat split; assumption.
Qed.
