(* C08: what getLines returns is, line for line, a suffix of the source line - only blanks (or
   characters of the container prefix, i.e. within tShift) are removed from the front, and a
   partially consumed tab is replaced by at most three spaces.  For EVERY state (any table
   contents, any nesting), every line range and every non-negative indent.  The code, fence and
   html_block rules set their token's content to exactly such a getLines result over the lines
   of the token's map; the fence's markup and info string are slices of its opening line. *)
From RecordUpdate Require Import RecordUpdate.
From MD Require Import Base.Py Base.Str Base.Regex Base.Opt Model.Token Model.Utils Model.StateBlock Model.Helpers
     Model.Url Model.Render Model.Block Lemmas.StrLemmas Lemmas.BlockLemmas Lemmas.BlockWF Lemmas.MapLemmas.
From Coq Require Import ZifyBool.

Local Arguments Z.eqb : simpl never.
Local Arguments Z.ltb : simpl never.
Local Arguments Z.leb : simpl never.
Local Arguments str_eqb : simpl never.

(* position p of the source may be dropped from the front of a line that starts at b and whose
   container prefix is ts characters long *)
Definition removable (src : str) (b ts p : Z) : Prop :=
  exists c, py_idx src p = Ok c /\ (is_space c = true \/ p - b < ts).

Lemma gl_scan_spec : forall fuel src first last b li indent ts bs f' li',
  gl_scan fuel src first last b li indent ts bs = Ok (f', li') ->
  li <= indent ->
  first <= f' /\ (f' <= last \/ f' = first)
  /\ (forall p, first <= p < f' -> removable src b ts p)
  /\ (li' <= indent \/ (0 < li' - indent <= 3 /\ first < f' /\ py_idx src (f' - 1) = Ok 9)).
Proof.
  induction fuel as [|f IH]; intros src first last b li indent ts bs f' li' H L; cbn [gl_scan] in H.
  - rfinish H. repeat split; try lia.
  - destruct ((first <? last) && (li <? indent)) eqn:E; [|rfinish H; repeat split; lia].
    assert (E1 : first < last) by lia. assert (E2 : li < indent) by lia.
    destruct (py_idx src first) as [ch|?|] eqn:Ec; cbn [bind] in H; try discriminate H.
    destruct (is_space ch) eqn:Es.
    + destruct (ch =? 9) eqn:E9.
      * assert (ch = 9) by lia. subst ch.
        assert (M : 0 <= (li + bs) mod 4 < 4) by (apply Z.mod_pos_bound; lia).
        remember (4 - (li + bs) mod 4) as w eqn:Ew. assert (Mw : 1 <= w <= 4) by lia. clear Ew M.
        destruct (li + w <=? indent) eqn:E3.
        -- apply IH in H; [|lia]. destruct H as (A & B & C & D). repeat split; try lia.
           ++ intros p Hp. destruct (Z.eq_dec p first) as [->|N]; [exists 9; split; [exact Ec | left; exact Es]|].
              apply C. lia.
           ++ destruct D as [D|(D1 & D2 & D3)]; [left; exact D | right; repeat split; try lia; exact D3].
        -- (* overshoot: the loop stops at once *)
           destruct f as [|f2]; cbn [gl_scan] in H.
           ++ rfinish H. repeat split; try lia.
              ** intros p Hp. assert (p = first) by lia. subst p. exists 9. split; [exact Ec | left; exact Es].
              ** right. repeat split; try lia. replace (first + 1 - 1) with first by lia. exact Ec.
           ++ replace ((first + 1 <? last) && (li + w <? indent)) with false in H by lia.
              rfinish H. repeat split; try lia.
              ** intros p Hp. assert (p = first) by lia. subst p. exists 9. split; [exact Ec | left; exact Es].
              ** right. repeat split; try lia. replace (first + 1 - 1) with first by lia. exact Ec.
      * apply IH in H; [|lia]. destruct H as (A & B & C & D). repeat split; try lia.
        -- intros p Hp. destruct (Z.eq_dec p first) as [->|N]; [exists ch; split; [exact Ec | left; exact Es]|].
           apply C. lia.
        -- destruct D as [D|(D1 & D2 & D3)]; [left; exact D | right; repeat split; try lia; exact D3].
    + destruct (first - b <? ts) eqn:Et.
      * apply IH in H; [|lia]. destruct H as (A & B & C & D). repeat split; try lia.
        -- intros p Hp. destruct (Z.eq_dec p first) as [->|N]; [exists ch; split; [exact Ec | right; lia]|].
           apply C. lia.
        -- destruct D as [D|(D1 & D2 & D3)]; [left; exact D | right; repeat split; try lia; exact D3].
      * rfinish H. repeat split; lia.
Qed.

(* one line of getLines output *)
Definition line_piece (st : bstate) (line last : Z) (piece : str) : Prop :=
  exists b ts first k,
    tb (b_bMarks st) line = Ok b /\ tb (b_tShift st) line = Ok ts
    /\ b <= first /\ (first <= last \/ first = b) /\ 0 <= k <= 3
    /\ piece = rep 32 k ++ slice (b_src st) first last
    /\ (forall p, b <= p < first -> removable (b_src st) b ts p)
    /\ (0 < k -> b < first /\ py_idx (b_src st) (first - 1) = Ok 9).

(* the pieces for lines [line, endl): every line but the last keeps its line feed; the last one
   keeps it when keepLastLF *)
Inductive pieces (st : bstate) (endl : Z) (keep : bool) : Z -> str -> Prop :=
| pieces_nil line : endl <= line -> pieces st endl keep line []
| pieces_cons line e piece rest :
    line < endl -> tb (b_eMarks st) line = Ok e ->
    line_piece st line (if (line + 1 <? endl) || keep then e + 1 else e) piece ->
    pieces st endl keep (line + 1) rest ->
    pieces st endl keep line (piece ++ rest).

Lemma rep_nonpos (c : Z) n : n <= 0 -> rep c n = [].
Proof. intros H. unfold rep. replace (Z.to_nat n) with 0%nat by lia. reflexivity. Qed.

Lemma get_lines_loop_spec : forall fuel st line endl indent keep content,
  get_lines_loop fuel st line endl indent keep = Ok content -> 0 <= indent ->
  (Z.to_nat (endl - line) < fuel)%nat ->
  pieces st endl keep line content.
Proof.
  induction fuel as [|f IH]; intros st line endl indent keep content H Hi Hf; [lia|].
  cbn [get_lines_loop] in H.
  destruct (negb (line <? endl)) eqn:E; [rfinish H; apply pieces_nil; lia|].
  destruct (tb (b_bMarks st) line) as [b|?|] eqn:Eb; cbn [bind] in H; try discriminate H.
  destruct (tb (b_eMarks st) line) as [e|?|] eqn:Ee; cbn [bind] in H; try discriminate H.
  destruct (tb (b_tShift st) line) as [ts|?|] eqn:Et; cbn [bind] in H; try discriminate H.
  destruct (tb (b_bsCount st) line) as [bs|?|] eqn:Ebs; cbn [bind] in H; try discriminate H.
  match type of H with bind ?m _ = _ => destruct m as [[first li]|?|] eqn:GS end; cbn [bind] in H; try discriminate H.
  match type of H with bind ?m _ = _ => destruct m as [rest|?|] eqn:GR end; cbn [bind] in H; try discriminate H.
  rfinish H.
  apply gl_scan_spec in GS; [|lia]. destruct GS as (A & B & C & D).
  apply IH in GR; [|exact Hi|lia].
  eapply pieces_cons; [lia | exact Ee | | exact GR].
  exists b, ts, first, (if indent <? li then li - indent else 0).
  repeat split; try assumption; try lia.
  - destruct (indent <? li) eqn:X; lia.
  - destruct (indent <? li) eqn:X; lia.
  - destruct (indent <? li) eqn:X; [reflexivity|]. rewrite rep_nonpos by lia. reflexivity.
  - destruct (indent <? li) eqn:X; lia.
  - destruct (indent <? li) eqn:X; [|lia]. destruct D as [D|(D1 & D2 & D3)]; [lia | exact D3].
Qed.

Theorem get_lines_verbatim st a b indent keep content :
  get_lines st a b indent keep = Ok content -> 0 <= indent -> pieces st b keep a content.
Proof.
  unfold get_lines. intros H Hi.
  destruct (b <=? a) eqn:E; [rfinish H; apply pieces_nil; lia|].
  apply get_lines_loop_spec in H; [exact H | exact Hi | lia].
Qed.

(* with indent 0 nothing at all is removed: the piece is the line from its (logical) start *)
Lemma gl_scan_zero fuel src first last b li ts bs : 0 <= li ->
  gl_scan fuel src first last b li 0 ts bs = Ok (first, li).
Proof. intros H. destruct fuel; cbn [gl_scan]; [reflexivity|]. replace ((first <? last) && (li <? 0)) with false by lia. reflexivity. Qed.

(* getLines does not read the line cursor *)
Lemma get_lines_loop_line : forall f st l line endl indent keep,
  get_lines_loop f (st_line st l) line endl indent keep = get_lines_loop f st line endl indent keep.
Proof.
  induction f as [|f IH]; intros st l line endl indent keep; cbn [get_lines_loop]; [reflexivity|].
  destruct (negb (line <? endl)); [reflexivity|].
  change (b_bMarks (st_line st l)) with (b_bMarks st). change (b_eMarks (st_line st l)) with (b_eMarks st).
  change (b_tShift (st_line st l)) with (b_tShift st). change (b_bsCount (st_line st l)) with (b_bsCount st).
  change (b_src (st_line st l)) with (b_src st).
  destruct (tb (b_bMarks st) line); cbn [bind]; try reflexivity.
  destruct (tb (b_eMarks st) line); cbn [bind]; try reflexivity.
  destruct (tb (b_tShift st) line); cbn [bind]; try reflexivity.
  destruct (tb (b_bsCount st) line); cbn [bind]; try reflexivity.
  match goal with |- bind ?m _ = _ => destruct m as [[g1 g2]|?|] end; cbn [bind]; try reflexivity.
  rewrite IH. reflexivity.
Qed.
Lemma get_lines_line st l a b indent keep : get_lines (st_line st l) a b indent keep = get_lines st a b indent keep.
Proof. unfold get_lines. destruct (b <=? a); [reflexivity|]. apply get_lines_loop_line. Qed.

(* ---- the three verbatim rules: the content is getLines over the lines of the map ---- *)
Section Rules.
Context (cfg : bcfg).

Definition last_tok (st st' : bstate) (t : token) : Prop := b_tokens st' = b_tokens st ++ [t].

Theorem r_code_content st sl el st' :
  r_code cfg st sl el false = Ok (true, st') ->
  exists t content, last_tok st st' t /\ tmap t = Some (sl, b_line st')
    /\ tcontent t = content ++ [10]
    /\ get_lines st sl (b_line st') (4 + b_blkIndent st) false = Ok content.
Proof.
  unfold r_code. intros H.
  rstep H. rstep H; [discriminate H|].
  rstep H.
  match type of H with bind ?m _ = _ => destruct m as [content|?|] eqn:GL end; cbn [bind] in H; try discriminate H.
  rewrite get_lines_line in GL. rfinish H. eexists. exists content. unfold last_tok.
  split; [rewrite bpush_tokens; reflexivity|]. split; [reflexivity|]. split; [reflexivity|]. exact GL.
Qed.

Theorem r_fence_content st sl el st' :
  r_fence cfg st sl el false = Ok (true, st') ->
  exists t nl ind pos e marker, last_tok st st' t /\ tmap t = Some (sl, b_line st')
    /\ (b_line st' = nl \/ b_line st' = nl + 1)
    /\ tb (b_sCount st) sl = Ok ind
    /\ get_lines st (sl + 1) nl ind true = Ok (tcontent t)
    /\ line_start st sl = Ok pos /\ tb (b_eMarks st) sl = Ok e
    /\ (marker = 126 \/ marker = 96)
    /\ let p2 := skip_chars (b_src st) pos marker in
       pos + 3 <= p2 /\ tmarkup t = slice (b_src st) pos p2 /\ tinfo t = slice (b_src st) p2 e.
Proof.
  unfold r_fence. intros H.
  destruct (line_start st sl) as [pos|?|] eqn:LS; cbn [bind] in H; try discriminate H.
  destruct (tb (b_eMarks st) sl) as [e|?|] eqn:Ee; cbn [bind] in H; try discriminate H.
  rstep H. rstep H; [discriminate H|]. rstep H; [discriminate H|].
  destruct (py_idx (b_src st) pos) as [marker|?|] eqn:Em; cbn [bind] in H; try discriminate H.
  destruct (negb ((marker =? 126) || (marker =? 96))) eqn:Mk; [discriminate H|].
  destruct (skip_chars (b_src st) pos marker - pos <? 3) eqn:E3; [discriminate H|].
  rstep H; [discriminate H|].
  match type of H with bind ?m _ = _ => destruct m as [[nl have]|?|] eqn:FS end; cbn [bind] in H; try discriminate H.
  destruct (tb (b_sCount st) sl) as [ind|?|] eqn:Ei; cbn [bind] in H; try discriminate H.
  match type of H with bind ?m _ = _ => destruct m as [content|?|] eqn:GL end; cbn [bind] in H; try discriminate H.
  rewrite get_lines_line in GL. rfinish H.
  eexists. exists nl, ind, pos, e, marker.
  unfold last_tok.
  split; [rewrite bpush_tokens; reflexivity|]. split; [reflexivity|].
  split; [cbn; destruct have; lia|]. split; [reflexivity|]. split; [exact GL|].
  split; [reflexivity|]. split; [reflexivity|]. split; [lia|]. cbv zeta.
  split; [lia|]. split; reflexivity.
Qed.

Theorem r_html_block_content st sl el st' :
  r_html_block cfg st sl el false = Ok (true, st') ->
  exists t, last_tok st st' t /\ tmap t = Some (sl, b_line st')
    /\ get_lines st sl (b_line st') (b_blkIndent st) true = Ok (tcontent t).
Proof.
  unfold r_html_block. intros H.
  do 3 rstep H. rstep H; [discriminate H|]. rstep H; [discriminate H|]. rstep H; [discriminate H|].
  rstep H. rstep H; [discriminate H|].
  rstep H; [|discriminate H]. destruct p as [[opener closer] can].
  match type of H with bind ?m _ = _ => destruct m as [nl|?|] eqn:NL end; cbn [bind] in H; try discriminate H.
  match type of H with bind ?m _ = _ => destruct m as [content|?|] eqn:GL end; cbn [bind] in H; try discriminate H.
  rewrite get_lines_line in GL. rfinish H. eexists. unfold last_tok.
  split; [rewrite bpush_tokens; reflexivity|]. split; [reflexivity|]. exact GL.
Qed.

End Rules.

(* the marker run: every character of src[pos : skipChars(pos, m)] is m *)
Lemma skip_while_all : forall fuel p src pos, 0 <= pos ->
  pos <= skip_while fuel p src pos /\ (skip_while fuel p src pos <= len src \/ skip_while fuel p src pos = pos)
  /\ Forall (fun c => p c = true) (slice src pos (skip_while fuel p src pos)).
Proof.
  induction fuel as [|f IH]; intros p src pos Hp; cbn [skip_while].
  - split; [lia|]. split; [right; reflexivity|]. rewrite slice_empty by lia. constructor.
  - destruct (char_at src pos) as [c|] eqn:Ec; [|split; [lia|]; split; [right; reflexivity|]; rewrite slice_empty by lia; constructor].
    destruct ((0 <=? pos) && p c) eqn:E; [|split; [lia|]; split; [right; reflexivity|]; rewrite slice_empty by lia; constructor].
    destruct (IH p src (pos + 1) ltac:(lia)) as (A & B & C).
    assert (Ei : py_idx src pos = Ok c).
    { unfold char_at in Ec. unfold py_idx. cbv zeta in *. rewrite Ec. reflexivity. }
    destruct (py_idx_get src pos c Hp Ei) as [_ L].
    split; [lia|]. split; [left; lia|].
    destruct (Z.eq_dec (skip_while f p src (pos + 1)) (pos + 1)) as [Eq|Ne].
    + rewrite Eq. rewrite (slice_cons src pos (pos + 1) c) by (try lia; exact Ei).
      rewrite slice_empty by lia. constructor; [lia | constructor].
    + rewrite (slice_cons src pos _ c) by (try lia; exact Ei). constructor; [lia | exact C].
Qed.

Theorem skip_chars_run src pos m : 0 <= pos ->
  Forall (fun c => c = m) (slice src pos (skip_chars src pos m)).
Proof.
  intros Hp. unfold skip_chars. destruct (skip_while_all (S (length src)) (Z.eqb m) src pos Hp) as (_ & _ & F).
  eapply Forall_impl; [|exact F]. cbv beta. intros c Hc. lia.
Qed.

(* ---- code spans ------------------------------------------------------------------------- *)
From MD Require Import Model.Inline Lemmas.StrLemmas2 Lemmas.QuoteLemmas.

Lemma run_len_spec : forall fuel src pos maximum m r,
  run_len fuel src pos maximum m = Ok r -> 0 <= pos ->
  pos <= r /\ (r <= maximum \/ r = pos) /\ (forall q, pos <= q < r -> py_idx src q = Ok m).
Proof.
  induction fuel as [|f IH]; intros src pos maximum m r H Hp; cbn [run_len] in H.
  - rfinish H. repeat split; intros; lia.
  - destruct (pos <? maximum) eqn:E; [|rfinish H; repeat split; intros; lia].
    destruct (py_idx src pos) as [c|?|] eqn:Ec; cbn [bind] in H; try discriminate H.
    destruct (c =? m) eqn:Em; [|rfinish H; repeat split; intros; lia].
    apply IH in H; [|lia]. destruct H as (A & B & C). repeat split; try lia.
    intros q Hq. destruct (Z.eq_dec q pos) as [->|N]; [rewrite Ec; f_equal; lia | apply C; lia].
Qed.

Lemma find_aux_spec c : forall s i r, find_from_aux [c] s i = r -> r <> -1 -> 0 <= i ->
  i <= r /\ nth_error s (Z.to_nat (r - i)) = Some c.
Proof.
  induction s as [|x s IH]; intros i r H Hr Hi; cbn [find_from_aux] in H; [lia|].
  cbn [starts_with] in H. destruct (c =? x) eqn:E; cbn [andb] in H.
  - subst r. replace (i - i) with 0 by lia. cbn. split; [lia | f_equal; lia].
  - destruct (IH (i + 1) r H Hr ltac:(lia)) as [A B]. split; [lia|].
    replace (Z.to_nat (r - i)) with (S (Z.to_nat (r - (i + 1)))) by lia. exact B.
Qed.

Lemma nth_error_skipn' {A} : forall (k n : nat) (l : list A), nth_error (skipn k l) n = nth_error l (k + n).
Proof. induction k as [|k IH]; intros n l; [reflexivity|]. destruct l as [|x l]; [destruct n; reflexivity|]. cbn [skipn Nat.add nth_error]. apply IH. Qed.

Lemma find_from_spec c s start r : find_from [c] s start = r -> r <> -1 -> 0 <= start ->
  Z.min start (len s) <= r /\ py_idx s r = Ok c.
Proof.
  unfold find_from. intros H Hr Hs. cbv zeta in H.
  assert (Ec : clamp (len s) start = Z.min start (len s)).
  { unfold clamp. assert (X : (start <? 0) = false) by lia. rewrite X. reflexivity. }
  rewrite Ec in H. pose proof (len_nonneg s) as Ln.
  destruct (find_aux_spec c _ _ _ H Hr ltac:(lia)) as [A B]. split; [exact A|].
  rewrite nth_error_skipn' in B.
  apply py_idx_nth; [lia|]. replace (Z.to_nat r) with (Z.to_nat (Z.min start (len s)) + Z.to_nat (r - Z.min start (len s)))%nat by lia.
  exact B.
Qed.

Lemma bt_scan_spec : forall fuel st matchEnd maximum ol bts ms me bts',
  bt_scan fuel st matchEnd maximum ol bts = Ok (Some (ms, me), bts') -> 0 <= matchEnd -> matchEnd <= len (i_src st) ->
  matchEnd <= ms /\ py_idx (i_src st) ms = Ok 96 /\ ms + 1 <= me /\ me - ms = ol
  /\ (forall q, ms <= q < me -> py_idx (i_src st) q = Ok 96).
Proof.
  induction fuel as [|f IH]; intros st matchEnd maximum ol bts ms me bts' H H0 Hl; cbn [bt_scan] in H; [discriminate H|].
  cbv zeta in H.
  destruct (find_from [96] (i_src st) matchEnd =? -1) eqn:E; [discriminate H|].
  destruct (find_from_spec 96 (i_src st) matchEnd _ eq_refl ltac:(lia) H0) as [A B].
  set (m0 := find_from [96] (i_src st) matchEnd) in *. pose proof (len_nonneg (i_src st)) as Ln.
  destruct (run_len (S (length (i_src st))) (i_src st) (m0 + 1) maximum 96) as [me0|?|] eqn:RL; cbn [bind] in H; try discriminate H.
  destruct (run_len_spec _ _ _ _ _ _ RL ltac:(lia)) as (R1 & R2 & R3).
  destruct (me0 - m0 =? ol) eqn:Eo.
  - injection H as <- <- <-. repeat split; try lia; try exact B.
    intros q Hq. destruct (Z.eq_dec q m0) as [->|N]; [exact B | apply R3; lia].
  - assert (me0 <= len (i_src st)).
    { destruct (Z.eq_dec me0 (m0 + 1)) as [->|N].
      - destruct (py_idx_get (i_src st) m0 96 ltac:(lia) B) as [_ L]. lia.
      - destruct (py_idx_get _ (me0 - 1) 96 ltac:(lia) (R3 (me0 - 1) ltac:(lia))) as [_ L]. lia. }
    apply IH in H; [|lia|lia]. destruct H as (P1 & P2 & P3 & P4 & P5). repeat split; try lia; assumption.
Qed.

Lemma len_slice {A} (s : list A) a b : 0 <= a -> a <= b -> b <= len s -> len (slice s a b) = b - a.
Proof.
  intros Ha Hb Hl. rewrite slice_nonneg by lia. rewrite !Z.min_l by lia.
  destruct (b <=? a) eqn:E; [assert (a = b) by lia; subst; cbn; lia|].
  unfold len. rewrite firstn_length, skipn_length. unfold len in Hl. lia.
Qed.

Lemma ipush0_last st ty tag f st' : ipush st ty tag 0 f = Ok st' ->
  exists pre lvl, i_tokens st' = pre ++ [f (set_level (new_token ty tag 0) lvl)].
Proof.
  unfold ipush. change (0 <? 0) with false. cbv iota. cbn [bind]. intros H. rfinish H.
  eexists. eexists. reflexivity.
Qed.

(* the code-span padding rule *)
Definition code_span_text (raw0 : str) : str :=
  let raw := replace_char 10 [32] raw0 in
  if starts_with [32] raw && ends_with [32] raw && negb (len (strip_by (Z.eqb 32) raw) =? 0)
  then slice raw 1 (len raw - 1) else raw.

(* whenever the backtick rule pushes a token: the markup is the opening backtick string
   src[pos0:pos] (all backticks), the closing string src[ms:me] is all backticks, of the same
   length, at or after pos; the content is the text between the two, line feeds as spaces, one
   padding space stripped from each side under the CommonMark condition; the cursor ends at me *)
Theorem r_backticks_content st st' :
  r_backticks st false = Ok (true, st') -> 0 <= i_pos st -> i_pos st < len (i_src st) ->
  (i_tokens st' = i_tokens st)
  \/ exists pre t pos ms me,
       i_tokens st' = pre ++ [t] /\ ttype t = s_code_inline
       /\ i_pos st < pos /\ pos <= ms /\ ms < me /\ i_pos st' = me
       /\ me - ms = pos - i_pos st
       /\ (forall q, i_pos st <= q < pos -> py_idx (i_src st) q = Ok 96)
       /\ (forall q, ms <= q < me -> py_idx (i_src st) q = Ok 96)
       /\ tmarkup t = slice (i_src st) (i_pos st) pos
       /\ tcontent t = code_span_text (slice (i_src st) pos ms).
Proof.
  unfold r_backticks. intros H Hp Hl. cbv zeta in H.
  destruct (py_idx (i_src st) (i_pos st)) as [c|?|] eqn:Ec; cbn [bind] in H; try discriminate H.
  destruct (negb (c =? 96)) eqn:E96; [discriminate H|]. assert (c = 96) by lia. subst c.
  destruct (run_len (S (length (i_src st))) (i_src st) (i_pos st + 1) (i_posMax st) 96) as [pos|?|] eqn:RL; cbn [bind] in H; try discriminate H.
  destruct (run_len_spec _ _ _ _ _ _ RL ltac:(lia)) as (R1 & R2 & R3).
  match type of H with (if ?c then _ else _) = _ => destruct c end; [rfinish H; left; reflexivity|].
  match type of H with bind ?m _ = _ => destruct m as [[found bts]|?|] eqn:BS end; cbn [bind] in H; try discriminate H.
  destruct found as [[ms me]|]; [|rfinish H; left; reflexivity].
  assert (Hpos : pos <= len (i_src st)).
  { destruct (Z.eq_dec pos (i_pos st + 1)) as [->|N]; [lia|].
    destruct (py_idx_get _ (pos - 1) 96 ltac:(lia) (R3 (pos - 1) ltac:(lia))) as [_ L]. lia. }
  apply bt_scan_spec in BS; [|lia|exact Hpos]. destruct BS as (B1 & B2 & B3 & B4 & B5).
  match type of H with bind ?m _ = _ => destruct m as [s1|?|] eqn:IP end; cbn [bind] in H; try discriminate H.
  rfinish H. apply ipush0_last in IP. destruct IP as (pre & lvl & IP).
  right. exists pre. eexists. exists pos, ms, me.
  split; [exact IP|]. split; [reflexivity|]. split; [lia|]. split; [lia|]. split; [lia|]. split; [reflexivity|].
  split.
  { rewrite B4. rewrite len_slice by lia. reflexivity. }
  split.
  { intros q Hq. destruct (Z.eq_dec q (i_pos st)) as [->|N]; [exact Ec | apply R3; lia]. }
  split; [exact B5|]. split; reflexivity.
Qed.

(* ---- ATX heading markup: as many '#' as the source has ----------------------------------- *)
Lemma heading_level_spec : forall fuel src pos maximum level p l,
  heading_level fuel src pos maximum level = (p, l) -> 0 <= pos ->
  p - pos = l - level /\ pos <= p /\ (forall q, pos <= q < p -> char_at src q = Some 35).
Proof.
  induction fuel as [|f IH]; intros src pos maximum level p l H Hp; cbn [heading_level] in H;
    [injection H as <- <-; repeat split; intros; lia|].
  destruct (char_at src pos) as [c|] eqn:Ec; [|injection H as <- <-; repeat split; intros; lia].
  destruct (Z.eqb_spec c 35) as [->|N].
  - destruct ((pos <? maximum) && (level <=? 6)); [|injection H as <- <-; repeat split; intros; lia].
    apply IH in H; [|lia]. destruct H as (A & B & C). repeat split; try lia.
    intros q Hq. destruct (Z.eq_dec q pos) as [->|Nq]; [exact Ec | apply C; lia].
  - assert (E : (match c with 35 => if (pos <? maximum) && (level <=? 6) then heading_level f src (pos + 1) maximum (level + 1) else (pos, level) | _ => (pos, level) end) = (pos, level)).
    { destruct c as [|q|q]; try reflexivity. do 6 (try destruct q as [q|q|]); try reflexivity. contradiction N; reflexivity. }
    rewrite E in H. injection H as <- <-. repeat split; intros; lia.
Qed.

Section Heading.
Context (cfg : bcfg).

(* heading_open / heading_close carry markup '#' * level where the line has exactly that run of
   '#' at its start (level <= 6 and the run is followed by a blank or the end of the line);
   the inline content is a stripped slice of the rest of the line *)
Theorem r_heading_markup st sl el st' pos :
  r_heading cfg st sl el false = Ok (true, st') -> line_start st sl = Ok pos -> 0 <= pos ->
  exists o i c e level m2,
    b_tokens st' = b_tokens st ++ [o; i; c]
    /\ tb (b_eMarks st) sl = Ok e
    /\ 1 <= level <= 6 /\ tmarkup o = rep 35 level /\ tmarkup c = rep 35 level
    /\ (forall q, pos <= q < pos + level -> char_at (b_src st) q = Some 35)
    /\ (pos + level < e -> is_space_at (b_src st) (pos + level) = true)
    /\ tmap o = Some (sl, sl + 1) /\ tmap i = Some (sl, sl + 1)
    /\ tcontent i = strip_by is_space (slice (b_src st) (pos + level) m2).
Proof.
  unfold r_heading. intros H LS Hp. rewrite LS in H. cbn [bind] in H.
  destruct (tb (b_eMarks st) sl) as [e|?|] eqn:Ee; cbn [bind] in H; try discriminate H.
  rstep H. rstep H; [discriminate H|]. rstep H; [discriminate H|].
  destruct (py_idx (b_src st) pos) as [ch|?|] eqn:Ec; cbn [bind] in H; try discriminate H.
  destruct (negb (ch =? 35)) eqn:E35; [discriminate H|]. assert (ch = 35) by lia. subst ch.
  destruct (heading_level 8 (b_src st) (pos + 1) e 1) as [p level] eqn:HL.
  destruct ((6 <? level) || ((p <? e) && negb (is_space_at (b_src st) p))) eqn:EG; [discriminate H|].
  apply heading_level_spec in HL; [|lia]. destruct HL as (A & B & C).
  assert (P : p = pos + level) by lia. subst p.
  do 3 rstep H. rfinish H.
  do 3 eexists. exists e, level. eexists.
  split; [rewrite !bpush_tokens, <- !app_assoc; cbn [app]; reflexivity|].
  split; [reflexivity|]. split; [lia|]. split; [reflexivity|]. split; [reflexivity|].
  split.
  { intros q Hq. destruct (Z.eq_dec q pos) as [->|N].
    - unfold char_at. unfold py_idx in Ec. cbv zeta in *.
      destruct (get (b_src st) (if pos <? 0 then pos + len (b_src st) else pos)); [congruence | discriminate Ec].
    - apply C. lia. }
  split.
  { intros Hlt. destruct (is_space_at (b_src st) (pos + level)); [reflexivity|]. lia. }
  split; [reflexivity|]. split; reflexivity.
Qed.
End Heading.
