(* C03: leaf blocks end on a non-blank line.  The paragraph rule stops its line scan at the first blank line, the
   indented-code rule remembers the line after the last code line: the map [sl, e) they give their tokens has a
   non-blank line e - 1 (given that the rule is called on a non-blank line, which the line loop guarantees:
   Lemmas/Cover.v).  Thematic breaks and ATX headings have one-line maps (C03_hr_map). *)
From RecordUpdate Require Import RecordUpdate.
From MD Require Import Base.Py Base.Str Base.Regex Base.Opt Model.Token Model.Utils Model.StateBlock Model.Helpers
     Model.Url Model.Render Model.Block Lemmas.StrLemmas Lemmas.StrLemmas2 Lemmas.BlockLemmas Lemmas.BlockWF Lemmas.MapLemmas
     Lemmas.MapWhole.
From Coq Require Import ZifyBool.

Local Arguments Z.eqb : simpl never.
Local Arguments Z.ltb : simpl never.
Local Arguments Z.leb : simpl never.
Local Arguments str_eqb : simpl never.

Lemma is_empty_fr st st' l : fr st st' -> is_empty st' l = is_empty st l.
Proof. intros H. rewrite H. reflexivity. Qed.

Section Ends.
Context (cfg : bcfg).

(* the paragraph-like line scan passes non-blank lines only *)
Lemma para_scan_nonblank term (T : term_fr term) chain (CN : chain <> []) : forall fuel st nl el cu r u st',
  para_scan fuel term chain st nl el cu = Ok (r, u, st') ->
  nl <= r /\ forall l, nl <= l < r -> is_empty st l = Ok false.
Proof.
  induction fuel as [|f IH]; intros st nl el cu r u st' H; [discriminate H|].
  cbn [para_scan] in H.
  destruct (negb (nl <? el)); [rfinish H; split; [lia | intros l Hl; lia]|].
  destruct (is_empty st nl) as [e|?|] eqn:IE; cbn [bind] in H; try discriminate H.
  destruct e; [rfinish H; split; [lia | intros l Hl; lia]|].
  assert (STEP : forall stx, fr st stx -> para_scan f term chain stx (nl + 1) el cu = Ok (r, u, st') ->
                 nl <= r /\ forall l, nl <= l < r -> is_empty st l = Ok false).
  { intros stx F HX. destruct (IH _ _ _ _ _ _ _ HX) as [A B]. split; [lia|].
    intros l Hl. destruct (Z.eq_dec l nl) as [->|NE]; [exact IE|]. rewrite <- (is_empty_fr st stx l F). apply B. lia. }
  destruct (tb (b_sCount st) nl) as [sc|?|]; cbn [bind] in H; try discriminate H.
  destruct (3 <? sc - b_blkIndent st); [exact (STEP st (fr_refl st) H)|].
  match type of H with bind ?m _ = _ => destruct m as [ul|?|] end; cbn [bind] in H; try discriminate H.
  destruct ul as [ml|]; [rfinish H; split; [lia | intros l Hl; lia]|].
  destruct (sc <? 0); [exact (STEP st (fr_refl st) H)|].
  destruct (term chain st nl el) as [[t stx]|?|] eqn:TE; cbn [bind] in H; try discriminate H.
  pose proof (T _ _ _ _ _ _ CN TE) as F.
  destruct t; [rfinish H; split; [lia | intros l Hl; lia] | exact (STEP stx F H)].
Qed.

(* the paragraph: map [sl, nl), every line of it non-blank, in particular the last one *)
Theorem paragraph_ends_nonblank term (T : term_fr term) st sl el st' :
  r_paragraph term st sl el false = Ok (true, st') -> is_empty st sl = Ok false ->
  exists nl op inl cl,
    b_tokens st' = b_tokens st ++ [op; inl; cl] /\ tmap op = Some (sl, nl) /\ tmap inl = Some (sl, nl) /\ b_line st' = nl
    /\ sl < nl /\ (forall l, sl <= l < nl -> is_empty st l = Ok false).
Proof.
  unfold r_paragraph. intros H E0.
  match type of H with bind ?m _ = _ => destruct m as [[[nl u] st1]|?|] eqn:PS end; cbn [bind] in H; try discriminate H.
  destruct (para_scan_nonblank term T nm_paragraph ltac:(discriminate) _ _ _ _ _ _ _ _ PS) as [LE NB].
  destruct (get_lines st1 sl nl (b_blkIndent st1) false) as [raw|?|]; cbn [bind] in H; try discriminate H.
  injection H as <-.
  eexists nl, _, _, _. split; [|split; [|split; [|split; [|split]]]].
  - unfold st_parent, st_line, push_inline, bpush. cbn [b_tokens set]. rewrite <- !app_assoc. cbn [app].
    apply (para_scan_fr term T nm_paragraph ltac:(discriminate)) in PS. rewrite PS. cbn. reflexivity.
  - reflexivity.
  - reflexivity.
  - reflexivity.
  - lia.
  - intros l Hl. destruct (Z.eq_dec l sl) as [->|NE]; [exact E0|].
    change (is_empty st l) with (is_empty (st_parent st nm_paragraph) l). apply NB. lia.
Qed.

(* the indented-code scan: [last] is one past a code line, or the start *)
Lemma code_scan_last : forall fuel st nl el last r,
  code_scan cfg fuel st nl el last = Ok r ->
  r = last \/ (nl < r /\ is_empty st (r - 1) = Ok false).
Proof.
  induction fuel as [|f IH]; intros st nl el last r H; cbn [code_scan] in H; [injection H as <-; left; reflexivity|].
  destruct (negb (nl <? el)); [injection H as <-; left; reflexivity|].
  destruct (is_empty st nl) as [e|?|] eqn:IE; cbn [bind] in H; try discriminate H.
  destruct e.
  - destruct (IH _ _ _ _ _ H) as [->|[A B]]; [left; reflexivity | right; split; [lia | exact B]].
  - destruct (code_block_at cfg st nl) as [c|?|]; cbn [bind] in H; try discriminate H.
    destruct c; [|injection H as <-; left; reflexivity].
    destruct (IH _ _ _ _ _ H) as [->|[A B]]; [right; split; [lia | replace (nl + 1 - 1) with nl by lia; exact IE] | right; split; [lia | exact B]].
Qed.

Theorem code_block_ends_nonblank st sl el silent st' :
  r_code cfg st sl el silent = Ok (true, st') -> is_empty st sl = Ok false ->
  exists last t, b_tokens st' = b_tokens st ++ [t] /\ tmap t = Some (sl, last) /\ b_line st' = last
                 /\ sl < last /\ is_empty st (last - 1) = Ok false.
Proof.
  unfold r_code. intros H E0.
  destruct (code_block_at cfg st sl) as [c|?|]; cbn [bind] in H; try discriminate H.
  destruct (negb c); [discriminate H|].
  destruct (code_scan cfg (S (Z.to_nat (el - sl))) st (sl + 1) el (sl + 1)) as [last|?|] eqn:CS; cbn [bind] in H; try discriminate H.
  destruct (get_lines (st_line st last) sl last (4 + b_blkIndent (st_line st last)) false) as [content|?|]; cbn [bind] in H; try discriminate H.
  injection H as <-.
  eexists last, _. split; [reflexivity|]. split; [reflexivity|]. split; [reflexivity|].
  destruct (code_scan_last _ _ _ _ _ _ CS) as [->|[A B]].
  - split; [lia|]. replace (sl + 1 - 1) with sl by lia. exact E0.
  - split; [lia | exact B].
Qed.

(* ---- setext headings: the underline is a non-blank line, and it is the last line of the map ---- *)

Lemma para_scan_underline term (T : term_fr term) chain (CN : chain <> []) : forall fuel st nl el cu r ml st',
  para_scan fuel term chain st nl el cu = Ok (r, Some ml, st') -> r < el /\ is_empty st r = Ok false.
Proof.
  induction fuel as [|f IH]; intros st nl el cu r ml st' H; [discriminate H|].
  cbn [para_scan] in H.
  destruct (negb (nl <? el)) eqn:LT; [discriminate H|].
  destruct (is_empty st nl) as [e|?|] eqn:IE; cbn [bind] in H; try discriminate H.
  destruct e; [discriminate H|].
  assert (STEP : forall stx, fr st stx -> para_scan f term chain stx (nl + 1) el cu = Ok (r, Some ml, st') ->
                 r < el /\ is_empty st r = Ok false).
  { intros stx F HX. destruct (IH _ _ _ _ _ _ _ HX) as [A B]. split; [exact A|]. rewrite <- (is_empty_fr st stx r F). exact B. }
  destruct (tb (b_sCount st) nl) as [sc|?|]; cbn [bind] in H; try discriminate H.
  destruct (3 <? sc - b_blkIndent st); [exact (STEP st (fr_refl st) H)|].
  match type of H with bind ?m _ = _ => destruct m as [ul|?|] end; cbn [bind] in H; try discriminate H.
  destruct ul as [ml'|].
  { injection H as <- _ _. split; [lia | exact IE]. }
  destruct (sc <? 0); [exact (STEP st (fr_refl st) H)|].
  destruct (term chain st nl el) as [[t stx]|?|] eqn:TE; cbn [bind] in H; try discriminate H.
  pose proof (T _ _ _ _ _ _ CN TE) as F.
  destruct t; [discriminate H | exact (STEP stx F H)].
Qed.

(* the setext heading: map [sl, nl + 1) with nl the underline; every line of it non-blank, in particular the last one;
   the inline token's map [sl, nl) stops before the underline *)
Theorem setext_heading_ends_nonblank term (T : term_fr term) st sl el st' :
  r_lheading cfg term st sl el false = Ok (true, st') -> is_empty st sl = Ok false ->
  exists nl op inl cl,
    b_tokens st' = b_tokens st ++ [op; inl; cl] /\ tmap op = Some (sl, nl + 1) /\ tmap inl = Some (sl, nl) /\ b_line st' = nl + 1
    /\ sl < nl /\ nl < el /\ (forall l, sl <= l < nl + 1 -> is_empty st l = Ok false).
Proof.
  unfold r_lheading. intros H E0.
  match type of H with bind ?m _ = _ => destruct m as [cb|?|] end; cbn [bind] in H; try discriminate H.
  destruct cb; [discriminate H|].
  match type of H with bind ?m _ = _ => destruct m as [[[nl u] st1]|?|] eqn:PS end; cbn [bind] in H; try discriminate H.
  destruct u as [[marker level]|]; [|discriminate H].
  destruct (para_scan_nonblank term T nm_paragraph ltac:(discriminate) _ _ _ _ _ _ _ _ PS) as [LE NB].
  destruct (para_scan_underline term T nm_paragraph ltac:(discriminate) _ _ _ _ _ _ _ _ PS) as [LT UL].
  destruct (get_lines st1 sl nl (b_blkIndent st1) false) as [raw|?|]; cbn [bind] in H; try discriminate H.
  injection H as <-.
  eexists nl, _, _, _. split; [|split; [|split; [|split; [|split; [|split]]]]].
  - unfold st_parent, st_line, push_inline, bpush. cbn [b_tokens set]. rewrite <- !app_assoc. cbn [app].
    apply (para_scan_fr term T nm_paragraph ltac:(discriminate)) in PS. rewrite PS. cbn. reflexivity.
  - reflexivity.
  - reflexivity.
  - reflexivity.
  - lia.
  - exact LT.
  - intros l Hl. destruct (Z.eq_dec l sl) as [->|NE]; [exact E0|].
    change (is_empty st l) with (is_empty (st_parent st nm_paragraph) l).
    destruct (Z.eq_dec l nl) as [->|NE2]; [exact UL | apply NB; lia].
Qed.

End Ends.
