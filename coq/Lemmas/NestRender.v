(* C04 / C09 / C18 at the HTML level for the nested-container class: the renderer on the tokens of
   parse(prefix(cs) s LF) (Lemmas/NestLine.v) - container tags level by level, the paragraph tags dropped exactly
   when the paragraph sits directly in a tight item, the inline children rendered once in the middle. *)
From RecordUpdate Require Import RecordUpdate.
From MD Require Import Base.Py Base.Str Base.Regex Base.Opt Model.Token Model.Utils Model.StateBlock Model.Helpers
     Model.Url Model.Render Model.Core Model.Block Model.Inline Model.Pipeline
     Lemmas.StrLemmas Lemmas.StrLemmas2 Lemmas.BlockLemmas Lemmas.ParaLine Lemmas.QuoteLine Lemmas.NestLine.
From Coq Require Import ZifyBool.

Local Arguments Z.eqb : simpl never.
Local Arguments Z.ltb : simpl never.
Local Arguments Z.leb : simpl never.
Local Arguments str_eqb : simpl never.

(* the start attribute of an ordered list that does not begin at 1:  start="N"  with N in decimal *)
Definition ol_attrs (mv : Z) : str :=
  if mv =? 1 then [] else [32] ++ escape_html s_start ++ [61; 34] ++ escape_html (str_of_aval (AInt mv)) ++ [34].

(* the HTML of the containers around an already rendered middle part *)
Fixpoint nest_html (cs : list ctr) (hid : bool) (mid : str) : str :=
  match cs with
  | [] => if hid then mid else [60; 112; 62] ++ mid ++ [60; 47; 112; 62; 10]
  | CQ :: r => [60; 98; 108; 111; 99; 107; 113; 117; 111; 116; 101; 62; 10] ++ nest_html r false mid
               ++ [60; 47; 98; 108; 111; 99; 107; 113; 117; 111; 116; 101; 62; 10]
  | CI _ _ :: r => [60; 117; 108; 62; 10] ++ [60; 108; 105; 62] ++ (match r with [] => [] | _ => [10] end) ++ nest_html r true mid
                   ++ [60; 47; 108; 105; 62; 10] ++ [60; 47; 117; 108; 62; 10]
  | CO d0 ds _ _ :: r => [60; 111; 108] ++ ol_attrs (int_of_digits (d0 :: ds)) ++ [62; 10] ++ [60; 108; 105; 62] ++ (match r with [] => [] | _ => [10] end)
                         ++ nest_html r true mid ++ [60; 47; 108; 105; 62; 10] ++ [60; 47; 111; 108; 62; 10]
  end.

Section R.
Context (o : ropts) (s : str) (ch : list token) (cch : list chunk) (ch' : list token).
Context (HCH : render_inline_list o None ch = Ok (cch, ch')).

Definition not_hidden (p : option token) : Prop := match p with Some t => thidden t = false | None => True end.

(* the first token of a wrapped paragraph: a block opener; hidden only when it is the paragraph of a tight item *)
Lemma wrapc_head cs lv hid : exists t r, wrapc s cs lv hid ch = t :: r /\ str_eqb (ttype t) s_inline = false /\ tnesting t = 1
  /\ thidden t = (match cs with [] => hid | _ => false end).
Proof.
  destruct cs as [|[|m k|d0 ds dl k] cs]; cbn [wrapc].
  - destruct hid; unfold hide_para, para_ch; eexists _, _; (split; [reflexivity|]); repeat split.
  - eexists _, _. split; [reflexivity|]. repeat split.
  - eexists _, _. split; [reflexivity|]. repeat split.
  - eexists _, _. split; [reflexivity|]. unfold ol_open_at. destruct (negb (int_of_digits (d0 :: ds) =? 1)); repeat split.
Qed.

Lemma render_inl lv prev rest :
  render_list o prev (inl_at s lv ch :: rest)
  = (do (cs2, rest') <- render_list o (Some (inl_at s lv ch')) rest; Ok (cch ++ cs2, inl_at s lv ch' :: rest')).
Proof.
  cbn [render_list]. change (str_eqb (ttype (inl_at s lv ch)) s_inline) with true. cbv iota.
  change (tchildren (inl_at s lv ch)) with (Some ch).
  destruct ch as [|x l] eqn:E.
  - cbn [render_inline_list] in HCH. injection HCH as <- <-. cbn [bind app]. reflexivity.
  - rewrite HCH. cbn [bind]. reflexivity.
Qed.

(* chunks to characters *)
Lemma html_lit l rest : html_of (CLit l :: rest) = l ++ html_of rest.
Proof. reflexivity. Qed.

(* one non-inline token *)
Lemma render_list_cons prev t rest : str_eqb (ttype t) s_inline = false ->
  render_list o prev (t :: rest)
  = (do (cs, t') <- render_one o prev t (hd_error rest); do (cs2, rest') <- render_list o (Some t') rest; Ok (cs ++ cs2, t' :: rest')).
Proof. intros H. destruct rest; cbn [render_list]; rewrite H; reflexivity. Qed.

(* a hidden token renders as nothing, whatever its kind among the paragraph tokens *)
Definition po_at (lv : Z) : token := map_tok 0 1 (set_level (set_block (new_token [112; 97; 114; 97; 103; 114; 97; 112; 104; 95; 111; 112; 101; 110] [112] 1) true) lv).
Definition pc_at (lv : Z) : token := set_level (set_block (new_token [112; 97; 114; 97; 103; 114; 97; 112; 104; 95; 99; 108; 111; 115; 101] [112] (-1)) true) lv.

Lemma para_ch_eq lv : para_ch s lv ch = [po_at lv; inl_at s lv ch; pc_at lv].
Proof. reflexivity. Qed.

Lemma r1_default prev t next : str_eqb (ttype t) s_code_inline = false -> str_eqb (ttype t) s_code_block = false -> str_eqb (ttype t) s_fence = false ->
  str_eqb (ttype t) s_image = false -> str_eqb (ttype t) s_hardbreak = false -> str_eqb (ttype t) s_softbreak = false ->
  str_eqb (ttype t) s_text = false -> str_eqb (ttype t) s_tspecial = false -> str_eqb (ttype t) s_html_block = false ->
  str_eqb (ttype t) s_html_inline = false -> str_eqb (ttype t) s_definition = false ->
  render_one o prev t next = Ok (render_token o prev t next, t).
Proof. intros A1 A2 A3 A4 A5 A6 A7 A8 A9 A10 A11. unfold render_one. rewrite A1, A2, A3, A4, A5, A6, A7, A8, A9, A10, A11. reflexivity. Qed.

Ltac r1 := apply r1_default; reflexivity.

(* the last token of a wrapped paragraph (the previous token of whatever follows) *)
Definition last_tok (cs : list ctr) (lv : Z) (hid : bool) : token :=
  match cs with
  | [] => if hid then set_hidden (pc_at lv) true else pc_at lv
  | CQ :: _ => bq_close_at lv
  | CI m _ :: _ => ul_close_at m lv
  | CO _ _ dl _ :: _ => ol_close_at dl lv
  end.

Lemma prev_hidden prev : not_hidden prev -> (match prev with Some p => thidden p | None => false end) = false.
Proof. destruct prev as [p|]; [exact (fun H => H) | reflexivity]. Qed.

Theorem render_wrapc : forall cs lv hid prev rest,
  not_hidden prev ->
  forall cs2 rest', render_list o (Some (last_tok cs lv hid)) rest = Ok (cs2, rest') ->
    exists csw, render_list o prev (wrapc s cs lv hid ch ++ rest) = Ok (csw ++ cs2, wrapc s cs lv hid ch' ++ rest')
                /\ html_of csw = nest_html cs hid (html_of cch).
Proof.
  induction cs as [|[|m k|d0 ds dl k] cs IH]; intros lv hid prev rest NH cs2 rest' RR.
  - (* the paragraph *)
    cbn [wrapc nest_html last_tok] in *. rewrite !para_ch_eq. destruct hid; unfold hide_para; cbn [app].
    + rewrite render_list_cons by reflexivity.
      rewrite (r1_default prev (set_hidden (po_at lv) true)) by reflexivity. cbn [bind].
      rewrite render_inl.
      rewrite render_list_cons by reflexivity.
      rewrite (r1_default _ (set_hidden (pc_at lv) true)) by reflexivity. cbn [bind].
      rewrite RR. cbn [bind].
      exists cch. split; [reflexivity|]. reflexivity.
    + rewrite render_list_cons by reflexivity.
      rewrite (r1_default prev (po_at lv)) by reflexivity. cbn [bind].
      rewrite render_inl.
      rewrite render_list_cons by reflexivity.
      rewrite (r1_default _ (pc_at lv)) by reflexivity. cbn [bind].
      rewrite RR. cbn [bind].
      eexists. split; [rewrite !app_assoc; reflexivity|].
      unfold render_token. cbn [hd_error]. rewrite (prev_hidden prev NH).
      unfold html_of. rewrite !flat_map_app. cbn. rewrite ?app_nil_r, <- ?app_assoc. reflexivity.
  - (* a block quote *)
    cbn [wrapc nest_html last_tok] in *. cbn [app]. rewrite <- app_assoc. cbn [app].
    destruct (wrapc_head cs (lv + 1) false) as (t0 & r0 & EH & TI0 & TN0 & TH0).
    assert (TH : thidden t0 = false) by (rewrite TH0; destruct cs; reflexivity).
    rewrite render_list_cons by reflexivity. rewrite (r1_default prev (bq_open_at lv)) by reflexivity. cbn [bind].
    (* what follows the inner tokens: the closing token, then the rest *)
    assert (RC : render_list o (Some (last_tok cs (lv + 1) false)) (bq_close_at lv :: rest)
                 = Ok (render_token o (Some (last_tok cs (lv + 1) false)) (bq_close_at lv) (hd_error rest) ++ cs2, bq_close_at lv :: rest')).
    { rewrite render_list_cons by reflexivity. rewrite (r1_default _ (bq_close_at lv)) by reflexivity. cbn [bind]. rewrite RR. reflexivity. }
    destruct (IH (lv + 1) false (Some (bq_open_at lv)) (bq_close_at lv :: rest) eq_refl _ _ RC) as (csw & RW & HW).
    rewrite RW. cbn [bind].
    match goal with |- exists _, Ok (?a ++ csw ++ ?b ++ cs2, _) = _ /\ _ => exists (a ++ csw ++ b) end.
    split; [rewrite <- !app_assoc; reflexivity|].
    rewrite EH. cbn [hd_error app]. unfold render_token.
    change (thidden (bq_open_at lv)) with false. change (thidden (bq_close_at lv)) with false.
    change (tblock (bq_open_at lv)) with true. change (tblock (bq_close_at lv)) with true.
    change (tnesting (bq_open_at lv)) with 1. change (tnesting (bq_close_at lv)) with (-1).
    rewrite TI0, TH, TN0, (prev_hidden prev NH).
    change (1 =? -1) with false. change (-1 =? -1) with true. change (1 =? 1) with true. change (1 =? 0) with false. change (-1 =? 0) with false. change (-1 =? 1) with false.
    cbn [negb andb orb]. cbv iota.
    change (render_attrs (bq_open_at lv)) with (@nil chunk). change (render_attrs (bq_close_at lv)) with (@nil chunk).
    change (ttag (bq_open_at lv)) with nm_blockquote. change (ttag (bq_close_at lv)) with nm_blockquote.
    unfold html_of in *. rewrite !flat_map_app. cbn [flat_map chunk_html app]. rewrite HW. rewrite ?app_nil_r, <- ?app_assoc. reflexivity.
  - (* a list item *)
    cbn [wrapc nest_html last_tok] in *. cbn [app]. rewrite <- app_assoc. cbn [app].
    destruct (wrapc_head cs (lv + 2) true) as (t0 & r0 & EH & TI0 & TN0 & TH0).
    rewrite render_list_cons by reflexivity. rewrite (r1_default prev (ul_open_at m lv)) by reflexivity. cbn [bind].
    rewrite render_list_cons by reflexivity. rewrite (r1_default _ (li_open_at m (lv + 1))) by reflexivity. cbn [bind].
    assert (RC : render_list o (Some (last_tok cs (lv + 2) true)) (li_close_at m (lv + 1) :: ul_close_at m lv :: rest)
                 = Ok (render_token o (Some (last_tok cs (lv + 2) true)) (li_close_at m (lv + 1)) (Some (ul_close_at m lv))
                       ++ render_token o (Some (li_close_at m (lv + 1))) (ul_close_at m lv) (hd_error rest) ++ cs2,
                       li_close_at m (lv + 1) :: ul_close_at m lv :: rest')).
    { rewrite render_list_cons by reflexivity. rewrite (r1_default _ (li_close_at m (lv + 1))) by reflexivity. cbn [bind].
      rewrite render_list_cons by reflexivity. rewrite (r1_default _ (ul_close_at m lv)) by reflexivity. cbn [bind]. rewrite RR. reflexivity. }
    destruct (IH (lv + 2) true (Some (li_open_at m (lv + 1))) (li_close_at m (lv + 1) :: ul_close_at m lv :: rest) eq_refl _ _ RC) as (csw & RW & HW).
    rewrite RW. cbn [bind].
    match goal with |- exists _, Ok (?a ++ ?a2 ++ csw ++ ?b ++ ?b2 ++ cs2, _) = _ /\ _ => exists (a ++ a2 ++ csw ++ b ++ b2) end.
    split; [rewrite <- !app_assoc; reflexivity|].
    rewrite EH. cbn [hd_error app]. unfold render_token.
    change (thidden (ul_open_at m lv)) with false. change (thidden (ul_close_at m lv)) with false.
    change (thidden (li_open_at m (lv + 1))) with false. change (thidden (li_close_at m (lv + 1))) with false.
    change (tblock (ul_open_at m lv)) with true. change (tblock (ul_close_at m lv)) with true.
    change (tblock (li_open_at m (lv + 1))) with true. change (tblock (li_close_at m (lv + 1))) with true.
    change (tnesting (ul_open_at m lv)) with 1. change (tnesting (ul_close_at m lv)) with (-1).
    change (tnesting (li_open_at m (lv + 1))) with 1. change (tnesting (li_close_at m (lv + 1))) with (-1).
    change (str_eqb (ttype (li_open_at m (lv + 1))) s_inline) with false.
    rewrite TI0, TN0, TH0, (prev_hidden prev NH).
    change (1 =? -1) with false. change (-1 =? -1) with true. change (1 =? 1) with true. change (1 =? 0) with false. change (-1 =? 0) with false. change (-1 =? 1) with false.
    cbn [negb andb orb]. cbv iota.
    change (render_attrs (ul_open_at m lv)) with (@nil chunk). change (render_attrs (ul_close_at m lv)) with (@nil chunk).
    change (render_attrs (li_open_at m (lv + 1))) with (@nil chunk). change (render_attrs (li_close_at m (lv + 1))) with (@nil chunk).
    change (ttag (ul_open_at m lv)) with [117; 108]. change (ttag (ul_close_at m lv)) with [117; 108].
    change (ttag (li_open_at m (lv + 1))) with s_li. change (ttag (li_close_at m (lv + 1))) with s_li.
    unfold html_of in *. rewrite !flat_map_app. cbn [flat_map chunk_html app]. rewrite HW.
    destruct cs as [|c cs']; cbn [orb negb andb]; cbv iota; cbn [app]; rewrite ?app_nil_r, <- ?app_assoc; reflexivity.
  - (* an ordered list item *)
    cbn [wrapc nest_html last_tok] in *. cbn [app]. rewrite <- app_assoc. cbn [app].
    set (mv := int_of_digits (d0 :: ds)) in *.
    destruct (wrapc_head cs (lv + 2) true) as (t0 & r0 & EH & TI0 & TN0 & TH0).
    assert (OT : str_eqb (ttype (ol_open_at dl mv lv)) s_inline = false /\ thidden (ol_open_at dl mv lv) = false /\ tblock (ol_open_at dl mv lv) = true
                 /\ tnesting (ol_open_at dl mv lv) = 1 /\ ttag (ol_open_at dl mv lv) = [111; 108]
                 /\ html_of (render_attrs (ol_open_at dl mv lv)) = ol_attrs mv
                 /\ forall prev0 next0, render_one o prev0 (ol_open_at dl mv lv) next0 = Ok (render_token o prev0 (ol_open_at dl mv lv) next0, ol_open_at dl mv lv)).
    { unfold ol_open_at, ol_attrs. destruct (mv =? 1); cbn [negb]; repeat split; try reflexivity; intros; apply r1_default; reflexivity. }
    destruct OT as (OT1 & OT2 & OT3 & OT4 & OT5 & OT6 & OT7).
    rewrite render_list_cons by exact OT1. rewrite OT7. cbn [bind].
    rewrite render_list_cons by reflexivity. rewrite (r1_default _ (li_open_g true (d0 :: ds) dl (lv + 1))) by reflexivity. cbn [bind].
    assert (RC : render_list o (Some (last_tok cs (lv + 2) true)) (li_close_at dl (lv + 1) :: ol_close_at dl lv :: rest)
                 = Ok (render_token o (Some (last_tok cs (lv + 2) true)) (li_close_at dl (lv + 1)) (Some (ol_close_at dl lv))
                       ++ render_token o (Some (li_close_at dl (lv + 1))) (ol_close_at dl lv) (hd_error rest) ++ cs2,
                       li_close_at dl (lv + 1) :: ol_close_at dl lv :: rest')).
    { rewrite render_list_cons by reflexivity. rewrite (r1_default _ (li_close_at dl (lv + 1))) by reflexivity. cbn [bind].
      rewrite render_list_cons by reflexivity. rewrite (r1_default _ (ol_close_at dl lv)) by reflexivity. cbn [bind]. rewrite RR. reflexivity. }
    destruct (IH (lv + 2) true (Some (li_open_g true (d0 :: ds) dl (lv + 1))) (li_close_at dl (lv + 1) :: ol_close_at dl lv :: rest) eq_refl _ _ RC) as (csw & RW & HW).
    rewrite RW. cbn [bind].
    match goal with |- exists _, Ok (?a ++ ?a2 ++ csw ++ ?b ++ ?b2 ++ cs2, _) = _ /\ _ => exists (a ++ a2 ++ csw ++ b ++ b2) end.
    split; [rewrite <- !app_assoc; reflexivity|].
    rewrite EH. cbn [hd_error app]. unfold render_token. rewrite OT2, OT3, OT4, OT5.
    change (thidden (ol_close_at dl lv)) with false.
    change (thidden (li_open_g true (d0 :: ds) dl (lv + 1))) with false. change (thidden (li_close_at dl (lv + 1))) with false.
    change (tblock (ol_close_at dl lv)) with true.
    change (tblock (li_open_g true (d0 :: ds) dl (lv + 1))) with true. change (tblock (li_close_at dl (lv + 1))) with true.
    change (tnesting (ol_close_at dl lv)) with (-1).
    change (tnesting (li_open_g true (d0 :: ds) dl (lv + 1))) with 1. change (tnesting (li_close_at dl (lv + 1))) with (-1).
    change (str_eqb (ttype (li_open_g true (d0 :: ds) dl (lv + 1))) s_inline) with false.
    rewrite TI0, TN0, TH0, (prev_hidden prev NH).
    change (1 =? -1) with false. change (-1 =? -1) with true. change (1 =? 1) with true. change (1 =? 0) with false. change (-1 =? 0) with false. change (-1 =? 1) with false.
    cbn [negb andb orb]. cbv iota.
    change (render_attrs (ol_close_at dl lv)) with (@nil chunk).
    change (render_attrs (li_open_g true (d0 :: ds) dl (lv + 1))) with (@nil chunk). change (render_attrs (li_close_at dl (lv + 1))) with (@nil chunk).
    change (ttag (ol_close_at dl lv)) with [111; 108].
    change (ttag (li_open_g true (d0 :: ds) dl (lv + 1))) with s_li. change (ttag (li_close_at dl (lv + 1))) with s_li.
    unfold html_of in *. rewrite !flat_map_app. rewrite OT6. cbn [flat_map chunk_html app]. rewrite HW.
    destruct cs as [|c cs']; cbn [orb negb andb]; cbv iota; cbn [app]; rewrite ?app_nil_r, <- ?app_assoc; reflexivity.
Qed.


End R.

(* the renderer on the whole token list of the nested document *)
Theorem render_nested o s cs ch cch ch' :
  render_inline_list o None ch = Ok (cch, ch') ->
  render o (wrapc s cs 0 false ch) = Ok (nest_html cs false (html_of cch), wrapc s cs 0 false ch').
Proof.
  intros HCH. unfold render.
  destruct (render_wrapc o s ch cch ch' HCH cs 0 false None [] I [] [] eq_refl) as (csw & RW & HW).
  rewrite !app_nil_r in RW. rewrite RW. cbn [bind]. rewrite HW. reflexivity.
Qed.

(* C09 / C04 at the HTML level: in every nesting of block quotes and list items the escaped text renders as
   escapeHtml(t) between the container tags, and as nothing else *)
From MD Require Import Lemmas.InlineEsc.

Theorem render_nested_escaped :
  forall cfg rf cf lt (segs : list seg), wf segs -> line_ok (src_of segs) ->
    mem_z 13 (src_of segs) = false -> mem_z 0 (src_of segs) = false ->
  forall RA RB RC RD, c_rules (p_block cfg) = RA ++ nm_blockquote :: RB ++ nm_list :: RC ++ nm_paragraph :: RD ->
    Forall (fun n => n = nm_table \/ n = nm_code \/ n = nm_fence) RA ->
    Forall (fun n => n = nm_table \/ n = nm_code \/ n = nm_fence \/ n = nm_hr) RB ->
    Forall (fun n => str_eqb n nm_paragraph = false) RC ->
    p_core cfg = [n_normalize; n_block; n_inline; n_text_join] ->
  forall ipre ipost, ic_rules (p_inline cfg) = ipre ++ n_escape :: ipost ->
    Forall (fun n => n = n_text \/ n = n_linkify \/ n = n_newline) ipre -> In n_text ipre ->
    ic_linkify (p_inline cfg) = false -> 0 < ic_maxNesting (p_inline cfg) ->
  forall cs, Forall okc cs -> weight cs < c_maxNesting (p_block cfg) ->
  forall env,
    render_md cfg rf cf lt (prefix cs ++ src_of segs ++ [10]) env
    = Ok (nest_html cs false (escape_html (text_of segs)), env).
Proof.
  intros cfg rf cf lt segs Hwf Hs H13 H0 RA RB RC RD HC HA HB HCn Hcore ipre ipost HRi Hipre Hitext Hlink Hinest cs FO Hw env.
  unfold render_md.
  destruct (parse_nested_escaped cfg rf cf lt segs Hwf Hs H13 H0 RA RB RC RD HC HA HB HCn Hcore ipre ipost HRi Hipre Hitext Hlink Hinest cs FO Hw env)
    as (p & PE & Hp & Cp).
  rewrite PE. cbn [bind].
  assert (RI1 : render_inline_list (p_render cfg) None [p] = Ok ([CEsc (tcontent p)], [p])).
  { cbn [render_inline_list hd_error]. rewrite (render_text_token _ None p None Hp). reflexivity. }
  rewrite (render_nested (p_render cfg) (src_of segs) cs [p] _ _ RI1). cbn [bind].
  rewrite Cp. cbn [html_of flat_map chunk_html]. rewrite app_nil_r. reflexivity.
Qed.

(* reading aid: two documents of the class *)
Example nest_html_examples :
  nest_html [CQ; CI 45 1] false [120] = [60; 98; 108; 111; 99; 107; 113; 117; 111; 116; 101; 62; 10; 60; 117; 108; 62; 10; 60; 108; 105; 62; 120; 60; 47; 108; 105; 62; 10; 60; 47; 117; 108; 62; 10; 60; 47; 98; 108; 111; 99; 107; 113; 117; 111; 116; 101; 62; 10]
  /\ nest_html [CI 42 2; CQ] false [120] = [60; 117; 108; 62; 10; 60; 108; 105; 62; 10; 60; 98; 108; 111; 99; 107; 113; 117; 111; 116; 101; 62; 10; 60; 112; 62; 120; 60; 47; 112; 62; 10; 60; 47; 98; 108; 111; 99; 107; 113; 117; 111; 116; 101; 62; 10; 60; 47; 108; 105; 62; 10; 60; 47; 117; 108; 62; 10].
Proof. split; reflexivity. Qed.
