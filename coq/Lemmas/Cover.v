(* C03, coverage at the level of the line loop: what ParserBlock.parse appends is a sequence of segments, one per
   successful rule call, over line ranges [a, b) that increase, do not overlap, contain all the maps of their tokens -
   and the lines BETWEEN them, before the first and after the last, are all blank: no non-blank line of the input is
   skipped by the line loop; every one lies in the range of lines consumed by the rule call that produced a segment
   (for a reference definition: the empty segment of the lines of the definition). *)
From RecordUpdate Require Import RecordUpdate.
From MD Require Import Base.Py Base.Str Base.Regex Base.Opt Model.Token Model.Utils Model.StateBlock Model.Helpers
     Model.Url Model.Render Model.Block Lemmas.StrLemmas Lemmas.StrLemmas2 Lemmas.BlockLemmas Lemmas.BlockWF Lemmas.MapLemmas
     Lemmas.ScanLemmas Lemmas.MapWhole Lemmas.MapOrder Lemmas.CtxRestore Lemmas.NoRaise.
From Coq Require Import ZifyBool.

Local Arguments Z.eqb : simpl never.
Local Arguments Z.ltb : simpl never.
Local Arguments Z.leb : simpl never.
Local Arguments str_eqb : simpl never.

(* a line that skipEmptyLines steps over *)
Definition blank (st : bstate) (l : Z) : Prop := is_empty st l <> Ok false.

Lemma skip_empty_blank : forall fuel st a l, a <= l < skip_empty_lines fuel st a -> blank st l.
Proof.
  induction fuel as [|f IH]; intros st a l H; cbn [skip_empty_lines] in H; [lia|].
  destruct (negb (a <? b_lineMax st)); [lia|].
  destruct (is_empty st a) as [[|]|?|] eqn:E; try lia;
    (destruct (Z.eq_dec l a) as [->|NE]; [unfold blank; rewrite E; discriminate | apply (IH st (a + 1)); lia]).
Qed.

Lemma blank_tabs st st' l : tabs_eq st st' -> (blank st' l <-> blank st l).
Proof.
  intros (A1 & A2 & A3 & A4 & _). unfold blank, is_empty, line_start. rewrite A2, A3, A4. tauto.
Qed.

Inductive cseg (B : Z -> Prop) : Z -> Z -> list token -> Prop :=
| cseg_nil lo hi : lo <= hi -> (forall l, lo <= l < hi -> B l) -> cseg B lo hi []
| cseg_cons lo hi a b seg rest : lo <= a -> a < b -> (forall l, lo <= l < a -> B l) -> ~ B a -> Forall (map_in a b) seg ->
    cseg B b hi rest -> cseg B lo hi (seg ++ rest).

Lemma cseg_lo (B : Z -> Prop) lo lo' hi s : lo' <= lo -> (forall l, lo' <= l < lo -> B l) -> cseg B lo hi s -> cseg B lo' hi s.
Proof.
  intros L G H. destruct H as [lo hi H0 H1 | lo hi a b seg rest H1 H2 H3 HN H4 H5].
  - apply cseg_nil; [lia|]. intros l Hl. destruct (Z_lt_ge_dec l lo); [apply G; lia | apply H1; lia].
  - apply (cseg_cons B lo' hi a b); [lia | exact H2 | | exact HN | exact H4 | exact H5].
    intros l Hl. destruct (Z_lt_ge_dec l lo); [apply G; lia | apply H3; lia].
Qed.

Lemma cseg_impl (B B' : Z -> Prop) lo hi s : (forall l, B l <-> B' l) -> cseg B lo hi s -> cseg B' lo hi s.
Proof.
  intros I H. induction H as [lo hi H0 H1 | lo hi a b seg rest H1 H2 H3 HN H4 H5 IH].
  - apply cseg_nil; [exact H0 | intros l Hl; apply I, H1, Hl].
  - apply (cseg_cons B' lo hi a b); [exact H1 | exact H2 | intros l Hl; apply I, H3, Hl | intros X; apply HN, I, X | exact H4 | exact IH].
Qed.

(* covered means ordered too *)
Lemma cseg_oseg (B : Z -> Prop) lo hi s : cseg B lo hi s -> oseg lo hi s.
Proof. induction 1; [apply oseg_nil; assumption | eapply oseg_cons; eassumption]. Qed.

(* every line of the range is blank or inside the line range of a segment *)
Lemma cseg_covers (B : Z -> Prop) lo hi s : cseg B lo hi s -> forall l, lo <= l < hi -> B l \/ exists a b, a <= l < b /\ lo <= a /\ b <= hi.
Proof.
  induction 1 as [lo hi H0 H1 | lo hi a b seg rest H1 H2 H3 HN H4 H5 IH]; intros l Hl; [left; apply H1; exact Hl|].
  assert (BH : b <= hi) by (clear - H5; induction H5; lia).
  destruct (Z_lt_ge_dec l a); [left; apply H3; lia|].
  destruct (Z_lt_ge_dec l b); [right; exists a, b; lia|].
  destruct (IH l ltac:(lia)) as [Bl|(a' & b' & X & Y & Z0)]; [left; exact Bl | right; exists a', b'; lia].
Qed.

(* sCount entries are never negative (true of fresh tables; the line loop at the top level always sees them restored) *)
Definition SN (st : bstate) : Prop := forall l sc, tb (b_sCount st) l = Ok sc -> 0 <= sc.
Lemma SN_tabs st st' : tabs_eq st st' -> SN st -> SN st'.
Proof. intros (_ & _ & _ & _ & A5 & _) H l sc E. rewrite A5 in E. exact (H l sc E). Qed.

Section Loop.
Context (cfg : bcfg) (rf cf : str -> str).
Context (TNO : term_names_ok cfg) (PA : mem_str nm_paragraph (c_rules cfg) = true).

Lemma tok_loop_cover N d : forall fuel st line el hel,
  RI N st -> TI st -> CI st -> 0 <= line -> line <= b_lineMax st -> el <= b_lineMax st -> (line < el \/ b_line st = line) ->
  b_level st < c_maxNesting cfg -> b_blkIndent st = 0 -> SN st ->
  forall st', tok_loop cfg rf cf fuel (tokenize cfg rf cf d) st line el hel = Ok st' ->
  exists seg, b_tokens st' = b_tokens st ++ seg /\ cseg (blank st) line (b_line st') seg /\ el <= b_line st'.
Proof.
  pose proof (term_names_silent cfg TNO) as ST.
  pose proof (tokenize_rec_n cfg rf cf N TNO PA d) as RN.
  pose proof (tokenize_rec_c cfg rf cf ST PA d) as RC.
  induction fuel as [|f IH]; intros st line el hel R HT HC L0 L1 L2 LB LV BI HSN st' H; [discriminate H|].
  cbn [tok_loop] in H.
  assert (LMN : b_lineMax st <= N) by (destruct R as [LM _]; lia).
  destruct (negb (line <? el)) eqn:NE.
  { rfinish H. exists []. rewrite app_nil_r. split; [reflexivity|]. assert (b_line st' = line) by (destruct LB; [lia | assumption]).
    split; [apply cseg_nil; [lia | intros l Hl; lia] | lia]. }
  cbv zeta in H.
  set (line1 := skip_empty_lines (S (Z.to_nat (b_lineMax st))) st line) in *.
  destruct (skip_empty_spec (S (Z.to_nat (b_lineMax st))) st line) as [E1 E2]. specialize (E2 L1). fold line1 in E1, E2.
  assert (GAP : forall l, line <= l < line1 -> blank st l) by (intros l Hl; apply (skip_empty_blank (S (Z.to_nat (b_lineMax st))) st line); exact Hl).
  assert (T1 : tabs_eq st (st_line st line1)) by repeat split.
  destruct (el <=? line1) eqn:EL.
  { rfinish H. exists []. rewrite app_nil_r. split; [reflexivity|]. cbn [b_line st_line set].
    split; [apply cseg_nil; [exact E1 | exact GAP] | lia]. }
  change (b_sCount (st_line st line1)) with (b_sCount st) in H.
  destruct (RI_reads N st line1 R ltac:(lia)) as (b & e & t & sc & bs & Eb & Ee & Et & Es & Ebs & _).
  rewrite Es in H. cbn [bind] in H.
  change (b_blkIndent (st_line st line1)) with (b_blkIndent st) in H. rewrite BI in H.
  pose proof (HSN line1 sc Es) as SC0. assert (X0 : (sc <? 0) = false) by lia. rewrite X0 in H.
  change (b_level (st_line st line1)) with (b_level st) in H.
  assert (X1 : (c_maxNesting cfg <=? b_level st) = false) by lia. rewrite X1 in H.
  assert (NB1 : ~ blank st line1).
  { unfold blank. intros X. apply X. unfold line1. apply skip_empty_nonempty; [lia|]. fold line1. lia. }
  assert (NEl : nonempty (st_line st line1) line1).
  { apply (nonempty_tabs st); [exact T1|]. apply is_empty_false_nonempty. unfold line1. apply skip_empty_nonempty; [lia|]. fold line1. lia. }
  assert (P1 : pre2 N (st_line st line1) line1 el).
  { split; [exact (tabs_eq_RI _ _ _ T1 R)|]. change (b_lineMax (st_line st line1)) with (b_lineMax st). lia. }
  destruct (try_rules_r cfg rf cf N _ RN RC TNO (c_rules cfg) (st_line st line1) line1 el P1 HT HC eq_refl NEl) as [_ TP0].
  destruct (try_rules cfg rf cf (tokenize cfg rf cf d) (c_rules cfg) (st_line st line1) line1 el) as [st2|ex|] eqn:TR; cbn [bind] in H; try discriminate H.
  specialize (TP0 st2 eq_refl).
  pose proof TR as TRm. apply (try_rules_m cfg rf cf _ RC ST) in TRm; [| |exact PA].
  2:{ split; [lia|]. split; [lia|]. split; [exact L2|]. split; [reflexivity | exact HT]. }
  destruct TRm as (A1 & A2 & A3 & A4 & A5). cbn [b_lineMax st_line set] in A1, A2.
  pose proof (try_rules_ext cfg rf cf _ (tokenize_ok cfg rf cf d) _ _ _ _ _ TR) as [LVL _]. change (b_level (st_line st line1)) with (b_level st) in LVL.
  pose proof (try_rules_x cfg rf cf _ (tokenize_x cfg rf cf ST d) ST _ _ _ _ _ TR) as [BIX _]. change (b_blkIndent (st_line st line1)) with (b_blkIndent st) in BIX.
  set (st3 := st2 <| b_tight := negb hel |>) in *.
  change (b_line st3) with (b_line st2) in H.
  assert (T3 : tabs_eq st st3) by (eapply tabs_eq_trans; [exact T1|]; eapply tabs_eq_trans; [exact TP0|]; repeat split).
  pose proof (tabs_eq_RI _ _ _ T3 R) as R3. pose proof (tabs_eq_TI _ _ T3 HT) as HT3. pose proof (tabs_eq_CI _ _ T3 HC) as HC3.
  pose proof (SN_tabs _ _ T3 HSN) as SN3.
  rstep H.
  match type of H with bind ?m _ = _ => destruct m as [e2|?|] eqn:E2' end; cbn [bind] in H; try discriminate H.
  destruct A3 as (sg & ES & FS). change (b_tokens (st_line st line1)) with (b_tokens st) in ES.
  destruct e2.
  - assert (LT2 : b_line st2 < el) by (destruct (b_line st2 <? el) eqn:X; [lia | discriminate E2']).
    assert (EB : blank st3 (b_line st2)).
    { unfold blank. destruct (b_line st2 <? el); [|discriminate E2']. rewrite E2'. discriminate. }
    assert (T4 : tabs_eq st (st_line st3 (b_line st2 + 1))) by (eapply tabs_eq_trans; [exact T3|]; repeat split).
    apply (IH (st_line st3 (b_line st2 + 1)) (b_line st2 + 1) el true (tabs_eq_RI _ _ _ T4 R) (tabs_eq_TI _ _ T4 HT) (tabs_eq_CI _ _ T4 HC)) in H.
    + destruct H as (seg & ET & OS & EN). cbn [b_tokens st_line set] in ET. change (b_tokens st3) with (b_tokens st2) in ET.
      exists (sg ++ seg). split; [rewrite ET, ES, app_assoc; reflexivity|]. split; [|exact EN].
      apply (cseg_cons _ line _ line1 (b_line st2)); [exact E1 | lia | exact GAP | exact NB1 | exact FS|].
      apply (cseg_lo _ (b_line st2 + 1)); [lia | |].
      * intros l Hl. assert (l = b_line st2) by lia. subst l. apply (blank_tabs st st3 _ T3). exact EB.
      * eapply cseg_impl; [|exact OS]. intros l. apply (blank_tabs st _ l T4).
    + lia.
    + rewrite (tabs_eq_lineMax _ _ T4). lia.
    + rewrite (tabs_eq_lineMax _ _ T4). lia.
    + right. reflexivity.
    + cbn. rewrite LVL. exact LV.
    + cbn. rewrite BIX. exact BI.
    + exact (SN_tabs _ _ T4 HSN).
  - apply (IH st3 (b_line st2) el _ R3 HT3 HC3) in H.
    + destruct H as (seg & ET & OS & EN). change (b_tokens st3) with (b_tokens st2) in ET.
      exists (sg ++ seg). split; [rewrite ET, ES, app_assoc; reflexivity|]. split; [|exact EN].
      apply (cseg_cons _ line _ line1 (b_line st2)); [exact E1 | lia | exact GAP | exact NB1 | exact FS|].
      eapply cseg_impl; [|exact OS]. intros l. apply (blank_tabs st _ l T3).
    + lia.
    + rewrite (tabs_eq_lineMax _ _ T3). lia.
    + rewrite (tabs_eq_lineMax _ _ T3). lia.
    + right. reflexivity.
    + cbn. rewrite LVL. exact LV.
    + cbn. rewrite BIX. exact BI.
    + exact SN3.
Qed.

End Loop.

(* fresh tables: no negative indentation count *)
Lemma rows_ok_sC n : forall bM eM tS sC, rows_ok n bM eM tS sC -> Forall (fun x => 0 <= x) sC.
Proof.
  induction bM as [|b bM IH]; intros [|e eM] [|t tS] [|s sC] H; cbn [rows_ok] in H; try contradiction; [constructor|].
  destruct H as (_ & _ & S0 & _ & _ & R). constructor; [exact S0 | eapply IH; exact R].
Qed.

Lemma tb_In (l : list Z) i v : tb l i = Ok v -> In v l.
Proof.
  unfold tb. destruct (i <? 0); intros H;
    match type of H with match ?g with _ => _ end = _ => destruct g as [x|] eqn:G; [|discriminate H] end;
    injection H as <-; unfold get in G; destruct (_ <? 0) in G; try discriminate G; eapply nth_error_In; exact G.
Qed.

Lemma state_init_SN src env toks : SN (state_init src env toks).
Proof.
  destruct (state_init_tables src env toks) as (_ & _ & _ & _ & _ & _ & R). cbv zeta in R.
  apply rows_ok_sC in R. intros l sc E. rewrite Forall_forall in R. apply (R sc). apply -> in_rev. exact (tb_In _ _ _ E).
Qed.

(* the whole block parser: ordered segments, and every line between them blank *)
Theorem block_parse_cover cfg rf cf src env toks st :
  term_names_ok cfg -> mem_str nm_paragraph (c_rules cfg) = true -> 0 < c_maxNesting cfg ->
  block_parse cfg rf cf src env toks = Ok st ->
  let s0 := state_init src env toks in
  exists seg, b_tokens st = toks ++ seg /\ cseg (blank s0) 0 (b_lineMax s0) seg.
Proof.
  intros TNO PA MN H. cbv zeta. unfold block_parse in H.
  destruct src as [|c src0].
  { injection H as <-. exists []. rewrite app_nil_r. split; [reflexivity|]. apply cseg_nil; [reflexivity | intros l Hl; cbn in Hl; lia]. }
  set (st0 := state_init (c :: src0) env toks) in *.
  pose proof (state_init_RI (c :: src0) env toks) as R. pose proof (state_init_TI (c :: src0) env toks) as HT.
  pose proof (state_init_CI (c :: src0) env toks) as HC. pose proof (state_init_SN (c :: src0) env toks) as HSN. fold st0 in R, HT, HC, HSN.
  assert (B0 : b_line st0 = 0) by reflexivity. rewrite B0 in H.
  assert (LM : 0 <= b_lineMax st0) by (destruct R as [LM _]; lia).
  set (d := S (Z.to_nat (c_maxNesting cfg))) in H. cbn [tokenize] in H.
  destruct (tok_loop_cover cfg rf cf TNO PA (b_lineMax st0) d _ st0 0 (b_lineMax st0) false
              R HT HC ltac:(lia) ltac:(lia) ltac:(lia) (or_intror B0) ltac:(exact MN) eq_refl HSN st H) as (seg & ET & CS & EN).
  exists seg. split; [exact ET|].
  pose proof (tok_loop_m cfg rf cf _ (tokenize_rec_c cfg rf cf (term_names_silent cfg TNO) PA _) (term_names_silent cfg TNO) PA _ _ _ _ _ _ H
                ltac:(lia) ltac:(lia) ltac:(lia) HT (or_intror B0)) as (_ & _ & _ & BND & _).
  assert (EQ : b_line st = b_lineMax st0) by lia. rewrite <- EQ. exact CS.
Qed.
