(* C06: the marker-stripping arithmetic of the block quote rule and the line scanner agree.
   For a tab-free quoted line  '>' ' ' blank^k rest  the row that bq_strip writes into the line
   tables is the row the scanner computes for the un-prefixed line  blank^k rest , moved two
   characters to the right -- the row-level core of the quote law. *)
From RecordUpdate Require Import RecordUpdate.
From MD Require Import Base.Py Base.Str Base.Opt Model.Token Model.Utils Model.StateBlock Model.Helpers
     Model.Block Lemmas.StrLemmas Lemmas.BlockLemmas.
From Coq Require Import ZifyBool.

Local Arguments Z.eqb : simpl never.
Local Arguments Z.ltb : simpl never.
Local Arguments Z.leb : simpl never.

Definition spaces_at (src : str) (pos : Z) (k : nat) : Prop :=
  forall i, (i < k)%nat -> nth_error src (Z.to_nat pos + i) = Some 32.

Definition stop_at (src : str) (p maximum : Z) : Prop :=
  maximum <= p \/ exists c, nth_error src (Z.to_nat p) = Some c /\ is_space c = false.

Lemma py_idx_nth (s : str) pos c : 0 <= pos -> nth_error s (Z.to_nat pos) = Some c -> py_idx s pos = Ok c.
Proof.
  intros Hp H. unfold py_idx, get. assert (E : (pos <? 0) = false) by lia. cbv zeta. rewrite !E, H. reflexivity.
Qed.

Lemma char_at_nth (s : str) pos c : 0 <= pos -> nth_error s (Z.to_nat pos) = Some c -> char_at s pos = Some c.
Proof.
  intros Hp H. unfold char_at, get. assert (E : (pos <? 0) = false) by lia. cbv zeta. rewrite !E, H. reflexivity.
Qed.

Lemma spaces_at_S src pos k : 0 <= pos -> spaces_at src pos (S k) ->
  nth_error src (Z.to_nat pos) = Some 32 /\ spaces_at src (pos + 1) k.
Proof.
  intros Hp H. split.
  - specialize (H O ltac:(lia)). rewrite Nat.add_0_r in H. exact H.
  - intros i Hi. specialize (H (S i) ltac:(lia)).
    replace (Z.to_nat (pos + 1) + i)%nat with (Z.to_nat pos + S i)%nat by lia. exact H.
Qed.

Lemma bq_blanks_spaces : forall k fuel src pos maximum offset bs adj,
  0 <= pos -> (k < fuel)%nat -> pos + Z.of_nat k <= maximum ->
  spaces_at src pos k -> stop_at src (pos + Z.of_nat k) maximum ->
  bq_blanks fuel src pos maximum offset bs adj = Ok (pos + Z.of_nat k, offset + Z.of_nat k).
Proof.
  induction k as [|k IH]; intros fuel src pos maximum offset bs adj Hp Hf Hm Hs Hstop.
  - destruct fuel as [|f]; [lia|]. cbn [bq_blanks]. rewrite !Z.add_0_r in *.
    destruct (pos <? maximum) eqn:E; cbn [negb]; [|reflexivity].
    destruct Hstop as [Hge | (c & Hc & Hns)]; [lia|].
    rewrite (py_idx_nth _ _ _ Hp Hc). cbn [bind]. rewrite Hns. reflexivity.
  - destruct fuel as [|f]; [lia|]. cbn [bq_blanks].
    assert (E : (pos <? maximum) = true) by lia. rewrite E. cbn [negb].
    destruct (spaces_at_S _ _ _ Hp Hs) as [H0 Hs'].
    rewrite (py_idx_nth _ _ _ Hp H0). cbn [bind].
    change (is_space 32) with true. cbv iota. change (32 =? 9) with false. cbv iota.
    rewrite (IH f src (pos + 1) maximum (offset + 1) bs adj); try lia; try assumption.
    + f_equal. f_equal; lia.
    + replace (pos + 1 + Z.of_nat k) with (pos + Z.of_nat (S k)) by lia. exact Hstop.
Qed.

(* the quote-prefix row: '>' at pos0, one space, then k spaces, then a non-blank or the end *)
Theorem bq_strip_prefix src pos0 maximum sc bs k :
  0 <= pos0 -> nth_error src (Z.to_nat (pos0 + 1)) = Some 32 ->
  spaces_at src (pos0 + 2) k -> stop_at src (pos0 + 2 + Z.of_nat k) maximum ->
  pos0 + 2 + Z.of_nat k <= maximum -> maximum <= len src ->
  bq_strip src pos0 maximum sc bs =
    Ok (mkBq (pos0 + 2) (Z.of_nat k) (Z.of_nat k) (bs + sc + 2) (maximum <=? pos0 + 2 + Z.of_nat k)).
Proof.
  intros Hp H1 Hs Hstop Hm Hl. unfold bq_strip.
  assert (Hp1 : 0 <= pos0 + 1) by lia.
  rewrite (char_at_nth src (pos0 + 1) 32 Hp1 H1). cbv iota beta.
  replace (pos0 + 1 + 1) with (pos0 + 2) by lia.
  rewrite (bq_blanks_spaces k (S (length src)) src (pos0 + 2) maximum (sc + 1 + 1) bs false); try lia; try assumption.
  - cbn [bind]. f_equal. f_equal; lia.
  - unfold len in Hl. lia.
Qed.

(* the scanner on the un-prefixed line: k spaces then a non-blank, non-LF character *)
Lemma scan_spaces : forall k n bM eM tS sC start indent offset pos,
  scan_loop n (mkScan bM eM tS sC false start indent offset) pos (repeat_z 32 k)
  = mkScan bM eM tS sC false start (indent + Z.of_nat k) (offset + Z.of_nat k).
Proof.
  induction k as [|k IH]; intros n bM eM tS sC start indent offset pos; cbn [repeat_z scan_loop].
  - rewrite !Z.add_0_r. reflexivity.
  - unfold scan_step at 1. cbn [sc_found negb andb]. change (is_space 32) with true. cbv iota.
    cbn [sc_bM sc_eM sc_tS sc_sC sc_start sc_indent sc_offset]. change (32 =? 9) with false. cbv iota.
    rewrite IH. f_equal; lia.
Qed.

Lemma len_repeat_z {A} (x : A) k : len (repeat_z x k) = Z.of_nat k.
Proof. unfold len. induction k as [|k IH]; cbn [repeat_z length]; lia. Qed.

(* scanning  blank^k ++ [10]  from line start records indentation k twice *)
Theorem scan_blank_line k n bM eM tS sC start pos :
  scan_loop n (mkScan bM eM tS sC false start 0 0) pos (repeat_z 32 k ++ [10])
  = mkScan (start :: bM) (pos + Z.of_nat k :: eM) (Z.of_nat k :: tS) (Z.of_nat k :: sC) false (pos + Z.of_nat k + 1) 0 0.
Proof.
  rewrite scan_loop_app. rewrite scan_spaces. cbn [scan_loop].
  unfold scan_step. cbn [sc_found negb andb]. change (is_space 10) with false. cbv iota.
  change (10 =? 10) with true. cbn [orb]. cbv iota.
  cbn [sc_bM sc_eM sc_tS sc_sC sc_start sc_indent sc_offset].
  rewrite !Z.add_0_l. rewrite len_repeat_z. reflexivity.
Qed.

(* inside a line (found = true) characters other than LF, before the last position, change nothing *)
Lemma scan_inside : forall body n bM eM tS sC start indent offset pos,
  (forall x, In x body -> x <> 10) -> pos + len body <= n - 1 ->
  scan_loop n (mkScan bM eM tS sC true start indent offset) pos body
  = mkScan bM eM tS sC true start indent offset.
Proof.
  induction body as [|c body IH]; intros n bM eM tS sC start indent offset pos Hno Hn; cbn [scan_loop]; [reflexivity|].
  assert (Hc : c <> 10) by (apply Hno; left; reflexivity).
  assert (Hl : len (c :: body) = 1 + len body) by (unfold len; cbn [length]; lia).
  unfold scan_step at 1. cbn [sc_found negb andb]. cbv iota.
  assert (E1 : (c =? 10) = false) by lia. assert (E2 : (pos =? n - 1) = false) by (unfold len in *; lia).
  rewrite E1, E2. cbn [orb]. cbv iota. cbn [sc_bM sc_eM sc_tS sc_sC sc_start sc_indent sc_offset].
  apply IH; [intros x Hx; apply Hno; right; exact Hx | lia].
Qed.

(* a text line  blank^k c body LF  scanned from line start: begins at [start], ends at the LF,
   first non-blank after k characters, indentation k *)
Theorem scan_text_line k c body n bM eM tS sC start pos :
  is_space c = false -> c <> 10 -> (forall x, In x body -> x <> 10) ->
  pos + Z.of_nat k + 1 + len body <= n - 1 ->
  scan_loop n (mkScan bM eM tS sC false start 0 0) pos (repeat_z 32 k ++ c :: body ++ [10])
  = mkScan (start :: bM) (pos + Z.of_nat k + 1 + len body :: eM) (Z.of_nat k :: tS) (Z.of_nat k :: sC)
           false (pos + Z.of_nat k + 1 + len body + 1) 0 0.
Proof.
  intros Hs Hc Hno Hn. rewrite scan_loop_app, scan_spaces, len_repeat_z. rewrite !Z.add_0_l.
  cbn [scan_loop]. unfold scan_step at 1. cbn [sc_found negb andb]. rewrite Hs. cbv iota.
  assert (E1 : (c =? 10) = false) by lia.
  assert (E2 : (pos + Z.of_nat k =? n - 1) = false) by (unfold len in *; lia).
  rewrite E1, E2. cbn [orb]. cbv iota. cbn [sc_bM sc_eM sc_tS sc_sC sc_start sc_indent sc_offset].
  rewrite scan_loop_app. rewrite scan_inside by (try assumption; lia).
  cbn [scan_loop]. unfold scan_step. cbn [sc_found negb andb]. cbv iota.
  change (10 =? 10) with true. cbn [orb]. cbv iota.
  cbn [sc_bM sc_eM sc_tS sc_sC sc_start sc_indent sc_offset].
  replace (pos + Z.of_nat k + 1 + len body) with (pos + Z.of_nat k + 1 + len body) by reflexivity.
  f_equal.
Qed.
