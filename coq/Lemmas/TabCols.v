(* C17, structural tabs at the top level: the indentation column the block parser records for a line
   (sCount) is the tab-stop column width of the line's leading blanks, for every document; so
   re-spelling leading blanks - a tab for the spaces up to the next multiple of four, or back -
   leaves the whole sCount table (and the number of lines) unchanged. *)
From MD Require Import Base.Py Base.Str Base.Opt Model.Token Model.Utils Model.StateBlock
     Lemmas.StrLemmas Lemmas.StrLemmas2 Lemmas.BlockLemmas Lemmas.QuoteLemmas Lemmas.ScanLemmas.
From Coq Require Import ZifyBool.

Local Arguments Z.eqb : simpl never.
Local Arguments Z.ltb : simpl never.
Local Arguments Z.leb : simpl never.

Definition blank (c : Z) : Prop := c = 32 \/ c = 9.

(* the column reached after the blanks ws when starting in column off *)
Fixpoint cols (off : Z) (ws : list Z) : Z :=
  match ws with
  | [] => off
  | c :: r => cols (if c =? 9 then off + (4 - off mod 4) else off + 1) r
  end.

(* every tab replaced by the spaces up to the next tab stop *)
Fixpoint expand (off : Z) (ws : list Z) : list Z :=
  match ws with
  | [] => []
  | c :: r => if c =? 9 then repeat_z 32 (Z.to_nat (4 - off mod 4)) ++ expand (off + (4 - off mod 4)) r
              else c :: expand (off + 1) r
  end.

Lemma cols_spaces : forall k off, cols off (repeat_z 32 k) = off + Z.of_nat k.
Proof. induction k as [|k IH]; intros off; cbn [repeat_z cols]; [lia|]. change (32 =? 9) with false. cbv iota. rewrite IH. lia. Qed.

Lemma cols_app : forall a b off, cols off (a ++ b) = cols (cols off a) b.
Proof. induction a as [|c a IH]; intros b off; cbn [app cols]; [reflexivity|]. apply IH. Qed.

Theorem cols_expand : forall ws off, 0 <= off -> Forall blank ws -> cols off (expand off ws) = cols off ws.
Proof.
  induction ws as [|c ws IH]; intros off H0 F; [reflexivity|]. inversion F as [|? ? Hc Hr]; subst.
  cbn [expand cols]. assert (M : 0 <= off mod 4 < 4) by (apply Z.mod_pos_bound; lia).
  destruct (c =? 9) eqn:E.
  - rewrite cols_app, cols_spaces. rewrite Z2Nat.id by lia. apply IH; [lia | exact Hr].
  - cbn [cols]. rewrite E. apply IH; [lia | exact Hr].
Qed.

Theorem expand_no_tab : forall ws off, Forall blank ws -> Forall (fun c => c = 32) (expand off ws).
Proof.
  induction ws as [|c ws IH]; intros off F; [constructor|]. inversion F as [|? ? Hc Hr]; subst. cbn [expand].
  destruct (c =? 9) eqn:E.
  - apply Forall_app. split; [|apply IH; exact Hr]. induction (Z.to_nat (4 - off mod 4)); cbn; constructor; auto.
  - constructor; [destruct Hc; [assumption | lia] | apply IH; exact Hr].
Qed.

(* the scanner over leading blanks *)
Lemma scan_blanks : forall ws n bM eM tS sC start indent offset pos, Forall blank ws ->
  scan_loop n (mkScan bM eM tS sC false start indent offset) pos ws
  = mkScan bM eM tS sC false start (indent + len ws) (cols offset ws).
Proof.
  induction ws as [|c ws IH]; intros n bM eM tS sC start indent offset pos F; cbn [scan_loop cols].
  - unfold len. cbn. rewrite Z.add_0_r. reflexivity.
  - inversion F as [|? ? Hc Hr]; subst.
    assert (Sp : is_space c = true) by (destruct Hc; subst; reflexivity).
    unfold scan_step at 1. cbn [sc_found negb andb]. rewrite Sp. cbv iota.
    cbn [sc_bM sc_eM sc_tS sc_sC sc_start sc_indent sc_offset].
    rewrite IH by exact Hr. rewrite len_cons. f_equal. lia.
Qed.

Record line := mkLine { l_ws : list Z; l_rest : list Z }.
Definition line_wf (l : line) : Prop :=
  Forall blank (l_ws l)
  /\ (l_rest l = [] \/ exists c body, l_rest l = c :: body /\ is_space c = false /\ c <> 10 /\ (forall x, In x body -> x <> 10)).
Definition line_text (l : line) : str := l_ws l ++ l_rest l ++ [10].
Definition doc_text (ls : list line) : str := concat (map line_text ls).

Lemma scan_line l n bM eM tS sC pos : line_wf l -> pos + len (line_text l) <= n ->
  scan_loop n (mkScan bM eM tS sC false pos 0 0) pos (line_text l)
  = mkScan (pos :: bM) (pos + len (l_ws l) + len (l_rest l) :: eM) (len (l_ws l) :: tS) (cols 0 (l_ws l) :: sC)
           false (pos + len (line_text l)) 0 0.
Proof.
  destruct l as [ws rest]. intros [F R] Hn. unfold line_text in *. cbn [l_ws l_rest] in *. rewrite !len_app in *. change (len [10]) with 1 in *.
  rewrite scan_loop_app, scan_blanks by exact F. rewrite Z.add_0_l.
  destruct R as [->|(c & body & -> & Sp & Nl & Nb)].
  - cbn [app scan_loop]. unfold scan_step. cbn [sc_found negb andb]. change (is_space 10) with false. cbv iota.
    change (10 =? 10) with true. cbn [orb]. cbv iota. cbn [sc_bM sc_eM sc_tS sc_sC sc_start sc_indent sc_offset].
    change (len []) with 0. f_equal; try lia. f_equal. lia.
  - cbn [app scan_loop]. rewrite len_cons in *. unfold scan_step at 1. cbn [sc_found negb andb]. rewrite Sp. cbv iota.
    assert (E1 : (c =? 10) = false) by lia.
    assert (E2 : (pos + len ws =? n - 1) = false) by (pose proof (len_nonneg body); lia).
    rewrite E1, E2. cbn [orb]. cbv iota. cbn [sc_bM sc_eM sc_tS sc_sC sc_start sc_indent sc_offset].
    rewrite scan_loop_app. rewrite scan_inside by (try assumption; lia).
    cbn [scan_loop]. unfold scan_step. cbn [sc_found negb andb]. cbv iota.
    change (10 =? 10) with true. cbn [orb]. cbv iota.
    cbn [sc_bM sc_eM sc_tS sc_sC sc_start sc_indent sc_offset]. f_equal; try lia. f_equal. lia.
Qed.

Lemma scan_doc : forall ls n bM eM tS sC pos, Forall line_wf ls -> pos + len (doc_text ls) <= n ->
  exists bM' eM',
    scan_loop n (mkScan bM eM tS sC false pos 0 0) pos (doc_text ls)
    = mkScan (bM' ++ bM) (eM' ++ eM) (rev (map (fun l => len (l_ws l)) ls) ++ tS) (rev (map (fun l => cols 0 (l_ws l)) ls) ++ sC)
             false (pos + len (doc_text ls)) 0 0
    /\ length bM' = length ls /\ length eM' = length ls.
Proof.
  induction ls as [|l ls IH]; intros n bM eM tS sC pos F Hn.
  - exists [], []. cbn. unfold len. cbn. rewrite Z.add_0_r. repeat split.
  - inversion F as [|? ? Hl Hr]; subst. unfold doc_text in *. cbn [map concat] in *. rewrite len_app in Hn.
    pose proof (len_nonneg (concat (map line_text ls))) as Ln.
    rewrite scan_loop_app. rewrite scan_line by (try exact Hl; lia).
    destruct (IH n (pos :: bM) (pos + len (l_ws l) + len (l_rest l) :: eM) (len (l_ws l) :: tS) (cols 0 (l_ws l) :: sC)
                 (pos + len (line_text l)) Hr ltac:(lia)) as (b' & e' & E & L1 & L2).
    exists (b' ++ [pos]), (e' ++ [pos + len (l_ws l) + len (l_rest l)]). rewrite E. split.
    + cbn [map rev]. rewrite <- !app_assoc. cbn [app]. rewrite len_app. f_equal. lia.
    + rewrite !app_length. cbn [length]. lia.
Qed.

(* the tables of a fresh StateBlock on a document of well-formed lines *)
Theorem init_columns ls env toks : Forall line_wf ls ->
  let st := state_init (doc_text ls) env toks in
  b_sCount st = map (fun l => cols 0 (l_ws l)) ls ++ [0]
  /\ b_tShift st = map (fun l => len (l_ws l)) ls ++ [0]
  /\ b_lineMax st = len ls.
Proof.
  intros F. cbv zeta. unfold state_init. cbv zeta.
  destruct (scan_doc ls (len (doc_text ls)) [] [] [] [] 0 F ltac:(lia)) as (b' & e' & E & L1 & L2).
  rewrite E. cbn [sc_bM sc_eM sc_tS sc_sC b_sCount b_tShift b_lineMax]. rewrite !app_nil_r.
  split; [|split].
  - cbn [rev]. rewrite rev_involutive. reflexivity.
  - cbn [rev]. rewrite rev_involutive. reflexivity.
  - unfold len. cbn [rev]. rewrite app_length, rev_length. cbn [length]. lia.
Qed.

(* re-spelling the leading blanks of any lines, columns kept: same indentation table, same line count *)
Theorem respell_same_columns ls1 ls2 env1 toks1 env2 toks2 :
  Forall line_wf ls1 -> Forall line_wf ls2 ->
  Forall2 (fun a b => cols 0 (l_ws a) = cols 0 (l_ws b)) ls1 ls2 ->
  b_sCount (state_init (doc_text ls1) env1 toks1) = b_sCount (state_init (doc_text ls2) env2 toks2)
  /\ b_lineMax (state_init (doc_text ls1) env1 toks1) = b_lineMax (state_init (doc_text ls2) env2 toks2).
Proof.
  intros F1 F2 R.
  destruct (init_columns ls1 env1 toks1 F1) as (A1 & _ & A3). destruct (init_columns ls2 env2 toks2 F2) as (B1 & _ & B3).
  rewrite A1, B1, A3, B3. split.
  - f_equal. clear F1 F2 A1 B1 A3 B3. induction R as [|a b l1 l2 H R IH]; [reflexivity|]. cbn [map]. f_equal; [exact H | exact IH].
  - unfold len. f_equal. clear F1 F2 A1 B1 A3 B3. induction R; cbn [length]; [reflexivity | congruence].
Qed.

Definition expand_line (l : line) : line := mkLine (expand 0 (l_ws l)) (l_rest l).

Lemma expand_line_wf l : line_wf l -> line_wf (expand_line l).
Proof.
  intros [F R]. split; [|exact R]. cbn [l_ws expand_line].
  eapply Forall_impl; [|apply expand_no_tab; exact F]. intros c ->. left. reflexivity.
Qed.

(* the column-exact space expansion of every tab in leading blanks *)
Corollary expand_tabs_same_columns ls env toks : Forall line_wf ls ->
  b_sCount (state_init (doc_text (map expand_line ls)) env toks) = b_sCount (state_init (doc_text ls) env toks)
  /\ b_lineMax (state_init (doc_text (map expand_line ls)) env toks) = b_lineMax (state_init (doc_text ls) env toks).
Proof.
  intros F. apply respell_same_columns.
  - apply Forall_map. eapply Forall_impl; [|exact F]. intros l Hl. apply expand_line_wf, Hl.
  - exact F.
  - induction F as [|l ls Hl F IH]; cbn [map]; constructor; [|exact IH].
    cbn [l_ws expand_line]. apply cols_expand; [lia | apply Hl].
Qed.
