(* The inner scans of the block model run on loop-local fuel and answer with an ordinary value when
   it is used up.  This file proves that this never shows: above a bound computed from the
   arguments (the distance the scan can still travel) the answer does not depend on the fuel, and
   the fuel each call site passes lies above that bound.  So no result of the block model is an
   artefact of a fuel constant. *)
From RecordUpdate Require Import RecordUpdate.
From MD Require Import Base.Py Base.Str Base.Regex Base.Opt Model.Token Model.Utils Model.StateBlock Model.Helpers
     Model.Url Model.Render Model.Block Lemmas.LfCount.
From Coq Require Import ZifyBool.

Local Arguments Z.eqb : simpl never.
Local Arguments Z.ltb : simpl never.
Local Arguments Z.leb : simpl never.

Ltac fstep IH :=
  match goal with
  | |- bind ?m _ = bind ?m _ => destruct m eqn:?; cbn [bind]; [|reflexivity|reflexivity]
  | |- (if ?b then _ else _) = (if ?b then _ else _) => destruct b eqn:?
  | |- match ?x with _ => _ end = match ?x with _ => _ end => destruct x eqn:?
  | |- _ => reflexivity
  | |- _ => apply IH; lia
  end.
Ltac fwalk IH := cbv zeta; repeat (fstep IH; cbv zeta).
Ltac fuel_ind f1 f2 IH := induction f1 as [|f1 IH]; intros; [lia|]; destruct f2 as [|f2]; [lia|].

Lemma char_at_some_lt s p c : 0 <= p -> char_at s p = Some c -> p < len s.
Proof.
  intros H E. rewrite char_at_nonneg in E by lia.
  assert (X : nth_error s (Z.to_nat p) <> None) by congruence. apply nth_error_Some in X. unfold len. lia.
Qed.

(* ---- state_block.py ---- *)
Lemma skip_empty_lines_fuel : forall f1 f2 st from,
  (Z.to_nat (b_lineMax st - from) < f1)%nat -> (Z.to_nat (b_lineMax st - from) < f2)%nat ->
  skip_empty_lines f1 st from = skip_empty_lines f2 st from.
Proof. fuel_ind f1 f2 IH. cbn [skip_empty_lines]. fwalk IH. Qed.

Lemma skip_while_fuel p : forall f1 f2 src pos,
  (Z.to_nat (len src - pos) < f1)%nat -> (Z.to_nat (len src - pos) < f2)%nat ->
  skip_while f1 p src pos = skip_while f2 p src pos.
Proof.
  fuel_ind f1 f2 IH. cbn [skip_while].
  destruct (char_at src pos) as [c|] eqn:E; [|reflexivity].
  destruct ((0 <=? pos) && p c) eqn:G; [|reflexivity].
  pose proof (char_at_some_lt src pos c ltac:(lia) E). apply IH; lia.
Qed.

Lemma skip_back_fuel p : forall f1 f2 src pos mn,
  (Z.to_nat (pos - mn) < f1)%nat -> (Z.to_nat (pos - mn) < f2)%nat ->
  skip_back f1 p src pos mn = skip_back f2 p src pos mn.
Proof. fuel_ind f1 f2 IH. cbn [skip_back]. fwalk IH. Qed.

Lemma gl_scan_fuel : forall f1 f2 src first last ls li ind ts bs,
  (Z.to_nat (last - first) < f1)%nat -> (Z.to_nat (last - first) < f2)%nat ->
  gl_scan f1 src first last ls li ind ts bs = gl_scan f2 src first last ls li ind ts bs.
Proof. fuel_ind f1 f2 IH. cbn [gl_scan]. fwalk IH. Qed.

Lemma get_lines_loop_fuel : forall f1 f2 st line endl indent keep,
  (Z.to_nat (endl - line) < f1)%nat -> (Z.to_nat (endl - line) < f2)%nat ->
  get_lines_loop f1 st line endl indent keep = get_lines_loop f2 st line endl indent keep.
Proof.
  fuel_ind f1 f2 IH. cbn [get_lines_loop]. fwalk IH.
  rewrite (IH f2) by lia. reflexivity.
Qed.

Section Rules.
Context (cfg : bcfg).

Lemma code_scan_fuel : forall f1 f2 st nl el last,
  (Z.to_nat (el - nl) < f1)%nat -> (Z.to_nat (el - nl) < f2)%nat ->
  code_scan cfg f1 st nl el last = code_scan cfg f2 st nl el last.
Proof. fuel_ind f1 f2 IH. cbn [code_scan]. fwalk IH. Qed.

Lemma fence_scan_fuel : forall f1 f2 st nl el mk ln,
  (Z.to_nat (el - nl) < f1)%nat -> (Z.to_nat (el - nl) < f2)%nat ->
  fence_scan cfg f1 st nl el mk ln = fence_scan cfg f2 st nl el mk ln.
Proof. fuel_ind f1 f2 IH. cbn [fence_scan]. fwalk IH. Qed.

Lemma hr_scan_fuel : forall f1 f2 src pos mx mk cnt,
  (Z.to_nat (mx - pos) < f1)%nat -> (Z.to_nat (mx - pos) < f2)%nat ->
  hr_scan f1 src pos mx mk cnt = hr_scan f2 src pos mx mk cnt.
Proof. fuel_ind f1 f2 IH. cbn [hr_scan]. fwalk IH. Qed.

Lemma heading_level_fuel : forall f1 f2 src pos mx level,
  (Z.to_nat (7 - level) < f1)%nat -> (Z.to_nat (7 - level) < f2)%nat ->
  heading_level f1 src pos mx level = heading_level f2 src pos mx level.
Proof. fuel_ind f1 f2 IH. cbn [heading_level]. fwalk IH. Qed.

Lemma html_scan_fuel : forall f1 f2 st closer nl el,
  (Z.to_nat (el - nl) < f1)%nat -> (Z.to_nat (el - nl) < f2)%nat ->
  html_scan f1 st closer nl el = html_scan f2 st closer nl el.
Proof. fuel_ind f1 f2 IH. cbn [html_scan]. fwalk IH. Qed.

Lemma ref_prescan_fuel : forall f1 f2 src pos mx,
  (Z.to_nat (mx - pos) < f1)%nat -> (Z.to_nat (mx - pos) < f2)%nat ->
  ref_prescan f1 src pos mx = ref_prescan f2 src pos mx.
Proof. fuel_ind f1 f2 IH. cbn [ref_prescan]. fwalk IH. Qed.

Lemma ref_label_fuel : forall f1 f2 s pos mx lines,
  (Z.to_nat (mx - pos) < f1)%nat -> (Z.to_nat (mx - pos) < f2)%nat ->
  ref_label f1 s pos mx lines = ref_label f2 s pos mx lines.
Proof. fuel_ind f1 f2 IH. cbn [ref_label]. fwalk IH. Qed.

Lemma skip_ws_nl_fuel : forall f1 f2 s pos mx lines,
  (Z.to_nat (mx - pos) < f1)%nat -> (Z.to_nat (mx - pos) < f2)%nat ->
  skip_ws_nl f1 s pos mx lines = skip_ws_nl f2 s pos mx lines.
Proof. fuel_ind f1 f2 IH. cbn [skip_ws_nl]. fwalk IH. Qed.

Lemma skip_sp_fuel : forall f1 f2 s pos mx,
  (Z.to_nat (mx - pos) < f1)%nat -> (Z.to_nat (mx - pos) < f2)%nat ->
  skip_sp f1 s pos mx = skip_sp f2 s pos mx.
Proof. fuel_ind f1 f2 IH. cbn [skip_sp]. fwalk IH. Qed.

Lemma bq_blanks_fuel : forall f1 f2 src pos mx off bs adj,
  (Z.to_nat (mx - pos) < f1)%nat -> (Z.to_nat (mx - pos) < f2)%nat ->
  bq_blanks f1 src pos mx off bs adj = bq_blanks f2 src pos mx off bs adj.
Proof. fuel_ind f1 f2 IH. cbn [bq_blanks]. fwalk IH. Qed.

Lemma ordered_digits_fuel : forall f1 f2 src start pos mx,
  (Z.to_nat (start + 10 - pos) < f1)%nat -> (Z.to_nat (start + 10 - pos) < f2)%nat ->
  ordered_digits f1 src start pos mx = ordered_digits f2 src start pos mx.
Proof. fuel_ind f1 f2 IH. cbn [ordered_digits]. fwalk IH. Qed.

Lemma mark_tight_fuel : forall f1 f2 tokens i length level,
  (Z.to_nat (length - i) < f1)%nat -> (Z.to_nat (length - i) < f2)%nat ->
  mark_tight f1 tokens i length level = mark_tight f2 tokens i length level.
Proof. fuel_ind f1 f2 IH. cbn [mark_tight]. fwalk IH. Qed.

Lemma list_blanks_fuel : forall f1 f2 src pos mx off bs,
  (Z.to_nat (mx - pos) < f1)%nat -> (Z.to_nat (mx - pos) < f2)%nat ->
  list_blanks f1 src pos mx off bs = list_blanks f2 src pos mx off bs.
Proof. fuel_ind f1 f2 IH. cbn [list_blanks]. fwalk IH. Qed.

Lemma esc_split_fuel : forall f1 f2 s pos mx lastPos esc cur acc,
  (Z.to_nat (mx - pos) < f1)%nat -> (Z.to_nat (mx - pos) < f2)%nat ->
  esc_split f1 s pos mx lastPos esc cur acc = esc_split f2 s pos mx lastPos esc cur acc.
Proof. fuel_ind f1 f2 IH. cbn [esc_split]. fwalk IH. Qed.

Lemma delim_chars_fuel : forall f1 f2 src pos mx,
  (Z.to_nat (mx - pos) < f1)%nat -> (Z.to_nat (mx - pos) < f2)%nat ->
  delim_chars f1 src pos mx = delim_chars f2 src pos mx.
Proof. fuel_ind f1 f2 IH. cbn [delim_chars]. fwalk IH. Qed.

End Rules.

(* ---- helpers/parse_link_destination.py, parse_link_title.py ---- *)
Lemma dest_angle_fuel : forall f1 f2 s start pos mx,
  (Z.to_nat (mx - pos) < f1)%nat -> (Z.to_nat (mx - pos) < f2)%nat ->
  dest_angle f1 s start pos mx = dest_angle f2 s start pos mx.
Proof. fuel_ind f1 f2 IH. cbn [dest_angle]. fwalk IH. Qed.

Lemma dest_bare_fuel : forall f1 f2 s pos mx level,
  (Z.to_nat (mx - pos) < f1)%nat -> (Z.to_nat (mx - pos) < f2)%nat ->
  dest_bare f1 s pos mx level = dest_bare f2 s pos mx level.
Proof. fuel_ind f1 f2 IH. cbn [dest_bare]. fwalk IH. Qed.

Lemma title_loop_fuel : forall f1 f2 s start pos mx marker lines,
  (Z.to_nat (mx - pos) < f1)%nat -> (Z.to_nat (mx - pos) < f2)%nat ->
  title_loop f1 s start pos mx marker lines = title_loop f2 s start pos mx marker lines.
Proof. fuel_ind f1 f2 IH. cbn [title_loop]. fwalk IH. Qed.

(* ---- the call sites ---- *)
(* every scan over the source is called with fuel S (length src), a position 0 <= pos and a limit
   maximum <= len src (the line marks of the table invariant RI of Lemmas/NoRaise.v): above the bound *)
Lemma src_fuel_above_bound (src : str) pos mx : 0 <= pos -> mx <= len src -> (Z.to_nat (mx - pos) < S (length src))%nat.
Proof. unfold len. lia. Qed.
(* every scan over lines is called with fuel S (endLine - startLine) at line startLine + 1 (or startLine) *)
Lemma line_fuel_above_bound sl el : (Z.to_nat (el - (sl + 1)) < S (Z.to_nat (el - sl)))%nat.
Proof. lia. Qed.

(* two call sites spelled out: any larger fuel gives the same answer *)
Lemma hr_scan_call src pos mx mk : 0 <= pos -> mx <= len src -> forall f, (length src < f)%nat ->
  hr_scan f src (pos + 1) mx mk 1 = hr_scan (S (length src)) src (pos + 1) mx mk 1.
Proof. intros H0 H1 f Hf. apply hr_scan_fuel; unfold len in *; lia. Qed.
Lemma skip_spaces_call src pos : 0 <= pos -> forall f, (length src < f)%nat ->
  skip_while f is_space src pos = skip_spaces src pos.
Proof. intros H0 f Hf. unfold skip_spaces. apply skip_while_fuel; unfold len; lia. Qed.
Lemma code_scan_call cfg st sl el : forall f, (Z.to_nat (el - sl) < f)%nat ->
  code_scan cfg f st (sl + 1) el (sl + 1) = code_scan cfg (S (Z.to_nat (el - sl))) st (sl + 1) el (sl + 1).
Proof. intros f Hf. apply code_scan_fuel; lia. Qed.
Lemma heading_level_call src pos mx : forall f, (7 <= f)%nat ->
  heading_level f src pos mx 1 = heading_level 8 src pos mx 1.
Proof. intros f Hf. apply heading_level_fuel; lia. Qed.
Lemma ordered_digits_call src start mx : forall f, (10 <= f)%nat ->
  ordered_digits f src start (start + 1) mx = ordered_digits 12 src start (start + 1) mx.
Proof. intros f Hf. apply ordered_digits_fuel; lia. Qed.
