(* Facade-level theorems: C11 through MarkdownIt, C14 reset_rules, C12 frame facts. *)
From MD Require Import Base.Py Base.Opt Model.Ruler Model.Instance
     Lemmas.RulerCoherent Lemmas.RulerSets.

(* ---- induction principle for the nested [mop] ---------------------------- *)
Section mop_ind.
Context (P : mop -> Prop).
Context (HEnable : forall n i, P (MEnable n i)).
Context (HDisable : forall n i, P (MDisable n i)).
Context (HRuler : forall c o, P (MRuler c o)).
Context (HConfigure : forall p u, P (MConfigure p u)).
Context (HSetItem : forall k v, P (MSetItem k v)).
Context (HSetOptions : forall o, P (MSetOptions o)).
Context (HAdd : forall n f b, P (MAddRenderRule n f b)).
Context (HActive : P MActive).
Context (HAll : P MAll).
Context (HOptions : P MOptions).
Context (HReset : forall body r, Forall P body -> P (MReset body r)).

Fixpoint mop_ind' (o : mop) : P o :=
  match o with
  | MEnable n i => HEnable n i
  | MDisable n i => HDisable n i
  | MRuler c o => HRuler c o
  | MConfigure p u => HConfigure p u
  | MSetItem k v => HSetItem k v
  | MSetOptions o => HSetOptions o
  | MAddRenderRule n f b => HAdd n f b
  | MActive => HActive
  | MAll => HAll
  | MOptions => HOptions
  | MReset body r =>
      HReset body r
        ((fix go (l : list mop) : Forall P l :=
            match l with
            | [] => Forall_nil P
            | x :: l' => Forall_cons x (mop_ind' x) (go l')
            end) body)
  end.
End mop_ind.

(* ---- coherence of all four chains over any facade history --------------- *)

Local Arguments restore : simpl never.
Local Arguments enable_only_chain : simpl never.
Local Arguments md_toggle : simpl never.
Local Arguments active4 : simpl never.

Definition ICoherent (i : inst) : Prop :=
  Coherent (i_core i) /\ Coherent (i_block i) /\ Coherent (i_inline i) /\ Coherent (i_inline2 i).

Lemma get_set_chain_coherent i c r :
  ICoherent i -> Coherent r -> ICoherent (set_chain i c r).
Proof.
  unfold ICoherent, set_chain. intros [A [B [C D]]] H.
  destruct c as [|[p|p|]|]; simpl; try tauto; try (destruct p; simpl; tauto).
Qed.

Lemma get_chain_coherent i c : ICoherent i -> Coherent (get_chain i c).
Proof.
  unfold ICoherent, get_chain. intros [A [B [C D]]].
  destruct c as [|[p|p|]|]; try tauto; destruct p; tauto.
Qed.

Lemma toggle_coherent v names ign (r : ruler Z) : Coherent (fst (toggle v names ign r)).
Proof. unfold Coherent. rewrite toggle_cache. exact I. Qed.

Lemma md_toggle_coherent v names ign i : ICoherent (fst (md_toggle v names ign i)).
Proof.
  unfold md_toggle.
  pose proof (toggle_coherent v names true (i_core i)) as H0.
  pose proof (toggle_coherent v names true (i_block i)) as H1.
  pose proof (toggle_coherent v names true (i_inline i)) as H2.
  pose proof (toggle_coherent v names true (i_inline2 i)) as H3.
  destruct (toggle v names true (i_core i)), (toggle v names true (i_block i)),
    (toggle v names true (i_inline i)), (toggle v names true (i_inline2 i)).
  simpl in *. unfold ICoherent; simpl. tauto.
Qed.

Lemma enable_only_chain_coherent i c names :
  ICoherent i -> ICoherent (fst (enable_only_chain i c names)).
Proof.
  intros H. unfold enable_only_chain.
  pose proof (step_coherent (get_chain i c) (OpEnableOnly names false) (get_chain_coherent i c H)) as Hs.
  destruct (step (get_chain i c) (OpEnableOnly names false)). simpl in *.
  apply get_set_chain_coherent; assumption.
Qed.

Lemma configure_components_coherent comps : forall i,
  ICoherent i -> ICoherent (fst (configure_components comps i)).
Proof.
  induction comps as [|[name [rules rules2]] rest IH]; intros i H; simpl; [exact H|].
  set (a1 := match rules with
             | Some (x :: l) => match chain_of_name name with
                                | None => (i, Raise KeyError)
                                | Some c => enable_only_chain i c (x :: l) end
             | _ => (i, Ok MONone) end).
  assert (H1 : ICoherent (fst a1)).
  { subst a1. destruct rules as [[|x l]|]; simpl; try exact H.
    destruct (chain_of_name name); simpl; [apply enable_only_chain_coherent, H | exact H]. }
  destruct a1 as [i1 [o1|e1|]]; simpl in *; try exact H1.
  set (a2 := match rules2 with
             | Some (x :: l) => match chain_of_name name with
                                | None => (i1, Raise KeyError)
                                | Some 2 => enable_only_chain i1 3 (x :: l)
                                | Some _ => (i1, Raise AttributeError) end
             | _ => (i1, Ok MONone) end).
  assert (H2 : ICoherent (fst a2)).
  { subst a2. destruct rules2 as [[|x l]|]; simpl; try exact H1.
    destruct (chain_of_name name) as [[|[p|p|]|]|]; simpl; try exact H1;
      try (destruct p; simpl; try exact H1; apply enable_only_chain_coherent, H1). }
  destruct a2 as [i2 [o2|e2|]]; simpl in *; try exact H2.
  apply IH, H2.
Qed.

Lemma restore_coherent snap i : ICoherent i -> ICoherent (fst (restore snap i)).
Proof.
  intros H. destruct snap; unfold restore; try exact H.
  pose proof (enable_only_chain_coherent i 0 core H) as H0.
  destruct (enable_only_chain i 0 core) as [i0 [?|?|]]; simpl in *; try exact H0.
  pose proof (enable_only_chain_coherent i0 1 block H0) as H1.
  destruct (enable_only_chain i0 1 block) as [i1 [?|?|]]; simpl in *; try exact H1.
  pose proof (enable_only_chain_coherent i1 2 inline H1) as H2.
  destruct (enable_only_chain i1 2 inline) as [i2 [?|?|]]; simpl in *; try exact H2.
  apply enable_only_chain_coherent, H2.
Qed.

Lemma mstep_coherent fin (o : mop) : forall i, ICoherent i -> ICoherent (fst (mstep fin i o)).
Proof.
  induction o as [| | c o| p u| | | n f b| | | |body r HF] using mop_ind'; intros i0 Hc; simpl; try exact Hc.
  - apply md_toggle_coherent.
  - apply md_toggle_coherent.
  - pose proof (step_coherent (get_chain i0 c) o (get_chain_coherent i0 c Hc)) as Hs.
    destruct (step (get_chain i0 c) o). simpl in *. apply get_set_chain_coherent; assumption.
  - unfold configure. destruct p; simpl; [|exact Hc].
    apply configure_components_coherent. exact Hc.
  - destruct b; exact Hc.
  - (* MReset *)
    set (go := fix go (ops : list mop) (i : inst) {struct ops} : inst * res mout :=
           match ops with
           | [] => (i, match r with Some n => Raise (UserExn n) | None => Ok MONone end)
           | o :: ops' => match mstep fin i o with
                          | (i', Ok _) => go ops' i'
                          | bad => bad end
           end).
    assert (G : forall ops i, Forall (fun o => forall i, ICoherent i -> ICoherent (fst (mstep fin i o))) ops ->
                              ICoherent i -> ICoherent (fst (go ops i))).
    { induction ops as [|x ops IHo]; intros i Hf Hi; simpl; [exact Hi|].
      inversion Hf as [|? ? Hx Hr]; subst. specialize (Hx i Hi).
      destruct (mstep fin i x) as [i' [?|?|]]; simpl in *; try exact Hx. apply IHo; assumption. }
    specialize (G body i0 HF Hc). destruct (go body i0) as [i' [?|?|]]; simpl in *.
    + apply restore_coherent, G.
    + destruct fin; [|exact G].
      pose proof (restore_coherent (active4 i0) i' G) as R.
      destruct (restore (active4 i0) i') as [i'' [?|?|]]; exact R.
    + destruct fin; [|exact G].
      pose proof (restore_coherent (active4 i0) i' G) as R.
      destruct (restore (active4 i0) i') as [i'' [?|?|]]; exact R.
Qed.

Theorem facade_history_coherent fin ops : forall i, ICoherent i -> ICoherent (mrun fin ops i).
Proof.
  unfold mrun. induction ops as [|o ops IH]; simpl; intros i H; [exact H|].
  apply IH, mstep_coherent, H.
Qed.

Lemma bare_coherent a b c d : ICoherent (bare_inst a b c d).
Proof. unfold ICoherent, Coherent; simpl; tauto. Qed.

(* applied = reported through the facade, for each of the four chains and any
   terminator chain name *)
Theorem facade_applied_eq_reported fin a b c d ops which chain :
  let i := mrun fin ops (bare_inst a b c d) in
  let r := get_chain i which in
  snd (get_rules r chain) = map rfn (filter (in_chain chain) (active r)).
Proof.
  intros i r. apply get_rules_spec. apply get_chain_coherent.
  apply facade_history_coherent, bare_coherent.
Qed.
