(* C11: registration order.  Where at / before / after / push put a rule:
   the existing rules keep their relative order, enabled flags, functions and
   chains; the new rule sits immediately before / after the FIRST rule named
   by the reference (duplicates allowed), or at the end. *)
From MD Require Import Base.Py Model.Ruler Lemmas.RulerSets Lemmas.RulerCoherent.

Section Order.
Context {F : Type}.
Notation rule := (rule F).
Notation ruler := (ruler F).

(* __find__ returns the first index carrying the name *)
Lemma find_from_split (rs : list rule) n k i :
  find_from rs n k = Some i ->
  exists a x b, rs = a ++ x :: b /\ (i = k + length a)%nat /\ rname x = n /\
                (forall y, In y a -> rname y <> n).
Proof.
  revert k; induction rs as [|r rs IH]; simpl; intros k H; [discriminate|].
  destruct (str_eqb_spec (rname r) n) as [E|N].
  - injection H as <-. exists [], r, rs. simpl.
    split; [reflexivity|]. split; [lia|]. split; [exact E|]. intros y [].
  - apply IH in H. destruct H as [a [x [b [Hrs [Hi [Hx Ha]]]]]].
    exists (r :: a), x, b. simpl. split; [rewrite Hrs; reflexivity|].
    split; [lia|]. split; [exact Hx|].
    intros y [Hy|Hy]; [subst y; exact N | apply Ha, Hy].
Qed.

Lemma find_split (rs : list rule) n i :
  find rs n = Some i ->
  exists a x b, rs = a ++ x :: b /\ i = length a /\ rname x = n /\
                (forall y, In y a -> rname y <> n).
Proof.
  intros H. apply find_from_split in H.
  destruct H as [a [x [b [H1 [H2 [H3 H4]]]]]]. exists a, x, b. auto.
Qed.

Lemma insert_at_app (a : list rule) x b : insert_at (length a) x (a ++ b) = a ++ x :: b.
Proof. induction a as [|y a IH]; simpl; [destruct b; reflexivity | rewrite IH; reflexivity]. Qed.

Lemma insert_at_S_app (a : list rule) y x b :
  insert_at (S (length a)) x (a ++ y :: b) = a ++ y :: x :: b.
Proof.
  replace (S (length a)) with (length (a ++ [y])) by (rewrite app_length; simpl; lia).
  replace (a ++ y :: b) with ((a ++ [y]) ++ b) by (rewrite <- app_assoc; reflexivity).
  rewrite insert_at_app, <- app_assoc. reflexivity.
Qed.

Lemma upd_nth_app (a : list rule) f x b : upd_nth (length a) f (a ++ x :: b) = a ++ f x :: b.
Proof. induction a as [|y a IH]; simpl; [reflexivity | rewrite IH; reflexivity]. Qed.

(* before(ref, name, fn, alt) *)
Theorem before_order (r : ruler) ref name fn alt i :
  find (rules r) ref = Some i ->
  exists a x b,
    rules r = a ++ x :: b /\ rname x = ref /\ (forall y, In y a -> rname y <> ref) /\
    step r (OpBefore ref name fn alt) =
      (mkRuler (a ++ mkRule name true fn alt :: x :: b) None, Ok ONone).
Proof.
  intros H. destruct (find_split _ _ _ H) as [a [x [b [Hrs [Hi [Hx Ha]]]]]].
  exists a, x, b. split; [exact Hrs|]. split; [exact Hx|]. split; [exact Ha|].
  unfold step. rewrite H. rewrite Hrs, Hi, insert_at_app. reflexivity.
Qed.

(* after(ref, name, fn, alt) *)
Theorem after_order (r : ruler) ref name fn alt i :
  find (rules r) ref = Some i ->
  exists a x b,
    rules r = a ++ x :: b /\ rname x = ref /\ (forall y, In y a -> rname y <> ref) /\
    step r (OpAfter ref name fn alt) =
      (mkRuler (a ++ x :: mkRule name true fn alt :: b) None, Ok ONone).
Proof.
  intros H. destruct (find_split _ _ _ H) as [a [x [b [Hrs [Hi [Hx Ha]]]]]].
  exists a, x, b. split; [exact Hrs|]. split; [exact Hx|]. split; [exact Ha|].
  unfold step. rewrite H. rewrite Hrs, Hi, insert_at_S_app. reflexivity.
Qed.

(* at(name, fn, alt): replaces function and chains of the first rule of that
   name, keeps its name, position and enabled flag *)
Theorem at_order (r : ruler) name fn alt i :
  find (rules r) name = Some i ->
  exists a x b,
    rules r = a ++ x :: b /\ rname x = name /\ (forall y, In y a -> rname y <> name) /\
    step r (OpAt name fn alt) =
      (mkRuler (a ++ mkRule name (renabled x) fn alt :: b) None, Ok ONone).
Proof.
  intros H. destruct (find_split _ _ _ H) as [a [x [b [Hrs [Hi [Hx Ha]]]]]].
  exists a, x, b. split; [exact Hrs|]. split; [exact Hx|]. split; [exact Ha|].
  unfold step. rewrite H. rewrite Hrs, Hi, upd_nth_app, Hx. reflexivity.
Qed.

Theorem push_order (r : ruler) name fn alt :
  step r (OpPush name fn alt) =
    (mkRuler (rules r ++ [mkRule name true fn alt]) None, Ok ONone).
Proof. reflexivity. Qed.

(* what the parser then applies: the chain for [c] gains the new function at
   the corresponding place, and nothing else moves *)
Lemma compile_chain_app (a b : list rule) c :
  compile_chain (a ++ b) c = compile_chain a c ++ compile_chain b c.
Proof. unfold compile_chain. rewrite filter_app, map_app. reflexivity. Qed.

Theorem before_applied (r : ruler) ref name fn alt i c :
  find (rules r) ref = Some i ->
  exists a b,
    rules r = a ++ b /\
    compile_chain (rules (fst (step r (OpBefore ref name fn alt)))) c =
      compile_chain a c ++ (if in_chain c (mkRule name true fn alt) then [fn] else [])
                        ++ compile_chain b c.
Proof.
  intros H. destruct (before_order r ref name fn alt i H) as [a [x [b [Hrs [_ [_ Hs]]]]]].
  exists a, (x :: b). split; [exact Hrs|]. rewrite Hs. cbn [fst rules].
  rewrite compile_chain_app. f_equal.
  change (mkRule name true fn alt :: x :: b) with ([mkRule name true fn alt] ++ x :: b).
  rewrite compile_chain_app. f_equal.
  unfold compile_chain. cbn [filter renabled andb].
  destruct (in_chain c (mkRule name true fn alt)); reflexivity.
Qed.

Lemma compile_chain_one (x : rule) c :
  compile_chain [x] c = if renabled x && in_chain c x then [rfn x] else [].
Proof. unfold compile_chain. cbn [filter]. destruct (renabled x && in_chain c x); reflexivity. Qed.

Theorem after_applied (r : ruler) ref name fn alt i c :
  find (rules r) ref = Some i ->
  exists a x b,
    rules r = a ++ x :: b /\ rname x = ref /\
    compile_chain (rules (fst (step r (OpAfter ref name fn alt)))) c =
      compile_chain (a ++ [x]) c ++ (if in_chain c (mkRule name true fn alt) then [fn] else [])
                                 ++ compile_chain b c.
Proof.
  intros H. destruct (after_order r ref name fn alt i H) as [a [x [b [Hrs [Hx [_ Hs]]]]]].
  exists a, x, b. split; [exact Hrs|]. split; [exact Hx|]. rewrite Hs. cbn [fst rules].
  change (a ++ x :: mkRule name true fn alt :: b)
    with (a ++ [x] ++ [mkRule name true fn alt] ++ b).
  rewrite !compile_chain_app, <- app_assoc. f_equal. f_equal. f_equal.
  apply compile_chain_one.
Qed.

Theorem push_applied (r : ruler) name fn alt c :
  compile_chain (rules (fst (step r (OpPush name fn alt)))) c =
    compile_chain (rules r) c ++ (if in_chain c (mkRule name true fn alt) then [fn] else []).
Proof. cbn [step fst rules]. rewrite compile_chain_app. f_equal. apply compile_chain_one. Qed.

(* at(): every other rule's contribution stays; the replaced rule contributes
   the new function iff it is enabled and the new chains include c *)
Theorem at_applied (r : ruler) name fn alt i c :
  find (rules r) name = Some i ->
  exists a x b,
    rules r = a ++ x :: b /\ rname x = name /\
    compile_chain (rules (fst (step r (OpAt name fn alt)))) c =
      compile_chain a c
      ++ (if renabled x && in_chain c (mkRule name (renabled x) fn alt) then [fn] else [])
      ++ compile_chain b c.
Proof.
  intros H. destruct (at_order r name fn alt i H) as [a [x [b [Hrs [Hx [_ Hs]]]]]].
  exists a, x, b. split; [exact Hrs|]. split; [exact Hx|]. rewrite Hs. cbn [fst rules].
  change (a ++ mkRule name (renabled x) fn alt :: b)
    with (a ++ [mkRule name (renabled x) fn alt] ++ b).
  rewrite !compile_chain_app, compile_chain_one. reflexivity.
Qed.

(* enable / disable are idempotent - rules, cache and the value returned (or
   the exception raised) are the same the second time *)
Lemma mark_mark v P (x : rule) : mark v P (mark v P x) = mark v P x.
Proof.
  unfold mark. destruct (mem_str (rname x) P) eqn:E; simpl; [|rewrite E; reflexivity].
  rewrite E. reflexivity.
Qed.

Theorem toggle_idempotent v names ign (r : ruler) :
  NoDup (all_names r) ->
  toggle v names ign (fst (toggle v names ign r)) = toggle v names ign r.
Proof.
  intros ND. rewrite (toggle_sets v names ign r ND). cbn [fst].
  rewrite toggle_sets; unfold all_names; cbn [rules]; rewrite map_mark_names; [|exact ND].
  rewrite map_map. f_equal. f_equal. apply map_ext. intros x. apply mark_mark.
Qed.

(* the last call wins: enable after disable (or the reverse) of the same names
   is the later call alone *)
Lemma mark_mark2 v1 v2 P (x : rule) : mark v2 P (mark v1 P x) = mark v2 P x.
Proof.
  unfold mark. destruct (mem_str (rname x) P) eqn:E; simpl; rewrite E; reflexivity.
Qed.

Theorem toggle_last_wins v1 v2 names ign (r : ruler) :
  NoDup (all_names r) ->
  toggle v2 names ign (fst (toggle v1 names ign r)) = toggle v2 names ign r.
Proof.
  intros ND. rewrite (toggle_sets v1 names ign r ND). cbn [fst].
  rewrite (toggle_sets v2 names ign r ND).
  rewrite toggle_sets; unfold all_names; cbn [rules]; rewrite map_mark_names; [|exact ND].
  rewrite map_map. f_equal. f_equal. apply map_ext. intros x. apply mark_mark2.
Qed.

(* a rule registered by before / after / push is reported by get_all_rules and
   get_active_rules straight away; a failed registration reports nothing new *)
Theorem registered_is_reported (r : ruler) (o : op F) name :
  match o with
  | OpBefore _ n _ _ | OpAfter _ n _ _ | OpPush n _ _ => n = name
  | _ => False
  end ->
  let '(r', out) := step r o in
  match out with
  | Ok _ => In name (all_names r') /\ In name (active_names r')
  | _ => r' = r
  end.
Proof.
  assert (A : forall a (x : rule) b, renabled x = true ->
            In (rname x) (map rname (a ++ x :: b)) /\
            In (rname x) (map rname (filter renabled (a ++ x :: b)))).
  { intros a x b Hx. split.
    - rewrite map_app. apply in_or_app. right. left. reflexivity.
    - rewrite filter_app, map_app. apply in_or_app. right. cbn [filter]. rewrite Hx.
      left. reflexivity. }
  destruct o as [n fn alt|ref n fn alt|ref n fn alt|n fn alt| | | | | |]; intros Hn; try contradiction; subst n.
  - destruct (find (rules r) ref) as [i|] eqn:E.
    + destruct (before_order r ref name fn alt i E) as [a [x [b [_ [_ [_ Hs]]]]]].
      rewrite Hs. unfold all_names, active_names, active. cbn [rules].
      exact (A a (mkRule name true fn alt) (x :: b) eq_refl).
    + unfold step. rewrite E. reflexivity.
  - destruct (find (rules r) ref) as [i|] eqn:E.
    + destruct (after_order r ref name fn alt i E) as [a [x [b [_ [_ [_ Hs]]]]]].
      rewrite Hs. unfold all_names, active_names, active. cbn [rules].
      replace (a ++ x :: mkRule name true fn alt :: b)
        with ((a ++ [x]) ++ mkRule name true fn alt :: b) by (rewrite <- app_assoc; reflexivity).
      exact (A (a ++ [x]) (mkRule name true fn alt) b eq_refl).
    + unfold step. rewrite E. reflexivity.
  - cbn [step]. unfold all_names, active_names, active. cbn [rules].
    exact (A (rules r) (mkRule name true fn alt) [] eq_refl).
Qed.

(* a named chain that no ACTIVE rule belongs to is empty after any history -
   in particular the chains of disabled rules vanish from what is applied *)
Theorem unlisted_chain_empty (ops : list (op F)) chain :
  let r := run ops ruler_init in
  chain <> [] ->
  (forall x, In x (active r) -> mem_str chain (ralt x) = false) ->
  snd (get_rules r chain) = [].
Proof.
  intros r Hc Hx. destruct (applied_eq_reported ops chain) as [H _]. fold r in H.
  rewrite H. rewrite filter_none; [reflexivity|].
  intros x Hin. unfold in_chain. destruct chain as [|c0 ch]; [congruence|]. apply Hx, Hin.
Qed.

End Order.
