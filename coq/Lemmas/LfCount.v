(* Line-feed counting: the `lines` counters of the reference rule never exceed the number of line
   feeds in the string they scan. *)
From MD Require Import Base.Py Base.Str Base.Opt Model.Utils Model.Helpers Model.StateBlock Model.Block
     Lemmas.StrLemmas Lemmas.StrLemmas2 Lemmas.QuoteLemmas.
From Coq Require Import ZifyBool.

Local Arguments Z.eqb : simpl never.
Local Arguments Z.ltb : simpl never.
Local Arguments Z.leb : simpl never.

Fixpoint c10 (s : str) : Z := match s with [] => 0 | c :: r => (if c =? 10 then 1 else 0) + c10 r end.
Definition NL (s : str) (p : Z) : Z := c10 (skipn (Z.to_nat p) s).

Lemma c10_nonneg s : 0 <= c10 s.
Proof. induction s as [|c s IH]; cbn [c10]; [lia|]. destruct (c =? 10); lia. Qed.
Lemma c10_app a b : c10 (a ++ b) = c10 a + c10 b.
Proof. induction a as [|c a IH]; cbn [c10 app]; [lia|]. rewrite IH. lia. Qed.

Lemma c10_skipn_le : forall k s, c10 (skipn k s) <= c10 s.
Proof.
  induction k as [|k IH]; intros s; [cbn; lia|]. destruct s as [|c s]; [cbn; lia|].
  cbn [skipn c10]. specialize (IH s). destruct (c =? 10); lia.
Qed.

Lemma NL_nonneg s p : 0 <= NL s p.
Proof. apply c10_nonneg. Qed.
Lemma NL_total s p : NL s p <= c10 s.
Proof. apply c10_skipn_le. Qed.

Lemma char_at_nonneg s p : 0 <= p -> char_at s p = nth_error s (Z.to_nat p).
Proof. intros H. unfold char_at, get. cbv zeta. assert (E : (p <? 0) = false) by lia. rewrite !E. reflexivity. Qed.

Lemma NL_step s p : 0 <= p ->
  NL s (p + 1) <= NL s p /\ (char_at s p = Some 10 -> NL s p = 1 + NL s (p + 1)).
Proof.
  intros Hp. unfold NL. rewrite char_at_nonneg by lia.
  replace (Z.to_nat (p + 1)) with (S (Z.to_nat p)) by lia.
  destruct (nth_error s (Z.to_nat p)) as [c|] eqn:E.
  - rewrite (skipn_cons_nth s _ c E). cbn [c10]. generalize (c10 (skipn (S (Z.to_nat p)) s)). intros X.
    split; [destruct (c =? 10); lia|].
    intros Y. injection Y as ->. change (10 =? 10) with true. cbv iota. lia.
  - split; [|discriminate]. apply nth_error_None in E.
    rewrite !skipn_all2 by lia. cbn. lia.
Qed.

Lemma NL_mono s : forall (k : nat) p, 0 <= p -> NL s (p + Z.of_nat k) <= NL s p.
Proof.
  induction k as [|k IH]; intros p Hp; [replace (p + Z.of_nat 0) with p by lia; lia|].
  replace (p + Z.of_nat (S k)) with ((p + 1) + Z.of_nat k) by lia.
  specialize (IH (p + 1) ltac:(lia)). destruct (NL_step s p Hp) as [A _]. lia.
Qed.
Lemma NL_le s p q : 0 <= p -> p <= q -> NL s q <= NL s p.
Proof. intros Hp Hq. replace q with (p + Z.of_nat (Z.to_nat (q - p))) by lia. apply NL_mono. exact Hp. Qed.

(* literal matches as comparisons *)
Lemma zmatch {A} (k : positive) (c : Z) (x y : A) :
  (if c =? Z.pos k then x else y) = (if c =? Z.pos k then x else y).
Proof. reflexivity. Qed.

(* ---- ref_label ---- *)
Lemma ref_label_lf : forall fuel s pos mx lines le lines',
  ref_label fuel s pos mx lines = Some (Some le, lines') -> 0 <= pos ->
  pos <= le /\ lines' + NL s le <= lines + NL s pos /\ lines <= lines'.
Proof.
  induction fuel as [|f IH]; intros s pos mx lines le lines' H Hp; cbn [ref_label] in H; [discriminate H|].
  destruct (negb (pos <? mx)); [discriminate H|].
  destruct (NL_step s pos Hp) as [S1 S2].
  destruct (char_at s pos) as [c|] eqn:Ec.
  2:{ apply IH in H; [|lia]. lia. }
  destruct (Z.eq_dec c 91) as [->|N1]; [discriminate H|].
  destruct (Z.eq_dec c 93) as [->|N2]; [injection H as <- <-; lia|].
  destruct (Z.eq_dec c 10) as [->|N3]; [apply IH in H; [|lia]; specialize (S2 eq_refl); lia|].
  destruct (Z.eq_dec c 92) as [->|N4].
  - destruct (NL_step s (pos + 1) ltac:(lia)) as [T1 T2].
    apply IH in H; [|lia]. replace (pos + 1 + 1) with (pos + 2) in * by lia.
    destruct ((pos + 1 <? mx) && match char_at s (pos + 1) with Some 10 => true | _ => false end) eqn:E.
    + assert (char_at s (pos + 1) = Some 10).
      { destruct (char_at s (pos + 1)) as [d|]; [|rewrite Bool.andb_false_r in E; discriminate E].
        destruct (Z.eq_dec d 10) as [->|Nd]; [reflexivity|].
        exfalso. destruct d as [|q|q]; try (rewrite Bool.andb_false_r in E; discriminate E).
        do 4 (try destruct q as [q|q|]); try (rewrite Bool.andb_false_r in E; discriminate E). contradiction Nd; reflexivity. }
      specialize (T2 H0). lia.
    + lia.
  - assert (E : ref_label f s (pos + 1) mx lines = Some (Some le, lines')).
    { destruct c as [|q|q]; try exact H. do 7 (try destruct q as [q|q|]); try exact H.
      all: try (contradiction N1; reflexivity); try (contradiction N2; reflexivity);
           try (contradiction N3; reflexivity); try (contradiction N4; reflexivity). }
    apply IH in E; [|lia]. lia.
Qed.

(* ---- skip_ws_nl ---- *)
Lemma skip_ws_nl_lf : forall fuel s pos mx lines p' lines',
  skip_ws_nl fuel s pos mx lines = (p', lines') -> 0 <= pos ->
  pos <= p' /\ lines' + NL s p' <= lines + NL s pos /\ lines <= lines'.
Proof.
  induction fuel as [|f IH]; intros s pos mx lines p' lines' H Hp; cbn [skip_ws_nl] in H; [injection H as <- <-; lia|].
  destruct (negb (pos <? mx)); [injection H as <- <-; lia|].
  destruct (NL_step s pos Hp) as [S1 S2].
  destruct (char_at s pos) as [c|] eqn:Ec; [|injection H as <- <-; lia].
  destruct (Z.eq_dec c 10) as [->|N3]; [apply IH in H; [|lia]; specialize (S2 eq_refl); lia|].
  assert (E : (if is_space c then skip_ws_nl f s (pos + 1) mx lines else (pos, lines)) = (p', lines')).
  { destruct c as [|q|q]; try exact H. do 4 (try destruct q as [q|q|]); try exact H. contradiction N3; reflexivity. }
  destruct (is_space c); [apply IH in E; [|lia]; lia | injection E as <- <-; lia].
Qed.

Lemma skip_sp_ge : forall fuel s pos mx, pos <= skip_sp fuel s pos mx.
Proof.
  induction fuel as [|f IH]; intros s pos mx; cbn [skip_sp]; [lia|].
  destruct (negb (pos <? mx)); [lia|]. destruct (char_at s pos) as [c|]; [|lia].
  destruct (is_space c); [specialize (IH s (pos + 1) mx); lia | lia].
Qed.

(* ---- link title ---- *)
Lemma title_loop_lf : forall fuel s start pos mx marker lines,
  0 <= pos -> l_ok (title_loop fuel s start pos mx marker lines) = true ->
  pos <= l_pos (title_loop fuel s start pos mx marker lines)
  /\ l_lines (title_loop fuel s start pos mx marker lines) + NL s (l_pos (title_loop fuel s start pos mx marker lines))
     <= lines + NL s pos
  /\ lines <= l_lines (title_loop fuel s start pos mx marker lines).
Proof.
  induction fuel as [|f IH]; intros s start pos mx marker lines Hp H; cbn [title_loop] in *; [discriminate H|].
  destruct (negb (pos <? mx)); [discriminate H|].
  destruct (NL_step s pos Hp) as [S1 S2].
  destruct (char_at s pos) as [c|] eqn:Ec.
  2:{ specialize (IH s start (pos + 1) mx marker lines ltac:(lia) H). lia. }
  destruct (c =? marker); [cbn [l_pos l_lines]; lia|].
  destruct ((c =? 40) && (marker =? 41)); [discriminate H|].
  destruct (c =? 10) eqn:E10.
  { assert (c = 10) by lia. subst c. specialize (S2 eq_refl).
    specialize (IH s start (pos + 1) mx marker (lines + 1) ltac:(lia) H). lia. }
  destruct ((c =? 92) && (pos + 1 <? mx)).
  - destruct (NL_step s (pos + 1) ltac:(lia)) as [T1 T2]. replace (pos + 1 + 1) with (pos + 2) in * by lia.
    match type of H with l_ok (title_loop f s start (pos + 2) mx marker ?L) = true =>
      specialize (IH s start (pos + 2) mx marker L ltac:(lia) H); set (LL := L) in * end.
    assert (LL + NL s (pos + 2) <= lines + NL s (pos + 1) /\ lines <= LL).
    { unfold LL. destruct (char_at s (pos + 1)) as [d|]; [|lia].
      destruct (Z.eq_dec d 10) as [->|Nd]; [specialize (T2 eq_refl); lia|].
      assert (E : match d with 10 => lines + 1 | _ => lines end = lines).
      { destruct d as [|q|q]; try reflexivity. do 4 (try destruct q as [q|q|]); try reflexivity. contradiction Nd; reflexivity. }
      rewrite E. lia. }
    lia.
  - specialize (IH s start (pos + 1) mx marker lines ltac:(lia) H). lia.
Qed.

Lemma parse_link_title_lf s pos mx : 0 <= pos -> l_ok (parse_link_title s pos mx) = true ->
  pos <= l_pos (parse_link_title s pos mx)
  /\ l_lines (parse_link_title s pos mx) + NL s (l_pos (parse_link_title s pos mx)) <= NL s pos
  /\ 0 <= l_lines (parse_link_title s pos mx).
Proof.
  unfold parse_link_title. intros Hp H.
  destruct (mx <=? pos); [discriminate H|].
  destruct (char_at s pos) as [m|]; [|discriminate H].
  destruct ((m =? 34) || (m =? 39) || (m =? 40)); [|discriminate H].
  destruct (title_loop_lf (S (length s)) s pos (pos + 1) mx _ 0 ltac:(lia) H) as (A & B & C).
  destruct (NL_step s pos Hp) as [S1 _]. lia.
Qed.

(* ---- link destination ---- *)
Lemma dest_angle_ge : forall fuel s start pos mx, 0 <= pos ->
  l_ok (dest_angle fuel s start pos mx) = true ->
  pos <= l_pos (dest_angle fuel s start pos mx) /\ l_lines (dest_angle fuel s start pos mx) = 0.
Proof.
  induction fuel as [|f IH]; intros s start pos mx Hp H; cbn [dest_angle] in *; [discriminate H|].
  destruct (negb (pos <? mx)); [discriminate H|].
  destruct (char_at s pos) as [c|].
  2:{ specialize (IH s start (pos + 1) mx ltac:(lia) H). lia. }
  destruct (Z.eq_dec c 10) as [->|N1]; [discriminate H|].
  destruct (Z.eq_dec c 60) as [->|N2]; [discriminate H|].
  destruct (Z.eq_dec c 62) as [->|N3]; [cbn [l_pos l_lines]; lia|].
  destruct (Z.eq_dec c 92) as [->|N4].
  - destruct (pos + 1 <? mx).
    + specialize (IH s start (pos + 2) mx ltac:(lia) H). lia.
    + specialize (IH s start (pos + 1) mx ltac:(lia) H). lia.
  - assert (E : forall A (a b c0 d e : A),
        match c with 10 => a | 60 => b | 62 => c0 | 92 => d | _ => e end = e).
    { intros A a b c0 d e. destruct c as [|q|q]; try reflexivity. do 7 (try destruct q as [q|q|]); try reflexivity.
      all: try (contradiction N1; reflexivity); try (contradiction N2; reflexivity);
           try (contradiction N3; reflexivity); try (contradiction N4; reflexivity). }
    rewrite E in *. specialize (IH s start (pos + 1) mx ltac:(lia) H). lia.
Qed.

Lemma dest_bare_ge : forall fuel s pos mx level p l, 0 <= pos ->
  dest_bare fuel s pos mx level = Some (p, l) -> pos <= p.
Proof.
  induction fuel as [|f IH]; intros s pos mx level p l Hp H; cbn [dest_bare] in H; [injection H as <- <-; lia|].
  destruct (negb (pos <? mx)); [injection H as <- <-; lia|].
  destruct (char_at s pos) as [code|]; [|injection H as <- <-; lia].
  destruct ((code =? 32) || (code <? 32) || (code =? 127)); [injection H as <- <-; lia|].
  destruct ((code =? 92) && (pos + 1 <? mx)).
  - destruct (char_at s (pos + 1)) as [d|]; [|apply IH in H; lia].
    destruct (Z.eq_dec d 32) as [->|Nd]; [injection H as <- <-; lia|].
    assert (E : dest_bare f s (pos + 2) mx level = Some (p, l)).
    { destruct d as [|q|q]; try exact H. do 6 (try destruct q as [q|q|]); try exact H. contradiction Nd; reflexivity. }
    apply IH in E; lia.
  - destruct (code =? 40).
    + destruct (32 <? level + 1); [discriminate H|]. apply IH in H; lia.
    + destruct (code =? 41).
      * destruct (level =? 0); [injection H as <- <-; lia|]. apply IH in H; lia.
      * apply IH in H; lia.
Qed.

Lemma parse_link_destination_ge s pos mx : 0 <= pos -> l_ok (parse_link_destination s pos mx) = true ->
  pos <= l_pos (parse_link_destination s pos mx) /\ l_lines (parse_link_destination s pos mx) = 0.
Proof.
  unfold parse_link_destination. intros Hp H.
  assert (B : l_ok (match dest_bare (S (length s)) s pos mx 0 with
                    | None => lfail
                    | Some (p, level) => if p =? pos then lfail else if negb (level =? 0) then lfail
                                         else mkL true p 0 (unescape_all (slice s pos p)) end) = true ->
              pos <= l_pos (match dest_bare (S (length s)) s pos mx 0 with
                    | None => lfail
                    | Some (p, level) => if p =? pos then lfail else if negb (level =? 0) then lfail
                                         else mkL true p 0 (unescape_all (slice s pos p)) end)
              /\ l_lines (match dest_bare (S (length s)) s pos mx 0 with
                    | None => lfail
                    | Some (p, level) => if p =? pos then lfail else if negb (level =? 0) then lfail
                                         else mkL true p 0 (unescape_all (slice s pos p)) end) = 0).
  { destruct (dest_bare (S (length s)) s pos mx 0) as [[p level]|] eqn:DB; [|discriminate].
    apply dest_bare_ge in DB; [|exact Hp].
    destruct (p =? pos); [discriminate|]. destruct (negb (level =? 0)); [discriminate|]. cbn [l_pos l_lines]. lia. }
  destruct (char_at s pos) as [c|]; [|exact (B H)].
  destruct (Z.eq_dec c 60) as [->|N].
  - destruct (dest_angle_ge (S (length s)) s pos (pos + 1) mx ltac:(lia) H). lia.
  - assert (E : forall A (a b : A), match c with 60 => a | _ => b end = b).
    { intros A a b. destruct c as [|q|q]; try reflexivity. do 6 (try destruct q as [q|q|]); try reflexivity. contradiction N; reflexivity. }
    rewrite E in *. exact (B H).
Qed.

(* ---- line feeds in slices ---- *)
Lemma c10_firstn_skipn : forall (k n : nat) (s : str),
  (forall i, (n <= i < n + k)%nat -> nth_error s i <> Some 10) -> c10 (firstn k (skipn n s)) = 0.
Proof.
  induction k as [|k IH]; intros n s H; [reflexivity|].
  destruct (nth_error s n) as [c|] eqn:E.
  - rewrite (skipn_cons_nth s n c E). cbn [firstn c10]. rewrite IH by (intros i Hi; apply H; lia).
    assert (c <> 10) by (intros ->; apply (H n); [lia | exact E]).
    destruct (c =? 10) eqn:X; lia.
  - apply nth_error_None in E. rewrite skipn_all2 by lia. reflexivity.
Qed.

Lemma c10_firstn_S : forall (k : nat) (l : str), c10 (firstn (S k) l) <= c10 (firstn k l) + 1.
Proof.
  induction k as [|k IH]; intros l.
  - destruct l as [|c l]; cbn; [lia|]. destruct (c =? 10); lia.
  - destruct l as [|c l]; [cbn; lia|]. specialize (IH l). cbn [firstn c10] in *. lia.
Qed.

Lemma c10_rep32 k : c10 (rep 32 k) = 0.
Proof. unfold rep. induction (Z.to_nat k) as [|n IH]; [reflexivity|]. cbn [repeat_z c10]. rewrite IH. reflexivity. Qed.

(* no line feed in [a, e) : the slice [a, e) has none, the slice [a, e+1) at most one *)
Lemma c10_slice_free (s : str) a e : 0 <= a -> 0 <= e ->
  (forall p, a <= p < e -> py_idx s p <> Ok 10) ->
  c10 (slice s a e) = 0 /\ c10 (slice s a (e + 1)) <= 1.
Proof.
  intros Ha He H. pose proof (len_nonneg s) as Ln.
  rewrite !slice_nonneg by lia.
  assert (R : Z.min (e + 1) (len s) = Z.min e (len s) \/ Z.min (e + 1) (len s) = Z.min e (len s) + 1) by lia.
  assert (HA : a <= Z.min a (len s) \/ Z.min a (len s) = len s) by lia.
  assert (HE : Z.min e (len s) <= e) by lia.
  assert (HA0 : 0 <= Z.min a (len s)) by lia.
  remember (Z.min a (len s)) as A. remember (Z.min e (len s)) as E0. remember (Z.min (e + 1) (len s)) as E1.
  clear HeqE1 HeqE0.
  assert (G : forall (k : nat), Z.of_nat k <= E0 - A -> c10 (firstn k (skipn (Z.to_nat A) s)) = 0).
  { intros k Hk. apply c10_firstn_skipn. intros i Hi E.
    assert (Z.of_nat i < len s).
    { assert (i < length s)%nat by (apply nth_error_Some; congruence). unfold len. lia. }
    apply (H (Z.of_nat i)); [lia|]. apply py_idx_nth; [lia|]. rewrite Nat2Z.id. exact E. }
  split.
  - destruct (E0 <=? A) eqn:X; [reflexivity|]. apply G. lia.
  - destruct (E1 <=? A) eqn:X; [cbn; lia|].
    destruct R as [R|R]; rewrite R.
    + rewrite G by lia. lia.
    + replace (Z.to_nat (E0 + 1 - A)) with (S (Z.to_nat (E0 - A))) by lia.
      pose proof (c10_firstn_S (Z.to_nat (E0 - A)) (skipn (Z.to_nat A) s)) as F.
      rewrite (G (Z.to_nat (E0 - A))) in F by lia. exact F.
Qed.

(* stripping never adds line feeds *)
Lemma c10_lstrip p : forall s, c10 (lstrip_by p s) <= c10 s.
Proof. induction s as [|c s IH]; cbn [lstrip_by c10]; [lia|]. destruct (p c); [destruct (c =? 10); lia | cbn [c10]; lia]. Qed.
Lemma c10_rev s : c10 (rev s) = c10 s.
Proof. induction s as [|c s IH]; cbn [rev c10]; [reflexivity|]. rewrite c10_app. cbn [c10]. lia. Qed.
Lemma c10_strip p s : c10 (strip_by p s) <= c10 s.
Proof.
  unfold strip_by, rstrip_by. rewrite c10_rev.
  pose proof (c10_lstrip p (rev (lstrip_by p s))). rewrite c10_rev in H. pose proof (c10_lstrip p s). lia.
Qed.

(* the line counters of the reference rule *)
Lemma ref_lines_bound s fuel mx labelEnd lines0 p1 lines1 p2 lines2 :
  ref_label fuel s 1 mx 0 = Some (Some labelEnd, lines0) ->
  skip_ws_nl fuel s (labelEnd + 2) mx lines0 = (p1, lines1) ->
  l_ok (parse_link_destination s p1 mx) = true ->
  skip_ws_nl fuel s (l_pos (parse_link_destination s p1 mx)) mx (lines1 + l_lines (parse_link_destination s p1 mx)) = (p2, lines2) ->
  (0 <= lines1 + l_lines (parse_link_destination s p1 mx) <= c10 s)
  /\ (l_ok (parse_link_title s p2 mx) = true -> 0 <= lines2 + l_lines (parse_link_title s p2 mx) <= c10 s).
Proof.
  intros RL W1 RO W2.
  apply ref_label_lf in RL; [|lia]. destruct RL as (R1 & R2 & R3).
  apply skip_ws_nl_lf in W1; [|lia]. destruct W1 as (A1 & A2 & A3).
  destruct (parse_link_destination_ge s p1 mx ltac:(lia) RO) as [D1 D2].
  apply skip_ws_nl_lf in W2; [|lia]. destruct W2 as (B1 & B2 & B3).
  pose proof (NL_le s labelEnd (labelEnd + 2) ltac:(lia) ltac:(lia)).
  pose proof (NL_le s p1 (l_pos (parse_link_destination s p1 mx)) ltac:(lia) ltac:(lia)).
  pose proof (NL_total s 1). pose proof (NL_nonneg s (l_pos (parse_link_destination s p1 mx))). pose proof (NL_nonneg s p2).
  split; [lia|]. intros TO.
  destruct (parse_link_title_lf s p2 mx ltac:(lia) TO) as (C1 & C2 & C3).
  pose proof (NL_nonneg s (l_pos (parse_link_title s p2 mx))). lia.
Qed.
