(* Index / slice facts on [str], used by the block- and inline-level lemmas. *)
From MD Require Import Base.Py Base.Str.
From Coq Require Import ZifyBool.
Local Arguments Z.eqb : simpl never.
Local Arguments Z.ltb : simpl never.
Local Arguments Z.leb : simpl never.

Lemma skipn_cons_nth {A} (l : list A) k x : nth_error l k = Some x -> skipn k l = x :: skipn (S k) l.
Proof.
  revert l; induction k as [|k IH]; intros [|y l] H; cbn in *; try discriminate.
  - injection H as ->. reflexivity.
  - apply IH, H.
Qed.

Lemma slice_nonneg {A} (s : list A) a b : 0 <= a -> 0 <= b ->
  slice s a b = if Z.min b (len s) <=? Z.min a (len s) then []
                else firstn (Z.to_nat (Z.min b (len s) - Z.min a (len s))) (skipn (Z.to_nat (Z.min a (len s))) s).
Proof.
  intros Ha Hb. unfold slice, clamp.
  assert (E1 : (a <? 0) = false) by lia. assert (E2 : (b <? 0) = false) by lia. rewrite E1, E2. reflexivity.
Qed.

Lemma py_idx_get (s : str) pos c : 0 <= pos -> py_idx s pos = Ok c -> nth_error s (Z.to_nat pos) = Some c /\ pos < len s.
Proof.
  intros Hp H. unfold py_idx, get in H. assert (E : (pos <? 0) = false) by lia. cbv zeta in H. rewrite !E in H.
  destruct (nth_error s (Z.to_nat pos)) eqn:N; [|discriminate]. injection H as ->. split; [reflexivity|].
  assert (Z.to_nat pos < length s)%nat by (apply nth_error_Some; congruence). unfold len. lia.
Qed.

Lemma slice_cons (s : str) pos m c :
  0 <= pos -> pos < m -> m <= len s -> py_idx s pos = Ok c -> slice s pos m = c :: slice s (pos + 1) m.
Proof.
  intros Hp Hm Hl H. destruct (py_idx_get s pos c Hp H) as [N L].
  rewrite !slice_nonneg by lia. rewrite !Z.min_l by lia.
  assert (E1 : (m <=? pos) = false) by lia. rewrite E1.
  rewrite (skipn_cons_nth s _ c N).
  replace (Z.to_nat (m - pos)) with (S (Z.to_nat (m - (pos + 1)))) by lia. cbn [firstn]. f_equal.
  replace (Z.to_nat (pos + 1)) with (S (Z.to_nat pos)) by lia.
  destruct (m <=? pos + 1) eqn:E2; [|reflexivity].
  replace (Z.to_nat (m - (pos + 1))) with O by lia. reflexivity.
Qed.

Lemma slice_empty {A} (s : list A) a b : 0 <= b -> b <= a -> slice s a b = [].
Proof.
  intros Hb Ha. rewrite slice_nonneg by lia.
  assert (E : (Z.min b (len s) <=? Z.min a (len s)) = true) by lia. rewrite E. reflexivity.
Qed.
