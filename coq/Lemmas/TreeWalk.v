(* C15: the depth-first walk of a SyntaxTreeNode built from a token stream visits the tokens in stream order
   (closing tokens, which have no node of their own, left out; the children of an inline / image token directly after it),
   for every stream whose tokens have nesting -1 / 0 / +1 and carry children only when unnested - and every stream the
   block parser returns is one. *)
From MD Require Import Base.Py Base.Str Base.Opt Model.Token Model.StateBlock Model.Tree Model.Block
     Lemmas.TreeLemmas Lemmas.BlockWF Lemmas.BlockKinds Lemmas.TreeBuild.
From Coq Require Import Lia.

Local Arguments Z.eqb : simpl never.

Fixpoint wfw (t : token) : Prop :=
  (tnesting t = -1 \/ tnesting t = 0 \/ tnesting t = 1)
  /\ (tnesting t <> 0 -> childless t)
  /\ match tchildren t with
     | Some l => (fix go (l : list token) : Prop := match l with [] => True | x :: l' => wfw x /\ go l' end) l
     | None => True
     end.

Lemma wfw_go l :
  (fix go (l : list token) : Prop := match l with [] => True | x :: l' => wfw x /\ go l' end) l <-> Forall wfw l.
Proof.
  induction l as [|x l IH]; [split; auto|]. split.
  - intros [A B]. constructor; [exact A | apply IH, B].
  - intros F. inversion F as [|? ? A B]. split; [exact A | apply IH, B].
Qed.

Lemma wfw_unfold t : wfw t <->
  (tnesting t = -1 \/ tnesting t = 0 \/ tnesting t = 1) /\ (tnesting t <> 0 -> childless t)
  /\ match tchildren t with Some l => Forall wfw l | None => True end.
Proof.
  destruct t as [ty tg ns at_ mp lv ch ct mk inf mt bl hd]. cbn [wfw tnesting tchildren].
  destruct ch as [l|]; [rewrite wfw_go|]; reflexivity.
Qed.

Lemma walk_go ch :
  (fix go (l : list node) : list token := match l with [] => [] | x :: l' => walk_tokens x ++ go l' end) ch
  = flat_map walk_tokens ch.
Proof. induction ch as [|x l IH]; [reflexivity|]. cbn [flat_map]. rewrite <- IH. reflexivity. Qed.

Lemma stream_go l :
  (fix go (l : list token) : list token := match l with [] => [] | x :: l' => stream_walk x ++ go l' end) l
  = stream_walk_list l.
Proof. unfold stream_walk_list. induction l as [|x l IH]; [reflexivity|]. cbn [flat_map]. rewrite <- IH. reflexivity. Qed.

Lemma stream_walk_unfold t : stream_walk t =
  if tnesting t =? -1 then [] else t :: match tchildren t with Some l => stream_walk_list l | None => [] end.
Proof.
  destruct t as [ty tg ns at_ mp lv ch ct mk inf mt bl hd]. cbn [stream_walk tnesting tchildren].
  destruct ch as [l|]; [rewrite stream_go|]; reflexivity.
Qed.

Lemma stream_walk_list_app a b : stream_walk_list (a ++ b) = stream_walk_list a ++ stream_walk_list b.
Proof. unfold stream_walk_list. apply flat_map_app. Qed.

(* the group scan stops on a closing token *)
Lemma take_group_last l : forall k acc g r, 0 < k -> Forall (fun t => -1 <= tnesting t) l ->
  take_group l k acc = Some (g, r) -> exists g0 c, g = g0 ++ [c] /\ tnesting c < 0.
Proof.
  induction l as [|t l IH]; intros k acc g r Hk F H; cbn [take_group] in H.
  { assert (E : (k =? 0) = false) by lia. rewrite E in H. discriminate. }
  assert (E : (k =? 0) = false) by lia. rewrite E in H.
  inversion F as [|? ? Ft Fl]; subst.
  destruct (Z.eq_dec (k + tnesting t) 0) as [Z0|NZ].
  - destruct l as [|u l]; cbn [take_group] in H; rewrite Z0 in H; change (0 =? 0) with true in H; cbn iota in H;
      injection H as <- <-; exists (rev acc), t; cbn [rev]; (split; [reflexivity | lia]).
  - apply (IH (k + tnesting t) (t :: acc) g r); [lia | exact Fl | exact H].
Qed.

Theorem build_children_walk fuel : forall ts kids, Forall wfw ts ->
  build_children fuel ts = Ok kids -> flat_map walk_tokens kids = stream_walk_list ts.
Proof.
  induction fuel as [|fuel IH]; intros ts kids W H; [discriminate|]. cbn [build_children] in H.
  destruct ts as [|t rest]; [injection H as <-; reflexivity|].
  inversion W as [|? ? Wt Wr]; subst. apply wfw_unfold in Wt. destruct Wt as (Wn & Wc & Wk).
  change (stream_walk_list (t :: rest)) with (stream_walk t ++ stream_walk_list rest). rewrite stream_walk_unfold.
  destruct (tnesting t =? 0) eqn:E0.
  - assert (N1 : (tnesting t =? -1) = false) by lia. rewrite N1.
    destruct (match tchildren t with Some (x :: l) => build_children fuel (x :: l) | _ => Ok [] end) as [k1|e|] eqn:BK;
      cbn [bind] in H; try discriminate.
    destruct (build_children fuel rest) as [sibs|e|] eqn:BS; cbn [bind] in H; try discriminate.
    injection H as <-. cbn [flat_map walk_tokens app]. rewrite walk_go. rewrite (IH _ _ Wr BS). f_equal. f_equal.
    destruct (tchildren t) as [[|x l]|].
    + injection BK as <-. reflexivity.
    + apply (IH _ _ Wk BK).
    + injection BK as <-. reflexivity.
  - destruct (tnesting t =? 1) eqn:E1; cbn [negb] in H; [|discriminate].
    assert (N1 : (tnesting t =? -1) = false) by lia. rewrite N1.
    destruct (take_group rest 1 [t]) as [[grp rest']|] eqn:TG; [|discriminate].
    destruct (build_children fuel (middle grp)) as [k1|e|] eqn:BK; cbn [bind] in H; try discriminate.
    destruct (build_children fuel rest') as [sibs|e|] eqn:BS; cbn [bind] in H; try discriminate.
    injection H as <-.
    pose proof (take_group_spec _ _ _ _ _ TG) as SP. cbn [rev app] in SP.
    assert (Fge : Forall (fun t => -1 <= tnesting t) rest).
    { eapply Forall_impl; [|exact Wr]. intros a Wa. apply wfw_unfold in Wa. destruct Wa as (Wa & _). lia. }
    destruct (take_group_last rest 1 [t] grp rest' ltac:(lia) Fge TG) as (g0 & c & Eg & Hc).
    pose proof (take_group_longer rest 1 [t] grp rest' ltac:(lia) TG) as LN. cbn [length] in LN.
    subst grp. destruct g0 as [|g1 g0]; [cbn [app length] in LN; lia|].
    cbn [app] in SP, BK. injection SP as E1' SP. subst g1.
    assert (Em : middle (t :: g0 ++ [c]) = g0) by apply middle_wrap.
    rewrite Em in BK.
    (* rest = g0 ++ [c] ++ rest' *)
    assert (Wall : Forall wfw (g0 ++ [c] ++ rest')) by (rewrite app_assoc, SP; exact Wr).
    apply Forall_app in Wall. destruct Wall as (Wg & Wcr). inversion Wcr as [|? ? Wc' Wr']; subst.
    apply wfw_unfold in Wc'. destruct Wc' as (Wcn & _).
    assert (Cn : tnesting c = -1) by lia.
    cbn [flat_map walk_tokens]. rewrite walk_go. rewrite (IH _ _ Wg BK), (IH _ _ Wr' BS).
    assert (Ch : match tchildren t with Some l => stream_walk_list l | None => [] end = []).
    { destruct (Wc ltac:(lia)) as [Cc|Cc]; rewrite Cc; reflexivity. }
    rewrite Ch. rewrite !stream_walk_list_app.
    change (stream_walk_list [c]) with (stream_walk c ++ []). rewrite stream_walk_unfold, Cn. change (-1 =? -1) with true. cbv iota.
    cbn [app]. rewrite app_nil_r. reflexivity.
Qed.

(* C15: walk() of the built tree follows stream order *)
Theorem tree_walk_stream_order ts n : Forall wfw ts -> build ts = Ok n -> walk_tokens n = stream_walk_list ts.
Proof.
  unfold build. intros W. destruct (build_children (S (tsize_list ts)) ts) as [kids|e|] eqn:B; cbn [bind]; intros H; try discriminate.
  injection H as <-. cbn [walk_tokens]. rewrite walk_go. eapply build_children_walk; eassumption.
Qed.

(* balanced streams of childless tokens are such streams; without children the stream order is the stream less its closers *)
Lemma bal_wfw d ts : bal d ts -> Forall childless ts -> Forall wfw ts.
Proof.
  intros B. induction B as [d | d t rest Hn _ _ IH | d o inn c rest Ho _ _ II Hc _ _ IR]; intros F.
  - constructor.
  - inversion F as [|? ? Ft Fr]; subst. constructor; [|apply IH, Fr].
    apply wfw_unfold. split; [lia|]. split; [intros; exact Ft|]. destruct Ft as [E|E]; rewrite E; [exact I | constructor].
  - inversion F as [|? ? Fo Fr]; subst. apply Forall_app in Fr. destruct Fr as (Fi & Fr). inversion Fr as [|? ? Fc Fr']; subst.
    constructor.
    + apply wfw_unfold. split; [lia|]. split; [intros; exact Fo|]. destruct Fo as [E|E]; rewrite E; [exact I | constructor].
    + apply Forall_app. split; [apply II, Fi|]. constructor; [|apply IR, Fr'].
      apply wfw_unfold. split; [lia|]. split; [intros; exact Fc|]. destruct Fc as [E|E]; rewrite E; [exact I | constructor].
Qed.

Lemma stream_walk_childless ts : Forall childless ts ->
  stream_walk_list ts = filter (fun t => negb (tnesting t =? -1)) ts.
Proof.
  induction 1 as [|t l Ht _ IH]; [reflexivity|].
  change (stream_walk_list (t :: l)) with (stream_walk t ++ stream_walk_list l). rewrite stream_walk_unfold, IH. cbn [filter].
  destruct (tnesting t =? -1); cbn [negb app]; [reflexivity|]. destruct Ht as [E|E]; rewrite E; reflexivity.
Qed.

(* the tree of what the block parser returns: its walk is the stream without the closing tokens, in order *)
Theorem block_parse_tree_walk cfg rf cf (CS : chains_sub cfg) src env st :
  block_parse cfg rf cf src env [] = Ok st ->
  exists n, build (b_tokens st) = Ok n
         /\ walk_tokens n = filter (fun t => negb (tnesting t =? -1)) (b_tokens st).
Proof.
  intros H.
  destruct (block_parse_tree cfg rf cf CS src env st H) as (n & Bn & _). exists n. split; [exact Bn|].
  destruct (block_parse_balanced cfg rf cf src env [] st H) as (seg & T & B & _).
  destruct (block_parse_kinds cfg rf cf CS src env [] st H) as (seg' & T' & K).
  cbn [app] in T, T'. rewrite T in T'. subst seg'.
  assert (CL : Forall childless (b_tokens st)).
  { rewrite T. eapply Forall_impl; [|exact K].
    intros t (m & _ & P). unfold childless. unfold P_rule in P.
    repeat match type of P with (if ?c then _ else _) => destruct c end;
      unfold P_table, P_code, P_fence, P_blockquote, P_hr, P_list, P_reference, P_html, P_heading, P_paragraph in P;
      try contradiction;
      try (match goal with H : c_html _ = true /\ _ |- _ => destruct H as [_ H] end);
      repeat match goal with H : _ \/ _ |- _ => destruct H as [H|H] end;
      try (match goal with H : exists _, _ |- _ => destruct H as (l & Hl & [H|H]) end);
      match goal with H : is _ _ _ |- _ => destruct H as (_ & _ & C & _); exact C end. }
  rewrite <- (stream_walk_childless _ CL). apply tree_walk_stream_order; [|exact Bn].
  rewrite T in *. eapply bal_wfw; eassumption.
Qed.

(* not vacuous: an image-like token with nested children between an open / close pair *)
Definition ex_mk (ty : str) (ns : Z) (ch : option (list token)) : token := Tok ty [] ns [] None 0 ch [] [] [] [] false false.
Definition ex_txt := ex_mk [116] 0 None.
Definition ex_img := ex_mk [105] 0 (Some [ex_txt; ex_mk [105] 0 (Some [ex_txt])]).
Definition ex_ts := [ex_mk [111] 1 None; ex_img; ex_txt; ex_mk [99] (-1) None; ex_txt].

Lemma ex_leaf_wfw ty ns : (ns = -1 \/ ns = 0 \/ ns = 1) -> wfw (ex_mk ty ns None).
Proof. intros H. apply wfw_unfold. cbn [ex_mk tnesting tchildren]. split; [exact H|]. split; [intros _; left; reflexivity | exact I]. Qed.

Example walk_example :
  Forall wfw ex_ts /\ exists n, build ex_ts = Ok n /\ walk_tokens n = [ex_mk [111] 1 None; ex_img; ex_txt; ex_mk [105] 0 (Some [ex_txt]); ex_txt; ex_txt; ex_txt].
Proof.
  split.
  - assert (T : wfw ex_txt) by (apply ex_leaf_wfw; lia).
    assert (I1 : wfw (ex_mk [105] 0 (Some [ex_txt]))).
    { apply wfw_unfold. cbn [ex_mk tnesting tchildren]. split; [lia|]. split; [intros N; exfalso; apply N; reflexivity|]. constructor; [exact T | constructor]. }
    assert (I2 : wfw ex_img).
    { apply wfw_unfold. cbn [ex_img ex_mk tnesting tchildren]. split; [lia|]. split; [intros N; exfalso; apply N; reflexivity|].
      constructor; [exact T|]. constructor; [exact I1 | constructor]. }
    unfold ex_ts. constructor; [apply ex_leaf_wfw; lia|]. constructor; [exact I2|]. constructor; [exact T|].
    constructor; [apply ex_leaf_wfw; lia|]. constructor; [exact T | constructor].
  - eexists. split; [vm_compute; reflexivity | vm_compute; reflexivity].
Qed.
