(* C14: reset_rules restores the rule set in force on entry, on every exit path
   of the body (normal, raising, nested), for any body of management calls. *)
From MD Require Import Base.Py Base.Opt Model.Ruler Model.Instance
     Lemmas.RulerCoherent Lemmas.RulerSets Lemmas.InstanceLemmas.

Local Arguments restore : simpl never.
Local Arguments md_toggle : simpl never.
Local Arguments active4 : simpl never.
Local Arguments configure : simpl never.

Definition run_body (fin : bool) (r : option Z) (body : list mop) (i : inst) : inst * res mout :=
  (fix go (ops : list mop) (i : inst) {struct ops} : inst * res mout :=
     match ops with
     | [] => (i, match r with Some n => Raise (UserExn n) | None => Ok MONone end)
     | o :: ops' => match mstep fin i o with
                    | (i', Ok _) => go ops' i'
                    | bad => bad end
     end) body i.

Lemma run_body_nil fin r i :
  run_body fin r [] i = (i, match r with Some n => Raise (UserExn n) | None => Ok MONone end).
Proof. reflexivity. Qed.

Lemma run_body_cons fin r o ops i :
  run_body fin r (o :: ops) i =
  match mstep fin i o with (i', Ok _) => run_body fin r ops i' | bad => bad end.
Proof. reflexivity. Qed.

(* with try/finally the final instance is always [restore snapshot (state after body)] *)
Lemma reset_fst body r i :
  fst (mstep true i (MReset body r)) = fst (restore (active4 i) (fst (run_body true r body i))).
Proof.
  change (mstep true i (MReset body r)) with
    (match run_body true r body i with
     | (i', Ok _) => restore (active4 i) i'
     | (i', bad) => match restore (active4 i) i' with
                    | (i'', Ok _) => (i'', bad)
                    | other => other end
     end).
  destruct (run_body true r body i) as [i' [?|?|]]; simpl; try reflexivity;
    destruct (restore (active4 i) i') as [i'' [?|?|]]; reflexivity.
Qed.

(* ---- registered names only grow ------------------------------------------- *)

Lemma In_upd_nth_names {F} (rs : list (rule F)) k (f : rule F -> rule F) :
  (forall x, rname (f x) = rname x) -> map rname (upd_nth k f rs) = map rname rs.
Proof.
  intros Hf. revert k; induction rs as [|x rs IH]; intros [|k]; simpl; try reflexivity.
  - rewrite Hf; reflexivity.
  - rewrite IH; reflexivity.
Qed.

Lemma In_insert_at {F} (x y : rule F) k (l : list (rule F)) : In y l -> In y (insert_at k x l).
Proof.
  revert k; induction l as [|z l IH]; intros [|k] H; simpl in *; try tauto.
  destruct H as [->|H]; [left; reflexivity | right; apply IH, H].
Qed.

Lemma toggle_loop_names {F} v ign names : forall (rs : list (rule F)) acc,
  map rname (fst (toggle_loop v names ign rs acc)) = map rname rs.
Proof.
  induction names as [|n ns IH]; intros rs acc; simpl; [reflexivity|].
  destruct (find rs n); [|destruct ign; [apply IH | reflexivity]].
  rewrite IH. apply In_upd_nth_names. reflexivity.
Qed.

Lemma toggle_names {F} v names ign (r : ruler F) : all_names (fst (toggle v names ign r)) = all_names r.
Proof.
  unfold toggle, all_names. pose proof (toggle_loop_names v ign names (rules r) []) as H.
  destruct (toggle_loop v names ign (rules r) []); simpl in *. exact H.
Qed.

Lemma step_names_mono {F} (r : ruler F) (o : op F) n :
  In n (all_names r) -> In n (all_names (fst (step r o))).
Proof.
  unfold all_names. intros H. destruct o; simpl; try exact H.
  - destruct (find (rules r) name); simpl; [|exact H].
    rewrite In_upd_nth_names; [exact H | reflexivity].
  - destruct (find (rules r) ref); simpl; [|exact H].
    apply in_map_iff in H. destruct H as [x [<- Hx]]. apply in_map. exact (In_insert_at _ _ n0 _ Hx).
  - destruct (find (rules r) ref); simpl; [|exact H].
    apply in_map_iff in H. destruct H as [x [<- Hx]]. apply in_map. exact (In_insert_at _ _ (S n0) _ Hx).
  - rewrite map_app. apply in_or_app; left; exact H.
  - fold (all_names (fst (toggle true names ignoreInvalid r))). rewrite toggle_names. exact H.
  - set (r0 := mkRuler (map (set_enabled false) (rules r)) (cache r)).
    fold (all_names (fst (toggle true names ignoreInvalid r0))). rewrite toggle_names.
    unfold all_names, r0; simpl. rewrite map_map. exact H.
  - fold (all_names (fst (toggle false names ignoreInvalid r))). rewrite toggle_names. exact H.
  - pose proof (get_rules_rules r chain) as E. destruct (get_rules r chain); simpl in *. rewrite E; exact H.
Qed.

Definition names_le (a b : inst) : Prop :=
  forall c n, In n (all_names (get_chain a c)) -> In n (all_names (get_chain b c)).

Lemma names_le_refl a : names_le a a. Proof. intros c n H; exact H. Qed.
Lemma names_le_trans a b c : names_le a b -> names_le b c -> names_le a c.
Proof. intros H1 H2 k n H; apply H2, H1, H. Qed.

Lemma get_set_chain_same i c r : get_chain (set_chain i c r) c = r.
Proof. destruct c as [|[p|p|]|]; try reflexivity; destruct p; reflexivity. Qed.

Definition norm (c : Z) : Z := match c with 0 => 0 | 1 => 1 | 2 => 2 | _ => 3 end.

Lemma get_chain_norm i c : get_chain i c = get_chain i (norm c).
Proof. destruct c as [|[p|p|]|]; try reflexivity; destruct p; reflexivity. Qed.

Lemma get_set_chain_other i c k r : norm c <> norm k -> get_chain (set_chain i c r) k = get_chain i k.
Proof.
  destruct c as [|[p|p|]|], k as [|[q|q|]|]; simpl; try congruence; try reflexivity;
    try (destruct p; simpl; try congruence; reflexivity);
    try (destruct q; simpl; try congruence; reflexivity);
    destruct p, q; simpl; try congruence; reflexivity.
Qed.

Lemma set_chain_names_le i c r :
  (forall n, In n (all_names (get_chain i c)) -> In n (all_names r)) -> names_le i (set_chain i c r).
Proof.
  intros H k n Hn. destruct (Z.eq_dec (norm c) (norm k)) as [E|N].
  - rewrite (get_chain_norm _ k), <- E, <- get_chain_norm, get_set_chain_same.
    apply H. rewrite (get_chain_norm _ c), E, <- get_chain_norm. exact Hn.
  - rewrite get_set_chain_other; assumption.
Qed.

Lemma md_toggle_names_le v names ign i : names_le i (fst (md_toggle v names ign i)).
Proof.
  unfold md_toggle.
  pose proof (toggle_names v names true (i_core i)) as H0.
  pose proof (toggle_names v names true (i_block i)) as H1.
  pose proof (toggle_names v names true (i_inline i)) as H2.
  pose proof (toggle_names v names true (i_inline2 i)) as H3.
  destruct (toggle v names true (i_core i)), (toggle v names true (i_block i)),
    (toggle v names true (i_inline i)), (toggle v names true (i_inline2 i)). simpl in *.
  intros c n Hn. destruct c as [|[p|p|]|]; simpl in *; try congruence; destruct p; simpl in *; congruence.
Qed.

Lemma enable_only_chain_names_le i c names : names_le i (fst (enable_only_chain i c names)).
Proof.
  unfold enable_only_chain.
  pose proof (fun n => step_names_mono (get_chain i c) (OpEnableOnly names false) n) as H.
  destruct (step (get_chain i c) (OpEnableOnly names false)). simpl in *.
  apply set_chain_names_le, H.
Qed.

Lemma configure_components_names_le comps : forall i, names_le i (fst (configure_components comps i)).
Proof.
  induction comps as [|[name [rules rules2]] rest IH]; intros i; simpl; [apply names_le_refl|].
  set (a1 := match rules with
             | Some (x :: l) => match chain_of_name name with
                                | None => (i, Raise KeyError)
                                | Some c => enable_only_chain i c (x :: l) end
             | _ => (i, Ok MONone) end).
  assert (H1 : names_le i (fst a1)).
  { subst a1. destruct rules as [[|x l]|]; simpl; try apply names_le_refl.
    destruct (chain_of_name name); simpl; [apply enable_only_chain_names_le | apply names_le_refl]. }
  destruct a1 as [i1 [o1|e1|]]; simpl in *; try exact H1.
  set (a2 := match rules2 with
             | Some (x :: l) => match chain_of_name name with
                                | None => (i1, Raise KeyError)
                                | Some 2 => enable_only_chain i1 3 (x :: l)
                                | Some _ => (i1, Raise AttributeError) end
             | _ => (i1, Ok MONone) end).
  assert (H2 : names_le i1 (fst a2)).
  { subst a2. destruct rules2 as [[|x l]|]; simpl; try apply names_le_refl.
    destruct (chain_of_name name) as [[|[p|p|]|]|]; simpl; try apply names_le_refl;
      try (destruct p; simpl; try apply names_le_refl; apply enable_only_chain_names_le). }
  destruct a2 as [i2 [o2|e2|]]; simpl in *; try (eapply names_le_trans; eassumption).
  eapply names_le_trans; [exact H1|]. eapply names_le_trans; [exact H2|]. apply IH.
Qed.

Lemma restore_names_le snap i : names_le i (fst (restore snap i)).
Proof.
  destruct snap; unfold restore; try apply names_le_refl.
  pose proof (enable_only_chain_names_le i 0 core) as H0.
  destruct (enable_only_chain i 0 core) as [x0 [m0|e0|]]; simpl in *; try exact H0.
  pose proof (enable_only_chain_names_le x0 1 block) as H1.
  destruct (enable_only_chain x0 1 block) as [x1 [m1|e1|]]; simpl in *; try (eapply names_le_trans; eassumption).
  pose proof (enable_only_chain_names_le x1 2 inline) as H2.
  destruct (enable_only_chain x1 2 inline) as [x2 [m2|e2|]]; simpl in *;
    try (eapply names_le_trans; [exact H0|]; eapply names_le_trans; eassumption).
  eapply names_le_trans; [exact H0|]. eapply names_le_trans; [exact H1|].
  eapply names_le_trans; [exact H2|]. apply enable_only_chain_names_le.
Qed.

Lemma get_chain_set_opts i o c : get_chain (set_opts i o) c = get_chain i c.
Proof. destruct c as [|[q|q|]|]; try reflexivity; destruct q; reflexivity. Qed.
Lemma get_chain_set_render i m c : get_chain (set_render i m) c = get_chain i c.
Proof. destruct c as [|[q|q|]|]; try reflexivity; destruct q; reflexivity. Qed.
Lemma names_le_set_opts i o : names_le i (set_opts i o).
Proof. intros c n H. rewrite get_chain_set_opts. exact H. Qed.
Lemma names_le_set_render i m : names_le i (set_render i m).
Proof. intros c n H. rewrite get_chain_set_render. exact H. Qed.

Lemma mstep_names_le fin (o : mop) : forall i, names_le i (fst (mstep fin i o)).
Proof.
  induction o as [n0 g0|n0 g0| c o| p u|k0 v0|o0| n f b| | | |body r HF] using mop_ind'; intros i; simpl;
    try apply names_le_refl.
  - apply md_toggle_names_le.
  - apply md_toggle_names_le.
  - pose proof (fun n => step_names_mono (get_chain i c) o n) as H.
    destruct (step (get_chain i c) o). simpl in *. apply set_chain_names_le, H.
  - unfold configure. destruct p; simpl; [|apply names_le_refl].
    eapply names_le_trans; [|apply configure_components_names_le]. apply names_le_set_opts.
  - apply names_le_set_opts.
  - apply names_le_set_opts.
  - destruct b; [apply names_le_set_render | apply names_le_refl].
  - set (go := fix go (ops : list mop) (i : inst) {struct ops} : inst * res mout :=
           match ops with
           | [] => (i, match r with Some n => Raise (UserExn n) | None => Ok MONone end)
           | o :: ops' => match mstep fin i o with
                          | (i', Ok _) => go ops' i'
                          | bad => bad end
           end).
    assert (G : forall ops x, Forall (fun o => forall i, names_le i (fst (mstep fin i o))) ops ->
                              names_le x (fst (go ops x))).
    { induction ops as [|o1 ops IHo]; intros x Hf; simpl; [apply names_le_refl|].
      inversion Hf as [|? ? Hx Hr]; subst. specialize (Hx x).
      destruct (mstep fin x o1) as [x' [?|?|]]; simpl in *; try exact Hx.
      eapply names_le_trans; [exact Hx | apply IHo, Hr]. }
    specialize (G body i HF). destruct (go body i) as [i' [?|?|]]; simpl in *.
    + eapply names_le_trans; [exact G | apply restore_names_le].
    + destruct fin; [|exact G].
      pose proof (restore_names_le (active4 i) i') as R.
      destruct (restore (active4 i) i') as [i'' [?|?|]]; simpl in *; eapply names_le_trans; eassumption.
    + destruct fin; [|exact G].
      pose proof (restore_names_le (active4 i) i') as R.
      destruct (restore (active4 i) i') as [i'' [?|?|]]; simpl in *; eapply names_le_trans; eassumption.
Qed.

Lemma run_body_names_le fin r body : forall i, names_le i (fst (run_body fin r body i)).
Proof.
  induction body as [|o ops IH]; intros i; [apply names_le_refl|].
  rewrite run_body_cons. pose proof (mstep_names_le fin o i) as H.
  destruct (mstep fin i o) as [i' [?|?|]]; simpl in *; try exact H.
  eapply names_le_trans; [exact H | apply IH].
Qed.

(* ---- enableOnly with known names: succeeds, and the active set is exactly the names ---- *)

Lemma raises_known all names :
  (forall n, In n names -> In n all) -> raises false all names = false.
Proof.
  intros H. unfold raises. simpl. apply Bool.negb_false_iff, forallb_forall.
  intros n Hn. apply mem_str_In, H, Hn.
Qed.

Lemma enable_only_known {F} (r : ruler F) names :
  NoDup (all_names r) -> (forall n, In n names -> In n (all_names r)) ->
  (exists l, snd (step r (OpEnableOnly names false)) = Ok (ONames l))
  /\ (forall n, In n (active_names (fst (step r (OpEnableOnly names false)))) <-> In n names)
  /\ all_names (fst (step r (OpEnableOnly names false))) = all_names r.
Proof.
  intros ND K. pose proof (raises_known (all_names r) names K) as NR. repeat split.
  - simpl. set (r0 := mkRuler (map (set_enabled false) (rules r)) (cache r)).
    assert (A0 : all_names r0 = all_names r) by (unfold all_names, r0; simpl; rewrite map_map; reflexivity).
    rewrite (toggle_sets true names false r0); [| rewrite A0; exact ND]. simpl.
    rewrite A0, NR. eexists; reflexivity.
  - intros H. apply (enableOnly_set names false r n ND NR) in H. tauto.
  - intros H. apply (enableOnly_set names false r n ND NR). split; [exact H | apply K, H].
  - destruct (toggle_frame r (OpEnableOnly names false) I) as [A _]. exact A.
Qed.

Lemma active_sub_all {F} (r : ruler F) n : In n (active_names r) -> In n (all_names r).
Proof.
  unfold active_names, active, all_names. intros H. apply in_map_iff in H.
  destruct H as [x [<- Hx]]. apply filter_In in Hx. apply in_map, Hx.
Qed.

Lemma enable_only_chain_known i c names :
  NoDup (all_names (get_chain i c)) -> (forall n, In n names -> In n (all_names (get_chain i c))) ->
  let i' := fst (enable_only_chain i c names) in
  snd (enable_only_chain i c names) = Ok MONone
  /\ (forall n, In n (active_names (get_chain i' c)) <-> In n names)
  /\ all_names (get_chain i' c) = all_names (get_chain i c)
  /\ (forall k, norm c <> norm k -> get_chain i' k = get_chain i k).
Proof.
  intros ND K. destruct (enable_only_known (get_chain i c) names ND K) as [[l E] [A N]].
  unfold enable_only_chain. destruct (step (get_chain i c) (OpEnableOnly names false)) as [r' x].
  simpl in *. subst x. rewrite get_set_chain_same. repeat split; try apply A; try exact N.
  intros k Hk. apply get_set_chain_other, Hk.
Qed.

Theorem restore_spec a b c d i :
  (forall k, NoDup (all_names (get_chain i k))) ->
  (forall n, In n a -> In n (all_names (get_chain i 0))) ->
  (forall n, In n b -> In n (all_names (get_chain i 1))) ->
  (forall n, In n c -> In n (all_names (get_chain i 2))) ->
  (forall n, In n d -> In n (all_names (get_chain i 3))) ->
  let i' := fst (restore (MONames4 a b c d) i) in
  snd (restore (MONames4 a b c d) i) = Ok MONone
  /\ (forall n, In n (active_names (get_chain i' 0)) <-> In n a)
  /\ (forall n, In n (active_names (get_chain i' 1)) <-> In n b)
  /\ (forall n, In n (active_names (get_chain i' 2)) <-> In n c)
  /\ (forall n, In n (active_names (get_chain i' 3)) <-> In n d).
Proof.
  intros ND Ka Kb Kc Kd. unfold restore.
  destruct (enable_only_chain_known i 0 a (ND 0) Ka) as [E0 [A0 [N0 F0]]].
  destruct (enable_only_chain i 0 a) as [x0 r0]. simpl in *. subst r0.
  assert (ND1 : NoDup (all_names (get_chain x0 1))) by (rewrite F0; [apply ND | discriminate]).
  assert (Kb1 : forall n, In n b -> In n (all_names (get_chain x0 1))) by (rewrite F0; [exact Kb | discriminate]).
  destruct (enable_only_chain_known x0 1 b ND1 Kb1) as [E1 [A1 [N1 F1]]].
  destruct (enable_only_chain x0 1 b) as [x1 r1]. simpl in *. subst r1.
  assert (ND2 : NoDup (all_names (get_chain x1 2))).
  { rewrite F1, F0; [apply ND | discriminate | discriminate]. }
  assert (Kc2 : forall n, In n c -> In n (all_names (get_chain x1 2))).
  { rewrite F1, F0; [exact Kc | discriminate | discriminate]. }
  destruct (enable_only_chain_known x1 2 c ND2 Kc2) as [E2 [A2 [N2 F2]]].
  destruct (enable_only_chain x1 2 c) as [x2 r2]. simpl in *. subst r2.
  assert (ND3 : NoDup (all_names (get_chain x2 3))).
  { rewrite F2, F1, F0; [apply ND | discriminate | discriminate | discriminate]. }
  assert (Kd3 : forall n, In n d -> In n (all_names (get_chain x2 3))).
  { rewrite F2, F1, F0; [exact Kd | discriminate | discriminate | discriminate]. }
  destruct (enable_only_chain_known x2 3 d ND3 Kd3) as [E3 [A3 [N3 F3]]].
  destruct (enable_only_chain x2 3 d) as [x3 r3]. simpl in *. subst r3.
  cbv zeta. cbn [fst snd]. split; [reflexivity|].
  assert (C0 : i_core x3 = i_core x0).
  { transitivity (i_core x2); [apply (F3 0); discriminate|].
    transitivity (i_core x1); [apply (F2 0); discriminate | apply (F1 0); discriminate]. }
  assert (C1 : i_block x3 = i_block x1).
  { transitivity (i_block x2); [apply (F3 1); discriminate | apply (F2 1); discriminate]. }
  assert (C2 : i_inline x3 = i_inline x2) by (apply (F3 2); discriminate).
  rewrite C0, C1, C2. repeat split; try apply A0; try apply A1; try apply A2; try apply A3.
Qed.

(* The statement of C14 for reset_rules: whatever the body does (any management
   calls, nested reset_rules blocks, raising at any point or not), on exit the
   active rule set of every chain is the one in force on entry.  Hypothesis:
   rule names stay unique per chain (duplicate names make enableOnly ambiguous). *)
Theorem reset_rules_restores body r i :
  let i1 := fst (run_body true r body i) in
  (forall k, NoDup (all_names (get_chain i1 k))) ->
  let i' := fst (mstep true i (MReset body r)) in
  forall k n, In n (active_names (get_chain i' k)) <-> In n (active_names (get_chain i k)).
Proof.
  intros i1 ND i' k n. subst i'. rewrite reset_fst. fold i1.
  pose proof (run_body_names_le true r body i) as LE. fold i1 in LE.
  unfold active4.
  destruct (restore_spec (active_names (i_core i)) (active_names (i_block i))
              (active_names (i_inline i)) (active_names (i_inline2 i)) i1 ND) as [_ [A0 [A1 [A2 A3]]]].
  - intros m Hm. apply (LE 0), active_sub_all, Hm.
  - intros m Hm. apply (LE 1), active_sub_all, Hm.
  - intros m Hm. apply (LE 2), active_sub_all, Hm.
  - intros m Hm. apply (LE 3), active_sub_all, Hm.
  - rewrite (get_chain_norm _ k), (get_chain_norm i k).
    destruct k as [|[p|p|]|]; simpl norm; try apply A0; try apply A3; try apply A1;
      destruct p; simpl norm; try apply A3; try apply A2; apply A1.
Qed.

(* and the exception, if any, is the body's: the restore itself never raises *)
Theorem reset_rules_result body r i :
  let i1 := fst (run_body true r body i) in
  (forall k, NoDup (all_names (get_chain i1 k))) ->
  snd (mstep true i (MReset body r)) =
  match snd (run_body true r body i) with Ok _ => Ok MONone | bad => bad end.
Proof.
  intros i1 ND.
  change (mstep true i (MReset body r)) with
    (match run_body true r body i with
     | (i', Ok _) => restore (active4 i) i'
     | (i', bad) => match restore (active4 i) i' with
                    | (i'', Ok _) => (i'', bad)
                    | other => other end
     end).
  pose proof (run_body_names_le true r body i) as LE. fold i1 in LE.
  unfold active4.
  destruct (restore_spec (active_names (i_core i)) (active_names (i_block i))
              (active_names (i_inline i)) (active_names (i_inline2 i)) i1 ND) as [E _].
  - intros m Hm. apply (LE 0), active_sub_all, Hm.
  - intros m Hm. apply (LE 1), active_sub_all, Hm.
  - intros m Hm. apply (LE 2), active_sub_all, Hm.
  - intros m Hm. apply (LE 3), active_sub_all, Hm.
  - subst i1. destruct (run_body true r body i) as [j [?|?|]]; simpl in *;
      destruct (restore (MONames4 (active_names (i_core i)) (active_names (i_block i))
                  (active_names (i_inline i)) (active_names (i_inline2 i))) j) as [j' rr];
      simpl in *; subst rr; reflexivity.
Qed.

(* the generator without try/finally (the code before the repair) leaks *)
Definition leak_inst : inst :=
  bare_inst [] [] [([101; 109], []); ([116; 120], [])] [].
Lemma reset_rules_leak_refuted :
  let i' := fst (mstep false leak_inst (MReset [MDisable [[101; 109]] false] (Some 3))) in
  active_names (i_inline i') = [[116; 120]] /\ active_names (i_inline leak_inst) = [[101; 109]; [116; 120]].
Proof. vm_compute. split; reflexivity. Qed.
