(* C03, leaf blocks: on success every leaf rule advances the line cursor past its start line, not
   beyond the end line it was given (the paragraph: not beyond lineMax), and every token it appends
   carries a map inside [startLine, new line].  For every state (any table contents). *)
From RecordUpdate Require Import RecordUpdate.
From MD Require Import Base.Py Base.Str Base.Regex Base.Opt Model.Token Model.Utils Model.StateBlock Model.Helpers
     Model.Url Model.Render Model.Block Lemmas.StrLemmas Lemmas.BlockLemmas Lemmas.BlockWF.
From Coq Require Import ZifyBool.

Local Arguments Z.eqb : simpl never.
Local Arguments Z.ltb : simpl never.
Local Arguments Z.leb : simpl never.
Local Arguments str_eqb : simpl never.

Definition map_in (a b : Z) (t : token) : Prop :=
  match tmap t with Some (x, y) => a <= x /\ x < y /\ y <= b | None => True end.

(* what a successful leaf rule does *)
Definition leaf_maps (st : bstate) (sl : Z) (st' : bstate) : Prop :=
  sl < b_line st' /\ exists seg, b_tokens st' = b_tokens st ++ seg /\ seg <> [] /\ Forall (map_in sl (b_line st')) seg.

Section Maps.
Context (cfg : bcfg).

Lemma code_scan_bounds : forall fuel st nl el last r,
  code_scan cfg fuel st nl el last = Ok r -> last <= nl -> last <= r /\ (nl <= el -> r <= el).
Proof.
  induction fuel as [|f IH]; intros st nl el last r H L; cbn [code_scan] in H; [rfinish H; lia|].
  destruct (negb (nl <? el)) eqn:E; [rfinish H; lia|].
  rstep H. destruct x.
  - apply IH in H; lia.
  - rstep H. destruct x; [apply IH in H; lia | rfinish H; lia].
Qed.

Theorem r_code_maps st sl el st' :
  r_code cfg st sl el false = Ok (true, st') -> sl < el -> leaf_maps st sl st' /\ b_line st' <= el.
Proof.
  unfold r_code. intros H L.
  rstep H. rstep H; [discriminate H|].
  match type of H with bind ?m _ = _ => destruct m as [last|?|] eqn:CS end; cbn [bind] in H; try discriminate H.
  apply code_scan_bounds in CS; [|lia]. destruct CS as [C1 C2]. specialize (C2 ltac:(lia)).
  rstep H. rfinish H. cbn [b_line bpush st_line].
  split; [|cbn; lia]. split; [cbn; lia|].
  eexists. split; [rewrite bpush_tokens; reflexivity|]. split; [discriminate|]. constructor; [|constructor].
  unfold map_in. cbn. lia.
Qed.

Lemma fence_scan_bounds : forall fuel st nl el marker len0 r have,
  fence_scan cfg fuel st nl el marker len0 = Ok (r, have) ->
  nl <= r /\ (fuel <> O -> nl + 1 <= r) /\ (nl < el -> r <= el) /\ (have = true -> r < el).
Proof.
  induction fuel as [|f IH]; intros st nl el marker len0 r have H; cbn [fence_scan] in H;
    [rfinish H; repeat split; try lia; try discriminate; intros X; contradiction X; reflexivity|].
  destruct (el <=? nl + 1) eqn:E; [rfinish H; repeat split; try lia; discriminate|].
  do 3 rstep H. rstep H; [rfinish H; repeat split; try lia; discriminate|].
  rstep H; [|rfinish H; repeat split; try lia; discriminate].
  rstep H; [apply IH in H; lia|].
  rstep H. rstep H; [apply IH in H; lia|].
  rstep H; [apply IH in H; lia|].
  rstep H; [apply IH in H; lia|].
  rfinish H. repeat split; lia.
Qed.

Theorem r_fence_maps st sl el st' :
  r_fence cfg st sl el false = Ok (true, st') -> sl < el -> leaf_maps st sl st' /\ b_line st' <= el.
Proof.
  unfold r_fence. intros H L.
  do 3 rstep H. rstep H; [discriminate H|]. rstep H; [discriminate H|].
  rstep H. rstep H; [discriminate H|]. rstep H; [discriminate H|]. rstep H; [discriminate H|].
  match type of H with bind ?m _ = _ => destruct m as [[nl have]|?|] eqn:FS end; cbn [bind] in H; try discriminate H.
  apply fence_scan_bounds in FS. destruct FS as (_ & F1 & F2 & F3). specialize (F1 ltac:(discriminate)).
  do 2 rstep H. rfinish H.
  specialize (F2 L). destruct have; [specialize (F3 eq_refl)|clear F3].
  all: split; [|cbn; lia]; (split; [cbn; lia|]).
  all: eexists; (split; [rewrite bpush_tokens; reflexivity|]); (split; [discriminate|]); (constructor; [|constructor]).
  all: unfold map_in; cbn; lia.
Qed.

Lemma dummy_fence : True. Proof. exact I. Qed.

Theorem r_hr_maps st sl el st' :
  r_hr cfg st sl el false = Ok (true, st') -> sl < el -> leaf_maps st sl st' /\ b_line st' <= el.
Proof.
  unfold r_hr. intros H L. repeat rstep H; try discriminate H. rfinish H.
  split; [|cbn; lia]. split; [cbn; lia|].
  eexists. split; [rewrite bpush_tokens; reflexivity|]. split; [discriminate|]. constructor; [|constructor].
  unfold map_in. cbn. lia.
Qed.

Theorem r_heading_maps st sl el st' :
  r_heading cfg st sl el false = Ok (true, st') -> sl < el -> leaf_maps st sl st' /\ b_line st' <= el.
Proof.
  unfold r_heading. intros H L. repeat rstep H; try discriminate H. all: rfinish H.
  all: split; [|cbn; lia]; (split; [cbn; lia|]).
  all: eexists; (split; [rewrite !bpush_tokens, <- !app_assoc; cbn [app]; reflexivity|]); (split; [discriminate|]).
  all: repeat constructor; unfold map_in; cbn; lia.
Qed.

Lemma html_scan_bounds : forall fuel st closer nl el r,
  html_scan fuel st closer nl el = Ok r -> nl <= r /\ (nl <= el -> r <= el).
Proof.
  induction fuel as [|f IH]; intros st closer nl el r H; cbn [html_scan] in H; [rfinish H; lia|].
  destruct (negb (nl <? el)) eqn:E; [rfinish H; lia|].
  rstep H. rstep H; [rfinish H; lia|].
  do 2 rstep H. rstep H.
  - rfinish H. destruct (negb (len (slice (b_src st) x0 x1) =? 0)); lia.
  - apply IH in H. lia.
Qed.

Theorem r_html_block_maps st sl el st' :
  r_html_block cfg st sl el false = Ok (true, st') -> sl < el -> leaf_maps st sl st' /\ b_line st' <= el.
Proof.
  unfold r_html_block. intros H L.
  do 3 rstep H. rstep H; [discriminate H|]. rstep H; [discriminate H|]. rstep H; [discriminate H|].
  rstep H. rstep H; [discriminate H|].
  rstep H; [|discriminate H]. destruct p as [[opener closer] can].
  match type of H with bind ?m _ = _ => destruct m as [nl|?|] eqn:NL end; cbn [bind] in H; try discriminate H.
  assert (B : sl + 1 <= nl /\ nl <= el).
  { destruct (test closer (slice (b_src st) x x0)); [rfinish NL; lia|]. apply html_scan_bounds in NL. lia. }
  rstep H. rfinish H.
  split; [|cbn; lia]. split; [cbn; lia|].
  eexists. split; [rewrite bpush_tokens; reflexivity|]. split; [discriminate|]. constructor; [|constructor].
  unfold map_in. cbn. lia.
Qed.

Lemma para_scan_bounds term : forall fuel chain st nl el cu r u st',
  para_scan fuel term chain st nl el cu = Ok (r, u, st') -> nl <= r /\ (nl <= el -> r <= el) /\ (u <> None -> r < el).
Proof.
  induction fuel as [|f IH]; intros chain st nl el cu r u st' H; [discriminate H|].
  cbn [para_scan] in H.
  destruct (negb (nl <? el)) eqn:E; [rfinish H; repeat split; try lia; intros X; contradiction X; reflexivity|].
  destruct (is_empty st nl) as [e|?|]; cbn [bind] in H; try discriminate H.
  destruct e; [rfinish H; repeat split; try lia; intros X; contradiction X; reflexivity|].
  destruct (tb (b_sCount st) nl) as [sc|?|]; cbn [bind] in H; try discriminate H.
  destruct (3 <? sc - b_blkIndent st); [apply IH in H; destruct H as (A & B & C); repeat split; [lia | lia | exact C]|].
  match type of H with bind ?m _ = _ => destruct m as [ul|?|] end; cbn [bind] in H; try discriminate H.
  destruct ul as [ml|]; [rfinish H; repeat split; lia|].
  destruct (sc <? 0); [apply IH in H; destruct H as (A & B & C); repeat split; [lia | lia | exact C]|].
  destruct (term chain st nl el) as [[t st1]|?|]; cbn [bind] in H; try discriminate H.
  destruct t; [rfinish H; repeat split; try lia; intros X; contradiction X; reflexivity|].
  apply IH in H. destruct H as (A & B & C). repeat split; [lia | lia | exact C].
Qed.

(* a terminator callback that leaves the token list alone (true of every chain of silent built-in rules) *)
Definition term_same (term : term_t) : Prop := forall ch s a b r s', term ch s a b = Ok (r, s') -> b_tokens s' = b_tokens s.

Lemma para_scan_tokens term (T : term_same term) : forall fuel chain st nl el cu r u st',
  para_scan fuel term chain st nl el cu = Ok (r, u, st') -> b_tokens st' = b_tokens st.
Proof.
  induction fuel as [|f IH]; intros chain st nl el cu r u st' H; [discriminate H|].
  cbn [para_scan] in H.
  destruct (negb (nl <? el)); [rfinish H; reflexivity|].
  destruct (is_empty st nl) as [e|?|]; cbn [bind] in H; try discriminate H.
  destruct e; [rfinish H; reflexivity|].
  destruct (tb (b_sCount st) nl) as [sc|?|]; cbn [bind] in H; try discriminate H.
  destruct (3 <? sc - b_blkIndent st); [eapply IH; exact H|].
  match type of H with bind ?m _ = _ => destruct m as [ul|?|] end; cbn [bind] in H; try discriminate H.
  destruct ul as [ml|]; [rfinish H; reflexivity|].
  destruct (sc <? 0); [eapply IH; exact H|].
  destruct (term chain st nl el) as [[t st1]|?|] eqn:TE; cbn [bind] in H; try discriminate H.
  pose proof (T _ _ _ _ _ _ TE) as E1.
  destruct t; [rfinish H; exact E1|]. apply IH in H. congruence.
Qed.

Theorem r_paragraph_maps term (T : term_same term) st sl el st' :
  r_paragraph term st sl el false = Ok (true, st') -> sl < b_lineMax st -> leaf_maps st sl st' /\ b_line st' <= b_lineMax st.
Proof.
  unfold r_paragraph. intros H L.
  match type of H with bind ?m _ = _ => destruct m as [[[nl u] st1]|?|] eqn:PS end; cbn [bind] in H; try discriminate H.
  pose proof (para_scan_bounds _ _ _ _ _ _ _ _ _ _ PS) as (P1 & P2 & _). cbn [b_lineMax st_parent] in P2.
  assert (P2' : nl <= b_lineMax st) by (apply P2; change (b_lineMax (st_parent st nm_paragraph)) with (b_lineMax st); lia).
  apply (para_scan_tokens term T) in PS. change (b_tokens (st_parent st nm_paragraph)) with (b_tokens st) in PS.
  rstep H. rfinish H.
  split; [|cbn; lia]. split; [cbn; lia|].
  eexists. split; [unfold push_inline; change (b_tokens (st_parent ?x ?y)) with (b_tokens x); rewrite !bpush_tokens, <- !app_assoc; cbn [app]; change (b_tokens (st_line st1 ?l)) with (b_tokens st1); rewrite PS; reflexivity|].
  split; [discriminate|]. repeat constructor; unfold map_in; cbn; lia.
Qed.

Theorem r_lheading_maps term (T : term_same term) st sl el st' :
  r_lheading cfg term st sl el false = Ok (true, st') -> sl < el -> leaf_maps st sl st' /\ b_line st' <= el.
Proof.
  unfold r_lheading. intros H L. rstep H. rstep H; [discriminate H|].
  match type of H with bind ?m _ = _ => destruct m as [[[nl u] st1]|?|] eqn:PS end; cbn [bind] in H; try discriminate H.
  pose proof (para_scan_bounds _ _ _ _ _ _ _ _ _ _ PS) as (P1 & P2 & P3).
  apply (para_scan_tokens term T) in PS. change (b_tokens (st_parent st nm_paragraph)) with (b_tokens st) in PS.
  destruct u as [[marker level]|]; [|discriminate H].
  assert (P3' : nl < el) by (apply P3; discriminate).
  rstep H. rfinish H.
  split; [|cbn; lia]. split; [cbn; lia|].
  eexists. split; [unfold push_inline; change (b_tokens (st_parent ?x ?y)) with (b_tokens x); rewrite !bpush_tokens, <- !app_assoc; cbn [app]; change (b_tokens (st_line st1 ?l)) with (b_tokens st1); rewrite PS; reflexivity|].
  split; [discriminate|]. repeat constructor; unfold map_in; cbn; lia.
Qed.

End Maps.
