(* Lemmas on the inline model. *)
From RecordUpdate Require Import RecordUpdate.
From MD Require Import Base.Py Base.Str Base.Regex Base.Opt Model.Token Model.Utils Model.StateBlock Model.Helpers
     Model.Url Model.Render Model.Core Model.Inline Lemmas.StrLemmas.
From MD Require Import Gen.Tables.
From Coq Require Import ZifyBool.

Local Arguments Z.eqb : simpl never.
Local Arguments Z.ltb : simpl never.
Local Arguments Z.leb : simpl never.
Local Arguments str_eqb : simpl never.

(* ---- C10: strikethrough is inert away from "~" ------------------------------------------- *)
Theorem strike_tokenize_inert st silent r :
  (forall c, py_idx (i_src st) (i_pos st) = Ok c -> c <> 126) ->
  r_strikethrough st silent = Ok r -> r = (false, st).
Proof.
  intros NT H. unfold r_strikethrough in H.
  destruct (py_idx (i_src st) (i_pos st)) as [ch|e|] eqn:P; cbn [bind] in H; try discriminate.
  destruct silent; [injection H as <-; reflexivity|].
  destruct (ch =? 126) eqn:E; cbn [negb] in H.
  - exfalso. apply (NT ch eq_refl). lia.
  - injection H as <-. reflexivity.
Qed.

(* post-processing: a delimiter list without "~" delimiters leaves the tokens untouched *)
Lemma dget_In ds i d : dget ds i = Ok d -> In d ds.
Proof.
  unfold dget. cbv zeta.
  destruct (if (if i <? 0 then i + len ds else i) <? 0 then None else nth_error ds (Z.to_nat (if i <? 0 then i + len ds else i))) as [x|] eqn:E;
    [|discriminate].
  intros H; injection H as <-.
  destruct ((if i <? 0 then i + len ds else i) <? 0); [discriminate|]. eapply nth_error_In, E.
Qed.

Lemma st_pass1_inert : forall fuel ds tokens i lone,
  Forall (fun d => d_marker d <> 126) ds ->
  st_pass1 fuel ds tokens i lone = Ok (tokens, lone) \/ exists e, st_pass1 fuel ds tokens i lone = Raise e.
Proof.
  induction fuel as [|f IH]; intros ds tokens i lone HF; [left; reflexivity|]. cbn [st_pass1].
  destruct (i <? len ds); cbn [negb]; [|left; reflexivity].
  destruct (dget ds i) as [d|e|] eqn:G; cbn [bind].
  - assert (Hd : d_marker d <> 126) by (rewrite Forall_forall in HF; apply HF; eapply dget_In, G).
    assert (E : (d_marker d =? 126) = false) by lia. rewrite E. cbn [negb orb]. apply IH, HF.
  - right; eexists; reflexivity.
  - exfalso. unfold dget in G. cbv zeta in G.
    destruct (if (if i <? 0 then i + len ds else i) <? 0 then None else nth_error ds (Z.to_nat (if i <? 0 then i + len ds else i))); discriminate.
Qed.

Theorem strike_post_inert ds tokens r :
  Forall (fun d => d_marker d <> 126) ds -> strike_post ds tokens = Ok r -> r = tokens.
Proof.
  intros HF H. unfold strike_post in H.
  destruct (st_pass1_inert (S (length ds)) ds tokens 0 [] HF) as [E|[e E]]; rewrite E in H; cbn [bind] in H; [|discriminate].
  cbn in H. injection H as <-. reflexivity.
Qed.

(* ---- C09: the escape rule on an escapable character ---------------------------------------- *)

(* every ASCII punctuation character is escapable (decided on the generated tables) *)
Lemma punct_escapable : forallb (fun c => mem_z c escaped_table) md_ascii_punct = true.
Proof. vm_compute. reflexivity. Qed.

Theorem escape_punct st c :
  py_idx (i_src st) (i_pos st) = Ok 92 -> i_pos st + 1 < i_posMax st ->
  py_idx (i_src st) (i_pos st + 1) = Ok c -> is_md_ascii_punct c = true -> i_pending st = [] ->
  exists st', r_escape st false = Ok (true, st') /\ i_pos st' = i_pos st + 2
    /\ exists t, i_tokens st' = i_tokens st ++ [t] /\ ttype t = s_text_special_ /\ tcontent t = [c]
                 /\ tmarkup t = [92; c] /\ tnesting t = 0.
Proof.
  intros P0 Hm P1 Hp Pe. unfold r_escape. rewrite P0. cbn [bind]. change (92 =? 92) with true. cbn [negb].
  assert (E1 : (i_posMax st <=? i_pos st + 1) = false) by lia. rewrite E1. rewrite P1. cbn [bind].
  assert (E2 : (c =? 10) = false).
  { unfold is_md_ascii_punct, mem_z, md_ascii_punct in Hp. destruct (c =? 10) eqn:E; [|reflexivity].
    apply Z.eqb_eq in E. subst c. vm_compute in Hp. discriminate. }
  rewrite E2.
  assert (E3 : mem_z c escaped_table = true).
  { pose proof punct_escapable as F. rewrite forallb_forall in F. apply F.
    unfold is_md_ascii_punct, mem_z in Hp. apply existsb_exists in Hp. destruct Hp as [x [Hx Ex]].
    apply Z.eqb_eq in Ex. subst x. exact Hx. }
  rewrite E3. unfold ipush. rewrite Pe. cbn.
  eexists. split; [reflexivity|]. cbn. split; [lia|].
  eexists. repeat split; reflexivity.
Qed.

(* ---- C20: skipToken is memoised ---------------------------------------------------------------- *)

Lemma zlookup_zset k v m : zlookup k (zset k v m) = Some v.
Proof. induction m as [|[k' v'] m IH]; cbn; [rewrite Z.eqb_refl; reflexivity|]. destruct (k =? k') eqn:E; cbn; rewrite ?E, ?Z.eqb_refl; auto. Qed.

Lemma zlookup_zset_other k k' v m : k <> k' -> zlookup k (zset k' v m) = zlookup k m.
Proof.
  intros N. induction m as [|[a b] m IH]; cbn.
  - assert (E : (k =? k') = false) by lia. rewrite E. reflexivity.
  - destruct (k' =? a) eqn:E1; cbn.
    + assert (k' = a) by lia. subst a. assert (E : (k =? k') = false) by lia. rewrite E. reflexivity.
    + destruct (k =? a); [reflexivity | exact IH].
Qed.

(* a cache hit costs no rule invocation and returns the cached position *)
Theorem skip_token_hit cfg rf cf lt F st p :
  zlookup (i_pos st) (i_cache st) = Some p -> skip_token cfg rf cf lt F st = Ok (st <| i_pos := p |>).
Proof. intros H. unfold skip_token. rewrite H. reflexivity. Qed.

(* after a miss the start position is in the cache, bound to the position returned: the body of
   skipToken runs at most once per position of a StateInline *)
Theorem skip_token_memo cfg rf cf lt F st st' :
  zlookup (i_pos st) (i_cache st) = None ->
  skip_token cfg rf cf lt F st = Ok st' -> zlookup (i_pos st) (i_cache st') = Some (i_pos st').
Proof.
  intros Hn H. unfold skip_token in H. rewrite Hn in H.
  destruct (i_level st <? ic_maxNesting cfg).
  - destruct (first_rule _ _ _ _ _ _ _ _ _) as [[ok st1]|e|]; cbn [bind] in H; try discriminate.
    injection H as <-. cbn. destruct ok; cbn; apply zlookup_zset.
  - cbn [bind] in H. injection H as <-. cbn. apply zlookup_zset.
Qed.

(* beyond the nesting cap the tail is skipped, not recursed into *)
Theorem skip_token_cap cfg rf cf lt F st :
  zlookup (i_pos st) (i_cache st) = None -> ic_maxNesting cfg <= i_level st ->
  exists st', skip_token cfg rf cf lt F st = Ok st' /\ i_pos st' = i_posMax st + 1.
Proof.
  intros Hn Hl. unfold skip_token. rewrite Hn.
  assert (E : (i_level st <? ic_maxNesting cfg) = false) by lia. rewrite E. cbn [bind].
  eexists. split; [reflexivity|]. cbn. reflexivity.
Qed.
