(* C05, inline half: every href / src attribute the inline parser puts on a token is empty, or a
   normalizeLink result that validateLink accepted -- whether it comes from an inline destination,
   an autolink, or a reference definition found in env (whose destinations are of that form by
   EnvLemmas).  Through all rules, label / image recursion, skipToken and the post-processing
   rules, for every source and configuration. *)
From RecordUpdate Require Import RecordUpdate.
From MD Require Import Base.Py Base.Str Base.Regex Base.Opt Model.Token Model.Utils Model.StateBlock Model.Helpers
     Model.Url Model.Render Model.Core Model.Inline Lemmas.StrLemmas Lemmas.BlockLemmas Lemmas.BlockWF Lemmas.EnvLemmas
     Lemmas.InlineKinds.
From MD Require Import Gen.Regexes Gen.Tables.

Local Arguments Z.eqb : simpl never.
Local Arguments Z.ltb : simpl never.
Local Arguments Z.leb : simpl never.
Local Arguments str_eqb : simpl never.

(* the attribute names the parser ever writes: href, title (links), src, alt, title (images), start
   (ordered lists), style (table cells).  ("class" is added by the fence renderer to a private copy.) *)
Definition attr_names : list str :=
  [s_href; [116; 105; 116; 108; 101]; s_src; [97; 108; 116]; [115; 116; 97; 114; 116]; [115; 116; 121; 108; 101]].
Definition named_attrs (t : token) : Prop := Forall (fun kv => In (fst kv) attr_names) (tattrs t).

Section IUrls.
Context (cfg : icfg) (rf cf lt : str -> str).

Definition gurl (v : str) : Prop := v = [] \/ good_href rf v.

(* the URL-carrying attributes of a token are good *)
Definition W (t : token) : Prop :=
  (forall k v, In (k, AStr v) (tattrs t) -> k = s_href \/ k = s_src -> gurl v) /\ named_attrs t.

Lemma W_attrs t t' : tattrs t' = tattrs t -> W t -> W t'.
Proof. unfold W, named_attrs. intros ->. exact (fun H => H). Qed.

Lemma W_nil t : tattrs t = [] -> W t.
Proof. unfold W, named_attrs. intros ->. split; [intros k v [] | constructor]. Qed.

Definition env_good (e : envt) : Prop := Forall (good_ref rf) (env_refs e).

Definition IW (st : istate) : Prop := Forall W (i_tokens st) /\ env_good (i_env st).

Lemma iw_same st st' : i_tokens st' = i_tokens st -> i_env st' = i_env st -> IW st -> IW st'.
Proof. unfold IW. intros -> ->. exact (fun H => H). Qed.

Ltac iw := first [ assumption
                 | match goal with H : IW ?s |- IW _ => exact H end
                 | match goal with H : IW ?s |- IW _ => apply (iw_same s); [reflexivity | reflexivity | exact H] end ].

Lemma push_pending_iw st : IW st -> IW (push_pending st).
Proof.
  unfold IW, push_pending. cbn. intros [H E]. split; [|exact E]. apply Forall_app. split; [exact H|]. constructor; [|constructor].
  apply W_nil. reflexivity.
Qed.

Lemma ipush_iw st ty tag nesting f st' :
  IW st -> (forall lvl, W (f (set_level (new_token ty tag nesting) lvl))) -> ipush st ty tag nesting f = Ok st' -> IW st'.
Proof.
  unfold ipush. intros H HV E.
  set (st0 := match i_pending st with [] => st | _ => push_pending st end) in *.
  assert (H0 : IW st0) by (unfold st0; destruct (i_pending st); [exact H | apply push_pending_iw, H]).
  match type of E with bind ?m _ = _ => destruct m as [st1|?|] eqn:E1 end; cbn [bind] in E; try discriminate E.
  assert (H1 : IW st1).
  { destruct (nesting <? 0); [|injection E1 as <-; exact H0].
    destruct (i_prev st0); [discriminate E1|]. injection E1 as <-. exact H0. }
  destruct H1 as [T1 E1'].
  destruct (0 <? nesting); injection E as <-; unfold IW; cbn; (split; [|exact E1']); apply Forall_app;
    (split; [exact T1 | constructor; [apply HV | constructor]]).
Qed.

(* a pushed token whose modifier leaves attrs empty *)
Ltac wnil := let lvl := fresh "lvl" in intros lvl; apply W_nil;
             repeat match goal with |- context [if ?c then _ else _] => destruct c end; reflexivity.

Ltac ustep H :=
  match type of H with
  | bind (bind _ _) _ = Ok _ => rewrite bind_assoc in H
  | bind (ipush ?s ?ty ?tag ?n ?f) _ = Ok _ =>
      let s1 := fresh "s" in let IP := fresh "IP" in
      destruct (ipush s ty tag n f) as [s1|?|] eqn:IP; cbn [bind] in H; [|discriminate H|discriminate H];
      apply (ipush_iw s ty tag n f s1) in IP; [| iw | wnil]
  | ipush ?s ?ty ?tag ?n ?f = Ok ?s1 =>
      apply (ipush_iw s ty tag n f s1) in H; [| iw | wnil]
  | bind (Ok _) _ = Ok _ => cbn [bind] in H
  | bind (if ?c then _ else _) _ = Ok _ => destruct c
  | _ => rstep H
  end.

Ltac ufin H := rfinish H; iw.

(* ---- rules that never set attributes ---- *)

Lemma r_text_iw st silent b st' : IW st -> r_text st silent = Ok (b, st') -> IW st'.
Proof. unfold r_text. intros HI H. repeat ustep H; rfinish H; try iw. destruct silent; iw. Qed.
Lemma r_linkify_iw st silent b st' : IW st -> r_linkify cfg st silent = Ok (b, st') -> IW st'.
Proof. unfold r_linkify. intros HI H. repeat ustep H; ufin H. Qed.
Lemma r_newline_iw st silent b st' : IW st -> r_newline st silent = Ok (b, st') -> IW st'.
Proof. unfold r_newline. intros HI H. repeat ustep H; ufin H. Qed.
Lemma r_escape_iw st silent b st' : IW st -> r_escape st silent = Ok (b, st') -> IW st'.
Proof. unfold r_escape. intros HI H. repeat ustep H; ufin H. Qed.

Lemma r_backticks_iw st silent b st' : IW st -> r_backticks st silent = Ok (b, st') -> IW st'.
Proof.
  unfold r_backticks. intros HI H.
  do 2 ustep H; [rfinish H; iw|]. ustep H. ustep H.
  - rfinish H. destruct silent; iw.
  - ustep H. destruct x1 as [found bts]. destruct found as [[ms me]|].
    + repeat ustep H; ufin H.
    + rfinish H. destruct silent; iw.
Qed.

Lemma push_markers_iw : forall n st content marker length op cl st',
  IW st -> push_markers n st content marker length op cl = Ok st' -> IW st'.
Proof.
  induction n as [|n IH]; intros st content marker length op cl st' HI H; cbn [push_markers] in H; [rfinish H; iw|].
  ustep H. eapply IH; [|exact H]. unfold add_delim. iw.
Qed.

Lemma r_strikethrough_iw st silent b st' : IW st -> r_strikethrough st silent = Ok (b, st') -> IW st'.
Proof.
  unfold r_strikethrough. intros HI H.
  ustep H. ustep H; [rfinish H; iw|]. ustep H; [rfinish H; iw|].
  ustep H. destruct x0 as [[op cl] n]. ustep H; [rfinish H; iw|].
  ustep H.
  - ustep H. match type of H with bind ?m _ = _ => destruct m as [s2|?|] eqn:PM end; cbn [bind] in H; try discriminate H.
    apply push_markers_iw in PM; [|iw]. ufin H.
  - cbn [bind] in H. match type of H with bind ?m _ = _ => destruct m as [s2|?|] eqn:PM end; cbn [bind] in H; try discriminate H.
    apply push_markers_iw in PM; [|iw]. ufin H.
Qed.

Lemma r_emphasis_iw st silent b st' : IW st -> r_emphasis st silent = Ok (b, st') -> IW st'.
Proof.
  unfold r_emphasis. intros HI H.
  ustep H. ustep H; [rfinish H; iw|]. ustep H; [rfinish H; iw|].
  ustep H. destruct x0 as [[op cl] n].
  match type of H with bind ?m _ = _ => destruct m as [s2|?|] eqn:PM end; cbn [bind] in H; try discriminate H.
  apply push_markers_iw in PM; [|iw]. ufin H.
Qed.

Lemma r_html_inline_iw st silent b st' : IW st -> r_html_inline cfg st silent = Ok (b, st') -> IW st'.
Proof.
  unfold r_html_inline. intros HI H.
  ustep H; [rfinish H; iw|].
  ustep H. ustep H; [rfinish H; iw|]. ustep H. ustep H; [rfinish H; iw|].
  ustep H; [|rfinish H; iw].
  destruct silent; cbn [bind] in H; [ufin H|].
  repeat ustep H. rfinish H.
  repeat match goal with |- context [if ?c then _ else _] => destruct c end; iw.
Qed.

Lemma r_entity_iw st silent b st' : IW st -> r_entity st silent = Ok (b, st') -> IW st'.
Proof.
  unfold r_entity. intros HI H.
  ustep H. ustep H; [rfinish H; iw|]. ustep H; [rfinish H; iw|]. ustep H.
  ustep H.
  - ustep H; [|rfinish H; iw]. repeat ustep H; ufin H.
  - ustep H; [|rfinish H; iw]. ustep H; [|rfinish H; iw]. repeat ustep H; ufin H.
Qed.

(* ---- the URL producers ---- *)

(* W for a token whose attrs are  (href|src, url) :: others  where the others carry no URL key *)
Lemma W_one key url rest t :
  tattrs t = (key, AStr url) :: rest -> gurl url ->
  (forall k v, In (k, AStr v) rest -> k = s_href \/ k = s_src -> False) ->
  In key attr_names -> Forall (fun kv => In (fst kv) attr_names) rest -> W t.
Proof.
  intros E G R NK NR. split.
  - intros k v I K. rewrite E in I. destruct I as [I|I].
    + injection I as _ <-. exact G.
    + exfalso. eapply R; eassumption.
  - unfold named_attrs. rewrite E. constructor; [exact NK | exact NR].
Qed.

Ltac names_tac := first [ solve [cbn; tauto] | solve [repeat constructor; cbn; tauto] ].

Lemma push_autolink_iw st full url st' : IW st -> gurl full -> push_autolink lt st full url = Ok st' -> IW st'.
Proof.
  unfold push_autolink. intros HI G H.
  match type of H with bind (ipush ?s ?ty ?tag ?n ?f) _ = _ =>
    destruct (ipush s ty tag n f) as [s1|?|] eqn:IP; cbn [bind] in H; [|discriminate H|discriminate H];
    apply (ipush_iw s ty tag n f s1) in IP; [| iw |]
  end.
  2:{ intros lvl. eapply (W_one s_href full []); [reflexivity | exact G | intros k v [] | names_tac | names_tac]. }
  repeat ustep H. exact H.
Qed.

Lemma r_autolink_iw st silent b st' : IW st -> r_autolink rf lt st silent = Ok (b, st') -> IW st'.
Proof.
  unfold r_autolink. intros HI H.
  ustep H. ustep H; [rfinish H; iw|]. ustep H. ustep H; [|rfinish H; iw].
  ustep H.
  - match type of H with (if negb (validate_link_re ?h) then _ else _) = _ => destruct (validate_link_re h) eqn:VL end;
      cbn [negb] in H; [|rfinish H; iw].
    destruct silent; cbn [bind] in H; [ufin H|].
    match type of H with bind ?m _ = _ => destruct m as [s2|?|] eqn:PA end; cbn [bind] in H; try discriminate H.
    apply push_autolink_iw in PA; [ufin H | iw | right; eexists; split; [reflexivity | exact VL]].
  - ustep H; [|rfinish H; iw].
    match type of H with (if negb (validate_link_re ?h) then _ else _) = _ => destruct (validate_link_re h) eqn:VL end;
      cbn [negb] in H; [|rfinish H; iw].
    destruct silent; cbn [bind] in H; [ufin H|].
    match type of H with bind ?m _ = _ => destruct m as [s2|?|] eqn:PA end; cbn [bind] in H; try discriminate H.
    apply push_autolink_iw in PA; [ufin H | iw | right; eexists; split; [reflexivity | exact VL]].
Qed.

Definition FKW (F : ifuncs) : Prop :=
  (forall s s', IW s -> f_tokenize F s = Ok s' -> IW s') /\ (forall s s', IW s -> f_skip F s = Ok s' -> IW s').

Section WithF.
Context (F : ifuncs) (HF : FKW F).

Lemma label_loop_iw : forall fuel st level dn oldPos r st',
  IW st -> label_loop F fuel st level dn oldPos = Ok (r, st') -> IW st'.
Proof.
  induction fuel as [|f IH]; intros st level dn oldPos r st' HI H; [discriminate H|].
  cbn [label_loop] in H.
  ustep H; [rfinish H; iw|]. ustep H. ustep H; [rfinish H; iw|].
  destruct (f_skip F st) as [st1|?|] eqn:SK; cbn [bind] in H; try discriminate H.
  destruct HF as [_ HS]. apply HS in SK; [|exact HI].
  ustep H.
  - ustep H; [eapply IH; [|exact H]; iw|]. ustep H; [rfinish H; iw|]. eapply IH; [|exact H]; iw.
  - eapply IH; [|exact H]; iw.
Qed.

Lemma parse_link_label_iw st start dn r st' : IW st -> parse_link_label F st start dn = Ok (r, st') -> IW st'.
Proof. unfold parse_link_label. intros HI H. eapply label_loop_iw; [|exact H]. iw. Qed.

Lemma alookup_in {A} k (m : list (str * A)) v : alookup k m = Some v -> exists k', In (k', v) m.
Proof.
  induction m as [|[k' v'] m IH]; cbn [alookup]; intros H; [discriminate H|].
  destruct (str_eqb k k'); [injection H as <-; exists k'; left; reflexivity|].
  destruct (IH H) as (k2 & I). exists k2. right. exact I.
Qed.

(* a reference found in env carries a good destination *)
Lemma ref_branch_iw st pos ls le mx r st' : IW st -> ref_branch cf F st pos ls le mx = Ok (r, st') ->
  IW st' /\ (forall h t l p, r = Some (h, t, l, p) -> gurl h).
Proof.
  unfold ref_branch. intros HI H.
  destruct (e_refs (i_env st)) as [refs|] eqn:ER; [|rfinish H; split; [iw | intros; discriminate]].
  ustep H.
  match type of H with bind ?m _ = _ => destruct m as [[[label0 pos1] st1]|?|] eqn:PL end; cbn [bind] in H; try discriminate H.
  assert (H1 : IW st1).
  { destruct x.
    - destruct (parse_link_label F st pos false) as [[p s']|?|] eqn:PP; cbn [bind] in PL; try discriminate PL.
      apply parse_link_label_iw in PP; [|exact HI]. destruct (0 <=? p); rfinish PL; iw.
    - rfinish PL. iw. }
  match type of H with context [alookup ?lab refs] => destruct (alookup lab refs) as [rr|] eqn:AL end.
  - rfinish H. split; [iw|]. intros h t l p E. injection E as <- _ _ _. right.
    destruct HI as [_ EG]. unfold env_good, env_refs in EG. rewrite ER in EG.
    destruct (alookup_in _ _ _ AL) as (k' & I). rewrite Forall_forall in EG. exact (EG _ I).
  - rfinish H. split; [iw | intros; discriminate].
Qed.

Lemma r_link_iw st silent b st' : IW st -> r_link cfg rf cf F st silent = Ok (b, st') -> IW st'.
Proof.
  unfold r_link. intros HI H.
  ustep H. ustep H; [rfinish H; iw|].
  destruct (parse_link_label F st (i_pos st) true) as [[labelEnd st0]|?|] eqn:PL; cbn [bind] in H; try discriminate H.
  apply parse_link_label_iw in PL; [|exact HI].
  ustep H; [rfinish H; iw|].
  ustep H.
  match type of H with bind ?m _ = _ => destruct m as [inlf|?|] eqn:IN end; cbn [bind] in H; try discriminate H.
  (* the destination of the inline form is empty or validated *)
  assert (G0 : forall h t p r, inlf = Some (h, t, p, r) -> gurl h).
  { intros h t p r E. subst inlf. destruct x0.
    - ustep IN. ustep IN; [discriminate IN|].
      match type of IN with bind ?m _ = _ => destruct m as [[[hh tt] pp]|?|] eqn:HT end; cbn [bind] in IN; try discriminate IN.
      ustep IN. injection IN as <- _ _ _.
      match type of HT with (if l_ok ?pd then _ else _) = _ => destruct (l_ok pd) end; [|rfinish HT; left; reflexivity].
      match type of HT with context [validate_link_re ?u] => destruct (validate_link_re u) eqn:VL end.
      + ustep HT. ustep HT; [ustep HT|]; rfinish HT; right; eexists; (split; [reflexivity | exact VL]).
      + ustep HT. ustep HT; [ustep HT|]; rfinish HT; left; reflexivity.
    - injection IN as <- _ _ _. left; reflexivity. }
  destruct inlf as [[[[href0 title0] pos1] parseRef]|]; [|rfinish H; iw].
  specialize (G0 _ _ _ _ eq_refl).
  match type of H with bind ?m _ = _ => destruct m as [[fin st1]|?|] eqn:FN end; cbn [bind] in H; try discriminate H.
  assert (H1 : IW st1 /\ forall h t l p, fin = Some (h, t, l, p) -> gurl h).
  { destruct parseRef.
    - destruct (ref_branch cf F st0 pos1 (i_pos st + 1) labelEnd (i_posMax st)) as [[r s1]|?|] eqn:RB; cbn [bind] in FN; try discriminate FN.
      apply ref_branch_iw in RB; [|exact PL]. destruct RB as [RB1 RB2].
      destruct r as [[[[h t] l] p]|]; rfinish FN; (split; [iw|]).
      + intros h' t' l' p' E. injection E as <- _ _ _. eapply RB2; reflexivity.
      + intros; discriminate.
    - rfinish FN. split; [iw|]. intros h t l p E. injection E as <- _ _ _. exact G0. }
  destruct H1 as [H1 GF].
  destruct fin as [[[[href title] label] pos]|]; [|rfinish H; iw].
  specialize (GF _ _ _ _ eq_refl).
  destruct silent; cbn [bind] in H; [rfinish H; iw|].
  ustep H.
  match type of H with bind (ipush ?s ?ty ?tag ?n ?f) _ = _ =>
    destruct (ipush s ty tag n f) as [s1|?|] eqn:IP; cbn [bind] in H; [|discriminate H|discriminate H];
    apply (ipush_iw s ty tag n f s1) in IP; [| iw |]
  end.
  2:{ intros lvl.
      destruct title as [|tc tr];
        (eapply (W_one s_href href);
         [ repeat match goal with |- context [if ?c then _ else _] => destruct c end; reflexivity
         | exact GF
         | intros k v I K; cbn [In] in I; repeat (destruct I as [I|I]; [injection I as <- _; destruct K as [K|K]; discriminate K|]); exact I
         | names_tac | names_tac ]). }
  rewrite ?bind_assoc in H.
  match type of H with bind (f_tokenize F ?a) _ = _ => destruct (f_tokenize F a) as [s2|?|] eqn:TK end;
    cbn [bind] in H; try discriminate H.
  destruct HF as [HT _]. apply HT in TK; [|iw].
  repeat ustep H. rfinish H. iw.
Qed.

Lemma r_image_iw st silent b st' : IW st -> r_image cfg rf cf F st silent = Ok (b, st') -> IW st'.
Proof.
  unfold r_image. intros HI H.
  ustep H. ustep H; [rfinish H; iw|].
  match type of H with bind ?m _ = _ => destruct m as [nb|?|] end; cbn [bind] in H; try discriminate H.
  destruct nb; [rfinish H; iw|].
  destruct (parse_link_label F st (i_pos st + 1) false) as [[labelEnd st0]|?|] eqn:PL; cbn [bind] in H; try discriminate H.
  apply parse_link_label_iw in PL; [|exact HI].
  ustep H; [rfinish H; iw|].
  ustep H.
  match type of H with bind ?m _ = _ => destruct m as [[fin st1]|?|] eqn:FN end; cbn [bind] in H; try discriminate H.
  assert (H1 : IW st1 /\ forall h t l p, fin = Some (h, t, l, p) -> gurl h).
  { destruct x0.
    - ustep FN. ustep FN; [rfinish FN; split; [iw | intros; discriminate]|].
      match type of FN with context [l_ok ?pd] => destruct (l_ok pd) end.
      + match type of FN with context [validate_link_re ?u] => destruct (validate_link_re u) eqn:VL end.
        * repeat ustep FN; rfinish FN; (split; [iw|]); intros h t l p E; try discriminate E;
            injection E as <- _ _ _; right; eexists; (split; [reflexivity | exact VL]).
        * repeat ustep FN; rfinish FN; (split; [iw|]); intros h t l p E; try discriminate E;
            injection E as <- _ _ _; left; reflexivity.
      + repeat ustep FN; rfinish FN; (split; [iw|]); intros h t l p E; try discriminate E;
          injection E as <- _ _ _; left; reflexivity.
    - destruct (ref_branch cf F st0 (labelEnd + 1) (i_pos st + 2) labelEnd (i_posMax st)) as [[r s1]|?|] eqn:RB; cbn [bind] in FN; try discriminate FN.
      apply ref_branch_iw in RB; [|exact PL]. destruct RB as [RB1 RB2].
      destruct r as [[[[h t] l] p]|]; rfinish FN.
      + split; [iw|]. intros h' t' l' p' E. injection E as <- _ _ _. eapply RB2; reflexivity.
      + split; [destruct (e_refs (i_env st0)); iw | intros; discriminate]. }
  destruct H1 as [H1 GF].
  destruct fin as [[[[href title] label] pos]|]; [|rfinish H; iw].
  specialize (GF _ _ _ _ eq_refl).
  destruct silent; cbn [bind] in H; [rfinish H; iw|].
  rewrite ?bind_assoc in H. ustep H.
  match type of H with bind (ipush ?s ?ty ?tag ?n ?f) _ = _ =>
    destruct (ipush s ty tag n f) as [s1|?|] eqn:IP; cbn [bind] in H; [|discriminate H|discriminate H];
    apply (ipush_iw s ty tag n f s1) in IP; [| iw |]
  end.
  2:{ intros lvl.
      destruct title as [|tc tr];
        (eapply (W_one s_src href);
         [ repeat match goal with |- context [if ?c then _ else _] => destruct c end; reflexivity
         | exact GF
         | intros k v I K; cbn [In] in I; repeat (destruct I as [I|I]; [injection I as <- _; destruct K as [K|K]; discriminate K|]); exact I
         | names_tac | names_tac ]). }
  rfinish H. iw.
Qed.

End WithF.

(* ---- rules2 ---- *)

Lemma upd_nth_forall_w (f : token -> token) : forall n l, Forall W l -> (forall t, W t -> W (f t)) -> Forall W (upd_nth_l n f l).
Proof.
  unfold upd_nth_l. induction n as [|n IH]; intros [|x l] H Hf; try constructor; inversion H; subst; try assumption.
  - apply Hf; assumption.
  - apply IH; assumption.
Qed.

Lemma tupd_forall_w l i f : Forall W l -> (forall t, W t -> W (f t)) -> Forall W (tupd l i f).
Proof. intros H Hf. unfold tupd, update_nth_tok'. apply upd_nth_forall_w; assumption. Qed.

Lemma tget_W l i t : Forall W l -> tget l i = Ok t -> W t.
Proof.
  unfold tget. intros H E. cbv zeta in E.
  destruct ((if i <? 0 then i + len l else i) <? 0); [discriminate E|].
  destruct (nth_error l (Z.to_nat (if i <? 0 then i + len l else i))) as [x|] eqn:N; [|discriminate E].
  injection E as <-. rewrite Forall_forall in H. apply H. eapply nth_error_In; exact N.
Qed.

Lemma W_retag ty tag n mk t : W t -> W (retag ty tag n mk t).
Proof. apply W_attrs. reflexivity. Qed.

Lemma st_pass1_W : forall fuel ds tokens i lone r l', Forall W tokens ->
  st_pass1 fuel ds tokens i lone = Ok (r, l') -> Forall W r.
Proof.
  induction fuel as [|f IH]; intros ds tokens i lone r l' H E; cbn [st_pass1] in E; [rfinish E; assumption|].
  destruct (negb (i <? len ds)); [rfinish E; assumption|].
  rstep E. rstep E; [eapply IH; eassumption|].
  do 4 rstep E. eapply IH; [|exact E].
  apply tupd_forall_w; [apply tupd_forall_w; [exact H|]|]; intros t Ht; apply W_retag, Ht.
Qed.

Lemma st_pass2_W : forall lone tokens r, Forall W tokens -> st_pass2 lone tokens = Ok r -> Forall W r.
Proof.
  induction lone as [|i rest IH]; intros tokens r H E; cbn [st_pass2] in E; [rfinish E; assumption|].
  match type of E with (if ?c then _ else _) = _ => destruct c end; [|eapply IH; eassumption].
  destruct (tget tokens i) as [ti|?|] eqn:T1; cbn [bind] in E; try discriminate E.
  match type of E with bind (tget tokens ?j) _ = _ => destruct (tget tokens j) as [tj|?|] eqn:T2 end; cbn [bind] in E; try discriminate E.
  pose proof (tget_W _ _ _ H T1). pose proof (tget_W _ _ _ H T2).
  eapply IH; [|exact E]. apply tupd_forall_w; [apply tupd_forall_w; [exact H|]|]; intros; assumption.
Qed.

Lemma strike_post_W ds tokens r : Forall W tokens -> strike_post ds tokens = Ok r -> Forall W r.
Proof.
  unfold strike_post. intros H E.
  destruct (st_pass1 (S (length ds)) ds tokens 0 []) as [[t1 lone]|?|] eqn:P1; cbn [bind] in E; try discriminate E.
  apply st_pass1_W in P1; [|exact H]. eapply st_pass2_W; eassumption.
Qed.

Lemma em_pass_W : forall fuel ds tokens i r, Forall W tokens -> em_pass fuel ds tokens i = Ok r -> Forall W r.
Proof.
  induction fuel as [|f IH]; intros ds tokens i r H E; cbn [em_pass] in E; [rfinish E; assumption|].
  destruct (i <? 0); [rfinish E; assumption|].
  rstep E. rstep E; [eapply IH; eassumption|].
  rstep E.
  match type of E with bind ?m _ = _ => destruct m as [isStrong|?|] end; cbn [bind] in E; try discriminate E.
  do 2 rstep E.
  assert (H2 : forall so sc tg mk,
               Forall W (tupd (tupd tokens (d_token x) (retag so tg 1 mk)) (d_token x0) (retag sc tg (-1) mk))).
  { intros so sc tg mk. apply tupd_forall_w; [apply tupd_forall_w; [exact H|]|]; intros t Ht; apply W_retag, Ht. }
  destruct isStrong.
  - do 4 rstep E. eapply IH; [|exact E].
    apply tupd_forall_w; [apply tupd_forall_w; [apply H2|]|]; intros t Ht; (eapply W_attrs; [|exact Ht]; reflexivity).
  - eapply IH; [|exact E]. apply H2.
Qed.

Lemma fj_W : forall tokens level carry, Forall W tokens -> Forall W (fj tokens level carry).
Proof.
  induction tokens as [|t rest IH]; intros level carry H; [constructor|].
  inversion H as [|? ? Ht Hr]; subst. cbn [fj].
  assert (V1 : W (set_level (match carry with Some c => set_content t (c ++ tcontent t) | None => t end)
                            (if tnesting t <? 0 then level - 1 else level))).
  { destruct carry; (eapply W_attrs; [|exact Ht]; reflexivity). }
  destruct rest as [|n rest'].
  - constructor; [exact V1 | constructor].
  - destruct (str_eqb (ttype t) s_text && str_eqb (ttype n) s_text); [apply IH; exact Hr|].
    constructor; [exact V1 | apply IH; exact Hr].
Qed.

Lemma each_meta_iw (f : istate -> nat -> res istate) (Hf : forall s id s', IW s -> f s id = Ok s' -> IW s') :
  forall metas st st', IW st -> each_meta f metas st = Ok st' -> IW st'.
Proof.
  induction metas as [|[id|] rest IH]; intros st st' HI H; cbn [each_meta] in H; [rfinish H; exact HI| |eapply IH; eassumption].
  destruct (f st id) as [s1|?|] eqn:E; cbn [bind] in H; try discriminate H.
  eapply IH; [eapply Hf; eassumption | exact H].
Qed.

Lemma on_all_delims_iw (f : istate -> nat -> res istate) (Hf : forall s id s', IW s -> f s id = Ok s' -> IW s') st st' :
  IW st -> on_all_delims f st = Ok st' -> IW st'.
Proof.
  unfold on_all_delims. intros HI H.
  destruct (f st (i_cur st)) as [s1|?|] eqn:E; cbn [bind] in H; try discriminate H.
  eapply each_meta_iw; [exact Hf | eapply Hf; eassumption | exact H].
Qed.

Lemma iapply2_iw name st st' : IW st -> iapply2 name st = Ok st' -> IW st'.
Proof.
  unfold iapply2. intros HI H.
  destruct (str_eqb name n_balance_pairs).
  { revert HI H. unfold r2_balance_pairs. apply on_all_delims_iw. intros s id s' HI H. rstep H. rfinish H. iw. }
  destruct (str_eqb name n_strikethrough).
  { revert HI H. unfold r2_strikethrough. apply on_all_delims_iw. intros s id s' [HT HE] H.
    destruct (strike_post (nth id (i_dstore s) []) (i_tokens s)) as [ts|?|] eqn:E; cbn [bind] in H; try discriminate H.
    apply strike_post_W in E; [|exact HT]. rfinish H. split; [exact E | exact HE]. }
  destruct (str_eqb name n_emphasis).
  { revert HI H. unfold r2_emphasis. apply on_all_delims_iw. intros s id s' [HT HE] H. cbv zeta in H.
    match type of H with bind ?m _ = _ => destruct m as [ts|?|] eqn:E end; cbn [bind] in H; try discriminate H.
    apply em_pass_W in E; [|exact HT]. rfinish H. split; [exact E | exact HE]. }
  destruct (str_eqb name n_fragments_join).
  { unfold r2_fragments_join in H. rfinish H. destruct HI as [HT HE]. split; [cbn; apply fj_W, HT | exact HE]. }
  rfinish H. exact HI.
Qed.

(* ---- the parser ---- *)

Lemma iapply_iw F (HF : FKW F) name st silent b st' :
  IW st -> iapply cfg rf cf lt F name st silent = Ok (b, st') -> IW st'.
Proof.
  unfold iapply. intros HI H.
  destruct (str_eqb name n_text); [eapply r_text_iw; eassumption|].
  destruct (str_eqb name n_linkify); [eapply r_linkify_iw; eassumption|].
  destruct (str_eqb name n_newline); [eapply r_newline_iw; eassumption|].
  destruct (str_eqb name n_escape); [eapply r_escape_iw; eassumption|].
  destruct (str_eqb name n_backticks); [eapply r_backticks_iw; eassumption|].
  destruct (str_eqb name n_strikethrough); [eapply r_strikethrough_iw; eassumption|].
  destruct (str_eqb name n_emphasis); [eapply r_emphasis_iw; eassumption|].
  destruct (str_eqb name n_link); [eapply r_link_iw; eassumption|].
  destruct (str_eqb name n_image); [eapply r_image_iw; eassumption|].
  destruct (str_eqb name n_autolink); [eapply r_autolink_iw; eassumption|].
  destruct (str_eqb name n_html_inline); [eapply r_html_inline_iw; eassumption|].
  destruct (str_eqb name n_entity); [eapply r_entity_iw; eassumption|].
  rfinish H. exact HI.
Qed.

Lemma first_rule_iw F (HF : FKW F) : forall names st silent bump b st',
  IW st -> first_rule cfg rf cf lt F names st silent bump = Ok (b, st') -> IW st'.
Proof.
  induction names as [|n rest IH]; intros st silent bump b st' HI H; cbn [first_rule] in H; [rfinish H; exact HI|].
  match type of H with bind (iapply _ _ _ _ _ _ ?s0 _) _ = _ =>
    destruct (iapply cfg rf cf lt F n s0 silent) as [[ok st1]|?|] eqn:IA end; cbn [bind] in H; try discriminate H.
  apply (iapply_iw F HF) in IA; [|destruct bump; iw].
  destruct ok; [rfinish H; destruct bump; iw|]. eapply IH; [|exact H]. destruct bump; iw.
Qed.

Lemma skip_token_iw F (HF : FKW F) st st' : IW st -> skip_token cfg rf cf lt F st = Ok st' -> IW st'.
Proof.
  unfold skip_token. intros HI H.
  destruct (zlookup (i_pos st) (i_cache st)); [rfinish H; iw|].
  match type of H with bind ?m _ = _ => destruct m as [[ok st1]|?|] eqn:FR end; cbn [bind] in H; try discriminate H.
  assert (H1 : IW st1).
  { destruct (i_level st <? ic_maxNesting cfg); [eapply (first_rule_iw F HF); eassumption | rfinish FR; iw]. }
  rfinish H. destruct ok; iw.
Qed.

Lemma tok_while_iw F (HF : FKW F) : forall fuel st endp ok st',
  IW st -> tok_while cfg rf cf lt fuel F st endp ok = Ok st' -> IW st'.
Proof.
  induction fuel as [|f IH]; intros st endp ok st' HI H; [discriminate H|].
  cbn [tok_while] in H.
  destruct (negb (i_pos st <? endp)); [rfinish H; exact HI|].
  match type of H with bind ?m _ = _ => destruct m as [[ok1 st1]|?|] eqn:FR end; cbn [bind] in H; try discriminate H.
  assert (H1 : IW st1).
  { destruct (i_level st <? ic_maxNesting cfg); [eapply (first_rule_iw F HF); eassumption | rfinish FR; iw]. }
  destruct ok1.
  - destruct (endp <=? i_pos st1); [rfinish H; exact H1 | eapply IH; eassumption].
  - rstep H. eapply IH; [|exact H]. iw.
Qed.

Lemma inline_tokenize_iw F (HF : FKW F) st st' : IW st -> inline_tokenize cfg rf cf lt F st = Ok st' -> IW st'.
Proof.
  unfold inline_tokenize. intros HI H.
  match type of H with bind ?m _ = _ => destruct m as [st1|?|] eqn:TW end; cbn [bind] in H; try discriminate H.
  apply (tok_while_iw F HF) in TW; [|exact HI]. rfinish H.
  destruct (i_pending st1); [exact TW | apply push_pending_iw, TW].
Qed.

Lemma run_rules2_iw : forall names st st', IW st -> run_rules2 names st = Ok st' -> IW st'.
Proof.
  induction names as [|n rest IH]; intros st st' HI H; cbn [run_rules2] in H; [rfinish H; exact HI|].
  destruct (iapply2 n st) as [s1|?|] eqn:E; cbn [bind] in H; try discriminate H.
  eapply IH; [eapply iapply2_iw; eassumption | exact H].
Qed.

Lemma ifs_FKW : forall depth, FKW (ifs cfg rf cf lt depth).
Proof.
  induction depth as [|d IH]; cbn [ifs].
  - split; intros s s' _ H; discriminate H.
  - split; cbn [f_tokenize f_skip]; intros s s' HI H.
    + eapply inline_tokenize_iw; eassumption.
    + eapply skip_token_iw; eassumption.
Qed.

(* ParserInline.parse: every href / src on the tokens it returns is empty or a validated normalizeLink result *)
Theorem inline_parse_urls src env tokens r :
  Forall W tokens -> env_good env -> inline_parse cfg rf cf lt src env tokens = Ok r -> Forall W r.
Proof.
  unfold inline_parse, inline_parse_with. intros HT HE H.
  match type of H with bind ?m _ = _ => destruct m as [st1|?|] eqn:TK end; cbn [bind] in H; try discriminate H.
  apply (inline_tokenize_iw _ (ifs_FKW _)) in TK; [|split; [exact HT | exact HE]].
  match type of H with bind ?m _ = _ => destruct m as [st2|?|] eqn:R2 end; cbn [bind] in H; try discriminate H.
  apply run_rules2_iw in R2; [|exact TK]. rfinish H. exact (proj1 R2).
Qed.

End IUrls.
