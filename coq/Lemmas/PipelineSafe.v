(* C04, end to end on the model: with options.html off (and no highlight callback), for EVERY
   source, env, rule configuration and value of the opaque dependencies, what MarkdownIt.render /
   renderInline returns is a concatenation of fixed renderer literals, "<tag" / "</tag" for tags of
   a fixed 26-name vocabulary, and escaped data -- no raw chunk.  Parser side (BlockKinds,
   InlineKinds) composed with the core chain and the renderer theorem (RenderLemmas). *)
From RecordUpdate Require Import RecordUpdate.
From MD Require Import Base.Py Base.Str Base.Regex Base.Opt Model.Token Model.Utils Model.StateBlock Model.Helpers
     Model.Url Model.Render Model.Core Model.Block Model.Inline Model.Pipeline
     Lemmas.StrLemmas Lemmas.RenderLemmas Lemmas.CoreLemmas Lemmas.BlockWF Lemmas.BlockKinds Lemmas.InlineKinds.

Local Arguments Z.eqb : simpl never.
Local Arguments str_eqb : simpl never.

Definition inline_tags : list str :=
  [s_br; s_code; s_a; [105; 109; 103]; s_s; [101; 109]; [115; 116; 114; 111; 110; 103]].
(* the tag vocabulary of the output: the block tags without the empty tag (which block_tags lists last,
   for the tokens that are never rendered through it) and the inline tags *)
Definition all_tags : list str := removelast block_tags ++ inline_tags.

Lemma no_empty_tag :
  ~ In [] all_tags /\ length all_tags = 26%nat
  /\ chunk_ok all_tags (CLit [60]) = false /\ chunk_ok all_tags (CLit [60; 47]) = false.
Proof.
  split; [|split; [reflexivity | split; reflexivity]].
  intros H. cbn in H. repeat (destruct H as [H|H]; [discriminate H|]). exact H.
Qed.

Lemma ok_tok_tt tags a b : ttype a = ttype b -> ttag a = ttag b -> ok_tok tags a -> ok_tok tags b.
Proof. unfold ok_tok, not_html. intros -> ->. exact (fun x => x). Qed.
Lemma ok_blk_tt tags a b : ttype a = ttype b -> ttag a = ttag b -> ok_blk tags a -> ok_blk tags b.
Proof. unfold ok_blk, ok_tok, not_html. intros -> ->. exact (fun x => x). Qed.

(* ---- vocabulary => ok_tok ---- *)

Lemma V_ok_tok cfg t : ic_html cfg = false -> V cfg t -> ok_tok all_tags t.
Proof.
  intros HH H. unfold V, is0 in H.
  repeat match goal with H : _ \/ _ |- _ => destruct H as [H|H] end;
    try (match goal with H : ic_html _ = true /\ _ |- _ => destruct H as [HT _]; rewrite HH in HT; discriminate HT end);
    match goal with H : ttype ?x = _ /\ ttag ?x = _ |- _ => destruct H as [A B] end; unfold ok_tok, not_html; rewrite A, B;
    (split; [first [right; reflexivity | left; unfold all_tags, block_tags, inline_tags; apply in_or_app; right; cbn; tauto] | split; reflexivity]).
Qed.

Lemma is_ok_tok ty tag t :
  In tag (removelast block_tags) \/ silent_ty ty = true \/ str_eqb ty s_inline = true ->
  str_eqb ty s_html_block = false -> str_eqb ty s_html_inline = false ->
  is ty tag t -> ok_blk all_tags t /\ (tchildren t = None \/ tchildren t = Some []).
Proof.
  intros HT H1 H2 (A & B & C & _). split; [|exact C]. unfold ok_blk, ok_tok, not_html. rewrite A, B.
  destruct HT as [HT|[HT|HT]].
  - left. split; [left; unfold all_tags; apply in_or_app; left; exact HT | split; assumption].
  - left. split; [right; exact HT | split; assumption].
  - right. split; [exact HT | split; assumption].
Qed.

Ltac tag_tac := first [ left; unfold block_tags, hN; cbn; tauto | right; left; reflexivity | right; right; reflexivity ].

Lemma P_rule_ok_tok cfg n t : c_html cfg = false -> P_rule cfg n t ->
  ok_blk all_tags t /\ (tchildren t = None \/ tchildren t = Some []).
Proof.
  intros HH. unfold P_rule.
  repeat match goal with |- (if ?c then _ else _) -> _ => destruct c end;
    unfold P_table, P_code, P_fence, P_blockquote, P_hr, P_list, P_reference, P_html, P_heading, P_paragraph;
    intros H.
  all: try contradiction.
  all: try (match goal with H : c_html _ = true /\ _ |- _ => destruct H as [HT _]; rewrite HH in HT; discriminate HT end).
  all: repeat match goal with H : _ \/ _ |- _ => destruct H as [H|H] end.
  all: try (match goal with H : exists _, _ |- _ => destruct H as (l & Hl & [H|H]) end;
            assert (HL : l = 1 \/ l = 2 \/ l = 3 \/ l = 4 \/ l = 5 \/ l = 6) by lia;
            destruct HL as [->|[->|[->|[->|[->| ->]]]]]).
  all: eapply is_ok_tok; [| | |exact H]; [tag_tac | reflexivity | reflexivity].
Qed.

(* a block token: in the vocabulary, and if it is of type inline its children are still empty *)
Definition fresh_ok (t : token) : Prop :=
  ok_blk all_tags t /\ (tchildren t = None \/ tchildren t = Some []).

Lemma fresh_ok_top t : fresh_ok t -> ok_top all_tags t.
Proof.
  intros [H C]. split; [exact H|]. intros _ ch E. destruct C as [C|C]; rewrite C in E; [discriminate E|].
  injection E as <-. constructor.
Qed.

Section Safe.
Context (cfg : pcfg) (rf cf lt : str -> str).
Context (HB : c_html (p_block cfg) = false) (HI : ic_html (p_inline cfg) = false) (CS : chains_sub (p_block cfg)).

(* the invariant of the core chain: every token is fine for the renderer, and every token of type
   inline has children from the inline vocabulary *)
Definition tok_inv (t : token) : Prop :=
  ok_blk all_tags t /\ forall ch, tchildren t = Some ch -> str_eqb (ttype t) s_inline = true -> Forall (V (p_inline cfg)) ch.

Lemma tok_inv_top t : tok_inv t -> ok_top all_tags t.
Proof.
  intros [H C]. split; [exact H|]. intros E ch Ech. specialize (C ch Ech E).
  eapply Forall_impl; [|exact C]. intros x Hx. eapply V_ok_tok; eassumption.
Qed.

Lemma fresh_tok_inv t : fresh_ok t -> tok_inv t.
Proof.
  intros [H C]. split; [exact H|]. intros ch E _. destruct C as [C|C]; rewrite C in E; [discriminate E|].
  injection E as <-. constructor.
Qed.

Lemma inline_all_inv : forall tokens env r,
  Forall tok_inv tokens -> inline_all cfg rf cf lt tokens env = Ok r -> Forall tok_inv r.
Proof.
  induction tokens as [|t rest IH]; intros env r H E; cbn [inline_all] in E; [rfinish E; constructor|].
  inversion H as [|? ? Ht Hr]; subst.
  match type of E with bind ?m _ = _ => destruct m as [t'|?|] eqn:E1 end; cbn [bind] in E; try discriminate E.
  destruct (inline_all cfg rf cf lt rest env) as [rest'|?|] eqn:E2; cbn [bind] in E; try discriminate E.
  rfinish E. constructor; [|eapply IH; eassumption].
  destruct (str_eqb (ttype t) s_inline) eqn:TI; [|rfinish E1; exact Ht].
  match type of E1 with bind ?m _ = _ => destruct m as [ch|?|] eqn:IP end; cbn [bind] in E1; try discriminate E1.
  rfinish E1. destruct Ht as [Hok Hch].
  apply inline_parse_kinds in IP.
  - split; [exact Hok|]. intros ch' E' _. cbn in E'. injection E' as <-. exact IP.
  - destruct (tchildren t) as [l|] eqn:TC; [apply (Hch l eq_refl TI) | constructor].
Qed.

(* tokens that agree after erasing text contents (also inside children) satisfy the invariant together *)
Lemma erase_text_tt a b : erase_text a = erase_text b -> ttype a = ttype b /\ ttag a = ttag b.
Proof.
  unfold erase_text. intros H.
  destruct (str_eqb (ttype a) s_text), (str_eqb (ttype b) s_text);
    apply (f_equal (fun t => (ttype t, ttag t))) in H; cbn in H; injection H as -> ->; split; reflexivity.
Qed.

Lemma erase_map_V : forall l l', map erase_text l' = map erase_text l -> Forall (V (p_inline cfg)) l -> Forall (V (p_inline cfg)) l'.
Proof.
  induction l as [|x l IH]; intros [|y l'] E H; try discriminate E; [constructor|].
  cbn [map] in E. injection E as E1 E2. inversion H; subst.
  constructor; [|apply IH; assumption].
  destruct (erase_text_tt _ _ E1) as [A B]. eapply tt_V; [exact A | exact B | assumption].
Qed.

Lemma erase_inline_inv t t' : erase_inline t' = erase_inline t -> tok_inv t -> tok_inv t'.
Proof.
  unfold erase_inline. intros E [Hok Hch].
  destruct (tchildren t) as [ch|] eqn:C, (tchildren t') as [ch'|] eqn:C'.
  - pose proof (f_equal (fun x => (ttype x, ttag x, tchildren x)) E) as E3. cbn in E3. injection E3 as T1 T2 T3.
    split.
    + exact (ok_blk_tt _ _ _ (eq_sym T1) (eq_sym T2) Hok).
    + intros c Ec Ei. rewrite C' in Ec. injection Ec as <-. rewrite T1 in Ei. eapply erase_map_V; [exact T3 | apply (Hch ch eq_refl Ei)].
  - pose proof (f_equal tchildren E) as E3. cbn in E3. rewrite C' in E3. discriminate E3.
  - pose proof (f_equal tchildren E) as E3. cbn in E3. rewrite C in E3. discriminate E3.
  - subst t'. split; [exact Hok|]. intros c Ec. rewrite C in Ec. discriminate Ec.
Qed.

Lemma erase_list_inv : forall l l', map erase_inline l' = map erase_inline l -> Forall tok_inv l -> Forall tok_inv l'.
Proof.
  induction l as [|x l IH]; intros [|y l'] E H; try discriminate E; [constructor|].
  cbn [map] in E. injection E as E1 E2. inversion H; subst.
  constructor; [eapply erase_inline_inv; eassumption | apply IH; assumption].
Qed.

(* text_join *)
Lemma join_tok_V t : V (p_inline cfg) t -> V (p_inline cfg) (join_tok t).
Proof.
  intros H. destruct (str_eqb (ttype t) s_text_special) eqn:E.
  - apply str_eqb_eq in E.
    assert (A : ttype (join_tok t) = s_text) by (destruct t; cbn in *; rewrite E; reflexivity).
    assert (B : ttag (join_tok t) = ttag t) by (destruct t; reflexivity).
    unfold V, is0 in H.
    repeat match goal with H : _ \/ _ |- _ => destruct H as [H|H] end;
      try (match goal with H : ic_html _ = true /\ _ |- _ => destruct H as [_ H] end);
      destruct H as [H1 H2]; rewrite E in H1; try discriminate H1.
    left. split; [exact A | rewrite B; exact H2].
  - assert (A : ttype (join_tok t) = ttype t) by (destruct t; cbn in *; rewrite E; reflexivity).
    assert (B : ttag (join_tok t) = ttag t) by (destruct t; reflexivity).
    eapply tt_V; [exact A | exact B | exact H].
Qed.

Lemma join_push_V acc t : Forall (V (p_inline cfg)) acc -> V (p_inline cfg) t -> Forall (V (p_inline cfg)) (join_push acc t).
Proof.
  intros Ha Ht. unfold join_push. destruct acc as [|p acc']; [constructor; [exact Ht | constructor]|].
  inversion Ha; subst.
  destruct (str_eqb (ttype t) s_text && str_eqb (ttype p) s_text).
  - constructor; [|assumption]. eapply tt_V; [| |eassumption]; reflexivity.
  - constructor; [exact Ht | exact Ha].
Qed.

Lemma join_children_V l : Forall (V (p_inline cfg)) l -> Forall (V (p_inline cfg)) (join_children l).
Proof.
  unfold join_children. intros H. apply Forall_rev.
  assert (G : forall l acc, Forall (V (p_inline cfg)) l -> Forall (V (p_inline cfg)) acc ->
              Forall (V (p_inline cfg)) (fold_left (fun acc y => join_push acc (join_tok y)) l acc)).
  { induction l0 as [|y l0 IH]; intros acc Hl Ha; cbn [fold_left]; [exact Ha|].
    inversion Hl; subst. apply IH; [assumption|]. apply join_push_V; [exact Ha | apply join_tok_V; assumption]. }
  apply G; [exact H | constructor].
Qed.

Lemma text_join_inv l : Forall tok_inv l -> Forall tok_inv (text_join l).
Proof.
  unfold text_join. intros H. apply Forall_map. eapply Forall_impl; [|exact H].
  intros t HT. destruct (str_eqb (ttype t) s_inline) eqn:E; [|exact HT]. destruct HT as [Hok Hch].
  split; [exact Hok|]. intros ch Ec _. cbn in Ec. injection Ec as <-.
  apply join_children_V. destruct (tchildren t) as [c|] eqn:C; [apply (Hch c eq_refl E) | constructor].
Qed.

(* ---- the core chain ---- *)

Lemma core_rule_inv name st st' :
  Forall tok_inv (c_tokens st) -> core_rule cfg rf cf lt name st = Ok st' -> Forall tok_inv (c_tokens st').
Proof.
  unfold core_rule. intros H E.
  destruct (str_eqb name n_normalize); [rfinish E; exact H|].
  destruct (str_eqb name n_block).
  { destruct (c_inlineMode st).
    - rfinish E. cbn [c_tokens]. apply Forall_app. split; [exact H|]. constructor; [|constructor].
      apply fresh_tok_inv. split; [|right; reflexivity]. right. unfold not_html.
      split; [reflexivity | split; reflexivity].
    - destruct (block_parse (p_block cfg) rf cf (c_src st) (c_env st) (c_tokens st)) as [b|?|] eqn:BP; cbn [bind] in E; try discriminate E.
      rfinish E. cbn [c_tokens].
      destruct (block_parse_kinds _ _ _ CS _ _ _ _ BP) as (seg & Tk & F). rewrite Tk.
      apply Forall_app. split; [exact H|]. eapply Forall_impl; [|exact F].
      intros t (n & _ & P). apply fresh_tok_inv. eapply P_rule_ok_tok; [exact HB | exact P]. }
  destruct (str_eqb name n_inline).
  { destruct (inline_all cfg rf cf lt (c_tokens st) (c_env st)) as [ts|?|] eqn:IA; cbn [bind] in E; try discriminate E.
    rfinish E. cbn [c_tokens]. eapply inline_all_inv; eassumption. }
  destruct (str_eqb name n_linkify); [destruct (p_linkify cfg); [discriminate E | rfinish E; exact H]|].
  destruct (str_eqb name n_replacements).
  { rfinish E. cbn [c_tokens]. eapply erase_list_inv; [apply replacements_shape | exact H]. }
  destruct (str_eqb name n_smartquotes).
  { rfinish E. cbn [c_tokens]. eapply erase_list_inv; [apply smartquotes_shape | exact H]. }
  destruct (str_eqb name n_text_join).
  { rfinish E. cbn [c_tokens]. apply text_join_inv, H. }
  rfinish E. exact H.
Qed.

Lemma core_process_inv : forall names st st',
  Forall tok_inv (c_tokens st) -> core_process cfg rf cf lt names st = Ok st' -> Forall tok_inv (c_tokens st').
Proof.
  induction names as [|n rest IH]; intros st st' H E; cbn [core_process] in E; [rfinish E; exact H|].
  destruct (core_rule cfg rf cf lt n st) as [s1|?|] eqn:CR; cbn [bind] in E; try discriminate E.
  eapply IH; [eapply core_rule_inv; eassumption | exact E].
Qed.

(* parse / parseInline: every token is fine for the renderer *)
Theorem parse_tokens_ok src env ts env' :
  parse cfg rf cf lt src env = Ok (ts, env') -> Forall (ok_top all_tags) ts.
Proof.
  unfold parse. intros E.
  destruct (core_process cfg rf cf lt (p_core cfg) (mkC src env [] false)) as [st|?|] eqn:CP; cbn [bind] in E; try discriminate E.
  rfinish E. apply core_process_inv in CP; [|constructor].
  eapply Forall_impl; [|exact CP]. intros t. apply tok_inv_top.
Qed.

Theorem parse_inline_tokens_ok src env ts env' :
  parse_inline cfg rf cf lt src env = Ok (ts, env') -> Forall (ok_top all_tags) ts.
Proof.
  unfold parse_inline. intros E.
  destruct (core_process cfg rf cf lt (p_core cfg) (mkC src env [] true)) as [st|?|] eqn:CP; cbn [bind] in E; try discriminate E.
  rfinish E. apply core_process_inv in CP; [|constructor].
  eapply Forall_impl; [|exact CP]. intros t. apply tok_inv_top.
Qed.

(* render / renderInline: the output is the concatenation of chunks none of which is raw *)
Theorem render_md_safe (HH : o_highlight (p_render cfg) = None) src env h env' :
  render_md cfg rf cf lt src env = Ok (h, env') ->
  exists cs, h = html_of cs /\ forallb (chunk_ok all_tags) cs = true.
Proof.
  unfold render_md. intros E.
  destruct (parse cfg rf cf lt src env) as [[ts e1]|?|] eqn:P; cbn [bind] in E; try discriminate E.
  apply parse_tokens_ok in P.
  unfold render in E.
  destruct (render_list (p_render cfg) None ts) as [[cs ts']|?|] eqn:R; cbn [bind] in E; try discriminate E.
  rfinish E. exists cs. split; [reflexivity|]. eapply render_list_ok; eassumption.
Qed.

Theorem render_inline_md_safe (HH : o_highlight (p_render cfg) = None) src env h env' :
  render_inline_md cfg rf cf lt src env = Ok (h, env') ->
  exists cs, h = html_of cs /\ forallb (chunk_ok all_tags) cs = true.
Proof.
  unfold render_inline_md. intros E.
  destruct (parse_inline cfg rf cf lt src env) as [[ts e1]|?|] eqn:P; cbn [bind] in E; try discriminate E.
  apply parse_inline_tokens_ok in P.
  unfold render in E.
  destruct (render_list (p_render cfg) None ts) as [[cs ts']|?|] eqn:R; cbn [bind] in E; try discriminate E.
  rfinish E. exists cs. split; [reflexivity|]. eapply render_list_ok; eassumption.
Qed.

End Safe.

(* ---- the hypotheses are satisfiable: a concrete html-off configuration and document ---- *)

Definition ex_block : bcfg :=
  mkBCfg [nm_code; nm_fence; nm_blockquote; nm_hr; nm_list; nm_reference; nm_html_block; nm_heading; nm_lheading; nm_paragraph]
         (fun ch => if str_eqb ch nm_paragraph then [nm_fence; nm_blockquote; nm_hr; nm_list; nm_html_block; nm_heading]
                    else if str_eqb ch nm_blockquote then [nm_fence; nm_blockquote; nm_hr; nm_list; nm_html_block; nm_heading]
                    else if str_eqb ch nm_list then [nm_fence; nm_blockquote; nm_hr; nm_html_block; nm_heading]
                    else if str_eqb ch nm_reference then [nm_blockquote; nm_list; nm_html_block; nm_heading] else [])
         true 20 false false.
Definition ex_inline : icfg :=
  mkICfg [n_text; n_newline; n_escape; n_backticks; n_emphasis; n_link; n_image; n_autolink; n_html_inline; n_entity]
         [n_balance_pairs; n_emphasis; n_fragments_join] 20 false false false.
Definition ex_cfg : pcfg :=
  mkPCfg [n_normalize; n_block; n_inline; n_text_join] ex_block ex_inline false [] false (mkROpts false false [] None).
(* "# a *b*\n\n> - c <x> & [l](/u)\n" *)
Definition ex_src : str :=
  [35; 32; 97; 32; 42; 98; 42; 10; 10; 62; 32; 45; 32; 99; 32; 60; 120; 62; 32; 38; 32; 91; 108; 93; 40; 47; 117; 41; 10].

Example ex_chains_sub : chains_sub ex_block.
Proof.
  intros ch n H. unfold ex_block in *. cbn [c_term c_rules] in *.
  destruct (str_eqb ch nm_paragraph); [cbn in *; tauto|].
  destruct (str_eqb ch nm_blockquote); [cbn in *; tauto|].
  destruct (str_eqb ch nm_list); [cbn in *; tauto|].
  destruct (str_eqb ch nm_reference); [cbn in *; tauto|]. contradiction H.
Qed.

Example render_safe_applies :
  c_html (p_block ex_cfg) = false /\ ic_html (p_inline ex_cfg) = false /\ o_highlight (p_render ex_cfg) = None
  /\ exists h e, render_md ex_cfg (fun s => s) (fun s => s) (fun s => s) ex_src env0 = Ok (h, e)
                 /\ 100 < len h.
Proof.
  repeat split. eexists. eexists. split; [vm_compute; reflexivity | vm_compute; reflexivity].
Qed.
