(* C05: the alphabet of mdurl.encode, and what validateLink guarantees on it. *)
From MD Require Import Base.Py Base.Str Base.Opt Model.Utils Model.Url.
From MD Require Import Gen.Tables.
From Coq Require Import ZifyBool.

Local Arguments Z.eqb : simpl never.
Local Arguments Z.ltb : simpl never.
Local Arguments Z.leb : simpl never.

(* URL-safe ASCII: letters, digits, the excluded punctuation, and % *)
Definition url_char (c : Z) : bool := is_alnum c || mem_z c encode_default_chars || (c =? 37).

Lemma hex_digit_ok n : 0 <= n < 16 -> url_char (hex_digit n) = true.
Proof.
  intros H. unfold url_char, hex_digit, is_alnum.
  destruct (n <? 10) eqn:E; apply Bool.orb_true_iff; left; apply Bool.orb_true_iff; left; lia.
Qed.

Lemma pct_ok b : 0 <= b < 256 -> forallb url_char (pct b) = true.
Proof.
  intros H. unfold pct. cbn [forallb].
  rewrite (hex_digit_ok (b / 16)) by (split; [apply Z.div_pos; lia | apply Z.div_lt_upper_bound; lia]).
  rewrite (hex_digit_ok (b mod 16)) by (apply Z.mod_pos_bound; lia). reflexivity.
Qed.

Lemma enc_ascii_ok c : 0 <= c < 128 -> forallb url_char (enc_ascii c) = true.
Proof.
  intros H. unfold enc_ascii. destruct (is_alnum c || mem_z c encode_default_chars) eqn:E.
  - cbn [forallb]. unfold url_char. rewrite E. reflexivity.
  - apply pct_ok. lia.
Qed.

Lemma utf8_bytes_range c : 0 <= c < 1114112 -> Forall (fun b => 0 <= b < 256) (utf8_bytes c).
Proof.
  intros H. unfold utf8_bytes.
  destruct (c <? 128) eqn:E1; [repeat constructor; lia|].
  destruct (c <? 2048) eqn:E2.
  { repeat constructor; try (pose proof (Z.mod_pos_bound c 64 ltac:(lia)); lia);
      try (pose proof (Z.div_pos c 64 ltac:(lia) ltac:(lia)); lia);
      assert (c / 64 < 32) by (apply Z.div_lt_upper_bound; lia); lia. }
  destruct (c <? 65536) eqn:E3.
  { repeat constructor; try (pose proof (Z.mod_pos_bound c 64 ltac:(lia)); lia);
      try (pose proof (Z.mod_pos_bound (c / 64) 64 ltac:(lia)); lia);
      try (pose proof (Z.div_pos c 4096 ltac:(lia) ltac:(lia)); lia);
      assert (c / 4096 < 16) by (apply Z.div_lt_upper_bound; lia); lia. }
  repeat constructor; try (pose proof (Z.mod_pos_bound c 64 ltac:(lia)); lia);
    try (pose proof (Z.mod_pos_bound (c / 64) 64 ltac:(lia)); lia);
    try (pose proof (Z.mod_pos_bound (c / 4096) 64 ltac:(lia)); lia);
    try (pose proof (Z.div_pos c 262144 ltac:(lia) ltac:(lia)); lia);
    assert (c / 262144 < 8) by (apply Z.div_lt_upper_bound; lia); lia.
Qed.

Lemma enc_unicode_ok c : 0 <= c < 1114112 -> forallb url_char (enc_unicode c) = true.
Proof.
  intros H. unfold enc_unicode. pose proof (utf8_bytes_range c H) as F.
  induction F as [|b l Hb Hl IH]; [reflexivity|]. cbn [flat_map]. rewrite forallb_app, pct_ok by exact Hb. exact IH.
Qed.

Definition code_point (c : Z) : Prop := 0 <= c < 1114112.

(* C05: every character mdurl.encode emits is URL-safe ASCII, for every string of code points *)
Theorem encode_alphabet s : Forall code_point s -> forallb url_char (encode s) = true.
Proof.
  unfold encode. generalize (S (length s)) as fuel. intros fuel; revert s.
  induction fuel as [|f IH]; intros s H; [reflexivity|]. cbn [encode_fuel].
  destruct s as [|c rest]; [reflexivity|]. inversion H as [|? ? Hc Hr]; subst.
  assert (Hone : forallb url_char (if c <? 128 then enc_ascii c
                                   else if (55296 <=? c) && (c <=? 57343) then s_fffd_pct else enc_unicode c) = true).
  { destruct (c <? 128) eqn:E; [apply enc_ascii_ok; unfold code_point in Hc; lia|].
    destruct ((55296 <=? c) && (c <=? 57343)); [reflexivity | apply enc_unicode_ok, Hc]. }
  destruct rest as [|a [|b rest2]].
  - rewrite forallb_app, Hone. apply IH. constructor.
  - rewrite forallb_app, Hone. apply IH. exact Hr.
  - destruct ((c =? 37) && is_hexdigit a && is_hexdigit b) eqn:E.
    + apply Bool.andb_true_iff in E. destruct E as [E Eb]. apply Bool.andb_true_iff in E. destruct E as [Ec Ea].
      cbn [forallb].
      assert (Hh : forall x, is_hexdigit x = true -> url_char x = true).
      { intros x Hx. unfold url_char, is_alnum. unfold is_hexdigit in Hx.
        apply Bool.orb_true_iff. left. apply Bool.orb_true_iff. left. lia. }
      rewrite (Hh a Ea), (Hh b Eb).
      assert (Hp : url_char 37 = true) by reflexivity. rewrite Hp. cbn [andb].
      apply IH. inversion Hr as [|? ? _ Hr2]; subst. inversion Hr2; subst. assumption.
    + rewrite forallb_app, Hone. apply IH. exact Hr.
Qed.

(* URL-safe ASCII contains no blank, control, quote, angle bracket or non-ASCII character *)
Lemma url_char_facts c : url_char c = true ->
  33 <= c < 127 /\ c <> 34 /\ c <> 60 /\ c <> 62 /\ c <> 96 /\ c <> 92 /\ is_py_space c = false.
Proof.
  unfold url_char, is_alnum. intros H.
  assert (D : mem_z c encode_default_chars = true -> In c encode_default_chars).
  { unfold mem_z. rewrite existsb_exists. intros [x [Hx E]]. apply Z.eqb_eq in E. subst. exact Hx. }
  assert (R : 33 <= c < 127 /\ c <> 34 /\ c <> 60 /\ c <> 62 /\ c <> 96 /\ c <> 92).
  { apply Bool.orb_true_iff in H. destruct H as [H|H]; [|lia].
    apply Bool.orb_true_iff in H. destruct H as [H|H]; [lia|].
    apply D in H. unfold encode_default_chars in H. cbn [In] in H.
    repeat (destruct H as [H|H]; [subst; lia|]). contradiction. }
  split; [apply R|]. repeat (split; [apply R|]).
  unfold is_py_space, mem_z, py_space. cbn [existsb].
  repeat (apply Bool.orb_false_iff; split; [apply Z.eqb_neq; lia|]). reflexivity.
Qed.

Lemma strip_noop s : forallb url_char s = true -> py_strip s = s.
Proof.
  intros H. unfold py_strip, strip_by, rstrip_by.
  assert (L : forall t, forallb url_char t = true -> lstrip_by is_py_space t = t).
  { intros t Ht. destruct t as [|c t]; [reflexivity|]. cbn [forallb] in Ht. apply Bool.andb_true_iff in Ht.
    destruct Ht as [Hc _]. cbn [lstrip_by]. destruct (url_char_facts c Hc) as [_ [_ [_ [_ [_ [_ E]]]]]]. rewrite E. reflexivity. }
  rewrite (L s H). rewrite L; [apply rev_involutive|].
  rewrite forallb_forall in *. intros x Hx. apply H. apply in_rev. exact Hx.
Qed.

(* what the validator guarantees for an emitted (encoded) URL h: read case-insensitively, it
   does not begin with vbscript: javascript: or file:, and if it begins with data: then with
   data:image/gif; png; jpeg; or webp;  -- leading/trailing blanks and controls, and embedded
   TAB/LF/CR, which a browser would ignore, cannot occur in h at all (url_char_facts) *)
Lemma starts_head a p u : starts_with (a :: p) u = true -> exists t, u = a :: t.
Proof.
  destruct u as [|c t]; cbn [starts_with]; intros H; [discriminate|].
  apply Bool.andb_true_iff in H. destruct H as [H _]. apply Z.eqb_eq in H. subst. eauto.
Qed.

Lemma good_data_head u : good_data u = true -> exists t, u = 100 :: t.
Proof.
  unfold good_data, p_img. intros H.
  repeat (apply Bool.orb_true_iff in H; destruct H as [H|H]); cbn [app] in H; eapply starts_head; exact H.
Qed.

Theorem validate_scheme h :
  forallb url_char h = true -> validate_link h = true ->
  starts_with p_vbscript (lower h) = false /\ starts_with p_javascript (lower h) = false
  /\ starts_with p_file (lower h) = false
  /\ (starts_with p_data (lower h) = true -> good_data (lower h) = true).
Proof.
  intros Ha Hv. unfold validate_link in Hv. rewrite (strip_noop h Ha) in Hv.
  unfold bad_proto in Hv.
  destruct (starts_with p_vbscript (lower h)) eqn:E1.
  { cbn [orb] in Hv. exfalso. destruct (good_data_head _ Hv) as [t Ht].
    destruct (starts_head _ _ _ E1) as [t' Ht']. congruence. }
  destruct (starts_with p_javascript (lower h)) eqn:E2.
  { cbn [orb] in Hv. exfalso. destruct (good_data_head _ Hv) as [t Ht].
    destruct (starts_head _ _ _ E2) as [t' Ht']. congruence. }
  destruct (starts_with p_file (lower h)) eqn:E3.
  { cbn [orb] in Hv. exfalso. destruct (good_data_head _ Hv) as [t Ht].
    destruct (starts_head _ _ _ E3) as [t' Ht']. congruence. }
  cbn [orb] in Hv. repeat split; try reflexivity. intros E4. rewrite E4 in Hv. exact Hv.
Qed.

(* whatever mdurl.parse/format/punycode do, an emitted link that passed the validator is safe *)
Corollary emitted_url_safe (reformat : str -> str) url :
  Forall code_point (reformat url) ->
  let h := normalize_link reformat url in
  validate_link h = true ->
  forallb url_char h = true
  /\ starts_with p_vbscript (lower h) = false /\ starts_with p_javascript (lower h) = false
  /\ starts_with p_file (lower h) = false
  /\ (starts_with p_data (lower h) = true -> good_data (lower h) = true).
Proof.
  intros Hc h Hv. pose proof (encode_alphabet _ Hc) as A. split; [exact A|]. apply validate_scheme; assumption.
Qed.
