(* C10, inline half: every inline token kind needs a producer.  The inline vocabulary of InlineKinds
   with a guard on every kind: the kind can occur only if one of the rules that produce it is in the
   chain (tokenizer rules) or in the post-processing chain (emphasis / strikethrough pairs). *)
From RecordUpdate Require Import RecordUpdate.
From MD Require Import Base.Py Base.Str Base.Regex Base.Opt Model.Token Model.Utils Model.StateBlock Model.Helpers
     Model.Url Model.Render Model.Core Model.Inline Lemmas.StrLemmas Lemmas.BlockWF Lemmas.BlockKinds.
From MD Require Import Gen.Regexes Gen.Tables.
From Coq Require Import ZifyBool.

Local Arguments Z.eqb : simpl never.
Local Arguments Z.ltb : simpl never.
Local Arguments Z.leb : simpl never.
Local Arguments str_eqb : simpl never.

(* (type, tag) only: image tokens carry parsed children *)
Definition is0 (ty tag : str) (t : token) : Prop := ttype t = ty /\ ttag t = tag.
Definition tt0 (P : token -> Prop) : Prop := forall t t', ttype t' = ttype t -> ttag t' = ttag t -> P t -> P t'.
Definition keeps0 (f : token -> token) : Prop := forall t, ttype (f t) = ttype t /\ ttag (f t) = ttag t.
Ltac solve_keeps0 :=
  let t := fresh "t" in
  intros t;
  repeat match goal with |- context [if ?c then _ else _] => destruct c end;
  split; reflexivity.

Section IKinds.
Context (cfg : icfg).
(* guards, one per kind: text_special, softbreak, hardbreak, code_inline, link_open/close, image, s_open/close, em/strong *)
Context (K_ts K_sb K_hb K_code K_link K_img K_s K_em : Prop).

(* the inline vocabulary *)
Definition V (t : token) : Prop :=
  is0 s_text [] t \/ (K_ts /\ is0 s_text_special_ [] t) \/ (K_sb /\ is0 s_softbreak s_br t) \/ (K_hb /\ is0 s_hardbreak s_br t)
  \/ (K_code /\ is0 s_code_inline s_code t) \/ (K_link /\ is0 s_link_open s_a t) \/ (K_link /\ is0 s_link_close s_a t)
  \/ (K_img /\ is0 s_image [105; 109; 103] t)
  \/ (ic_html cfg = true /\ is0 s_html_inline [] t)
  \/ (K_s /\ is0 s_s_open s_s t) \/ (K_s /\ is0 s_s_close s_s t)
  \/ (K_em /\ is0 [101; 109; 95; 111; 112; 101; 110] [101; 109] t) \/ (K_em /\ is0 [101; 109; 95; 99; 108; 111; 115; 101] [101; 109] t)
  \/ (K_em /\ is0 [115; 116; 114; 111; 110; 103; 95; 111; 112; 101; 110] [115; 116; 114; 111; 110; 103] t)
  \/ (K_em /\ is0 [115; 116; 114; 111; 110; 103; 95; 99; 108; 111; 115; 101] [115; 116; 114; 111; 110; 103] t).

Lemma tt_V : tt0 V.
Proof. intros t t' A B H. unfold V, is0 in *. rewrite ?A, ?B. exact H. Qed.

Definition IV (st : istate) : Prop := Forall V (i_tokens st).

Lemma iv_same st st' : i_tokens st' = i_tokens st -> IV st -> IV st'.
Proof. unfold IV. intros ->. exact (fun H => H). Qed.

Ltac vgoal := unfold V; solve [ split; reflexivity | split; [assumption | split; reflexivity] | left; vgoal0 | right; vgoal0 ]
with vgoal0 := solve [ split; reflexivity | split; [assumption | split; reflexivity] | left; vgoal0 | right; vgoal0 ].

Lemma V_keeps (f : token -> token) t : keeps0 f -> V t -> V (f t).
Proof. intros K H. destruct (K t) as [A B]. eapply tt_V; [exact A | exact B | exact H]. Qed.

Lemma push_pending_iv st : IV st -> IV (push_pending st).
Proof.
  unfold IV, push_pending. cbn. intros H. apply Forall_app. split; [exact H|]. constructor; [|constructor].
  left. split; reflexivity.
Qed.

Lemma ipush_iv st ty tag nesting f st' :
  IV st -> keeps0 f -> V (new_token ty tag nesting) -> ipush st ty tag nesting f = Ok st' -> IV st'.
Proof.
  intros H K HV E. unfold ipush in E.
  set (st0 := match i_pending st with [] => st | _ => push_pending st end) in *.
  assert (H0 : IV st0) by (unfold st0; destruct (i_pending st); [exact H | apply push_pending_iv, H]).
  match type of E with bind ?m _ = _ => destruct m as [st1|?|] eqn:E1 end; cbn [bind] in E; try discriminate E.
  assert (H1 : IV st1).
  { destruct (nesting <? 0); [|injection E1 as <-; exact H0].
    destruct (i_prev st0); [discriminate E1|]. injection E1 as <-. exact H0. }
  assert (HT : V (f (set_level (new_token ty tag nesting) (i_level st1)))).
  { apply V_keeps; [exact K|]. eapply tt_V; [| |exact HV]; reflexivity. }
  destruct (0 <? nesting); injection E as <-; unfold IV; cbn; apply Forall_app; (split; [exact H1 | constructor; [exact HT | constructor]]).
Qed.

(* ---- symbolic execution ---- *)

Lemma bind_assoc {A B C} (m : res A) (k : A -> res B) (k' : B -> res C) :
  bind (bind m k) k' = bind m (fun x => bind (k x) k').
Proof. destruct m; reflexivity. Qed.


Ltac iv := first [ assumption
                 | match goal with H : IV ?s |- IV _ => exact H end
                 | match goal with H : IV ?s |- IV _ => apply (iv_same s); [reflexivity | exact H] end ].

Ltac istep H :=
  match type of H with
  | bind (bind _ _) _ = Ok _ => rewrite bind_assoc in H
  | bind (ipush ?s ?ty ?tag ?n ?f) _ = Ok _ =>
      let s1 := fresh "s" in let IP := fresh "IP" in
      destruct (ipush s ty tag n f) as [s1|?|] eqn:IP; cbn [bind] in H; [|discriminate H|discriminate H];
      apply (ipush_iv s ty tag n f s1) in IP; [| iv | solve_keeps0 | vgoal]
  | ipush ?s ?ty ?tag ?n ?f = Ok ?s1 =>
      apply (ipush_iv s ty tag n f s1) in H; [| iv | solve_keeps0 | vgoal]
  | bind (Ok _) _ = Ok _ => cbn [bind] in H
  | bind (if ?c then _ else _) _ = Ok _ => destruct c
  | _ => rstep H
  end.

Ltac ifin H := rfinish H; iv.

(* ---- rules without callbacks ---- *)

Lemma r_text_iv st silent b st' : IV st -> r_text st silent = Ok (b, st') -> IV st'.
Proof. unfold r_text. intros HI H. repeat istep H; rfinish H; try iv. destruct silent; iv. Qed.

Lemma r_linkify_iv st silent b st' : IV st -> r_linkify cfg st silent = Ok (b, st') -> IV st'.
Proof. unfold r_linkify. intros HI H. repeat istep H; ifin H. Qed.

Lemma r_newline_iv st silent b st' : K_sb -> K_hb -> IV st -> r_newline st silent = Ok (b, st') -> IV st'.
Proof. unfold r_newline. intros G1 G2 HI H. repeat istep H; ifin H. Qed.

Lemma r_escape_iv st silent b st' : K_ts -> K_hb -> IV st -> r_escape st silent = Ok (b, st') -> IV st'.
Proof. unfold r_escape. intros G1 G2 HI H. repeat istep H; ifin H. Qed.

Lemma r_backticks_iv st silent b st' : K_code -> IV st -> r_backticks st silent = Ok (b, st') -> IV st'.
Proof.
  unfold r_backticks. intros G1 HI H.
  do 2 istep H; [rfinish H; iv|]. istep H. istep H.
  - rfinish H. destruct silent; iv.
  - istep H. destruct x1 as [found bts]. destruct found as [[ms me]|].
    + repeat istep H; ifin H.
    + rfinish H. destruct silent; iv.
Qed.

Lemma push_markers_iv : forall n st content marker length op cl st',
  IV st -> push_markers n st content marker length op cl = Ok st' -> IV st'.
Proof.
  induction n as [|n IH]; intros st content marker length op cl st' HI H; cbn [push_markers] in H; [rfinish H; iv|].
  istep H. eapply IH; [|exact H]. unfold add_delim. iv.
Qed.

Lemma r_strikethrough_iv st silent b st' : IV st -> r_strikethrough st silent = Ok (b, st') -> IV st'.
Proof.
  unfold r_strikethrough. intros HI H.
  istep H. istep H; [rfinish H; iv|]. istep H; [rfinish H; iv|].
  istep H. destruct x0 as [[op cl] n]. istep H; [rfinish H; iv|].
  istep H.
  - istep H. match type of H with bind ?m _ = _ => destruct m as [s2|?|] eqn:PM end; cbn [bind] in H; try discriminate H.
    apply push_markers_iv in PM; [|iv]. ifin H.
  - cbn [bind] in H. match type of H with bind ?m _ = _ => destruct m as [s2|?|] eqn:PM end; cbn [bind] in H; try discriminate H.
    apply push_markers_iv in PM; [|iv]. ifin H.
Qed.

Lemma r_emphasis_iv st silent b st' : IV st -> r_emphasis st silent = Ok (b, st') -> IV st'.
Proof.
  unfold r_emphasis. intros HI H.
  istep H. istep H; [rfinish H; iv|]. istep H; [rfinish H; iv|].
  istep H. destruct x0 as [[op cl] n].
  match type of H with bind ?m _ = _ => destruct m as [s2|?|] eqn:PM end; cbn [bind] in H; try discriminate H.
  apply push_markers_iv in PM; [|iv]. ifin H.
Qed.

Lemma push_autolink_iv lt st full url st' : K_link -> IV st -> push_autolink lt st full url = Ok st' -> IV st'.
Proof. unfold push_autolink. intros G1 HI H. repeat istep H. exact H. Qed.

Lemma r_autolink_iv rf lt st silent b st' : K_link -> IV st -> r_autolink rf lt st silent = Ok (b, st') -> IV st'.
Proof.
  unfold r_autolink. intros G1 HI H.
  istep H. istep H; [rfinish H; iv|]. istep H. istep H; [|rfinish H; iv].
  istep H.
  - istep H; [rfinish H; iv|]. destruct silent; cbn [bind] in H; [ifin H|].
    match type of H with bind ?m _ = _ => destruct m as [s2|?|] eqn:PA end; cbn [bind] in H; try discriminate H.
    apply push_autolink_iv in PA; [|assumption|iv]. ifin H.
  - istep H; [|rfinish H; iv]. istep H; [rfinish H; iv|]. destruct silent; cbn [bind] in H; [ifin H|].
    match type of H with bind ?m _ = _ => destruct m as [s2|?|] eqn:PA end; cbn [bind] in H; try discriminate H.
    apply push_autolink_iv in PA; [|assumption|iv]. ifin H.
Qed.

Lemma r_html_inline_iv st silent b st' : IV st -> r_html_inline cfg st silent = Ok (b, st') -> IV st'.
Proof.
  unfold r_html_inline. intros HI H.
  destruct (ic_html cfg) eqn:HT; cbn [negb] in H; [|rfinish H; iv].
  istep H. istep H; [rfinish H; iv|]. istep H. istep H; [rfinish H; iv|].
  istep H; [|rfinish H; iv].
  destruct silent; cbn [bind] in H; [ifin H|].
  rewrite !bind_assoc in H.
  match type of H with bind (ipush ?s ?ty ?tag ?n ?f) _ = _ =>
    destruct (ipush s ty tag n f) as [s1|?|] eqn:IP; cbn [bind] in H; [|discriminate H|discriminate H];
    apply (ipush_iv s ty tag n f s1) in IP; [| iv | solve_keeps0 | unfold V; do 8 right; left; split; [exact HT | split; reflexivity]]
  end.
  rfinish H.
  repeat match goal with |- context [if ?c then _ else _] => destruct c end; iv.
Qed.

Lemma r_entity_iv st silent b st' : K_ts -> IV st -> r_entity st silent = Ok (b, st') -> IV st'.
Proof.
  unfold r_entity. intros G1 HI H.
  istep H. istep H; [rfinish H; iv|]. istep H; [rfinish H; iv|]. istep H.
  istep H.
  - istep H; [|rfinish H; iv]. repeat istep H; ifin H.
  - istep H; [|rfinish H; iv]. istep H; [|rfinish H; iv]. repeat istep H; ifin H.
Qed.

(* ---- rules with callbacks ---- *)

Definition FK (F : ifuncs) : Prop :=
  (forall s s', IV s -> f_tokenize F s = Ok s' -> IV s') /\ (forall s s', IV s -> f_skip F s = Ok s' -> IV s').

Section WithF.
Context (rf cf : str -> str) (F : ifuncs) (HF : FK F).

Lemma label_loop_iv : forall fuel st level dn oldPos r st',
  IV st -> label_loop F fuel st level dn oldPos = Ok (r, st') -> IV st'.
Proof.
  induction fuel as [|f IH]; intros st level dn oldPos r st' HI H; [discriminate H|].
  cbn [label_loop] in H.
  istep H; [rfinish H; iv|]. istep H. istep H; [rfinish H; iv|].
  destruct (f_skip F st) as [st1|?|] eqn:SK; cbn [bind] in H; try discriminate H.
  destruct HF as [_ HS]. apply HS in SK; [|exact HI].
  istep H.
  - istep H; [eapply IH; [|exact H]; iv|]. istep H; [rfinish H; iv|]. eapply IH; [|exact H]; iv.
  - eapply IH; [|exact H]; iv.
Qed.

Lemma parse_link_label_iv st start dn r st' : IV st -> parse_link_label F st start dn = Ok (r, st') -> IV st'.
Proof. unfold parse_link_label. intros HI H. eapply label_loop_iv; [|exact H]. iv. Qed.

Lemma ref_branch_iv st pos ls le mx r st' : IV st -> ref_branch cf F st pos ls le mx = Ok (r, st') -> IV st'.
Proof.
  unfold ref_branch. intros HI H.
  destruct (e_refs (i_env st)) as [refs|]; [|rfinish H; iv].
  istep H.
  match type of H with bind ?m _ = _ => destruct m as [[[label0 pos1] st1]|?|] eqn:PL end; cbn [bind] in H; try discriminate H.
  assert (H1 : IV st1).
  { destruct x.
    - destruct (parse_link_label F st pos false) as [[p s']|?|] eqn:PP; cbn [bind] in PL; try discriminate PL.
      apply parse_link_label_iv in PP; [|exact HI]. destruct (0 <=? p); rfinish PL; iv.
    - rfinish PL. iv. }
  istep H; rfinish H; iv.
Qed.

Lemma r_link_iv st silent b st' : K_link -> IV st -> r_link cfg rf cf F st silent = Ok (b, st') -> IV st'.
Proof.
  unfold r_link. intros G1 HI H.
  istep H. istep H; [rfinish H; iv|].
  destruct (parse_link_label F st (i_pos st) true) as [[labelEnd st0]|?|] eqn:PL; cbn [bind] in H; try discriminate H.
  apply parse_link_label_iv in PL; [|exact HI].
  istep H; [rfinish H; iv|].
  istep H.
  match type of H with bind ?m _ = _ => destruct m as [inlf|?|] end; cbn [bind] in H; try discriminate H.
  destruct inlf as [[[[href0 title0] pos1] parseRef]|]; [|rfinish H; iv].
  match type of H with bind ?m _ = _ => destruct m as [[fin st1]|?|] eqn:FN end; cbn [bind] in H; try discriminate H.
  assert (H1 : IV st1).
  { destruct parseRef.
    - destruct (ref_branch cf F st0 pos1 (i_pos st + 1) labelEnd (i_posMax st)) as [[r s1]|?|] eqn:RB; cbn [bind] in FN; try discriminate FN.
      apply ref_branch_iv in RB; [|exact PL]. destruct r as [[[[h t] l] p]|]; rfinish FN; iv.
    - rfinish FN. iv. }
  destruct fin as [[[[href title] label] pos]|]; [|rfinish H; iv].
  destruct silent; cbn [bind] in H; [rfinish H; iv|].
  do 2 istep H. istep H.
  match type of H with bind (f_tokenize F ?a) _ = _ => destruct (f_tokenize F a) as [s2|?|] eqn:TK end;
    cbn [bind] in H; try discriminate H.
  destruct HF as [HT _]. apply HT in TK; [|iv].
  istep H. rfinish H. iv.
Qed.

Lemma r_image_iv st silent b st' : K_img -> IV st -> r_image cfg rf cf F st silent = Ok (b, st') -> IV st'.
Proof.
  unfold r_image. intros G1 HI H.
  istep H. istep H; [rfinish H; iv|].
  match type of H with bind ?m _ = _ => destruct m as [nb|?|] end; cbn [bind] in H; try discriminate H.
  destruct nb; [rfinish H; iv|].
  destruct (parse_link_label F st (i_pos st + 1) false) as [[labelEnd st0]|?|] eqn:PL; cbn [bind] in H; try discriminate H.
  apply parse_link_label_iv in PL; [|exact HI].
  istep H; [rfinish H; iv|].
  istep H.
  match type of H with bind ?m _ = _ => destruct m as [[fin st1]|?|] eqn:FN end; cbn [bind] in H; try discriminate H.
  assert (H1 : IV st1).
  { destruct x0.
    - repeat istep FN; try (rfinish FN; iv).
    - destruct (ref_branch cf F st0 (labelEnd + 1) (i_pos st + 2) labelEnd (i_posMax st)) as [[r s1]|?|] eqn:RB; cbn [bind] in FN; try discriminate FN.
      apply ref_branch_iv in RB; [|exact PL]. destruct r; rfinish FN; [iv|]. destruct (e_refs (i_env st0)); iv. }
  destruct fin as [[[[href title] label] pos]|]; [|rfinish H; iv].
  destruct silent; cbn [bind] in H; [rfinish H; iv|].
  repeat istep H. rfinish H. iv.
Qed.

End WithF.

(* ---- rules2 ---- *)

Lemma upd_nth_forall (f : token -> token) : forall n l, Forall V l -> (forall t, V t -> V (f t)) -> Forall V (upd_nth_l n f l).
Proof.
  unfold upd_nth_l. induction n as [|n IH]; intros [|x l] H Hf; try constructor; inversion H; subst; try assumption.
  - apply Hf; assumption.
  - apply IH; assumption.
Qed.

Lemma tupd_forall l i f : Forall V l -> (forall t, V t -> V (f t)) -> Forall V (tupd l i f).
Proof. intros H Hf. unfold tupd, update_nth_tok'. apply upd_nth_forall; assumption. Qed.

Lemma tget_V l i t : Forall V l -> tget l i = Ok t -> V t.
Proof.
  unfold tget. intros H E. cbv zeta in E.
  destruct ((if i <? 0 then i + len l else i) <? 0); [discriminate E|].
  destruct (nth_error l (Z.to_nat (if i <? 0 then i + len l else i))) as [x|] eqn:N; [|discriminate E].
  injection E as <-. rewrite Forall_forall in H. apply H. eapply nth_error_In; exact N.
Qed.

Lemma V_retag ty tag n mk t : V (new_token ty tag 0) -> V (retag ty tag n mk t).
Proof. intros H. eapply tt_V; [| |exact H]; reflexivity. Qed.

Lemma st_pass1_V (G : K_s) : forall fuel ds tokens i lone r l', Forall V tokens ->
  st_pass1 fuel ds tokens i lone = Ok (r, l') -> Forall V r.
Proof.
  induction fuel as [|f IH]; intros ds tokens i lone r l' H E; cbn [st_pass1] in E; [rfinish E; assumption|].
  destruct (negb (i <? len ds)); [rfinish E; assumption|].
  rstep E. rstep E; [eapply IH; eassumption|].
  do 4 rstep E. eapply IH; [|exact E].
  apply tupd_forall; [apply tupd_forall; [exact H|]|]; intros t _; apply V_retag; vgoal.
Qed.

Lemma st_pass2_V : forall lone tokens r, Forall V tokens -> st_pass2 lone tokens = Ok r -> Forall V r.
Proof.
  induction lone as [|i rest IH]; intros tokens r H E; cbn [st_pass2] in E; [rfinish E; assumption|].
  match type of E with (if ?c then _ else _) = _ => destruct c end; [|eapply IH; eassumption].
  destruct (tget tokens i) as [ti|?|] eqn:T1; cbn [bind] in E; try discriminate E.
  match type of E with bind (tget tokens ?j) _ = _ => destruct (tget tokens j) as [tj|?|] eqn:T2 end; cbn [bind] in E; try discriminate E.
  pose proof (tget_V _ _ _ H T1). pose proof (tget_V _ _ _ H T2).
  eapply IH; [|exact E]. apply tupd_forall; [apply tupd_forall; [exact H|]|]; intros; assumption.
Qed.

Lemma strike_post_V (G : K_s) ds tokens r : Forall V tokens -> strike_post ds tokens = Ok r -> Forall V r.
Proof.
  unfold strike_post. intros H E.
  destruct (st_pass1 (S (length ds)) ds tokens 0 []) as [[t1 lone]|?|] eqn:P1; cbn [bind] in E; try discriminate E.
  apply (st_pass1_V G) in P1; [|exact H]. eapply st_pass2_V; eassumption.
Qed.

Lemma em_pass_V (G : K_em) : forall fuel ds tokens i r, Forall V tokens -> em_pass fuel ds tokens i = Ok r -> Forall V r.
Proof.
  induction fuel as [|f IH]; intros ds tokens i r H E; cbn [em_pass] in E; [rfinish E; assumption|].
  destruct (i <? 0); [rfinish E; assumption|].
  rstep E. rstep E; [eapply IH; eassumption|].
  rstep E.
  match type of E with bind ?m _ = _ => destruct m as [isStrong|?|] end; cbn [bind] in E; try discriminate E.
  do 2 rstep E.
  assert (H2 : forall so sc tg mk, V (new_token so tg 0) -> V (new_token sc tg 0) ->
               Forall V (tupd (tupd tokens (d_token x) (retag so tg 1 mk)) (d_token x0) (retag sc tg (-1) mk))).
  { intros so sc tg mk A B. apply tupd_forall; [apply tupd_forall; [exact H|]|]; intros t _; apply V_retag; assumption. }
  destruct isStrong.
  - do 4 rstep E. eapply IH; [|exact E].
    apply tupd_forall; [apply tupd_forall; [apply H2; vgoal|]|]; intros t Ht; (eapply tt_V; [| |exact Ht]; reflexivity).
  - eapply IH; [|exact E]. apply H2; vgoal.
Qed.

Lemma fj_V : forall tokens level carry, Forall V tokens -> Forall V (fj tokens level carry).
Proof.
  induction tokens as [|t rest IH]; intros level carry H; [constructor|].
  inversion H as [|? ? Ht Hr]; subst. cbn [fj].
  assert (V1 : V (set_level (match carry with Some c => set_content t (c ++ tcontent t) | None => t end)
                            (if tnesting t <? 0 then level - 1 else level))).
  { destruct carry; (eapply tt_V; [| |exact Ht]; reflexivity). }
  destruct rest as [|n rest'].
  - constructor; [exact V1 | constructor].
  - destruct (str_eqb (ttype t) s_text && str_eqb (ttype n) s_text); [apply IH; exact Hr|].
    constructor; [exact V1 | apply IH; exact Hr].
Qed.

Lemma each_meta_iv (f : istate -> nat -> res istate) (Hf : forall s id s', IV s -> f s id = Ok s' -> IV s') :
  forall metas st st', IV st -> each_meta f metas st = Ok st' -> IV st'.
Proof.
  induction metas as [|[id|] rest IH]; intros st st' HI H; cbn [each_meta] in H; [rfinish H; exact HI| |eapply IH; eassumption].
  destruct (f st id) as [s1|?|] eqn:E; cbn [bind] in H; try discriminate H.
  eapply IH; [eapply Hf; eassumption | exact H].
Qed.

Lemma on_all_delims_iv (f : istate -> nat -> res istate) (Hf : forall s id s', IV s -> f s id = Ok s' -> IV s') st st' :
  IV st -> on_all_delims f st = Ok st' -> IV st'.
Proof.
  unfold on_all_delims. intros HI H.
  destruct (f st (i_cur st)) as [s1|?|] eqn:E; cbn [bind] in H; try discriminate H.
  eapply each_meta_iv; [exact Hf | eapply Hf; eassumption | exact H].
Qed.

Lemma r2_balance_pairs_iv st st' : IV st -> r2_balance_pairs st = Ok st' -> IV st'.
Proof.
  unfold r2_balance_pairs. apply on_all_delims_iv. intros s id s' HI H.
  rstep H. rfinish H. iv.
Qed.

Lemma r2_strikethrough_iv (G : K_s) st st' : IV st -> r2_strikethrough st = Ok st' -> IV st'.
Proof.
  unfold r2_strikethrough. apply on_all_delims_iv. intros s id s' HI H.
  destruct (strike_post (nth id (i_dstore s) []) (i_tokens s)) as [ts|?|] eqn:E; cbn [bind] in H; try discriminate H.
  apply (strike_post_V G) in E; [|exact HI]. rfinish H. exact E.
Qed.

Lemma r2_emphasis_iv (G : K_em) st st' : IV st -> r2_emphasis st = Ok st' -> IV st'.
Proof.
  unfold r2_emphasis. apply on_all_delims_iv. intros s id s' HI H. cbv zeta in H.
  match type of H with bind ?m _ = _ => destruct m as [ts|?|] eqn:E end; cbn [bind] in H; try discriminate H.
  apply (em_pass_V G) in E; [|exact HI]. rfinish H. exact E.
Qed.

Lemma r2_fragments_join_iv st st' : IV st -> r2_fragments_join st = Ok st' -> IV st'.
Proof. unfold r2_fragments_join. intros HI H. rfinish H. unfold IV. cbn. apply fj_V. exact HI. Qed.

(* ---- the parser ---- *)

Section Parser.
Context (rf cf lt : str -> str).

Definition guards (name : str) : Prop :=
  (str_eqb name n_newline = true -> K_sb /\ K_hb) /\ (str_eqb name n_escape = true -> K_ts /\ K_hb)
  /\ (str_eqb name n_backticks = true -> K_code) /\ (str_eqb name n_link = true -> K_link)
  /\ (str_eqb name n_image = true -> K_img) /\ (str_eqb name n_autolink = true -> K_link)
  /\ (str_eqb name n_entity = true -> K_ts).
Definition guards2 (name : str) : Prop :=
  (str_eqb name n_strikethrough = true -> K_s) /\ (str_eqb name n_emphasis = true -> K_em).

Lemma iapply_iv F (HF : FK F) name st silent b st' :
  guards name -> IV st -> iapply cfg rf cf lt F name st silent = Ok (b, st') -> IV st'.
Proof.
  unfold iapply. intros (Gnl & Gesc & Gbt & Glk & Gim & Gal & Gen) HI H.
  destruct (str_eqb name n_text); [eapply r_text_iv; eassumption|].
  destruct (str_eqb name n_linkify); [eapply r_linkify_iv; eassumption|].
  destruct (str_eqb name n_newline); [destruct (Gnl eq_refl); eapply r_newline_iv; eassumption|].
  destruct (str_eqb name n_escape); [destruct (Gesc eq_refl); eapply r_escape_iv; eassumption|].
  destruct (str_eqb name n_backticks); [eapply r_backticks_iv; [exact (Gbt eq_refl) | eassumption | eassumption]|].
  destruct (str_eqb name n_strikethrough); [eapply r_strikethrough_iv; eassumption|].
  destruct (str_eqb name n_emphasis); [eapply r_emphasis_iv; eassumption|].
  destruct (str_eqb name n_link); [eapply r_link_iv; [eassumption | exact (Glk eq_refl) | eassumption | eassumption]|].
  destruct (str_eqb name n_image); [eapply r_image_iv; [eassumption | exact (Gim eq_refl) | eassumption | eassumption]|].
  destruct (str_eqb name n_autolink); [eapply r_autolink_iv; [exact (Gal eq_refl) | eassumption | eassumption]|].
  destruct (str_eqb name n_html_inline); [eapply r_html_inline_iv; eassumption|].
  destruct (str_eqb name n_entity); [eapply r_entity_iv; [exact (Gen eq_refl) | eassumption | eassumption]|].
  rfinish H. exact HI.
Qed.

Lemma iapply2_iv name st st' : guards2 name -> IV st -> iapply2 name st = Ok st' -> IV st'.
Proof.
  unfold iapply2. intros (Gs & Ge) HI H.
  destruct (str_eqb name n_balance_pairs); [eapply r2_balance_pairs_iv; eassumption|].
  destruct (str_eqb name n_strikethrough); [eapply r2_strikethrough_iv; [exact (Gs eq_refl) | eassumption | eassumption]|].
  destruct (str_eqb name n_emphasis); [eapply r2_emphasis_iv; [exact (Ge eq_refl) | eassumption | eassumption]|].
  destruct (str_eqb name n_fragments_join); [eapply r2_fragments_join_iv; eassumption|].
  rfinish H. exact HI.
Qed.

Context (HG : forall n, In n (ic_rules cfg) -> guards n) (HG2 : forall n, In n (ic_rules2 cfg) -> guards2 n).

Lemma first_rule_iv F (HF : FK F) : forall names st silent bump b st', (forall n, In n names -> guards n) ->
  IV st -> first_rule cfg rf cf lt F names st silent bump = Ok (b, st') -> IV st'.
Proof.
  induction names as [|n rest IH]; intros st silent bump b st' GN HI H; cbn [first_rule] in H; [rfinish H; exact HI|].
  match type of H with bind (iapply _ _ _ _ _ _ ?s0 _) _ = _ =>
    destruct (iapply cfg rf cf lt F n s0 silent) as [[ok st1]|?|] eqn:IA end; cbn [bind] in H; try discriminate H.
  apply (iapply_iv F HF) in IA; [|exact (GN n (or_introl eq_refl))|destruct bump; iv].
  destruct ok; [rfinish H; destruct bump; iv|]. eapply IH; [|  |exact H]; [intros m Hm; apply GN; right; exact Hm|]. destruct bump; iv.
Qed.

Lemma skip_token_iv F (HF : FK F) st st' : IV st -> skip_token cfg rf cf lt F st = Ok st' -> IV st'.
Proof.
  unfold skip_token. intros HI H.
  destruct (zlookup (i_pos st) (i_cache st)); [rfinish H; iv|].
  match type of H with bind ?m _ = _ => destruct m as [[ok st1]|?|] eqn:FR end; cbn [bind] in H; try discriminate H.
  assert (H1 : IV st1).
  { destruct (i_level st <? ic_maxNesting cfg); [eapply (first_rule_iv F HF); [exact HG | | exact FR]; eassumption | rfinish FR; iv]. }
  rfinish H. destruct ok; iv.
Qed.

Lemma tok_while_iv F (HF : FK F) : forall fuel st endp ok st',
  IV st -> tok_while cfg rf cf lt fuel F st endp ok = Ok st' -> IV st'.
Proof.
  induction fuel as [|f IH]; intros st endp ok st' HI H; [discriminate H|].
  cbn [tok_while] in H.
  destruct (negb (i_pos st <? endp)); [rfinish H; exact HI|].
  match type of H with bind ?m _ = _ => destruct m as [[ok1 st1]|?|] eqn:FR end; cbn [bind] in H; try discriminate H.
  assert (H1 : IV st1).
  { destruct (i_level st <? ic_maxNesting cfg); [eapply (first_rule_iv F HF); [exact HG | | exact FR]; eassumption | rfinish FR; iv]. }
  destruct ok1.
  - destruct (endp <=? i_pos st1); [rfinish H; exact H1 | eapply IH; eassumption].
  - rstep H. eapply IH; [|exact H]. iv.
Qed.

Lemma inline_tokenize_iv F (HF : FK F) st st' : IV st -> inline_tokenize cfg rf cf lt F st = Ok st' -> IV st'.
Proof.
  unfold inline_tokenize. intros HI H.
  match type of H with bind ?m _ = _ => destruct m as [st1|?|] eqn:TW end; cbn [bind] in H; try discriminate H.
  apply (tok_while_iv F HF) in TW; [|exact HI]. rfinish H.
  destruct (i_pending st1); [exact TW | apply push_pending_iv, TW].
Qed.

Lemma run_rules2_iv : forall names st st', (forall n, In n names -> guards2 n) -> IV st -> run_rules2 names st = Ok st' -> IV st'.
Proof.
  induction names as [|n rest IH]; intros st st' GN HI H; cbn [run_rules2] in H; [rfinish H; exact HI|].
  destruct (iapply2 n st) as [s1|?|] eqn:E; cbn [bind] in H; try discriminate H.
  eapply IH; [intros m Hm; apply GN; right; exact Hm | eapply iapply2_iv; [exact (GN n (or_introl eq_refl)) | eassumption | eassumption] | exact H].
Qed.

Lemma ifs_FK : forall depth, FK (ifs cfg rf cf lt depth).
Proof.
  induction depth as [|d IH]; cbn [ifs].
  - split; intros s s' _ H; discriminate H.
  - split; cbn [f_tokenize f_skip]; intros s s' HI H.
    + eapply inline_tokenize_iv; eassumption.
    + eapply skip_token_iv; eassumption.
Qed.

(* ParserInline.parse: every token left in the list is from the guarded inline vocabulary *)
Theorem inline_parse_kinds src env tokens r :
  Forall V tokens -> inline_parse cfg rf cf lt src env tokens = Ok r -> Forall V r.
Proof.
  unfold inline_parse, inline_parse_with. intros HT H.
  match type of H with bind ?m _ = _ => destruct m as [st1|?|] eqn:TK end; cbn [bind] in H; try discriminate H.
  apply (inline_tokenize_iv _ (ifs_FK _)) in TK; [|exact HT].
  match type of H with bind ?m _ = _ => destruct m as [st2|?|] eqn:R2 end; cbn [bind] in H; try discriminate H.
  apply run_rules2_iv in R2; [|exact HG2|exact TK]. rfinish H. exact R2.
Qed.

End Parser.

End IKinds.

(* ---- every inline kind needs a producer in the chain ---- *)
Section Producers.
Context (cfg : icfg) (rf cf lt : str -> str).

Definition has (n : str) : Prop := In n (ic_rules cfg).
Definition has2 (n : str) : Prop := In n (ic_rules2 cfg).

Definition Vp : token -> Prop :=
  V cfg (has n_escape \/ has n_entity) (has n_newline) (has n_newline \/ has n_escape) (has n_backticks)
        (has n_link \/ has n_autolink) (has n_image) (has2 n_strikethrough) (has2 n_emphasis).

Theorem inline_kinds_need_producer src env tokens r :
  Forall Vp tokens -> inline_parse cfg rf cf lt src env tokens = Ok r -> Forall Vp r.
Proof.
  apply inline_parse_kinds.
  - intros n Hn. unfold guards.
    refine (conj _ (conj _ (conj _ (conj _ (conj _ (conj _ _)))))); intros E; apply str_eqb_eq in E; subst n; unfold has; tauto.
  - intros n Hn. unfold guards2. split; intros E; apply str_eqb_eq in E; subst n; exact Hn.
Qed.

(* read off: a kind whose producers are all absent does not occur *)
Corollary no_backticks_no_code_inline src env r :
  ~ has n_backticks -> inline_parse cfg rf cf lt src env [] = Ok r -> Forall (fun t => ttype t <> s_code_inline) r.
Proof.
  intros NB H. pose proof (inline_kinds_need_producer src env [] r ltac:(constructor) H) as F.
  eapply Forall_impl; [|exact F]. intros t Ht E. unfold Vp, V, is0 in Ht.
  repeat (destruct Ht as [Ht|Ht]); try (destruct Ht as [A B]); try (destruct B as [B1 B2]);
    try (rewrite E in *; discriminate); try contradiction.
Qed.
End Producers.
