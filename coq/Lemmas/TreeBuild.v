(* C02: a syntax tree can be built.  On a balanced stream (Lemmas/BlockWF.v) whose tokens carry no
   children yet - what the block parser returns - SyntaxTreeNode's builder finds the closing token
   of every opening one and returns a tree (which flattens back to the stream: C02_tree_roundtrip). *)
From MD Require Import Base.Py Base.Str Base.Opt Model.Token Model.StateBlock Model.Tree Model.Block
     Lemmas.TreeLemmas Lemmas.BlockWF Lemmas.BlockKinds.
From Coq Require Import Lia.

Local Arguments Z.eqb : simpl never.

(* the group scan walks over a balanced segment without its counter reaching zero *)
Lemma take_group_bal d inner : bal d inner -> forall k acc l, 0 < k ->
  take_group (inner ++ l) k acc = take_group l k (rev inner ++ acc).
Proof.
  induction 1 as [d | d t rest Hn _ _ IH | d o inn c rest Ho _ _ II Hc _ _ IR]; intros k acc l Hk.
  - reflexivity.
  - cbn [app take_group]. assert (E : (k =? 0) = false) by lia. rewrite E. rewrite Hn, Z.add_0_r.
    rewrite IH by exact Hk. cbn [rev]. rewrite <- app_assoc. reflexivity.
  - cbn [app take_group]. assert (E : (k =? 0) = false) by lia. rewrite E. rewrite Ho.
    rewrite <- app_assoc. rewrite II by lia. cbn [app take_group].
    assert (E1 : (k + 1 =? 0) = false) by lia. rewrite E1. rewrite Hc. replace (k + 1 + -1) with k by lia.
    rewrite IR by exact Hk. cbn [rev]. rewrite rev_app_distr. cbn [rev app]. rewrite <- !app_assoc. cbn [app]. reflexivity.
Qed.

Definition childless (t : token) : Prop := tchildren t = None \/ tchildren t = Some [].

Lemma middle_wrap (o c : token) inner : middle (o :: inner ++ [c]) = inner.
Proof. unfold middle. cbn [tl]. apply removelast_last. Qed.

Lemma build_children_bal : forall fuel d ts, bal d ts -> Forall childless ts -> (length ts < fuel)%nat ->
  exists kids, build_children fuel ts = Ok kids.
Proof.
  induction fuel as [|fuel IH]; intros d ts B F HF; [lia|]. cbn [build_children].
  destruct B as [d | d t rest Hn _ Br | d o inn c rest Ho _ Bi Hc _ Br].
  - eexists; reflexivity.
  - assert (E : (tnesting t =? 0) = true) by lia. rewrite E.
    inversion F as [|? ? Ft Fr]; subst.
    assert (K : match tchildren t with Some (x :: l) => build_children fuel (x :: l) | _ => Ok [] end = Ok []).
    { destruct Ft as [-> | ->]; reflexivity. }
    rewrite K. cbn [bind]. destruct (IH d rest Br Fr ltac:(cbn in HF; lia)) as [sibs Es]. rewrite Es. cbn [bind]. eexists; reflexivity.
  - assert (E : (tnesting o =? 0) = false) by lia. rewrite E. assert (E1 : (tnesting o =? 1) = true) by lia. rewrite E1. cbn [negb].
    rewrite (take_group_bal _ _ Bi 1 [o] (c :: rest)) by lia. cbn [take_group].
    assert (E2 : (1 =? 0) = false) by reflexivity. rewrite E2. rewrite Hc. change (1 + -1) with 0.
    destruct rest as [|r0 rest']; cbn [take_group]; change (0 =? 0) with true; cbv iota.
    + cbn [rev]. rewrite rev_app_distr, rev_involutive. cbn [rev app].
      inversion F as [|? ? Fo Fr]; subst. apply Forall_app in Fr. destruct Fr as [Fi Fc].
      rewrite middle_wrap.
      destruct (IH (d + 1) inn Bi Fi ltac:(cbn in HF; rewrite app_length in HF; cbn in HF; lia)) as [kids Ek]. rewrite Ek. cbn [bind].
      cbn [build_children]. destruct fuel; [cbn in HF; lia|]. cbn [build_children bind]. eexists; reflexivity.
    + cbn [rev]. rewrite rev_app_distr, rev_involutive. cbn [rev app].
      inversion F as [|? ? Fo Fr]; subst. apply Forall_app in Fr. destruct Fr as [Fi Fc]. inversion Fc as [|? ? _ Frest]; subst.
      rewrite middle_wrap.
      destruct (IH (d + 1) inn Bi Fi ltac:(cbn in HF; rewrite app_length in HF; cbn in HF; lia)) as [kids Ek]. rewrite Ek. cbn [bind].
      destruct (IH d (r0 :: rest') Br Frest ltac:(cbn in HF; rewrite app_length in HF; cbn in HF |- *; lia)) as [sibs Es]. rewrite Es. cbn [bind].
      eexists; reflexivity.
Qed.

Lemma tsize_list_ge : forall ts, (length ts <= tsize_list ts)%nat.
Proof. induction ts as [|t ts IH]; [cbn; lia|]. unfold tsize_list in *. cbn [fold_right length]. destruct t; cbn [tsize] in *. lia. Qed.

Theorem build_bal d ts : bal d ts -> Forall childless ts -> exists n, build ts = Ok n /\ to_tokens n = ts.
Proof.
  intros B F. unfold build.
  destruct (build_children_bal (S (tsize_list ts)) d ts B F ltac:(pose proof (tsize_list_ge ts); lia)) as [kids E].
  rewrite E. cbn [bind]. eexists. split; [reflexivity|].
  apply tree_roundtrip. unfold build. rewrite E. reflexivity.
Qed.

(* what the block parser appends can always be built into a tree *)
Theorem block_parse_tree cfg rf cf (CS : chains_sub cfg) src env st :
  block_parse cfg rf cf src env [] = Ok st -> exists n, build (b_tokens st) = Ok n /\ to_tokens n = b_tokens st.
Proof.
  intros H.
  destruct (block_parse_balanced cfg rf cf src env [] st H) as (seg & T & B & _).
  destruct (block_parse_kinds cfg rf cf CS src env [] st H) as (seg' & T' & K).
  cbn [app] in T, T'. rewrite T. rewrite T in T'. subst seg'.
  apply (build_bal 0); [exact B|]. eapply Forall_impl; [|exact K].
  intros t (n & _ & P). unfold childless. unfold P_rule in P.
  repeat match type of P with (if ?c then _ else _) => destruct c end;
    unfold P_table, P_code, P_fence, P_blockquote, P_hr, P_list, P_reference, P_html, P_heading, P_paragraph in P;
    try contradiction;
    try (match goal with H : c_html _ = true /\ _ |- _ => destruct H as [_ H] end);
    repeat match goal with H : _ \/ _ |- _ => destruct H as [H|H] end;
    try (match goal with H : exists _, _ |- _ => destruct H as (l & Hl & [H|H]) end);
    match goal with H : is _ _ _ |- _ => destruct H as (_ & _ & C & _); exact C end.
Qed.
