(* C03 / C08: the content of an inline container comes, line by line, from the lines of its map.
   The paragraph rule pushes paragraph_open, inline, paragraph_close with map [sl, nl) on all three
   carriers of a map, and the inline content is strip(getLines(sl, nl, blkIndent)); by
   C08_get_lines_verbatim that text is one piece per source line sl + i: a suffix of the line
   (after at most 3 spaces from a split tab), only container-prefix characters dropped. *)
From RecordUpdate Require Import RecordUpdate.
From MD Require Import Base.Py Base.Str Base.Regex Base.Opt Model.Token Model.Utils Model.StateBlock Model.Helpers
     Model.Url Model.Render Model.Block Lemmas.StrLemmas Lemmas.StrLemmas2 Lemmas.BlockLemmas Lemmas.BlockWF Lemmas.MapLemmas
     Lemmas.Verbatim Lemmas.MapWhole.
From Coq Require Import ZifyBool.

Local Arguments Z.eqb : simpl never.
Local Arguments Z.ltb : simpl never.
Local Arguments Z.leb : simpl never.
Local Arguments str_eqb : simpl never.

Lemma get_lines_loop_parent p : forall fuel st line endl indent keep,
  get_lines_loop fuel (st_parent st p) line endl indent keep = get_lines_loop fuel st line endl indent keep.
Proof.
  induction fuel as [|f IH]; intros st line endl indent keep; cbn [get_lines_loop]; [reflexivity|].
  change (b_bMarks (st_parent st p)) with (b_bMarks st). change (b_eMarks (st_parent st p)) with (b_eMarks st).
  change (b_tShift (st_parent st p)) with (b_tShift st). change (b_bsCount (st_parent st p)) with (b_bsCount st).
  change (b_src (st_parent st p)) with (b_src st). rewrite IH. reflexivity.
Qed.
Lemma get_lines_parent p st a b indent keep : get_lines (st_parent st p) a b indent keep = get_lines st a b indent keep.
Proof. unfold get_lines. rewrite get_lines_loop_parent. reflexivity. Qed.

Theorem paragraph_inline_lines term (T : term_fr term) st sl el st' :
  r_paragraph term st sl el false = Ok (true, st') ->
  exists nl raw op inl cl,
    b_tokens st' = b_tokens st ++ [op; inl; cl]
    /\ tmap op = Some (sl, nl) /\ tmap inl = Some (sl, nl) /\ b_line st' = nl
    /\ get_lines st sl nl (b_blkIndent st) false = Ok raw
    /\ tcontent inl = strip_by is_space raw
    /\ (0 <= b_blkIndent st -> pieces st nl false sl raw).
Proof.
  unfold r_paragraph. intros H.
  match type of H with bind ?m _ = _ => destruct m as [[[nl u] st1]|?|] eqn:PS end; cbn [bind] in H; try discriminate H.
  apply (para_scan_fr term T nm_paragraph ltac:(discriminate)) in PS.
  destruct (get_lines st1 sl nl (b_blkIndent st1) false) as [raw|?|] eqn:GL; cbn [bind] in H; try discriminate H.
  injection H as <-.
  assert (GL' : get_lines st sl nl (b_blkIndent st) false = Ok raw).
  { rewrite PS in GL. rewrite !get_lines_parent in GL. exact GL. }
  exists nl, raw. eexists. eexists. eexists.
  split; [unfold push_inline; change (b_tokens (st_parent ?x ?y)) with (b_tokens x); rewrite !bpush_tokens, <- !app_assoc; cbn [app];
          change (b_tokens (st_line st1 nl)) with (b_tokens st1); rewrite (fr_tokens _ _ PS); reflexivity|].
  split; [reflexivity|]. split; [reflexivity|]. split; [reflexivity|]. split; [exact GL'|]. split; [reflexivity|].
  intros HI. exact (get_lines_verbatim st sl nl _ false raw GL' HI).
Qed.
