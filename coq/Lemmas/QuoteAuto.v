(* C19: smartquotes leaves the text of autolinks untouched.  process_inlines only rewrites the content of the token it
   is scanning and of tokens whose quotes it has put on its stack of openers; it scans a token only when it is a text
   token outside every autolink (the counter of open  link_open(auto)  tokens is zero).  Hence the content of every
   other token - in particular of every text token between link_open(auto) and link_close(auto) - is returned as is. *)
From RecordUpdate Require Import RecordUpdate.
From MD Require Import Base.Py Base.Str Base.Regex Base.Opt Model.Token Model.Utils Model.StateBlock Model.Render Model.Core
     Lemmas.StrLemmas Lemmas.StrLemmas2 Lemmas.LfCount Lemmas.CoreLemmas Lemmas.QuoteSubst.
From Coq Require Import ZifyBool.

Local Arguments Z.eqb : simpl never.
Local Arguments Z.ltb : simpl never.
Local Arguments Z.leb : simpl never.
Local Arguments str_eqb : simpl never.

(* what the loop reads of a token to decide whether to scan it: unchanged by content updates *)
Definition hdr (tokens : list token) (j : nat) : option (str * str * Z) :=
  option_map (fun t => (ttype t, tinfo t, tlevel t)) (nth_error tokens j).

Lemma hdr_set tokens i c j : hdr (set_content_at tokens i c) j = hdr tokens j.
Proof.
  unfold hdr, set_content_at. rewrite nth_error_update_nth.
  destruct (Nat.eqb i j); [|reflexivity]. destruct (nth_error tokens j); reflexivity.
Qed.

Lemma content_set_other tokens i c j : j <> i -> content_at (set_content_at tokens i c) j = content_at tokens j.
Proof. intros N. rewrite content_set. assert (E : Nat.eqb i j = false) by (apply Nat.eqb_neq; congruence). rewrite E. reflexivity. Qed.

Section A.
Context (quotes : list str).

(* one text token: only its own content and the contents of stack tokens change; the stack only gains items of this token *)
Lemma sq_while_frame i lvl : forall fuel tokens stack text pos tokens' stack',
  sq_while fuel quotes i lvl tokens stack text pos = (tokens', stack') ->
  (forall j, j <> i -> ~ In j (map sq_token stack) -> content_at tokens' j = content_at tokens j)
  /\ (forall it, In it stack' -> sq_token it = i \/ In it stack)
  /\ (forall j, hdr tokens' j = hdr tokens j).
Proof.
  induction fuel as [|fuel IH]; intros tokens stack text pos tokens' stack' H; cbn [sq_while] in H.
  { injection H as <- <-. split; [reflexivity|]. split; [intros it I; right; exact I | reflexivity]. }
  assert (DONE : (tokens, stack) = (tokens', stack') ->
                 (forall j, j <> i -> ~ In j (map sq_token stack) -> content_at tokens' j = content_at tokens j)
                 /\ (forall it, In it stack' -> sq_token it = i \/ In it stack) /\ (forall j, hdr tokens' j = hdr tokens j)).
  { intros E. injection E as <- <-. split; [reflexivity|]. split; [intros it I; right; exact I | reflexivity]. }
  destruct (negb (pos <? len text)); [exact (DONE H)|].
  destruct (find_quote text pos) as [q|]; [|exact (DONE H)].
  cbv zeta in H.
  (* one step that rewrites token i only and keeps the stack *)
  assert (SAME : forall c p2 tx, sq_while fuel quotes i lvl (set_content_at tokens i c) stack tx p2 = (tokens', stack') ->
                 (forall j, j <> i -> ~ In j (map sq_token stack) -> content_at tokens' j = content_at tokens j)
                 /\ (forall it, In it stack' -> sq_token it = i \/ In it stack) /\ (forall j, hdr tokens' j = hdr tokens j)).
  { intros c p2 tx HX. destruct (IH _ _ _ _ _ _ HX) as (A & B & C). split; [|split; [exact B|]].
    - intros j N1 N2. rewrite (A j N1 N2). apply content_set_other, N1.
    - intros j. rewrite C. apply hdr_set. }
  match type of H with (if ?c then _ else _) = _ => destruct c end.
  - destruct (match char_at text q with Some 39 => true | _ => false end); [exact (SAME _ _ _ H) | exact (IH _ _ _ _ _ _ H)].
  - match type of H with match ?m with _ => _ end = _ => destruct m as [[it below]|] eqn:FO end.
    + (* a pair is closed: token i and the opener's token change *)
      assert (FO' : find_opener stack lvl (match char_at text q with Some 39 => true | _ => false end) = Some (it, below)).
      { match type of FO with (if ?c then _ else _) = _ => destruct c end; [exact FO | discriminate FO]. }
      destruct (find_opener_split _ _ _ _ _ FO') as (pre & ES).
      destruct (IH _ _ _ _ _ _ H) as (A & B & C). split; [|split].
      * intros j N1 N2. rewrite A; [| exact N1 |].
        -- rewrite content_set_other; [apply content_set_other, N1|].
           intros E. apply N2. rewrite ES, map_app. apply in_or_app. right. left. symmetry. exact E.
        -- intros I. apply N2. rewrite ES, map_app. apply in_or_app. right. right. exact I.
      * intros x I. destruct (B x I) as [E|I2]; [left; exact E | right; rewrite ES; apply in_or_app; right; right; exact I2].
      * intros j. rewrite C, !hdr_set. reflexivity.
    + match type of H with (if ?c then _ else _) = _ => destruct c end.
      * (* an opener of this token is pushed *)
        destruct (IH _ _ _ _ _ _ H) as (A & B & C). split; [|split; [|exact C]].
        -- intros j N1 N2. apply A; [exact N1|]. cbn [map In sq_token]. intros [E|I]; [apply N1; symmetry; exact E | exact (N2 I)].
        -- intros x I. destruct (B x I) as [E|[<-|I2]]; [left; exact E | left; reflexivity | right; exact I2].
      * match type of H with (if ?c then _ else _) = _ => destruct c end; [exact (SAME _ _ _ H) | exact (IH _ _ _ _ _ _ H)].
Qed.

(* the indices the loop scans: text tokens seen while no autolink is open *)
Fixpoint scanned (n : nat) (i : nat) (tokens : list token) (inside : Z) : list nat :=
  match n with
  | O => []
  | S n' =>
      match nth_error tokens i with
      | None => []
      | Some t =>
          let inside1 := if str_eqb (ttype t) s_link_open && str_eqb (tinfo t) s_auto then inside + 1 else inside in
          let inside2 := if str_eqb (ttype t) s_link_close && str_eqb (tinfo t) s_auto then inside1 - 1 else inside1 in
          if negb (str_eqb (ttype t) s_text) || negb (inside2 =? 0) then scanned n' (S i) tokens inside2
          else i :: scanned n' (S i) tokens inside2
      end
  end.

Lemma scanned_hdr : forall n i t1 t2 inside, (forall j, hdr t1 j = hdr t2 j) -> scanned n i t1 inside = scanned n i t2 inside.
Proof.
  induction n as [|n IH]; intros i t1 t2 inside E; cbn [scanned]; [reflexivity|].
  pose proof (E i) as Ei. unfold hdr in Ei.
  destruct (nth_error t1 i) as [a|], (nth_error t2 i) as [b|]; cbn [option_map] in Ei; try discriminate Ei; [|reflexivity].
  injection Ei as E1 E2 E3. rewrite E1, E2.
  match goal with |- (if ?c then _ else _) = _ => destruct c end; [apply IH, E | f_equal; apply IH, E].
Qed.

Lemma sq_tokens_frame : forall n i tokens stack inside j,
  ~ In j (map sq_token stack) -> ~ In j (scanned n i tokens inside) ->
  content_at (sq_tokens n quotes i tokens stack inside) j = content_at tokens j.
Proof.
  induction n as [|n IH]; intros i tokens stack inside j NS NV; cbn [sq_tokens]; [reflexivity|].
  cbn [scanned] in NV.
  destruct (nth_error tokens i) as [t|] eqn:N; [|reflexivity].
  cbv zeta in *.
  set (ins2 := (if str_eqb (ttype t) s_link_close && str_eqb (tinfo t) s_auto
                then (if str_eqb (ttype t) s_link_open && str_eqb (tinfo t) s_auto then inside + 1 else inside) - 1
                else (if str_eqb (ttype t) s_link_open && str_eqb (tinfo t) s_auto then inside + 1 else inside))) in *.
  assert (TS : ~ In j (map sq_token (truncate_stack stack (tlevel t)))).
  { destruct (truncate_suffix stack (tlevel t)) as (pre & E). intros I. apply NS. rewrite E, map_app. apply in_or_app. right. exact I. }
  destruct (negb (str_eqb (ttype t) s_text) || negb (ins2 =? 0)).
  - apply IH; assumption.
  - destruct (sq_while (S (length (tcontent t))) quotes i (tlevel t) tokens (truncate_stack stack (tlevel t)) (tcontent t) 0)
      as [tokens' stack'] eqn:W.
    destruct (sq_while_frame i (tlevel t) _ _ _ _ _ _ _ W) as (A & B & C).
    assert (NJ : j <> i) by (intros ->; apply NV; left; reflexivity).
    rewrite IH.
    + apply A; assumption.
    + intros I. apply in_map_iff in I. destruct I as (x & <- & Ix). destruct (B x Ix) as [E|I2]; [exact (NJ E)|].
      apply TS. apply in_map. exact I2.
    + rewrite (scanned_hdr n (S i) tokens' tokens ins2 C). intros I. apply NV. right. exact I.
Qed.

(* every scanned index is a text token at which no autolink is open *)
Definition auto_open (t : token) : bool := str_eqb (ttype t) s_link_open && str_eqb (tinfo t) s_auto.
Definition auto_close (t : token) : bool := str_eqb (ttype t) s_link_close && str_eqb (tinfo t) s_auto.
(* the counter after token j (as the loop computes it), starting from [inside] before token i *)
Fixpoint depth_after (tokens : list token) (inside : Z) : Z :=
  match tokens with
  | [] => inside
  | t :: r => depth_after r (let a := if auto_open t then inside + 1 else inside in if auto_close t then a - 1 else a)
  end.

Lemma scanned_spec : forall n i tokens inside j, In j (scanned n i tokens inside) ->
  (i <= j)%nat /\ exists t, nth_error tokens j = Some t /\ ttype t = s_text
                          /\ depth_after (firstn (S j - i) (skipn i tokens)) inside = 0.
Proof.
  induction n as [|n IH]; intros i tokens inside j H; cbn [scanned] in H; [contradiction|].
  destruct (nth_error tokens i) as [t|] eqn:N; [|contradiction].
  cbv zeta in H.
  set (ins2 := (if str_eqb (ttype t) s_link_close && str_eqb (tinfo t) s_auto
                then (if str_eqb (ttype t) s_link_open && str_eqb (tinfo t) s_auto then inside + 1 else inside) - 1
                else (if str_eqb (ttype t) s_link_open && str_eqb (tinfo t) s_auto then inside + 1 else inside))) in *.
  assert (SK : skipn i tokens = t :: skipn (S i) tokens).
  { clear - N. revert tokens N. induction i as [|i IH]; intros [|x l] N; try discriminate N; cbn in *; [injection N as ->; reflexivity | apply IH, N]. }
  assert (REC : In j (scanned n (S i) tokens ins2) -> (i <= j)%nat /\ exists t0, nth_error tokens j = Some t0 /\ ttype t0 = s_text
                          /\ depth_after (firstn (S j - i) (skipn i tokens)) inside = 0).
  { intros I. destruct (IH _ _ _ _ I) as (L & t0 & N0 & T0 & D0). split; [lia|]. exists t0. split; [exact N0|]. split; [exact T0|].
    rewrite SK. replace (S j - i)%nat with (S (S j - S i)) by lia. cbn [firstn depth_after]. exact D0. }
  destruct (negb (str_eqb (ttype t) s_text) || negb (ins2 =? 0)) eqn:G; [exact (REC H)|].
  destruct H as [<-|I]; [|exact (REC I)].
  apply Bool.orb_false_iff in G. destruct G as [G1 G2]. apply Bool.negb_false_iff in G1, G2.
  split; [lia|]. exists t. split; [exact N|]. split; [apply str_eqb_eq, G1|].
  rewrite SK. replace (S i - i)%nat with 1%nat by lia. cbn [firstn depth_after]. unfold auto_open, auto_close. fold ins2. lia.
Qed.

(* the statement: a token at which an autolink is open keeps its content *)
Theorem process_inlines_skips_autolinks tokens j :
  depth_after (firstn (S j) tokens) 0 <> 0 -> content_at (process_inlines quotes tokens) j = content_at tokens j.
Proof.
  intros D. unfold process_inlines. apply sq_tokens_frame; [intros []|].
  intros I. destruct (scanned_spec _ _ _ _ _ I) as (_ & t & _ & _ & D0).
  replace (S j - 0)%nat with (S j) in D0 by lia. cbn [skipn] in D0. exact (D D0).
Qed.

(* ... and so does every token that is not a text token *)
Theorem process_inlines_skips_non_text tokens j t :
  nth_error tokens j = Some t -> ttype t <> s_text -> content_at (process_inlines quotes tokens) j = content_at tokens j.
Proof.
  intros N T. unfold process_inlines. apply sq_tokens_frame; [intros []|].
  intros I. destruct (scanned_spec _ _ _ _ _ I) as (_ & t0 & N0 & T0 & _). rewrite N in N0. injection N0 as <-. exact (T T0).
Qed.

End A.

(* the text of  <http://a.b/"c">  :  link_open(auto), text, link_close(auto) *)
Example autolink_depth :
  forall lo u lc, auto_open lo = true -> auto_close lo = false -> auto_open u = false -> auto_close u = false ->
  depth_after (firstn 2 [lo; u; lc]) 0 <> 0.
Proof. intros lo u lc A B C D. cbn [firstn depth_after]. rewrite A, B, C, D. discriminate. Qed.
