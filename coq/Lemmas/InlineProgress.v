(* C01 / C20, inline tokenizer: every rule that succeeds moves the position forward and skipToken
   always moves it forward (Lemmas/InlineSafe.v carries this with the no-raise invariant); hence the
   tokenizer loop and the label loop run at most posMax - pos times: above that bound their answer
   does not depend on the fuel, and the fuel they are given (len src + 2) lies above it. *)
From RecordUpdate Require Import RecordUpdate.
From MD Require Import Base.Py Base.Str Base.Regex Base.Opt Model.Token Model.Utils Model.StateBlock
     Model.Helpers Model.Url Model.Render Model.Core Model.Inline
     Lemmas.StrLemmas Lemmas.StrLemmas2 Lemmas.InlineNest Lemmas.InlineSafe.
From Coq Require Import ZifyBool.

Local Arguments Z.eqb : simpl never.
Local Arguments Z.ltb : simpl never.
Local Arguments Z.leb : simpl never.
Local Arguments str_eqb : simpl never.

(* the call sites: fuel len src + 2 lies above the bound *)
Lemma tokenize_fuel_above st : PI st -> (Z.to_nat (i_posMax st - i_pos st) < S (S (length (i_src st))))%nat.
Proof. intros (P0 & P1 & _). unfold len in P1. lia. Qed.

Section Fuel.
Context (cfg : icfg) (rf cf lt : str -> str).
Context (NOLINKIFY : ic_linkify cfg = false).

Lemma tok_while_fuel F (HF : FN F) (HK : FK F) : forall f1 f2 st endp ok, PI st -> endp = i_posMax st ->
  (ok = true -> i_level st < ic_maxNesting cfg) ->
  (Z.to_nat (endp - i_pos st) < f1)%nat -> (Z.to_nat (endp - i_pos st) < f2)%nat ->
  tok_while cfg rf cf lt f1 F st endp ok = tok_while cfg rf cf lt f2 F st endp ok.
Proof.
  induction f1 as [|f1 IH]; intros f2 st endp ok HP EE HO B1 B2; [lia|]. destruct f2 as [|f2]; [lia|].
  cbn [tok_while]. subst endp.
  destruct (negb (i_pos st <? i_posMax st)) eqn:NE; [reflexivity|].
  assert (HL : i_pos st < i_posMax st) by lia. pose proof HP as (P0 & P1 & PD).
  destruct (i_level st <? ic_maxNesting cfg) eqn:LV.
  - destruct (first_rule cfg rf cf lt F (ic_rules cfg) st false false) as [[ok1 st1]|e|] eqn:FR; cbn [bind]; try reflexivity.
    pose proof (safe_ok_inv _ _ _ (first_rule_safe cfg rf cf lt NOLINKIFY F HF (ic_rules cfg) st false false HP HL) FR) as (K1 & F1 & G1).
    cbn [fst snd] in *.
    pose proof (first_rule_iv cfg rf cf lt F HK _ st st false false ok1 st1 (IVb_refl st) FR) as (LVL & _).
    pose proof K1 as (HP1 & S1 & M1 & _).
    destruct ok1.
    + specialize (G1 eq_refl). destruct (i_posMax st <=? i_pos st1); [reflexivity|].
      apply IH; [exact HP1 | congruence | intros _; rewrite LVL; lia | lia | lia].
    + specialize (F1 eq_refl). destruct (py_idx (i_src st1) (i_pos st1)) as [c|e|]; cbn [bind]; try reflexivity.
      apply IH; [|cbn; congruence | discriminate | cbn; lia | cbn; lia].
      destruct HP1 as (Y0 & Y1 & YD). split; [cbn; lia|]. split; [exact Y1 | exact YD].
  - cbn [bind]. destruct ok; [specialize (HO eq_refl); lia|].
    destruct (py_idx (i_src st) (i_pos st)) as [c|e|]; cbn [bind]; try reflexivity.
    apply IH; [|reflexivity | discriminate | cbn; lia | cbn; lia].
    split; [cbn; lia|]. split; [exact P1 | exact PD].
Qed.

Lemma label_loop_fuel F (HF : FN F) : forall f1 f2 st level dn oldPos, PI st ->
  (Z.to_nat (i_posMax st - i_pos st) < f1)%nat -> (Z.to_nat (i_posMax st - i_pos st) < f2)%nat ->
  label_loop F f1 st level dn oldPos = label_loop F f2 st level dn oldPos.
Proof.
  induction f1 as [|f1 IH]; intros f2 st level dn oldPos HP B1 B2; [lia|]. destruct f2 as [|f2]; [lia|].
  cbn [label_loop].
  destruct (negb (i_pos st <? i_posMax st)) eqn:NE; [reflexivity|].
  destruct (py_idx (i_src st) (i_pos st)) as [marker|e|]; cbn [bind]; try reflexivity.
  destruct ((marker =? 93) && (level - 1 =? 0)); [reflexivity|]. cbv zeta.
  destruct (f_skip F st) as [st1|e|] eqn:SK; cbn [bind]; try reflexivity.
  destruct HF as (_ & HS & _).
  pose proof (safe_ok_inv _ _ _ (HS st HP ltac:(lia)) SK) as (K1 & ADV). pose proof K1 as (HP1 & _ & M1 & _).
  assert (R : forall lv, label_loop F f1 st1 lv dn oldPos = label_loop F f2 st1 lv dn oldPos) by (intros lv; apply IH; [exact HP1 | lia | lia]).
  destruct (marker =? 91); [|apply R]. destruct (i_pos st =? i_pos st1 - 1); [apply R|]. destruct dn; [reflexivity | apply R].
Qed.

End Fuel.

Section Depth.
Context (cfg : icfg) (rf cf lt : str -> str).
Context (NOLINKIFY : ic_linkify cfg = false) (ORDER : order_ok (ic_rules2 cfg) = true).

(* at every recursion depth: the tokenizer loop's answer is the same for every fuel above posMax - pos *)
Theorem tok_while_fuel_any_depth d f1 f2 st : PI st ->
  (Z.to_nat (i_posMax st - i_pos st) < f1)%nat -> (Z.to_nat (i_posMax st - i_pos st) < f2)%nat ->
  tok_while cfg rf cf lt f1 (ifs cfg rf cf lt d) st (i_posMax st) false = tok_while cfg rf cf lt f2 (ifs cfg rf cf lt d) st (i_posMax st) false.
Proof.
  intros HP B1 B2. apply (tok_while_fuel cfg rf cf lt NOLINKIFY); try assumption; try reflexivity; [|apply ifs_FK | discriminate].
  apply ifs_FN; assumption.
Qed.

Theorem label_loop_fuel_any_depth d f1 f2 st level dn oldPos : PI st ->
  (Z.to_nat (i_posMax st - i_pos st) < f1)%nat -> (Z.to_nat (i_posMax st - i_pos st) < f2)%nat ->
  label_loop (ifs cfg rf cf lt d) f1 st level dn oldPos = label_loop (ifs cfg rf cf lt d) f2 st level dn oldPos.
Proof. intros HP B1 B2. apply (label_loop_fuel cfg); try assumption. apply ifs_FN; assumption. Qed.

(* skipToken always advances, at every depth *)
Theorem skip_token_advances d st st' : PI st -> i_pos st < i_posMax st ->
  skip_token cfg rf cf lt (ifs cfg rf cf lt d) st = Ok st' -> i_pos st < i_pos st'.
Proof.
  intros HP HL E. pose proof (skip_token_safe cfg rf cf lt NOLINKIFY _ (ifs_FN cfg rf cf lt NOLINKIFY ORDER d) st HP HL) as S.
  rewrite E in S. exact (proj2 S).
Qed.

(* a rule that succeeds moves the position forward; one that fails leaves it where it was *)
Theorem first_rule_progress d names st silent bump ok st' : PI st -> i_pos st < i_posMax st ->
  first_rule cfg rf cf lt (ifs cfg rf cf lt d) names st silent bump = Ok (ok, st') ->
  if ok then i_pos st < i_pos st' else i_pos st' = i_pos st.
Proof.
  intros HP HL E. pose proof (first_rule_safe cfg rf cf lt NOLINKIFY _ (ifs_FN cfg rf cf lt NOLINKIFY ORDER d) names st silent bump HP HL) as S.
  rewrite E in S. destruct S as (_ & A & B). cbn [fst snd] in *. destruct ok; [exact (B eq_refl) | exact (A eq_refl)].
Qed.

End Depth.
