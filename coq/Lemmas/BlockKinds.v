(* C10 / C04, block half: every token the block parser appends has a (type, tag) pair from the
   fixed vocabulary of a rule that was actually dispatched -- so a token kind appears only if a
   rule producing it is in the chain, html_block tokens only when options.html is on, and every
   tag comes from the renderer's fixed vocabulary.  Same symbolic execution as BlockWF.v with a
   different invariant. *)
From RecordUpdate Require Import RecordUpdate.
From MD Require Import Base.Py Base.Str Base.Regex Base.Opt Model.Token Model.Utils Model.StateBlock Model.Helpers
     Model.Url Model.Render Model.Block Lemmas.StrLemmas Lemmas.BlockWF.
From Coq Require Import ZifyBool.

Local Arguments Z.eqb : simpl never.
Local Arguments Z.ltb : simpl never.
Local Arguments Z.leb : simpl never.
Local Arguments str_eqb : simpl never.

(* ---- growing the token list by tokens that satisfy P -------------------------------------- *)

Definition grow (P : token -> Prop) (st st' : bstate) : Prop :=
  exists seg, b_tokens st' = b_tokens st ++ seg /\ Forall P seg.

Lemma grow_refl P st : grow P st st.
Proof. exists []. rewrite app_nil_r. split; [reflexivity | constructor]. Qed.

Lemma grow_trans P a b c : grow P a b -> grow P b c -> grow P a c.
Proof.
  intros (s1 & T1 & F1) (s2 & T2 & F2). exists (s1 ++ s2). split; [rewrite T2, T1, app_assoc; reflexivity|].
  apply Forall_app; split; assumption.
Qed.

Lemma grow_weaken (P Q : token -> Prop) a b : (forall t, P t -> Q t) -> grow P a b -> grow Q a b.
Proof. intros I (s & T & F). exists s. split; [exact T | eapply Forall_impl; [exact I | exact F]]. Qed.

Definition same_t (a b : bstate) : Prop := b_tokens b = b_tokens a.
Lemma same_t_grow P a b : same_t a b -> grow P a b.
Proof. intros T. exists []. rewrite app_nil_r. split; [exact T | constructor]. Qed.
Lemma grow_same_l P a b c : same_t a b -> grow P b c -> grow P a c.
Proof. intros S (s & T & F). exists s. split; [rewrite T, S; reflexivity | exact F]. Qed.
Lemma grow_same_r P a b c : grow P a b -> same_t b c -> grow P a c.
Proof. intros (s & T & F) S. exists s. split; [rewrite S, T; reflexivity | exact F]. Qed.

(* P only looks at the type, the tag and the children *)
Definition tt_only (P : token -> Prop) : Prop :=
  forall t t', ttype t' = ttype t -> ttag t' = ttag t -> tchildren t' = tchildren t -> tattrs t' = tattrs t -> P t -> P t'.

(* a pushed token: its type and tag are the ones given, whatever the modifier does to other fields *)
Definition keeps_tt (f : token -> token) : Prop :=
  forall t, ttype (f t) = ttype t /\ ttag (f t) = ttag t /\ tchildren (f t) = tchildren t /\ tattrs (f t) = tattrs t.

Lemma grow_push P (TT : tt_only P) st ty tag nesting f :
  keeps_tt f -> P (new_token ty tag nesting) -> grow P st (bpush st ty tag nesting f).
Proof.
  intros K H. eexists. split; [apply bpush_tokens|]. constructor; [|constructor].
  destruct (K (set_level (set_block (new_token ty tag nesting) true) (if nesting <? 0 then b_level st - 1 else b_level st))) as (A & B & C & D).
  eapply TT; [| | | |exact H]; [rewrite A; reflexivity | rewrite B; reflexivity | rewrite C; reflexivity | rewrite D; reflexivity].
Qed.

(* a modifier that also sets the children: the predicate is checked on the pushed token itself *)
Lemma grow_push_d (P : token -> Prop) st ty tag nesting f :
  (forall lvl, P (f (set_level (set_block (new_token ty tag nesting) true) lvl))) -> grow P st (bpush st ty tag nesting f).
Proof. intros H. eexists. split; [apply bpush_tokens|]. constructor; [apply H | constructor]. Qed.

Ltac solve_keeps_tt :=
  let t := fresh "t" in
  intros t; unfold map_tok, cell_attrs;
  repeat match goal with |- context [if ?c then _ else _] => destruct c end;
  repeat split; reflexivity.

(* updates in place that keep type, tag and children of every token *)
Definition same_tt (x y : token) : Prop :=
  ttype y = ttype x /\ ttag y = ttag x /\ tchildren y = tchildren x /\ tattrs y = tattrs x.

Lemma Forall_same_tt P (TT : tt_only P) : forall a b, Forall2 same_tt a b -> Forall P a -> Forall P b.
Proof.
  induction a as [|x a IH]; intros b F H; inversion F; subst; [constructor|].
  inversion H; subst. constructor; [|apply IH; assumption].
  match goal with S : same_tt x ?y |- _ => destruct S as (A & B & C & D); eapply TT; [exact A | exact B | exact C | exact D | assumption] end.
Qed.

Lemma Forall2_same_tt_refl l : Forall2 same_tt l l.
Proof. induction l; constructor; [repeat split; reflexivity | assumption]. Qed.

Lemma update_nth_same_tt (f : token -> token) (K : keeps_tt f) : forall n l, Forall2 same_tt l (update_nth_tok n f l).
Proof.
  unfold update_nth_tok. induction n as [|n IH]; intros [|x l]; try constructor.
  - destruct (K x) as (A & B & C & D); repeat split; assumption.
  - apply Forall2_same_tt_refl.
  - repeat split; reflexivity.
  - apply IH.
Qed.

Lemma Forall2_same_tt_trans a : forall b c, Forall2 same_tt a b -> Forall2 same_tt b c -> Forall2 same_tt a c.
Proof.
  induction a as [|x a IH]; intros b c H1 H2; inversion H1; subst; inversion H2; subst; constructor.
  - match goal with A : same_tt x ?y, B : same_tt ?y ?z |- _ => destruct A as (? & ? & ? & ?), B as (? & ? & ? & ?); repeat split; congruence end.
  - eapply IH; eassumption.
Qed.

Lemma mark_tight_same_tt : forall fuel tokens i length level, Forall2 same_tt tokens (mark_tight fuel tokens i length level).
Proof.
  induction fuel as [|f IH]; intros tokens i length level; cbn [mark_tight]; [apply Forall2_same_tt_refl|].
  destruct (negb (i <? length)); [apply Forall2_same_tt_refl|].
  destruct (nth_error tokens (Z.to_nat i)) as [t|]; [|apply Forall2_same_tt_refl].
  destruct ((tlevel t =? level) && str_eqb (ttype t) [112; 97; 114; 97; 103; 114; 97; 112; 104; 95; 111; 112; 101; 110]).
  - eapply Forall2_same_tt_trans; [|apply IH].
    eapply Forall2_same_tt_trans; apply update_nth_same_tt; intros x; repeat split; reflexivity.
  - apply IH.
Qed.

(* the prefix before [k] is left alone by an update at an index >= k: reuse shape_from from BlockWF *)
Lemma grow_retag P (TT : tt_only P) st s X :
  grow P st s -> Forall2 same_tt (b_tokens s) (b_tokens X) ->
  firstn (length (b_tokens st)) (b_tokens s) = firstn (length (b_tokens st)) (b_tokens X) ->
  grow P st X.
Proof.
  intros (seg & T & F) F2 Pre. rewrite T in F2, Pre.
  apply Forall2_app_inv_l in F2. destruct F2 as (b1 & seg' & F1 & Fs & EX).
  assert (Hb : b1 = b_tokens st).
  { rewrite EX in Pre. rewrite firstn_app, Nat.sub_diag, firstn_all in Pre. cbn [firstn] in Pre. rewrite app_nil_r in Pre.
    assert (Hl : length b1 = length (b_tokens st)) by (symmetry; eapply Forall2_len; exact F1).
    rewrite firstn_app, <- Hl, Nat.sub_diag, firstn_all in Pre. cbn [firstn] in Pre. rewrite app_nil_r in Pre. symmetry. exact Pre. }
  subst b1. exists seg'. split; [exact EX | eapply Forall_same_tt; eassumption].
Qed.

(* ---- the vocabulary of each rule ------------------------------------------------------------ *)

(* (type, tag) as given, and no children yet: None, or the empty list of a fresh inline token *)
Definition no_url_attrs (t : token) : Prop :=
  (forall k v, In (k, AStr v) (tattrs t) -> k = [104; 114; 101; 102] \/ k = [115; 114; 99] -> False)
  /\ (forall n, In ([99; 108; 97; 115; 115], AInt n) (tattrs t) -> False)     (* and no integer class *)
  /\ Forall (fun kv => fst kv = s_start \/ fst kv = s_style) (tattrs t).     (* attribute names: start (ordered lists), style (cells) *)
Definition is (ty tag : str) (t : token) : Prop :=
  ttype t = ty /\ ttag t = tag /\ (tchildren t = None \/ tchildren t = Some []) /\ no_url_attrs t.

Definition P_hr (t : token) : Prop := is [104; 114] [104; 114] t.
Definition P_code (t : token) : Prop := is [99; 111; 100; 101; 95; 98; 108; 111; 99; 107] [99; 111; 100; 101] t.
Definition P_fence (t : token) : Prop := is [102; 101; 110; 99; 101] [99; 111; 100; 101] t.
Definition P_reference (t : token) : Prop := is [100; 101; 102; 105; 110; 105; 116; 105; 111; 110] [] t.
Definition P_paragraph (t : token) : Prop := is [112; 97; 114; 97; 103; 114; 97; 112; 104; 95; 111; 112; 101; 110] [112] t \/ is [105; 110; 108; 105; 110; 101] [] t \/ is [112; 97; 114; 97; 103; 114; 97; 112; 104; 95; 99; 108; 111; 115; 101] [112] t.
Definition P_blockquote (t : token) : Prop := is [98; 108; 111; 99; 107; 113; 117; 111; 116; 101; 95; 111; 112; 101; 110] [98; 108; 111; 99; 107; 113; 117; 111; 116; 101] t \/ is [98; 108; 111; 99; 107; 113; 117; 111; 116; 101; 95; 99; 108; 111; 115; 101] [98; 108; 111; 99; 107; 113; 117; 111; 116; 101] t.
Definition P_list (t : token) : Prop := is [111; 114; 100; 101; 114; 101; 100; 95; 108; 105; 115; 116; 95; 111; 112; 101; 110] [111; 108] t \/ is [98; 117; 108; 108; 101; 116; 95; 108; 105; 115; 116; 95; 111; 112; 101; 110] [117; 108] t \/ is [108; 105; 115; 116; 95; 105; 116; 101; 109; 95; 111; 112; 101; 110] [108; 105] t \/ is [108; 105; 115; 116; 95; 105; 116; 101; 109; 95; 99; 108; 111; 115; 101] [108; 105] t \/ is [111; 114; 100; 101; 114; 101; 100; 95; 108; 105; 115; 116; 95; 99; 108; 111; 115; 101] [111; 108] t \/ is [98; 117; 108; 108; 101; 116; 95; 108; 105; 115; 116; 95; 99; 108; 111; 115; 101] [117; 108] t.
Definition P_table (t : token) : Prop := is [116; 97; 98; 108; 101; 95; 111; 112; 101; 110] [116; 97; 98; 108; 101] t \/ is [116; 104; 101; 97; 100; 95; 111; 112; 101; 110] [116; 104; 101; 97; 100] t \/ is [116; 114; 95; 111; 112; 101; 110] [116; 114] t \/ is [116; 104; 95; 111; 112; 101; 110] [116; 104] t \/ is [105; 110; 108; 105; 110; 101] [] t \/ is [116; 104; 95; 99; 108; 111; 115; 101] [116; 104] t \/ is [116; 114; 95; 99; 108; 111; 115; 101] [116; 114] t \/ is [116; 104; 101; 97; 100; 95; 99; 108; 111; 115; 101] [116; 104; 101; 97; 100] t \/ is [116; 98; 111; 100; 121; 95; 111; 112; 101; 110] [116; 98; 111; 100; 121] t \/ is [116; 100; 95; 111; 112; 101; 110] [116; 100] t \/ is [116; 100; 95; 99; 108; 111; 115; 101] [116; 100] t \/ is [116; 98; 111; 100; 121; 95; 99; 108; 111; 115; 101] [116; 98; 111; 100; 121] t \/ is [116; 97; 98; 108; 101; 95; 99; 108; 111; 115; 101] [116; 97; 98; 108; 101] t.
Definition P_heading (t : token) : Prop :=
  is [105; 110; 108; 105; 110; 101] [] t \/ exists l, 1 <= l <= 6 /\ (is [104; 101; 97; 100; 105; 110; 103; 95; 111; 112; 101; 110] (hN l) t \/ is [104; 101; 97; 100; 105; 110; 103; 95; 99; 108; 111; 115; 101] (hN l) t).

Section Kinds.
Context (cfg : bcfg) (rf cf : str -> str).

(* html_block tokens exist only when options.html is on *)
Definition P_html (t : token) : Prop := c_html cfg = true /\ is nm_html_block [] t.

Definition P_rule (name : str) (t : token) : Prop :=
  if str_eqb name nm_table then P_table t
  else if str_eqb name nm_code then P_code t
  else if str_eqb name nm_fence then P_fence t
  else if str_eqb name nm_blockquote then P_blockquote t
  else if str_eqb name nm_hr then P_hr t
  else if str_eqb name nm_list then P_list t
  else if str_eqb name nm_reference then P_reference t
  else if str_eqb name nm_html_block then P_html t
  else if str_eqb name nm_heading then P_heading t
  else if str_eqb name nm_lheading then P_heading t
  else if str_eqb name nm_paragraph then P_paragraph t
  else False.

(* a token kind is allowed iff some rule of the main chain produces it *)
Definition P_all (t : token) : Prop := exists n, In n (c_rules cfg) /\ P_rule n t.

Lemma is_tt ty tag : tt_only (is ty tag).
Proof. intros t t' A B C D0 (D & E & G & N1 & N2 & N3). unfold is, no_url_attrs. rewrite A, B, C, D0. repeat split; assumption. Qed.

Ltac tt_tac := intros t t' A B C D H; unfold is, no_url_attrs in *; rewrite ?A, ?B, ?C, ?D; exact H.

Lemma tt_hr : tt_only P_hr. Proof. unfold P_hr. tt_tac. Qed.
Lemma tt_code : tt_only P_code. Proof. unfold P_code. tt_tac. Qed.
Lemma tt_fence : tt_only P_fence. Proof. unfold P_fence. tt_tac. Qed.
Lemma tt_reference : tt_only P_reference. Proof. unfold P_reference. tt_tac. Qed.
Lemma tt_paragraph : tt_only P_paragraph. Proof. unfold P_paragraph. tt_tac. Qed.
Lemma tt_blockquote : tt_only P_blockquote. Proof. unfold P_blockquote. tt_tac. Qed.
Lemma tt_list : tt_only P_list. Proof. unfold P_list. tt_tac. Qed.
Lemma tt_table : tt_only P_table. Proof. unfold P_table. tt_tac. Qed.
Lemma tt_heading : tt_only P_heading. Proof. unfold P_heading. tt_tac. Qed.
Lemma tt_html : tt_only P_html. Proof. unfold P_html. tt_tac. Qed.

Lemma tt_rule name : tt_only (P_rule name).
Proof.
  unfold P_rule.
  repeat match goal with |- tt_only (fun t => if ?c then _ else _) => destruct c end;
    first [apply tt_table | apply tt_code | apply tt_fence | apply tt_blockquote | apply tt_hr | apply tt_list
          | apply tt_reference | apply tt_html | apply tt_heading | apply tt_paragraph | (intros ? ? ? ? ? ? []) ].
Qed.

Lemma tt_all : tt_only P_all.
Proof. intros t t' A B C D (n & I & H). exists n. split; [exact I | eapply tt_rule; eassumption]. Qed.

Lemma tt_or P Q : tt_only P -> tt_only Q -> tt_only (fun t => P t \/ Q t).
Proof. intros TP TQ t t' A B C D [H|H]; [left; eapply TP | right; eapply TQ]; eassumption. Qed.

(* contracts of the callbacks *)
Definition rec_g (rec : rec_t) : Prop := forall s a b s', rec s a b = Ok s' -> grow P_all s s'.
Definition term_g (term : term_t) : Prop := forall ch s a b r s', term ch s a b = Ok (r, s') -> grow P_all s s'.
Lemma no_rec_g : rec_g no_rec. Proof. intros s a b s' H. discriminate H. Qed.
Lemma no_term_g : term_g no_term. Proof. intros ch s a b r s' H. discriminate H. Qed.

Lemma grow_push' P (TT : tt_only P) st s ty tag nesting f :
  grow P st s -> keeps_tt f -> P (new_token ty tag nesting) -> grow P st (bpush s ty tag nesting f).
Proof. intros G K H. eapply grow_trans; [exact G | apply grow_push; assumption]. Qed.

(* solve a vocabulary goal  P (new_token ty tag n)  that is a disjunction of [is ty tag] *)
Ltac noattr :=
  unfold no_url_attrs, map_tok, cell_attrs;
  repeat match goal with |- context [if ?c then _ else _] => destruct c end;
  let k := fresh "k" in let v := fresh "v" in let I := fresh "I" in let K := fresh "K" in
  (split;
   [ intros k v I K; cbn in I;
     repeat (destruct I as [I|I]; [first [discriminate I | injection I as <- _; destruct K as [K|K]; discriminate K]|]); exact I
   | split; [ intros k I; cbn in I; repeat (destruct I as [I|I]; [discriminate I|]); exact I
            | cbn; repeat constructor; first [left; reflexivity | right; reflexivity] ] ]).
Ltac isgoal := unfold is, map_tok, cell_attrs;
  repeat match goal with |- context [if ?c then _ else _] => destruct c end;
  (split; [reflexivity | (split; [reflexivity | (split; [first [left; reflexivity | right; reflexivity] | noattr])])]).
Ltac pgoal := solve [ isgoal | left; pgoal | right; pgoal ].

Lemma grow_push'_d (P : token -> Prop) st s ty tag nesting f :
  grow P st s -> (forall lvl, P (f (set_level (set_block (new_token ty tag nesting) true) lvl))) ->
  grow P st (bpush s ty tag nesting f).
Proof. intros G H. eapply grow_trans; [exact G | apply grow_push_d; exact H]. Qed.

(* peel the pushes / field updates off the final state, down to [base] *)
Ltac grow_chain TT pg base :=
  lazymatch goal with
  | |- grow _ _ (bpush _ _ _ _ _) =>
      first [ apply (grow_push' _ TT); [grow_chain TT pg base | solve_keeps_tt | pg]
            | apply grow_push'_d; [grow_chain TT pg base | let lvl := fresh "lvl" in intros lvl; pg] ]
  | |- grow _ _ (push_inline _ _ _ _) => unfold push_inline; grow_chain TT pg base
  | |- grow _ _ (st_parent ?s _) => apply (grow_same_r _ _ s); [grow_chain TT pg base | reflexivity]
  | |- grow _ _ (st_line ?s _) => apply (grow_same_r _ _ s); [grow_chain TT pg base | reflexivity]
  | |- _ => base
  end.
Ltac from_refl := first [apply grow_refl | apply same_t_grow; reflexivity].

(* ---- leaf rules ---- *)

Lemma r_hr_g st sl el silent b st' : r_hr cfg st sl el silent = Ok (b, st') -> grow P_hr st st'.
Proof.
  unfold r_hr. intros H. repeat rstep H; rfinish H; try apply grow_refl.
  grow_chain tt_hr ltac:(unfold P_hr; pgoal) from_refl.
Qed.

Lemma r_code_g st sl el silent b st' : r_code cfg st sl el silent = Ok (b, st') -> grow P_code st st'.
Proof.
  unfold r_code. intros H. repeat rstep H; rfinish H; try apply grow_refl.
  grow_chain tt_code ltac:(unfold P_code; pgoal) from_refl.
Qed.

Lemma r_fence_g st sl el silent b st' : r_fence cfg st sl el silent = Ok (b, st') -> grow P_fence st st'.
Proof.
  unfold r_fence. intros H. repeat rstep H; rfinish H; try apply grow_refl.
  all: grow_chain tt_fence ltac:(unfold P_fence; pgoal) from_refl.
Qed.

Lemma r_html_block_g st sl el silent b st' : r_html_block cfg st sl el silent = Ok (b, st') -> grow P_html st st'.
Proof.
  unfold r_html_block. intros H.
  do 3 rstep H. rstep H; [rfinish H; apply grow_refl|].
  destruct (c_html cfg) eqn:HT; cbn [negb] in H; [|rfinish H; apply grow_refl].
  repeat rstep H; rfinish H; try apply grow_refl.
  all: grow_chain tt_html ltac:(unfold P_html; split; [exact HT | isgoal]) from_refl.
Qed.

Lemma heading_level_bounds : forall fuel src pos maximum level p l,
  heading_level fuel src pos maximum level = (p, l) -> level <= l.
Proof.
  induction fuel as [|f IH]; intros src pos maximum level p l H; cbn [heading_level] in H; [injection H as <- <-; lia|].
  destruct (char_at src pos) as [c|]; [|injection H as <- <-; lia].
  destruct (Z.eqb_spec c 35) as [->|N].
  - destruct ((pos <? maximum) && (level <=? 6)); [apply IH in H; lia | injection H as <- <-; lia].
  - assert (E : (match c with 35 => if (pos <? maximum) && (level <=? 6) then heading_level f src (pos + 1) maximum (level + 1) else (pos, level) | _ => (pos, level) end) = (pos, level)).
    { destruct c as [|q|q]; try reflexivity. do 6 (try destruct q as [q|q|]); try reflexivity. contradiction N; reflexivity. }
    rewrite E in H. injection H as <- <-. lia.
Qed.

Ltac pg_heading level :=
  unfold P_heading; first [ left; isgoal
                          | right; exists level; split; [lia | first [left; isgoal | right; isgoal]] ].

Lemma r_heading_g st sl el silent b st' : r_heading cfg st sl el silent = Ok (b, st') -> grow P_heading st st'.
Proof.
  unfold r_heading. intros H.
  do 3 rstep H. rstep H; [rfinish H; apply grow_refl|]. rstep H; [rfinish H; apply grow_refl|].
  rstep H. rstep H; [rfinish H; apply grow_refl|].
  destruct (heading_level 8 (b_src st) (x + 1) x0 1) as [p level] eqn:HL.
  apply heading_level_bounds in HL.
  destruct ((6 <? level) || ((p <? x0) && negb (is_space_at (b_src st) p))) eqn:C6; [rfinish H; apply grow_refl|].
  assert (L6 : level <= 6) by lia.
  destruct silent; [rfinish H; apply grow_refl|].
  repeat rstep H; rfinish H.
  all: grow_chain tt_heading ltac:(pg_heading level) from_refl.
Qed.

(* ---- paragraph-like rules ---- *)

Lemma para_scan_g term (T : term_g term) : forall fuel chain st nl el cu r u st',
  para_scan fuel term chain st nl el cu = Ok (r, u, st') ->
  grow P_all st st' /\ (forall m l, u = Some (m, l) -> l = 1 \/ l = 2).
Proof.
  induction fuel as [|f IH]; intros chain st nl el cu r u st' H; [discriminate H|].
  cbn [para_scan] in H.
  destruct (negb (nl <? el)); [rfinish H; split; [apply grow_refl | intros; discriminate]|].
  destruct (is_empty st nl) as [e|?|]; cbn [bind] in H; try discriminate H.
  destruct e; [rfinish H; split; [apply grow_refl | intros; discriminate]|].
  destruct (tb (b_sCount st) nl) as [sc|?|]; cbn [bind] in H; try discriminate H.
  destruct (3 <? sc - b_blkIndent st); [eapply IH; exact H|].
  match type of H with bind ?m _ = _ => destruct m as [ul|?|] eqn:UL end; cbn [bind] in H; try discriminate H.
  destruct ul as [ml|].
  - (* the underline level is 1 for '=' and 2 for '-' *)
    assert (LV : snd ml = 1 \/ snd ml = 2).
    { destruct (cu && (b_blkIndent st <=? sc)); [|discriminate UL].
      repeat rstep UL; try discriminate UL. injection UL as <-. cbn [snd].
      match goal with |- context [if ?c then 1 else 2] => destruct c end; [left | right]; reflexivity. }
    rfinish H. split; [apply grow_refl|]. intros m l E. injection E as ->. exact LV.
  - destruct (sc <? 0); [eapply IH; exact H|].
    destruct (term chain st nl el) as [[t st1]|?|] eqn:TE; cbn [bind] in H; try discriminate H.
    pose proof (T _ _ _ _ _ _ TE) as E1.
    destruct t; [rfinish H; split; [exact E1 | intros; discriminate]|].
    apply IH in H. destruct H as [G U]. split; [eapply grow_trans; eassumption | exact U].
Qed.

Lemma r_paragraph_g term (T : term_g term) st sl el silent b st' :
  r_paragraph term st sl el silent = Ok (b, st') -> grow (fun t => P_paragraph t \/ P_all t) st st'.
Proof.
  unfold r_paragraph. intros H.
  match type of H with bind ?m _ = _ => destruct m as [[[nl u] st1]|?|] eqn:PS end; cbn [bind] in H; try discriminate H.
  apply (para_scan_g term T) in PS. destruct PS as [PS _].
  assert (PS' : grow (fun t => P_paragraph t \/ P_all t) st st1).
  { eapply grow_weaken; [|eapply grow_same_l; [|exact PS]; reflexivity]. intros t Ht. right; exact Ht. }
  repeat rstep H; rfinish H.
  grow_chain (tt_or _ _ tt_paragraph tt_all) ltac:(left; unfold P_paragraph; pgoal) ltac:(exact PS').
Qed.

Lemma r_lheading_g term (T : term_g term) st sl el silent b st' :
  r_lheading cfg term st sl el silent = Ok (b, st') -> grow (fun t => P_heading t \/ P_all t) st st'.
Proof.
  unfold r_lheading. intros H. rstep H. rstep H; [rfinish H; apply grow_refl|].
  match type of H with bind ?m _ = _ => destruct m as [[[nl u] st1]|?|] eqn:PS end; cbn [bind] in H; try discriminate H.
  apply (para_scan_g term T) in PS. destruct PS as [PS LV].
  assert (PS' : grow (fun t => P_heading t \/ P_all t) st st1).
  { eapply grow_weaken; [|eapply grow_same_l; [|exact PS]; reflexivity]. intros t Ht. right; exact Ht. }
  destruct u as [[marker level]|]; [|rfinish H; exact PS'].
  assert (LL : level = 1 \/ level = 2) by (eapply LV; reflexivity).
  repeat rstep H; rfinish H.
  grow_chain (tt_or _ _ tt_heading tt_all) ltac:(left; pg_heading level) ltac:(exact PS').
Qed.

Lemma r_reference_g term (T : term_g term) st sl el silent b st' :
  r_reference cfg rf cf term st sl el silent = Ok (b, st') -> grow (fun t => P_reference t \/ P_all t) st st'.
Proof.
  unfold r_reference. intros H.
  do 3 rstep H. rstep H; [rfinish H; apply grow_refl|].
  rstep H. rstep H; [rfinish H; apply grow_refl|].
  rstep H. rstep H; [rfinish H; apply grow_refl|].
  match type of H with bind ?m _ = _ => destruct m as [[[nl u] st1]|?|] eqn:PS end; cbn [bind] in H; try discriminate H.
  apply (para_scan_g term T) in PS. destruct PS as [PS _].
  assert (PS' : grow (fun t => P_reference t \/ P_all t) st st1).
  { eapply grow_weaken; [|eapply grow_same_l; [|exact PS]; reflexivity]. intros t Ht. right; exact Ht. }
  rstep H.
  match type of H with (match ?o with Some _ => _ | None => _ end) = _ => destruct o as [[[labelEnd|] lines0]|] end;
    try (rfinish H; exact PS').
  repeat rstep H; rfinish H; try exact PS'.
  all: destruct (c_inline_defs cfg).
  all: try (eapply grow_same_r; [exact PS' | reflexivity]).
  all: match goal with |- grow _ _ (st_parent (?s <| b_env := _ |>) _) => apply (grow_same_r _ _ s); [|reflexivity] end.
  all: apply (grow_push' _ (tt_or _ _ tt_reference tt_all)); [eapply grow_same_r; [exact PS' | reflexivity] | solve_keeps_tt | left; unfold P_reference; isgoal].
Qed.

(* ---- containers ---- *)

Lemma grow_len P a b : grow P a b -> (length (b_tokens a) <= length (b_tokens b))%nat.
Proof. intros (s & T & _). rewrite T, app_length. lia. Qed.

Lemma same_tl_t a b : same_tl a b -> same_t a b.
Proof. intros [T _]. exact T. Qed.

(* an in-place update of maps at an index inside the new part *)
Lemma grow_set_map P (TT : tt_only P) st s X idx g :
  grow P st s -> (length (b_tokens st) <= idx)%nat -> b_tokens X = set_map_at (b_tokens s) idx g -> grow P st X.
Proof.
  intros G Hk TX. eapply (grow_retag P TT st s X G); rewrite TX.
  - unfold set_map_at. apply update_nth_same_tt. intros t; repeat split; reflexivity.
  - destruct (set_map_at_shape (length (b_tokens st)) (b_tokens s) idx g Hk) as [Pre _]. exact Pre.
Qed.

Lemma grow_set_map_tight P (TT : tt_only P) st s X idx g fuel i len0 lvl :
  grow P st s -> (length (b_tokens st) <= idx)%nat -> (length (b_tokens st) <= Z.to_nat i)%nat -> 0 <= i ->
  b_tokens X = mark_tight fuel (set_map_at (b_tokens s) idx g) i len0 lvl -> grow P st X.
Proof.
  intros G Hk Hi Hi0 TX. eapply (grow_retag P TT st s X G); rewrite TX.
  - eapply Forall2_same_tt_trans; [|apply mark_tight_same_tt].
    unfold set_map_at. apply update_nth_same_tt. intros t; repeat split; reflexivity.
  - destruct (set_map_at_shape (length (b_tokens st)) (b_tokens s) idx g Hk) as [Pre1 _].
    destruct (mark_tight_shape (length (b_tokens st)) fuel (set_map_at (b_tokens s) idx g) i len0 lvl Hi Hi0) as [Pre2 _].
    congruence.
Qed.

Lemma bq_loop_g term (T : term_g term) : forall fuel st sv nl el lle r sv' st',
  bq_loop fuel term st sv nl el lle = Ok (r, sv', st') -> grow P_all st st'.
Proof.
  induction fuel as [|f IH]; intros st sv nl el lle r sv' st' H; [discriminate H|].
  cbn [bq_loop] in H.
  destruct (negb (nl <? el)); [rfinish H; apply grow_refl|].
  do 3 rstep H. destruct (x1 <=? x0); [rfinish H; apply grow_refl|].
  rstep H.
  destruct ((x2 =? 62) && negb (x <? b_blkIndent st)).
  - do 3 rstep H.
    match type of H with bind (apply_bq ?a ?b ?c) _ = _ => destruct (apply_bq a b c) as [st1|?|] eqn:AB end;
      cbn [bind] in H; try discriminate H.
    apply apply_bq_same, same_tl_t in AB. eapply grow_same_l; [exact AB | eapply IH; exact H].
  - destruct lle; [rfinish H; apply grow_refl|].
    destruct (term nm_blockquote st nl el) as [[t st1]|?|] eqn:TE; cbn [bind] in H; try discriminate H.
    pose proof (T _ _ _ _ _ _ TE) as E1.
    destruct t.
    + repeat rstep H; rfinish H; (eapply grow_same_r; [exact E1 | reflexivity]).
    + do 2 rstep H. eapply grow_trans; [exact E1|].
      eapply grow_same_l; [|eapply IH; exact H]. reflexivity.
Qed.

Lemma r_blockquote_g rec term (R : rec_g rec) (T : term_g term) st sl el silent b st' :
  r_blockquote cfg rec term st sl el silent = Ok (b, st') -> grow (fun t => P_blockquote t \/ P_all t) st st'.
Proof.
  unfold r_blockquote. intros H.
  do 3 rstep H. rstep H; [rfinish H; apply grow_refl|].
  rewrite match_some_62 in H.
  rstep H; [|rfinish H; apply grow_refl].
  destruct silent; [rfinish H; apply grow_refl|].
  do 4 rstep H.
  match type of H with bind (apply_bq ?a ?b ?c) _ = _ => destruct (apply_bq a b c) as [st1|?|] eqn:AB end;
    cbn [bind] in H; try discriminate H.
  apply apply_bq_same, same_tl_t in AB.
  match type of H with bind ?m _ = _ => destruct m as [[[nl sv] st3]|?|] eqn:BL end; cbn [bind] in H; try discriminate H.
  apply (bq_loop_g term T) in BL.
  match type of H with bind (rec ?a ?b ?c) _ = _ => destruct (rec a b c) as [st6|?|] eqn:RC end;
    cbn [bind] in H; try discriminate H.
  apply R in RC.
  match type of H with bind ?m _ = _ => destruct m as [st10|?|] eqn:RT end; cbn [bind] in H; try discriminate H.
  apply restore_tables_same, same_tl_t in RT. rfinish H.
  set (Q := fun t => P_blockquote t \/ P_all t).
  assert (TQ : tt_only Q) by (apply tt_or; [apply tt_blockquote | apply tt_all]).
  assert (W : forall a b0, grow P_all a b0 -> grow Q a b0) by (intros a b0; apply grow_weaken; intros t Ht; right; exact Ht).
  assert (E3 : grow Q st st3).
  { eapply grow_same_l; [exact AB|]. apply W. eapply grow_same_l; [|exact BL]. reflexivity. }
  (* open, inner, close *)
  match type of RC with grow _ (bpush ?s4 ?ty ?tag 1 ?f) _ =>
    assert (E5 : grow Q st (bpush s4 ty tag 1 f))
      by (apply (grow_push' _ TQ); [eapply grow_same_r; [exact E3 | reflexivity] | solve_keeps_tt | left; unfold P_blockquote; pgoal])
  end.
  assert (E6 : grow Q st st6) by (eapply grow_trans; [exact E5 | apply W, RC]).
  match type of RT with same_t (_ <| b_tokens := set_map_at (b_tokens ?s8) ?idx ?g |>) _ =>
    match s8 with context [bpush st6 ?ty' ?tag' (-1) ?f'] =>
      assert (E7 : grow Q st (bpush st6 ty' tag' (-1) f'))
        by (apply (grow_push' _ TQ); [exact E6 | solve_keeps_tt | left; unfold P_blockquote; pgoal]);
      eapply (grow_set_map Q TQ st (bpush st6 ty' tag' (-1) f') _ idx g E7)
    end
  end.
  - pose proof (grow_len _ _ _ E3) as L3. cbn. exact L3.
  - exact RT.
Qed.

Definition QL (t : token) : Prop := P_list t \/ P_all t.
Lemma tt_QL : tt_only QL. Proof. apply tt_or; [apply tt_list | apply tt_all]. Qed.
Lemma W_QL a b : grow P_all a b -> grow QL a b.
Proof. apply grow_weaken. intros t Ht. right; exact Ht. Qed.

Lemma list_items_g rec term (R : rec_g rec) (T : term_g term) :
  forall fuel st ord mc sl nl el pam start tight pee r t st',
    list_items cfg fuel rec term st ord mc sl nl el pam start tight pee = Ok (r, t, st') -> grow QL st st'.
Proof.
  induction fuel as [|f IH]; intros st ord mc sl nl el pam start tight pee r t st' H; [discriminate H|].
  cbn [list_items] in H.
  destruct (negb (nl <? el)); [rfinish H; apply grow_refl|].
  do 4 rstep H. rstep H. destruct x3 as [contentStart offset].
  do 5 rstep H.
  match type of H with bind ?m _ = _ => destruct m as [st3|?|] eqn:INNER end; cbn [bind] in H; try discriminate H.
  do 3 rstep H.
  (* the state after the close token and the map update *)
  match type of H with context [bpush ?s4 s_list_item_close s_li (-1) ?f'] =>
    assert (E6 : grow QL st ((bpush s4 s_list_item_close s_li (-1) f')
                             <| b_tokens := set_map_at (b_tokens (bpush s4 s_list_item_close s_li (-1) f')) (length (b_tokens st))
                                              (fun _ => Some (sl, b_line (bpush s4 s_list_item_close s_li (-1) f'))) |>))
  end.
  { match goal with |- grow _ _ (?X0 <| b_tokens := set_map_at _ ?idx ?g |>) =>
      eapply (grow_set_map QL tt_QL st X0 _ idx g); [| apply Nat.le_refl | reflexivity]
    end.
    apply (grow_push' _ tt_QL); [| solve_keeps_tt | left; unfold P_list; pgoal].
    (* inner part *)
    match type of INNER with bind ?m _ = _ => destruct m as [e|?|] end; cbn [bind] in INNER; try discriminate INNER.
    destruct e.
    - rfinish INNER.
      match goal with |- grow _ _ ?X => apply (grow_same_r _ _ (bpush st s_list_item_open s_li 1
            (fun t0 => (if ord then (fun x => set_info x (slice (b_src st) start (pam - 1))) else (fun x => x))
                         (map_tok sl 0 (set_markup t0 [mc]))))); [|reflexivity] end.
      apply (grow_push' _ tt_QL); [apply grow_refl | solve_keeps_tt | left; unfold P_list; pgoal].
    - apply R in INNER. eapply grow_same_r; [|reflexivity].
      eapply grow_trans; [|apply W_QL; eapply grow_same_l; [|exact INNER]; reflexivity].
      apply (grow_push' _ tt_QL); [apply grow_refl | solve_keeps_tt | left; unfold P_list; pgoal]. }
  match type of H with (if ?c then _ else _) = _ => destruct c end; [rfinish H; exact E6|].
  rstep H. rstep H; [rfinish H; exact E6|].
  rstep H. rstep H; [rfinish H; exact E6|].
  match type of H with bind (term ?a ?b ?c ?d) _ = _ => destruct (term a b c d) as [[tt st7]|?|] eqn:TE end;
    cbn [bind] in H; try discriminate H.
  pose proof (T _ _ _ _ _ _ TE) as E7.
  assert (E67 : grow QL st st7) by (eapply grow_trans; [exact E6 | apply W_QL, E7]).
  destruct tt; [rfinish H; exact E67|].
  rstep H. rstep H; [rfinish H; exact E67|].
  do 2 rstep H. rstep H; [rfinish H; exact E67|].
  eapply grow_trans; [exact E67 | eapply IH; exact H].
Qed.

Opaque mark_tight set_map_at.
Lemma r_list_g rec term (R : rec_g rec) (T : term_g term) st sl el silent b st' :
  r_list cfg rec term st sl el silent = Ok (b, st') -> grow QL st st'.
Proof.
  unfold r_list. intros H.
  rstep H. rstep H; [rfinish H; apply grow_refl|].
  rstep H. rstep H; [rfinish H; apply grow_refl|].
  do 2 rstep H.
  match type of H with bind ?m _ = _ => destruct m as [sel|?|] end; cbn [bind] in H; try discriminate H.
  destruct sel as [[[ord pam] mv]|]; [|rfinish H; apply grow_refl].
  rstep H. rstep H; [rfinish H; apply grow_refl|].
  rstep H. destruct silent; [rfinish H; apply grow_refl|].
  match type of H with bind ?m _ = _ => destruct m as [[[nl tight] st3]|?|] eqn:LI end; cbn [bind] in H; try discriminate H.
  apply (list_items_g rec term R T) in LI.
  rfinish H.
  destruct ord.
  - match type of LI with grow _ (st_parent (bpush st ?ty ?tag 1 ?fo) _) _ =>
      match goal with |- context [bpush st3 ?ty' ?tag' (-1) ?fc] =>
        assert (E4 : grow QL st (bpush st3 ty' tag' (-1) fc))
          by (apply (grow_push' _ tt_QL); [| solve_keeps_tt | left; unfold P_list; pgoal];
              eapply grow_trans; [|eapply grow_same_l; [|exact LI]; reflexivity];
              first [ apply (grow_push' _ tt_QL); [apply grow_refl | solve_keeps_tt | left; unfold P_list; pgoal]
                    | apply grow_push'_d; [apply grow_refl | intros lvl; left; unfold P_list; pgoal] ])
      end
    end.
    destruct tight.
    + eapply (grow_set_map_tight QL tt_QL st _ _ _ _ _ _ _ _ E4); [apply Nat.le_refl | | | unfold st_parent, st_line; cbn; reflexivity]; lia.
    + eapply (grow_set_map QL tt_QL st _ _ _ _ E4); [apply Nat.le_refl | unfold st_parent, st_line; cbn; reflexivity].
  - match type of LI with grow _ (st_parent (bpush st ?ty ?tag 1 ?fo) _) _ =>
      match goal with |- context [bpush st3 ?ty' ?tag' (-1) ?fc] =>
        assert (E4 : grow QL st (bpush st3 ty' tag' (-1) fc))
          by (apply (grow_push' _ tt_QL); [| solve_keeps_tt | left; unfold P_list; pgoal];
              eapply grow_trans; [|eapply grow_same_l; [|exact LI]; reflexivity];
              first [ apply (grow_push' _ tt_QL); [apply grow_refl | solve_keeps_tt | left; unfold P_list; pgoal]
                    | apply grow_push'_d; [apply grow_refl | intros lvl; left; unfold P_list; pgoal] ])
      end
    end.
    destruct tight.
    + eapply (grow_set_map_tight QL tt_QL st _ _ _ _ _ _ _ _ E4); [apply Nat.le_refl | | | unfold st_parent, st_line; cbn; reflexivity]; lia.
    + eapply (grow_set_map QL tt_QL st _ _ _ _ E4); [apply Nat.le_refl | unfold st_parent, st_line; cbn; reflexivity].
Qed.
Transparent mark_tight set_map_at.

Definition QT (t : token) : Prop := P_table t \/ P_all t.
Lemma tt_QT : tt_only QT. Proof. apply tt_or; [apply tt_table | apply tt_all]. Qed.
Lemma W_QT a b : grow P_all a b -> grow QT a b.
Proof. apply grow_weaken. intros t Ht. right; exact Ht. Qed.

Ltac pg_table := left; unfold P_table; pgoal.

Lemma push_cells_g : forall aligns st s oty cty tag cols a b sne,
  (oty = [116; 104; 95; 111; 112; 101; 110] /\ cty = [116; 104; 95; 99; 108; 111; 115; 101] /\ tag = [116; 104])
  \/ (oty = [116; 100; 95; 111; 112; 101; 110] /\ cty = [116; 100; 95; 99; 108; 111; 115; 101] /\ tag = [116; 100]) ->
  grow QT st s -> grow QT st (push_cells s oty cty tag aligns cols a b sne).
Proof.
  induction aligns as [|al aligns IH]; intros st s oty cty tag cols a b sne V G; cbn [push_cells]; [exact G|].
  apply IH; [exact V|].
  destruct V as [(-> & -> & ->) | (-> & -> & ->)].
  - grow_chain tt_QT pg_table ltac:(exact G).
  - grow_chain tt_QT pg_table ltac:(exact G).
Qed.

Lemma table_rows_g term (T : term_g term) : forall fuel st aligns sl nl el tbody r tb' st',
  table_rows cfg fuel term st aligns sl nl el tbody = Ok (r, tb', st') ->
  grow QT st st' /\ (forall bi, tb' = Some bi -> tbody = Some bi \/ (length (b_tokens st) <= bi)%nat).
Proof.
  induction fuel as [|f IH]; intros st aligns sl nl el tbody r tb' st' H; [discriminate H|].
  cbn [table_rows] in H.
  destruct (negb (nl <? el)); [rfinish H; split; [apply grow_refl | intros bi E; left; exact E]|].
  rstep H. rstep H; [rfinish H; split; [apply grow_refl | intros bi E; left; exact E]|].
  destruct (term nm_blockquote st nl el) as [[t st1]|?|] eqn:TE; cbn [bind] in H; try discriminate H.
  pose proof (T _ _ _ _ _ _ TE) as E1. pose proof (grow_len _ _ _ E1) as L1.
  destruct t; [rfinish H; split; [apply W_QT, E1 | intros bi E; left; exact E]|].
  rstep H. destruct (py_strip x0) as [|c0 lt] eqn:LT; [rfinish H; split; [apply W_QT, E1 | intros bi E; left; exact E]|].
  rstep H. rstep H; [rfinish H; split; [apply W_QT, E1 | intros bi E; left; exact E]|].
  destruct (nl =? sl + 2).
  - apply IH in H. destruct H as [G B]. split.
    + eapply grow_trans; [|exact G].
      apply (grow_push' _ tt_QT); [| solve_keeps_tt | pg_table].
      apply push_cells_g; [right; repeat split; reflexivity|].
      grow_chain tt_QT pg_table ltac:(apply W_QT, E1).
    + intros bi E. apply B in E. destruct E as [E | E]; [injection E as <-; right; exact L1|].
      right. etransitivity; [exact L1|]. etransitivity; [|exact E].
      rewrite !bpush_tokens, !app_length. cbn [length].
      match goal with |- (_ <= length (b_tokens (push_cells ?s _ _ _ _ _ _ _ _)) + 1)%nat =>
        pose proof (grow_len _ _ _ (push_cells_g aligns s s _ _ _ (trim_cols (escaped_split (c0 :: lt))) nl (nl + 1) true
                                      (or_intror (conj eq_refl (conj eq_refl eq_refl))) (grow_refl QT s))) as LP end.
      rewrite !bpush_tokens, !app_length in LP. cbn [length] in LP. lia.
  - apply IH in H. destruct H as [G B]. split.
    + eapply grow_trans; [|exact G].
      apply (grow_push' _ tt_QT); [| solve_keeps_tt | pg_table].
      apply push_cells_g; [right; repeat split; reflexivity|].
      grow_chain tt_QT pg_table ltac:(apply W_QT, E1).
    + intros bi E. apply B in E. destruct E as [E | E]; [left; exact E|].
      right. etransitivity; [exact L1|]. etransitivity; [|exact E].
      rewrite !bpush_tokens, !app_length. cbn [length].
      match goal with |- (_ <= length (b_tokens (push_cells ?s _ _ _ _ _ _ _ _)) + 1)%nat =>
        pose proof (grow_len _ _ _ (push_cells_g aligns s s _ _ _ (trim_cols (escaped_split (c0 :: lt))) nl (nl + 1) true
                                      (or_intror (conj eq_refl (conj eq_refl eq_refl))) (grow_refl QT s))) as LP end.
      rewrite !bpush_tokens, !app_length in LP. cbn [length] in LP. lia.
Qed.

Opaque set_map_at.
Lemma r_table_g term (T : term_g term) st sl el silent b st' :
  r_table cfg term st sl el silent = Ok (b, st') -> grow QT st st'.
Proof.
  unfold r_table. intros H.
  rstep H; [rfinish H; apply grow_refl|].
  rstep H. rstep H; [rfinish H; apply grow_refl|].
  rstep H. rstep H; [rfinish H; apply grow_refl|].
  do 2 rstep H. rstep H; [rfinish H; apply grow_refl|].
  rstep H. rstep H; [rfinish H; apply grow_refl|].
  rstep H; [rfinish H; apply grow_refl|].
  rstep H. rstep H; [rfinish H; apply grow_refl|].
  rstep H; [rfinish H; apply grow_refl|].
  rstep H. rstep H; [rfinish H; apply grow_refl|].
  rstep H. rstep H; [|rfinish H; apply grow_refl].
  rstep H. rstep H; [rfinish H; apply grow_refl|].
  rstep H. rstep H; [rfinish H; apply grow_refl|].
  rstep H; [rfinish H; apply grow_refl|].
  destruct silent; [rfinish H; apply grow_refl|].
  match type of H with bind ?m _ = _ => destruct m as [[[nl tbody] st7]|?|] eqn:TR end; cbn [bind] in H; try discriminate H.
  rfinish H.
  (* head *)
  match type of TR with table_rows _ _ _ ?s6 _ _ _ _ _ = _ =>
    assert (EH : grow QT st s6)
  end.
  { apply (grow_push' _ tt_QT); [| solve_keeps_tt | pg_table].
    apply (grow_push' _ tt_QT); [| solve_keeps_tt | pg_table].
    apply push_cells_g; [left; repeat split; reflexivity|].
    grow_chain tt_QT pg_table from_refl. }
  pose proof (grow_len _ _ _ EH) as LH.
  apply (table_rows_g term T) in TR. destruct TR as [G7 B7].
  assert (E7 : grow QT st st7) by (eapply grow_trans; eassumption).
  pose proof (grow_len _ _ _ E7) as L7.
  destruct tbody as [bi|].
  - (* tbody close + its map update, then table close + its map update *)
    destruct (B7 bi eq_refl) as [E | Lbi]; [discriminate E|].
    match goal with |- grow _ _ (st_line (st_parent (?s9 <| b_tokens := set_map_at _ ?idx ?g |>) _) _) =>
      eapply (grow_set_map QT tt_QT st s9 _ idx g); [| | unfold st_line, st_parent; cbn; reflexivity]
    end.
    + apply (grow_push' _ tt_QT); [| solve_keeps_tt | pg_table].
      match goal with |- grow _ _ (?s1 <| b_tokens := set_map_at _ ?i2 ?g2 |>) =>
        eapply (grow_set_map QT tt_QT st s1 _ i2 g2); [| | reflexivity]
      end.
      * apply (grow_push' _ tt_QT); [exact E7 | solve_keeps_tt | pg_table].
      * lia.
    + cbn. lia.
  - match goal with |- grow _ _ (st_line (st_parent (?s9 <| b_tokens := set_map_at _ ?idx ?g |>) _) _) =>
      eapply (grow_set_map QT tt_QT st s9 _ idx g); [| | unfold st_line, st_parent; cbn; reflexivity]
    end.
    + apply (grow_push' _ tt_QT); [exact E7 | solve_keeps_tt | pg_table].
    + cbn. lia.
Qed.
Transparent set_map_at.

(* ---- dispatch, chains, loop ---- *)

Lemma W_all (P : token -> Prop) name : In name (c_rules cfg) -> (forall t, P t -> P_rule name t) ->
  forall a b, grow (fun t => P t \/ P_all t) a b -> grow P_all a b.
Proof.
  intros I Sub a b. apply grow_weaken. intros t [H|H]; [exists name; split; [exact I | apply Sub, H] | exact H].
Qed.

Lemma W_all0 (P : token -> Prop) name : In name (c_rules cfg) -> (forall t, P t -> P_rule name t) ->
  forall a b, grow P a b -> grow P_all a b.
Proof. intros I Sub a b. apply grow_weaken. intros t H. exists name. split; [exact I | apply Sub, H]. Qed.

Lemma apply_rule_g rec term (R : rec_g rec) (T : term_g term) name st sl el silent b st' :
  In name (c_rules cfg) ->
  apply_rule cfg rf cf rec term name st sl el silent = Ok (b, st') -> grow P_all st st'.
Proof.
  intros I. unfold apply_rule. intros H.
  destruct (str_eqb name nm_table) eqn:E1.
  { apply (r_table_g term T) in H. eapply (W_all P_table name I); [|exact H]. intros t Ht. unfold P_rule. rewrite E1. exact Ht. }
  destruct (str_eqb name nm_code) eqn:E2.
  { apply r_code_g in H. eapply (W_all0 P_code name I); [|exact H]. intros t Ht. unfold P_rule. rewrite E1, E2. exact Ht. }
  destruct (str_eqb name nm_fence) eqn:E3.
  { apply r_fence_g in H. eapply (W_all0 P_fence name I); [|exact H]. intros t Ht. unfold P_rule. rewrite E1, E2, E3. exact Ht. }
  destruct (str_eqb name nm_blockquote) eqn:E4.
  { apply (r_blockquote_g rec term R T) in H. eapply (W_all P_blockquote name I); [|exact H]. intros t Ht. unfold P_rule. rewrite E1, E2, E3, E4. exact Ht. }
  destruct (str_eqb name nm_hr) eqn:E5.
  { apply r_hr_g in H. eapply (W_all0 P_hr name I); [|exact H]. intros t Ht. unfold P_rule. rewrite E1, E2, E3, E4, E5. exact Ht. }
  destruct (str_eqb name nm_list) eqn:E6.
  { apply (r_list_g rec term R T) in H. eapply (W_all P_list name I); [|exact H]. intros t Ht. unfold P_rule. rewrite E1, E2, E3, E4, E5, E6. exact Ht. }
  destruct (str_eqb name nm_reference) eqn:E7.
  { apply (r_reference_g term T) in H. eapply (W_all P_reference name I); [|exact H]. intros t Ht. unfold P_rule. rewrite E1, E2, E3, E4, E5, E6, E7. exact Ht. }
  destruct (str_eqb name nm_html_block) eqn:E8.
  { apply r_html_block_g in H. eapply (W_all0 P_html name I); [|exact H]. intros t Ht. unfold P_rule. rewrite E1, E2, E3, E4, E5, E6, E7, E8. exact Ht. }
  destruct (str_eqb name nm_heading) eqn:E9.
  { apply r_heading_g in H. eapply (W_all0 P_heading name I); [|exact H]. intros t Ht. unfold P_rule. rewrite E1, E2, E3, E4, E5, E6, E7, E8, E9. exact Ht. }
  destruct (str_eqb name nm_lheading) eqn:E10.
  { apply (r_lheading_g term T) in H. eapply (W_all P_heading name I); [|exact H]. intros t Ht. unfold P_rule. rewrite E1, E2, E3, E4, E5, E6, E7, E8, E9, E10. exact Ht. }
  destruct (str_eqb name nm_paragraph) eqn:E11.
  { apply (r_paragraph_g term T) in H. eapply (W_all P_paragraph name I); [|exact H]. intros t Ht. unfold P_rule. rewrite E1, E2, E3, E4, E5, E6, E7, E8, E9, E10, E11. exact Ht. }
  rfinish H. apply grow_refl.
Qed.

(* the terminator chains are compiled from the enabled rules (Ruler: a named chain is the main chain
   filtered by the rule's alt list), so every chain is a sub-list of the main chain *)
Definition chains_sub : Prop := forall ch n, In n (c_term cfg ch) -> In n (c_rules cfg).

Lemma run_chain_g : forall names st l el b st', (forall n, In n names -> In n (c_rules cfg)) ->
  run_chain cfg rf cf names st l el = Ok (b, st') -> grow P_all st st'.
Proof.
  induction names as [|n names IH]; intros st l el b st' Sub H; cbn [run_chain] in H; [rfinish H; apply grow_refl|].
  destruct (apply_rule cfg rf cf no_rec no_term n st l el true) as [[r s1]|?|] eqn:AR; cbn [bind] in H; try discriminate H.
  apply (apply_rule_g no_rec no_term no_rec_g no_term_g) in AR; [|apply Sub; left; reflexivity].
  destruct r; [rfinish H; exact AR|]. eapply grow_trans; [exact AR | eapply IH; [|exact H]]. intros m Hm. apply Sub. right; exact Hm.
Qed.

Lemma terminated_g (CS : chains_sub) : term_g (terminated cfg rf cf).
Proof. intros ch s a b r s' H. unfold terminated in H. eapply run_chain_g; [|exact H]. intros n Hn. eapply CS; exact Hn. Qed.

Lemma try_rules_g (CS : chains_sub) rec (R : rec_g rec) : forall names st l el st', (forall n, In n names -> In n (c_rules cfg)) ->
  try_rules cfg rf cf rec names st l el = Ok st' -> grow P_all st st'.
Proof.
  induction names as [|n names IH]; intros st l el st' Sub H; cbn [try_rules] in H; [rfinish H; apply grow_refl|].
  destruct (apply_rule cfg rf cf rec (terminated cfg rf cf) n st l el false) as [[r s1]|?|] eqn:AR; cbn [bind] in H; try discriminate H.
  apply (apply_rule_g rec _ R (terminated_g CS)) in AR; [|apply Sub; left; reflexivity].
  destruct r; [rfinish H; exact AR|]. eapply grow_trans; [exact AR | eapply IH; [|exact H]]. intros m Hm. apply Sub. right; exact Hm.
Qed.

Lemma tok_loop_g (CS : chains_sub) rec (R : rec_g rec) : forall fuel st line el hel st',
  tok_loop cfg rf cf fuel rec st line el hel = Ok st' -> grow P_all st st'.
Proof.
  induction fuel as [|f IH]; intros st line el hel st' H; [discriminate H|].
  cbn [tok_loop] in H.
  destruct (negb (line <? el)); [rfinish H; apply grow_refl|].
  match type of H with (if ?c then _ else _) = _ => destruct c end; [rfinish H; apply same_t_grow; reflexivity|].
  rstep H. rstep H; [rfinish H; apply same_t_grow; reflexivity|].
  rstep H; [rfinish H; apply same_t_grow; reflexivity|].
  match type of H with bind ?m _ = _ => destruct m as [st2|?|] eqn:TR end; cbn [bind] in H; try discriminate H.
  apply (try_rules_g CS rec R) in TR; [|intros n Hn; exact Hn].
  assert (E2 : grow P_all st st2) by (eapply grow_same_l; [|exact TR]; reflexivity).
  do 2 rstep H.
  rstep H.
  - eapply grow_trans; [|eapply IH; exact H]. eapply grow_same_r; [exact E2 | reflexivity].
  - eapply grow_trans; [|eapply IH; exact H]. eapply grow_same_r; [exact E2 | reflexivity].
Qed.

Lemma tokenize_g (CS : chains_sub) : forall depth, rec_g (tokenize cfg rf cf depth).
Proof.
  induction depth as [|d IH]; intros s a b s' H; [discriminate H|].
  cbn [tokenize] in H. eapply tok_loop_g; [exact CS | exact IH | exact H].
Qed.

(* ParserBlock.parse: every appended token has the (type, tag) of a rule of the chain *)
Theorem block_parse_kinds (CS : chains_sub) src env toks st :
  block_parse cfg rf cf src env toks = Ok st ->
  exists seg, b_tokens st = toks ++ seg /\ Forall P_all seg.
Proof.
  unfold block_parse. intros H.
  assert (E : grow P_all (state_init src env toks) st).
  { destruct src as [|c src']; [rfinish H; apply grow_refl|]. eapply tokenize_g; [exact CS | exact H]. }
  exact E.
Qed.

End Kinds.

(* ---- consequences ---------------------------------------------------------------------------- *)

(* C10: a token of a rule's vocabulary needs that rule in the chain *)
Theorem no_rule_no_kind cfg rf cf (CS : chains_sub cfg) src env toks st :
  block_parse cfg rf cf src env toks = Ok st ->
  forall seg, b_tokens st = toks ++ seg ->
  forall t, In t seg -> exists n, In n (c_rules cfg) /\ P_rule cfg n t.
Proof.
  intros H seg E t I. destruct (block_parse_kinds cfg rf cf CS src env toks st H) as (seg' & E' & F).
  assert (seg' = seg) by (rewrite E in E'; apply app_inv_head in E'; symmetry; exact E'). subst seg'.
  rewrite Forall_forall in F. exact (F t I).
Qed.

(* C04: the tags of block tokens come from a fixed vocabulary, and html_block tokens exist only
   when options.html is on *)
Definition block_tags : list str :=
  [[104; 114];
   [99; 111; 100; 101];
   [112];
   [98; 108; 111; 99; 107; 113; 117; 111; 116; 101];
   [111; 108];
   [117; 108];
   [108; 105];
   [116; 97; 98; 108; 101];
   [116; 104; 101; 97; 100];
   [116; 98; 111; 100; 121];
   [116; 114];
   [116; 104];
   [116; 100];
   [104; 49];
   [104; 50];
   [104; 51];
   [104; 52];
   [104; 53];
   [104; 54];
   []].

Ltac tag_in := cbn [In block_tags]; tauto.

Lemma P_rule_tag cfg n t : P_rule cfg n t ->
  In (ttag t) block_tags /\ (ttype t = nm_html_block -> c_html cfg = true).
Proof.
  unfold P_rule.
  repeat match goal with |- (if ?c then _ else _) -> _ => destruct c end;
    unfold P_table, P_code, P_fence, P_blockquote, P_hr, P_list, P_reference, P_html, P_heading, P_paragraph, is;
    intros H.
  all: try contradiction.
  all: try (repeat match goal with H : _ \/ _ |- _ => destruct H as [H|H] end;
            repeat match goal with H : _ /\ _ |- _ => destruct H end;
            match goal with A : ttype ?x = _, B : ttag ?x = _ |- _ => rewrite A, B; split; [unfold block_tags; cbn [In]; tauto | intros X; first [discriminate X | assumption]] end).
  (* heading / lheading *)
  all: destruct H as [(A & B & _) | (l & Hl & [(A & B & _) | (A & B & _)])]; rewrite A, B;
       (split; [|intros X; discriminate X]).
  all: try (unfold block_tags; cbn [In]; tauto).
  all: assert (HL : l = 1 \/ l = 2 \/ l = 3 \/ l = 4 \/ l = 5 \/ l = 6) by lia;
       destruct HL as [->|[->|[->|[->|[->| ->]]]]]; unfold hN, block_tags; cbn; tauto.
Qed.

Theorem block_parse_tags cfg rf cf (CS : chains_sub cfg) src env toks st :
  block_parse cfg rf cf src env toks = Ok st ->
  exists seg, b_tokens st = toks ++ seg
              /\ Forall (fun t => In (ttag t) block_tags /\ (ttype t = nm_html_block -> c_html cfg = true)) seg.
Proof.
  intros H. destruct (block_parse_kinds cfg rf cf CS src env toks st H) as (seg & E & F).
  exists seg. split; [exact E|]. eapply Forall_impl; [|exact F].
  intros t (n & _ & P). eapply P_rule_tag; exact P.
Qed.

(* a configuration taken from a Ruler state: the terminator chains are the main chain filtered by
   alt membership, hence sub-lists of it *)
From MD Require Import Model.Ruler.
Lemma compile_chain_sub (rs : list (@rule str)) ch f : In f (compile_chain rs ch) -> In f (compile_chain rs []).
Proof.
  unfold compile_chain. rewrite !in_map_iff. intros (r & E & I). exists r. split; [exact E|].
  apply filter_In in I. destruct I as [I C]. apply filter_In. split; [exact I|].
  apply Bool.andb_true_iff in C. destruct C as [C _]. rewrite C. reflexivity.
Qed.

Theorem ruler_cfg_chains_sub (rs : list (@rule str)) code mn html defs :
  chains_sub (mkBCfg (compile_chain rs []) (compile_chain rs) code mn html defs).
Proof. intros ch n H. cbn [c_term c_rules] in *. eapply compile_chain_sub; exact H. Qed.
