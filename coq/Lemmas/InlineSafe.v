(* C01, inline parser: no exception.  A weakest-precondition style predicate [safe m P] ("m does
   not raise, and if it returns a value then P holds of it") is carried through every inline rule,
   skipToken, the tokenizer loop, the nested tokenize of link text and the nested parse of image
   descriptions, and through the post-processing rules (balance_pairs, strikethrough and emphasis
   post-processing, fragments_join). *)
From RecordUpdate Require Import RecordUpdate.
From MD Require Import Base.Py Base.Str Base.Regex Base.Opt Model.Token Model.Utils Model.StateBlock
     Model.Helpers Model.Url Model.Render Model.Core Model.Inline
     Lemmas.StrLemmas Lemmas.StrLemmas2 Lemmas.LfCount Lemmas.Verbatim.
From MD Require Import Gen.Regexes Gen.Tables Gen.Entities.
From Coq Require Import ZifyBool.

Local Arguments Z.eqb : simpl never.
Local Arguments Z.ltb : simpl never.
Local Arguments Z.leb : simpl never.
Local Arguments str_eqb : simpl never.

Definition safe {A} (m : res A) (P : A -> Prop) : Prop :=
  match m with Ok a => P a | Raise _ => False | OutOfFuel => True end.

Lemma safe_ok {A} (a : A) (P : A -> Prop) : P a -> safe (Ok a) P.
Proof. exact (fun H => H). Qed.
Lemma safe_bind {A B} (m : res A) (k : A -> res B) (Q : A -> Prop) (P : B -> Prop) :
  safe m Q -> (forall a, m = Ok a -> Q a -> safe (k a) P) -> safe (bind m k) P.
Proof. intros Hm Hk. destruct m as [a|e|]; cbn [bind]; [apply Hk; [reflexivity | exact Hm] | exact Hm | exact I]. Qed.
Lemma safe_weaken {A} (m : res A) (P Q : A -> Prop) : safe m P -> (forall a, m = Ok a -> P a -> Q a) -> safe m Q.
Proof. intros H W. destruct m as [a|e|]; [apply W; [reflexivity | exact H] | exact H | exact I]. Qed.
Lemma safe_nr {A} (m : res A) P : safe m P -> forall e, m <> Raise e.
Proof. intros H e E. rewrite E in H. exact H. Qed.
Lemma safe_ok_inv {A} (m : res A) P a : safe m P -> m = Ok a -> P a.
Proof. intros H E. rewrite E in H. exact H. Qed.

Lemma safe_py_idx s i : 0 <= i < len s -> safe (py_idx s i) (fun _ => True).
Proof.
  intros H. unfold safe, py_idx, get. cbv zeta. assert (X : (i <? 0) = false) by lia. rewrite !X.
  destruct (nth_error s (Z.to_nat i)) eqn:E; [exact I|]. apply nth_error_None in E. unfold len in H. lia.
Qed.

(* ---- the regular-expression engine only moves forward ---- *)
Lemma advance_pos st c st' : advance st = Some (c, st') -> m_pos st' = m_pos st + 1.
Proof. unfold advance. destruct (m_after st); [discriminate|]. intros H. injection H as _ <-. reflexivity. Qed.

Lemma mt_ge : forall r st k e, mt r st k = Some e -> exists st', m_pos st <= m_pos st' /\ k st' = Some e.
Proof.
  induction r as [| |neg items| |a IHa b IHb|a IHa b IHb|mn mx greedy body IH|g body IH|ml|ml|neg body IH]; intros st k e H; cbn [mt] in H.
  - exists st. split; [lia | exact H].
  - discriminate H.
  - destruct (advance st) as [[c st']|] eqn:A; [|discriminate H]. destruct (xorb neg (in_cls c items)); [|discriminate H].
    exists st'. split; [rewrite (advance_pos _ _ _ A); lia | exact H].
  - destruct (advance st) as [[c st']|] eqn:A; [|discriminate H]. destruct (c =? 10); [discriminate H|].
    exists st'. split; [rewrite (advance_pos _ _ _ A); lia | exact H].
  - apply IHa in H. destruct H as (s1 & L1 & H). apply IHb in H. destruct H as (s2 & L2 & H). exists s2. split; [lia | exact H].
  - destruct (mt a st k) eqn:E; [injection H as <-; exact (IHa _ _ _ E) | exact (IHb _ _ _ H)].
  - revert H. generalize (S (length (m_after st)) + mn)%nat. generalize 0%nat. revert st.
    intros st count fuel. revert count st. induction fuel as [|f IHf]; intros count st H; [discriminate H|].
    destruct greedy.
    + match type of H with match ?m with _ => _ end = _ => destruct m eqn:M end.
      * injection H as <-. destruct (match mx with Some m => (count <? m)%nat | None => true end); [|discriminate M].
        apply IH in M. destruct M as (s1 & L1 & M).
        destruct ((m_pos s1 =? m_pos st) && (mn <=? S count)%nat); [exists s1; split; [lia | exact M]|].
        apply IHf in M. destruct M as (s2 & L2 & M). exists s2. split; [lia | exact M].
      * destruct (mn <=? count)%nat; [|discriminate H]. exists st. split; [lia | exact H].
    + match type of H with match ?m with _ => _ end = _ => destruct m eqn:M end.
      * injection H as <-. destruct (mn <=? count)%nat; [|discriminate M]. exists st. split; [lia | exact M].
      * destruct (match mx with Some m => (count <? m)%nat | None => true end); [|discriminate H].
        apply IH in H. destruct H as (s1 & L1 & H).
        destruct ((m_pos s1 =? m_pos st) && (mn <=? S count)%nat); [exists s1; split; [lia | exact H]|].
        apply IHf in H. destruct H as (s2 & L2 & H). exists s2. split; [lia | exact H].
  - apply IH in H. destruct H as (s1 & L1 & H). eexists. split; [|exact H]. cbn. exact L1.
  - destruct (m_before st) as [|c ?]; [exists st; split; [lia | exact H]|].
    destruct (ml && (c =? 10)); [exists st; split; [lia | exact H] | discriminate H].
  - destruct (m_after st) as [|c rest]; [exists st; split; [lia | exact H]|].
    destruct (c =? 10); [|discriminate H]. destruct ml; [exists st; split; [lia | exact H]|].
    destruct rest; [exists st; split; [lia | exact H] | discriminate H].
  - match type of H with (if ?c then _ else _) = _ => destruct c end; [exists st; split; [lia | exact H] | discriminate H].
Qed.

Lemma match_at_ge r st e : match_at r st = Some e -> m_pos st <= m_pos e.
Proof. unfold match_at. intros H. apply mt_ge in H. destruct H as (s & L & H). injection H as <-. exact L. Qed.

(* ---- a conservative test: the expression cannot match the empty string ---- *)
Fixpoint nonempty (r : re) : bool :=
  match r with
  | RIn _ _ | RAny => true
  | RCat a b => nonempty a || nonempty b
  | RAlt a b => nonempty a && nonempty b
  | RRep mn _ _ body => Nat.leb 1 mn && nonempty body
  | RGroup _ body => nonempty body
  | _ => false
  end.

Lemma mt_gt : forall r st k e, nonempty r = true -> mt r st k = Some e -> exists st', m_pos st < m_pos st' /\ k st' = Some e.
Proof.
  induction r as [| |neg items| |a IHa b IHb|a IHa b IHb|mn mx greedy body IH|g body IH|ml|ml|neg body IH]; intros st k e NE H; cbn [nonempty] in NE; try discriminate NE; cbn [mt] in H.
  - destruct (advance st) as [[c st']|] eqn:A; [|discriminate H]. destruct (xorb neg (in_cls c items)); [|discriminate H].
    exists st'. split; [rewrite (advance_pos _ _ _ A); lia | exact H].
  - destruct (advance st) as [[c st']|] eqn:A; [|discriminate H]. destruct (c =? 10); [discriminate H|].
    exists st'. split; [rewrite (advance_pos _ _ _ A); lia | exact H].
  - destruct (nonempty a) eqn:Na.
    + apply IHa in H; [|reflexivity]. destruct H as (s1 & L1 & H). apply mt_ge in H. destruct H as (s2 & L2 & H). exists s2. split; [lia | exact H].
    + cbn in NE. apply mt_ge in H. destruct H as (s1 & L1 & H). apply IHb in H; [|exact NE]. destruct H as (s2 & L2 & H). exists s2. split; [lia | exact H].
  - apply Bool.andb_true_iff in NE. destruct NE as [Na Nb].
    destruct (mt a st k) eqn:E; [injection H as <-; exact (IHa _ _ _ Na E) | exact (IHb _ _ _ Nb H)].
  - apply Bool.andb_true_iff in NE. destruct NE as [Nm Nb]. apply Nat.leb_le in Nm.
    (* either the loop gets past its start, or it stops there having done mn iterations already *)
    assert (G : (exists st', m_pos st < m_pos st' /\ k st' = Some e) \/ ((mn <= 0)%nat /\ k st = Some e)).
    { revert H. generalize (S (length (m_after st)) + mn)%nat. generalize 0%nat. revert st.
      intros st count fuel. revert count st. induction fuel as [|f IHf]; intros count st H; [discriminate H|].
      destruct greedy.
      - match type of H with match ?m with _ => _ end = _ => destruct m eqn:M end.
        + injection H as <-. destruct (match mx with Some m => (count <? m)%nat | None => true end); [|discriminate M]. apply IH in M; [|exact Nb]; destruct M as (s1 & L1 & M);
             destruct ((m_pos s1 =? m_pos st) && (mn <=? S count)%nat); [left; exists s1; split; [lia | exact M]|];
             apply IHf in M; destruct M as [(s2 & L2 & M)|[_ M]]; left; [exists s2 | exists s1]; (split; [lia | exact M]).
        + destruct (mn <=? count)%nat eqn:Le; [|discriminate H]. apply Nat.leb_le in Le. right. split; [exact Le | exact H].
      - match type of H with match ?m with _ => _ end = _ => destruct m eqn:M end.
        + injection H as <-. destruct (mn <=? count)%nat eqn:Le; [|discriminate M]. apply Nat.leb_le in Le. right. split; [exact Le | exact M].
        + destruct (match mx with Some m => (count <? m)%nat | None => true end); [|discriminate H]. apply IH in H; [|exact Nb]; destruct H as (s1 & L1 & H);
             destruct ((m_pos s1 =? m_pos st) && (mn <=? S count)%nat); [left; exists s1; split; [lia | exact H]|];
             apply IHf in H; destruct H as [(s2 & L2 & H)|[_ H]]; left; [exists s2 | exists s1]; (split; [lia | exact H]). }
    destruct G as [G|[G _]]; [exact G | lia].
  - apply IH in H; [|exact NE]. destruct H as (s1 & L1 & H). eexists. split; [|exact H]. cbn. exact L1.
Qed.

Lemma match_at_gt r st e : nonempty r = true -> match_at r st = Some e -> m_pos st < m_pos e.
Proof. unfold match_at. intros NE H. apply (mt_gt _ _ _ _ NE) in H. destruct H as (s & L & H). injection H as <-. exact L. Qed.

Lemma html_tag_nonempty : nonempty re_html_inline_HTML_TAG_RE = true. Proof. vm_compute. reflexivity. Qed.
Lemma digital_nonempty : nonempty re_entity_DIGITAL_RE = true. Proof. vm_compute. reflexivity. Qed.
Lemma named_nonempty : nonempty re_entity_NAMED_RE = true. Proof. vm_compute. reflexivity. Qed.

(* ---- the invariant of the inline state ---- *)
(* every delimiter of every delimiter list points at an existing token and is not matched yet *)
Definition DD (st : istate) : Prop :=
  forall l, In l (i_dstore st) -> forall d, In d l -> 0 <= d_token d < len (i_tokens st) /\ d_end d = -1.
(* ... and the skipToken memo table holds positions *)
Definition CA (st : istate) : Prop := Forall (fun kv : Z * Z => 0 <= snd kv /\ fst kv < snd kv) (i_cache st).
Definition DI (st : istate) : Prop := DD st /\ CA st.
Definition PI (st : istate) : Prop := 0 <= i_pos st /\ i_posMax st <= len (i_src st) /\ DI st.
(* what every step keeps *)
Definition kp (st st' : istate) : Prop :=
  PI st' /\ i_src st' = i_src st /\ i_posMax st' = i_posMax st /\ i_prev st' = i_prev st.
Definition kpr (st : istate) (r : bool * istate) : Prop :=
  kp st (snd r) /\ (fst r = false -> i_pos (snd r) = i_pos st) /\ (fst r = true -> i_pos st < i_pos (snd r)).

Lemma kp_refl st : PI st -> kp st st.
Proof. intros H. split; [exact H|]. split; [reflexivity|]. split; reflexivity. Qed.
Lemma kp_trans a b c : kp a b -> kp b c -> kp a c.
Proof. intros (_ & A2 & A3 & A4) (B1 & B2 & B3 & B4). split; [exact B1|]. split; [congruence|]. split; congruence. Qed.

Lemma DI_mono st st' : DI st -> len (i_tokens st) <= len (i_tokens st') ->
  (forall l, In l (i_dstore st') -> l = [] \/ In l (i_dstore st)) -> i_cache st' = i_cache st -> DI st'.
Proof.
  intros [D C] L S EC. split; [|unfold CA; rewrite EC; exact C]. intros l Hl d Hd. destruct (S l Hl) as [->|I]; [contradiction Hd|].
  destruct (D l I d Hd) as [A B]. split; [lia | exact B].
Qed.

Lemma In_upd_nth_l {A} (f : A -> A) : forall n (l : list A) x, In x (upd_nth_l n f l) -> In x l \/ exists y, In y l /\ x = f y.
Proof.
  unfold upd_nth_l. induction n as [|n IH]; intros [|a l] x H; cbn in H; try contradiction.
  - destruct H as [<-|H]; [right; exists a; split; [left; reflexivity | reflexivity] | left; right; exact H].
  - destruct H as [<-|H]; [left; left; reflexivity|]. destruct (IH l x H) as [I|(y & I & E)]; [left; right; exact I | right; exists y; split; [right; exact I | exact E]].
Qed.

Lemma len_snoc {A} (l : list A) x : len (l ++ [x]) = len l + 1.
Proof. rewrite len_app. unfold len. cbn. lia. Qed.

Lemma push_pending_kp st : PI st -> kp st (push_pending st) /\ i_pos (push_pending st) = i_pos st.
Proof.
  intros (P0 & P1 & D). split; [|reflexivity]. split; [|split; [reflexivity|split; reflexivity]].
  split; [exact P0|]. split; [exact P1|].
  apply (DI_mono st); [exact D | cbn; rewrite len_snoc; lia | intros l Hl; right; exact Hl | reflexivity].
Qed.

Lemma flush_kp st : PI st -> let st0 := match i_pending st with [] => st | _ => push_pending st end in
  kp st st0 /\ i_pos st0 = i_pos st /\ i_cur st0 = i_cur st /\ i_dstore st0 = i_dstore st /\ len (i_tokens st) <= len (i_tokens st0).
Proof.
  intros H. cbv zeta. destruct (i_pending st).
  - split; [apply kp_refl; exact H|]. repeat split; lia.
  - destruct (push_pending_kp st H) as [A B]. split; [exact A|]. split; [exact B|]. split; [reflexivity|]. split; [reflexivity|].
    cbn. rewrite len_snoc. lia.
Qed.

(* push: nesting 0 *)
Lemma ipush0_safe st ty tag f : PI st ->
  safe (ipush st ty tag 0 f) (fun st' => kp st st' /\ i_pos st' = i_pos st /\ i_cur st' = i_cur st /\ i_dstore st' = i_dstore st
                                          /\ 0 < len (i_tokens st')).
Proof.
  intros H. unfold ipush. cbv zeta. destruct (flush_kp st H) as ((K1 & K2 & K3 & K4) & F2 & F3 & F4 & F5). cbv zeta in *.
  set (st0 := match i_pending st with [] => st | _ => push_pending st end) in *.
  change (0 <? 0) with false. cbv iota. cbn [bind]. apply safe_ok.
  destruct K1 as (P0 & P1 & D).
  split; [|split; [exact F2|]; split; [exact F3|]; split; [exact F4|]; cbn; rewrite len_snoc; pose proof (len_nonneg (i_tokens st0)); lia].
  split; [|split; [exact K2|]; split; [exact K3 | exact K4]].
  split; [exact P0|]. split; [exact P1|].
  apply (DI_mono st0); [exact D | cbn; rewrite len_snoc; lia | intros l Hl; right; exact Hl | reflexivity].
Qed.

(* push: an opening token *)
Lemma ipush1_safe st ty tag f : PI st ->
  safe (ipush st ty tag 1 f) (fun st' => PI st' /\ i_src st' = i_src st /\ i_posMax st' = i_posMax st /\ i_pos st' = i_pos st
                                          /\ i_prev st' = i_cur st :: i_prev st).
Proof.
  intros H. unfold ipush. cbv zeta. destruct (flush_kp st H) as ((K1 & K2 & K3 & K4) & F2 & F3 & F4 & F5). cbv zeta in *.
  set (st0 := match i_pending st with [] => st | _ => push_pending st end) in *.
  change (1 <? 0) with false. cbv iota. cbn [bind]. change (0 <? 1) with true. cbv iota. apply safe_ok.
  destruct K1 as (P0 & P1 & D).
  split; [|split; [exact K2|]; split; [exact K3|]; split; [exact F2|]; cbn; rewrite F3, K4; reflexivity].
  split; [exact P0|]. split; [exact P1|].
  apply (DI_mono st0); [exact D | cbn; rewrite len_snoc; lia| |reflexivity].
  intros l Hl. cbn in Hl. apply in_app_or in Hl. destruct Hl as [I|[<-|[]]]; [right; exact I | left; reflexivity].
Qed.

(* push: a closing token, when an opening one is pending *)
Lemma ipushm1_safe st ty tag f p rest : PI st -> i_prev st = p :: rest ->
  safe (ipush st ty tag (-1) f) (fun st' => PI st' /\ i_src st' = i_src st /\ i_posMax st' = i_posMax st /\ i_pos st' = i_pos st
                                             /\ i_prev st' = rest).
Proof.
  intros H PR. unfold ipush. cbv zeta. destruct (flush_kp st H) as ((K1 & K2 & K3 & K4) & F2 & F3 & F4 & F5). cbv zeta in *.
  set (st0 := match i_pending st with [] => st | _ => push_pending st end) in *.
  change (-1 <? 0) with true. cbv iota. rewrite K4, PR. cbn [bind]. change (0 <? -1) with false. cbv iota. apply safe_ok.
  destruct K1 as (P0 & P1 & D).
  split; [|split; [exact K2|]; split; [exact K3|]; split; [exact F2 | reflexivity]].
  split; [exact P0|]. split; [exact P1|].
  apply (DI_mono st0); [exact D | cbn; rewrite len_snoc; lia | intros l Hl; right; exact Hl | reflexivity].
Qed.

Lemma kp_fields st st' : PI st -> i_src st' = i_src st -> i_posMax st' = i_posMax st -> i_tokens st' = i_tokens st ->
  i_dstore st' = i_dstore st -> i_prev st' = i_prev st -> i_cache st' = i_cache st -> 0 <= i_pos st' -> kp st st'.
Proof.
  intros (P0 & P1 & D) E1 E2 E3 E4 E5 E7 E6. split; [|split; [exact E1|]; split; [exact E2 | exact E5]].
  split; [exact E6|]. split; [rewrite E1, E2; exact P1|]. unfold DI, DD, CA. rewrite E3, E4, E7. exact D.
Qed.
Lemma kp_setpos st st' p : kp st st' -> 0 <= p -> kp st (st' <| i_pos := p |>).
Proof.
  intros K Hp. eapply kp_trans; [exact K|]. destruct K as (K1 & _). apply kp_fields; try reflexivity; [exact K1 | exact Hp].
Qed.

Ltac sstep :=
  match goal with
  | |- safe (Ok _) _ => apply safe_ok
  | |- safe (if true then ?a else _) ?P => change (safe a P)
  | |- safe (if false then _ else ?a) ?P => change (safe a P)
  | |- safe (if ?b then _ else _) _ => let Q := fresh "Q" in destruct b eqn:Q
  | |- safe (match ?x with _ => _ end) _ => let Q := fresh "Q" in destruct x eqn:Q
  end.
(* an unguarded read inside the source *)
Ltac spy := eapply safe_bind; [apply safe_py_idx; lia | let c := fresh "c" in let Ec := fresh "Ec" in intros c Ec _].
Ltac kpf := apply kp_fields; [assumption | reflexivity | reflexivity | reflexivity | reflexivity | reflexivity | reflexivity | try (cbn; lia)].
Ltac fail_same HP := split; [apply kp_refl; exact HP | split; [intros _; reflexivity | discriminate]].
Ltac fail_at K E := split; [exact K | split; [intros _; exact E | discriminate]].
(* a successful rule: the state relation, and the position moved forward *)
Ltac succ := refine (conj _ (conj (fun X : true = false => ltac:(discriminate X)) (fun _ => _))); cbn [fst snd].

Lemma find_terminator_ge : forall s i p, find_terminator s i = Some p -> i <= p.
Proof. induction s as [|c s IH]; intros i p H; cbn [find_terminator] in H; [discriminate|]. destruct (mem_z c text_terminators); [injection H as <-; lia|]. apply IH in H. lia. Qed.

Lemma skip_sp_fwd_safe : forall fuel src pos mx, 0 <= pos -> mx <= len src -> safe (skip_sp_fwd fuel src pos mx) (fun r => pos <= r).
Proof.
  induction fuel as [|f IH]; intros src pos mx H0 H1; cbn [skip_sp_fwd]; [apply safe_ok; lia|].
  destruct (pos <? mx) eqn:E; [|apply safe_ok; lia]. spy. sstep; [|apply safe_ok; lia].
  eapply safe_weaken; [apply IH; lia|]. intros r _ Hr. cbv beta in Hr. lia.
Qed.
Lemma run_len_safe : forall fuel src pos mx m, 0 <= pos -> mx <= len src ->
  safe (run_len fuel src pos mx m) (fun r => pos <= r /\ (r <= mx \/ r = pos)).
Proof.
  induction fuel as [|f IH]; intros src pos mx m H0 H1; cbn [run_len]; [apply safe_ok; lia|].
  destruct (pos <? mx) eqn:E; [|apply safe_ok; lia]. spy. sstep; [|apply safe_ok; lia].
  eapply safe_weaken; [apply IH; lia|]. intros r _ Hr. cbv beta in Hr. lia.
Qed.
(* a run that starts on its own marker has length at least one *)
Lemma run_len_first fuel src pos mx m : 0 <= pos -> mx <= len src -> pos < mx -> py_idx src pos = Ok m ->
  safe (run_len (S fuel) src pos mx m) (fun r => pos + 1 <= r /\ r <= mx).
Proof.
  intros H0 H1 H2 E. cbn [run_len]. assert (X : (pos <? mx) = true) by lia. rewrite X. rewrite E. cbn [bind].
  assert (Y : (m =? m) = true) by lia. rewrite Y.
  eapply safe_weaken; [apply run_len_safe; lia|]. intros r _ Hr. cbv beta in Hr. lia.
Qed.

Section SRules.
Context (cfg : icfg).
Context (NOLINKIFY : ic_linkify cfg = false).

Section One.
Context (st : istate) (HP : PI st) (HL : i_pos st < i_posMax st).
Let P0 : 0 <= i_pos st := proj1 HP.
Let P1 : i_posMax st <= len (i_src st) := proj1 (proj2 HP).

Lemma r_text_safe silent : safe (r_text st silent) (kpr st).
Proof.
  unfold r_text. cbv zeta.
  set (pos := match find_terminator (skipn (Z.to_nat (i_pos st)) (i_src st)) (i_pos st) with Some p => p | None => i_posMax st end).
  assert (PG : i_pos st <= pos).
  { unfold pos. destruct (find_terminator _ _) eqn:E; [exact (find_terminator_ge _ _ _ E) | lia]. }
  sstep; [apply safe_ok; fail_same HP|]. apply safe_ok. succ; [destruct silent; kpf | destruct silent; cbn; lia].
Qed.

Lemma r_linkify_safe silent : safe (r_linkify cfg st silent) (kpr st).
Proof. unfold r_linkify. rewrite NOLINKIFY. cbn [negb]. apply safe_ok. fail_same HP. Qed.

Lemma r_newline_safe silent : safe (r_newline st silent) (kpr st).
Proof.
  unfold r_newline. spy. sstep; [apply safe_ok; fail_same HP|]. cbv zeta.
  eapply safe_bind with (Q := fun st1 => kp st st1).
  { destruct silent; [apply safe_ok, kp_refl, HP|]. cbv iota.
    sstep; [sstep|].
    - eapply safe_weaken; [apply ipush0_safe; apply (kp_fields st); try reflexivity; [exact HP | exact P0]|].
      intros a _ (K & _). eapply kp_trans; [|exact K]. kpf.
    - eapply safe_weaken; [apply ipush0_safe; apply (kp_fields st); try reflexivity; [exact HP | exact P0]|].
      intros a _ (K & _). eapply kp_trans; [|exact K]. kpf.
    - eapply safe_weaken; [apply ipush0_safe; exact HP|]. intros a _ (K & _). exact K. }
  intros st1 _ K.
  eapply safe_bind; [apply skip_sp_fwd_safe; lia|]. intros pos _ Hpos. cbv beta in Hpos. apply safe_ok. succ; [apply kp_setpos; [exact K | lia] | cbn; lia].
Qed.

Lemma r_escape_safe silent : safe (r_escape st silent) (kpr st).
Proof.
  unfold r_escape. spy. sstep; [apply safe_ok; fail_same HP|]. cbv zeta.
  sstep; [apply safe_ok; fail_same HP|]. spy. sstep.
  - eapply safe_bind with (Q := fun st1 => kp st st1).
    { destruct silent; [apply safe_ok, kp_refl, HP|]. eapply safe_weaken; [apply ipush0_safe; exact HP|]. intros a _ (K & _). exact K. }
    intros st1 _ K. eapply safe_bind; [apply skip_sp_fwd_safe; lia|]. intros p _ Hp. cbv beta in Hp. apply safe_ok.
    succ; [apply kp_setpos; [exact K | lia] | cbn; lia].
  - eapply safe_bind with (Q := fun st1 => kp st st1).
    { destruct silent; [apply safe_ok, kp_refl, HP|]. eapply safe_weaken; [apply ipush0_safe; exact HP|]. intros a _ (K & _). exact K. }
    intros st1 _ K. apply safe_ok. succ; [apply kp_setpos; [exact K | lia] | cbn; lia].
Qed.

Lemma bt_scan_safe : forall fuel matchEnd mx ol bts, 0 <= matchEnd -> mx <= len (i_src st) -> matchEnd <= len (i_src st) ->
  safe (bt_scan fuel st matchEnd mx ol bts) (fun r => match fst r with Some (ms, me) => matchEnd < me | None => True end).
Proof.
  induction fuel as [|f IH]; intros matchEnd mx ol bts H0 H1 H2; cbn [bt_scan]; [apply safe_ok; exact I|]. cbv zeta.
  destruct (find_from [96] (i_src st) matchEnd =? -1) eqn:F; [apply safe_ok; exact I|].
  destruct (find_from_spec 96 (i_src st) matchEnd _ eq_refl ltac:(lia) H0) as [G1 G2].
  pose proof (len_nonneg (i_src st)) as LN. assert (G0 : 0 <= find_from [96] (i_src st) matchEnd) by lia. destruct (py_idx_get _ _ _ G0 G2) as [_ G3].
  eapply safe_bind; [apply run_len_safe; lia|]. intros me _ Hme. cbv beta in Hme.
  sstep; [apply safe_ok; cbn; lia|].
  eapply safe_weaken; [apply IH; lia|]. intros [[[ms' me']|] b'] _ Hr; cbn [fst] in *; [lia | exact I].
Qed.

Lemma r_backticks_safe silent : safe (r_backticks st silent) (kpr st).
Proof.
  unfold r_backticks. cbv zeta. spy. sstep; [apply safe_ok; fail_same HP|].
  eapply safe_bind; [apply run_len_safe; lia|]. intros pos _ Hpos. cbv beta in Hpos.
  assert (LS : len (slice (i_src st) (i_pos st) pos) = pos - i_pos st) by (apply len_slice; lia).
  sstep.
  { apply safe_ok. succ; [destruct silent; kpf | destruct silent; cbn; lia]. }
  eapply safe_bind; [apply bt_scan_safe; lia|]. intros [found bts] _ HF. cbn [fst] in HF.
  assert (K0 : kp st (st <| i_backticks := bts |>)) by kpf.
  destruct found as [[ms me]|].
  - eapply safe_bind with (Q := fun st1 => kp st st1).
    { destruct silent; [apply safe_ok; exact K0|]. eapply safe_weaken; [apply ipush0_safe; exact (proj1 K0)|].
      intros a _ (K & _). exact (kp_trans _ _ _ K0 K). }
    intros st1 _ K. apply safe_ok. succ; [apply kp_setpos; [exact K | lia] | cbn; lia].
  - apply safe_ok. succ; [destruct silent; kpf | destruct silent; cbn; lia].
Qed.

Lemma scan_delims_safe csw : safe (scan_delims st (i_pos st) csw) (fun r => 1 <= snd r).
Proof.
  unfold scan_delims. spy.
  eapply safe_bind with (Q := fun _ => True); [sstep; [apply safe_py_idx; lia | apply safe_ok; exact I]|]. intros lc _ _.
  eapply safe_bind; [apply run_len_first; try lia; exact Ec|]. intros pos _ Hpos. cbv beta in Hpos.
  eapply safe_bind with (Q := fun _ => True); [sstep; [apply safe_py_idx; lia | apply safe_ok; exact I]|]. intros nc _ _.
  cbv zeta. apply safe_ok. destruct csw; cbn [snd]; lia.
Qed.

End One.

Lemma push_markers_safe : forall n st content marker length op cl, PI st ->
  safe (push_markers n st content marker length op cl) (fun st' => kp st st' /\ i_pos st' = i_pos st).
Proof.
  induction n as [|n IH]; intros st content marker length op cl HP; cbn [push_markers].
  - apply safe_ok. split; [apply kp_refl; exact HP | reflexivity].
  - eapply safe_bind; [apply ipush0_safe; exact HP|]. intros st1 _ (K & E1 & E2 & E3 & E4).
    set (d := mkD marker length (len (i_tokens st1) - 1) (-1) op cl).
    assert (K1 : kp st1 (add_delim st1 d)).
    { destruct K as ((Q0 & Q1 & D) & _). split; [|split; [reflexivity|]; split; reflexivity].
      split; [exact Q0|]. split; [exact Q1|]. destruct D as [D CC]. split; [|exact CC]. intros l Hl x Hx. cbn in Hl.
      apply In_upd_nth_l in Hl. destruct Hl as [I|(y & I & ->)]; [exact (D l I x Hx)|].
      apply in_app_or in Hx. destruct Hx as [Hx|[<-|[]]]; [exact (D y I x Hx)|]. cbn. split; [lia | reflexivity]. }
    eapply safe_weaken; [apply IH; exact (proj1 K1)|]. intros a _ (K2 & E5). split; [exact (kp_trans _ _ _ K (kp_trans _ _ _ K1 K2))|].
    rewrite E5. cbn. exact E1.
Qed.

Section Two.
Context (st : istate) (HP : PI st) (HL : i_pos st < i_posMax st).
Let P0 : 0 <= i_pos st := proj1 HP.
Let P1 : i_posMax st <= len (i_src st) := proj1 (proj2 HP).

Lemma r_strikethrough_safe silent : safe (r_strikethrough st silent) (kpr st).
Proof.
  unfold r_strikethrough. spy. destruct silent; [apply safe_ok; fail_same HP|]. sstep; [apply safe_ok; fail_same HP|].
  eapply safe_bind; [apply scan_delims_safe; assumption|]. intros [[op cl] n] _ Hn. cbn [snd] in Hn.
  sstep; [apply safe_ok; fail_same HP|].
  eapply safe_bind with (Q := fun st1 => kp st st1 /\ i_pos st1 = i_pos st).
  { sstep; [|apply safe_ok; split; [apply kp_refl; exact HP | reflexivity]].
    eapply safe_weaken; [apply ipush0_safe; exact HP|]. intros a _ (K & E & _). split; [exact K | exact E]. }
  intros st1 _ (K1 & E1). cbv zeta.
  eapply safe_bind; [apply push_markers_safe; exact (proj1 K1)|]. intros st2 _ (K2 & E2).
  apply safe_ok. succ; [apply kp_setpos; [exact (kp_trans _ _ _ K1 K2) | lia] | cbn; lia].
Qed.

Lemma r_emphasis_safe silent : safe (r_emphasis st silent) (kpr st).
Proof.
  unfold r_emphasis. spy. destruct silent; [apply safe_ok; fail_same HP|]. sstep; [apply safe_ok; fail_same HP|].
  eapply safe_bind; [apply scan_delims_safe; assumption|]. intros [[op cl] n] _ Hn. cbn [snd] in Hn.
  eapply safe_bind; [apply push_markers_safe; exact HP|]. intros st1 _ (K1 & E1).
  apply safe_ok. succ; [apply kp_setpos; [exact K1 | lia] | cbn; lia].
Qed.

Lemma autolink_end_safe : forall fuel pos mx, -1 <= pos -> mx <= len (i_src st) ->
  safe (autolink_end fuel (i_src st) pos mx) (fun _ => True).
Proof.
  induction fuel as [|f IH]; intros pos mx H0 H1; cbn [autolink_end]; [apply safe_ok; exact I|]. cbv zeta.
  sstep; [apply safe_ok; exact I|]. spy. sstep; [apply safe_ok; exact I|]. sstep; [apply safe_ok; exact I|]. apply IH; lia.
Qed.

Lemma push_autolink_safe lt s full url : PI s -> safe (push_autolink lt s full url) (fun s' => kp s s' /\ i_pos s' = i_pos s).
Proof.
  intros HS. unfold push_autolink.
  eapply safe_bind; [apply ipush1_safe; exact HS|]. intros s1 _ (A1 & A2 & A3 & A4 & A5).
  eapply safe_bind; [apply ipush0_safe; exact A1|]. intros s2 _ (B1 & B2 & _).
  destruct B1 as (B11 & B12 & B13 & B14).
  eapply safe_weaken; [apply (ipushm1_safe s2 _ _ _ (i_cur s) (i_prev s) B11); rewrite B14; exact A5|].
  intros s3 _ (C1 & C2 & C3 & C4 & C5). split; [|congruence].
  split; [exact C1|]. split; [congruence|]. split; congruence.
Qed.

Lemma r_autolink_safe rf lt silent : safe (r_autolink rf lt st silent) (kpr st).
Proof.
  unfold r_autolink. spy. sstep; [apply safe_ok; fail_same HP|].
  eapply safe_bind; [apply autolink_end_safe; lia|]. intros e _ _.
  destruct e as [pos|]; [|apply safe_ok; fail_same HP]. cbv zeta.
  pose proof (len_nonneg (slice (i_src st) (i_pos st + 1) pos)) as LU.
  sstep; [sstep; [apply safe_ok; fail_same HP|]|sstep; [sstep; [apply safe_ok; fail_same HP|]|apply safe_ok; fail_same HP]].
  - eapply safe_bind with (Q := fun st1 => kp st st1 /\ i_pos st1 = i_pos st).
    { destruct silent; [apply safe_ok; split; [apply kp_refl; exact HP | reflexivity]|]. apply push_autolink_safe; exact HP. }
    intros st1 _ (K & E). apply safe_ok. succ; [apply kp_setpos; [exact K | lia] | cbn; lia].
  - eapply safe_bind with (Q := fun st1 => kp st st1 /\ i_pos st1 = i_pos st).
    { destruct silent; [apply safe_ok; split; [apply kp_refl; exact HP | reflexivity]|]. apply push_autolink_safe; exact HP. }
    intros st1 _ (K & E). apply safe_ok. succ; [apply kp_setpos; [exact K | lia] | cbn; lia].
Qed.

Lemma r_html_inline_safe silent : safe (r_html_inline cfg st silent) (kpr st).
Proof.
  unfold r_html_inline. cbv zeta. sstep; [apply safe_ok; fail_same HP|]. spy. sstep; [apply safe_ok; fail_same HP|].
  spy. sstep; [apply safe_ok; fail_same HP|].
  destruct (match_at re_html_inline_HTML_TAG_RE (init_state (slice_from (i_src st) (i_pos st)))) as [e|] eqn:M; [|apply safe_ok; fail_same HP].
  apply (match_at_gt _ _ _ html_tag_nonempty) in M. cbn [init_state m_pos] in M.
  eapply safe_bind with (Q := fun st1 => kp st st1 /\ i_pos st1 = i_pos st).
  { destruct silent; [apply safe_ok; split; [apply kp_refl; exact HP | reflexivity]|]. cbv zeta.
    eapply safe_bind; [apply ipush0_safe; exact HP|]. intros s1 _ (K & E & _). apply safe_ok.
    split; [|destruct (test re_utils_LINK_CLOSE_RE _), (test re_utils_LINK_OPEN_RE _); exact E].
    eapply kp_trans; [exact K|]. destruct K as (K1 & _).
    destruct (test re_utils_LINK_CLOSE_RE _), (test re_utils_LINK_OPEN_RE _); apply kp_fields; try reflexivity; try exact K1; cbn; destruct K1; lia. }
  intros st1 _ (K & E). apply safe_ok. succ; [apply kp_setpos; [exact K | lia] | cbn; lia].
Qed.

Lemma r_entity_safe silent : safe (r_entity st silent) (kpr st).
Proof.
  unfold r_entity. cbv zeta. spy. sstep; [apply safe_ok; fail_same HP|]. sstep; [apply safe_ok; fail_same HP|]. spy.
  sstep.
  - destruct (match_at re_entity_DIGITAL_RE (init_state (slice_from (i_src st) (i_pos st)))) as [e|] eqn:M; [|apply safe_ok; fail_same HP].
    apply (match_at_gt _ _ _ digital_nonempty) in M. cbn [init_state m_pos] in M.
    eapply safe_bind with (Q := fun st1 => kp st st1 /\ i_pos st1 = i_pos st).
    { destruct silent; [apply safe_ok; split; [apply kp_refl; exact HP | reflexivity]|]. cbv zeta.
      eapply safe_weaken; [apply ipush0_safe; exact HP|]. intros a _ (K & E & _). split; [exact K | exact E]. }
    intros st1 _ (K & E). apply safe_ok. succ; [apply kp_setpos; [exact K | lia] | cbn; lia].
  - destruct (match_at re_entity_NAMED_RE (init_state (slice_from (i_src st) (i_pos st)))) as [e|] eqn:M; [|apply safe_ok; fail_same HP].
    apply (match_at_gt _ _ _ named_nonempty) in M. cbn [init_state m_pos] in M. cbv zeta.
    sstep; [|apply safe_ok; fail_same HP].
    eapply safe_bind with (Q := fun st1 => kp st st1 /\ i_pos st1 = i_pos st).
    { destruct silent; [apply safe_ok; split; [apply kp_refl; exact HP | reflexivity]|].
      eapply safe_weaken; [apply ipush0_safe; exact HP|]. intros a _ (K & E & _). split; [exact K | exact E]. }
    intros st1 _ (K & E). apply safe_ok. succ; [apply kp_setpos; [exact K | lia] | cbn; lia].
Qed.

End Two.
End SRules.

(* ---- rules with callbacks: link, image ---- *)
Definition FN (F : ifuncs) : Prop :=
  (forall st, PI st -> safe (f_tokenize F st) (kp st))
  /\ (forall st, PI st -> i_pos st < i_posMax st -> safe (f_skip F st) (fun st' => kp st st' /\ i_pos st < i_pos st'))
  /\ (forall src env, safe (f_parse F src env) (fun _ => True)).

Lemma at_is_safe src pos mx c : 0 <= pos -> mx <= len src -> safe (at_is src pos mx c) (fun _ => True).
Proof. intros H0 H1. unfold at_is. sstep; [|apply safe_ok; exact I]. spy. apply safe_ok. exact I. Qed.

Lemma skip_ws_nl_i_safe : forall fuel src pos mx, 0 <= pos -> mx <= len src -> safe (skip_ws_nl_i fuel src pos mx) (fun r => pos <= r).
Proof.
  induction fuel as [|f IH]; intros src pos mx H0 H1; cbn [skip_ws_nl_i]; [apply safe_ok; lia|].
  destruct (pos <? mx) eqn:E; [|apply safe_ok; lia]. spy. sstep; [|apply safe_ok; lia].
  eapply safe_weaken; [apply IH; lia|]. intros r _ Hr. cbv beta in Hr. lia.
Qed.

Section WithF.
Context (cfg : icfg) (rf cf : str -> str) (F : ifuncs) (HF : FN F).

Definition lbl_post (st : istate) (oldPos lo : Z) (r : Z * istate) : Prop :=
  kp st (snd r) /\ i_pos (snd r) = oldPos /\ (fst r = -1 \/ lo <= fst r < i_posMax st).

Lemma label_loop_safe : forall fuel st level dn oldPos lo, PI st -> 0 <= oldPos -> lo <= i_pos st ->
  safe (label_loop F fuel st level dn oldPos) (lbl_post st oldPos lo).
Proof.
  induction fuel as [|f IH]; intros st level dn oldPos lo HP HO HLo; [exact I|]. cbn [label_loop].
  pose proof HP as (P0 & P1 & D).
  assert (KO : kp st (st <| i_pos := oldPos |>)) by kpf.
  sstep; [apply safe_ok; split; [exact KO|]; split; [reflexivity | left; reflexivity]|].
  spy. sstep; [apply safe_ok; split; [exact KO|]; split; [reflexivity | right; cbn; lia]|].
  cbv zeta. destruct HF as (_ & HS & _).
  eapply safe_bind; [apply HS; [exact HP | lia]|]. intros st1 _ (K1 & ADV).
  assert (REC : forall lv, safe (label_loop F f st1 lv dn oldPos) (lbl_post st oldPos lo)).
  { intros lv. eapply safe_weaken; [apply (IH st1 lv dn oldPos lo); [exact (proj1 K1) | exact HO | lia]|].
    intros [r s'] _ (A & B & C). split; [exact (kp_trans _ _ _ K1 A)|]. split; [exact B|].
    destruct K1 as (_ & _ & E & _). cbn [fst] in *. rewrite E in C. exact C. }
  sstep; [|apply REC]. sstep; [apply REC|]. sstep; [|apply REC].
  apply safe_ok. split; [apply kp_setpos; [exact K1 | exact HO]|]. split; [reflexivity | left; reflexivity].
Qed.

Lemma parse_link_label_safe st start dn : PI st -> 0 <= start + 1 ->
  safe (parse_link_label F st start dn) (lbl_post st (i_pos st) (start + 1)).
Proof.
  intros HP HS. unfold parse_link_label. pose proof HP as (P0 & P1 & D).
  assert (K : kp st (st <| i_pos := start + 1 |>)) by kpf.
  eapply safe_weaken; [apply (label_loop_safe _ _ _ _ _ (start + 1)); [exact (proj1 K) | exact P0 | cbn; lia]|].
  intros [r s'] _ (A & B & C). split; [exact (kp_trans _ _ _ K A)|]. split; [exact B | exact C].
Qed.

Definition ref_post (st : istate) (lb : Z) (r : option (str * str * str * Z) * istate) : Prop :=
  kp st (snd r) /\ i_pos (snd r) = i_pos st /\ match fst r with Some (_, _, _, p) => lb < p | None => True end.

Lemma ref_branch_safe st pos ls le mx lb : PI st -> 0 <= pos -> mx <= len (i_src st) -> 0 <= le + 1 -> lb <= pos -> lb <= le ->
  safe (ref_branch cf F st pos ls le mx) (ref_post st lb).
Proof.
  intros HP H0 H1 H2 H3 H4. unfold ref_branch.
  destruct (e_refs (i_env st)) as [refs|]; [|apply safe_ok; split; [apply kp_refl; exact HP|]; split; [reflexivity | exact I]].
  eapply safe_bind; [apply at_is_safe; assumption|]. intros br _ _.
  eapply safe_bind with (Q := fun x => kp st (snd x) /\ i_pos (snd x) = i_pos st /\ lb < snd (fst x)).
  { destruct br; [|apply safe_ok; cbn; split; [apply kp_refl; exact HP|]; split; [reflexivity | lia]].
    eapply safe_bind; [apply parse_link_label_safe; [exact HP | lia]|]. intros [p s'] _ (A & B & C). cbn [fst snd] in *.
    sstep; apply safe_ok; cbn; (split; [exact A|]; split; [exact B | lia]). }
  intros [[label0 pos1] st1] _ (A & B & C). cbn [fst snd] in *. cbv zeta.
  sstep; apply safe_ok; (split; [exact A|]; split; [exact B|]); cbn; [|exact I].
  destruct r as []. exact C.
Qed.

Section R.
Context (st : istate) (HP : PI st) (HL : i_pos st < i_posMax st).
Let P0 : 0 <= i_pos st := proj1 HP.
Let P1 : i_posMax st <= len (i_src st) := proj1 (proj2 HP).

Lemma r_link_safe silent : safe (r_link cfg rf cf F st silent) (kpr st).
Proof.
  unfold r_link. cbv zeta. spy. sstep; [apply safe_ok; fail_same HP|].
  eapply safe_bind; [apply parse_link_label_safe; [exact HP | lia]|]. intros [labelEnd st0] _ (K0 & E0 & R0). cbn [fst snd] in *.
  sstep; [apply safe_ok; fail_at K0 E0|].
  assert (LE : i_pos st + 1 <= labelEnd < i_posMax st) by lia.
  pose proof K0 as (HP0 & S0 & M0 & PR0). rewrite S0.
  eapply safe_bind; [apply at_is_safe; lia|]. intros paren _ _.
  eapply safe_bind with (Q := fun inlf => match inlf with Some (_, _, p, _) => i_pos st < p | None => True end).
  { destruct paren; [|apply safe_ok; lia].
    eapply safe_bind; [apply skip_ws_nl_i_safe; lia|]. intros p1 _ H1. cbv beta in H1.
    sstep; [apply safe_ok; exact I|]. cbv zeta.
    set (res := parse_link_destination (i_src st) p1 (i_posMax st0)).
    eapply safe_bind with (Q := fun x => i_pos st < snd x).
    { destruct (l_ok res) eqn:OK; [|apply safe_ok; cbn; lia]. cbv zeta.
      destruct (parse_link_destination_ge (i_src st) p1 (i_posMax st0) ltac:(lia) OK) as [G _]. fold res in G.
      match goal with |- safe (let '(_, _) := ?x in _) _ => destruct x as [href p] eqn:EP end.
      assert (PG : i_pos st < p) by (destruct (validate_link_re _); injection EP as _ <-; lia).
      eapply safe_bind; [apply skip_ws_nl_i_safe; lia|]. intros p' _ Hp'. cbv beta in Hp'. cbv zeta.
      set (tres := parse_link_title (i_src st) p' (i_posMax st0)).
      destruct ((p' <? i_posMax st) && negb (p =? p') && l_ok tres) eqn:TQ; [|apply safe_ok; cbn; lia].
      assert (TOK : l_ok tres = true) by (destruct (l_ok tres); [reflexivity | rewrite Bool.andb_false_r in TQ; discriminate TQ]).
      destruct (parse_link_title_lf (i_src st) p' (i_posMax st0) ltac:(lia) TOK) as [G2 _]. fold tres in G2.
      eapply safe_bind; [apply skip_ws_nl_i_safe; lia|]. intros p'' _ Hp''. cbv beta in Hp''. apply safe_ok. cbn. lia. }
    intros [[href title] p2] _ H2. cbn [snd] in H2.
    eapply safe_bind; [apply at_is_safe; lia|]. intros close _ _. apply safe_ok. lia. }
  intros inlf _ HI. destruct inlf as [[[[href0 title0] pos1] parseRef]|]; [|apply safe_ok; fail_at K0 E0].
  eapply safe_bind with (Q := fun fin => kp st (snd fin) /\ i_pos (snd fin) = i_pos st
                                         /\ match fst fin with Some (_, _, _, p) => i_pos st < p | None => True end).
  { destruct parseRef; [|apply safe_ok; cbn; split; [exact K0|]; split; [exact E0 | exact HI]].
    eapply safe_bind; [apply (ref_branch_safe _ _ _ _ _ (i_pos st)); [exact HP0 | lia | rewrite S0, <- M0; lia | lia | lia | lia]|].
    intros [r st1] _ (A & B & C). cbn [fst snd] in *.
    destruct r as [[[[h t] l] p]|]; apply safe_ok; cbn.
    - split; [exact (kp_trans _ _ _ K0 A)|]. split; [congruence | exact C].
    - split; [apply kp_setpos; [exact (kp_trans _ _ _ K0 A) | exact P0]|]. split; [reflexivity | exact I]. }
  intros [fin st1] _ (K1 & E1 & C1). cbn [fst snd] in *.
  destruct fin as [[[[href title] label] pos]|]; [|apply safe_ok; fail_at K1 E1].
  pose proof K1 as (HP1 & S1 & M1 & PR1). pose proof HP1 as (X0 & X1 & D1).
  eapply safe_bind with (Q := fun st2 => DI st2 /\ i_src st2 = i_src st /\ i_prev st2 = i_prev st).
  { destruct silent; [apply safe_ok; split; [exact D1|]; split; [exact S1 | exact PR1]|].
    assert (HPA : PI (st1 <| i_pos := i_pos st + 1 |> <| i_posMax := labelEnd |>)).
    { split; [cbn; lia|]. split; [cbn; rewrite S1; lia | exact D1]. }
    eapply safe_bind; [apply ipush1_safe; exact HPA|]. intros s1 _ (A1 & A2 & A3 & A4 & A5).
    destruct HF as (HT & _ & _).
    assert (HPB : PI (s1 <| i_linkLevel := i_linkLevel s1 + 1 |>)) by (destruct A1 as (B0 & B1 & B2); split; [exact B0|]; split; [exact B1 | exact B2]).
    eapply safe_bind; [apply HT; exact HPB|]. intros s2 _ (T1 & T2 & T3 & T4). cbn in T2, T3, T4.
    assert (HPC : PI (s2 <| i_linkLevel := i_linkLevel s2 - 1 |>)) by (destruct T1 as (B0 & B1 & B2); split; [exact B0|]; split; [exact B1 | exact B2]).
    eapply safe_weaken; [apply (ipushm1_safe _ _ _ _ (i_cur (st1 <| i_pos := i_pos st + 1 |> <| i_posMax := labelEnd |>)) (i_prev st1) HPC); cbn; rewrite T4, A5; reflexivity|].
    intros s3 _ (C1' & C2 & C3 & C4 & C5). cbn in C2, C5.
    split; [exact (proj2 (proj2 C1'))|]. split; [rewrite C2, T2, A2; cbn; exact S1 | rewrite C5; exact PR1]. }
  intros st2 _ (D2 & S2 & PR2). apply safe_ok. succ; [|cbn; exact C1].
  split; [|split; [exact S2|]; split; [reflexivity | exact PR2]].
  split; [cbn; lia|]. split; [cbn; rewrite S2; exact P1 | exact D2].
Qed.

Lemma r_image_safe silent : safe (r_image cfg rf cf F st silent) (kpr st).
Proof.
  unfold r_image. cbv zeta. spy. sstep; [apply safe_ok; fail_same HP|].
  eapply safe_bind with (Q := fun _ => True).
  { sstep; [|apply safe_ok; exact I]. spy. apply safe_ok. exact I. }
  intros nb _ _. destruct nb; [apply safe_ok; fail_same HP|].
  eapply safe_bind; [apply parse_link_label_safe; [exact HP | lia]|]. intros [labelEnd st0] _ (K0 & E0 & R0). cbn [fst snd] in *.
  sstep; [apply safe_ok; fail_at K0 E0|].
  assert (LE : i_pos st + 2 <= labelEnd < i_posMax st) by lia.
  pose proof K0 as (HP0 & S0 & M0 & PR0). rewrite S0.
  eapply safe_bind; [apply at_is_safe; lia|]. intros paren _ _.
  eapply safe_bind with (Q := fun fin => kp st (snd fin) /\ i_pos (snd fin) = i_pos st
                                         /\ match fst fin with Some (_, _, _, p) => i_pos st < p | None => True end).
  { destruct paren.
    - eapply safe_bind; [apply skip_ws_nl_i_safe; lia|]. intros p1 _ H1. cbv beta in H1.
      sstep; [apply safe_ok; cbn; split; [exact K0|]; split; [exact E0 | exact I]|]. cbv zeta.
      set (res := parse_link_destination (i_src st) p1 (i_posMax st0)).
      match goal with |- safe (let '(_, _) := ?x in _) _ => destruct x as [href p] eqn:EP end.
      assert (PG : i_pos st < p).
      { destruct (l_ok res) eqn:OK; [|injection EP as _ <-; lia].
        destruct (parse_link_destination_ge (i_src st) p1 (i_posMax st0) ltac:(lia) OK) as [G _]. fold res in G.
        destruct (validate_link_re _); injection EP as _ <-; lia. }
      eapply safe_bind; [apply skip_ws_nl_i_safe; lia|]. intros p' _ Hp'. cbv beta in Hp'. cbv zeta.
      set (tres := parse_link_title (i_src st) p' (i_posMax st0)).
      eapply safe_bind with (Q := fun x => i_pos st < snd x).
      { destruct ((p' <? i_posMax st) && negb (p =? p') && l_ok tres) eqn:TQ; [|apply safe_ok; cbn; lia].
        assert (TOK : l_ok tres = true) by (destruct (l_ok tres); [reflexivity | rewrite Bool.andb_false_r in TQ; discriminate TQ]).
        destruct (parse_link_title_lf (i_src st) p' (i_posMax st0) ltac:(lia) TOK) as [G2 _]. fold tres in G2.
        eapply safe_bind; [apply skip_ws_nl_i_safe; lia|]. intros p'' _ Hp''. cbv beta in Hp''. apply safe_ok. cbn. lia. }
      intros [title p2] _ H2. cbn [snd] in H2.
      eapply safe_bind; [apply at_is_safe; lia|]. intros close _ _.
      destruct close; apply safe_ok; cbn.
      + split; [exact K0|]. split; [exact E0 | lia].
      + split; [apply kp_setpos; [exact K0 | exact P0]|]. split; [reflexivity | exact I].
    - eapply safe_bind; [apply (ref_branch_safe _ _ _ _ _ (i_pos st)); [exact HP0 | lia | rewrite S0, <- M0; lia | lia | lia | lia]|].
      intros [r st1] _ (A & B & C). cbn [fst snd] in *.
      destruct r as [[[[h t] l] p]|]; apply safe_ok; cbn.
      + split; [exact (kp_trans _ _ _ K0 A)|]. split; [congruence | exact C].
      + destruct (e_refs (i_env st0)).
        * split; [apply kp_setpos; [exact (kp_trans _ _ _ K0 A) | exact P0]|]. split; [reflexivity | exact I].
        * split; [exact (kp_trans _ _ _ K0 A)|]. split; [congruence | exact I]. }
  intros [fin st1] _ (K1 & E1 & C1). cbn [fst snd] in *.
  destruct fin as [[[[href title] label] pos]|]; [|apply safe_ok; fail_at K1 E1].
  eapply safe_bind with (Q := fun st2 => kp st st2).
  { destruct silent; [apply safe_ok; exact K1|]. cbv zeta.
    destruct HF as (_ & _ & HPa).
    eapply safe_bind; [apply HPa|]. intros toks _ _.
    eapply safe_weaken; [apply ipush0_safe; exact (proj1 K1)|]. intros a _ (K & _). exact (kp_trans _ _ _ K1 K). }
  intros st2 _ K2. apply safe_ok. succ; [|cbn; exact C1].
  destruct K2 as (HP2 & S2 & M2 & PR2). destruct HP2 as (Y0 & Y1 & D2).
  split; [|split; [exact S2|]; split; [reflexivity | exact PR2]].
  split; [cbn; lia|]. split; [cbn; rewrite S2; exact P1 | exact D2].
Qed.

End R.
End WithF.

(* ---- dispatch, skipToken, the tokenizer loop ---- *)
Section Parser.
Context (cfg : icfg) (rf cf lt : str -> str).
Context (NOLINKIFY : ic_linkify cfg = false).

Lemma iapply_safe F (HF : FN F) name st silent : PI st -> i_pos st < i_posMax st ->
  safe (iapply cfg rf cf lt F name st silent) (kpr st).
Proof.
  intros HP HL. unfold iapply.
  destruct (str_eqb name n_text); [eapply r_text_safe; eassumption|].
  destruct (str_eqb name n_linkify); [eapply r_linkify_safe; eassumption|].
  destruct (str_eqb name n_newline); [eapply r_newline_safe; eassumption|].
  destruct (str_eqb name n_escape); [eapply r_escape_safe; eassumption|].
  destruct (str_eqb name n_backticks); [eapply r_backticks_safe; eassumption|].
  destruct (str_eqb name n_strikethrough); [eapply r_strikethrough_safe; eassumption|].
  destruct (str_eqb name n_emphasis); [eapply r_emphasis_safe; eassumption|].
  destruct (str_eqb name n_link); [apply r_link_safe; assumption|].
  destruct (str_eqb name n_image); [apply r_image_safe; assumption|].
  destruct (str_eqb name n_autolink); [eapply r_autolink_safe; eassumption|].
  destruct (str_eqb name n_html_inline); [eapply r_html_inline_safe; eassumption|].
  destruct (str_eqb name n_entity); [eapply r_entity_safe; eassumption|].
  apply safe_ok. fail_same HP.
Qed.

Lemma first_rule_safe F (HF : FN F) : forall names st silent bump, PI st -> i_pos st < i_posMax st ->
  safe (first_rule cfg rf cf lt F names st silent bump) (kpr st).
Proof.
  induction names as [|n names IH]; intros st silent bump HP HL; cbn [first_rule]; [apply safe_ok; fail_same HP|]. cbv zeta.
  set (st0 := if bump then st <| i_level := i_level st + 1 |> else st).
  assert (K0 : kp st st0 /\ i_pos st0 = i_pos st) by (unfold st0; destruct bump; (split; [kpf; apply HP | reflexivity])).
  destruct K0 as [K0 E0].
  eapply safe_bind; [apply (iapply_safe F HF n st0 silent); [exact (proj1 K0) | destruct K0 as (_ & _ & M & _); lia]|].
  intros [ok st1] _ (K1 & F1 & G1). cbn [fst snd] in *. pose proof (proj1 K1) as HP1.
  set (st2 := if bump then st1 <| i_level := i_level st1 - 1 |> else st1).
  assert (K2 : kp st1 st2 /\ i_pos st2 = i_pos st1) by (unfold st2; destruct bump; (split; [kpf; apply HP1 | reflexivity])).
  destruct K2 as [K2 E2].
  pose proof (kp_trans _ _ _ K0 (kp_trans _ _ _ K1 K2)) as K.
  destruct ok; [apply safe_ok; succ; [exact K | specialize (G1 eq_refl); lia]|].
  specialize (F1 eq_refl).
  eapply safe_weaken; [apply IH; [exact (proj1 K) | destruct K as (_ & _ & M & _); lia]|].
  intros [ok' st3] _ (K3 & F3 & G3). cbn [fst snd] in *. split; [exact (kp_trans _ _ _ K K3)|]. cbn [fst snd].
  split; [intros X; rewrite (F3 X); lia | intros X; specialize (G3 X); lia].
Qed.

Lemma Forall_zset k v : 0 <= v -> k < v -> forall m, Forall (fun kv : Z * Z => 0 <= snd kv /\ fst kv < snd kv) m ->
  Forall (fun kv : Z * Z => 0 <= snd kv /\ fst kv < snd kv) (zset k v m).
Proof.
  intros Hv Hk. induction m as [|[a b] m IH]; intros H; cbn [zset]; [constructor; [cbn; lia | constructor]|].
  inversion H as [|x y Hx Hy]; subst. destruct (k =? a); constructor; try assumption; [cbn; lia|]. apply IH. exact Hy.
Qed.
Lemma zlookup_spec k v : forall m, Forall (fun kv : Z * Z => 0 <= snd kv /\ fst kv < snd kv) m -> zlookup k m = Some v -> 0 <= v /\ k < v.
Proof.
  induction m as [|[a b] m IH]; intros H E; cbn [zlookup] in E; [discriminate|].
  inversion H as [|x y Hx Hy]; subst. destruct (k =? a) eqn:KA; [injection E as <-; cbn in Hx; lia | exact (IH Hy E)].
Qed.

Lemma skip_token_safe F (HF : FN F) st : PI st -> i_pos st < i_posMax st ->
  safe (skip_token cfg rf cf lt F st) (fun st' => kp st st' /\ i_pos st < i_pos st').
Proof.
  intros HP HL. unfold skip_token. cbv zeta. pose proof HP as (P0 & P1 & DDs & CAs).
  destruct (zlookup (i_pos st) (i_cache st)) as [p|] eqn:Z.
  { destruct (zlookup_spec _ _ _ CAs Z) as [Z1 Z2]. apply safe_ok. split; [kpf | cbn; exact Z2]. }
  eapply safe_bind with (Q := fun r => kp st (snd r) /\ (fst r = true -> i_pos st < i_pos (snd r)) /\ i_pos st <= i_pos (snd r)).
  { sstep.
    - eapply safe_weaken; [apply first_rule_safe; assumption|]. intros [ok a] _ (K & Fa & Ga). cbn [fst snd] in *.
      split; [exact K|]. split; [exact Ga|]. destruct ok; [specialize (Ga eq_refl); lia | rewrite (Fa eq_refl); lia].
    - apply safe_ok. cbn [fst snd]. split; [kpf|]. split; [discriminate | cbn; lia]. }
  intros [ok st1] _ (K1 & G1 & L1). cbn [fst snd] in *. apply safe_ok.
  set (st2 := if ok then st1 else st1 <| i_pos := i_pos st1 + 1 |>).
  assert (K2 : kp st st2 /\ i_pos st < i_pos st2).
  { unfold st2. destruct ok; [split; [exact K1 | exact (G1 eq_refl)]|]. split; [apply kp_setpos; [exact K1|]; lia | cbn; lia]. }
  destruct K2 as [K2 ADV]. split; [|cbn; exact ADV].
  eapply kp_trans; [exact K2|]. destruct K2 as ((X0 & X1 & XD & XC) & _).
  split; [|split; [reflexivity|]; split; reflexivity].
  split; [exact X0|]. split; [exact X1|]. split; [exact XD|]. unfold CA. cbn. apply Forall_zset; [exact X0 | exact ADV | exact XC].
Qed.

Lemma tok_while_safe F (HF : FN F) : forall fuel st endp ok, PI st -> endp = i_posMax st ->
  safe (tok_while cfg rf cf lt fuel F st endp ok) (kp st).
Proof.
  induction fuel as [|f IH]; intros st endp ok HP EE; [exact I|]. cbn [tok_while]. subst endp.
  sstep; [apply safe_ok; apply kp_refl; exact HP|].
  assert (HL : i_pos st < i_posMax st) by lia.
  eapply safe_bind with (Q := fun r => kp st (snd r) /\ (fst r = false -> i_pos (snd r) = i_pos st)).
  { sstep; [eapply safe_weaken; [apply first_rule_safe; assumption | intros a _ (K & Fa & _); split; assumption]|].
    apply safe_ok. split; [apply kp_refl; exact HP | intros _; reflexivity]. }
  intros [ok1 st1] _ (K1 & F1). cbn [fst snd] in *. pose proof K1 as (HP1 & S1 & M1 & PR1).
  destruct ok1.
  - sstep; [apply safe_ok; exact K1|]. eapply safe_weaken; [apply IH; [exact HP1 | congruence]|].
    intros a _ K. exact (kp_trans _ _ _ K1 K).
  - specialize (F1 eq_refl). destruct HP1 as (Y0 & Y1 & YD).
    eapply safe_bind; [apply safe_py_idx; lia|]. intros c _ _.
    eapply safe_weaken; [apply IH; [|cbn; congruence]|].
    + split; [cbn; lia|]. split; [exact Y1 | exact YD].
    + intros a _ K. eapply kp_trans; [exact K1|]. eapply kp_trans; [|exact K]. apply kp_fields; try reflexivity; [split; [exact Y0|]; split; [exact Y1 | exact YD] | cbn; lia].
Qed.

Lemma inline_tokenize_safe F (HF : FN F) st : PI st -> safe (inline_tokenize cfg rf cf lt F st) (kp st).
Proof.
  intros HP. unfold inline_tokenize.
  eapply safe_bind; [apply tok_while_safe; [exact HF | exact HP | reflexivity]|]. intros st1 _ K1. apply safe_ok.
  destruct (flush_kp st1 (proj1 K1)) as (K2 & _). cbv zeta in K2. exact (kp_trans _ _ _ K1 K2).
Qed.

End Parser.

(* ---- post-processing: balance_pairs ---- *)
Lemma upd_nth_l_length {A} (f : A -> A) : forall n (l : list A), length (upd_nth_l n f l) = length l.
Proof. unfold upd_nth_l. induction n as [|n IH]; intros [|a l]; cbn; try reflexivity. rewrite IH. reflexivity. Qed.
Lemma upd_nth_l_nth {A} (f : A -> A) : forall n (l : list A) k,
  nth_error (upd_nth_l n f l) k = if Nat.eqb k n then option_map f (nth_error l n) else nth_error l k.
Proof.
  unfold upd_nth_l. induction n as [|n IH]; intros [|a l] k; cbn.
  - destruct (Nat.eqb k 0); destruct k; reflexivity.
  - destruct k; reflexivity.
  - destruct (Nat.eqb k (S n)); destruct k; reflexivity.
  - destruct k as [|k]; [reflexivity|]. cbn. apply IH.
Qed.
Lemma In_upd_nth_l_P {A} (P : A -> Prop) (f : A -> A) (Hf : forall x, P x -> P (f x)) n (l : list A) :
  Forall P l -> Forall P (upd_nth_l n f l).
Proof.
  intros H. apply Forall_forall. intros x Hx. rewrite Forall_forall in H.
  apply In_upd_nth_l in Hx. destruct Hx as [I|(y & I & ->)]; [exact (H x I) | exact (Hf y (H y I))].
Qed.

Lemma dget_safe ds i : 0 <= i < len ds -> safe (dget ds i) (fun d => In d ds).
Proof.
  intros H. unfold safe, dget. cbv zeta. assert (X : (i <? 0) = false) by lia. rewrite !X.
  destruct (nth_error ds (Z.to_nat i)) eqn:E; [exact (nth_error_In _ _ E)|]. apply nth_error_None in E. unfold len in H. lia.
Qed.
Lemma dget_wrap_safe ds i : - len ds <= i < len ds -> safe (dget ds i) (fun d => In d ds).
Proof.
  intros H. destruct (Z_lt_ge_dec i 0) as [N|N]; [|apply dget_safe; lia].
  unfold safe, dget. cbv zeta. assert (X : (i <? 0) = true) by lia. rewrite X. assert (Y : (i + len ds <? 0) = false) by lia. rewrite Y.
  destruct (nth_error ds (Z.to_nat (i + len ds))) eqn:E; [exact (nth_error_In _ _ E)|]. apply nth_error_None in E. unfold len in *. lia.
Qed.
Lemma jget_safe l i : 0 <= i < len l -> safe (jget l i) (fun v => nth_error l (Z.to_nat i) = Some v).
Proof.
  intros H. unfold safe, jget, tb. cbv zeta. assert (X : (i <? 0) = false) by lia. rewrite !X.
  destruct (nth_error l (Z.to_nat i)) eqn:E; [reflexivity|]. apply nth_error_None in E. unfold len in H. lia.
Qed.

(* the jump table: one entry per processed delimiter, each between 0 and its own index *)
Definition JI (jumps : list Z) (c : Z) : Prop :=
  len jumps = c /\ forall i v, nth_error jumps i = Some v -> 0 <= v <= Z.of_nat i.

Lemma JI_snoc jumps c : JI jumps c -> JI (jumps ++ [0]) (c + 1).
Proof.
  intros [L H]. split; [rewrite len_snoc; lia|]. intros i v E.
  destruct (Nat.lt_ge_cases i (length jumps)) as [Lt|Ge].
  - rewrite nth_error_app1 in E by exact Lt. exact (H i v E).
  - rewrite nth_error_app2 in E by exact Ge. destruct (i - length jumps)%nat as [|k]; cbn in E; [injection E as <-; lia | destruct k; discriminate].
Qed.
Lemma JI_jset jumps c i v : JI jumps c -> 0 <= i -> 0 <= v <= i -> JI (jset jumps i v) c.
Proof.
  intros [L H] Hi Hv. unfold jset. split; [unfold len in *; rewrite upd_nth_l_length; exact L|].
  intros k w E. rewrite upd_nth_l_nth in E. destruct (Nat.eqb k (Z.to_nat i)) eqn:K.
  - apply Nat.eqb_eq in K. subst k. destruct (nth_error jumps (Z.to_nat i)); cbn in E; [injection E as <-; lia | discriminate].
  - exact (H k w E).
Qed.

Definition OB (ob : list (Z * list Z)) : Prop := forall m idx, -1 <= ob_get ob m idx.
Lemma OB_nil : OB [].
Proof. intros m idx. cbn. lia. Qed.
Lemma find_filter_none {A} (p : A -> bool) l : find p (filter (fun x => negb (p x)) l) = None.
Proof. induction l as [|a l IH]; cbn; [reflexivity|]. destruct (p a) eqn:E; cbn; [exact IH | rewrite E; exact IH]. Qed.
Lemma find_filter_other {A} (p q : A -> bool) l : (forall x, p x = true -> q x = false) ->
  find p (filter (fun x => negb (q x)) l) = find p l.
Proof.
  intros H. induction l as [|a l IH]; cbn; [reflexivity|]. destruct (q a) eqn:E; cbn.
  - destruct (p a) eqn:Pa; [rewrite (H a Pa) in E; discriminate | exact IH].
  - destruct (p a); [reflexivity | exact IH].
Qed.
Lemma OB_set ob m idx v : OB ob -> -1 <= v -> OB (ob_set ob m idx v).
Proof.
  intros H Hv m' idx'. unfold ob_set, ob_get at 1. cbv zeta. cbn [find fst].
  destruct (m =? m') eqn:E.
  - assert (m = m') by lia. subst m'.
    set (arr0 := match find (fun kv => fst kv =? m) ob with Some (_, a) => a | None => [-1; -1; -1; -1; -1; -1] end).
    assert (A0 : forall k, -1 <= nth k arr0 (-1)).
    { intros k. unfold arr0. destruct (find (fun kv => fst kv =? m) ob) as [[x a]|] eqn:F.
      - specialize (H m (Z.of_nat k)). unfold ob_get in H. rewrite F in H. rewrite Nat2Z.id in H. exact H.
      - do 7 (destruct k as [|k]; [cbn; lia|]). cbn. lia. }
    destruct (nth_error (upd_nth_l (Z.to_nat idx) (fun _ => v) arr0) (Z.to_nat idx')) eqn:N.
    + rewrite (nth_error_nth _ _ _ N). rewrite upd_nth_l_nth in N. destruct (Nat.eqb _ _).
      * destruct (nth_error arr0 (Z.to_nat idx)); cbn in N; [injection N as <-; exact Hv | discriminate].
      * specialize (A0 (Z.to_nat idx')). rewrite (nth_error_nth _ _ _ N) in A0. exact A0.
    + rewrite nth_overflow; [lia|]. apply nth_error_None. exact N.
  - cbn. assert (X : (m =? m') = false) by lia.
    replace (fst (m, upd_nth_l (Z.to_nat idx) (fun _ => v) (match find (fun kv => fst kv =? m) ob with Some (_, a) => a | None => [-1; -1; -1; -1; -1; -1] end)) =? m') with false by (cbn; lia).
    rewrite (find_filter_other (fun kv : Z * list Z => fst kv =? m') (fun kv => fst kv =? m)); [exact (H m' idx')|].
    intros x Hx. lia.
Qed.

Lemma find_opener_d_safe ds jumps closer c : JI jumps c -> c <= len ds ->
  forall fuel o mn, o < c -> -1 <= mn ->
  safe (find_opener_d fuel ds jumps closer o mn) (fun r => match r with Some x => mn < x <= o | None => True end).
Proof.
  intros [JL JH] CL. induction fuel as [|f IH]; intros o mn Ho Hm; cbn [find_opener_d]; [apply safe_ok; exact I|].
  sstep; [apply safe_ok; exact I|].
  eapply safe_bind; [apply dget_safe; lia|]. intros opener _ _.
  eapply safe_bind; [apply jget_safe; lia|]. intros j _ Hj. apply JH in Hj.
  assert (REC : safe (find_opener_d f ds jumps closer (o - (j + 1)) mn) (fun r => match r with Some x => mn < x <= o | None => True end)).
  { eapply safe_weaken; [apply IH; lia|]. intros [x|] _ Hx; [lia | exact I]. }
  sstep; [exact REC|]. sstep; [|exact REC]. cbv zeta. sstep; [apply safe_ok; lia | exact REC].
Qed.

(* what balance_pairs establishes for a delimiter list of length n pointing into N tokens *)
Definition DQ (N n : Z) (d : delim) : Prop := 0 <= d_token d < N /\ (d_end d = -1 \/ 0 <= d_end d < n).

Lemma dupd_len ds i f : len (dupd ds i f) = len ds.
Proof. unfold dupd, len. rewrite upd_nth_l_length. reflexivity. Qed.

Lemma pd_loop_safe N : forall fuel ds jumps ob c h lt,
  JI jumps c -> OB ob -> 0 <= h <= c -> Forall (DQ N (len ds)) ds ->
  safe (pd_loop fuel ds jumps ob c h lt) (fun ds' => len ds' = len ds /\ Forall (DQ N (len ds)) ds').
Proof.
  induction fuel as [|f IH]; intros ds jumps ob c h lt HJ HO Hh HD; cbn [pd_loop]; [apply safe_ok; split; [reflexivity | exact HD]|].
  sstep; [apply safe_ok; split; [reflexivity | exact HD]|].
  eapply safe_bind; [apply dget_safe; lia|]. intros closer _ _. cbv zeta.
  pose proof (JI_snoc _ _ HJ) as HJ1. set (jumps1 := jumps ++ [0]) in *.
  eapply safe_bind; [apply dget_safe; lia|]. intros header _ _.
  set (h1 := if negb (d_marker header =? d_marker closer) || negb (lt =? d_token closer - 1) then c else h).
  assert (Hh1 : 0 <= h1 <= c) by (unfold h1; destruct (_ || _); lia).
  sstep; [apply IH; try assumption; lia|].
  pose proof (HO (d_marker closer) ((if d_open closer then 3 else 0) + d_length closer mod 3)) as HM.
  set (mn := ob_get ob (d_marker closer) ((if d_open closer then 3 else 0) + d_length closer mod 3)) in *.
  eapply safe_bind; [apply jget_safe; destruct HJ1 as [L _]; lia|]. intros jh _ Hjh. apply (proj2 HJ1) in Hjh.
  eapply safe_bind; [apply (find_opener_d_safe ds jumps1 closer (c + 1) HJ1); lia|]. intros m _ Hm.
  destruct m as [o|].
  - eapply safe_bind with (Q := fun lj => 0 <= lj <= o).
    { sstep; [|apply safe_ok; lia]. eapply safe_bind; [apply dget_safe; lia|]. intros prev _ _.
      sstep; [|apply safe_ok; lia]. eapply safe_bind; [apply jget_safe; destruct HJ1 as [L _]; lia|]. intros jp _ Hjp.
      apply (proj2 HJ1) in Hjp. apply safe_ok. lia. }
    intros lj _ Hlj.
    eapply safe_weaken; [apply IH|].
    + apply JI_jset; [apply JI_jset; [exact HJ1 | lia | lia] | lia | lia].
    + apply OB_set; [exact HO | exact HM].
    + lia.
    + rewrite !dupd_len. unfold dupd. apply In_upd_nth_l_P; [|apply In_upd_nth_l_P; [|exact HD]].
      * intros x [A B]. split; [exact A | right; cbn; lia].
      * intros x [A B]. split; [exact A | exact B].
    + intros ds' _ [A B]. rewrite !dupd_len in A, B. split; [exact A | exact B].
  - apply IH; try assumption; [|lia].
    match goal with |- OB (if ?b then _ else _) => destruct b end; apply OB_set; try assumption; lia.
Qed.

Lemma process_delimiters_safe N ds : Forall (DQ N (len ds)) ds ->
  safe (process_delimiters ds) (fun ds' => len ds' = len ds /\ Forall (DQ N (len ds)) ds').
Proof.
  intros H. unfold process_delimiters. destruct ds as [|d ds]; [apply safe_ok; split; [reflexivity | exact H]|].
  apply pd_loop_safe; [split; [reflexivity | intros i v E; destruct i; discriminate E] | exact OB_nil | lia | exact H].
Qed.

(* ---- post-processing: strikethrough, emphasis ---- *)
Lemma tget_safe tokens i : - len tokens <= i < len tokens -> safe (tget tokens i) (fun _ => True).
Proof.
  intros H. unfold safe, tget. cbv zeta. destruct (i <? 0) eqn:N.
  - assert (Y : (i + len tokens <? 0) = false) by lia. rewrite Y.
    destruct (nth_error tokens (Z.to_nat (i + len tokens))) eqn:E; [exact I|]. apply nth_error_None in E. unfold len in *. lia.
  - rewrite N. destruct (nth_error tokens (Z.to_nat i)) eqn:E; [exact I|]. apply nth_error_None in E. unfold len in *. lia.
Qed.
Lemma tupd_len tokens i f : len (tupd tokens i f) = len tokens.
Proof. unfold tupd, update_nth_tok', len. cbv zeta. rewrite upd_nth_l_length. reflexivity. Qed.

Definition LN (N x : Z) : Prop := -1 <= x < N /\ 0 < N.

Lemma DQ_in N ds d : Forall (DQ N (len ds)) ds -> In d ds -> DQ N (len ds) d.
Proof. intros H I. rewrite Forall_forall in H. exact (H d I). Qed.

Lemma st_pass1_safe N : forall fuel ds tokens i lone, len tokens = N -> Forall (DQ N (len ds)) ds -> 0 <= i ->
  Forall (LN N) lone ->
  safe (st_pass1 fuel ds tokens i lone) (fun r => len (fst r) = N /\ Forall (LN N) (snd r)).
Proof.
  induction fuel as [|f IH]; intros ds tokens i lone HN HD Hi HLo; cbn [st_pass1]; [apply safe_ok; split; assumption|].
  sstep; [apply safe_ok; split; assumption|].
  eapply safe_bind; [apply dget_safe; lia|]. intros sd _ Isd. destruct (DQ_in _ _ _ HD Isd) as [T1 E1].
  sstep; [apply IH; try assumption; lia|].
  assert (EV : 0 <= d_end sd < len ds) by lia.
  eapply safe_bind; [apply dget_safe; exact EV|]. intros ed _ Ied. destruct (DQ_in _ _ _ HD Ied) as [T2 _].
  eapply safe_bind; [apply tget_safe; lia|]. intros _t1 _ _. cbv zeta.
  eapply safe_bind; [apply tget_safe; rewrite tupd_len; lia|]. intros _t2 _ _.
  eapply safe_bind; [apply tget_safe; rewrite !tupd_len; lia|]. intros before _ _.
  apply IH; [rewrite !tupd_len; exact HN | exact HD | lia|].
  destruct (_ && _); [|exact HLo]. apply Forall_app. split; [exact HLo|]. constructor; [split; lia | constructor].
Qed.

Lemma count_s_close_bound : forall fuel tokens j, j <= count_s_close fuel tokens j /\ (count_s_close fuel tokens j <= len tokens \/ count_s_close fuel tokens j = j).
Proof.
  induction fuel as [|f IH]; intros tokens j; cbn [count_s_close]; [lia|].
  destruct (j <? len tokens) eqn:E; [|lia]. destruct (nth_error tokens (Z.to_nat j)); [|lia].
  destruct (str_eqb _ _); [|lia]. specialize (IH tokens (j + 1)). lia.
Qed.

Lemma st_pass2_safe N : forall lone tokens, len tokens = N -> Forall (LN N) lone ->
  safe (st_pass2 lone tokens) (fun t => len t = N).
Proof.
  induction lone as [|i rest IH]; intros tokens HN HL; cbn [st_pass2]; [apply safe_ok; exact HN|]. cbv zeta.
  inversion HL as [|x y [Hx H0] Hy]; subst.
  pose proof (count_s_close_bound (S (length tokens)) tokens (i + 1)) as [B1 B2].
  set (j := count_s_close (S (length tokens)) tokens (i + 1) - 1) in *.
  sstep; [|apply IH; [reflexivity | exact Hy]].
  eapply safe_bind; [apply tget_safe; lia|]. intros ti _ _.
  eapply safe_bind; [apply tget_safe; lia|]. intros tj _ _.
  apply IH; [rewrite !tupd_len; reflexivity | exact Hy].
Qed.

Lemma strike_post_safe N ds tokens : len tokens = N -> Forall (DQ N (len ds)) ds ->
  safe (strike_post ds tokens) (fun t => len t = N).
Proof.
  intros HN HD. unfold strike_post.
  eapply safe_bind; [apply (st_pass1_safe N); [exact HN | exact HD | lia | constructor]|]. intros [tokens1 lone] _ [A B]. cbn [fst snd] in *.
  apply st_pass2_safe; [exact A|]. apply Forall_rev. exact B.
Qed.

Lemma em_pass_safe N : forall fuel ds tokens i, len tokens = N -> Forall (DQ N (len ds)) ds -> i < len ds ->
  safe (em_pass fuel ds tokens i) (fun t => len t = N).
Proof.
  induction fuel as [|f IH]; intros ds tokens i HN HD Hi; cbn [em_pass]; [apply safe_ok; exact HN|].
  sstep; [apply safe_ok; exact HN|].
  eapply safe_bind; [apply dget_safe; lia|]. intros sd _ Isd. destruct (DQ_in _ _ _ HD Isd) as [T1 E1].
  sstep; [apply IH; try assumption; lia|].
  assert (EV : 0 <= d_end sd < len ds) by lia.
  eapply safe_bind; [apply dget_safe; exact EV|]. intros ed _ Ied. destruct (DQ_in _ _ _ HD Ied) as [T2 _].
  eapply safe_bind with (Q := fun b => b = true -> 0 < i /\ d_end sd + 1 < len ds).
  { sstep; [|apply safe_ok; discriminate]. eapply safe_bind; [apply dget_safe; lia|]. intros p _ Ip.
    destruct (DQ_in _ _ _ HD Ip) as [_ EP].
    sstep; [|apply safe_ok; discriminate].
    eapply safe_bind; [apply dget_safe; lia|]. intros q _ _. apply safe_ok. intros _. lia. }
  intros isStrong _ HS. cbv zeta.
  eapply safe_bind; [apply tget_safe; lia|]. intros _t1 _ _.
  eapply safe_bind; [apply tget_safe; rewrite tupd_len; lia|]. intros _t2 _ _.
  destruct isStrong; [|apply IH; [rewrite !tupd_len; exact HN | exact HD | lia]].
  destruct (HS eq_refl) as [S1 S2].
  eapply safe_bind; [apply dget_safe; lia|]. intros p _ Ip. destruct (DQ_in _ _ _ HD Ip) as [TP _].
  eapply safe_bind; [apply dget_safe; lia|]. intros q _ Iq. destruct (DQ_in _ _ _ HD Iq) as [TQ _].
  eapply safe_bind; [apply tget_safe; rewrite !tupd_len; lia|]. intros _a _ _.
  eapply safe_bind; [apply tget_safe; rewrite !tupd_len; lia|]. intros _b _ _.
  apply IH; [rewrite !tupd_len; exact HN | exact HD | lia].
Qed.

(* ---- the post-processing chain ---- *)
Definition D1 (st : istate) : Prop := forall l, In l (i_dstore st) -> Forall (DQ (len (i_tokens st)) (len l)) l.

Lemma D1_nth st id : D1 st -> Forall (DQ (len (i_tokens st)) (len (nth id (i_dstore st) []))) (nth id (i_dstore st) []).
Proof.
  intros H. destruct (Nat.lt_ge_cases id (length (i_dstore st))) as [L|G].
  - apply H. apply nth_In. exact L.
  - rewrite nth_overflow by exact G. constructor.
Qed.

Lemma each_meta_safe (f : istate -> nat -> res istate) (INV : istate -> Prop)
      (Hf : forall s id, INV s -> safe (f s id) INV) : forall metas st, INV st -> safe (each_meta f metas st) INV.
Proof.
  induction metas as [|[id|] rest IH]; intros st H; cbn [each_meta]; [apply safe_ok; exact H| |apply IH; exact H].
  eapply safe_bind; [apply Hf; exact H|]. intros st' _ H'. apply IH. exact H'.
Qed.
Lemma on_all_delims_safe (f : istate -> nat -> res istate) (INV : istate -> Prop)
      (Hf : forall s id, INV s -> safe (f s id) INV) st : INV st -> safe (on_all_delims f st) INV.
Proof.
  intros H. unfold on_all_delims. eapply safe_bind; [apply Hf; exact H|]. intros st1 _ H1.
  (* the meta list walked is the one of the state before the first call *)
  apply each_meta_safe; assumption.
Qed.

Lemma r2_balance_pairs_safe st : D1 st -> safe (r2_balance_pairs st) D1.
Proof.
  intros H. unfold r2_balance_pairs. apply on_all_delims_safe; [|exact H]. clear st H. intros s id H.
  eapply safe_bind; [apply (process_delimiters_safe (len (i_tokens s))); apply D1_nth; exact H|]. intros ds _ [A B].
  apply safe_ok. intros l Hl. cbn in Hl. apply In_upd_nth_l in Hl. destruct Hl as [I|(y & I & ->)]; [exact (H l I)|].
  cbn. rewrite A. exact B.
Qed.

Lemma r2_strikethrough_safe st : D1 st -> safe (r2_strikethrough st) D1.
Proof.
  intros H. unfold r2_strikethrough. apply on_all_delims_safe; [|exact H]. clear st H. intros s id H.
  eapply safe_bind; [apply (strike_post_safe (len (i_tokens s))); [reflexivity | apply D1_nth; exact H]|]. intros ts _ A.
  apply safe_ok. intros l Hl. cbn in *. rewrite A. exact (H l Hl).
Qed.

Lemma r2_emphasis_safe st : D1 st -> safe (r2_emphasis st) D1.
Proof.
  intros H. unfold r2_emphasis. apply on_all_delims_safe; [|exact H]. clear st H. intros s id H. cbv zeta.
  eapply safe_bind; [apply (em_pass_safe (len (i_tokens s))); [reflexivity | apply D1_nth; exact H | lia]|]. intros ts _ A.
  apply safe_ok. intros l Hl. cbn in *. rewrite A. exact (H l Hl).
Qed.

Definition pair_rule (n : str) : bool := str_eqb n n_balance_pairs || str_eqb n n_strikethrough || str_eqb n n_emphasis.
(* the order of the post-processing chain: nothing that reads delimiters runs after fragments_join *)
Fixpoint order_ok (names : list str) : bool :=
  match names with
  | [] => true
  | n :: r => if str_eqb n n_fragments_join then forallb (fun m => negb (pair_rule m)) r else order_ok r
  end.

Lemma run_rules2_tail_safe : forall names st, forallb (fun m => negb (pair_rule m)) names = true ->
  safe (run_rules2 names st) (fun _ => True).
Proof.
  induction names as [|n r IH]; intros st H; cbn [run_rules2]; [apply safe_ok; exact I|].
  cbn [forallb] in H. apply Bool.andb_true_iff in H. destruct H as [H1 H2].
  unfold pair_rule in H1. unfold iapply2.
  destruct (str_eqb n n_balance_pairs); [discriminate H1|]. destruct (str_eqb n n_strikethrough); [discriminate H1|].
  destruct (str_eqb n n_emphasis); [discriminate H1|].
  destruct (str_eqb n n_fragments_join); cbn [bind r2_fragments_join]; apply IH; exact H2.
Qed.

Lemma run_rules2_safe : forall names st, order_ok names = true -> D1 st -> safe (run_rules2 names st) (fun _ => True).
Proof.
  induction names as [|n r IH]; intros st H HD; cbn [run_rules2]; [apply safe_ok; exact I|].
  cbn [order_ok] in H. unfold iapply2.
  destruct (str_eqb n n_balance_pairs) eqn:N1.
  { assert (X : str_eqb n n_fragments_join = false) by (apply str_eqb_eq in N1; subst n; reflexivity). rewrite X in H.
    eapply safe_bind; [apply r2_balance_pairs_safe; exact HD|]. intros st' _ HD'. apply IH; assumption. }
  destruct (str_eqb n n_strikethrough) eqn:N2.
  { assert (X : str_eqb n n_fragments_join = false) by (apply str_eqb_eq in N2; subst n; reflexivity). rewrite X in H.
    eapply safe_bind; [apply r2_strikethrough_safe; exact HD|]. intros st' _ HD'. apply IH; assumption. }
  destruct (str_eqb n n_emphasis) eqn:N3.
  { assert (X : str_eqb n n_fragments_join = false) by (apply str_eqb_eq in N3; subst n; reflexivity). rewrite X in H.
    eapply safe_bind; [apply r2_emphasis_safe; exact HD|]. intros st' _ HD'. apply IH; assumption. }
  destruct (str_eqb n n_fragments_join); cbn [bind r2_fragments_join]; [apply run_rules2_tail_safe; exact H | apply IH; assumption].
Qed.

(* ---- ParserInline.parse never raises ---- *)
Section Knot.
Context (cfg : icfg) (rf cf lt : str -> str).
Context (NOLINKIFY : ic_linkify cfg = false) (ORDER : order_ok (ic_rules2 cfg) = true).

Lemma PI_init src env tokens : PI (istate_init src env tokens).
Proof.
  unfold istate_init. split; [cbn; lia|]. split; [cbn; lia|]. split; [|constructor].
  intros l Hl d Hd. cbn in Hl. destruct Hl as [<-|[]]. contradiction Hd.
Qed.

Lemma PI_D1 st : PI st -> D1 st.
Proof.
  intros (_ & _ & DDs & _) l Hl. apply Forall_forall. intros d Hd. destruct (DDs l Hl d Hd) as [A B].
  split; [exact A | left; exact B].
Qed.

Lemma inline_parse_with_safe F (HF : FN F) src env tokens :
  safe (inline_parse_with cfg rf cf lt F src env tokens) (fun _ => True).
Proof.
  unfold inline_parse_with.
  eapply safe_bind; [apply (inline_tokenize_safe cfg rf cf lt NOLINKIFY F HF); apply PI_init|]. intros st1 _ (HP1 & _).
  eapply safe_bind; [apply run_rules2_safe; [exact ORDER | apply PI_D1; exact HP1]|]. intros st2 _ _. apply safe_ok. exact I.
Qed.

Lemma ifs_FN : forall depth, FN (ifs cfg rf cf lt depth).
Proof.
  induction depth as [|d IH]; cbn [ifs].
  - split; [intros st _; exact I|]. split; [intros st _ _; exact I | intros src env; exact I].
  - cbv zeta. split; [|split].
    + intros st HP. cbn [f_tokenize]. apply (inline_tokenize_safe cfg rf cf lt NOLINKIFY _ IH). exact HP.
    + intros st HP HL. cbn [f_skip]. apply (skip_token_safe cfg rf cf lt NOLINKIFY _ IH); assumption.
    + intros src env. cbn [f_parse]. apply inline_parse_with_safe. exact IH.
Qed.

Theorem inline_parse_no_raise src env tokens : forall e, inline_parse cfg rf cf lt src env tokens <> Raise e.
Proof. unfold inline_parse. eapply safe_nr. apply inline_parse_with_safe. apply ifs_FN. Qed.

End Knot.

(* ---- the order hypothesis holds for Ruler-compiled chains ---- *)
From MD Require Import Model.Ruler.

Lemma notpair_order_ok : forall l, forallb (fun m => negb (pair_rule m)) l = true -> order_ok l = true.
Proof.
  induction l as [|n r IH]; intros H; [reflexivity|]. cbn [forallb] in H. apply Bool.andb_true_iff in H. destruct H as [_ H].
  cbn [order_ok]. destruct (str_eqb n n_fragments_join); [exact H | exact (IH H)].
Qed.
Lemma forallb_filter {A} (p q : A -> bool) l : forallb p l = true -> forallb p (filter q l) = true.
Proof.
  induction l as [|a l IH]; intros H; [reflexivity|]. cbn [forallb] in H. apply Bool.andb_true_iff in H. destruct H as [H1 H2].
  cbn [filter]. destruct (q a); [cbn [forallb]; rewrite H1; exact (IH H2) | exact (IH H2)].
Qed.
Lemma order_ok_filter (q : str -> bool) : forall l, order_ok l = true -> order_ok (filter q l) = true.
Proof.
  induction l as [|n r IH]; intros H; [reflexivity|]. cbn [order_ok] in H. cbn [filter].
  destruct (str_eqb n n_fragments_join) eqn:E.
  - destruct (q n); [cbn [order_ok]; rewrite E; apply forallb_filter; exact H | apply notpair_order_ok, forallb_filter; exact H].
  - destruct (q n); [cbn [order_ok]; rewrite E; exact (IH H) | exact (IH H)].
Qed.

Theorem ruler_chain_order_ok (rs : list (@rule str)) : order_ok (map rfn rs) = true -> order_ok (compile_chain rs []) = true.
Proof.
  unfold compile_chain. induction rs as [|r rs IH]; intros H; [reflexivity|].
  cbn [map order_ok] in H. cbn [filter]. destruct (str_eqb (rfn r) n_fragments_join) eqn:E.
  - destruct (renabled r && in_chain [] r).
    + cbn [map order_ok]. rewrite E. clear IH. induction rs as [|x xs IHx]; [reflexivity|].
      cbn [map forallb] in H. apply Bool.andb_true_iff in H. destruct H as [H1 H2]. cbn [filter].
      destruct (renabled x && in_chain [] x); [cbn [map forallb]; rewrite H1; exact (IHx H2) | exact (IHx H2)].
    + apply notpair_order_ok. clear IH. induction rs as [|x xs IHx]; [reflexivity|].
      cbn [map forallb] in H. apply Bool.andb_true_iff in H. destruct H as [H1 H2]. cbn [filter].
      destruct (renabled x && in_chain [] x); [cbn [map forallb]; rewrite H1; exact (IHx H2) | exact (IHx H2)].
  - destruct (renabled r && in_chain [] r); [cbn [map order_ok]; rewrite E; exact (IH H) | exact (IH H)].
Qed.
