(* C01, block parser: the fuel of the model never runs out.  The six places where the block model
   can answer OutOfFuel (the paragraph-like continuation scan, the block quote line loop, the list
   item loop, the table body loop, the line loop of tokenize and the container depth of tokenize)
   are given fuels computed from the line range and from maxNesting; this file proves that those
   fuels always suffice.  Together with Lemmas/NoRaise.v: ParserBlock.parse returns a state, for
   every source and every configuration. *)
From RecordUpdate Require Import RecordUpdate.
From MD Require Import Base.Py Base.Str Base.Regex Base.Opt Model.Token Model.Utils Model.StateBlock Model.Helpers
     Model.Url Model.Render Model.Block Lemmas.StrLemmas Lemmas.StrLemmas2 Lemmas.BlockLemmas Lemmas.BlockWF Lemmas.MapLemmas
     Lemmas.QuoteLemmas Lemmas.ScanLemmas Lemmas.Verbatim Lemmas.MapWhole Lemmas.NoRaise.
From Coq Require Import ZifyBool.

Local Arguments Z.eqb : simpl never.
Local Arguments Z.ltb : simpl never.
Local Arguments Z.leb : simpl never.
Local Arguments str_eqb : simpl never.

Definition nf {A} (m : res A) : Prop := m <> OutOfFuel.

Lemma nf_ok {A} (v : A) : nf (Ok v). Proof. discriminate. Qed.
Lemma nf_raise {A} e : nf (@Raise A e). Proof. discriminate. Qed.
Lemma nf_bind {A B} (m : res A) (k : A -> res B) : nf m -> (forall x, m = Ok x -> nf (k x)) -> nf (bind m k).
Proof. intros Hm Hk. destruct m as [x|e'|]; cbn [bind]; [apply Hk; reflexivity | discriminate | exfalso; apply Hm; reflexivity]. Qed.

Lemma nf_tb l i : nf (tb l i).
Proof. unfold nf, tb. cbv zeta. match goal with |- match ?o with _ => _ end <> _ => destruct o end; discriminate. Qed.
Lemma nf_py_idx s i : nf (py_idx s i).
Proof. unfold nf, py_idx. cbv zeta. match goal with |- match ?o with _ => _ end <> _ => destruct o end; discriminate. Qed.
Lemma nf_tb_set l i v : nf (tb_set l i v).
Proof. unfold nf, tb_set. cbv zeta. match goal with |- (if ?o then _ else _) <> _ => destruct o end; discriminate. Qed.

(* one step of a goal-directed walk: the head of the computation decides *)
Create HintDb nfdb.
#[export] Hint Resolve nf_ok nf_raise nf_tb nf_py_idx nf_tb_set : nfdb.

Ltac nstep :=
  match goal with
  | |- nf (Ok _) => apply nf_ok
  | |- nf (Raise _) => apply nf_raise
  | |- nf (bind ?m _) => apply nf_bind; [solve [auto with nfdb | nwalk] | let x := fresh "x" in let E := fresh "E" in intros x E]
  | |- nf (if true then ?a else _) => change (nf a)
  | |- nf (if false then _ else ?a) => change (nf a)
  | |- nf (if ?b then _ else _) => let Q := fresh "Q" in destruct b eqn:Q
  | |- nf (match ?x with _ => _ end) => let Q := fresh "Q" in destruct x eqn:Q
  | |- nf _ => solve [auto with nfdb]
  end
with nwalk := cbv zeta; repeat (nstep; cbv zeta).

Lemma nf_line_start st l : nf (line_start st l).
Proof. unfold line_start. nwalk. Qed.
#[export] Hint Resolve nf_line_start : nfdb.
Lemma nf_is_empty st l : nf (is_empty st l).
Proof. unfold is_empty. nwalk. Qed.
#[export] Hint Resolve nf_is_empty : nfdb.
Lemma nf_is_code_block c st l : nf (is_code_block c st l).
Proof. unfold is_code_block. nwalk. Qed.
#[export] Hint Resolve nf_is_code_block : nfdb.
Lemma nf_skip_back p : forall fuel src pos mn, nf (skip_back fuel p src pos mn).
Proof. induction fuel as [|f IH]; intros; cbn [skip_back]; [apply nf_ok|]. nwalk. Qed.
#[export] Hint Resolve nf_skip_back : nfdb.
Lemma nf_gl_scan : forall fuel src first last ls li ind ts bs, nf (gl_scan fuel src first last ls li ind ts bs).
Proof. induction fuel as [|f IH]; intros; cbn [gl_scan]; [apply nf_ok|]. nwalk. Qed.
#[export] Hint Resolve nf_gl_scan : nfdb.
Lemma nf_get_lines_loop : forall fuel st line endl indent keep, nf (get_lines_loop fuel st line endl indent keep).
Proof. induction fuel as [|f IH]; intros; cbn [get_lines_loop]; [apply nf_ok|]. nwalk. Qed.
Lemma nf_get_lines st a b i k : nf (get_lines st a b i k).
Proof. unfold get_lines. nwalk. apply nf_get_lines_loop. Qed.
#[export] Hint Resolve nf_get_lines : nfdb.

Section Rules.
Context (cfg : bcfg) (rf cf : str -> str).

Lemma nf_code_block_at st l : nf (code_block_at cfg st l).
Proof. unfold code_block_at. auto with nfdb. Qed.
Hint Resolve nf_code_block_at : nfdb.

Lemma nf_code_scan : forall fuel st nl el last, nf (code_scan cfg fuel st nl el last).
Proof. induction fuel as [|f IH]; intros; cbn [code_scan]; [apply nf_ok|]. nwalk. Qed.
Hint Resolve nf_code_scan : nfdb.
Lemma r_code_f st sl el silent : nf (r_code cfg st sl el silent).
Proof. unfold r_code. nwalk. Qed.

Lemma nf_fence_scan : forall fuel st nl el mk ln, nf (fence_scan cfg fuel st nl el mk ln).
Proof. induction fuel as [|f IH]; intros; cbn [fence_scan]; [apply nf_ok|]. nwalk. Qed.
Hint Resolve nf_fence_scan : nfdb.
Lemma r_fence_f st sl el silent : nf (r_fence cfg st sl el silent).
Proof. unfold r_fence. nwalk. Qed.

Lemma nf_hr_scan : forall fuel src pos mx mk cnt, nf (hr_scan fuel src pos mx mk cnt).
Proof. induction fuel as [|f IH]; intros; cbn [hr_scan]; [apply nf_ok|]. nwalk. Qed.
Hint Resolve nf_hr_scan : nfdb.
Lemma r_hr_f st sl el silent : nf (r_hr cfg st sl el silent).
Proof. unfold r_hr. nwalk. Qed.

Lemma r_heading_f st sl el silent : nf (r_heading cfg st sl el silent).
Proof. unfold r_heading, skip_spaces_back, skip_chars_back. nwalk. Qed.

Lemma nf_html_scan : forall fuel st closer nl el, nf (html_scan fuel st closer nl el).
Proof. induction fuel as [|f IH]; intros; cbn [html_scan]; [apply nf_ok|]. nwalk. Qed.
Hint Resolve nf_html_scan : nfdb.
Lemma r_html_block_f st sl el silent : nf (r_html_block cfg st sl el silent).
Proof. unfold r_html_block. nwalk. Qed.

(* the terminator callback never runs out of fuel *)
Definition term_f (term : term_t) : Prop := forall ch st a b, ch <> [] -> nf (term ch st a b).

Lemma para_scan_f term (TF : term_f term) chain (CN : chain <> []) : forall fuel st nl el cu,
  (Z.to_nat (el - nl) < fuel)%nat -> nf (para_scan fuel term chain st nl el cu).
Proof.
  induction fuel as [|f IH]; intros st nl el cu HF; [lia|]. cbn [para_scan].
  destruct (negb (nl <? el)) eqn:NE; [apply nf_ok|].
  nstep. nstep; [apply nf_ok|]. nstep. nstep; [apply IH; lia|].
  apply nf_bind; [nwalk|]. intros ul _. destruct ul; [apply nf_ok|].
  nstep; [apply IH; lia|]. apply nf_bind; [apply TF; exact CN|]. intros [t st'] _. destruct t; [apply nf_ok | apply IH; lia].
Qed.

Lemma r_paragraph_f term (TF : term_f term) st sl el silent : nf (r_paragraph term st sl el silent).
Proof.
  unfold r_paragraph. cbv zeta. apply nf_bind; [apply para_scan_f; [exact TF | discriminate | lia]|].
  intros [[nl u] st1] _. nwalk.
Qed.

Lemma r_lheading_f term (TF : term_f term) st sl el silent : nf (r_lheading cfg term st sl el silent).
Proof.
  unfold r_lheading. nstep. nstep; [apply nf_ok|]. cbv zeta.
  apply nf_bind; [apply para_scan_f; [exact TF | discriminate | lia]|].
  intros [[nl u] st1] _. nwalk.
Qed.

Lemma nf_ref_prescan : forall fuel src pos mx, nf (ref_prescan fuel src pos mx).
Proof. induction fuel as [|f IH]; intros; cbn [ref_prescan]; [apply nf_ok|]. nwalk. Qed.
Hint Resolve nf_ref_prescan : nfdb.

Lemma r_reference_f term (TF : term_f term) st sl el silent : nf (r_reference cfg rf cf term st sl el silent).
Proof.
  unfold r_reference. do 3 nstep. nstep; [apply nf_ok|]. nstep. nstep; [apply nf_ok|]. nstep. nstep; [apply nf_ok|]. cbv zeta.
  apply nf_bind; [apply para_scan_f; [exact TF | discriminate | lia]|].
  intros [[nl u] st1] _. nwalk.
Qed.

Lemma nf_delim_chars : forall fuel src pos mx, nf (delim_chars fuel src pos mx).
Proof. induction fuel as [|f IH]; intros; cbn [delim_chars]; [apply nf_ok|]. nwalk. Qed.
Hint Resolve nf_delim_chars : nfdb.
Lemma nf_get_line st l : nf (get_line st l).
Proof. unfold get_line. nwalk. Qed.
Hint Resolve nf_get_line : nfdb.

Lemma table_rows_f term (TF : term_f term) : forall fuel st aligns sl nl el tbody,
  (Z.to_nat (el - nl) < fuel)%nat -> nf (table_rows cfg fuel term st aligns sl nl el tbody).
Proof.
  induction fuel as [|f IH]; intros st aligns sl nl el tbody HF; [lia|]. cbn [table_rows].
  destruct (negb (nl <? el)) eqn:NE; [apply nf_ok|].
  nstep. nstep; [apply nf_ok|]. apply nf_bind; [apply TF; discriminate|]. intros [t st1] _.
  destruct t; [apply nf_ok|]. nstep. cbv zeta. nstep; [apply nf_ok|]. nstep. nstep; [apply nf_ok|].
  cbv zeta. nstep; apply IH; lia.
Qed.

Lemma r_table_f term (TF : term_f term) st sl el silent : nf (r_table cfg term st sl el silent).
Proof.
  unfold r_table. destruct (el <? sl + 2) eqn:EL; [apply nf_ok|]. cbv zeta.
  repeat (nstep; cbv zeta).
  apply nf_bind; [apply table_rows_f; [exact TF | lia]|]. intros [[nl tbody] st7] _. apply nf_ok.
Qed.

(* ---- block quote ---- *)
Lemma nf_bq_blanks : forall fuel src pos mx off bs adj, nf (bq_blanks fuel src pos mx off bs adj).
Proof. induction fuel as [|f IH]; intros; cbn [bq_blanks]; [apply nf_ok|]. nwalk. Qed.
Hint Resolve nf_bq_blanks : nfdb.
Lemma nf_bq_strip src pos mx sc bs : nf (bq_strip src pos mx sc bs).
Proof. unfold bq_strip. nwalk. Qed.
Hint Resolve nf_bq_strip : nfdb.
Lemma nf_save_line sv st l : nf (save_line sv st l).
Proof. unfold save_line. nwalk. Qed.
Hint Resolve nf_save_line : nfdb.
Lemma nf_apply_bq st l q : nf (apply_bq st l q).
Proof. unfold apply_bq. nwalk. Qed.
Hint Resolve nf_apply_bq : nfdb.
Lemma nf_restore_tables : forall ts st line b bs sc, nf (restore_tables st line b bs ts sc).
Proof.
  induction ts as [|t ts IH]; intros st line b bs sc.
  - destruct b, sc, bs; cbn [restore_tables]; apply nf_ok.
  - destruct b as [|x b]; [apply nf_raise|]. destruct sc as [|s0 sc]; [apply nf_raise|]. destruct bs as [|y bs]; [apply nf_raise|].
    cbn [restore_tables]. nwalk.
Qed.
Hint Resolve nf_restore_tables : nfdb.

Lemma bq_loop_f term (TF : term_f term) : forall fuel st sv nl el lle,
  (Z.to_nat (el - nl) < fuel)%nat -> nf (bq_loop fuel term st sv nl el lle).
Proof.
  induction fuel as [|f IH]; intros st sv nl el lle HF; [lia|]. cbn [bq_loop].
  destruct (negb (nl <? el)) eqn:NE; [apply nf_ok|].
  do 3 nstep. cbv zeta. nstep; [apply nf_ok|]. nstep. nstep.
  - do 4 nstep. apply IH; lia.
  - nstep; [apply nf_ok|]. apply nf_bind; [apply TF; discriminate|]. intros [t st1] _. destruct t.
    + nwalk.
    + do 2 nstep. apply IH; lia.
Qed.

(* the nested tokenize never runs out of fuel, on states at nesting level L or deeper *)
Definition rec_f (L : Z) (rec : rec_t) : Prop := forall st a b,
  L <= b_level st -> 0 <= a -> a < b -> b <= b_lineMax st -> TI st -> nf (rec st a b).

Lemma bpush_lvl_open st ty tag f : b_level (bpush st ty tag 1 f) = b_level st + 1.
Proof. reflexivity. Qed.
Lemma bpush_lvl_close st ty tag f : b_level (bpush st ty tag (-1) f) = b_level st - 1.
Proof. reflexivity. Qed.

Lemma r_blockquote_f rec term (T : term_fr term) (TO : term_ok term) (TF : term_f term) st sl el silent :
  (silent = false -> rec_f (b_level st + 1) rec) ->
  (silent = false -> 0 <= sl /\ sl < el /\ el <= b_lineMax st /\ TI st) ->
  nf (r_blockquote cfg rec term st sl el silent).
Proof.
  intros RF PRE. unfold r_blockquote. cbv zeta.
  apply nf_bind; [auto with nfdb|]. intros pos LS. apply nf_bind; [auto with nfdb|]. intros mx Ee.
  nstep. nstep; [apply nf_ok|]. rewrite match_some_62.
  nstep; [|apply nf_ok]. destruct silent; [apply nf_ok|].
  specialize (RF eq_refl). destruct (PRE eq_refl) as (P0 & P1 & P2 & HTI).
  apply nf_bind; [auto with nfdb|]. intros sc Esc. nstep.
  apply nf_bind; [auto with nfdb|]. intros q BS. apply nf_bind; [auto with nfdb|]. intros sv0 SL.
  apply nf_bind; [auto with nfdb|]. intros st1 AB.
  apply nf_bind; [apply bq_loop_f; [exact TF | lia]|]. intros [[nl sv] st3] BL.
  (* the facts the nested call needs *)
  apply bq_strip_spec in BS. destruct BS as (B1 & B2 & B3).
  assert (G : goodbt (b_src st) (b_eMarks st) sl (q_bMark q) (q_tShift q)).
  { unfold line_start in LS. destruct (tb (b_bMarks st) sl) as [b0|?|] eqn:Eb; cbn [bind] in LS; try discriminate LS.
    destruct (tb (b_tShift st) sl) as [t0|?|] eqn:Et; cbn [bind] in LS; try discriminate LS. injection LS as <-.
    pose proof (TIp_good _ _ _ _ sl _ _ HTI ltac:(lia) Eb Et) as G0.
    eapply goodbt_mono; [exact G0| |lia]. destruct (G0 mx Ee) as (A & B & _). lia. }
  assert (SO0 : sv_ok (b_src st) (b_eMarks st) sl [] []) by exact I.
  destruct (save_line_m (mkSaved [] [] [] []) st sl sv0 sl SL P0 HTI SO0 ltac:(cbn; lia) ltac:(cbn; lia)) as (SO1 & M1 & M2).
  destruct (apply_bq_m _ _ _ _ AB P0 HTI G) as (HT1 & K1 & LM1 & SC1 & SC2).
  destruct K1 as (K11 & K12 & K13 & K14 & K15).
  pose proof (apply_bq_same _ _ _ _ AB) as [_ LV1].
  pose proof (bq_loop_ext term TO _ _ _ _ _ _ _ _ _ BL) as [LV3 _].
  apply (bq_loop_m term T sl) in BL; try lia.
  2: cbn; lia.
  2: exact HT1.
  2: cbn; rewrite K13, K14; exact SO1.
  destruct BL as (L1 & L2 & L3 & HT3 & SO3 & K3 & SC3).
  apply nf_bind.
  - apply RF; [| exact P0 | lia | cbn; lia | exact HT3].
    rewrite bpush_lvl_open. change (b_level (st3 <| b_blkIndent := 0 |>)) with (b_level st3). rewrite LV3. cbn. rewrite LV1. lia.
  - intros st6 _. nwalk.
Qed.

(* ---- list ---- *)
Lemma nf_ordered_digits : forall fuel src start pos mx, nf (ordered_digits fuel src start pos mx).
Proof. induction fuel as [|f IH]; intros; cbn [ordered_digits]; [apply nf_ok|]. nwalk. Qed.
Hint Resolve nf_ordered_digits : nfdb.
Lemma nf_skip_ordered st l : nf (skip_ordered st l).
Proof. unfold skip_ordered. nwalk. Qed.
Hint Resolve nf_skip_ordered : nfdb.
Lemma nf_skip_bullet st l : nf (skip_bullet st l).
Proof. unfold skip_bullet. nwalk. Qed.
Hint Resolve nf_skip_bullet : nfdb.
Lemma nf_list_blanks : forall fuel src pos mx off bs, nf (list_blanks fuel src pos mx off bs).
Proof. induction fuel as [|f IH]; intros; cbn [list_blanks]; [apply nf_ok|]. nwalk. Qed.
Hint Resolve nf_list_blanks : nfdb.

Lemma list_items_f rec term (R : rec_c rec) (RO : rec_ok rec) (T : term_fr term) (TF : term_f term) L (RF : rec_f (L + 1) rec) :
  forall fuel st isOrd mc sl el pam start tight pee,
  b_level st = L -> 0 <= sl -> sl < el -> el <= b_lineMax st -> TI st -> b_line st = sl ->
  (forall ls, line_start st sl = Ok ls -> ls < pam) ->
  (Z.to_nat (el - sl) < fuel)%nat ->
  nf (list_items cfg fuel rec term st isOrd mc sl sl el pam start tight pee).
Proof.
  induction fuel as [|f IH]; intros st isOrd mc sl el pam start tight pee LV S0 S1 S2 HT BL PM HF; [lia|].
  cbn [list_items].
  assert (NE : negb (sl <? el) = false) by lia. rewrite NE.
  apply nf_bind; [auto with nfdb|]. intros mx Ee.
  apply nf_bind; [auto with nfdb|]. intros scn Esc.
  apply nf_bind; [auto with nfdb|]. intros ls LS.
  apply nf_bind; [auto with nfdb|]. intros bsn Ebs.
  apply nf_bind; [auto with nfdb|]. intros [contentStart offset] LB.
  apply list_blanks_mono in LB. destruct LB as [LB1 LB2].
  cbv zeta.
  set (initial := scn + pam - ls) in *.
  set (iam0 := if mx <=? contentStart then 1 else offset - initial) in *.
  set (iam := if 4 <? iam0 then 1 else iam0) in *.
  set (indent := initial + iam) in *.
  match goal with |- context [bpush st s_list_item_open s_li 1 ?f] => set (st1 := bpush st s_list_item_open s_li 1 f) in * end.
  change (b_tShift st1) with (b_tShift st). change (b_sCount st1) with (b_sCount st).
  change (b_bMarks st1) with (b_bMarks st).
  apply nf_bind; [auto with nfdb|]. intros oldTS Ets.
  rewrite Esc. cbn [bind].
  apply nf_bind; [auto with nfdb|]. intros bms Ebm.
  apply nf_bind; [auto with nfdb|]. intros ts' S1'.
  apply nf_bind; [auto with nfdb|]. intros sc' S2'.
  specialize (PM ls LS).
  assert (LSE : ls = bms + oldTS).
  { unfold line_start in LS. rewrite Ebm, Ets in LS. cbn [bind] in LS. injection LS as <-. reflexivity. }
  destruct (HT sl bms mx oldTS S0 Ebm Ee Ets) as (G1 & G2 & G3 & G4).
  match goal with |- context [st1 <| b_listIndent := ?a |> <| b_blkIndent := ?b |> <| b_tight := ?c |> <| b_tShift := ?d |> <| b_sCount := ?e |>] =>
    set (st2 := st1 <| b_listIndent := a |> <| b_blkIndent := b |> <| b_tight := c |> <| b_tShift := d |> <| b_sCount := e |>) in * end.
  assert (HT2 : TI st2).
  { unfold TI, st2, st1. cbn. exact (TIp_set_ts _ _ _ _ _ _ _ HT S0 S1' ltac:(lia)). }
  assert (L2 : b_lineMax st2 = b_lineMax st) by reflexivity.
  assert (B2 : b_line st2 = sl) by exact BL.
  assert (LV2 : b_level st2 = L + 1) by (rewrite <- LV; reflexivity).
  destruct (tb_set_spec _ _ _ _ S1' S0) as (TS1 & _ & _). destruct (tb_set_spec _ _ _ _ S2' S0) as (SC1 & _ & _).
  apply nf_bind.
  { apply nf_bind; [nwalk|]. intros e _. destruct e; [apply nf_ok|]. apply RF; [lia | exact S0 | exact S1 | rewrite L2; lia | exact HT2]. }
  intros st3 BODY.
  assert (B3 : sl < b_line st3 <= b_lineMax st /\ b_lineMax st3 = b_lineMax st /\ TI st3 /\ se st st3 /\ b_level st3 = L + 1).
  { destruct (if mx <=? contentStart then is_empty st2 (sl + 1) else Ok false) as [e|?|] eqn:EE; cbn [bind] in BODY; try discriminate BODY.
    destruct e.
    - injection BODY as <-. change (b_line (st_line st2 (Z.min (b_line st + 2) el))) with (Z.min (b_line st + 2) el). rewrite BL.
      split; [lia|]. split; [reflexivity|]. split; [exact HT2|]. split; [split; reflexivity|]. exact LV2.
    - destruct (R _ _ _ _ BODY S0 S1 ltac:(rewrite L2; lia) HT2) as (C1 & C2 & C3 & C4 & C5 & C6 & C7).
      assert (FO : first_ok st2 sl).
      { destruct (mx <=? contentStart) eqn:MC.
        - left. exists contentStart, mx. unfold line_start. unfold st2, st1. cbn. rewrite Ebm, TS1. cbn [bind].
          split; [f_equal; lia|]. split; [exact Ee|]. split; lia.
        - right. intros s0 E0. unfold st2, st1 in E0. cbn in E0. rewrite SC1 in E0. injection E0 as <-.
          unfold st2, st1. cbn. unfold indent, iam, iam0. destruct (4 <? offset - initial) eqn:X; lia. }
      specialize (C7 FO). rewrite L2 in *. split; [lia|]. split; [exact C1|]. split; [exact C4|]. split; [split; [exact C5 | exact C6]|].
      destruct (RO _ _ _ _ BODY) as [LVx _]. lia. }
  destruct B3 as (B31 & B32 & HT3 & SE3 & LV3).
  apply nf_bind; [nwalk|]. intros pee' _.
  apply nf_bind; [auto with nfdb|]. intros ts'' S3'.
  apply nf_bind; [auto with nfdb|]. intros sc'' S4'.
  match goal with |- context [bpush ?s4 s_list_item_close s_li (-1) ?f] => set (st5 := bpush s4 s_list_item_close s_li (-1) f) in * end.
  change (b_line st5) with (b_line st3).
  match goal with |- context [st5 <| b_tokens := ?v |>] => set (st6 := st5 <| b_tokens := v |>) in * end.
  assert (A6 : b_line st6 = b_line st3 /\ b_lineMax st6 = b_lineMax st /\ TI st6 /\ b_level st6 = L).
  { split; [reflexivity|]. split; [exact B32|]. split.
    { unfold TI, st6, st5. cbn. exact (TIp_set_ts _ _ _ _ _ _ _ HT3 S0 S3' G2). }
    change (b_level st6) with (b_level st3 - 1). lia. }
  destruct A6 as (A61 & A62 & A63 & A64).
  destruct (el <=? b_line st3) eqn:EN; [apply nf_ok|].
  apply nf_bind; [auto with nfdb|]. intros scn2 _. nstep; [apply nf_ok|].
  apply nf_bind; [auto with nfdb|]. intros cb _. destruct cb; [apply nf_ok|].
  apply nf_bind; [apply TF; discriminate|]. intros [t st7] TE.
  pose proof (T nm_list _ _ _ _ _ ltac:(discriminate) TE) as E7.
  destruct t; [apply nf_ok|].
  apply nf_bind; [destruct isOrd; auto with nfdb|]. intros pam' SK.
  destruct (pam' <? 0) eqn:PN; [apply nf_ok|].
  apply nf_bind; [destruct isOrd; auto with nfdb|]. intros start' _.
  apply nf_bind; [auto with nfdb|]. intros mc' _. nstep; [apply nf_ok|].
  apply IH.
  - rewrite E7. exact A64.
  - lia.
  - lia.
  - rewrite (fr_lineMax _ _ E7). lia.
  - exact (fr_TI _ _ E7 A63).
  - rewrite (fr_line _ _ E7). exact A61.
  - intros ls' LS'. destruct isOrd.
    + destruct (skip_ordered_gt _ _ _ _ SK LS'); lia.
    + destruct (skip_bullet_gt _ _ _ _ SK LS'); lia.
  - lia.
Qed.

Lemma r_list_f rec term (R : rec_c rec) (RO : rec_ok rec) (T : term_fr term) (TF : term_f term) st sl el :
  rec_f (b_level st + 2) rec ->
  0 <= sl -> sl < el -> el <= b_lineMax st -> TI st -> b_line st = sl ->
  nf (r_list cfg rec term st sl el false).
Proof.
  intros RF P0 P1 P2 HTI P3. unfold r_list.
  nstep. nstep; [apply nf_ok|]. nstep. nstep; [apply nf_ok|]. cbv zeta.
  apply nf_bind; [auto with nfdb|]. intros pamo SO.
  apply nf_bind; [auto with nfdb|]. intros start LS.
  apply nf_bind; [nwalk|]. intros sel SEL.
  destruct sel as [[[isOrd pam] mv]|]; [|apply nf_ok].
  assert (PM : start < pam).
  { destruct (0 <=? pamo) eqn:X0.
    - match type of SEL with (if ?c then Ok None else _) = _ => destruct c end; [discriminate SEL|].
      injection SEL as <- <- <-. destruct (skip_ordered_gt _ _ _ _ SO LS); lia.
    - destruct (skip_bullet st sl) as [pamb|?|] eqn:SB; cbn [bind] in SEL; try discriminate SEL.
      destruct (0 <=? pamb) eqn:X1; [|discriminate SEL]. injection SEL as <- <- <-.
      destruct (skip_bullet_gt _ _ _ _ SB LS); lia. }
  apply nf_bind; [auto with nfdb|]. intros em _. nstep; [apply nf_ok|].
  apply nf_bind; [auto with nfdb|]. intros x2 _. cbv iota.
  apply nf_bind; [|intros [[nextLine tight] st3] _; nwalk].
  match goal with |- nf (list_items _ _ _ _ (st_parent ?s1 _) _ _ _ _ _ _ _ _ _) => set (st1 := s1) in * end.
  replace (b_level st + 2) with (b_level st + 1 + 1) in RF by lia.
  apply (list_items_f rec term R RO T TF (b_level st + 1) RF).
  - unfold st1. destruct isOrd; reflexivity.
  - exact P0.
  - exact P1.
  - unfold st1. destruct isOrd; cbn; lia.
  - unfold st1. destruct isOrd; exact HTI.
  - unfold st1. destruct isOrd; exact P3.
  - intros ls LS'. assert (line_start st sl = Ok ls) by (unfold st1 in LS'; destruct isOrd; exact LS'). congruence.
  - lia.
Qed.

(* silent mode: the three rules that take callbacks answer before they use them *)
Lemma r_table_silent_f term st sl el : nf (r_table cfg term st sl el true).
Proof. unfold r_table. nwalk. Qed.
Lemma r_blockquote_silent_f rec term st sl el : nf (r_blockquote cfg rec term st sl el true).
Proof. unfold r_blockquote. nwalk. Qed.
Lemma r_list_silent_f rec term st sl el : nf (r_list cfg rec term st sl el true).
Proof. unfold r_list. nwalk. Qed.

Lemma apply_rule_silent_f rec term n st sl el :
  silent_capable n -> str_eqb n nm_reference = false ->
  nf (apply_rule cfg rf cf rec term n st sl el true).
Proof.
  intros (S1 & S2 & S3) NR. unfold apply_rule.
  destruct (str_eqb n nm_table); [apply r_table_silent_f|].
  destruct (str_eqb n nm_code); [apply r_code_f|].
  destruct (str_eqb n nm_fence); [apply r_fence_f|].
  destruct (str_eqb n nm_blockquote); [apply r_blockquote_silent_f|].
  destruct (str_eqb n nm_hr); [apply r_hr_f|].
  destruct (str_eqb n nm_list); [apply r_list_silent_f|].
  rewrite NR.
  destruct (str_eqb n nm_html_block); [apply r_html_block_f|].
  destruct (str_eqb n nm_heading); [apply r_heading_f|].
  rewrite S2, S3. apply nf_ok.
Qed.

Lemma run_chain_f : forall names st l el,
  (forall n, In n names -> silent_capable n /\ str_eqb n nm_reference = false) ->
  nf (run_chain cfg rf cf names st l el).
Proof.
  induction names as [|n names IH]; intros st l el SC; cbn [run_chain]; [apply nf_ok|].
  apply nf_bind; [apply apply_rule_silent_f; apply (SC n); left; reflexivity|].
  intros [r s1] _. destruct r; [apply nf_ok|]. apply IH. intros m Hm. apply SC. right. exact Hm.
Qed.

Lemma terminated_f (TNO : term_names_ok cfg) : term_f (terminated cfg rf cf).
Proof. intros ch st a b CN. unfold terminated. apply run_chain_f. intros n Hn. exact (TNO ch n CN Hn). Qed.

Lemma apply_rule_f rec term (R : rec_c rec) (RO : rec_ok rec) (T : term_fr term) (TO : term_ok term) (TF : term_f term) n st sl el :
  rec_f (b_level st + 1) rec -> pre st sl el ->
  nf (apply_rule cfg rf cf rec term n st sl el false).
Proof.
  intros RF (P0 & P1 & P2 & P3 & HTI). unfold apply_rule.
  destruct (str_eqb n nm_table); [apply r_table_f; exact TF|].
  destruct (str_eqb n nm_code); [apply r_code_f|].
  destruct (str_eqb n nm_fence); [apply r_fence_f|].
  destruct (str_eqb n nm_blockquote).
  { apply r_blockquote_f; try assumption; [intros _; exact RF | intros _; exact (conj P0 (conj P1 (conj P2 HTI)))]. }
  destruct (str_eqb n nm_hr); [apply r_hr_f|].
  destruct (str_eqb n nm_list).
  { apply r_list_f; try assumption. intros s a b HL. apply RF. lia. }
  destruct (str_eqb n nm_reference); [apply r_reference_f; exact TF|].
  destruct (str_eqb n nm_html_block); [apply r_html_block_f|].
  destruct (str_eqb n nm_heading); [apply r_heading_f|].
  destruct (str_eqb n nm_lheading); [apply r_lheading_f; exact TF|].
  destruct (str_eqb n nm_paragraph); [apply r_paragraph_f; exact TF|].
  apply nf_ok.
Qed.

Lemma try_rules_f rec (R : rec_c rec) (RO : rec_ok rec) (TNO : term_names_ok cfg) L (RF : rec_f (L + 1) rec) :
  forall names st sl el, b_level st = L -> pre st sl el -> nf (try_rules cfg rf cf rec names st sl el).
Proof.
  induction names as [|n names IH]; intros st sl el LV P; cbn [try_rules]; [apply nf_ok|].
  pose proof (term_names_silent cfg TNO) as ST.
  apply nf_bind.
  { apply (apply_rule_f rec _ R RO (terminated_fr cfg rf cf ST) (terminated_ok cfg rf cf) (terminated_f TNO)); [rewrite LV; exact RF | exact P]. }
  intros [r s1] AR. destruct r; [apply nf_ok|].
  destruct (apply_rule_c cfg rf cf rec _ R (terminated_fr cfg rf cf ST) _ _ _ _ _ _ _ AR ltac:(discriminate)) as [C _].
  unfold rule_c in C. cbn [andb] in C.
  apply IH; [rewrite C; exact LV | exact (pre_fr _ _ _ _ C P)].
Qed.

Lemma tok_loop_f rec (R : rec_c rec) (RO : rec_ok rec) (TNO : term_names_ok cfg) (PA : mem_str nm_paragraph (c_rules cfg) = true) L
      (RF : L < c_maxNesting cfg -> rec_f (L + 1) rec) :
  forall fuel st line el hel, b_level st = L ->
  0 <= line -> line <= b_lineMax st -> el <= b_lineMax st -> TI st ->
  (Z.to_nat (el - line) < fuel)%nat ->
  nf (tok_loop cfg rf cf fuel rec st line el hel).
Proof.
  pose proof (term_names_silent cfg TNO) as ST.
  induction fuel as [|f IH]; intros st line el hel LV L0 L1 L2 HT FB; [lia|].
  cbn [tok_loop].
  destruct (negb (line <? el)) eqn:NE; [apply nf_ok|].
  cbv zeta.
  set (line1 := skip_empty_lines (S (Z.to_nat (b_lineMax st))) st line) in *.
  destruct (skip_empty_spec (S (Z.to_nat (b_lineMax st))) st line) as [E1 E2]. specialize (E2 L1). fold line1 in E1, E2.
  destruct (el <=? line1) eqn:EL; [apply nf_ok|].
  apply nf_bind; [auto with nfdb|]. intros sc _.
  nstep; [apply nf_ok|].
  destruct (c_maxNesting cfg <=? b_level (st_line st line1)) eqn:MN; [apply nf_ok|].
  change (b_level (st_line st line1)) with (b_level st) in MN.
  assert (P : pre (st_line st line1) line1 el).
  { split; [lia|]. split; [lia|]. split; [exact L2|]. split; [reflexivity | exact HT]. }
  apply nf_bind.
  { apply (try_rules_f rec R RO TNO L (RF ltac:(lia))); [exact LV | exact P]. }
  intros st2 TR.
  pose proof (try_rules_ext cfg rf cf rec RO _ _ _ _ _ TR) as [LV2 _].
  change (b_level (st_line st line1)) with (b_level st) in LV2. rewrite LV in LV2.
  apply (try_rules_m cfg rf cf rec R ST) in TR; [|exact P|exact PA].
  destruct TR as (A1 & A2 & A3 & A4 & A5). cbn [b_lineMax st_line set] in A1, A2.
  set (st3 := st2 <| b_tight := negb hel |>) in *.
  change (b_line st3) with (b_line st2).
  apply nf_bind; [nwalk|]. intros e1 _.
  apply nf_bind; [nwalk|]. intros e2 E2'.
  destruct e2.
  - assert (LT2 : b_line st2 < el) by (destruct (b_line st2 <? el) eqn:X; [lia | discriminate E2']).
    apply IH; [exact LV2 | lia | | | exact A4 | lia].
    + cbn. change (b_lineMax st3) with (b_lineMax st2). lia.
    + cbn. change (b_lineMax st3) with (b_lineMax st2). lia.
  - apply IH; [exact LV2 | lia | | | exact A4 | lia].
    + change (b_lineMax st3) with (b_lineMax st2). lia.
    + change (b_lineMax st3) with (b_lineMax st2). lia.
Qed.

Lemma tokenize_f (TNO : term_names_ok cfg) (PA : mem_str nm_paragraph (c_rules cfg) = true) :
  forall d st a b, (1 <= d)%nat -> c_maxNesting cfg + 2 <= Z.of_nat d + b_level st ->
  0 <= a -> a <= b -> b <= b_lineMax st -> TI st ->
  nf (tokenize cfg rf cf d st a b).
Proof.
  pose proof (term_names_silent cfg TNO) as ST.
  induction d as [|d IH]; intros st a b D1 DL A0 AB BL HT; [lia|].
  cbn [tokenize].
  apply (tok_loop_f _ (tokenize_rec_c cfg rf cf ST PA d) (tokenize_ok cfg rf cf d) TNO PA (b_level st)); try assumption; try lia; try reflexivity.
  intros LM s a' b' HL A0' AB' BL' HT'. apply IH; try assumption; lia.
Qed.

End Rules.

(* ---- ParserBlock.parse: the fuel never runs out, hence (with NoRaise) it returns a state ---- *)
Theorem block_parse_fuel cfg rf cf src env toks :
  term_names_ok cfg -> mem_str nm_paragraph (c_rules cfg) = true ->
  block_parse cfg rf cf src env toks <> OutOfFuel.
Proof.
  intros TNO PA. unfold block_parse.
  destruct src as [|c src0]; [discriminate|].
  set (st0 := state_init (c :: src0) env toks).
  pose proof (state_init_TI (c :: src0) env toks) as HT. fold st0 in HT.
  destruct (state_init_tables (c :: src0) env toks) as (_ & _ & _ & _ & _ & LM & _). cbv zeta in LM. fold st0 in LM.
  assert (B0 : b_line st0 = 0) by reflexivity. rewrite B0.
  apply (tokenize_f cfg rf cf TNO PA); try lia; [|exact HT].
  change (b_level st0) with 0. lia.
Qed.

Theorem block_parse_total cfg rf cf src env toks :
  term_names_ok cfg -> mem_str nm_paragraph (c_rules cfg) = true ->
  exists st, block_parse cfg rf cf src env toks = Ok st.
Proof.
  intros TNO PA.
  destruct (block_parse cfg rf cf src env toks) as [st|e|] eqn:E.
  - exists st. reflexivity.
  - exfalso. exact (block_parse_no_raise cfg rf cf src env toks TNO PA e E).
  - exfalso. exact (block_parse_fuel cfg rf cf src env toks TNO PA E).
Qed.
