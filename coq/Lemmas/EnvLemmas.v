(* C16 / C05, block half: what a whole run of the block parser does to env.  For EVERY source and
   configuration: the definitions already in env stay where they are (a prefix), new ones are
   appended under labels that were absent, later definitions of a present label go to
   duplicate_refs, and every recorded destination is a normalizeLink result that validateLink
   accepted. *)
From RecordUpdate Require Import RecordUpdate.
From MD Require Import Base.Py Base.Str Base.Regex Base.Opt Model.Token Model.Utils Model.StateBlock Model.Helpers
     Model.Url Model.Render Model.Block Lemmas.StrLemmas Lemmas.BlockLemmas Lemmas.BlockWF.

Local Arguments Z.eqb : simpl never.
Local Arguments Z.ltb : simpl never.
Local Arguments Z.leb : simpl never.
Local Arguments str_eqb : simpl never.

Section Env.
Context (cfg : bcfg) (rf cf : str -> str).

(* a recorded destination: normalizeLink of something, accepted by validateLink *)
Definition good_href (h : str) : Prop := exists raw, h = normalize_link rf raw /\ validate_link_re h = true.
Definition good_ref (lr : str * refrec) : Prop := good_href (r_href (snd lr)).

Definition env_ext (e e' : envt) : Prop :=
  exists a d, env_refs e' = env_refs e ++ a /\ env_dups e' = env_dups e ++ d
              /\ Forall good_ref a /\ Forall good_ref d
              /\ Forall (fun lr => alookup (fst lr) (env_refs e) = None) a.

Lemma env_ext_refl e : env_ext e e.
Proof. exists [], []. rewrite !app_nil_r. repeat split; constructor. Qed.

Lemma alookup_app_none {A} k (x y : list (str * A)) : alookup k (x ++ y) = None -> alookup k x = None.
Proof.
  induction x as [|[k' v] x IH]; intros H; [reflexivity|]. cbn [app alookup] in *.
  destruct (str_eqb k k'); [discriminate H | apply IH, H].
Qed.

Lemma env_ext_trans a b c : env_ext a b -> env_ext b c -> env_ext a c.
Proof.
  intros (a1 & d1 & R1 & D1 & G1 & H1 & N1) (a2 & d2 & R2 & D2 & G2 & H2 & N2).
  exists (a1 ++ a2), (d1 ++ d2). rewrite R2, R1, D2, D1, !app_assoc. repeat split.
  - apply Forall_app; split; assumption.
  - apply Forall_app; split; assumption.
  - apply Forall_app; split; [exact N1|]. eapply Forall_impl; [|exact N2]. intros lr H. rewrite R1 in H.
    eapply alookup_app_none; exact H.
Qed.

Definition envk (st st' : bstate) : Prop := env_ext (b_env st) (b_env st').
Lemma envk_same st st' : b_env st' = b_env st -> envk st st'.
Proof. unfold envk. intros ->. apply env_ext_refl. Qed.
Lemma envk_trans a b c : envk a b -> envk b c -> envk a c.
Proof. apply env_ext_trans. Qed.

Definition rec_e (rec : rec_t) : Prop := forall s a b s', rec s a b = Ok s' -> envk s s'.
Definition term_e (term : term_t) : Prop := forall ch s a b r s', term ch s a b = Ok (r, s') -> envk s s'.
Lemma no_rec_e : rec_e no_rec. Proof. intros s a b s' H. discriminate H. Qed.
Lemma no_term_e : term_e no_term. Proof. intros ch s a b r s' H. discriminate H. Qed.

Ltac same := apply envk_same; reflexivity.

(* ---- rules that never touch env ---- *)

Lemma r_hr_e st sl el silent b st' : r_hr cfg st sl el silent = Ok (b, st') -> envk st st'.
Proof. unfold r_hr. intros H. repeat rstep H; rfinish H; same. Qed.
Lemma r_code_e st sl el silent b st' : r_code cfg st sl el silent = Ok (b, st') -> envk st st'.
Proof. unfold r_code. intros H. repeat rstep H; rfinish H; same. Qed.
Lemma r_fence_e st sl el silent b st' : r_fence cfg st sl el silent = Ok (b, st') -> envk st st'.
Proof. unfold r_fence. intros H. repeat rstep H; rfinish H; same. Qed.
Lemma r_heading_e st sl el silent b st' : r_heading cfg st sl el silent = Ok (b, st') -> envk st st'.
Proof. unfold r_heading. intros H. repeat rstep H; rfinish H; same. Qed.
Lemma r_html_block_e st sl el silent b st' : r_html_block cfg st sl el silent = Ok (b, st') -> envk st st'.
Proof. unfold r_html_block. intros H. repeat rstep H; rfinish H; same. Qed.

Lemma para_scan_e term (T : term_e term) : forall fuel chain st nl el cu r u st',
  para_scan fuel term chain st nl el cu = Ok (r, u, st') -> envk st st'.
Proof.
  induction fuel as [|f IH]; intros chain st nl el cu r u st' H; [discriminate H|].
  cbn [para_scan] in H.
  destruct (negb (nl <? el)); [rfinish H; same|].
  destruct (is_empty st nl) as [e|?|]; cbn [bind] in H; try discriminate H.
  destruct e; [rfinish H; same|].
  destruct (tb (b_sCount st) nl) as [sc|?|]; cbn [bind] in H; try discriminate H.
  destruct (3 <? sc - b_blkIndent st); [eapply IH; exact H|].
  match type of H with bind ?m _ = _ => destruct m as [ul|?|] end; cbn [bind] in H; try discriminate H.
  destruct ul as [ml|]; [rfinish H; same|].
  destruct (sc <? 0); [eapply IH; exact H|].
  destruct (term chain st nl el) as [[t st1]|?|] eqn:TE; cbn [bind] in H; try discriminate H.
  pose proof (T _ _ _ _ _ _ TE) as E1.
  destruct t; [rfinish H; exact E1|].
  eapply envk_trans; [exact E1 | eapply IH; exact H].
Qed.

Lemma r_paragraph_e term (T : term_e term) st sl el silent b st' :
  r_paragraph term st sl el silent = Ok (b, st') -> envk st st'.
Proof.
  unfold r_paragraph. intros H.
  match type of H with bind ?m _ = _ => destruct m as [[[nl u] st1]|?|] eqn:PS end; cbn [bind] in H; try discriminate H.
  apply (para_scan_e term T) in PS.
  repeat rstep H; rfinish H. eapply envk_trans; [eapply envk_trans; [|exact PS]; same | same].
Qed.

Lemma r_lheading_e term (T : term_e term) st sl el silent b st' :
  r_lheading cfg term st sl el silent = Ok (b, st') -> envk st st'.
Proof.
  unfold r_lheading. intros H. rstep H. rstep H; [rfinish H; same|].
  match type of H with bind ?m _ = _ => destruct m as [[[nl u] st1]|?|] eqn:PS end; cbn [bind] in H; try discriminate H.
  apply (para_scan_e term T) in PS.
  assert (PS' : envk st st1) by (eapply envk_trans; [|exact PS]; same).
  destruct u as [[marker level]|]; [|rfinish H; exact PS'].
  repeat rstep H; rfinish H. eapply envk_trans; [exact PS' | same].
Qed.

(* the one rule that writes env *)
Lemma record_ext e label r :
  good_href (r_href r) ->
  env_ext e (match alookup label (match e_refs (match e_refs e with None => mkEnv (Some []) (e_dups e) | Some _ => e end) with Some x => x | None => [] end) with
             | None => mkEnv (Some ((match e_refs (match e_refs e with None => mkEnv (Some []) (e_dups e) | Some _ => e end) with Some x => x | None => [] end) ++ [(label, r)]))
                             (e_dups (match e_refs e with None => mkEnv (Some []) (e_dups e) | Some _ => e end))
             | Some _ => mkEnv (Some (match e_refs (match e_refs e with None => mkEnv (Some []) (e_dups e) | Some _ => e end) with Some x => x | None => [] end))
                               (Some ((match e_dups (match e_refs e with None => mkEnv (Some []) (e_dups e) | Some _ => e end) with Some d => d | None => [] end) ++ [(label, r)]))
             end).
Proof.
  intros G. unfold env_ext, env_refs, env_dups.
  destruct (e_refs e) as [refs|] eqn:ER; cbn [e_refs e_dups]; rewrite ?ER.
  - destruct (alookup label refs) eqn:AL; cbn [e_refs e_dups].
    + exists [], [(label, r)]. rewrite app_nil_r. repeat split; try constructor; try exact G; constructor.
    + exists [(label, r)], []. rewrite app_nil_r. repeat split; try constructor; try exact G; try constructor. exact AL.
  - cbn [alookup e_refs e_dups app].
    exists [(label, r)], []. rewrite app_nil_r. repeat split; try constructor; try exact G; constructor.
Qed.

Lemma r_reference_e term (T : term_e term) st sl el silent b st' :
  r_reference cfg rf cf term st sl el silent = Ok (b, st') -> envk st st'.
Proof.
  unfold r_reference. intros H.
  do 3 rstep H. rstep H; [rfinish H; same|].
  rstep H. rstep H; [rfinish H; same|].
  rstep H. rstep H; [rfinish H; same|].
  match type of H with bind ?m _ = _ => destruct m as [[[nl u] st1]|?|] eqn:PS end; cbn [bind] in H; try discriminate H.
  apply (para_scan_e term T) in PS.
  assert (PS' : envk st st1) by (eapply envk_trans; [|exact PS]; same).
  rstep H.
  match type of H with (match ?o with Some _ => _ | None => _ end) = _ => destruct o as [[[labelEnd|] lines0]|] end;
    try (rfinish H; exact PS').
  rstep H; [rfinish H; exact PS'|].
  rstep H. rstep H; [rfinish H; exact PS'|].
  match type of H with (if negb (validate_link_re ?h) then _ else _) = _ => destruct (validate_link_re h) eqn:VL end;
    cbn [negb] in H; [|rfinish H; exact PS'].
  repeat rstep H; rfinish H; try exact PS'.
  all: eapply envk_trans; [exact PS'|].
  all: unfold envk.
  all: match goal with |- env_ext ?e ?e2 =>
         let e2' := eval cbn [b_env st_parent st_line bpush] in e2 in change (env_ext e e2') end.
  all: destruct (c_inline_defs cfg).
  all: cbn.
  all: apply record_ext; cbn [r_href]; eexists; split; [reflexivity | exact VL].
Qed.

(* ---- containers ---- *)

Lemma apply_bq_env st line q st' : apply_bq st line q = Ok st' -> b_env st' = b_env st.
Proof. unfold apply_bq. intros H. repeat rstep H. rfinish H. reflexivity. Qed.

Lemma restore_tables_env : forall ts st line b bs sc st',
  restore_tables st line b bs ts sc = Ok st' -> b_env st' = b_env st.
Proof.
  induction ts as [|t ts IH]; intros st line b bs sc st' H.
  - destruct b, sc, bs; cbn [restore_tables] in H; rfinish H; reflexivity.
  - destruct b as [|x b]; [discriminate H|]. destruct sc as [|s0 sc]; [discriminate H|]. destruct bs as [|y bs]; [discriminate H|].
    cbn [restore_tables] in H. repeat rstep H. apply IH in H. rewrite H. reflexivity.
Qed.

Lemma bq_loop_e term (T : term_e term) : forall fuel st sv nl el lle r sv' st',
  bq_loop fuel term st sv nl el lle = Ok (r, sv', st') -> envk st st'.
Proof.
  induction fuel as [|f IH]; intros st sv nl el lle r sv' st' H; [discriminate H|].
  cbn [bq_loop] in H.
  destruct (negb (nl <? el)); [rfinish H; same|].
  do 3 rstep H. destruct (x1 <=? x0); [rfinish H; same|].
  rstep H.
  destruct ((x2 =? 62) && negb (x <? b_blkIndent st)).
  - do 3 rstep H.
    match type of H with bind (apply_bq ?a ?b ?c) _ = _ => destruct (apply_bq a b c) as [st1|?|] eqn:AB end;
      cbn [bind] in H; try discriminate H.
    apply apply_bq_env in AB. eapply envk_trans; [apply envk_same, AB | eapply IH; exact H].
  - destruct lle; [rfinish H; same|].
    destruct (term nm_blockquote st nl el) as [[t st1]|?|] eqn:TE; cbn [bind] in H; try discriminate H.
    pose proof (T _ _ _ _ _ _ TE) as E1.
    destruct t.
    + repeat rstep H; rfinish H; (eapply envk_trans; [exact E1 | same]).
    + do 2 rstep H. eapply envk_trans; [exact E1|]. eapply envk_trans; [|eapply IH; exact H]. same.
Qed.

Lemma r_blockquote_e rec term (R : rec_e rec) (T : term_e term) st sl el silent b st' :
  r_blockquote cfg rec term st sl el silent = Ok (b, st') -> envk st st'.
Proof.
  unfold r_blockquote. intros H.
  do 3 rstep H. rstep H; [rfinish H; same|].
  rewrite match_some_62 in H.
  rstep H; [|rfinish H; same].
  destruct silent; [rfinish H; same|].
  do 4 rstep H.
  match type of H with bind (apply_bq ?a ?b ?c) _ = _ => destruct (apply_bq a b c) as [st1|?|] eqn:AB end;
    cbn [bind] in H; try discriminate H.
  apply apply_bq_env in AB.
  match type of H with bind ?m _ = _ => destruct m as [[[nl sv] st3]|?|] eqn:BL end; cbn [bind] in H; try discriminate H.
  apply (bq_loop_e term T) in BL.
  match type of H with bind (rec ?a ?b ?c) _ = _ => destruct (rec a b c) as [st6|?|] eqn:RC end;
    cbn [bind] in H; try discriminate H.
  apply R in RC.
  match type of H with bind ?m _ = _ => destruct m as [st10|?|] eqn:RT end; cbn [bind] in H; try discriminate H.
  apply restore_tables_env in RT. rfinish H.
  eapply envk_trans; [apply envk_same, AB|].
  eapply envk_trans; [eapply envk_trans; [|exact BL]; same|].
  eapply envk_trans; [eapply envk_trans; [|exact RC]; same|].
  apply envk_same. transitivity (b_env st10); [reflexivity | exact RT].
Qed.

Lemma list_items_e rec term (R : rec_e rec) (T : term_e term) :
  forall fuel st ord mc sl nl el pam start tight pee r t st',
    list_items cfg fuel rec term st ord mc sl nl el pam start tight pee = Ok (r, t, st') -> envk st st'.
Proof.
  induction fuel as [|f IH]; intros st ord mc sl nl el pam start tight pee r t st' H; [discriminate H|].
  cbn [list_items] in H.
  destruct (negb (nl <? el)); [rfinish H; same|].
  do 4 rstep H. rstep H. destruct x3 as [contentStart offset].
  do 5 rstep H.
  match type of H with bind ?m _ = _ => destruct m as [st3|?|] eqn:INNER end; cbn [bind] in H; try discriminate H.
  assert (E3 : envk st st3).
  { match type of INNER with bind ?m _ = _ => destruct m as [e|?|] end; cbn [bind] in INNER; try discriminate INNER.
    destruct e; [rfinish INNER; same|]. apply R in INNER. eapply envk_trans; [|exact INNER]. same. }
  do 3 rstep H.
  match type of H with (if ?c then _ else _) = _ => destruct c end; [rfinish H; eapply envk_trans; [exact E3 | same]|].
  rstep H. rstep H; [rfinish H; eapply envk_trans; [exact E3 | same]|].
  rstep H. rstep H; [rfinish H; eapply envk_trans; [exact E3 | same]|].
  match type of H with bind (term ?a ?b ?c ?d) _ = _ => destruct (term a b c d) as [[tt st7]|?|] eqn:TE end;
    cbn [bind] in H; try discriminate H.
  pose proof (T _ _ _ _ _ _ TE) as E7.
  assert (E67 : envk st st7) by (eapply envk_trans; [exact E3|]; eapply envk_trans; [|exact E7]; same).
  destruct tt; [rfinish H; exact E67|].
  rstep H. rstep H; [rfinish H; exact E67|].
  do 2 rstep H. rstep H; [rfinish H; exact E67|].
  eapply envk_trans; [exact E67 | eapply IH; exact H].
Qed.

Lemma r_list_e rec term (R : rec_e rec) (T : term_e term) st sl el silent b st' :
  r_list cfg rec term st sl el silent = Ok (b, st') -> envk st st'.
Proof.
  unfold r_list. intros H.
  rstep H. rstep H; [rfinish H; same|].
  rstep H. rstep H; [rfinish H; same|].
  do 2 rstep H.
  match type of H with bind ?m _ = _ => destruct m as [sel|?|] end; cbn [bind] in H; try discriminate H.
  destruct sel as [[[ord pam] mv]|]; [|rfinish H; same].
  rstep H. rstep H; [rfinish H; same|].
  rstep H. destruct silent; [rfinish H; same|].
  match type of H with bind ?m _ = _ => destruct m as [[[nl tight] st3]|?|] eqn:LI end; cbn [bind] in H; try discriminate H.
  apply (list_items_e rec term R T) in LI.
  rfinish H.
  eapply envk_trans; [eapply envk_trans; [|exact LI]; destruct ord; same|].
  destruct ord, tight; same.
Qed.

Lemma bpush_env st ty tag n f : b_env (bpush st ty tag n f) = b_env st.
Proof. reflexivity. Qed.

Lemma push_cells_env : forall aligns st oty cty tag cols a b sne,
  b_env (push_cells st oty cty tag aligns cols a b sne) = b_env st.
Proof.
  induction aligns as [|al aligns IH]; intros st oty cty tag cols a b sne; cbn [push_cells]; [reflexivity|].
  rewrite IH. reflexivity.
Qed.

Lemma table_rows_e term (T : term_e term) : forall fuel st aligns sl nl el tbody r tb' st',
  table_rows cfg fuel term st aligns sl nl el tbody = Ok (r, tb', st') -> envk st st'.
Proof.
  induction fuel as [|f IH]; intros st aligns sl nl el tbody r tb' st' H; [discriminate H|].
  cbn [table_rows] in H.
  destruct (negb (nl <? el)); [rfinish H; same|].
  rstep H. rstep H; [rfinish H; same|].
  destruct (term nm_blockquote st nl el) as [[t st1]|?|] eqn:TE; cbn [bind] in H; try discriminate H.
  pose proof (T _ _ _ _ _ _ TE) as E1.
  destruct t; [rfinish H; exact E1|].
  rstep H. destruct (py_strip x0) as [|c0 lt] eqn:LT; [rfinish H; exact E1|].
  rstep H. rstep H; [rfinish H; exact E1|].
  destruct (nl =? sl + 2); apply IH in H; (eapply envk_trans; [exact E1|]; eapply envk_trans; [|exact H]);
    apply envk_same; rewrite ?bpush_env, push_cells_env, ?bpush_env; reflexivity.
Qed.

Lemma r_table_e term (T : term_e term) st sl el silent b st' :
  r_table cfg term st sl el silent = Ok (b, st') -> envk st st'.
Proof.
  unfold r_table. intros H.
  rstep H; [rfinish H; same|].
  rstep H. rstep H; [rfinish H; same|].
  rstep H. rstep H; [rfinish H; same|].
  do 2 rstep H. rstep H; [rfinish H; same|].
  rstep H. rstep H; [rfinish H; same|].
  rstep H; [rfinish H; same|].
  rstep H. rstep H; [rfinish H; same|].
  rstep H; [rfinish H; same|].
  rstep H. rstep H; [rfinish H; same|].
  rstep H. rstep H; [|rfinish H; same].
  rstep H. rstep H; [rfinish H; same|].
  rstep H. rstep H; [rfinish H; same|].
  rstep H; [rfinish H; same|].
  destruct silent; [rfinish H; same|].
  match type of H with bind ?m _ = _ => destruct m as [[[nl tbody] st7]|?|] eqn:TR end; cbn [bind] in H; try discriminate H.
  apply (table_rows_e term T) in TR. rfinish H.
  eapply envk_trans; [eapply envk_trans; [|exact TR]; apply envk_same; rewrite ?bpush_env, push_cells_env, ?bpush_env; reflexivity|].
  destruct tbody; same.
Qed.

(* ---- dispatch, chains, loop ---- *)

Lemma apply_rule_e rec term (R : rec_e rec) (T : term_e term) name st sl el silent b st' :
  apply_rule cfg rf cf rec term name st sl el silent = Ok (b, st') -> envk st st'.
Proof.
  unfold apply_rule. intros H.
  destruct (str_eqb name nm_table); [eapply r_table_e; eassumption|].
  destruct (str_eqb name nm_code); [eapply r_code_e; eassumption|].
  destruct (str_eqb name nm_fence); [eapply r_fence_e; eassumption|].
  destruct (str_eqb name nm_blockquote); [eapply r_blockquote_e; eassumption|].
  destruct (str_eqb name nm_hr); [eapply r_hr_e; eassumption|].
  destruct (str_eqb name nm_list); [eapply r_list_e; eassumption|].
  destruct (str_eqb name nm_reference); [eapply r_reference_e; eassumption|].
  destruct (str_eqb name nm_html_block); [eapply r_html_block_e; eassumption|].
  destruct (str_eqb name nm_heading); [eapply r_heading_e; eassumption|].
  destruct (str_eqb name nm_lheading); [eapply r_lheading_e; eassumption|].
  destruct (str_eqb name nm_paragraph); [eapply r_paragraph_e; eassumption|].
  rfinish H. same.
Qed.

Lemma run_chain_e : forall names st l el b st', run_chain cfg rf cf names st l el = Ok (b, st') -> envk st st'.
Proof.
  induction names as [|n names IH]; intros st l el b st' H; cbn [run_chain] in H; [rfinish H; same|].
  destruct (apply_rule cfg rf cf no_rec no_term n st l el true) as [[r s1]|?|] eqn:AR; cbn [bind] in H; try discriminate H.
  apply (apply_rule_e no_rec no_term no_rec_e no_term_e) in AR.
  destruct r; [rfinish H; exact AR|]. eapply envk_trans; [exact AR | eapply IH; exact H].
Qed.

Lemma terminated_e : term_e (terminated cfg rf cf).
Proof. intros ch s a b r s' H. unfold terminated in H. eapply run_chain_e; exact H. Qed.

Lemma try_rules_e rec (R : rec_e rec) : forall names st l el st',
  try_rules cfg rf cf rec names st l el = Ok st' -> envk st st'.
Proof.
  induction names as [|n names IH]; intros st l el st' H; cbn [try_rules] in H; [rfinish H; same|].
  destruct (apply_rule cfg rf cf rec (terminated cfg rf cf) n st l el false) as [[r s1]|?|] eqn:AR; cbn [bind] in H; try discriminate H.
  apply (apply_rule_e rec _ R terminated_e) in AR.
  destruct r; [rfinish H; exact AR|]. eapply envk_trans; [exact AR | eapply IH; exact H].
Qed.

Lemma tok_loop_e rec (R : rec_e rec) : forall fuel st line el hel st',
  tok_loop cfg rf cf fuel rec st line el hel = Ok st' -> envk st st'.
Proof.
  induction fuel as [|f IH]; intros st line el hel st' H; [discriminate H|].
  cbn [tok_loop] in H.
  destruct (negb (line <? el)); [rfinish H; same|].
  match type of H with (if ?c then _ else _) = _ => destruct c end; [rfinish H; same|].
  rstep H. rstep H; [rfinish H; same|].
  rstep H; [rfinish H; same|].
  match type of H with bind ?m _ = _ => destruct m as [st2|?|] eqn:TR end; cbn [bind] in H; try discriminate H.
  apply (try_rules_e rec R) in TR.
  assert (E2 : envk st st2) by (eapply envk_trans; [|exact TR]; same).
  do 2 rstep H.
  rstep H; (eapply envk_trans; [|eapply IH; exact H]; eapply envk_trans; [exact E2 | same]).
Qed.

Lemma tokenize_e : forall depth, rec_e (tokenize cfg rf cf depth).
Proof.
  induction depth as [|d IH]; intros s a b s' H; [discriminate H|].
  cbn [tokenize] in H. eapply tok_loop_e; [exact IH | exact H].
Qed.

(* ParserBlock.parse: env only grows, first definition of a label wins, recorded destinations are
   validated normalizeLink results *)
Theorem block_parse_env src env toks st :
  block_parse cfg rf cf src env toks = Ok st -> env_ext env (b_env st).
Proof.
  unfold block_parse. intros H.
  destruct src as [|c src']; [rfinish H; apply env_ext_refl|].
  apply tokenize_e in H. exact H.
Qed.

End Env.
