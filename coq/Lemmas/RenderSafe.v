(* C01, whole pipeline: MarkdownIt.render and renderInline never raise.  The renderer's only raising
   site is attrJoin on a fence token whose "class" attribute is not a string; the parser never puts
   an integer "class" on any token (vocabulary of Lemmas/BlockKinds.v) and no inline child is a fence. *)
From RecordUpdate Require Import RecordUpdate.
From MD Require Import Base.Py Base.Str Base.Regex Base.Opt Model.Token Model.Utils Model.StateBlock Model.Helpers
     Model.Url Model.Render Model.Core Model.Block Model.Inline Model.Pipeline
     Lemmas.StrLemmas Lemmas.BlockLemmas Lemmas.CoreLemmas Lemmas.TotalLemmas Lemmas.BlockWF Lemmas.BlockKinds
     Lemmas.InlineKinds Lemmas.PipelineSafe Lemmas.MapWhole Lemmas.NoRaise Lemmas.InlineSafe Lemmas.ParseSafe.

Local Arguments Z.eqb : simpl never.
Local Arguments str_eqb : simpl never.

(* ---- the renderer needs the class condition on fence tokens only ---- *)
Definition fence_ok (t : token) : Prop := str_eqb (ttype t) s_fence = true -> class_ok t.

Lemma render_one_total' o p t n : fence_ok t -> exists r, render_one o p t n = Ok r.
Proof.
  intros H. unfold render_one. cbv zeta.
  destruct (str_eqb (ttype t) s_code_inline); [eexists; reflexivity|].
  destruct (str_eqb (ttype t) s_code_block); [eexists; reflexivity|].
  destruct (str_eqb (ttype t) s_fence) eqn:F.
  { destruct (render_fence_total o t (H F)) as [cs E]. rewrite E. cbn [bind]. eexists; reflexivity. }
  repeat match goal with |- context [if ?b then _ else _] => destruct b; try (eexists; reflexivity) end.
Qed.

Lemma render_inline_list_total' o : forall l p, Forall fence_ok l -> exists r, render_inline_list o p l = Ok r.
Proof.
  induction l as [|t rest IH]; intros p H; cbn [render_inline_list]; [eexists; reflexivity|].
  inversion H as [|? ? Ht Hr]; subst.
  destruct (render_one_total' o p t (hd_error rest) Ht) as [[cs t'] E]. rewrite E. cbn [bind].
  destruct (IH (Some t') Hr) as [[cs2 r2] E2]. rewrite E2. cbn [bind]. eexists; reflexivity.
Qed.

Definition fence_ok_top (t : token) : Prop :=
  fence_ok t /\ forall ch, tchildren t = Some ch -> str_eqb (ttype t) s_inline = true -> Forall fence_ok ch.

Theorem render_total' o : forall l p, Forall fence_ok_top l -> exists r, render_list o p l = Ok r.
Proof.
  induction l as [|t rest IH]; intros p H; cbn [render_list]; [eexists; reflexivity|].
  inversion H as [|? ? [Ht Hc] Hr]; subst.
  destruct (str_eqb (ttype t) s_inline) eqn:TI.
  - destruct (tchildren t) as [[|x ch]|] eqn:EC; cbn [bind].
    + destruct (IH (Some t) Hr) as [[cs2 r2] E2]. rewrite E2. cbn [bind]. eexists; reflexivity.
    + destruct (render_inline_list_total' o (x :: ch) None (Hc _ eq_refl eq_refl)) as [[cs ch'] E]. rewrite E. cbn [bind].
      destruct (IH (Some (set_children t (Some ch'))) Hr) as [[cs2 r2] E2]. rewrite E2. cbn [bind]. eexists; reflexivity.
    + destruct (IH (Some t) Hr) as [[cs2 r2] E2]. rewrite E2. cbn [bind]. eexists; reflexivity.
  - destruct (render_one_total' o p t (hd_error rest) Ht) as [[cs t'] E]. rewrite E. cbn [bind].
    destruct (IH (Some t') Hr) as [[cs2 r2] E2]. rewrite E2. cbn [bind]. eexists; reflexivity.
Qed.

Lemma alookup_In_key {A} k (m : list (str * A)) v : alookup k m = Some v -> In (k, v) m.
Proof.
  induction m as [|[k' v'] m IH]; intros H; cbn [alookup] in H; [discriminate|].
  destruct (str_eqb k k') eqn:E; [apply str_eqb_eq in E; subst k'; injection H as <-; left; reflexivity | right; exact (IH H)].
Qed.

Lemma no_class_ok t : no_url_attrs t -> class_ok t.
Proof.
  intros [_ [N _]]. unfold class_ok. destruct (alookup s_class (tattrs t)) as [[v|z]|] eqn:E; try exact I.
  apply alookup_In_key in E. exact (N z E).
Qed.

Section Whole.
Context (cfg : pcfg) (rf cf lt : str -> str).
Context (CS : chains_sub (p_block cfg)).

(* the invariant of the core chain *)
Definition f_inv (t : token) : Prop :=
  fence_ok t /\ forall ch, tchildren t = Some ch -> str_eqb (ttype t) s_inline = true -> Forall (V (p_inline cfg)) ch.

Lemma V_fence_ok t : V (p_inline cfg) t -> fence_ok t.
Proof.
  intros H F. exfalso. unfold V, is0 in H.
  repeat match goal with H : _ \/ _ |- _ => destruct H as [H|H] end;
    try (match goal with H : ic_html _ = true /\ _ |- _ => destruct H as [_ H] end);
    destruct H as [A _]; rewrite A in F; vm_compute in F; discriminate F.
Qed.

Lemma f_inv_top t : f_inv t -> fence_ok_top t.
Proof.
  intros [A B]. split; [exact A|]. intros ch E TI. eapply Forall_impl; [|exact (B ch E TI)]. intros x. apply V_fence_ok.
Qed.

Lemma P_rule_f n t : P_rule (p_block cfg) n t -> f_inv t.
Proof.
  unfold P_rule.
  repeat match goal with |- (if ?c then _ else _) -> _ => destruct c end;
    unfold P_table, P_code, P_fence, P_blockquote, P_hr, P_list, P_reference, P_html, P_heading, P_paragraph;
    intros H.
  all: try contradiction.
  all: try (match goal with H : c_html _ = true /\ _ |- _ => destruct H as [_ H] end).
  all: repeat match goal with H : _ \/ _ |- _ => destruct H as [H|H] end.
  all: try (match goal with H : exists _, _ |- _ => destruct H as (l & Hl & [H|H]) end).
  all: destruct H as (_ & _ & C & N); split;
       [ intros _; exact (no_class_ok _ N)
       | intros ch E _; destruct C as [C|C]; rewrite C in E; [discriminate E | injection E as <-; constructor] ].
Qed.

Lemma inline_all_f : forall tokens env r,
  Forall f_inv tokens -> inline_all cfg rf cf lt tokens env = Ok r -> Forall f_inv r.
Proof.
  induction tokens as [|t rest IH]; intros env r H E; cbn [inline_all] in E; [rfinish E; constructor|].
  inversion H as [|? ? Ht Hr]; subst.
  match type of E with bind ?m _ = _ => destruct m as [t'|?|] eqn:E1 end; cbn [bind] in E; try discriminate E.
  destruct (inline_all cfg rf cf lt rest env) as [rest'|?|] eqn:E2; cbn [bind] in E; try discriminate E.
  rfinish E. constructor; [|eapply IH; eassumption].
  destruct (str_eqb (ttype t) s_inline) eqn:TI; [|rfinish E1; exact Ht].
  match type of E1 with bind ?m _ = _ => destruct m as [ch|?|] eqn:IP end; cbn [bind] in E1; try discriminate E1.
  rfinish E1. destruct Ht as [Hok Hch].
  apply inline_parse_kinds in IP.
  - split; [exact Hok|]. intros ch' E' _. cbn in E'. injection E' as <-. exact IP.
  - destruct (tchildren t) as [l|] eqn:TC; [apply (Hch l eq_refl TI) | constructor].
Qed.

Lemma erase_inline_f t t' : erase_inline t' = erase_inline t -> f_inv t -> f_inv t'.
Proof.
  unfold erase_inline. intros E [Hok Hch].
  destruct (tchildren t) as [ch|] eqn:C, (tchildren t') as [ch'|] eqn:C'.
  - pose proof (f_equal (fun x => (ttype x, tattrs x, tchildren x)) E) as E3. cbn in E3. injection E3 as T1 T2 T3.
    split; [unfold fence_ok, class_ok in *; rewrite T1, T2; exact Hok|].
    intros c Ec Ei. rewrite C' in Ec. injection Ec as <-. rewrite T1 in Ei. eapply erase_map_V; [exact T3 | apply (Hch ch eq_refl Ei)].
  - pose proof (f_equal tchildren E) as E3. cbn in E3. rewrite C' in E3. discriminate E3.
  - pose proof (f_equal tchildren E) as E3. cbn in E3. rewrite C in E3. discriminate E3.
  - subst t'. split; [exact Hok|]. intros c Ec. rewrite C in Ec. discriminate Ec.
Qed.

Lemma erase_list_f : forall l l', map erase_inline l' = map erase_inline l -> Forall f_inv l -> Forall f_inv l'.
Proof.
  induction l as [|x l IH]; intros [|y l'] E H; try discriminate E; [constructor|].
  cbn [map] in E. injection E as E1 E2. inversion H; subst.
  constructor; [eapply erase_inline_f; eassumption | apply IH; assumption].
Qed.

Lemma text_join_f l : Forall f_inv l -> Forall f_inv (text_join l).
Proof.
  unfold text_join. intros H. apply Forall_map. eapply Forall_impl; [|exact H].
  intros t HT. destruct (str_eqb (ttype t) s_inline) eqn:E; [|exact HT]. destruct HT as [Hok Hch].
  split; [exact Hok|]. intros ch Ec _. cbn in Ec. injection Ec as <-.
  apply join_children_V. destruct (tchildren t) as [c|] eqn:C; [apply (Hch c eq_refl E) | constructor].
Qed.

Lemma core_rule_f name st st' : Forall f_inv (c_tokens st) -> core_rule cfg rf cf lt name st = Ok st' -> Forall f_inv (c_tokens st').
Proof.
  unfold core_rule. intros H E.
  destruct (str_eqb name n_normalize); [rfinish E; exact H|].
  destruct (str_eqb name n_block).
  { destruct (c_inlineMode st).
    - rfinish E. cbn [c_tokens]. apply Forall_app. split; [exact H|]. constructor; [|constructor].
      split; [intros F; vm_compute in F; discriminate F|]. intros ch Ec _. cbn in Ec. injection Ec as <-. constructor.
    - destruct (block_parse (p_block cfg) rf cf (c_src st) (c_env st) (c_tokens st)) as [b|?|] eqn:BP; cbn [bind] in E; try discriminate E.
      rfinish E. cbn [c_tokens]. destruct (block_parse_kinds _ _ _ CS _ _ _ _ BP) as (seg & Tk & F). rewrite Tk.
      apply Forall_app. split; [exact H|]. eapply Forall_impl; [|exact F].
      intros t (n & _ & P). eapply P_rule_f; exact P. }
  destruct (str_eqb name n_inline).
  { destruct (inline_all cfg rf cf lt (c_tokens st) (c_env st)) as [ts|?|] eqn:IA; cbn [bind] in E; try discriminate E.
    rfinish E. cbn [c_tokens]. eapply inline_all_f; eassumption. }
  destruct (str_eqb name n_linkify); [destruct (p_linkify cfg); [discriminate E | rfinish E; exact H]|].
  destruct (str_eqb name n_replacements).
  { rfinish E. cbn [c_tokens]. eapply erase_list_f; [apply replacements_shape | exact H]. }
  destruct (str_eqb name n_smartquotes).
  { rfinish E. cbn [c_tokens]. eapply erase_list_f; [apply smartquotes_shape | exact H]. }
  destruct (str_eqb name n_text_join).
  { rfinish E. cbn [c_tokens]. apply text_join_f, H. }
  rfinish E. exact H.
Qed.

Lemma core_process_f : forall names st st', Forall f_inv (c_tokens st) -> core_process cfg rf cf lt names st = Ok st' -> Forall f_inv (c_tokens st').
Proof.
  induction names as [|n rest IH]; intros st st' H E; cbn [core_process] in E; [rfinish E; exact H|].
  destruct (core_rule cfg rf cf lt n st) as [s1|?|] eqn:CR; cbn [bind] in E; try discriminate E.
  eapply IH; [eapply core_rule_f; eassumption | exact E].
Qed.

(* what parse / parseInline return is fine for the renderer *)
Theorem parse_renderable src env ts env' : parse cfg rf cf lt src env = Ok (ts, env') -> Forall fence_ok_top ts.
Proof.
  unfold parse. intros E.
  destruct (core_process cfg rf cf lt (p_core cfg) (mkC src env [] false)) as [st|?|] eqn:CP; cbn [bind] in E; try discriminate E.
  rfinish E. apply core_process_f in CP; [|constructor]. eapply Forall_impl; [|exact CP]. intros t. apply f_inv_top.
Qed.
Theorem parse_inline_renderable src env ts env' : parse_inline cfg rf cf lt src env = Ok (ts, env') -> Forall fence_ok_top ts.
Proof.
  unfold parse_inline. intros E.
  destruct (core_process cfg rf cf lt (p_core cfg) (mkC src env [] true)) as [st|?|] eqn:CP; cbn [bind] in E; try discriminate E.
  rfinish E. apply core_process_f in CP; [|constructor]. eapply Forall_impl; [|exact CP]. intros t. apply f_inv_top.
Qed.

(* ---- render / renderInline never raise ---- *)
Context (TNO : term_names_ok (p_block cfg)) (PA : mem_str nm_paragraph (c_rules (p_block cfg)) = true).
Context (NL1 : ic_linkify (p_inline cfg) = false) (NL2 : p_linkify cfg = false).
Context (ORD : order_ok (ic_rules2 (p_inline cfg)) = true).

Theorem render_md_no_raise src env : forall e, render_md cfg rf cf lt src env <> Raise e.
Proof.
  intros e. unfold render_md.
  destruct (parse cfg rf cf lt src env) as [[ts env']|e'|] eqn:P; cbn [bind]; [| |discriminate].
  - destruct (render_total' (p_render cfg) ts None (parse_renderable _ _ _ _ P)) as [[cs ts'] R].
    unfold render. rewrite R. cbn [bind]. discriminate.
  - exfalso. exact (parse_no_raise cfg rf cf lt TNO PA NL1 NL2 ORD src env e' P).
Qed.

Theorem render_inline_md_no_raise src env : forall e, render_inline_md cfg rf cf lt src env <> Raise e.
Proof.
  intros e. unfold render_inline_md.
  destruct (parse_inline cfg rf cf lt src env) as [[ts env']|e'|] eqn:P; cbn [bind]; [| |discriminate].
  - destruct (render_total' (p_render cfg) ts None (parse_inline_renderable _ _ _ _ P)) as [[cs ts'] R].
    unfold render. rewrite R. cbn [bind]. discriminate.
  - exfalso. exact (parse_inline_no_raise cfg rf cf lt TNO PA NL1 NL2 ORD src env e' P).
Qed.

End Whole.
