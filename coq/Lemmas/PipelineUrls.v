(* C05 / C16, end to end on the model: for EVERY source, every env whose recorded destinations
   are validated normalizeLink results, every configuration and every value of the opaque
   dependencies: (1) parse leaves env extended only (first definition wins, later ones are
   duplicates, every recorded destination validated); (2) every href / src attribute on every token
   of the result and on every child of an inline token is empty or a normalizeLink result that
   validateLink accepted -- hence, by the URL theorems, URL-safe ASCII only. *)
From RecordUpdate Require Import RecordUpdate.
From MD Require Import Base.Py Base.Str Base.Regex Base.Opt Model.Token Model.Utils Model.StateBlock Model.Helpers
     Model.Url Model.Render Model.Core Model.Block Model.Inline Model.Pipeline
     Lemmas.StrLemmas Lemmas.BlockLemmas Lemmas.CoreLemmas Lemmas.UrlLemmas Lemmas.BlockWF Lemmas.BlockKinds Lemmas.EnvLemmas
     Lemmas.InlineKinds Lemmas.InlineUrls.

Local Arguments Z.eqb : simpl never.
Local Arguments str_eqb : simpl never.

Section Urls.
Context (cfg : pcfg) (rf cf lt : str -> str).
Context (CS : chains_sub (p_block cfg)).

Notation Wt := (W rf).

(* a token is fine if its own URL attributes are good and, when it is of type inline, its children's are *)
Definition url_inv (t : token) : Prop :=
  Wt t /\ forall ch, tchildren t = Some ch -> str_eqb (ttype t) s_inline = true -> Forall Wt ch.

(* block tokens carry no href / src at all and have no children yet *)
Lemma P_rule_url n t : P_rule (p_block cfg) n t -> url_inv t.
Proof.
  unfold P_rule.
  repeat match goal with |- (if ?c then _ else _) -> _ => destruct c end;
    unfold P_table, P_code, P_fence, P_blockquote, P_hr, P_list, P_reference, P_html, P_heading, P_paragraph;
    intros H.
  all: try contradiction.
  all: try (match goal with H : c_html _ = true /\ _ |- _ => destruct H as [_ H] end).
  all: repeat match goal with H : _ \/ _ |- _ => destruct H as [H|H] end.
  all: try (match goal with H : exists _, _ |- _ => destruct H as (l & Hl & [H|H]) end).
  all: destruct H as (_ & _ & C & N & _ & N3); split;
       [ split; [ intros k v I K; exfalso; exact (N k v I K)
                | unfold named_attrs; eapply Forall_impl; [|exact N3]; intros kv [E|E]; rewrite E; cbn; tauto ]
       | intros ch E _; destruct C as [C|C]; rewrite C in E; [discriminate E | injection E as <-; constructor] ].
Qed.

Lemma inline_all_url : forall tokens env r,
  env_good rf env -> Forall url_inv tokens -> inline_all cfg rf cf lt tokens env = Ok r -> Forall url_inv r.
Proof.
  induction tokens as [|t rest IH]; intros env r HE H E; cbn [inline_all] in E; [rfinish E; constructor|].
  inversion H as [|? ? Ht Hr]; subst.
  match type of E with bind ?m _ = _ => destruct m as [t'|?|] eqn:E1 end; cbn [bind] in E; try discriminate E.
  destruct (inline_all cfg rf cf lt rest env) as [rest'|?|] eqn:E2; cbn [bind] in E; try discriminate E.
  rfinish E. constructor; [|eapply IH; eassumption].
  destruct (str_eqb (ttype t) s_inline) eqn:TI; [|rfinish E1; exact Ht].
  match type of E1 with bind ?m _ = _ => destruct m as [ch|?|] eqn:IP end; cbn [bind] in E1; try discriminate E1.
  rfinish E1. destruct Ht as [Hok Hch].
  apply inline_parse_urls in IP; [| |exact HE].
  - split; [eapply W_attrs; [|exact Hok]; reflexivity|]. intros ch' E' _. cbn in E'. injection E' as <-. exact IP.
  - destruct (tchildren t) as [l|] eqn:TC; [apply (Hch l eq_refl TI) | constructor].
Qed.

(* erasing text contents does not touch attributes *)
Lemma erase_text_attrs a b : erase_text a = erase_text b -> tattrs a = tattrs b.
Proof.
  unfold erase_text. intros H.
  destruct (str_eqb (ttype a) s_text), (str_eqb (ttype b) s_text); apply (f_equal tattrs) in H; exact H.
Qed.

Lemma erase_map_W : forall l l', map erase_text l' = map erase_text l -> Forall Wt l -> Forall Wt l'.
Proof.
  induction l as [|x l IH]; intros [|y l'] E H; try discriminate E; [constructor|].
  cbn [map] in E. injection E as E1 E2. inversion H; subst.
  constructor; [|apply IH; assumption]. eapply W_attrs; [apply erase_text_attrs; exact E1 | assumption].
Qed.

Lemma erase_inline_url t t' : erase_inline t' = erase_inline t -> url_inv t -> url_inv t'.
Proof.
  unfold erase_inline. intros E [Hok Hch].
  destruct (tchildren t) as [ch|] eqn:C, (tchildren t') as [ch'|] eqn:C'.
  - pose proof (f_equal (fun x => (ttype x, tattrs x, tchildren x)) E) as E3. cbn in E3. injection E3 as T1 T2 T3.
    split; [eapply W_attrs; [exact T2 | exact Hok]|].
    intros c Ec Ei. rewrite C' in Ec. injection Ec as <-. rewrite T1 in Ei. eapply erase_map_W; [exact T3 | apply (Hch ch eq_refl Ei)].
  - pose proof (f_equal tchildren E) as E3. cbn in E3. rewrite C' in E3. discriminate E3.
  - pose proof (f_equal tchildren E) as E3. cbn in E3. rewrite C in E3. discriminate E3.
  - subst t'. split; [exact Hok|]. intros c Ec. rewrite C in Ec. discriminate Ec.
Qed.

Lemma erase_list_url : forall l l', map erase_inline l' = map erase_inline l -> Forall url_inv l -> Forall url_inv l'.
Proof.
  induction l as [|x l IH]; intros [|y l'] E H; try discriminate E; [constructor|].
  cbn [map] in E. injection E as E1 E2. inversion H; subst.
  constructor; [eapply erase_inline_url; eassumption | apply IH; assumption].
Qed.

Lemma join_tok_W t : Wt t -> Wt (join_tok t).
Proof. apply W_attrs. destruct t; reflexivity. Qed.

Lemma join_push_W acc t : Forall Wt acc -> Wt t -> Forall Wt (join_push acc t).
Proof.
  intros Ha Ht. unfold join_push. destruct acc as [|p acc']; [constructor; [exact Ht | constructor]|].
  inversion Ha; subst.
  destruct (str_eqb (ttype t) s_text && str_eqb (ttype p) s_text).
  - constructor; [|assumption]. eapply W_attrs; [|eassumption]; reflexivity.
  - constructor; [exact Ht | exact Ha].
Qed.

Lemma join_children_W l : Forall Wt l -> Forall Wt (join_children l).
Proof.
  unfold join_children. intros H. apply Forall_rev.
  assert (G : forall l acc, Forall Wt l -> Forall Wt acc ->
              Forall Wt (fold_left (fun acc y => join_push acc (join_tok y)) l acc)).
  { induction l0 as [|y l0 IH]; intros acc Hl Ha; cbn [fold_left]; [exact Ha|].
    inversion Hl; subst. apply IH; [assumption|]. apply join_push_W; [exact Ha | apply join_tok_W; assumption]. }
  apply G; [exact H | constructor].
Qed.

Lemma text_join_url l : Forall url_inv l -> Forall url_inv (text_join l).
Proof.
  unfold text_join. intros H. apply Forall_map. eapply Forall_impl; [|exact H].
  intros t HT. destruct (str_eqb (ttype t) s_inline) eqn:E; [|exact HT]. destruct HT as [Hok Hch].
  split; [eapply W_attrs; [|exact Hok]; reflexivity|]. intros ch Ec _. cbn in Ec. injection Ec as <-.
  apply join_children_W. destruct (tchildren t) as [c|] eqn:C; [apply (Hch c eq_refl E) | constructor].
Qed.

(* the invariant of the core chain *)
Definition core_inv (st : cstate) : Prop := Forall url_inv (c_tokens st) /\ env_good rf (c_env st).

Lemma env_ext_good e e' : env_ext rf e e' -> env_good rf e -> env_good rf e'.
Proof.
  intros (a & d & R & _ & G & _ & _) H. unfold env_good in *. rewrite R. apply Forall_app. split; assumption.
Qed.

Lemma core_rule_url name st st' : core_inv st -> core_rule cfg rf cf lt name st = Ok st' -> core_inv st'.
Proof.
  unfold core_rule. intros [H HE] E.
  destruct (str_eqb name n_normalize); [rfinish E; split; assumption|].
  destruct (str_eqb name n_block).
  { destruct (c_inlineMode st).
    - rfinish E. split; [|exact HE]. cbn [c_tokens]. apply Forall_app. split; [exact H|]. constructor; [|constructor].
      split; [apply W_nil; reflexivity|]. intros ch Ec _. cbn in Ec. injection Ec as <-. constructor.
    - destruct (block_parse (p_block cfg) rf cf (c_src st) (c_env st) (c_tokens st)) as [b|?|] eqn:BP; cbn [bind] in E; try discriminate E.
      rfinish E. split.
      + cbn [c_tokens]. destruct (block_parse_kinds _ _ _ CS _ _ _ _ BP) as (seg & Tk & F). rewrite Tk.
        apply Forall_app. split; [exact H|]. eapply Forall_impl; [|exact F].
        intros t (n & _ & P). eapply P_rule_url; exact P.
      + cbn [c_env]. eapply env_ext_good; [eapply block_parse_env; exact BP | exact HE]. }
  destruct (str_eqb name n_inline).
  { destruct (inline_all cfg rf cf lt (c_tokens st) (c_env st)) as [ts|?|] eqn:IA; cbn [bind] in E; try discriminate E.
    rfinish E. split; [|exact HE]. cbn [c_tokens]. eapply inline_all_url; eassumption. }
  destruct (str_eqb name n_linkify); [destruct (p_linkify cfg); [discriminate E | rfinish E; split; assumption]|].
  destruct (str_eqb name n_replacements).
  { rfinish E. split; [|exact HE]. cbn [c_tokens]. eapply erase_list_url; [apply replacements_shape | exact H]. }
  destruct (str_eqb name n_smartquotes).
  { rfinish E. split; [|exact HE]. cbn [c_tokens]. eapply erase_list_url; [apply smartquotes_shape | exact H]. }
  destruct (str_eqb name n_text_join).
  { rfinish E. split; [|exact HE]. cbn [c_tokens]. apply text_join_url, H. }
  rfinish E. split; assumption.
Qed.

Lemma core_process_url : forall names st st', core_inv st -> core_process cfg rf cf lt names st = Ok st' -> core_inv st'.
Proof.
  induction names as [|n rest IH]; intros st st' H E; cbn [core_process] in E; [rfinish E; exact H|].
  destruct (core_rule cfg rf cf lt n st) as [s1|?|] eqn:CR; cbn [bind] in E; try discriminate E.
  eapply IH; [eapply core_rule_url; eassumption | exact E].
Qed.

(* parse: URLs on tokens and children are good; the env it returns is good again *)
Theorem parse_urls_good src env ts env' :
  env_good rf env -> parse cfg rf cf lt src env = Ok (ts, env') -> Forall url_inv ts /\ env_good rf env'.
Proof.
  unfold parse. intros HE E.
  destruct (core_process cfg rf cf lt (p_core cfg) (mkC src env [] false)) as [st|?|] eqn:CP; cbn [bind] in E; try discriminate E.
  rfinish E. apply core_process_url in CP; [exact CP | split; [constructor | exact HE]].
Qed.

Theorem parse_inline_urls_good src env ts env' :
  env_good rf env -> parse_inline cfg rf cf lt src env = Ok (ts, env') -> Forall url_inv ts /\ env_good rf env'.
Proof.
  unfold parse_inline. intros HE E.
  destruct (core_process cfg rf cf lt (p_core cfg) (mkC src env [] true)) as [st|?|] eqn:CP; cbn [bind] in E; try discriminate E.
  rfinish E. apply core_process_url in CP; [exact CP | split; [constructor | exact HE]].
Qed.

(* what "good" buys: every character of an emitted URL is URL-safe ASCII *)
Theorem good_url_chars (RF : forall s, Forall code_point (rf s)) v : gurl rf v -> forallb url_char v = true.
Proof.
  intros [-> | (raw & -> & _)]; [reflexivity|]. unfold normalize_link. apply encode_alphabet, RF.
Qed.

(* C04: the attribute names of every token of the result, and of every child of an inline token, come
   from the fixed vocabulary [attr_names] - no input can introduce an attribute *)
Definition names_inv (t : token) : Prop :=
  named_attrs t /\ forall ch, tchildren t = Some ch -> str_eqb (ttype t) s_inline = true -> Forall named_attrs ch.

Lemma url_inv_names t : url_inv t -> names_inv t.
Proof.
  intros [[_ N] C]. split; [exact N|]. intros ch E I. eapply Forall_impl; [|exact (C ch E I)]. intros x [_ Nx]. exact Nx.
Qed.

Theorem parse_attr_names src env ts env' :
  env_good rf env -> parse cfg rf cf lt src env = Ok (ts, env') -> Forall names_inv ts.
Proof. intros HE E. eapply Forall_impl; [|exact (proj1 (parse_urls_good src env ts env' HE E))]. exact url_inv_names. Qed.

Theorem parse_inline_attr_names src env ts env' :
  env_good rf env -> parse_inline cfg rf cf lt src env = Ok (ts, env') -> Forall names_inv ts.
Proof. intros HE E. eapply Forall_impl; [|exact (proj1 (parse_inline_urls_good src env ts env' HE E))]. exact url_inv_names. Qed.

End Urls.

(* C16: the env half for a whole parse, any core chain: env only grows *)
Lemma core_rule_env cfg rf cf lt name st st' :
  core_rule cfg rf cf lt name st = Ok st' -> env_ext rf (c_env st) (c_env st').
Proof.
  unfold core_rule. intros E.
  destruct (str_eqb name n_normalize); [rfinish E; apply env_ext_refl|].
  destruct (str_eqb name n_block).
  { destruct (c_inlineMode st); [rfinish E; apply env_ext_refl|].
    destruct (block_parse (p_block cfg) rf cf (c_src st) (c_env st) (c_tokens st)) as [b|?|] eqn:BP; cbn [bind] in E; try discriminate E.
    rfinish E. cbn [c_env]. eapply block_parse_env; exact BP. }
  destruct (str_eqb name n_inline).
  { destruct (inline_all cfg rf cf lt (c_tokens st) (c_env st)) as [ts|?|]; cbn [bind] in E; try discriminate E. rfinish E. apply env_ext_refl. }
  destruct (str_eqb name n_linkify); [destruct (p_linkify cfg); [discriminate E | rfinish E; apply env_ext_refl]|].
  destruct (str_eqb name n_replacements); [rfinish E; apply env_ext_refl|].
  destruct (str_eqb name n_smartquotes); [rfinish E; apply env_ext_refl|].
  destruct (str_eqb name n_text_join); [rfinish E; apply env_ext_refl|].
  rfinish E. apply env_ext_refl.
Qed.

Theorem parse_env_extends cfg rf cf lt src env ts env' :
  parse cfg rf cf lt src env = Ok (ts, env') -> env_ext rf env env'.
Proof.
  unfold parse. intros E.
  destruct (core_process cfg rf cf lt (p_core cfg) (mkC src env [] false)) as [st|?|] eqn:CP; cbn [bind] in E; try discriminate E.
  rfinish E.
  assert (G : forall names s s', core_process cfg rf cf lt names s = Ok s' -> env_ext rf (c_env s) (c_env s')).
  { induction names as [|n rest IH]; intros s s' H; cbn [core_process] in H; [rfinish H; apply env_ext_refl|].
    destruct (core_rule cfg rf cf lt n s) as [s1|?|] eqn:CR; cbn [bind] in H; try discriminate H.
    eapply env_ext_trans; [eapply core_rule_env; exact CR | eapply IH; exact H]. }
  exact (G _ _ _ CP).
Qed.

(* ---- the hypotheses are satisfiable, and the conclusions say something: a concrete run ---- *)

From MD Require Import Lemmas.PipelineSafe.

(* "[a](/u?x=é) ![i][r] <http://h.x/p>\n\n[r]: /img.png 't'\n\n[r]: /dup\n" : an inline link, an image through a reference, an
   autolink, a definition and a duplicate of it *)
Definition ex_src2 : str :=
  [91; 97; 93; 40; 47; 117; 63; 120; 61; 233; 41; 32; 33; 91; 105; 93; 91; 114; 93; 32; 60; 104; 116; 116; 112; 58; 47; 47; 104; 46; 120; 47; 112; 62; 10; 10; 91; 114; 93; 58; 32; 47; 105; 109; 103; 46; 112; 110; 103; 32; 39; 116; 39; 10; 10; 91; 114; 93; 58; 32; 47; 100; 117; 112; 10].

Example urls_theorem_applies :
  env_good (fun s => s) env0
  /\ exists ts e, parse ex_cfg (fun s => s) (fun s => s) (fun s => s) ex_src2 env0 = Ok (ts, e)
                  /\ env_refs e <> [] /\ env_dups e <> [] /\ 3 <= len ts.
Proof.
  split; [constructor|]. eexists. eexists. split; [vm_compute; reflexivity|]. split; [vm_compute; intros X; discriminate X|]. split; [vm_compute; intros X; discriminate X | vm_compute; intros X; discriminate X].
Qed.
