(* C17, encoding half: the three line-ending encodings (and any per-line mixture)
   and NUL / U+FFFD normalise to the same string, which contains no CR and no NUL. *)
From MD Require Import Base.Py Base.Str Model.Token Model.Utils Model.Render Model.Core.

Local Arguments Z.eqb : simpl never.
Definition CR : Z := 13.
Definition NUL : Z := 0.
Definition FFFD : Z := 65533.

Definition starts_lf (s : str) : bool := match s with d :: _ => d =? 10 | [] => false end.

(* a re-encoding of the line ends of a CR-free string: every LF is spelled, as the
   choice list says, LF (0), CR LF (1) or a lone CR (2); choices are consumed in
   order.  A lone CR directly followed by an LF of the text would read as one
   CR LF pair, so the encoder writes CR LF there. *)
Fixpoint reencode (choice : list Z) (s : str) : str :=
  match s with
  | [] => []
  | c :: s' =>
      if c =? 10 then
        match choice with
        | [] => 10 :: reencode [] s'
        | k :: ch =>
            if k =? 1 then 13 :: 10 :: reencode ch s'
            else if (k =? 2) && negb (starts_lf s') then 13 :: reencode ch s'
            else if k =? 2 then 13 :: 10 :: reencode ch s'
            else 10 :: reencode ch s'
        end
      else c :: reencode choice s'
  end.

Definition no_cr (s : str) : Prop := mem_z CR s = false.

Lemma normalize_plain c s : c <> 13 -> c <> 0 -> normalize (c :: s) = c :: normalize s.
Proof.
  intros H1 H2. simpl. rewrite (proj2 (Z.eqb_neq c 13) H1), (proj2 (Z.eqb_neq c 0) H2). reflexivity.
Qed.

Lemma normalize_cr_lf s : normalize (13 :: 10 :: s) = 10 :: normalize s.
Proof. reflexivity. Qed.

Lemma normalize_cr_other s : starts_lf s = false -> normalize (13 :: s) = 10 :: normalize s.
Proof.
  intros H. destruct s as [|d s]; [reflexivity|]. simpl in *. change (13 =? 13) with true. cbn iota.
  rewrite H. reflexivity.
Qed.

Lemma normalize_nul_cons s : normalize (0 :: s) = 65533 :: normalize s.
Proof. reflexivity. Qed.

Lemma reencode_other ch c s : c <> 10 -> reencode ch (c :: s) = c :: reencode ch s.
Proof. intros H. simpl. rewrite (proj2 (Z.eqb_neq c 10) H). reflexivity. Qed.

Lemma starts_lf_reencode ch s : starts_lf s = false -> starts_lf (reencode ch s) = false.
Proof.
  destruct s as [|c s]; intros H; [reflexivity|]. simpl in H.
  rewrite reencode_other by (apply Z.eqb_neq; exact H). simpl. exact H.
Qed.

(* every re-encoding of the line ends normalises to the same string as the LF form *)
Theorem normalize_reencode s : no_cr s -> forall choice, normalize (reencode choice s) = normalize s.
Proof.
  unfold no_cr, mem_z, CR. induction s as [|c s IH]; intros H choice; [reflexivity|].
  cbn [existsb] in H. apply Bool.orb_false_iff in H. destruct H as [Hc Hs].
  apply Z.eqb_neq in Hc. assert (Hc' : c <> 13) by congruence.
  destruct (Z.eq_dec c 10) as [->|N10].
  - rewrite (normalize_plain 10 s) by lia. cbn [reencode]. change (10 =? 10) with true. cbn iota.
    destruct choice as [|k ch].
    + rewrite normalize_plain by lia. rewrite IH; auto.
    + destruct (k =? 1).
      { rewrite normalize_cr_lf, IH; auto. }
      destruct (k =? 2); cbn [andb].
      * destruct (starts_lf s) eqn:SL; cbn [negb].
        { rewrite normalize_cr_lf, IH; auto. }
        { rewrite normalize_cr_other; [rewrite IH; auto|]. apply starts_lf_reencode; assumption. }
      * rewrite normalize_plain by lia. rewrite IH; auto.
  - rewrite reencode_other by assumption.
    destruct (Z.eq_dec c 0) as [->|N0].
    + rewrite !normalize_nul_cons, IH; auto.
    + rewrite !normalize_plain by assumption. rewrite IH; auto.
Qed.

(* a NUL behaves exactly like U+FFFD *)
Definition nul_to_fffd (s : str) : str := map (fun c => if c =? 0 then FFFD else c) s.

Lemma starts_lf_nul s : starts_lf (nul_to_fffd s) = starts_lf s.
Proof.
  destruct s as [|d s]; [reflexivity|]. unfold nul_to_fffd, FFFD. simpl.
  destruct (Z.eqb_spec d 0) as [->|N]; reflexivity.
Qed.

Theorem normalize_nul s : normalize (nul_to_fffd s) = normalize s.
Proof.
  assert (G : forall n s, (length s <= n)%nat -> normalize (nul_to_fffd s) = normalize s).
  { induction n as [|n IH]; intros t Hn; [destruct t; [reflexivity | simpl in Hn; lia]|].
    destruct t as [|c t]; [reflexivity|].
    change (nul_to_fffd (c :: t)) with ((if c =? 0 then FFFD else c) :: nul_to_fffd t).
    destruct (Z.eq_dec c 0) as [->|N0].
    { change (0 =? 0) with true. cbn iota. unfold FFFD. rewrite normalize_plain by lia.
      rewrite normalize_nul_cons. f_equal. apply IH. simpl in Hn. lia. }
    rewrite (proj2 (Z.eqb_neq c 0) N0).
    destruct (Z.eq_dec c 13) as [->|N13].
    - destruct (starts_lf t) eqn:SL.
      + destruct t as [|d t]; [discriminate|]. simpl in SL. apply Z.eqb_eq in SL. subst d.
        change (nul_to_fffd (10 :: t)) with (10 :: nul_to_fffd t).
        rewrite !normalize_cr_lf. f_equal. apply IH. simpl in Hn. lia.
      + rewrite !normalize_cr_other; [|exact SL|rewrite starts_lf_nul; exact SL].
        f_equal. apply IH. simpl in Hn. lia.
    - rewrite !normalize_plain by assumption. f_equal. apply IH. simpl in Hn. lia. }
  apply (G (length s)). lia.
Qed.

(* no CR and no NUL ever leaves normalize *)
Theorem normalize_clean s : mem_z CR (normalize s) = false /\ mem_z NUL (normalize s) = false.
Proof.
  unfold mem_z, CR, NUL.
  assert (G : forall n s, (length s <= n)%nat ->
              existsb (Z.eqb 13) (normalize s) = false /\ existsb (Z.eqb 0) (normalize s) = false).
  { induction n as [|n IH]; intros t Hn; [destruct t; [split; reflexivity | simpl in Hn; lia]|].
    destruct t as [|c t]; [split; reflexivity|].
    destruct (Z.eq_dec c 0) as [->|N0].
    { rewrite normalize_nul_cons. cbn [existsb]. change (13 =? 65533) with false. change (0 =? 65533) with false.
      apply IH. simpl in Hn. lia. }
    destruct (Z.eq_dec c 13) as [->|N13].
    - destruct (starts_lf t) eqn:SL.
      + destruct t as [|d t]; [discriminate|]. simpl in SL. apply Z.eqb_eq in SL. subst d.
        rewrite normalize_cr_lf. cbn [existsb]. change (13 =? 10) with false. change (0 =? 10) with false.
        apply IH. simpl in Hn. lia.
      + rewrite normalize_cr_other by exact SL. cbn [existsb]. change (13 =? 10) with false. change (0 =? 10) with false.
        apply IH. simpl in Hn. lia.
    - rewrite normalize_plain by assumption. cbn [existsb].
      rewrite (proj2 (Z.eqb_neq 13 c)) by congruence. rewrite (proj2 (Z.eqb_neq 0 c)) by congruence.
      apply IH. simpl in Hn. lia. }
  apply (G (length s)). lia.
Qed.

(* normalize is the identity on text that has no CR and no NUL (so it is idempotent) *)
Theorem normalize_id s : mem_z CR s = false -> mem_z NUL s = false -> normalize s = s.
Proof.
  unfold mem_z, CR, NUL. induction s as [|c s IH]; intros H1 H2; [reflexivity|]. cbn [existsb] in H1, H2.
  apply Bool.orb_false_iff in H1. apply Bool.orb_false_iff in H2. destruct H1 as [A1 B1], H2 as [A2 B2].
  apply Z.eqb_neq in A1. apply Z.eqb_neq in A2.
  rewrite normalize_plain by congruence. f_equal. apply IH; assumption.
Qed.

Theorem normalize_idempotent s : normalize (normalize s) = normalize s.
Proof. destruct (normalize_clean s) as [A B]. apply normalize_id; assumption. Qed.

(* the canonical encodings as instances *)
Definition crlf (s : str) : str := flat_map (fun c => if c =? 10 then [13; 10] else [c]) s.

Lemma crlf_is_reencode s : crlf s = reencode (map (fun _ => 1) s) s.
Proof.
  unfold crlf.
  assert (G : forall s k, (length s <= length k)%nat -> Forall (fun x => x = 1) k ->
              flat_map (fun c => if c =? 10 then [13; 10] else [c]) s = reencode k s).
  { induction s0 as [|c t IH]; intros k Hk Hf; [reflexivity|]. cbn [flat_map reencode].
    destruct (Z.eqb_spec c 10).
    - destruct k as [|x k]; [simpl in Hk; lia|]. inversion Hf; subst. change (1 =? 1) with true. cbn iota.
      simpl. f_equal. f_equal. apply IH; [simpl in Hk; lia | assumption].
    - simpl. f_equal. apply IH; [simpl in Hk; lia | assumption]. }
  apply G; [rewrite map_length; lia|]. apply Forall_forall. intros x Hx. apply in_map_iff in Hx.
  destruct Hx as [y [<- _]]. reflexivity.
Qed.

Theorem normalize_crlf s : no_cr s -> normalize (crlf s) = normalize s.
Proof. intros H. rewrite crlf_is_reencode. apply normalize_reencode, H. Qed.

(* lone CR as line end: LF -> CR wherever the next character is not itself an LF *)
Theorem normalize_cr_only s : no_cr s -> normalize (reencode (map (fun _ => 2) s) s) = normalize s.
Proof. intros H. apply normalize_reencode, H. Qed.
