(* C09, inline level: backslash-escaping makes any text literal.  For EVERY text made of plain runs
   (characters the text rule does not stop at) and ASCII punctuation characters, the source in which
   every punctuation character is preceded by a backslash is tokenized into text / text_special
   tokens whose concatenated content is exactly the text, whatever other inline rules are enabled
   after the escape rule; and renderInline of that source is escapeHtml of the text. *)
From RecordUpdate Require Import RecordUpdate.
From MD Require Import Base.Py Base.Str Base.Regex Base.Opt Model.Token Model.Utils Model.StateBlock Model.Helpers
     Model.Url Model.Render Model.Core Model.Inline Lemmas.StrLemmas Lemmas.StrLemmas2 Lemmas.BlockWF.
From MD Require Import Gen.Regexes Gen.Tables.
From Coq Require Import ZifyBool.

Local Arguments Z.eqb : simpl never.
Local Arguments Z.ltb : simpl never.
Local Arguments Z.leb : simpl never.
Local Arguments str_eqb : simpl never.

(* ---- the shape of the input ---- *)

Inductive seg := SPlain (r : str) | SEsc (c : Z).

Definition plain_char (c : Z) : Prop := mem_z c text_terminators = false.
Definition esc_char (c : Z) : Prop := mem_z c escaped_table = true.

Definition seg_src (s : seg) : str := match s with SPlain r => r | SEsc c => [92; c] end.
Definition seg_text (s : seg) : str := match s with SPlain r => r | SEsc c => [c] end.
Definition src_of (l : list seg) : str := concat (map seg_src l).
Definition text_of (l : list seg) : str := concat (map seg_text l).

(* plain runs are non-empty, made of plain characters, and never adjacent (a run ends at a backslash or at the end) *)
Fixpoint wf (l : list seg) : Prop :=
  match l with
  | [] => True
  | SPlain r :: rest => r <> [] /\ Forall plain_char r /\ (match rest with SPlain _ :: _ => False | _ => True end) /\ wf rest
  | SEsc c :: rest => esc_char c /\ wf rest
  end.

(* ---- find_terminator on a plain run ---- *)

Lemma find_terminator_run : forall r rest pos, Forall plain_char r ->
  find_terminator (r ++ rest) pos = find_terminator rest (pos + len r).
Proof.
  induction r as [|c r IH]; intros rest pos H; cbn [app].
  - unfold len. cbn. rewrite Z.add_0_r. reflexivity.
  - inversion H as [|? ? Hc Hr]; subst. cbn [find_terminator]. unfold plain_char in Hc. rewrite Hc.
    rewrite IH by exact Hr. rewrite len_cons. f_equal. lia.
Qed.

Lemma esc_not_lf c : esc_char c -> c <> 10.
Proof. unfold esc_char. intros H E. subst c. vm_compute in H. discriminate H. Qed.

Lemma esc_src_starts (l : list seg) : wf l ->
  src_of l = [] \/ (exists c rest, src_of l = c :: rest /\ (mem_z c text_terminators = true \/ exists r l', l = SPlain r :: l')).
Proof.
  destruct l as [|[r|c] l]; intros H; [left; reflexivity| |].
  - right. destruct H as (Hne & _). destruct r as [|x r]; [contradiction Hne; reflexivity|].
    exists x, (r ++ src_of l). split; [reflexivity|]. right. eexists _, _. reflexivity.
  - right. exists 92, (c :: src_of l). split; [reflexivity | left; reflexivity].
Qed.

Section Esc.
Context (cfg : icfg) (rf cf lt : str -> str) (F : ifuncs).

(* the rules tried before the escape rule are among text / linkify / newline, text is one of them, linkify is off *)
Context (pre post : list str).
Context (HR : ic_rules cfg = pre ++ n_escape :: post).
Context (Hpre : Forall (fun n => n = n_text \/ n = n_linkify \/ n = n_newline) pre).
Context (Htext : In n_text pre).
Context (Hlink : ic_linkify cfg = false).
Context (Hnest : 0 < ic_maxNesting cfg).

(* a state positioned inside src = before ++ after *)
Definition at_pos (st : istate) (before after : str) : Prop :=
  i_src st = before ++ after /\ i_pos st = len before /\ i_posMax st = len (before ++ after) /\ i_level st = 0.

(* ---- a plain run: the text rule takes all of it ---- *)

Lemma r_text_run st before r rest :
  at_pos st before (r ++ rest) -> r <> [] -> Forall plain_char r ->
  (rest = [] \/ exists c rest', rest = c :: rest' /\ mem_z c text_terminators = true) ->
  r_text st false = Ok (true, st <| i_pending := i_pending st ++ r |> <| i_pos := len before + len r |>).
Proof.
  intros (Hs & Hp & Hm & _) Hne Hr Hrest. unfold r_text.
  assert (SK : skipn (Z.to_nat (i_pos st)) (i_src st) = r ++ rest).
  { rewrite Hs, Hp. unfold len. rewrite Nat2Z.id. apply skipn_app_len. }
  rewrite SK, find_terminator_run by exact Hr.
  assert (Hl : 0 < len r) by (destruct r; [contradiction Hne; reflexivity | rewrite len_cons; pose proof (len_nonneg r); lia]).
  assert (P : match find_terminator rest (i_pos st + len r) with Some p => p | None => i_posMax st end = len before + len r).
  { destruct Hrest as [-> | (c & rest' & -> & Hc)].
    - cbn [find_terminator]. rewrite Hm, !len_app. unfold len at 3. cbn. lia.
    - cbn [find_terminator]. rewrite Hc. rewrite Hp. reflexivity. }
  rewrite P. assert (E : (len before + len r =? i_pos st) = false) by lia. rewrite E.
  rewrite Hs, Hp. rewrite slice_app_mid. reflexivity.
Qed.

(* ---- an escape pair: the escape rule takes both characters ---- *)

Definition esc_tok (c : Z) (lvl : Z) : token :=
  set_info (set_markup (set_content (set_level (new_token s_text_special_ [] 0) lvl) [c]) [92; c]) s_escape.

(* what ipush does for a nesting-0 token *)
Lemma ipush0 st ty tag f :
  ipush st ty tag 0 f =
  Ok ((match i_pending st with [] => st | _ => push_pending st end)
        <| i_pendingLevel := i_level st |>
        <| i_tokens := i_tokens (match i_pending st with [] => st | _ => push_pending st end) ++ [f (set_level (new_token ty tag 0) (i_level st))] |>
        <| i_meta := i_meta st ++ [None] |>).
Proof. unfold ipush. destruct (i_pending st); reflexivity. Qed.

Lemma r_escape_pair st before c rest :
  at_pos st before (92 :: c :: rest) -> esc_char c ->
  exists st', r_escape st false = Ok (true, st')
    /\ st' = ((match i_pending st with [] => st | _ => push_pending st end)
                <| i_pendingLevel := i_level st |>
                <| i_tokens := i_tokens (match i_pending st with [] => st | _ => push_pending st end) ++ [esc_tok c (i_level st)] |>
                <| i_meta := i_meta st ++ [None] |>) <| i_pos := len before + 1 + 1 |>.
Proof.
  intros (Hs & Hp & Hm & _) Hc. unfold r_escape.
  rewrite Hs, Hp, py_idx_app. cbn [bind]. change (negb (92 =? 92)) with false. cbv iota.
  pose proof (len_nonneg before). pose proof (len_nonneg rest).
  assert (E1 : (i_posMax st <=? len before + 1) = false) by (rewrite Hm, len_app, !len_cons; lia). rewrite E1.
  rewrite py_idx_app2. cbn [bind].
  assert (E2 : (c =? 10) = false) by (pose proof (esc_not_lf c Hc); lia). rewrite E2.
  unfold esc_char in Hc. rewrite Hc. rewrite ipush0. cbn [bind].
  eexists. split; [reflexivity|]. reflexivity.
Qed.

(* ---- rules that do not match ---- *)

Lemma r_text_at_terminator st before c rest :
  at_pos st before (c :: rest) -> mem_z c text_terminators = true -> r_text st false = Ok (false, st).
Proof.
  intros (Hs & Hp & _) Hc. unfold r_text.
  assert (SK : skipn (Z.to_nat (i_pos st)) (i_src st) = c :: rest).
  { rewrite Hs, Hp. unfold len. rewrite Nat2Z.id. apply skipn_app_len. }
  rewrite SK. cbn [find_terminator]. rewrite Hc. rewrite Z.eqb_refl. reflexivity.
Qed.

Lemma r_linkify_off st : r_linkify cfg st false = Ok (false, st).
Proof. unfold r_linkify. rewrite Hlink. reflexivity. Qed.

Lemma r_newline_other st before c rest :
  at_pos st before (c :: rest) -> c <> 10 -> r_newline st false = Ok (false, st).
Proof.
  intros (Hs & Hp & _) Hc. unfold r_newline. rewrite Hs, Hp, py_idx_app. cbn [bind].
  assert (E : (c =? 10) = false) by lia. rewrite E. reflexivity.
Qed.

(* ---- dispatch ---- *)

Lemma iapply_text st s : iapply cfg rf cf lt F n_text st s = r_text st s. Proof. reflexivity. Qed.
Lemma iapply_linkify st s : iapply cfg rf cf lt F n_linkify st s = r_linkify cfg st s. Proof. reflexivity. Qed.
Lemma iapply_newline st s : iapply cfg rf cf lt F n_newline st s = r_newline st s. Proof. reflexivity. Qed.
Lemma iapply_escape st s : iapply cfg rf cf lt F n_escape st s = r_escape st s. Proof. reflexivity. Qed.

(* a plain run at the cursor: some rule of [pre] (the text rule at the latest) takes it *)
Lemma first_rule_run st before r rest :
  at_pos st before (r ++ rest) -> r <> [] -> Forall plain_char r ->
  (rest = [] \/ exists c rest', rest = c :: rest' /\ mem_z c text_terminators = true) ->
  first_rule cfg rf cf lt F (ic_rules cfg) st false false
  = Ok (true, st <| i_pending := i_pending st ++ r |> <| i_pos := len before + len r |>).
Proof.
  intros HA Hne Hr Hrest. rewrite HR.
  assert (G : forall l, Forall (fun n => n = n_text \/ n = n_linkify \/ n = n_newline) l -> In n_text l ->
              first_rule cfg rf cf lt F (l ++ n_escape :: post) st false false
              = Ok (true, st <| i_pending := i_pending st ++ r |> <| i_pos := len before + len r |>)).
  { induction l as [|n l IH]; intros Hl Hin; [contradiction Hin|].
    inversion Hl as [|? ? Hn Hl']; subst. cbn [app first_rule]. cbv iota.
    destruct Hn as [-> | [-> | ->]].
    - rewrite iapply_text, (r_text_run st before r rest HA Hne Hr Hrest). reflexivity.
    - rewrite iapply_linkify, r_linkify_off. cbn [bind]. cbv iota. apply IH; [exact Hl'|].
      destruct Hin as [E|Hin]; [discriminate E | exact Hin].
    - destruct r as [|x r]; [contradiction Hne; reflexivity|]. inversion Hr as [|? ? Hx _]; subst.
      rewrite iapply_newline, (r_newline_other st before x (r ++ rest) HA).
      + cbn [bind]. cbv iota. apply IH; [exact Hl'|]. destruct Hin as [E|Hin]; [discriminate E | exact Hin].
      + intros ->. unfold plain_char in Hx. vm_compute in Hx. discriminate Hx. }
  apply G; assumption.
Qed.

(* a backslash pair at the cursor: the rules of [pre] pass, the escape rule takes it *)
Lemma first_rule_esc st before c rest :
  at_pos st before (92 :: c :: rest) -> esc_char c ->
  exists st', first_rule cfg rf cf lt F (ic_rules cfg) st false false = Ok (true, st')
    /\ st' = ((match i_pending st with [] => st | _ => push_pending st end)
                <| i_pendingLevel := i_level st |>
                <| i_tokens := i_tokens (match i_pending st with [] => st | _ => push_pending st end) ++ [esc_tok c (i_level st)] |>
                <| i_meta := i_meta st ++ [None] |>) <| i_pos := len before + 1 + 1 |>.
Proof.
  intros HA Hc. rewrite HR.
  destruct (r_escape_pair st before c rest HA Hc) as (st' & E & Hst').
  exists st'. split; [|exact Hst'].
  assert (G : forall l, Forall (fun n => n = n_text \/ n = n_linkify \/ n = n_newline) l ->
              first_rule cfg rf cf lt F (l ++ n_escape :: post) st false false = Ok (true, st')).
  { induction l as [|n l IH]; intros Hl; cbn [app first_rule]; cbv iota.
    - rewrite iapply_escape, E. reflexivity.
    - inversion Hl as [|? ? Hn Hl']; subst. destruct Hn as [-> | [-> | ->]].
      + rewrite iapply_text, (r_text_at_terminator st before 92 (c :: rest) HA eq_refl). cbn [bind]. cbv iota. apply IH; exact Hl'.
      + rewrite iapply_linkify, r_linkify_off. cbn [bind]. cbv iota. apply IH; exact Hl'.
      + rewrite iapply_newline, (r_newline_other st before 92 (c :: rest) HA ltac:(discriminate)). cbn [bind]. cbv iota. apply IH; exact Hl'. }
  apply G. exact Hpre.
Qed.

(* ---- the tokenizer loop ---- *)

Definition contents (ts : list token) : str := concat (map tcontent ts).
Definition flat (st : istate) : str := contents (i_tokens st) ++ i_pending st.
Definition textlike (t : token) : Prop := (ttype t = s_text \/ ttype t = s_text_special_) /\ tnesting t = 0.
Definition inv (st : istate) : Prop :=
  Forall textlike (i_tokens st) /\ Forall (eq None) (i_meta st) /\ i_dstore st = [[]] /\ i_cur st = O.

Arguments contents : simpl never.

Lemma contents_app a b : contents (a ++ b) = contents a ++ contents b.
Proof. unfold contents. rewrite map_app, concat_app. reflexivity. Qed.

Lemma src_empty : forall l, wf l -> src_of l = [] -> l = [].
Proof.
  intros [|[r|c] l] H E; [reflexivity| |].
  - destruct H as (Hne & _). destruct r; [contradiction Hne; reflexivity | discriminate E].
  - discriminate E.
Qed.

Lemma wf_len : forall l, wf l -> (length l <= length (src_of l))%nat.
Proof.
  induction l as [|[r|c] l IH]; intros H; [cbn; lia| |].
  - destruct H as (Hne & _ & _ & Hw). specialize (IH Hw). unfold src_of in *. cbn [map concat seg_src length].
    rewrite app_length. destruct r; [contradiction Hne; reflexivity | cbn [length]; lia].
  - destruct H as (_ & Hw). specialize (IH Hw). unfold src_of in *. cbn [map concat seg_src length app]. lia.
Qed.

Lemma flush_flat st : flat (match i_pending st with [] => st | _ => push_pending st end) = flat st
  /\ i_pending (match i_pending st with [] => st | _ => push_pending st end) = []
  /\ (inv st -> inv (match i_pending st with [] => st | _ => push_pending st end)).
Proof.
  destruct (i_pending st) as [|x p] eqn:E.
  - split; [reflexivity | split; [exact E | exact (fun H => H)]].
  - split; [|split].
    + unfold flat, push_pending. cbn. rewrite contents_app. unfold contents at 2. cbn. rewrite E, !app_nil_r. reflexivity.
    + reflexivity.
    + intros (A & B & C & D). unfold inv, push_pending. cbn. repeat split; try assumption.
      apply Forall_app. split; [exact A|]. constructor; [|constructor]. split; [left; reflexivity | reflexivity].
Qed.

Lemma tok_while_esc : forall segs fuel st before ok,
  wf segs -> at_pos st before (src_of segs) -> inv st -> (length segs < fuel)%nat ->
  exists st', tok_while cfg rf cf lt fuel F st (i_posMax st) ok = Ok st'
              /\ flat st' = flat st ++ text_of segs /\ inv st' /\ i_level st' = 0.
Proof.
  induction segs as [|sg rest IH]; intros fuel st before ok Hwf HA HI Hf.
  - destruct fuel as [|f]; [lia|]. cbn [tok_while]. destruct HA as (Hs & Hp & Hm & Hl).
    assert (E : negb (i_pos st <? i_posMax st) = true) by (rewrite Hp, Hm; unfold src_of; cbn; rewrite app_nil_r; lia).
    rewrite E. exists st. unfold text_of. cbn. rewrite app_nil_r. split; [reflexivity | split; [reflexivity | split; [exact HI | exact Hl]]].
  - destruct fuel as [|f]; [cbn in Hf; lia|]. cbn [tok_while].
    pose proof HA as (Hs & Hp & Hm & Hl).
    assert (Hnest' : (i_level st <? ic_maxNesting cfg) = true) by lia.
    destruct sg as [r|c].
    + (* a plain run *)
      destruct Hwf as (Hne & Hr & Hadj & Hwf').
      change (src_of (SPlain r :: rest)) with (r ++ src_of rest) in *.
      assert (Hl0 : 0 < len r) by (destruct r; [contradiction Hne; reflexivity | rewrite len_cons; pose proof (len_nonneg r); lia]).
      assert (Hnext : src_of rest = [] \/ exists c rest', src_of rest = c :: rest' /\ mem_z c text_terminators = true).
      { destruct (esc_src_starts rest Hwf') as [E | (c & rest' & E & [T | (r2 & l2 & ->)])]; [left; exact E | right; eauto | contradiction Hadj]. }
      assert (E : negb (i_pos st <? i_posMax st) = false) by (rewrite Hp, Hm, !len_app; pose proof (len_nonneg (src_of rest)); lia).
      rewrite E, Hnest'. rewrite (first_rule_run st before r (src_of rest) HA Hne Hr Hnext). cbn [bind]. cbv iota.
      set (st1 := st <| i_pending := i_pending st ++ r |> <| i_pos := len before + len r |>).
      assert (HA1 : at_pos st1 (before ++ r) (src_of rest)).
      { unfold at_pos, st1. cbn. rewrite <- app_assoc, len_app. repeat split; try assumption; try reflexivity. }
      assert (HI1 : inv st1) by exact HI.
      assert (F1 : flat st1 = flat st ++ r) by (unfold flat, st1; cbn; rewrite app_assoc; reflexivity).
      change (i_posMax st) with (i_posMax st1).
      destruct (i_posMax st1 <=? i_pos st1) eqn:EE.
      * (* the run reaches the end *)
        assert (Es : src_of rest = []).
        { destruct Hnext as [X | (c & rest' & X & _)]; [exact X|]. exfalso.
          unfold st1 in EE. cbn in EE. rewrite Hm, X, !len_app, len_cons in EE. pose proof (len_nonneg rest'). lia. }
        apply (src_empty rest Hwf') in Es. subst rest. exists st1.
        unfold text_of. cbn. rewrite app_nil_r. split; [reflexivity | split; [exact F1 | split; [exact HI1 | exact Hl]]].
      * destruct (IH f st1 (before ++ r) true Hwf' HA1 HI1 ltac:(cbn in Hf; lia)) as (st' & T & Fl & I' & L').
        exists st'. split; [exact T|]. split; [|split; assumption].
        rewrite Fl, F1. unfold text_of. cbn [map concat seg_text]. rewrite app_assoc. reflexivity.
    + (* an escape pair *)
      destruct Hwf as (Hc & Hwf').
      change (src_of (SEsc c :: rest)) with (92 :: c :: src_of rest) in *.
      assert (E : negb (i_pos st <? i_posMax st) = false) by (rewrite Hp, Hm, len_app, !len_cons; pose proof (len_nonneg (src_of rest)); lia).
      rewrite E, Hnest'.
      destruct (first_rule_esc st before c (src_of rest) HA Hc) as (st1 & FR & Hst1). rewrite FR. cbn [bind]. cbv iota.
      destruct (flush_flat st) as (FF & FP & FI).
      assert (HA1 : at_pos st1 (before ++ [92; c]) (src_of rest)).
      { subst st1. unfold at_pos. cbn. rewrite len_app. replace (len [92; c]) with 2 by reflexivity.
        destruct (i_pending st); cbn; rewrite <- app_assoc; cbn [app]; repeat split; try assumption; try lia;
          rewrite Hm, len_app, !len_app, !len_cons; cbn; lia. }
      assert (HI1 : inv st1).
      { subst st1. specialize (FI HI). destruct FI as (A & B & C & D). destruct HI as (_ & B0 & _ & _). unfold inv. cbn.
        repeat split.
        - apply Forall_app. split; [exact A|]. constructor; [|constructor]. split; [right; reflexivity | reflexivity].
        - apply Forall_app. split; [exact B0 | constructor; [reflexivity | constructor]].
        - destruct (i_pending st); exact C.
        - destruct (i_pending st); exact D. }
      assert (F1 : flat st1 = flat st ++ [c]).
      { subst st1. rewrite <- FF. unfold flat at 1. cbn [i_tokens i_pending].
        match goal with |- context [i_pending (?X <| i_pos := _ |>)] => change (i_pending (X <| i_pos := len before + 1 + 1 |>)) with (i_pending (match i_pending st with [] => st | _ => push_pending st end)) end.
        match goal with |- context [i_tokens (?X <| i_pos := _ |>)] =>
          change (i_tokens (X <| i_pos := len before + 1 + 1 |>)) with (i_tokens (match i_pending st with [] => st | _ => push_pending st end) ++ [esc_tok c (i_level st)]) end.
        rewrite contents_app. unfold flat. rewrite FP, !app_nil_r. reflexivity. }
      assert (PM : i_posMax st1 = i_posMax st) by (subst st1; destruct (i_pending st); reflexivity).
      rewrite <- PM.
      destruct (i_posMax st1 <=? i_pos st1) eqn:EE.
      * assert (Es : src_of rest = []).
        { destruct (src_of rest) as [|x xs] eqn:X; [reflexivity|]. exfalso.
          destruct HA1 as (_ & P1 & M1 & _). rewrite P1, M1, len_app, len_cons in EE. pose proof (len_nonneg xs). lia. }
        apply (src_empty rest Hwf') in Es. subst rest. exists st1.
        unfold text_of. cbn. destruct HA1 as (_ & _ & _ & L1). split; [reflexivity | split; [exact F1 | split; [exact HI1 | exact L1]]].
      * destruct (IH f st1 (before ++ [92; c]) true Hwf' HA1 HI1 ltac:(cbn in Hf; lia)) as (st' & T & Fl & I' & L').
        exists st'. split; [exact T|]. split; [|split; assumption].
        rewrite Fl, F1. unfold text_of. cbn [map concat seg_text]. rewrite <- app_assoc. reflexivity.
Qed.

(* ---- post-processing on a stream without delimiters ---- *)

Lemma contents_cons t ts : contents (t :: ts) = tcontent t ++ contents ts.
Proof. reflexivity. Qed.

Lemma fj_contents_carry : forall ts lvl carry, ts <> [] ->
  contents (fj ts lvl carry) = (match carry with Some c => c | None => [] end) ++ contents ts.
Proof.
  induction ts as [|t rest IH]; intros lvl carry Hne; [contradiction Hne; reflexivity|]. cbn [fj].
  destruct rest as [|n rest'].
  - rewrite !contents_cons. destruct carry; cbn; rewrite ?app_nil_r; reflexivity.
  - destruct (str_eqb (ttype t) s_text && str_eqb (ttype n) s_text).
    + rewrite IH by discriminate. rewrite (contents_cons t). destruct carry; cbn; rewrite ?app_assoc; reflexivity.
    + rewrite contents_cons, IH by discriminate. rewrite (contents_cons t (n :: rest')). destruct carry; cbn; rewrite ?app_assoc; reflexivity.
Qed.

Lemma fj_contents : forall ts lvl, contents (fj ts lvl None) = contents ts.
Proof. intros [|t ts] lvl; [reflexivity|]. apply (fj_contents_carry (t :: ts) lvl None). discriminate. Qed.

Lemma fj_textlike : forall ts lvl carry, Forall textlike ts -> Forall textlike (fj ts lvl carry).
Proof.
  induction ts as [|t rest IH]; intros lvl carry H; [constructor|].
  inversion H as [|? ? Ht Hr]; subst. cbn [fj].
  assert (V1 : textlike (set_level (match carry with Some c => set_content t (c ++ tcontent t) | None => t end)
                                   (if tnesting t <? 0 then lvl - 1 else lvl))) by (destruct carry; exact Ht).
  destruct rest as [|n rest'].
  - constructor; [exact V1 | constructor].
  - destruct (str_eqb (ttype t) s_text && str_eqb (ttype n) s_text); [apply IH; exact Hr|].
    constructor; [exact V1 | apply IH; exact Hr].
Qed.

Definition inv2 (st : istate) : Prop :=
  Forall textlike (i_tokens st) /\ Forall (eq None) (i_meta st) /\ i_dstore st = [[]] /\ i_cur st = O.

Lemma each_meta_none (f : istate -> nat -> res istate) : forall metas st, Forall (eq None) metas -> each_meta f metas st = Ok st.
Proof. induction metas as [|m metas IH]; intros st H; [reflexivity|]. inversion H; subst. cbn [each_meta]. apply IH. assumption. Qed.

Lemma iapply2_esc name st : inv2 st ->
  exists st', iapply2 name st = Ok st' /\ inv2 st' /\ contents (i_tokens st') = contents (i_tokens st).
Proof.
  intros (A & B & C & D). unfold iapply2.
  destruct (str_eqb name n_balance_pairs).
  { unfold r2_balance_pairs, on_all_delims. rewrite D, C. cbn [nth process_delimiters bind upd_nth_l].
    rewrite each_meta_none by exact B. eexists. split; [reflexivity|]. split; [|reflexivity].
    unfold inv2. cbn. repeat split; assumption. }
  destruct (str_eqb name n_strikethrough).
  { unfold r2_strikethrough, on_all_delims. rewrite D, C. cbn [nth]. unfold strike_post. cbn [length st_pass1].
    change (negb (0 <? len (@nil delim))) with true. cbv iota. cbn [bind rev st_pass2].
    rewrite each_meta_none by exact B. eexists. split; [reflexivity|]. split; [|reflexivity].
    unfold inv2. cbn. repeat split; assumption. }
  destruct (str_eqb name n_emphasis).
  { unfold r2_emphasis, on_all_delims. rewrite D, C. cbn [nth length em_pass].
    change (len (@nil delim) - 1 <? 0) with true. cbv iota. cbn [bind].
    rewrite each_meta_none by exact B. eexists. split; [reflexivity|]. split; [|reflexivity].
    unfold inv2. cbn. repeat split; assumption. }
  destruct (str_eqb name n_fragments_join).
  { unfold r2_fragments_join. eexists. split; [reflexivity|]. split; [|cbn; apply fj_contents].
    unfold inv2. cbn. repeat split; try assumption. apply fj_textlike, A. }
  exists st. split; [reflexivity|]. split; [repeat split; assumption | reflexivity].
Qed.

Lemma run_rules2_esc : forall names st, inv2 st ->
  exists st', run_rules2 names st = Ok st' /\ inv2 st' /\ contents (i_tokens st') = contents (i_tokens st).
Proof.
  induction names as [|n rest IH]; intros st H; cbn [run_rules2]; [exists st; repeat split; try reflexivity; apply H|].
  destruct (iapply2_esc n st H) as (s1 & E1 & I1 & C1). rewrite E1. cbn [bind].
  destruct (IH s1 I1) as (s2 & E2 & I2 & C2). exists s2. split; [exact E2|]. split; [exact I2 | congruence].
Qed.

(* ---- ParserInline.parse on an escaped text ---- *)

Theorem inline_parse_esc_with segs env :
  wf segs ->
  exists toks, inline_parse_with cfg rf cf lt F (src_of segs) env [] = Ok toks
               /\ contents toks = text_of segs /\ Forall textlike toks.
Proof.
  intros Hwf. unfold inline_parse_with, inline_tokenize.
  set (st0 := istate_init (src_of segs) env []).
  assert (HA : at_pos st0 [] (src_of segs)) by (unfold at_pos, st0, istate_init; cbn; repeat split; reflexivity).
  assert (HI : inv st0) by (unfold inv, st0, istate_init; cbn; repeat split; constructor).
  destruct (tok_while_esc segs (S (S (length (i_src st0)))) st0 [] false Hwf HA HI) as (st1 & T & Fl & I1 & L1).
  { unfold st0, istate_init. cbn [i_src]. pose proof (wf_len segs Hwf). lia. }
  rewrite T. cbn [bind].
  destruct (flush_flat st1) as (FF & FP & FI). specialize (FI I1).
  set (st2 := match i_pending st1 with [] => st1 | _ => push_pending st1 end) in *.
  destruct (run_rules2_esc (ic_rules2 cfg) st2 FI) as (st3 & R & I3 & C3). rewrite R. cbn [bind].
  exists (i_tokens st3). split; [reflexivity|]. split; [|apply I3].
  rewrite C3.
  assert (E2 : contents (i_tokens st2) = flat st2) by (unfold flat; rewrite FP, app_nil_r; reflexivity).
  rewrite E2, FF, Fl. unfold flat, st0, istate_init. cbn. reflexivity.
Qed.

End Esc.

(* ---- text_join and the renderer on a text-like stream ---- *)

From MD Require Import Model.Pipeline Lemmas.NormalizeLemmas.

Lemma contents_cons' t ts : contents (t :: ts) = tcontent t ++ contents ts.
Proof. reflexivity. Qed.

Lemma join_tok_textlike t : textlike t -> ttype (join_tok t) = s_text /\ tcontent (join_tok t) = tcontent t.
Proof.
  intros [[E|E] _]; destruct t; cbn in *; rewrite E; split; reflexivity.
Qed.

(* the accumulator is empty or a single text token *)
Lemma join_fold_textlike : forall ts acc,
  Forall textlike ts -> (acc = [] \/ exists p, acc = [p] /\ ttype p = s_text) ->
  let r := fold_left (fun acc y => join_push acc (join_tok y)) ts acc in
  (r = [] /\ ts = [] /\ acc = []) \/ (exists p, r = [p] /\ ttype p = s_text /\ tcontent p = contents acc ++ contents ts).
Proof.
  induction ts as [|t ts IH]; intros acc H Ha; cbn [fold_left].
  - destruct Ha as [-> | (p & -> & Hp)]; [left; repeat split | right; exists p; repeat split; [exact Hp | unfold contents; cbn; rewrite !app_nil_r; reflexivity]].
  - inversion H as [|? ? Ht Hr]; subst. destruct (join_tok_textlike t Ht) as [JT JC].
    assert (Ha' : exists p, join_push acc (join_tok t) = [p] /\ ttype p = s_text /\ tcontent p = contents acc ++ tcontent t).
    { destruct Ha as [-> | (p & -> & Hp)]; unfold join_push.
      - exists (join_tok t). repeat split; [exact JT | rewrite JC; reflexivity].
      - rewrite JT, Hp. change (str_eqb s_text s_text) with true. cbn [andb].
        eexists. split; [reflexivity|]. split; [exact Hp|]. cbn. rewrite JC. unfold contents. cbn. rewrite app_nil_r. reflexivity. }
    destruct Ha' as (p & E & Hp & Cp). rewrite E.
    destruct (IH [p] Hr (or_intror (ex_intro _ p (conj eq_refl Hp)))) as [(_ & _ & X) | (q & Eq & Hq & Cq)]; [discriminate X|].
    right. exists q. repeat split; [exact Eq | exact Hq|].
    rewrite Cq. rewrite (contents_cons' t ts). replace (contents [p]) with (tcontent p) by (unfold contents; cbn; rewrite app_nil_r; reflexivity).
    rewrite Cp, app_assoc. reflexivity.
Qed.

Lemma join_children_textlike ts : Forall textlike ts ->
  (ts = [] /\ join_children ts = []) \/ (exists p, join_children ts = [p] /\ ttype p = s_text /\ tcontent p = contents ts).
Proof.
  intros H. unfold join_children.
  destruct (join_fold_textlike ts [] H (or_introl eq_refl)) as [(R & T & _) | (p & R & Hp & Cp)]; cbv zeta in *.
  - left. split; [exact T | rewrite R; reflexivity].
  - right. exists p. rewrite R. repeat split; [exact Hp | exact Cp].
Qed.

Lemma render_text_token o prev t next : ttype t = s_text -> render_one o prev t next = Ok ([CEsc (tcontent t)], t).
Proof. intros E. unfold render_one. rewrite E. reflexivity. Qed.

Section EndToEnd.
Context (cfg : pcfg) (rf cf lt : str -> str).
Context (pre post : list str).
Context (HR : ic_rules (p_inline cfg) = pre ++ n_escape :: post).
Context (Hpre : Forall (fun n => n = n_text \/ n = n_linkify \/ n = n_newline) pre).
Context (Htext : In n_text pre).
Context (Hlink : ic_linkify (p_inline cfg) = false).
Context (Hnest : 0 < ic_maxNesting (p_inline cfg)).
Context (Hcore : p_core cfg = [n_normalize; n_block; n_inline; n_text_join]).

Lemma cr_normalize st : core_rule cfg rf cf lt n_normalize st = Ok (mkC (normalize (c_src st)) (c_env st) (c_tokens st) (c_inlineMode st)).
Proof. reflexivity. Qed.
Lemma cr_block_inline src env toks :
  core_rule cfg rf cf lt n_block (mkC src env toks true)
  = Ok (mkC src env (toks ++ [set_children (set_map (set_content (new_token s_inline [] 0) src) (Some (0, 1))) (Some [])]) true).
Proof. reflexivity. Qed.
Lemma cr_inline st : core_rule cfg rf cf lt n_inline st
  = (do ts <- inline_all cfg rf cf lt (c_tokens st) (c_env st); Ok (mkC (c_src st) (c_env st) ts (c_inlineMode st))).
Proof. reflexivity. Qed.
Lemma cr_text_join st : core_rule cfg rf cf lt n_text_join st = Ok (mkC (c_src st) (c_env st) (text_join (c_tokens st)) (c_inlineMode st)).
Proof. reflexivity. Qed.

(* renderInline(esc(t)) = escapeHtml(t) *)
Theorem render_inline_esc segs env :
  wf segs -> mem_z CR (src_of segs) = false -> mem_z NUL (src_of segs) = false ->
  render_inline_md cfg rf cf lt (src_of segs) env = Ok (escape_html (text_of segs), env).
Proof.
  intros Hwf H13 H0. unfold render_inline_md, parse_inline. rewrite Hcore.
  cbn [core_process]. rewrite cr_normalize. cbn [bind c_src c_env c_tokens c_inlineMode].
  rewrite (normalize_id _ H13 H0). rewrite cr_block_inline. cbn [bind app].
  rewrite cr_inline. cbn [c_tokens c_env c_src c_inlineMode inline_all].
  set (inl := set_children (set_map (set_content (new_token s_inline [] 0) (src_of segs)) (Some (0, 1))) (Some [])).
  change (str_eqb (ttype inl) s_inline) with true. cbv iota.
  change (tcontent inl) with (src_of segs). change (tchildren inl) with (Some (@nil token)). cbv iota.
  unfold inline_parse.
  destruct (inline_parse_esc_with (p_inline cfg) rf cf lt (ifs (p_inline cfg) rf cf lt (inline_depth (p_inline cfg))) pre post HR Hpre Htext Hlink Hnest segs env Hwf)
    as (toks & IP & CT & TL).
  rewrite IP. cbn [bind]. rewrite cr_text_join. cbn [bind c_tokens c_env c_src c_inlineMode text_join map].
  change (str_eqb (ttype (set_children inl (Some toks))) s_inline) with true. cbv iota.
  change (tchildren (set_children inl (Some toks))) with (Some toks). cbv iota.
  unfold render. cbn [render_list].
  match goal with |- context [str_eqb (ttype ?t) s_inline] => change (str_eqb (ttype t) s_inline) with true end. cbv iota.
  match goal with |- context [tchildren (set_children ?t (Some ?c))] => change (tchildren (set_children t (Some c))) with (Some c) end.
  destruct (join_children_textlike toks TL) as [(-> & ->) | (p & -> & Hp & Cp)].
  - cbn [bind html_of flat_map app]. unfold contents in CT. cbn in CT. rewrite <- CT. reflexivity.
  - cbn [render_inline_list hd_error]. rewrite (render_text_token _ _ p None Hp). cbn [bind render_inline_list app html_of flat_map chunk_html].
    rewrite app_nil_r, Cp, CT. reflexivity.
Qed.

End EndToEnd.

(* ---- the theorem applies: a concrete configuration and text ---- *)

From MD Require Import Lemmas.PipelineSafe.

(* t = "ab*c d<&_"  escaped as  "ab\*c d\<\&\_" *)
Definition ex_segs : list seg := [SPlain [97; 98]; SEsc 42; SPlain [99; 32; 100]; SEsc 60; SEsc 38; SEsc 95].

Example render_inline_esc_applies :
  wf ex_segs
  /\ render_inline_md ex_cfg (fun s => s) (fun s => s) (fun s => s) (src_of ex_segs) env0
     = Ok ([97; 98; 42; 99; 32; 100; 38; 108; 116; 59; 38; 97; 109; 112; 59; 95], env0).
Proof.
  assert (W : wf ex_segs).
  { cbn. repeat split; try discriminate; try (repeat constructor; reflexivity). }
  split; [exact W|].
  rewrite (render_inline_esc ex_cfg (fun s => s) (fun s => s) (fun s => s) [n_text; n_newline] [n_backticks; n_emphasis; n_link; n_image; n_autolink; n_html_inline; n_entity]);
    try reflexivity; try exact W.
  all: try (left; reflexivity).
  all: try (constructor; [left; reflexivity|]; constructor; [right; right; reflexivity | constructor]).
  all: try (cbn; lia).
Qed.
