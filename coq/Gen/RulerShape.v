(* GENERATED from /repo by harness/gen.py on every run -- do not edit. *)
From MD Require Import Base.Py.

(* accesses to self.__cache__: 0 load, 1 store, 2 call self.__compile__ *)
Definition compile_shape : list Z := [1].
Definition getRules_shape : list Z := [0; 2; 0; 0].
