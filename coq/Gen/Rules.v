(* GENERATED from /repo by harness/gen.py on every run -- do not edit. *)
From MD Require Import Base.Py.

(* (name, alt) in registration order; the function id of a rule is its index *)
Definition core_registry : list (str * list str) := [
  ([110; 111; 114; 109; 97; 108; 105; 122; 101], []) (* normalize = normalize *);
  ([98; 108; 111; 99; 107], []) (* block = block *);
  ([105; 110; 108; 105; 110; 101], []) (* inline = inline *);
  ([108; 105; 110; 107; 105; 102; 121], []) (* linkify = linkify *);
  ([114; 101; 112; 108; 97; 99; 101; 109; 101; 110; 116; 115], []) (* replacements = replace *);
  ([115; 109; 97; 114; 116; 113; 117; 111; 116; 101; 115], []) (* smartquotes = smartquotes *);
  ([116; 101; 120; 116; 95; 106; 111; 105; 110], []) (* text_join = text_join *)
].

Definition block_registry : list (str * list str) := [
  ([116; 97; 98; 108; 101], [[112; 97; 114; 97; 103; 114; 97; 112; 104]; [114; 101; 102; 101; 114; 101; 110; 99; 101]]) (* table = rules_block.table *);
  ([99; 111; 100; 101], []) (* code = rules_block.code *);
  ([102; 101; 110; 99; 101], [[112; 97; 114; 97; 103; 114; 97; 112; 104]; [114; 101; 102; 101; 114; 101; 110; 99; 101]; [98; 108; 111; 99; 107; 113; 117; 111; 116; 101]; [108; 105; 115; 116]]) (* fence = rules_block.fence *);
  ([98; 108; 111; 99; 107; 113; 117; 111; 116; 101], [[112; 97; 114; 97; 103; 114; 97; 112; 104]; [114; 101; 102; 101; 114; 101; 110; 99; 101]; [98; 108; 111; 99; 107; 113; 117; 111; 116; 101]; [108; 105; 115; 116]]) (* blockquote = rules_block.blockquote *);
  ([104; 114], [[112; 97; 114; 97; 103; 114; 97; 112; 104]; [114; 101; 102; 101; 114; 101; 110; 99; 101]; [98; 108; 111; 99; 107; 113; 117; 111; 116; 101]; [108; 105; 115; 116]]) (* hr = rules_block.hr *);
  ([108; 105; 115; 116], [[112; 97; 114; 97; 103; 114; 97; 112; 104]; [114; 101; 102; 101; 114; 101; 110; 99; 101]; [98; 108; 111; 99; 107; 113; 117; 111; 116; 101]]) (* list = rules_block.list_block *);
  ([114; 101; 102; 101; 114; 101; 110; 99; 101], []) (* reference = rules_block.reference *);
  ([104; 116; 109; 108; 95; 98; 108; 111; 99; 107], [[112; 97; 114; 97; 103; 114; 97; 112; 104]; [114; 101; 102; 101; 114; 101; 110; 99; 101]; [98; 108; 111; 99; 107; 113; 117; 111; 116; 101]]) (* html_block = rules_block.html_block *);
  ([104; 101; 97; 100; 105; 110; 103], [[112; 97; 114; 97; 103; 114; 97; 112; 104]; [114; 101; 102; 101; 114; 101; 110; 99; 101]; [98; 108; 111; 99; 107; 113; 117; 111; 116; 101]]) (* heading = rules_block.heading *);
  ([108; 104; 101; 97; 100; 105; 110; 103], []) (* lheading = rules_block.lheading *);
  ([112; 97; 114; 97; 103; 114; 97; 112; 104], []) (* paragraph = rules_block.paragraph *)
].

Definition inline_registry : list (str * list str) := [
  ([116; 101; 120; 116], []) (* text = rules_inline.text *);
  ([108; 105; 110; 107; 105; 102; 121], []) (* linkify = rules_inline.linkify *);
  ([110; 101; 119; 108; 105; 110; 101], []) (* newline = rules_inline.newline *);
  ([101; 115; 99; 97; 112; 101], []) (* escape = rules_inline.escape *);
  ([98; 97; 99; 107; 116; 105; 99; 107; 115], []) (* backticks = rules_inline.backtick *);
  ([115; 116; 114; 105; 107; 101; 116; 104; 114; 111; 117; 103; 104], []) (* strikethrough = rules_inline.strikethrough.tokenize *);
  ([101; 109; 112; 104; 97; 115; 105; 115], []) (* emphasis = rules_inline.emphasis.tokenize *);
  ([108; 105; 110; 107], []) (* link = rules_inline.link *);
  ([105; 109; 97; 103; 101], []) (* image = rules_inline.image *);
  ([97; 117; 116; 111; 108; 105; 110; 107], []) (* autolink = rules_inline.autolink *);
  ([104; 116; 109; 108; 95; 105; 110; 108; 105; 110; 101], []) (* html_inline = rules_inline.html_inline *);
  ([101; 110; 116; 105; 116; 121], []) (* entity = rules_inline.entity *)
].

Definition inline2_registry : list (str * list str) := [
  ([98; 97; 108; 97; 110; 99; 101; 95; 112; 97; 105; 114; 115], []) (* balance_pairs = rules_inline.link_pairs *);
  ([115; 116; 114; 105; 107; 101; 116; 104; 114; 111; 117; 103; 104], []) (* strikethrough = rules_inline.strikethrough.postProcess *);
  ([101; 109; 112; 104; 97; 115; 105; 115], []) (* emphasis = rules_inline.emphasis.postProcess *);
  ([102; 114; 97; 103; 109; 101; 110; 116; 115; 95; 106; 111; 105; 110], []) (* fragments_join = rules_inline.fragments_join *)
].

