(* Model of markdown_it/tree.py: SyntaxTreeNode built from a token stream
   (_set_children_from_tokens), to_tokens, walk. *)
From MD Require Import Base.Py Base.Str Base.Opt Model.Token.

Inductive node :=
| NRoot (children : list node)
| NLeaf (t : token) (children : list node)          (* an unnested token; children from token.children *)
| NNest (op cl : token) (children : list node).     (* an _open/_close pair and what lies between *)

(* the inner while loop: pop tokens until the nesting counter returns to zero;
   returns the group (in order) and the remaining tokens *)
Fixpoint take_group (l : list token) (nesting : Z) (acc : list token) : option (list token * list token) :=
  if nesting =? 0 then Some (rev acc, l)
  else match l with
       | [] => None
       | t :: l' => take_group l' (nesting + tnesting t) (t :: acc)
       end.

Definition middle {A} (l : list A) : list A := removelast (tl l).

Fixpoint build_children (fuel : nat) (ts : list token) : res (list node) :=
  match fuel with
  | O => OutOfFuel
  | S fuel' =>
      match ts with
      | [] => Ok []
      | t :: rest =>
          if tnesting t =? 0 then
            do kids <- match tchildren t with
                       | Some (x :: l) => build_children fuel' (x :: l)
                       | _ => Ok []
                       end;
            do sibs <- build_children fuel' rest;
            Ok (NLeaf t kids :: sibs)
          else if negb (tnesting t =? 1) then Raise ValueError
          else
            match take_group rest 1 [t] with
            | None => Raise ValueError
            | Some (grp, rest') =>
                (* group has >= 2 tokens: nester tokens are the first and the last *)
                do kids <- build_children fuel' (middle grp);
                do sibs <- build_children fuel' rest';
                Ok (NNest t (last grp t) kids :: sibs)
            end
      end
  end.

Fixpoint tsize (t : token) : nat :=
  S (match tchildren t with
     | Some l => (fix go (l : list token) : nat := match l with [] => O | x :: l' => (tsize x + go l')%nat end) l
     | None => O
     end).
Definition tsize_list (l : list token) : nat := fold_right (fun t n => (tsize t + n)%nat) O l.

Definition build (ts : list token) : res node :=
  do kids <- build_children (S (tsize_list ts)) ts; Ok (NRoot kids).

Fixpoint to_tokens (n : node) : list token :=
  match n with
  | NRoot ch => (fix go (l : list node) : list token := match l with [] => [] | x :: l' => to_tokens x ++ go l' end) ch
  | NLeaf t _ => [t]
  | NNest op cl ch =>
      op :: (fix go (l : list node) : list token := match l with [] => [] | x :: l' => to_tokens x ++ go l' end) ch ++ [cl]
  end.

(* walk (depth first, self first): the token each visited node stands for *)
Fixpoint walk_tokens (n : node) : list token :=
  match n with
  | NRoot ch => (fix go (l : list node) : list token := match l with [] => [] | x :: l' => walk_tokens x ++ go l' end) ch
  | NLeaf t ch => t :: (fix go (l : list node) : list token := match l with [] => [] | x :: l' => walk_tokens x ++ go l' end) ch
  | NNest op _ ch => op :: (fix go (l : list node) : list token := match l with [] => [] | x :: l' => walk_tokens x ++ go l' end) ch
  end.

(* stream order of the same tokens: closers dropped, children of a token inserted after it *)
Fixpoint stream_walk (t : token) : list token :=
  if tnesting t =? -1 then []
  else t :: match tchildren t with
            | Some l => (fix go (l : list token) : list token := match l with [] => [] | x :: l' => stream_walk x ++ go l' end) l
            | None => []
            end.
Definition stream_walk_list (l : list token) : list token := flat_map stream_walk l.
