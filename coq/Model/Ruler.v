(* Model of markdown_it/ruler.py (class Ruler), method by method.
   The state left behind by a raising call is part of the model: every
   operation returns the new ruler together with [res out]. *)
From MD Require Import Base.Py.

Section Ruler.
Context {F : Type}.

Record rule := mkRule { rname : str; renabled : bool; rfn : F; ralt : list str }.

(* __cache__ : dict[str, list[fn]] | None.  Only ever read by key. *)
Record ruler := mkRuler { rules : list rule; cache : option (list (str * list F)) }.

Definition ruler_init : ruler := mkRuler [] None.

(* __find__: index of the first rule with that name *)
Fixpoint find_from (rs : list rule) (name : str) (i : nat) : option nat :=
  match rs with
  | [] => None
  | r :: rs' => if str_eqb (rname r) name then Some i else find_from rs' name (S i)
  end.
Definition find (rs : list rule) (name : str) : option nat := find_from rs name 0.

Fixpoint upd_nth (i : nat) (f : rule -> rule) (rs : list rule) : list rule :=
  match rs, i with
  | [], _ => []
  | r :: rs', O => f r :: rs'
  | r :: rs', S i' => r :: upd_nth i' f rs'
  end.

Fixpoint insert_at (i : nat) (x : rule) (rs : list rule) : list rule :=
  match i, rs with
  | O, _ => x :: rs
  | S i', r :: rs' => r :: insert_at i' x rs'
  | S _, [] => [x]
  end.

Definition set_enabled (v : bool) (r : rule) : rule :=
  mkRule (rname r) v (rfn r) (ralt r).

(* ---- __compile__ ----------------------------------------------------- *)

Definition in_chain (chain : str) (r : rule) : bool :=
  match chain with [] => true | _ => mem_str chain (ralt r) end.

Definition compile_chain (rs : list rule) (chain : str) : list F :=
  map rfn (filter (fun r => renabled r && in_chain chain r) rs).

Definition chains_of (rs : list rule) : list str :=
  [] :: flat_map (fun r => if renabled r then ralt r else []) rs.

Definition compile (rs : list rule) : list (str * list F) :=
  map (fun c => (c, compile_chain rs c)) (chains_of rs).

(* self.__cache__.get(chainName, []) or [] *)
Definition cache_get (c : list (str * list F)) (chain : str) : list F :=
  match alookup chain c with Some l => l | None => [] end.

(* ---- operations ------------------------------------------------------ *)

Inductive op :=
| OpAt (name : str) (fn : F) (alt : list str)
| OpBefore (ref name : str) (fn : F) (alt : list str)
| OpAfter (ref name : str) (fn : F) (alt : list str)
| OpPush (name : str) (fn : F) (alt : list str)
| OpEnable (names : list str) (ignoreInvalid : bool)
| OpEnableOnly (names : list str) (ignoreInvalid : bool)
| OpDisable (names : list str) (ignoreInvalid : bool)
| OpGetRules (chain : str)
| OpAll
| OpActive.

Inductive out := ONone | ONames (l : list str) | OFns (l : list F).

(* the for-loop of enable()/disable(): mutates rule by rule, raises in the middle *)
Fixpoint toggle_loop (v : bool) (names : list str) (ign : bool)
         (rs : list rule) (acc : list str) : list rule * res (list str) :=
  match names with
  | [] => (rs, Ok acc)
  | n :: ns =>
      match find rs n with
      | None => if ign then toggle_loop v ns ign rs acc else (rs, Raise KeyError)
      | Some i => toggle_loop v ns ign (upd_nth i (set_enabled v) rs) (acc ++ [n])
      end
  end.

(* enable()/disable() as in the tree: the cache is dropped before the loop,
   so a KeyError raised in the middle cannot leave a stale cache behind. *)
Definition toggle (v : bool) (names : list str) (ign : bool) (r : ruler)
  : ruler * res out :=
  let '(rs', o) := toggle_loop v names ign (rules r) [] in
  (mkRuler rs' None,
   match o with Ok l => Ok (ONames l) | Raise e => Raise e | OutOfFuel => OutOfFuel end).

Definition get_rules (r : ruler) (chain : str) : ruler * list F :=
  match cache r with
  | Some c => (r, cache_get c chain)
  | None => let c := compile (rules r) in (mkRuler (rules r) (Some c), cache_get c chain)
  end.

Definition all_names (r : ruler) : list str := map rname (rules r).
Definition active (r : ruler) : list rule := filter renabled (rules r).
Definition active_names (r : ruler) : list str := map rname (active r).

Definition step (r : ruler) (o : op) : ruler * res out :=
  match o with
  | OpAt name fn alt =>
      match find (rules r) name with
      | None => (r, Raise KeyError)
      | Some i => (mkRuler (upd_nth i (fun x => mkRule (rname x) (renabled x) fn alt) (rules r)) None,
                   Ok ONone)
      end
  | OpBefore ref name fn alt =>
      match find (rules r) ref with
      | None => (r, Raise KeyError)
      | Some i => (mkRuler (insert_at i (mkRule name true fn alt) (rules r)) None, Ok ONone)
      end
  | OpAfter ref name fn alt =>
      match find (rules r) ref with
      | None => (r, Raise KeyError)
      | Some i => (mkRuler (insert_at (S i) (mkRule name true fn alt) (rules r)) None, Ok ONone)
      end
  | OpPush name fn alt =>
      (mkRuler (rules r ++ [mkRule name true fn alt]) None, Ok ONone)
  | OpEnable names ign => toggle true names ign r
  | OpEnableOnly names ign =>
      toggle true names ign (mkRuler (map (set_enabled false) (rules r)) (cache r))
  | OpDisable names ign => toggle false names ign r
  | OpGetRules chain => let '(r', l) := get_rules r chain in (r', Ok (OFns l))
  | OpAll => (r, Ok (ONames (all_names r)))
  | OpActive => (r, Ok (ONames (active_names r)))
  end.

Definition run (ops : list op) (r : ruler) : ruler :=
  fold_left (fun r o => fst (step r o)) ops r.

(* trace of outputs, for the correspondence check *)
Fixpoint run_trace (ops : list op) (r : ruler) : list (res out) :=
  match ops with
  | [] => []
  | o :: ops' => let '(r', x) := step r o in x :: run_trace ops' r'
  end.

(* ---- the code as it was before the repair (F6), kept for the refutation -- *)

Definition toggle_legacy (v : bool) (names : list str) (ign : bool) (r : ruler)
  : ruler * res out :=
  let '(rs', o) := toggle_loop v names ign (rules r) [] in
  match o with
  | Ok l => (mkRuler rs' None, Ok (ONames l))
  | Raise e => (mkRuler rs' (cache r), Raise e)
  | OutOfFuel => (mkRuler rs' (cache r), OutOfFuel)
  end.

Definition step_legacy (r : ruler) (o : op) : ruler * res out :=
  match o with
  | OpEnable names ign => toggle_legacy true names ign r
  | OpEnableOnly names ign =>
      toggle_legacy true names ign (mkRuler (map (set_enabled false) (rules r)) (cache r))
  | OpDisable names ign => toggle_legacy false names ign r
  | _ => step r o
  end.

End Ruler.

Arguments rule : clear implicits.
Arguments ruler : clear implicits.
Arguments op : clear implicits.
Arguments out : clear implicits.
