(* Model of ParserCore.process and the four entry points of MarkdownIt:
   parse, render, parseInline, renderInline. *)
From RecordUpdate Require Import RecordUpdate.
From MD Require Import Base.Py Base.Str Base.Regex Base.Opt Model.Token Model.Utils Model.StateBlock
     Model.Helpers Model.Url Model.Render Model.Core Model.Block Model.Inline.

Record pcfg := mkPCfg {
  p_core : list str;            (* core chain: names in order *)
  p_block : bcfg;
  p_inline : icfg;
  p_typographer : bool;
  p_quotes : list str;
  p_linkify : bool;
  p_render : ropts
}.

Definition n_normalize : str := [110; 111; 114; 109; 97; 108; 105; 122; 101].
Definition n_block : str := [98; 108; 111; 99; 107].
Definition n_inline : str := s_inline.
Definition n_replacements : str := [114; 101; 112; 108; 97; 99; 101; 109; 101; 110; 116; 115].
Definition n_smartquotes : str := [115; 109; 97; 114; 116; 113; 117; 111; 116; 101; 115].
Definition n_text_join : str := [116; 101; 120; 116; 95; 106; 111; 105; 110].

Record cstate := mkC { c_src : str; c_env : envt; c_tokens : list token; c_inlineMode : bool }.

Section Pipeline.
Context (cfg : pcfg).
Context (reformat casefold linktext : str -> str).

(* rules_core/inline.py *)
Fixpoint inline_all (tokens : list token) (env : envt) : res (list token) :=
  match tokens with
  | [] => Ok []
  | t :: rest =>
      do t' <-
        (if str_eqb (ttype t) s_inline then
           do ch <- inline_parse (p_inline cfg) reformat casefold linktext (tcontent t) env
                                 (match tchildren t with Some l => l | None => [] end);
           Ok (set_children t (Some ch))
         else Ok t);
      do rest' <- inline_all rest env;
      Ok (t' :: rest')
  end.

Definition core_rule (name : str) (st : cstate) : res cstate :=
  if str_eqb name n_normalize then Ok (mkC (normalize (c_src st)) (c_env st) (c_tokens st) (c_inlineMode st))
  else if str_eqb name n_block then
    if c_inlineMode st then
      Ok (mkC (c_src st) (c_env st)
              (c_tokens st ++ [set_children (set_map (set_content (new_token s_inline [] 0) (c_src st)) (Some (0, 1))) (Some [])])
              true)
    else
      do b <- block_parse (p_block cfg) reformat casefold (c_src st) (c_env st) (c_tokens st);
      Ok (mkC (c_src st) (b_env b) (b_tokens b) false)
  else if str_eqb name n_inline then
    do ts <- inline_all (c_tokens st) (c_env st); Ok (mkC (c_src st) (c_env st) ts (c_inlineMode st))
  else if str_eqb name n_linkify then
    (if p_linkify cfg then Raise ModuleNotFound else Ok st)      (* the linkifier is not installed *)
  else if str_eqb name n_replacements then
    Ok (mkC (c_src st) (c_env st) (replacements (p_typographer cfg) (c_tokens st)) (c_inlineMode st))
  else if str_eqb name n_smartquotes then
    Ok (mkC (c_src st) (c_env st) (smartquotes (p_typographer cfg) (p_quotes cfg) (c_tokens st)) (c_inlineMode st))
  else if str_eqb name n_text_join then
    Ok (mkC (c_src st) (c_env st) (text_join (c_tokens st)) (c_inlineMode st))
  else Ok st.

Fixpoint core_process (names : list str) (st : cstate) : res cstate :=
  match names with [] => Ok st | n :: rest => do st' <- core_rule n st; core_process rest st' end.

Definition parse (src : str) (env : envt) : res (list token * envt) :=
  do st <- core_process (p_core cfg) (mkC src env [] false); Ok (c_tokens st, c_env st).

Definition parse_inline (src : str) (env : envt) : res (list token * envt) :=
  do st <- core_process (p_core cfg) (mkC src env [] true); Ok (c_tokens st, c_env st).

Definition render_md (src : str) (env : envt) : res (str * envt) :=
  do (ts, env') <- parse src env; do (h, _) <- render (p_render cfg) ts; Ok (h, env').

Definition render_inline_md (src : str) (env : envt) : res (str * envt) :=
  do (ts, env') <- parse_inline src env; do (h, _) <- render (p_render cfg) ts; Ok (h, env').

End Pipeline.
