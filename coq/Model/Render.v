(* Model of markdown_it/renderer.py (RendererHTML with its default rules).
   The output is produced as a list of chunks so that theorems can speak about
   where input characters may end up:
     CLit  s : markup written by the renderer itself (tags, quotes, line feeds)
     CEsc  s : data, passed through escapeHtml
     CRaw  s : data passed through verbatim (html_block / html_inline content,
               output of the highlight callback)
   html = concatenation with CEsc chunks escaped. *)
From MD Require Import Base.Py Base.Str Base.Opt Model.Token Model.Utils.

Inductive chunk := CLit (s : str) | CEsc (s : str) | CRaw (s : str).

Definition chunk_html (c : chunk) : str :=
  match c with CLit s => s | CEsc s => escape_html s | CRaw s => s end.
Definition html_of (cs : list chunk) : str := flat_map chunk_html cs.

Record ropts := mkROpts {
  o_xhtml : bool;
  o_breaks : bool;
  o_langPrefix : str;
  o_highlight : option (str -> str -> str -> str)
}.

Definition str_of_aval (a : aval) : str := match a with AStr s => s | AInt z => str_of_Z z end.

(* renderAttrs:  ' ' + escapeHtml(key) + '="' + escapeHtml(str(value)) + '"'  per attribute *)
Definition render_attrs (t : token) : list chunk :=
  flat_map (fun kv => [CLit [32]; CEsc (fst kv); CLit [61; 34]; CEsc (str_of_aval (snd kv)); CLit [34]])
           (tattrs t).

Definition s_inline : str := [105; 110; 108; 105; 110; 101].
Definition s_text : str := [116; 101; 120; 116].
Definition s_tspecial : str := [116; 101; 120; 116; 95; 115; 112; 101; 99; 105; 97; 108].   (* text_special *)
Definition s_image : str := [105; 109; 97; 103; 101].
Definition s_softbreak : str := [115; 111; 102; 116; 98; 114; 101; 97; 107].
Definition s_hardbreak : str := [104; 97; 114; 100; 98; 114; 101; 97; 107].
Definition s_code_inline : str := [99; 111; 100; 101; 95; 105; 110; 108; 105; 110; 101].
Definition s_code_block : str := [99; 111; 100; 101; 95; 98; 108; 111; 99; 107].
Definition s_fence : str := [102; 101; 110; 99; 101].
Definition s_html_block : str := [104; 116; 109; 108; 95; 98; 108; 111; 99; 107].
Definition s_html_inline : str := [104; 116; 109; 108; 95; 105; 110; 108; 105; 110; 101].
Definition s_definition : str := [100; 101; 102; 105; 110; 105; 116; 105; 111; 110].
Definition s_alt : str := [97; 108; 116].
Definition s_class : str := [99; 108; 97; 115; 115].
Definition LF : Z := 10.

(* renderToken(tokens, idx): depends on the previous and the next token *)
Definition render_token (o : ropts) (prev : option token) (t : token) (next : option token) : list chunk :=
  if thidden t then []
  else
    let lead :=
      if tblock t && negb (tnesting t =? -1) && match prev with Some p => thidden p | None => false end
      then [CLit [LF]] else [] in
    let open := CLit ((if tnesting t =? -1 then [60; 47] else [60]) ++ ttag t) in
    let selfclose := if (tnesting t =? 0) && o_xhtml o then [CLit [32; 47]] else [] in
    let needLf :=
      if tblock t then
        if (tnesting t =? 1) then
          match next with
          | Some n =>
              if str_eqb (ttype n) s_inline || thidden n then false
              else if (tnesting n =? -1) && str_eqb (ttag n) (ttag t) then false
              else true
          | None => true
          end
        else true
      else false in
    lead ++ [open] ++ render_attrs t ++ selfclose ++ [CLit (if needLf then [62; LF] else [62])].

(* renderInlineAsText *)
Fixpoint inline_as_text (t : token) : str :=
  if str_eqb (ttype t) s_text then tcontent t
  else if str_eqb (ttype t) s_image then
    match tchildren t with
    | Some l => (fix go (l : list token) : str := match l with [] => [] | x :: l' => inline_as_text x ++ go l' end) l
    | None => []
    end
  else if str_eqb (ttype t) s_softbreak then [LF]
  else [].
Definition inline_as_text_list (l : list token) : str := flat_map inline_as_text l.

(* str.split(maxsplit=1) on an already stripped, non-empty string:
   (first word, rest with its leading whitespace removed) *)
Fixpoint take_word (s : str) : str * str :=
  match s with
  | [] => ([], [])
  | c :: s' => if is_py_space c then ([], s) else let '(w, r) := take_word s' in (c :: w, r)
  end.
Definition split_first (s : str) : str * str :=
  let '(w, r) := take_word s in (w, lstrip_by is_py_space r).

Definition s_pre : str := [60; 112; 114; 101].                                   (* <pre *)
Definition s_pre_code : str := [60; 112; 114; 101; 62; 60; 99; 111; 100; 101].   (* <pre><code *)
Definition s_code_pre_end : str := [60; 47; 99; 111; 100; 101; 62; 60; 47; 112; 114; 101; 62; LF]. (* </code></pre>\n *)

(* fence rule; TypeError when an existing class attribute is not a str (attrJoin) *)
Definition fence_info (t : token) : str :=
  match tinfo t with [] => [] | i => py_strip (unescape_all i) end.

Definition fence_highlighted (o : ropts) (t : token) (langName langAttrs : str) : list chunk :=
  match o_highlight o with
  | Some hl => match hl (tcontent t) langName langAttrs with
               | [] => [CEsc (tcontent t)]
               | h => [CRaw h]
               end
  | None => [CEsc (tcontent t)]
  end.

Definition lang_name (info : str) : str := match info with [] => [] | _ => fst (split_first info) end.
Definition lang_attrs (info : str) : str := match info with [] => [] | _ => snd (split_first info) end.

Definition render_fence_core (langPrefix : str) (t : token) (info : str) (highlighted : list chunk)
  : res (list chunk) :=
  let starts_pre := match highlighted with [CRaw h] => starts_with s_pre h | _ => false end in
  if starts_pre then Ok (highlighted ++ [CLit [LF]])
  else
    match info with
    | [] => Ok ([CLit s_pre_code] ++ render_attrs t ++ [CLit [62]] ++ highlighted ++ [CLit s_code_pre_end])
    | _ =>
        do tmp <- attr_join (set_attrs (new_token [] [] 0) (tattrs t)) s_class (langPrefix ++ lang_name info);
        Ok ([CLit s_pre_code] ++ render_attrs tmp ++ [CLit [62]] ++ highlighted ++ [CLit s_code_pre_end])
    end.

Definition render_fence_with (o : ropts) (t : token) (info : str) : res (list chunk) :=
  render_fence_core (o_langPrefix o) t info (fence_highlighted o t (lang_name info) (lang_attrs info)).

Definition render_fence (o : ropts) (t : token) : res (list chunk) := render_fence_with o t (fence_info t).

Definition br (o : ropts) : str := if o_xhtml o then [60; 98; 114; 32; 47; 62; LF] else [60; 98; 114; 62; LF].

(* one token through the rule table (default rules) or renderToken.
   Returns the chunks and the token as left behind (image: alt is written back). *)
Definition render_one (o : ropts) (prev : option token) (t : token) (next : option token)
  : res (list chunk * token) :=
  let ty := ttype t in
  if str_eqb ty s_code_inline then
    Ok ([CLit [60; 99; 111; 100; 101]] ++ render_attrs t ++ [CLit [62]; CEsc (tcontent t); CLit [60; 47; 99; 111; 100; 101; 62]], t)
  else if str_eqb ty s_code_block then
    Ok ([CLit s_pre] ++ render_attrs t ++ [CLit [62; 60; 99; 111; 100; 101; 62]; CEsc (tcontent t); CLit s_code_pre_end], t)
  else if str_eqb ty s_fence then
    do cs <- render_fence o t; Ok (cs, t)
  else if str_eqb ty s_image then
    let alt := match tchildren t with
               | Some (x :: l) => inline_as_text_list (x :: l)
               | _ => [] end in
    let t' := attr_set t s_alt (AStr alt) in
    Ok (render_token o prev t' next, t')
  else if str_eqb ty s_hardbreak then Ok ([CLit (br o)], t)
  else if str_eqb ty s_softbreak then Ok ([CLit (if o_breaks o then br o else [LF])], t)
  else if str_eqb ty s_text then Ok ([CEsc (tcontent t)], t)
  else if str_eqb ty s_tspecial then Ok ([CEsc (tcontent t)], t)
  else if str_eqb ty s_html_block then Ok ([CRaw (tcontent t)], t)
  else if str_eqb ty s_html_inline then Ok ([CRaw (tcontent t)], t)
  else if str_eqb ty s_definition then Ok ([], t)
  else Ok (render_token o prev t next, t).

(* renderInline: every token through render_one.  [prev] is the token before,
   as it is at that moment (already rendered, i.e. possibly with alt written) *)
Fixpoint render_inline_list (o : ropts) (prev : option token) (l : list token)
  : res (list chunk * list token) :=
  match l with
  | [] => Ok ([], [])
  | t :: rest =>
      do (cs, t') <- render_one o prev t (hd_error rest);
      do (cs2, rest') <- render_inline_list o (Some t') rest;
      Ok (cs ++ cs2, t' :: rest')
  end.

(* render: inline tokens render their children; everything else as above *)
Fixpoint render_list (o : ropts) (prev : option token) (l : list token)
  : res (list chunk * list token) :=
  match l with
  | [] => Ok ([], [])
  | t :: rest =>
      do (cs, t') <-
        (if str_eqb (ttype t) s_inline then
           match tchildren t with
           | Some (x :: ch) =>
               do (cs, ch') <- render_inline_list o None (x :: ch);
               Ok (cs, set_children t (Some ch'))
           | _ => Ok ([], t)
           end
         else render_one o prev t (hd_error rest));
      do (cs2, rest') <- render_list o (Some t') rest;
      Ok (cs ++ cs2, t' :: rest')
  end.

Definition render (o : ropts) (tokens : list token) : res (str * list token) :=
  do (cs, ts) <- render_list o None tokens; Ok (html_of cs, ts).
