(* Model of the URL layer: mdurl.encode (as called by normalizeLink: default exclude
   set, keep_escaped) and markdown_it.common.normalize_url.validateLink.
   mdurl.parse / mdurl.format / punycode are opaque (nothing is assumed about them):
   normalizeLink = encode ∘ reformat for an arbitrary function reformat. *)
From MD Require Import Base.Py Base.Str Base.Regex Base.Opt Model.Utils.
From MD Require Import Gen.Tables Gen.Regexes.

Definition is_alnum (c : Z) : bool :=
  ((48 <=? c) && (c <=? 57)) || ((65 <=? c) && (c <=? 90)) || ((97 <=? c) && (c <=? 122)).
Definition is_hexdigit (c : Z) : bool :=
  ((48 <=? c) && (c <=? 57)) || ((65 <=? c) && (c <=? 70)) || ((97 <=? c) && (c <=? 102)).

Definition hex_digit (n : Z) : Z := if n <? 10 then 48 + n else 55 + n.   (* upper case *)
Definition pct (b : Z) : str := [37; hex_digit (b / 16); hex_digit (b mod 16)].

(* the lookup table get_encode_cache(exclude) for code points below 128 *)
Definition enc_ascii (c : Z) : str :=
  if is_alnum c || mem_z c encode_default_chars then [c] else pct c.

(* urllib.parse.quote of one non-ASCII character: its UTF-8 bytes, percent-encoded *)
Definition utf8_bytes (c : Z) : list Z :=
  if c <? 128 then [c]
  else if c <? 2048 then [192 + c / 64; 128 + c mod 64]
  else if c <? 65536 then [224 + c / 4096; 128 + (c / 64) mod 64; 128 + c mod 64]
  else [240 + c / 262144; 128 + (c / 4096) mod 64; 128 + (c / 64) mod 64; 128 + c mod 64].
Definition enc_unicode (c : Z) : str := flat_map pct (utf8_bytes c).

Definition s_fffd_pct : str := [37; 69; 70; 37; 66; 70; 37; 66; 68].   (* %EF%BF%BD *)

Fixpoint encode_fuel (fuel : nat) (s : str) : str :=
  match fuel with
  | O => []
  | S f =>
      match s with
      | [] => []
      | c :: rest =>
          match rest with
          | a :: b :: rest2 =>
              if (c =? 37) && is_hexdigit a && is_hexdigit b
              then 37 :: a :: b :: encode_fuel f rest2
              else (if c <? 128 then enc_ascii c
                    else if (55296 <=? c) && (c <=? 57343) then s_fffd_pct
                    else enc_unicode c) ++ encode_fuel f rest
          | _ =>
              (if c <? 128 then enc_ascii c
               else if (55296 <=? c) && (c <=? 57343) then s_fffd_pct
               else enc_unicode c) ++ encode_fuel f rest
          end
      end
  end.
Definition encode (s : str) : str := encode_fuel (S (length s)) s.

Definition normalize_link (reformat : str -> str) (url : str) : str := encode (reformat url).

(* ---- validateLink ------------------------------------------------------------- *)

Definition lower (s : str) : str := map lower_ascii s.

(* as written: url.strip().lower(), then the two compiled patterns (ASCII lower-casing:
   exact on the strings normalizeLink produces, which are ASCII by encode_alphabet) *)
Definition validate_link_re (url : str) : bool :=
  let u := lower (py_strip url) in
  if test re_normalize_url_BAD_PROTO_RE u then test re_normalize_url_GOOD_DATA_RE u else true.

Definition p_vbscript : str := [118; 98; 115; 99; 114; 105; 112; 116; 58].
Definition p_javascript : str := [106; 97; 118; 97; 115; 99; 114; 105; 112; 116; 58].
Definition p_file : str := [102; 105; 108; 101; 58].
Definition p_data : str := [100; 97; 116; 97; 58].
Definition p_img : str := [100; 97; 116; 97; 58; 105; 109; 97; 103; 101; 47].  (* data:image/ *)

Definition bad_proto (u : str) : bool :=
  starts_with p_vbscript u || starts_with p_javascript u || starts_with p_file u || starts_with p_data u.
Definition good_data (u : str) : bool :=
  starts_with (p_img ++ [103; 105; 102; 59]) u || starts_with (p_img ++ [112; 110; 103; 59]) u
  || starts_with (p_img ++ [106; 112; 101; 103; 59]) u || starts_with (p_img ++ [119; 101; 98; 112; 59]) u.

(* direct definition; compared with the regex form on every run *)
Definition validate_link (url : str) : bool :=
  let u := lower (py_strip url) in if bad_proto u then good_data u else true.
