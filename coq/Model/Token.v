(* Model of markdown_it/token.py: the Token dataclass, attribute helpers,
   as_dict / from_dict (both attribute formats, with and without children). *)
From MD Require Import Base.Py Base.Opt.

Inductive aval := AStr (s : str) | AInt (z : Z).

Inductive token : Type := Tok {
  ttype : str;
  ttag : str;
  tnesting : Z;
  tattrs : list (str * aval);          (* dict: insertion order observable, keys unique *)
  tmap : option (Z * Z);
  tlevel : Z;
  tchildren : option (list token);
  tcontent : str;
  tmarkup : str;
  tinfo : str;
  tmeta : list (str * str);
  tblock : bool;
  thidden : bool
}.

(* Token(type, tag, nesting) *)
Definition new_token (ty tag : str) (nesting : Z) : token :=
  Tok ty tag nesting [] None 0 None [] [] [] [] false false.

Definition set_type (t : token) (v : str) : token :=
  Tok v (ttag t) (tnesting t) (tattrs t) (tmap t) (tlevel t) (tchildren t) (tcontent t) (tmarkup t) (tinfo t) (tmeta t) (tblock t) (thidden t).
Definition set_attrs (t : token) (v : list (str * aval)) : token :=
  Tok (ttype t) (ttag t) (tnesting t) v (tmap t) (tlevel t) (tchildren t) (tcontent t) (tmarkup t) (tinfo t) (tmeta t) (tblock t) (thidden t).
Definition set_map (t : token) (v : option (Z * Z)) : token :=
  Tok (ttype t) (ttag t) (tnesting t) (tattrs t) v (tlevel t) (tchildren t) (tcontent t) (tmarkup t) (tinfo t) (tmeta t) (tblock t) (thidden t).
Definition set_level (t : token) (v : Z) : token :=
  Tok (ttype t) (ttag t) (tnesting t) (tattrs t) (tmap t) v (tchildren t) (tcontent t) (tmarkup t) (tinfo t) (tmeta t) (tblock t) (thidden t).
Definition set_children (t : token) (v : option (list token)) : token :=
  Tok (ttype t) (ttag t) (tnesting t) (tattrs t) (tmap t) (tlevel t) v (tcontent t) (tmarkup t) (tinfo t) (tmeta t) (tblock t) (thidden t).
Definition set_content (t : token) (v : str) : token :=
  Tok (ttype t) (ttag t) (tnesting t) (tattrs t) (tmap t) (tlevel t) (tchildren t) v (tmarkup t) (tinfo t) (tmeta t) (tblock t) (thidden t).
Definition set_markup (t : token) (v : str) : token :=
  Tok (ttype t) (ttag t) (tnesting t) (tattrs t) (tmap t) (tlevel t) (tchildren t) (tcontent t) v (tinfo t) (tmeta t) (tblock t) (thidden t).
Definition set_info (t : token) (v : str) : token :=
  Tok (ttype t) (ttag t) (tnesting t) (tattrs t) (tmap t) (tlevel t) (tchildren t) (tcontent t) (tmarkup t) v (tmeta t) (tblock t) (thidden t).
Definition set_meta (t : token) (v : list (str * str)) : token :=
  Tok (ttype t) (ttag t) (tnesting t) (tattrs t) (tmap t) (tlevel t) (tchildren t) (tcontent t) (tmarkup t) (tinfo t) v (tblock t) (thidden t).
Definition set_block (t : token) (v : bool) : token :=
  Tok (ttype t) (ttag t) (tnesting t) (tattrs t) (tmap t) (tlevel t) (tchildren t) (tcontent t) (tmarkup t) (tinfo t) (tmeta t) v (thidden t).
Definition set_hidden (t : token) (v : bool) : token :=
  Tok (ttype t) (ttag t) (tnesting t) (tattrs t) (tmap t) (tlevel t) (tchildren t) (tcontent t) (tmarkup t) (tinfo t) (tmeta t) (tblock t) v.

(* attrSet / attrGet / attrJoin on the attrs dict *)
Definition attr_set (t : token) (k : str) (v : aval) : token := set_attrs t (aset k v (tattrs t)).
Definition attr_get (t : token) (k : str) : option aval := alookup k (tattrs t).

Definition sp : Z := 32.
Definition attr_join (t : token) (k : str) (v : str) : res token :=
  match alookup k (tattrs t) with
  | None => Ok (attr_set t k (AStr v))
  | Some (AStr cur) => Ok (attr_set t k (AStr (cur ++ sp :: v)))
  | Some (AInt _) => Raise TypeError
  end.

(* ---- induction principle -------------------------------------------------- *)

Definition Forall_opt (P : token -> Prop) (ch : option (list token)) : Prop :=
  match ch with Some l => Forall P l | None => True end.

Section token_ind.
Context (P : token -> Prop).
Context (H : forall ty tag n ats mp lv ch co mk inf me bl hd,
            Forall_opt P ch -> P (Tok ty tag n ats mp lv ch co mk inf me bl hd)).

Fixpoint token_ind' (t : token) : P t :=
  match t with
  | Tok ty tag n ats mp lv ch co mk inf me bl hd =>
      H ty tag n ats mp lv ch co mk inf me bl hd
        (match ch return Forall_opt P ch with
         | None => I
         | Some l =>
             (fix go (l : list token) : Forall P l :=
                match l with
                | [] => Forall_nil P
                | x :: l' => Forall_cons x (token_ind' x) (go l')
                end) l
         end)
  end.
End token_ind.

(* ---- decidable equality (boolean), used by executable predicates ---------- *)

Definition aval_eqb (a b : aval) : bool :=
  match a, b with
  | AStr x, AStr y => str_eqb x y
  | AInt x, AInt y => x =? y
  | _, _ => false
  end.

Fixpoint list_eqb {A} (f : A -> A -> bool) (a b : list A) : bool :=
  match a, b with
  | [], [] => true
  | x :: a', y :: b' => f x y && list_eqb f a' b'
  | _, _ => false
  end.

Definition opt_eqb {A} (f : A -> A -> bool) (a b : option A) : bool :=
  match a, b with
  | None, None => true
  | Some x, Some y => f x y
  | _, _ => false
  end.

Definition pair_eqb {A B} (f : A -> A -> bool) (g : B -> B -> bool) (a b : A * B) : bool :=
  f (fst a) (fst b) && g (snd a) (snd b).

Fixpoint token_eqb (a b : token) {struct a} : bool :=
  str_eqb (ttype a) (ttype b) && str_eqb (ttag a) (ttag b) && (tnesting a =? tnesting b)
  && list_eqb (pair_eqb str_eqb aval_eqb) (tattrs a) (tattrs b)
  && opt_eqb (pair_eqb Z.eqb Z.eqb) (tmap a) (tmap b)
  && (tlevel a =? tlevel b)
  && match tchildren a, tchildren b with
     | None, None => true
     | Some la, Some lb =>
         (fix go (la lb : list token) {struct la} : bool :=
            match la, lb with
            | [], [] => true
            | x :: la', y :: lb' => token_eqb x y && go la' lb'
            | _, _ => false
            end) la lb
     | _, _ => false
     end
  && str_eqb (tcontent a) (tcontent b) && str_eqb (tmarkup a) (tmarkup b) && str_eqb (tinfo a) (tinfo b)
  && list_eqb (pair_eqb str_eqb str_eqb) (tmeta a) (tmeta b)
  && Bool.eqb (tblock a) (tblock b) && Bool.eqb (thidden a) (thidden b).

(* ---- as_dict / from_dict -------------------------------------------------- *)

(* the value universe of the dictionaries as_dict produces *)
Inductive dval :=
| DNone
| DBool (b : bool)
| DInt (z : Z)
| DStr (s : str)
| DList (l : list dval)
| DDict (l : list (str * dval))
| DToken (t : token).               (* children=False leaves Token objects in place *)

Definition s_type : str := [116; 121; 112; 101].
Definition s_tag : str := [116; 97; 103].
Definition s_nesting : str := [110; 101; 115; 116; 105; 110; 103].
Definition s_attrs : str := [97; 116; 116; 114; 115].
Definition s_map : str := [109; 97; 112].
Definition s_level : str := [108; 101; 118; 101; 108].
Definition s_children : str := [99; 104; 105; 108; 100; 114; 101; 110].
Definition s_content : str := [99; 111; 110; 116; 101; 110; 116].
Definition s_markup : str := [109; 97; 114; 107; 117; 112].
Definition s_info : str := [105; 110; 102; 111].
Definition s_meta : str := [109; 101; 116; 97].
Definition s_block : str := [98; 108; 111; 99; 107].
Definition s_hidden : str := [104; 105; 100; 100; 101; 110].

Definition dval_of_aval (a : aval) : dval := match a with AStr s => DStr s | AInt z => DInt z end.

(* attrs value in the dict: as_upstream -> None when empty, else [[k, v], ...];
   otherwise the dict itself *)
Definition attrs_to_dval (upstream : bool) (ats : list (str * aval)) : dval :=
  if upstream then
    match ats with
    | [] => DNone
    | _ => DList (map (fun kv => DList [DStr (fst kv); dval_of_aval (snd kv)]) ats)
    end
  else DDict (map (fun kv => (fst kv, dval_of_aval (snd kv))) ats).

Fixpoint as_dict (children upstream : bool) (t : token) {struct t} : list (str * dval) :=
  [ (s_type, DStr (ttype t)); (s_tag, DStr (ttag t)); (s_nesting, DInt (tnesting t));
    (s_attrs, attrs_to_dval upstream (tattrs t));
    (s_map, match tmap t with None => DNone | Some (a, b) => DList [DInt a; DInt b] end);
    (s_level, DInt (tlevel t));
    (s_children,
      match tchildren t with
      | None => DNone
      | Some [] => DList []                       (* mapping.get("children") falsy: left as is *)
      | Some l =>
          if children
          then DList ((fix go (l : list token) : list dval :=
                         match l with [] => [] | x :: l' => DDict (as_dict children upstream x) :: go l' end) l)
          else DList (map DToken l)
      end);
    (s_content, DStr (tcontent t)); (s_markup, DStr (tmarkup t)); (s_info, DStr (tinfo t));
    (s_meta, DDict (map (fun kv => (fst kv, DStr (snd kv))) (tmeta t)));
    (s_block, DBool (tblock t)); (s_hidden, DBool (thidden t)) ].

(* convert_attrs: None/empty -> {} ; list of pairs -> dict(value) ; dict -> itself.
   dict(list of pairs): later duplicates overwrite in place (first position kept). *)
Definition aval_of_dval (d : dval) : option aval :=
  match d with DStr s => Some (AStr s) | DInt z => Some (AInt z) | _ => None end.

Fixpoint pairs_to_attrs (l : list dval) (acc : list (str * aval)) : option (list (str * aval)) :=
  match l with
  | [] => Some acc
  | DList [DStr k; v] :: l' =>
      match aval_of_dval v with Some a => pairs_to_attrs l' (aset k a acc) | None => None end
  | _ => None
  end.

Fixpoint dict_to_attrs (l : list (str * dval)) (acc : list (str * aval)) : option (list (str * aval)) :=
  match l with
  | [] => Some acc
  | (k, v) :: l' =>
      match aval_of_dval v with Some a => dict_to_attrs l' (aset k a acc) | None => None end
  end.

Definition convert_attrs (d : dval) : option (list (str * aval)) :=
  match d with
  | DNone => Some []
  | DList [] => Some []
  | DList l => pairs_to_attrs l []
  | DDict l => dict_to_attrs l []
  | _ => None
  end.

Definition get_str (k : str) (m : list (str * dval)) : option str :=
  match alookup k m with Some (DStr s) => Some s | _ => None end.
Definition get_int (k : str) (m : list (str * dval)) : option Z :=
  match alookup k m with Some (DInt z) => Some z | _ => None end.
Definition get_bool (k : str) (m : list (str * dval)) : option bool :=
  match alookup k m with Some (DBool b) => Some b | _ => None end.

Fixpoint dict_to_meta (l : list (str * dval)) : option (list (str * str)) :=
  match l with
  | [] => Some []
  | (k, DStr s) :: l' => match dict_to_meta l' with Some r => Some ((k, s) :: r) | None => None end
  | _ => None
  end.

(* from_dict on the dictionaries this model can represent; fuel = nesting depth.
   [None] stands for "TypeError / not a dictionary as_dict could have produced". *)
Fixpoint from_dict (fuel : nat) (m : list (str * dval)) : option token :=
  match fuel with
  | O => None
  | S fuel' =>
    match get_str s_type m, get_str s_tag m, get_int s_nesting m, get_int s_level m,
          get_str s_content m, get_str s_markup m, get_str s_info m, get_bool s_block m, get_bool s_hidden m with
    | Some ty, Some tag, Some n, Some lv, Some co, Some mk, Some inf, Some bl, Some hd =>
      match alookup s_attrs m with
      | None => None
      | Some da =>
        match convert_attrs da with
        | None => None
        | Some ats =>
          let mp := match alookup s_map m with
                    | Some (DList [DInt a; DInt b]) => Some (Some (a, b))
                    | Some DNone => Some None
                    | _ => None end in
          let me := match alookup s_meta m with Some (DDict l) => dict_to_meta l | _ => None end in
          let ch := match alookup s_children m with
                    | Some DNone => Some None
                    | Some (DList l) =>
                        (fix go (l : list dval) : option (option (list token)) :=
                           match l with
                           | [] => Some (Some [])
                           | d :: l' =>
                               match (match d with
                                      | DToken t => Some t              (* already a Token: kept *)
                                      | DDict m' => from_dict fuel' m'
                                      | _ => None end), go l' with
                               | Some t, Some (Some r) => Some (Some (t :: r))
                               | _, _ => None
                               end
                           end) l
                    | _ => None end in
          match mp, me, ch with
          | Some mp, Some me, Some ch => Some (Tok ty tag n ats mp lv ch co mk inf me bl hd)
          | _, _, _ => None
          end
        end
      end
    | _, _, _, _, _, _, _, _, _ => None
    end
  end.

Fixpoint depth (t : token) : nat :=
  S (match tchildren t with
     | None => O
     | Some l => (fix go (l : list token) : nat := match l with [] => O | x :: l' => Nat.max (depth x) (go l') end) l
     end).
