(* Model of markdown_it/helpers/parse_link_destination.py and parse_link_title.py. *)
From MD Require Import Base.Py Base.Str Base.Opt Model.Utils.

Record lres := mkL { l_ok : bool; l_pos : Z; l_lines : Z; l_str : str }.
Definition lfail : lres := mkL false 0 0 [].

(* <...> form *)
Fixpoint dest_angle (fuel : nat) (s : str) (start pos maximum : Z) : lres :=
  match fuel with
  | O => lfail
  | S f =>
      if negb (pos <? maximum) then lfail
      else match char_at s pos with
           | Some 10 => lfail
           | Some 60 => lfail
           | Some 62 => mkL true (pos + 1) 0 (unescape_all (slice s (start + 1) pos))
           | Some 92 => if pos + 1 <? maximum then dest_angle f s start (pos + 2) maximum
                        else dest_angle f s start (pos + 1) maximum
           | _ => dest_angle f s start (pos + 1) maximum
           end
  end.

(* bare form: returns (pos, level) at loop exit, or None for the early "level > 32" return *)
Fixpoint dest_bare (fuel : nat) (s : str) (pos maximum level : Z) : option (Z * Z) :=
  match fuel with
  | O => Some (pos, level)
  | S f =>
      if negb (pos <? maximum) then Some (pos, level)
      else match char_at s pos with
           | None => Some (pos, level)
           | Some code =>
               if (code =? 32) || (code <? 32) || (code =? 127) then Some (pos, level)
               else if (code =? 92) && (pos + 1 <? maximum) then
                 (match char_at s (pos + 1) with
                  | Some 32 => Some (pos, level)
                  | _ => dest_bare f s (pos + 2) maximum level
                  end)
               else if code =? 40 then
                 (if 32 <? level + 1 then None else dest_bare f s (pos + 1) maximum (level + 1))
               else if code =? 41 then
                 (if level =? 0 then Some (pos, level) else dest_bare f s (pos + 1) maximum (level - 1))
               else dest_bare f s (pos + 1) maximum level
           end
  end.

Definition parse_link_destination (s : str) (pos maximum : Z) : lres :=
  match char_at s pos with
  | Some 60 => dest_angle (S (length s)) s pos (pos + 1) maximum
  | _ =>
      match dest_bare (S (length s)) s pos maximum 0 with
      | None => lfail
      | Some (p, level) =>
          if p =? pos then lfail
          else if negb (level =? 0) then lfail
          else mkL true p 0 (unescape_all (slice s pos p))
      end
  end.

Fixpoint title_loop (fuel : nat) (s : str) (start pos maximum marker lines : Z) : lres :=
  match fuel with
  | O => lfail
  | S f =>
      if negb (pos <? maximum) then lfail
      else match char_at s pos with
           | Some code =>
               if code =? marker then mkL true (pos + 1) lines (unescape_all (slice s (start + 1) pos))
               else if (code =? 40) && (marker =? 41) then lfail
               else if code =? 10 then title_loop f s start (pos + 1) maximum marker (lines + 1)
               else if (code =? 92) && (pos + 1 <? maximum) then
                 title_loop f s start (pos + 2) maximum marker
                            (match char_at s (pos + 1) with Some 10 => lines + 1 | _ => lines end)
               else title_loop f s start (pos + 1) maximum marker lines
           | None => title_loop f s start (pos + 1) maximum marker lines
           end
  end.

Definition parse_link_title (s : str) (pos maximum : Z) : lres :=
  if maximum <=? pos then lfail
  else match char_at s pos with
       | Some m =>
           if (m =? 34) || (m =? 39) || (m =? 40)
           then title_loop (S (length s)) s pos (pos + 1) maximum (if m =? 40 then 41 else m) 0
           else lfail
       | None => lfail
       end.
