(* Several live MarkdownIt instances (C12, C14): construction, management calls,
   and parses.  A parse/render touches instance state only through
   Ruler.getRules (lazy compilation of the chain caches): this is the frame
   condition regenerated from the source in Gen/SharedWrites.v and checked there. *)
From MD Require Import Base.Py Base.Opt Model.Ruler Model.Instance.

(* getRules on every chain a parse asks for, on all four rulers *)
Fixpoint parse_touch (chains : list str) (i : inst) : inst :=
  match chains with
  | [] => i
  | c :: ps =>
      let i0 := set_chain i 0 (fst (get_rules (i_core i) c)) in
      let i1 := set_chain i0 1 (fst (get_rules (i_block i0) c)) in
      let i2 := set_chain i1 2 (fst (get_rules (i_inline i1) c)) in
      let i3 := set_chain i2 3 (fst (get_rules (i_inline2 i2) c)) in
      parse_touch ps i3
  end.

Definition drop_cache {F} (r : ruler F) : ruler F := mkRuler (rules r) None.

(* the configuration proper: everything except the lazily compiled caches *)
Definition strip (i : inst) : inst :=
  mkInst (i_opts i) (drop_cache (i_core i)) (drop_cache (i_block i))
         (drop_cache (i_inline i)) (drop_cache (i_inline2 i)) (i_render i).

Inductive wop :=
| WNew (p : option preset) (upd : list (str * optval))   (* MarkdownIt(preset, options_update) *)
| WMgmt (j : nat) (o : mop)                              (* a management call on instance j *)
| WParse (j : nat) (chains : list str).                  (* parse/render/parseInline/renderInline on j *)

Fixpoint set_nth {A} (n : nat) (x : A) (l : list A) : list A :=
  match l, n with
  | [], _ => []
  | _ :: l', O => x :: l'
  | y :: l', S n' => y :: set_nth n' x l'
  end.

Section World.
Context (bare : inst).

Definition wstep (w : list inst) (o : wop) : list inst * res mout :=
  match o with
  | WNew p upd =>
      match configure p upd bare with
      | (i, Ok r) => (w ++ [i], Ok r)
      | (_, bad) => (w, bad)          (* the constructor raised: no instance *)
      end
  | WMgmt j o =>
      match nth_error w j with
      | None => (w, Raise IndexError)
      | Some i => let '(i', r) := mstep true i o in (set_nth j i' w, r)
      end
  | WParse j chains =>
      match nth_error w j with
      | None => (w, Raise IndexError)
      | Some i => (set_nth j (parse_touch chains i) w, Ok MONone)
      end
  end.

Definition wrun (ops : list wop) (w : list inst) : list inst :=
  fold_left (fun w o => fst (wstep w o)) ops w.

Fixpoint wtrace (ops : list wop) (w : list inst) : list (res mout) :=
  match ops with
  | [] => []
  | o :: ops' => let '(w', r) := wstep w o in r :: wtrace ops' w'
  end.

Definition is_parse (o : wop) : bool := match o with WParse _ _ => true | _ => false end.

(* does the op concern instance j (constructions always kept: they fix the numbering) *)
Definition concerns (j : nat) (o : wop) : bool :=
  match o with
  | WNew _ _ => true
  | WMgmt k _ => Nat.eqb k j
  | WParse k _ => Nat.eqb k j
  end.

End World.
