(* Model of the stream-level core rules: normalize, replacements, smartquotes,
   text_join (markdown_it/rules_core/*.py).  Each is a total function on strings
   or token lists. *)
From MD Require Import Base.Py Base.Str Base.Regex Base.Opt Model.Token Model.Utils Model.Render.
From MD Require Import Gen.Regexes.

(* ---- normalize -------------------------------------------------------------- *)

(* as written: NEWLINES_RE.sub("\n", src) then NULL_RE.sub("�", ...) *)
Definition normalize_re (s : str) : str :=
  sub_tpl re_normalize_NULL_RE [TLit [65533]] (sub_tpl re_normalize_NEWLINES_RE [TLit [10]] s).

(* direct definition (proved properties are about this one; the two are equal on
   every string: Lemmas/NormalizeRe.normalize_re_eq, and are compared on every run) *)
Fixpoint normalize (s : str) : str :=
  match s with
  | [] => []
  | c :: s' =>
      if c =? 13 then
        10 :: match s' with
              | d :: s'' => if d =? 10 then normalize s'' else normalize s'
              | [] => []
              end
      else if c =? 0 then 65533 :: normalize s'
      else c :: normalize s'
  end.

(* ---- text_join (after the repair: recursive into image children) ------------- *)

Definition s_text_special : str := [116; 101; 120; 116; 95; 115; 112; 101; 99; 105; 97; 108].

(* push [t] on the (reversed) output, merging with a preceding text token *)
Definition join_push (acc : list token) (t : token) : list token :=
  match acc with
  | p :: acc' =>
      if str_eqb (ttype t) s_text && str_eqb (ttype p) s_text
      then set_content p (tcontent p ++ tcontent t) :: acc'
      else t :: acc
  | [] => [t]
  end.

Fixpoint join_tok (t : token) : token :=
  let ty := if str_eqb (ttype t) s_text_special then s_text else ttype t in
  let ch :=
    match tchildren t with
    | Some (x :: l) =>
        if str_eqb ty s_image then
          Some (rev ((fix go (l : list token) (acc : list token) : list token :=
                        match l with
                        | [] => acc
                        | y :: l' => go l' (join_push acc (join_tok y))
                        end) (x :: l) []))
        else Some (x :: l)
    | other => other
    end in
  Tok ty (ttag t) (tnesting t) (tattrs t) (tmap t) (tlevel t) ch (tcontent t) (tmarkup t) (tinfo t)
      (tmeta t) (tblock t) (thidden t).

Definition join_children (l : list token) : list token :=
  rev (fold_left (fun acc y => join_push acc (join_tok y)) l []).

Definition text_join (tokens : list token) : list token :=
  map (fun t => if str_eqb (ttype t) s_inline
                then set_children t (Some (join_children (match tchildren t with Some l => l | None => [] end)))
                else t) tokens.

(* the rule before the repair (F4): image children are not visited *)
Definition join_children_legacy (l : list token) : list token :=
  rev (fold_left (fun acc y =>
                    join_push acc (if str_eqb (ttype y) s_text_special then set_type y s_text else y)) l []).
Definition text_join_legacy (tokens : list token) : list token :=
  map (fun t => if str_eqb (ttype t) s_inline
                then set_children t (Some (join_children_legacy (match tchildren t with Some l => l | None => [] end)))
                else t) tokens.

(* ---- replacements -------------------------------------------------------------- *)

Definition s_link_open : str := [108; 105; 110; 107; 95; 111; 112; 101; 110].
Definition s_link_close : str := [108; 105; 110; 107; 95; 99; 108; 111; 115; 101].
Definition s_auto : str := [97; 117; 116; 111].

Definition scoped_abbr (matched : str) : str :=
  let m := map lower_ascii matched in
  if str_eqb m [40; 99; 41] then [169]            (* (c) *)
  else if str_eqb m [40; 114; 41] then [174]      (* (r) *)
  else if str_eqb m [40; 116; 109; 41] then [8482] (* (tm) *)
  else matched.

Definition replace_scoped_text (s : str) : str :=
  sub re_replacements_SCOPED_ABBR_RE (fun m _ => scoped_abbr m) s.

Definition replace_rare_text (s : str) : str :=
  let s1 := sub_tpl re_replacements_PLUS_MINUS_RE [TLit [177]] s in
  let s2 := sub_tpl re_replacements_ELLIPSIS_RE [TLit [8230]] s1 in
  let s3 := sub_tpl re_replacements_ELLIPSIS_QUESTION_EXCLAMATION_RE [TGroup 1; TLit [46; 46]] s2 in
  let s4 := sub_tpl re_replacements_QUESTION_EXCLAMATION_RE [TGroup 1; TGroup 1; TGroup 1] s3 in
  let s5 := sub_tpl re_replacements_COMMA_RE [TLit [44]] s4 in
  let s6 := sub_tpl re_replacements_EM_DASH_RE [TGroup 1; TLit [8212]] s5 in
  let s7 := sub_tpl re_replacements_EN_DASH_RE [TGroup 1; TLit [8211]] s6 in
  sub_tpl re_replacements_EN_DASH_INDENT_RE [TGroup 1; TLit [8211]] s7.

(* the loops of replace_scoped / replace_rare: [f] applied to text tokens outside
   autolinks; inside_autolink is decremented on link_open(auto) and incremented on
   link_close(auto), as written (the counter is truthy when non-zero) *)
Fixpoint replace_walk (guard : str -> bool) (f : str -> str) (l : list token) (inside : Z) : list token :=
  match l with
  | [] => []
  | t :: l' =>
      let t' := if str_eqb (ttype t) s_text && (inside =? 0) && guard (tcontent t)
                then set_content t (f (tcontent t)) else t in
      let inside1 := if str_eqb (ttype t) s_link_open && str_eqb (tinfo t) s_auto then inside - 1 else inside in
      let inside2 := if str_eqb (ttype t) s_link_close && str_eqb (tinfo t) s_auto then inside1 + 1 else inside1 in
      t' :: replace_walk guard f l' inside2
  end.

Definition replace_inline (t : token) : token :=
  if negb (str_eqb (ttype t) s_inline) then t
  else match tchildren t with
       | None => t
       | Some ch =>
           let ch1 := if test re_replacements_SCOPED_ABBR_RE (tcontent t)
                      then replace_walk (fun _ => true) replace_scoped_text ch 0 else ch in
           let ch2 := if test re_replacements_RARE_RE (tcontent t)
                      then replace_walk (test re_replacements_RARE_RE) replace_rare_text ch1 0 else ch1 in
           set_children t (Some ch2)
       end.

Definition replacements (typographer : bool) (tokens : list token) : list token :=
  if typographer then map replace_inline tokens else tokens.

(* ---- smartquotes ------------------------------------------------------------------ *)

Record sq_item := mkSq { sq_token : nat; sq_pos : Z; sq_single : bool; sq_level : Z }.

Definition replace_at (s : str) (index : Z) (ch : str) : str :=
  slice s 0 index ++ ch ++ slice_from s (index + 1).

Definition update_nth {A} (n : nat) (f : A -> A) (l : list A) : list A :=
  (fix go (n : nat) (l : list A) : list A :=
     match l, n with
     | [], _ => []
     | x :: l', O => f x :: l'
     | x :: l', S n' => x :: go n' l'
     end) n l.

Definition s_apostrophe : str := [8217].

(* stack = stack[:j+1] where j is the last index with level <= thisLevel (or -1) *)
Fixpoint truncate_stack (stack : list sq_item) (lvl : Z) : list sq_item :=
  (* work on the reversed stack: drop from the top while level > lvl *)
  match stack with
  | [] => []
  | it :: rest => if sq_level it <=? lvl then stack else truncate_stack rest lvl
  end.

(* previous character: last char of the nearest earlier token with content, stopping at breaks *)
Fixpoint last_char_before (rev_before : list token) : option Z :=
  match rev_before with
  | [] => Some 32
  | t :: rest =>
      if str_eqb (ttype t) s_softbreak || str_eqb (ttype t) s_hardbreak then Some 32
      else match tcontent t with
           | [] => last_char_before rest
           | c => char_at c (len c - 1)
           end
  end.

Fixpoint first_char_after (after : list token) : option Z :=
  match after with
  | [] => Some 32
  | t :: rest =>
      if str_eqb (ttype t) s_softbreak || str_eqb (ttype t) s_hardbreak then Some 32
      else match tcontent t with
           | [] => first_char_after rest
           | c :: _ => Some c
           end
  end.

Fixpoint find_quote_aux (s : str) (i : Z) : option Z :=
  match s with
  | [] => None
  | c :: s' => if (c =? 39) || (c =? 34) then Some i else find_quote_aux s' (i + 1)
  end.
(* QUOTE_RE.search(text[from:]) : absolute index of the next quote character *)
Definition find_quote (s : str) (from : Z) : option Z := find_quote_aux (skipn (Z.to_nat from) s) from.

Definition content_at (tokens : list token) (i : nat) : str :=
  match nth_error tokens i with Some t => tcontent t | None => [] end.
Definition set_content_at (tokens : list token) (i : nat) (c : str) : list token :=
  update_nth i (fun t => set_content t c) tokens.

Definition is_punct (c : option Z) : bool :=
  match c with Some x => is_md_ascii_punct x || is_punct_char x | None => false end.
Definition is_ws (c : option Z) : bool := match c with Some x => is_white_space x | None => false end.

(* search the stack (top first) for a matching opener at this level; returns the
   item and the stack below it (stack[:j]) *)
Fixpoint find_opener (stack : list sq_item) (lvl : Z) (single : bool) : option (sq_item * list sq_item) :=
  match stack with
  | [] => None
  | it :: rest =>
      if sq_level it <? lvl then None
      else if Bool.eqb (sq_single it) single && (sq_level it =? lvl) then Some (it, rest)
      else find_opener rest lvl single
  end.

(* the while loop over one text token *)
Fixpoint sq_while (fuel : nat) (quotes : list str) (i : nat) (lvl : Z)
         (tokens : list token) (stack : list sq_item) (text : str) (pos : Z)
  : list token * list sq_item :=
  match fuel with
  | O => (tokens, stack)
  | S fuel' =>
      if negb (pos <? len text) then (tokens, stack)
      else
      match find_quote text pos with
      | None => (tokens, stack)
      | Some q =>
          let pos1 := q + 1 in
          let isSingle := match char_at text q with Some 39 => true | _ => false end in
          let lastChar := if 0 <=? q - 1 then char_at text (q - 1)
                          else last_char_before (rev (firstn i tokens)) in
          let nextChar := if pos1 <? len text then char_at text pos1
                          else first_char_after (skipn (S i) tokens) in
          let lastP := is_punct lastChar in
          let nextP := is_punct nextChar in
          let lastW := is_ws lastChar in
          let nextW := is_ws nextChar in
          let canOpen0 := if nextW then false else if nextP && negb (lastW || lastP) then false else true in
          let canClose0 := if lastW then false else if lastP && negb (nextW || nextP) then false else true in
          let inch := match nextChar, char_at text q, lastChar with
                      | Some 34, Some 34, Some l => (48 <=? l) && (l <=? 57)
                      | _, _, _ => false end in
          let canOpen1 := if inch then false else canOpen0 in
          let canClose1 := if inch then false else canClose0 in
          let canOpen := if canOpen1 && canClose1 then lastP else canOpen1 in
          let canClose := if canOpen1 && canClose1 then nextP else canClose1 in
          if negb canOpen && negb canClose then
            (* middle of a word *)
            let tokens' := if isSingle
                           then set_content_at tokens i (replace_at (content_at tokens i) q s_apostrophe)
                           else tokens in
            sq_while fuel' quotes i lvl tokens' stack text pos1
          else
            let matched := if canClose then find_opener stack lvl isSingle else None in
            match matched with
            | Some (it, below) =>
                let openQ := nth (if isSingle then 2 else 0)%nat quotes [] in
                let closeQ := nth (if isSingle then 3 else 1)%nat quotes [] in
                let tokens1 := set_content_at tokens i (replace_at (content_at tokens i) q closeQ) in
                let tokens2 := set_content_at tokens1 (sq_token it)
                                 (replace_at (content_at tokens1 (sq_token it)) (sq_pos it) openQ) in
                let pos2 := pos1 + (len closeQ - 1) + (if Nat.eqb (sq_token it) i then len openQ - 1 else 0) in
                sq_while fuel' quotes i lvl tokens2 below (content_at tokens2 i) pos2
            | None =>
                if canOpen then
                  sq_while fuel' quotes i lvl tokens (mkSq i q isSingle lvl :: stack) text pos1
                else if canClose && isSingle then
                  sq_while fuel' quotes i lvl
                           (set_content_at tokens i (replace_at (content_at tokens i) q s_apostrophe))
                           stack text pos1
                else sq_while fuel' quotes i lvl tokens stack text pos1
            end
      end
  end.

(* the for loop of process_inlines; [inside] counts open autolinks (link_open/link_close
   with info = auto): text inside an autolink is skipped *)
Fixpoint sq_tokens (n : nat) (quotes : list str) (i : nat) (tokens : list token) (stack : list sq_item)
         (inside : Z) : list token :=
  match n with
  | O => tokens
  | S n' =>
      match nth_error tokens i with
      | None => tokens
      | Some t =>
          let lvl := tlevel t in
          let stack1 := truncate_stack stack lvl in
          let inside1 := if str_eqb (ttype t) s_link_open && str_eqb (tinfo t) s_auto then inside + 1 else inside in
          let inside2 := if str_eqb (ttype t) s_link_close && str_eqb (tinfo t) s_auto then inside1 - 1 else inside1 in
          if negb (str_eqb (ttype t) s_text) || negb (inside2 =? 0) then sq_tokens n' quotes (S i) tokens stack1 inside2
          else
            let text := tcontent t in
            let '(tokens', stack') := sq_while (S (length text)) quotes i lvl tokens stack1 text 0 in
            sq_tokens n' quotes (S i) tokens' stack' inside2
      end
  end.

Definition process_inlines (quotes : list str) (tokens : list token) : list token :=
  sq_tokens (length tokens) quotes O tokens [] 0.

Definition smartquotes_inline (quotes : list str) (t : token) : token :=
  if negb (str_eqb (ttype t) s_inline) || negb (test re_smartquotes_QUOTE_RE (tcontent t)) then t
  else match tchildren t with
       | None => t
       | Some ch => set_children t (Some (process_inlines quotes ch))
       end.

Definition smartquotes (typographer : bool) (quotes : list str) (tokens : list token) : list token :=
  if typographer then map (smartquotes_inline quotes) tokens else tokens.
