(* Model of markdown_it/rules_block/state_block.py: the line tables built by
   StateBlock.__init__, push, isEmpty, skip*, getLines, is_code_block. *)
From RecordUpdate Require Import RecordUpdate.
From MD Require Import Base.Py Base.Str Base.Opt Model.Token Model.Utils.

Record refrec := mkRef { r_title : str; r_href : str; r_map : Z * Z }.

(* env as far as the library touches it: the 'references' and 'duplicate_refs' keys,
   each of which may be absent *)
Record envt := mkEnv { e_refs : option (list (str * refrec)); e_dups : option (list (str * refrec)) }.
Definition env0 : envt := mkEnv None None.

Record bstate := mkB {
  b_src : str;
  b_bMarks : list Z; b_eMarks : list Z; b_tShift : list Z; b_sCount : list Z; b_bsCount : list Z;
  b_blkIndent : Z; b_line : Z; b_lineMax : Z; b_tight : bool; b_listIndent : Z;
  b_parentType : str; b_level : Z;
  b_tokens : list token;          (* in push order *)
  b_env : envt
}.
#[export] Instance eta_bstate : Settable _ :=
  settable! mkB <b_src; b_bMarks; b_eMarks; b_tShift; b_sCount; b_bsCount; b_blkIndent; b_line; b_lineMax;
                 b_tight; b_listIndent; b_parentType; b_level; b_tokens; b_env>.

(* list[i] of the Python source: negative indices wrap, out of range raises IndexError *)
Definition tb (l : list Z) (i : Z) : res Z :=
  let j := if i <? 0 then i + len l else i in
  match (if j <? 0 then None else nth_error l (Z.to_nat j)) with
  | Some v => Ok v
  | None => Raise IndexError
  end.

(* list[i] = v *)
Definition tb_set (l : list Z) (i : Z) (v : Z) : res (list Z) :=
  let j := if i <? 0 then i + len l else i in
  if (j <? 0) || (len l <=? j) then Raise IndexError
  else Ok (firstn (Z.to_nat j) l ++ v :: skipn (S (Z.to_nat j)) l).

(* ---- StateBlock.__init__: the character loop ------------------------------------- *)

Record scan := mkScan {
  sc_bM : list Z; sc_eM : list Z; sc_tS : list Z; sc_sC : list Z;   (* reversed *)
  sc_found : bool; sc_start : Z; sc_indent : Z; sc_offset : Z
}.

Definition scan_step (length : Z) (s : scan) (pos : Z) (c : Z) : scan :=
  if negb (sc_found s) && is_space c then
    mkScan (sc_bM s) (sc_eM s) (sc_tS s) (sc_sC s) false (sc_start s) (sc_indent s + 1)
           (if c =? 9 then sc_offset s + (4 - (sc_offset s) mod 4) else sc_offset s + 1)
  else
    if (c =? 10) || (pos =? length - 1) then
      let pos' := if c =? 10 then pos else pos + 1 in
      mkScan (sc_start s :: sc_bM s) (pos' :: sc_eM s) (sc_indent s :: sc_tS s) (sc_offset s :: sc_sC s)
             false (pos' + 1) 0 0
    else mkScan (sc_bM s) (sc_eM s) (sc_tS s) (sc_sC s) true (sc_start s) (sc_indent s) (sc_offset s).

Fixpoint scan_loop (length : Z) (s : scan) (pos : Z) (src : str) : scan :=
  match src with
  | [] => s
  | c :: rest => scan_loop length (scan_step length s pos c) (pos + 1) rest
  end.

Definition state_init (src : str) (env : envt) (tokens : list token) : bstate :=
  let n := len src in
  let s := scan_loop n (mkScan [] [] [] [] false 0 0 0) 0 src in
  let bM := rev (n :: sc_bM s) in
  mkB src bM (rev (n :: sc_eM s)) (rev (0 :: sc_tS s)) (rev (0 :: sc_sC s)) (map (fun _ => 0) bM)
      0 0 (len bM - 1) false (-1) [114; 111; 111; 116] 0 tokens env.

(* ---- push --------------------------------------------------------------------------- *)

Definition bpush (st : bstate) (ty tag : str) (nesting : Z) (f : token -> token) : bstate :=
  let lvl := if nesting <? 0 then b_level st - 1 else b_level st in
  let t := f (set_level (set_block (new_token ty tag nesting) true) lvl) in
  st <| b_level := (if 0 <? nesting then lvl + 1 else lvl) |> <| b_tokens := b_tokens st ++ [t] |>.

(* ---- small helpers ------------------------------------------------------------------ *)

Definition line_start (st : bstate) (line : Z) : res Z :=
  do b <- tb (b_bMarks st) line; do t <- tb (b_tShift st) line; Ok (b + t).

Definition is_empty (st : bstate) (line : Z) : res bool :=
  do p <- line_start st line; do e <- tb (b_eMarks st) line; Ok (e <=? p).

(* skipEmptyLines: an IndexError inside is swallowed and the line counted as empty *)
Fixpoint skip_empty_lines (fuel : nat) (st : bstate) (from : Z) : Z :=
  match fuel with
  | O => from
  | S f =>
      if negb (from <? b_lineMax st) then from
      else match is_empty st from with
           | Ok false => from
           | _ => skip_empty_lines f st (from + 1)
           end
  end.

Definition is_space_at (src : str) (pos : Z) : bool := is_space_opt (char_at src pos).

(* skipSpaces / skipCharsStr: forward, stop at the end of the string (IndexError caught).
   A negative start index would wrap in Python; callers never pass one. *)
Fixpoint skip_while (fuel : nat) (p : Z -> bool) (src : str) (pos : Z) : Z :=
  match fuel with
  | O => pos
  | S f => match char_at src pos with
           | Some c => if (0 <=? pos) && p c then skip_while f p src (pos + 1) else pos
           | None => pos
           end
  end.
Definition skip_spaces (src : str) (pos : Z) : Z := skip_while (S (length src)) is_space src pos.
Definition skip_chars (src : str) (pos : Z) (ch : Z) : Z := skip_while (S (length src)) (Z.eqb ch) src pos.

(* skipSpacesBack / skipCharsStrBack(pos, ch, minimum): unguarded reads of src[pos] *)
Fixpoint skip_back (fuel : nat) (p : Z -> bool) (src : str) (pos minimum : Z) : res Z :=
  match fuel with
  | O => Ok pos
  | S f =>
      if pos <=? minimum then Ok pos
      else do c <- py_idx src (pos - 1);
           if p c then skip_back f p src (pos - 1) minimum else Ok pos
  end.
Definition skip_spaces_back (src : str) (pos minimum : Z) : res Z := skip_back (S (length src)) is_space src pos minimum.
Definition skip_chars_back (src : str) (pos : Z) (ch : Z) (minimum : Z) : res Z :=
  skip_back (S (length src)) (Z.eqb ch) src pos minimum.

Definition is_code_block (code_enabled : bool) (st : bstate) (line : Z) : res bool :=
  do s <- tb (b_sCount st) line; Ok (code_enabled && (4 <=? s - b_blkIndent st)).

(* ---- getLines ----------------------------------------------------------------------- *)

(* the inner while of getLines for one line: returns (first, lineIndent) *)
Fixpoint gl_scan (fuel : nat) (src : str) (first last lineStart lineIndent indent tshift bs : Z) : res (Z * Z) :=
  match fuel with
  | O => Ok (first, lineIndent)
  | S f =>
      if (first <? last) && (lineIndent <? indent) then
        do ch <- py_idx src first;
        if is_space ch then
          gl_scan f src (first + 1) last lineStart
                  (if ch =? 9 then lineIndent + (4 - (lineIndent + bs) mod 4) else lineIndent + 1) indent tshift bs
        else if first - lineStart <? tshift then
          gl_scan f src (first + 1) last lineStart (lineIndent + 1) indent tshift bs
        else Ok (first, lineIndent)
      else Ok (first, lineIndent)
  end.

Fixpoint get_lines_loop (fuel : nat) (st : bstate) (line endl indent : Z) (keepLastLF : bool) : res str :=
  match fuel with
  | O => Ok []
  | S f =>
      if negb (line <? endl) then Ok []
      else
        do lineStart <- tb (b_bMarks st) line;
        do em <- tb (b_eMarks st) line;
        do ts <- tb (b_tShift st) line;
        do bs <- tb (b_bsCount st) line;
        let last := if (line + 1 <? endl) || keepLastLF then em + 1 else em in
        do (first, lineIndent) <- gl_scan (S (length (b_src st))) (b_src st) lineStart last lineStart 0 indent ts bs;
        let piece := (if indent <? lineIndent then rep 32 (lineIndent - indent) else [])
                     ++ slice (b_src st) first last in
        do rest <- get_lines_loop f st (line + 1) endl indent keepLastLF;
        Ok (piece ++ rest)
  end.

Definition get_lines (st : bstate) (begin endl indent : Z) (keepLastLF : bool) : res str :=
  if endl <=? begin then Ok []
  else get_lines_loop (S (Z.to_nat (endl - begin))) st begin endl indent keepLastLF.
