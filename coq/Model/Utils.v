(* Model of markdown_it/common/utils.py (the helpers the properties depend on). *)
From MD Require Import Base.Py Base.Str Base.Regex Base.Opt.
From MD Require Import Gen.Tables Gen.Entities Gen.Regexes.

Definition amp : Z := 38.  Definition lt : Z := 60.  Definition gt : Z := 62.  Definition quot : Z := 34.
Definition s_amp : str := [38; 97; 109; 112; 59].        (* &amp; *)
Definition s_lt : str := [38; 108; 116; 59].             (* &lt; *)
Definition s_gt : str := [38; 103; 116; 59].             (* &gt; *)
Definition s_quot : str := [38; 113; 117; 111; 116; 59]. (* &quot; *)

(* escapeHtml as written: four successive str.replace passes, "&" first *)
Definition escape_html_passes (raw : str) : str :=
  replace_char quot s_quot (replace_char gt s_gt (replace_char lt s_lt (replace_char amp s_amp raw))).

(* the same function character by character (proved equal in Lemmas/EscapeLemmas.v) *)
Definition esc_char (c : Z) : str :=
  if c =? amp then s_amp else if c =? lt then s_lt else if c =? gt then s_gt
  else if c =? quot then s_quot else [c].
Definition escape_html (raw : str) : str := flat_map esc_char raw.

Definition is_space (c : Z) : bool := (c =? 9) || (c =? 32).
Definition is_space_opt (c : option Z) : bool := match c with Some x => is_space x | None => false end.

Definition is_white_space (c : Z) : bool :=
  ((8192 <=? c) && (c <=? 8202)) || mem_z c md_whitespace.

Definition is_md_ascii_punct (c : Z) : bool := mem_z c md_ascii_punct.

(* isPunctChar(ch) = UNICODE_PUNCT_RE.search(ch) on a one-character string *)
Definition is_punct_char (c : Z) : bool := test re_utils_UNICODE_PUNCT_RE [c].

Definition is_py_space (c : Z) : bool := mem_z c py_space.
Definition py_strip (s : str) : str := strip_by is_py_space s.

Definition is_valid_entity_code (c : Z) : bool :=
  if (55296 <=? c) && (c <=? 57343) then false
  else if (64976 <=? c) && (c <=? 65007) then false
  else if (Z.land c 65535 =? 65535) || (Z.land c 65535 =? 65534) then false
  else if (0 <=? c) && (c <=? 8) then false
  else if c =? 11 then false
  else if (14 <=? c) && (c <=? 31) then false
  else if (127 <=? c) && (c <=? 159) then false
  else negb (1114111 <? c).

Definition hex_val (c : Z) : Z :=
  if is_digit c then c - 48
  else if (97 <=? c) && (c <=? 102) then c - 87
  else if (65 <=? c) && (c <=? 70) then c - 55
  else 0.
Definition int_of_hex (s : str) : Z := fold_left (fun acc c => acc * 16 + hex_val c) s 0.

(* replaceEntityPattern(match, name) *)
Definition replace_entity_pattern (whole name : str) : str :=
  match alookup name entity_table with
  | Some v => v
  | None =>
      let code :=
        match fullmatch re_utils_DIGITAL_ENTITY_BASE10_RE name with
        | Some e => match group name e 1 with Some d => Some (int_of_digits d) | None => None end
        | None =>
            match fullmatch re_utils_DIGITAL_ENTITY_BASE16_RE name with
            | Some e => match group name e 1 with Some d => Some (int_of_hex d) | None => None end
            | None => None
            end
        end in
      match code with
      | Some c => if is_valid_entity_code c then [c] else whole
      | None => whole
      end
  end.

(* unescapeAll *)
Definition unescape_all (s : str) : str :=
  if negb (mem_z 92 s) && negb (mem_z 38 s) then s
  else sub re_utils_UNESCAPE_ALL_RE
         (fun matched e =>
            match group s e 1 with
            | Some esc => match esc with [] => matched | _ => esc end
            | None =>
                match group s e 2 with
                | Some name => replace_entity_pattern matched name
                | None => matched
                end
            end) s.

(* normalizeReference: strip, collapse whitespace runs, then str.lower().upper()
   (an opaque function of CPython, supplied by the caller) *)
Definition collapse_ws (s : str) : str := sub_tpl re_utils_inline0 [TLit [32]] s.
Definition normalize_reference (casefold : str -> str) (s : str) : str := casefold (collapse_ws (py_strip s)).
