(* Model of markdown_it/parser_block.py and markdown_it/rules_block/*.py.
   Every unguarded src[i] / table[i] of the Python is a [py_idx] / [tb] here and can
   raise IndexError; guarded ones (try/except, explicit bound tests) are [char_at]. *)
From RecordUpdate Require Import RecordUpdate.
From MD Require Import Base.Py Base.Str Base.Regex Base.Opt Model.Token Model.Utils Model.StateBlock
     Model.Helpers Model.Url Model.Render.
From MD Require Import Gen.Regexes Gen.Tables Gen.Rules.

Record bcfg := mkBCfg {
  c_rules : list str;               (* names of the rules of chain "", in order *)
  c_term : str -> list str;         (* names of the rules of a named terminator chain *)
  c_code : bool;                    (* "code" in active rules *)
  c_maxNesting : Z;
  c_html : bool;
  c_inline_defs : bool
}.

Definition nm_paragraph : str := [112; 97; 114; 97; 103; 114; 97; 112; 104].
Definition nm_reference : str := [114; 101; 102; 101; 114; 101; 110; 99; 101].
Definition nm_blockquote : str := [98; 108; 111; 99; 107; 113; 117; 111; 116; 101].
Definition nm_list : str := [108; 105; 115; 116].
Definition nm_table : str := [116; 97; 98; 108; 101].
Definition nm_code : str := [99; 111; 100; 101].
Definition nm_fence : str := [102; 101; 110; 99; 101].
Definition nm_hr : str := [104; 114].
Definition nm_html_block : str := [104; 116; 109; 108; 95; 98; 108; 111; 99; 107].
Definition nm_heading : str := [104; 101; 97; 100; 105; 110; 103].
Definition nm_lheading : str := [108; 104; 101; 97; 100; 105; 110; 103].

Definition update_nth_tok (n : nat) (f : token -> token) (l : list token) : list token :=
  (fix go (n : nat) (l : list token) : list token :=
     match l, n with
     | [], _ => []
     | x :: l', O => f x :: l'
     | x :: l', S n' => x :: go n' l'
     end) n l.

Definition st_line (st : bstate) (l : Z) := st <| b_line := l |>.
Definition st_parent (st : bstate) (p : str) := st <| b_parentType := p |>.

Section Rules.
Context (cfg : bcfg).
Context (reformat : str -> str).      (* mdurl.format o punycode o mdurl.parse : opaque *)
Context (casefold : str -> str).      (* str.lower().upper() : opaque *)

Definition code_block_at (st : bstate) (line : Z) : res bool := is_code_block (c_code cfg) st line.

(* type of the two callbacks a rule may use *)
Definition rec_t := bstate -> Z -> Z -> res bstate.                 (* nested tokenize *)
Definition term_t := str -> bstate -> Z -> Z -> res (bool * bstate). (* run a terminator chain silently *)

Definition map_tok (a b : Z) (t : token) : token := set_map t (Some (a, b)).

(* ---- code ---- *)
Fixpoint code_scan (fuel : nat) (st : bstate) (nextLine endLine last : Z) : res Z :=
  match fuel with
  | O => Ok last
  | S f =>
      if negb (nextLine <? endLine) then Ok last
      else do e <- is_empty st nextLine;
           if e then code_scan f st (nextLine + 1) endLine last
           else do c <- code_block_at st nextLine;
                if c then code_scan f st (nextLine + 1) endLine (nextLine + 1) else Ok last
  end.

Definition r_code (st : bstate) (startLine endLine : Z) (silent : bool) : res (bool * bstate) :=
  do c <- code_block_at st startLine;
  if negb c then Ok (false, st)
  else
    do last <- code_scan (S (Z.to_nat (endLine - startLine))) st (startLine + 1) endLine (startLine + 1);
    let st1 := st_line st last in
    do content <- get_lines st1 startLine last (4 + b_blkIndent st1) false;
    Ok (true, bpush st1 [99; 111; 100; 101; 95; 98; 108; 111; 99; 107] [99; 111; 100; 101] 0
                    (fun t => map_tok startLine last (set_content t (content ++ [10])))).

(* ---- fence ---- *)
(* the search loop; returns (nextLine, haveEndMarker) *)
Fixpoint fence_scan (fuel : nat) (st : bstate) (nextLine endLine marker length : Z) : res (Z * bool) :=
  match fuel with
  | O => Ok (nextLine, false)
  | S f =>
      let nl := nextLine + 1 in
      if endLine <=? nl then Ok (nl, false)
      else
        do pos <- line_start st nl;
        do maximum <- tb (b_eMarks st) nl;
        do sc <- tb (b_sCount st) nl;
        if (pos <? maximum) && (sc <? b_blkIndent st) then Ok (nl, false)
        else match char_at (b_src st) pos with
             | None => Ok (nl, false)                      (* except IndexError: break *)
             | Some c =>
                 if negb (c =? marker) then fence_scan f st nl endLine marker length
                 else
                   do cb <- code_block_at st nl;
                   if cb then fence_scan f st nl endLine marker length
                   else
                     let p2 := skip_chars (b_src st) pos marker in
                     if p2 - pos <? length then fence_scan f st nl endLine marker length
                     else
                       let p3 := skip_spaces (b_src st) p2 in
                       if p3 <? maximum then fence_scan f st nl endLine marker length
                       else Ok (nl, true)
             end
  end.

Definition r_fence (st : bstate) (startLine endLine : Z) (silent : bool) : res (bool * bstate) :=
  do pos <- line_start st startLine;
  do maximum <- tb (b_eMarks st) startLine;
  do cb <- code_block_at st startLine;
  if cb then Ok (false, st)
  else if maximum <? pos + 3 then Ok (false, st)
  else
    do marker <- py_idx (b_src st) pos;
    if negb ((marker =? 126) || (marker =? 96)) then Ok (false, st)
    else
      let p2 := skip_chars (b_src st) pos marker in
      let length := p2 - pos in
      if length <? 3 then Ok (false, st)
      else
        let markup := slice (b_src st) pos p2 in
        let params := slice (b_src st) p2 maximum in
        if (marker =? 96) && mem_z 96 params then Ok (false, st)
        else if silent then Ok (true, st)
        else
          do (nextLine, have) <- fence_scan (S (Z.to_nat (endLine - startLine))) st startLine endLine marker length;
          do ind <- tb (b_sCount st) startLine;
          let st1 := st_line st (nextLine + (if have then 1 else 0)) in
          do content <- get_lines st1 (startLine + 1) nextLine ind true;
          Ok (true, bpush st1 nm_fence [99; 111; 100; 101] 0
                          (fun t => map_tok startLine (b_line st1)
                                      (set_markup (set_content (set_info t params) content) markup))).

(* ---- hr ---- *)
Fixpoint hr_scan (fuel : nat) (src : str) (pos maximum marker cnt : Z) : res (option Z) :=
  match fuel with
  | O => Ok (Some cnt)
  | S f =>
      if negb (pos <? maximum) then Ok (Some cnt)
      else do ch <- py_idx src pos;
           if negb (ch =? marker) && negb (is_space ch) then Ok None
           else hr_scan f src (pos + 1) maximum marker (if ch =? marker then cnt + 1 else cnt)
  end.

Definition r_hr (st : bstate) (startLine endLine : Z) (silent : bool) : res (bool * bstate) :=
  do pos <- line_start st startLine;
  do maximum <- tb (b_eMarks st) startLine;
  do cb <- code_block_at st startLine;
  if cb then Ok (false, st)
  else match char_at (b_src st) pos with
       | None => Ok (false, st)
       | Some marker =>
           if negb ((marker =? 42) || (marker =? 45) || (marker =? 95)) then Ok (false, st)
           else
             do r <- hr_scan (S (length (b_src st))) (b_src st) (pos + 1) maximum marker 1;
             match r with
             | None => Ok (false, st)
             | Some cnt =>
                 if cnt <? 3 then Ok (false, st)
                 else if silent then Ok (true, st)
                 else
                   let st1 := st_line st (startLine + 1) in
                   Ok (true, bpush st1 nm_hr nm_hr 0
                                   (fun t => set_markup (map_tok startLine (startLine + 1) t) (rep marker cnt)))
             end
       end.

(* ---- heading ---- *)
Fixpoint heading_level (fuel : nat) (src : str) (pos maximum level : Z) : Z * Z :=
  match fuel with
  | O => (pos, level)
  | S f =>
      match char_at src pos with
      | Some 35 => if (pos <? maximum) && (level <=? 6) then heading_level f src (pos + 1) maximum (level + 1)
                   else (pos, level)
      | _ => (pos, level)
      end
  end.

Definition hN (level : Z) : str := [104; 48 + level].

Definition r_heading (st : bstate) (startLine endLine : Z) (silent : bool) : res (bool * bstate) :=
  do pos <- line_start st startLine;
  do maximum <- tb (b_eMarks st) startLine;
  do cb <- code_block_at st startLine;
  if cb then Ok (false, st)
  else if maximum <=? pos then Ok (false, st)
  else
    do ch <- py_idx (b_src st) pos;
    if negb (ch =? 35) then Ok (false, st)
    else
      let '(p, level) := heading_level 8 (b_src st) (pos + 1) maximum 1 in
      if (6 <? level) || ((p <? maximum) && negb (is_space_at (b_src st) p)) then Ok (false, st)
      else if silent then Ok (true, st)
      else
        do m1 <- skip_spaces_back (b_src st) maximum p;
        do tmp <- skip_chars_back (b_src st) m1 35 p;
        do m2 <- (if p <? tmp then
                    do c <- py_idx (b_src st) (tmp - 1); Ok (if is_space c then tmp else m1)
                  else Ok m1);
        let st1 := st_line st (startLine + 1) in
        let mk := rep 35 level in
        let st2 := bpush st1 [104; 101; 97; 100; 105; 110; 103; 95; 111; 112; 101; 110] (hN level) 1
                         (fun t => map_tok startLine (startLine + 1) (set_markup t mk)) in
        let st3 := bpush st2 s_inline [] 0
                         (fun t => set_children (map_tok startLine (startLine + 1)
                                                   (set_content t (strip_by is_space (slice (b_src st) p m2)))) (Some [])) in
        Ok (true, bpush st3 [104; 101; 97; 100; 105; 110; 103; 95; 99; 108; 111; 115; 101] (hN level) (-1)
                        (fun t => set_markup t mk)).

(* ---- terminator loop shared by paragraph / lheading / reference -------------------- *)

(* the body of "while nextLine < endLine and not isEmpty(nextLine)" for paragraph-like rules.
   [underline] = Some handler for lheading (returns Some level to stop with a heading) *)
Fixpoint para_scan (fuel : nat) (term : term_t) (chain : str) (st : bstate) (nextLine endLine : Z)
         (check_underline : bool) : res (Z * option (Z * Z) * bstate) :=
  match fuel with
  | O => OutOfFuel
  | S f =>
      if negb (nextLine <? endLine) then Ok (nextLine, None, st)
      else
        do e <- is_empty st nextLine;
        if e then Ok (nextLine, None, st)
        else
          do sc <- tb (b_sCount st) nextLine;
          if 3 <? sc - b_blkIndent st then para_scan f term chain st (nextLine + 1) endLine check_underline
          else
            do ul <-
              (if check_underline && (b_blkIndent st <=? sc) then
                 do pos <- line_start st nextLine;
                 do maximum <- tb (b_eMarks st) nextLine;
                 if pos <? maximum then
                   do marker <- py_idx (b_src st) pos;
                   if (marker =? 45) || (marker =? 61) then
                     let p2 := skip_spaces (b_src st) (skip_chars (b_src st) pos marker) in
                     if maximum <=? p2 then Ok (Some (marker, if marker =? 61 then 1 else 2)) else Ok None
                   else Ok None
                 else Ok None
               else Ok None);
            match ul with
            | Some ml => Ok (nextLine, Some ml, st)
            | None =>
                if sc <? 0 then para_scan f term chain st (nextLine + 1) endLine check_underline
                else
                  do (t, st') <- term chain st nextLine endLine;
                  if t then Ok (nextLine, None, st')
                  else para_scan f term chain st' (nextLine + 1) endLine check_underline
            end
  end.

Definition push_inline (st : bstate) (content : str) (a b : Z) : bstate :=
  bpush st s_inline [] 0 (fun t => set_children (map_tok a b (set_content t content)) (Some [])).

(* ---- paragraph ---- *)
Definition r_paragraph (term : term_t) (st : bstate) (startLine endLine0 : Z) (silent : bool) : res (bool * bstate) :=
  let endLine := b_lineMax st in
  let old := b_parentType st in
  let st0 := st_parent st nm_paragraph in
  do (nextLine, _, st1) <- para_scan (S (Z.to_nat (endLine - startLine))) term nm_paragraph st0 (startLine + 1) endLine false;
  do raw <- get_lines st1 startLine nextLine (b_blkIndent st1) false;
  let st2 := st_line st1 nextLine in
  let st3 := bpush st2 [112; 97; 114; 97; 103; 114; 97; 112; 104; 95; 111; 112; 101; 110] [112] 1 (map_tok startLine nextLine) in
  let st4 := push_inline st3 (strip_by is_space raw) startLine nextLine in
  let st5 := bpush st4 [112; 97; 114; 97; 103; 114; 97; 112; 104; 95; 99; 108; 111; 115; 101] [112] (-1) (fun t => t) in
  Ok (true, st_parent st5 old).

(* ---- lheading ---- *)
Definition r_lheading (term : term_t) (st : bstate) (startLine endLine : Z) (silent : bool) : res (bool * bstate) :=
  do cb <- code_block_at st startLine;
  if cb then Ok (false, st)
  else
    let old := b_parentType st in
    let st0 := st_parent st nm_paragraph in
    do (nextLine, ul, st1) <- para_scan (S (Z.to_nat (endLine - startLine))) term nm_paragraph st0 (startLine + 1) endLine true;
    match ul with
    | None => Ok (false, st1)                         (* parentType is left at "paragraph" *)
    | Some (marker, level) =>
        do raw <- get_lines st1 startLine nextLine (b_blkIndent st1) false;
        let st2 := st_line st1 (nextLine + 1) in
        let st3 := bpush st2 [104; 101; 97; 100; 105; 110; 103; 95; 111; 112; 101; 110] (hN level) 1
                         (fun t => map_tok startLine (nextLine + 1) (set_markup t [marker])) in
        let st4 := push_inline st3 (strip_by is_space raw) startLine nextLine in
        let st5 := bpush st4 [104; 101; 97; 100; 105; 110; 103; 95; 99; 108; 111; 115; 101] (hN level) (-1)
                         (fun t => set_markup t [marker]) in
        Ok (true, st_parent st5 old)
    end.

(* ---- html_block ---- *)
Fixpoint first_seq (seqs : list (re * re * bool)) (lineText : str) : option (re * re * bool) :=
  match seqs with
  | [] => None
  | (a, b, c) :: rest => if test a lineText then Some (a, b, c) else first_seq rest lineText
  end.

Fixpoint html_scan (fuel : nat) (st : bstate) (closer : re) (nextLine endLine : Z) : res Z :=
  match fuel with
  | O => Ok nextLine
  | S f =>
      if negb (nextLine <? endLine) then Ok nextLine
      else
        do sc <- tb (b_sCount st) nextLine;
        if sc <? b_blkIndent st then Ok nextLine
        else
          do pos <- line_start st nextLine;
          do maximum <- tb (b_eMarks st) nextLine;
          let lineText := slice (b_src st) pos maximum in
          if test closer lineText then Ok (if negb (len lineText =? 0) then nextLine + 1 else nextLine)
          else html_scan f st closer (nextLine + 1) endLine
  end.

Definition r_html_block (st : bstate) (startLine endLine : Z) (silent : bool) : res (bool * bstate) :=
  do pos <- line_start st startLine;
  do maximum <- tb (b_eMarks st) startLine;
  do cb <- code_block_at st startLine;
  if cb then Ok (false, st)
  else if negb (c_html cfg) then Ok (false, st)
  else if maximum <=? pos then Ok (false, st)
  else
    do c <- py_idx (b_src st) pos;
    if negb (c =? 60) then Ok (false, st)
    else
      let lineText := slice (b_src st) pos maximum in
      match first_seq re_html_block_HTML_SEQUENCES lineText with
      | None => Ok (false, st)
      | Some (opener, closer, can_terminate) =>
          if silent then Ok (can_terminate, st)
          else
            do nextLine <- (if test closer lineText then Ok (startLine + 1)
                            else html_scan (S (Z.to_nat (endLine - startLine))) st closer (startLine + 1) endLine);
            let st1 := st_line st nextLine in
            do content <- get_lines st1 startLine nextLine (b_blkIndent st1) true;
            Ok (true, bpush st1 nm_html_block [] 0 (fun t => set_content (map_tok startLine nextLine t) content))
      end.

(* ---- reference ---- *)
(* the first scan on the source line for "]:" *)
Fixpoint ref_prescan (fuel : nat) (src : str) (pos maximum : Z) : res bool :=
  match fuel with
  | O => Ok true
  | S f =>
      if negb (pos <? maximum) then Ok true
      else
        do c <- py_idx src pos;
        do prev <- py_idx src (pos - 1);
        if (c =? 93) && negb (prev =? 92) then
          if pos + 1 =? maximum then Ok false
          else do n <- py_idx src (pos + 1); Ok (n =? 58)
        else ref_prescan f src (pos + 1) maximum
  end.

(* label scan in the extracted string: returns None for "return False", else (labelEnd option, lines) *)
Fixpoint ref_label (fuel : nat) (s : str) (pos maximum lines : Z) : option (option Z * Z) :=
  match fuel with
  | O => Some (None, lines)
  | S f =>
      if negb (pos <? maximum) then Some (None, lines)
      else match char_at s pos with
           | Some 91 => None
           | Some 93 => Some (Some pos, lines)
           | Some 10 => ref_label f s (pos + 1) maximum (lines + 1)
           | Some 92 =>
               let p := pos + 1 in
               let lines' := if (p <? maximum) && (match char_at s p with Some 10 => true | _ => false end)
                             then lines + 1 else lines in
               ref_label f s (p + 1) maximum lines'
           | _ => ref_label f s (pos + 1) maximum lines
           end
  end.

(* skip blanks and newlines, counting newlines *)
Fixpoint skip_ws_nl (fuel : nat) (s : str) (pos maximum lines : Z) : Z * Z :=
  match fuel with
  | O => (pos, lines)
  | S f =>
      if negb (pos <? maximum) then (pos, lines)
      else match char_at s pos with
           | Some 10 => skip_ws_nl f s (pos + 1) maximum (lines + 1)
           | Some c => if is_space c then skip_ws_nl f s (pos + 1) maximum lines else (pos, lines)
           | None => (pos, lines)
           end
  end.

Fixpoint skip_sp (fuel : nat) (s : str) (pos maximum : Z) : Z :=
  match fuel with
  | O => pos
  | S f =>
      if negb (pos <? maximum) then pos
      else match char_at s pos with
           | Some c => if is_space c then skip_sp f s (pos + 1) maximum else pos
           | None => pos
           end
  end.

Definition not_nl_at (s : str) (pos : Z) : bool := match char_at s pos with Some 10 => false | _ => true end.

Definition s_id : str := [105; 100].
Definition s_title : str := [116; 105; 116; 108; 101].
Definition s_url : str := [117; 114; 108].
Definition s_label : str := [108; 97; 98; 101; 108].

Definition r_reference (term : term_t) (st : bstate) (startLine endLine0 : Z) (silent : bool) : res (bool * bstate) :=
  do pos <- line_start st startLine;
  do maximum <- tb (b_eMarks st) startLine;
  do cb <- code_block_at st startLine;
  if cb then Ok (false, st)
  else
    do c0 <- py_idx (b_src st) pos;
    if negb (c0 =? 91) then Ok (false, st)
    else
      do ok <- ref_prescan (S (length (b_src st))) (b_src st) pos maximum;
      if negb ok then Ok (false, st)
      else
        let endLine := b_lineMax st in
        let old := b_parentType st in
        let st0 := st_parent st nm_reference in
        do (nextLine, _, st1) <- para_scan (S (Z.to_nat (endLine - startLine))) term nm_reference st0 (startLine + 1) endLine false;
        do raw <- get_lines st1 startLine nextLine (b_blkIndent st1) false;
        let s := py_strip raw in
        let mx := len s in
        let fuel := S (length s) in
        match ref_label fuel s 1 mx 0 with
        | None => Ok (false, st1)
        | Some (None, _) => Ok (false, st1)
        | Some (Some labelEnd, lines0) =>
            if negb (match char_at s (labelEnd + 1) with Some 58 => true | _ => false end) then Ok (false, st1)
            else
              let '(p1, lines1) := skip_ws_nl fuel s (labelEnd + 2) mx lines0 in
              let res := parse_link_destination s p1 mx in
              if negb (l_ok res) then Ok (false, st1)
              else
                let href := normalize_link reformat (l_str res) in
                if negb (validate_link_re href) then Ok (false, st1)
                else
                  let destEndPos := l_pos res in
                  let destEndLineNo := lines1 + l_lines res in
                  let '(p2, lines2) := skip_ws_nl fuel s destEndPos mx destEndLineNo in
                  let tres := parse_link_title s p2 mx in
                  let '(title, p3, lines3) :=
                    if (p2 <? mx) && negb (destEndPos =? p2) && l_ok tres
                    then (l_str tres, l_pos tres, lines2 + l_lines tres)
                    else ([], destEndPos, destEndLineNo) in
                  let p4 := skip_sp fuel s p3 mx in
                  let '(title', p5, lines5) :=
                    if (p4 <? mx) && not_nl_at s p4 && negb (len title =? 0)
                    then ([], skip_sp fuel s destEndPos mx, destEndLineNo)
                    else (title, p4, lines3) in
                  if (p5 <? mx) && not_nl_at s p5 then Ok (false, st1)
                  else
                    let rawlabel := slice s 1 labelEnd in
                    let label := normalize_reference casefold rawlabel in
                    if len label =? 0 then Ok (false, st1)
                    else if silent then Ok (true, st1)
                    else
                      let env1 := match e_refs (b_env st1) with
                                  | None => mkEnv (Some []) (e_dups (b_env st1))
                                  | Some _ => b_env st1 end in
                      let line' := startLine + lines5 + 1 in
                      let st2 := st_line (st1 <| b_env := env1 |>) line' in
                      let st3 := if c_inline_defs cfg
                                 then bpush st2 s_definition [] 0
                                            (fun t => map_tok startLine line'
                                                        (set_meta t [(s_id, label); (s_title, title'); (s_url, href); (s_label, rawlabel)]))
                                 else st2 in
                      let rec_ := mkRef title' href (startLine, line') in
                      let refs := match e_refs env1 with Some r => r | None => [] end in
                      let env2 := match alookup label refs with
                                  | None => mkEnv (Some (refs ++ [(label, rec_)])) (e_dups env1)
                                  | Some _ => mkEnv (Some refs)
                                                (Some ((match e_dups env1 with Some d => d | None => [] end) ++ [(label, rec_)]))
                                  end in
                      Ok (true, st_parent (st3 <| b_env := env2 |>) old)
        end.

(* ---- blockquote ---- *)

(* the marker-stripping arithmetic for one quoted line whose '>' is at [pos0] (already
   checked).  Returns the new (bMarks, tShift, sCount, bsCount) entries and lastLineEmpty. *)
Fixpoint bq_blanks (fuel : nat) (src : str) (pos maximum offset bs : Z) (adjustTab : bool) : res (Z * Z) :=
  match fuel with
  | O => Ok (pos, offset)
  | S f =>
      if negb (pos <? maximum) then Ok (pos, offset)
      else do ch <- py_idx src pos;
           if is_space ch then
             bq_blanks f src (pos + 1) maximum
                       (if ch =? 9 then offset + (4 - (offset + bs + (if adjustTab then 1 else 0)) mod 4) else offset + 1)
                       bs adjustTab
           else Ok (pos, offset)
  end.

Record bq_line := mkBq { q_bMark : Z; q_tShift : Z; q_sCount : Z; q_bsCount : Z; q_empty : bool }.

Definition bq_strip (src : str) (pos0 maximum sCount bsCount : Z) : res bq_line :=
  let pos := pos0 + 1 in
  let initial0 := sCount + 1 in
  let second := char_at src pos in
  let '(pos1, initial, offset, adjustTab, spaceAfter) :=
    match second with
    | Some 32 => (pos + 1, initial0 + 1, initial0 + 1, false, true)
    | Some 9 =>
        if (bsCount + initial0) mod 4 =? 3 then (pos + 1, initial0 + 1, initial0 + 1, false, true)
        else (pos, initial0, initial0, true, true)
    | _ => (pos, initial0, initial0, false, false)
    end in
  do (pos2, offset2) <- bq_blanks (S (length src)) src pos1 maximum offset bsCount adjustTab;
  Ok (mkBq pos1 (pos2 - pos1) (offset2 - initial) (bsCount + sCount + 1 + (if spaceAfter then 1 else 0)) (maximum <=? pos2)).

(* saved table entries, in line order *)
Record saved := mkSaved { o_b : list Z; o_bs : list Z; o_ts : list Z; o_sc : list Z }.
Definition save_line (sv : saved) (st : bstate) (line : Z) : res saved :=
  do b <- tb (b_bMarks st) line; do bs <- tb (b_bsCount st) line;
  do ts <- tb (b_tShift st) line; do sc <- tb (b_sCount st) line;
  Ok (mkSaved (o_b sv ++ [b]) (o_bs sv ++ [bs]) (o_ts sv ++ [ts]) (o_sc sv ++ [sc])).

Definition apply_bq (st : bstate) (line : Z) (q : bq_line) : res bstate :=
  do bm <- tb_set (b_bMarks st) line (q_bMark q);
  do bs <- tb_set (b_bsCount st) line (q_bsCount q);
  do sc <- tb_set (b_sCount st) line (q_sCount q);
  do ts <- tb_set (b_tShift st) line (q_tShift q);
  Ok (st <| b_bMarks := bm |> <| b_bsCount := bs |> <| b_sCount := sc |> <| b_tShift := ts |>).

(* the loop over the following lines; returns (nextLine, saved, state, lineMax') *)
Fixpoint bq_loop (fuel : nat) (term : term_t) (st : bstate) (sv : saved) (nextLine endLine : Z) (lastLineEmpty : bool)
  : res (Z * saved * bstate) :=
  match fuel with
  | O => OutOfFuel
  | S f =>
      if negb (nextLine <? endLine) then Ok (nextLine, sv, st)
      else
        do sc <- tb (b_sCount st) nextLine;
        let isOutdented := sc <? b_blkIndent st in
        do pos <- line_start st nextLine;
        do maximum <- tb (b_eMarks st) nextLine;
        if maximum <=? pos then Ok (nextLine, sv, st)
        else
          do c <- py_idx (b_src st) pos;
          if (c =? 62) && negb isOutdented then
            do bs <- tb (b_bsCount st) nextLine;
            do q <- bq_strip (b_src st) pos maximum sc bs;
            do sv' <- save_line sv st nextLine;
            do st' <- apply_bq st nextLine q;
            bq_loop f term st' sv' (nextLine + 1) endLine (q_empty q)
          else if lastLineEmpty then Ok (nextLine, sv, st)
          else
            do (t, st1) <- term nm_blockquote st nextLine endLine;
            if t then
              let st2 := st1 <| b_lineMax := nextLine |> in
              if negb (b_blkIndent st2 =? 0) then
                do sv' <- save_line sv st2 nextLine;
                do scs <- tb_set (b_sCount st2) nextLine (sc - b_blkIndent st2);
                Ok (nextLine, sv', st2 <| b_sCount := scs |>)
              else Ok (nextLine, sv, st2)
            else
              do sv' <- save_line sv st1 nextLine;
              do scs <- tb_set (b_sCount st1) nextLine (-1);
              bq_loop f term (st1 <| b_sCount := scs |>) sv' (nextLine + 1) endLine lastLineEmpty
  end.

Fixpoint restore_tables (st : bstate) (line : Z) (b bs ts sc : list Z) : res bstate :=
  match ts, b, sc, bs with
  | t :: ts', x :: b', s :: sc', y :: bs' =>
      do bm <- tb_set (b_bMarks st) line x;
      do tsl <- tb_set (b_tShift st) line t;
      do scl <- tb_set (b_sCount st) line s;
      do bsl <- tb_set (b_bsCount st) line y;
      restore_tables (st <| b_bMarks := bm |> <| b_tShift := tsl |> <| b_sCount := scl |> <| b_bsCount := bsl |>)
                     (line + 1) b' bs' ts' sc'
  | [], _, _, _ => Ok st
  | _, _, _, _ => Raise IndexError
  end.

Definition set_map_at (tokens : list token) (idx : nat) (f : option (Z * Z) -> option (Z * Z)) : list token :=
  update_nth_tok idx (fun t => set_map t (f (tmap t))) tokens.

Definition r_blockquote (rec : rec_t) (term : term_t) (st : bstate) (startLine endLine : Z) (silent : bool)
  : res (bool * bstate) :=
  let oldLineMax := b_lineMax st in
  do pos <- line_start st startLine;
  do maximum <- tb (b_eMarks st) startLine;
  do cb <- code_block_at st startLine;
  if cb then Ok (false, st)
  else match char_at (b_src st) pos with
       | Some 62 =>
           if silent then Ok (true, st)
           else
             do sc <- tb (b_sCount st) startLine;
             do bs <- tb (b_bsCount st) startLine;
             do q <- bq_strip (b_src st) pos maximum sc bs;
             do sv0 <- save_line (mkSaved [] [] [] []) st startLine;
             do st1 <- apply_bq st startLine q;
             let oldParentType := b_parentType st1 in
             let st2 := st_parent st1 nm_blockquote in
             do (nextLine, sv, st3) <- bq_loop (S (Z.to_nat (endLine - startLine))) term st2 sv0 (startLine + 1) endLine (q_empty q);
             let oldIndent := b_blkIndent st3 in
             let st4 := st3 <| b_blkIndent := 0 |> in
             let idx := length (b_tokens st4) in
             let st5 := bpush st4 [98; 108; 111; 99; 107; 113; 117; 111; 116; 101; 95; 111; 112; 101; 110] nm_blockquote 1
                              (fun t => map_tok startLine 0 (set_markup t [62])) in
             do st6 <- rec st5 startLine nextLine;
             let st7 := bpush st6 [98; 108; 111; 99; 107; 113; 117; 111; 116; 101; 95; 99; 108; 111; 115; 101] nm_blockquote (-1)
                              (fun t => set_markup t [62]) in
             let st8 := st_parent (st7 <| b_lineMax := oldLineMax |>) oldParentType in
             let st9 := st8 <| b_tokens := set_map_at (b_tokens st8) idx (fun _ => Some (startLine, b_line st8)) |> in
             do st10 <- restore_tables st9 startLine (o_b sv) (o_bs sv) (o_ts sv) (o_sc sv);
             Ok (true, st10 <| b_blkIndent := oldIndent |>)
       | _ => Ok (false, st)
       end.

(* ---- list ---- *)

Definition skip_bullet (st : bstate) (line : Z) : res Z :=
  do pos <- line_start st line;
  do maximum <- tb (b_eMarks st) line;
  match char_at (b_src st) pos with
  | None => Ok (-1)
  | Some marker =>
      if negb ((marker =? 42) || (marker =? 45) || (marker =? 43)) then Ok (-1)
      else if pos + 1 <? maximum then
        do ch <- py_idx (b_src st) (pos + 1);
        Ok (if is_space ch then pos + 1 else -1)
      else Ok (pos + 1)
  end.

Fixpoint ordered_digits (fuel : nat) (src : str) (start pos maximum : Z) : res Z :=
  match fuel with
  | O => Ok (-1)
  | S f =>
      if maximum <=? pos then Ok (-1)
      else
        do ch <- py_idx src pos;
        let p := pos + 1 in
        if is_digit ch then (if 10 <=? p - start then Ok (-1) else ordered_digits f src start p maximum)
        else if (ch =? 41) || (ch =? 46) then
          (if p <? maximum then do c <- py_idx src p; Ok (if is_space c then p else -1) else Ok p)
        else Ok (-1)
  end.

Definition skip_ordered (st : bstate) (line : Z) : res Z :=
  do start <- line_start st line;
  do maximum <- tb (b_eMarks st) line;
  if maximum <=? start + 1 then Ok (-1)
  else
    do ch <- py_idx (b_src st) start;
    if negb (is_digit ch) then Ok (-1)
    else ordered_digits 12 (b_src st) start (start + 1) maximum.

(* markTightParagraphs(state, idx) *)
Fixpoint mark_tight (fuel : nat) (tokens : list token) (i length level : Z) : list token :=
  match fuel with
  | O => tokens
  | S f =>
      if negb (i <? length) then tokens
      else match nth_error tokens (Z.to_nat i) with
           | Some t =>
               if (tlevel t =? level) && str_eqb (ttype t) [112; 97; 114; 97; 103; 114; 97; 112; 104; 95; 111; 112; 101; 110]
               then mark_tight f (update_nth_tok (Z.to_nat i) (fun x => set_hidden x true)
                                    (update_nth_tok (Z.to_nat (i + 2)) (fun x => set_hidden x true) tokens))
                               (i + 3) length level
               else mark_tight f tokens (i + 1) length level
           | None => tokens
           end
  end.

Fixpoint list_blanks (fuel : nat) (src : str) (pos maximum offset bs : Z) : res (Z * Z) :=
  match fuel with
  | O => Ok (pos, offset)
  | S f =>
      if negb (pos <? maximum) then Ok (pos, offset)
      else do ch <- py_idx src pos;
           if ch =? 9 then list_blanks f src (pos + 1) maximum (offset + (4 - (offset + bs) mod 4)) bs
           else if ch =? 32 then list_blanks f src (pos + 1) maximum (offset + 1) bs
           else Ok (pos, offset)
  end.

Definition s_li : str := [108; 105].
Definition s_list_item_open : str := [108; 105; 115; 116; 95; 105; 116; 101; 109; 95; 111; 112; 101; 110].
Definition s_list_item_close : str := [108; 105; 115; 116; 95; 105; 116; 101; 109; 95; 99; 108; 111; 115; 101].
Definition s_start : str := [115; 116; 97; 114; 116].

(* the item loop.  State carried: startLine, nextLine, posAfterMarker, start, tight, prevEmptyEnd *)
Fixpoint list_items (fuel : nat) (rec : rec_t) (term : term_t) (st : bstate) (isOrdered : bool) (markerChar : Z)
         (startLine nextLine endLine posAfterMarker start : Z) (tight prevEmptyEnd : bool)
  : res (Z * bool * bstate) :=
  match fuel with
  | O => OutOfFuel
  | S f =>
      if negb (nextLine <? endLine) then Ok (nextLine, tight, st)
      else
        do maximum <- tb (b_eMarks st) nextLine;
        do scn <- tb (b_sCount st) nextLine;
        do ls <- line_start st startLine;
        do bsn <- tb (b_bsCount st) nextLine;
        let initial := scn + posAfterMarker - ls in
        do (contentStart, offset) <- list_blanks (S (length (b_src st))) (b_src st) posAfterMarker maximum initial bsn;
        let iam0 := if maximum <=? contentStart then 1 else offset - initial in
        let indentAfterMarker := if 4 <? iam0 then 1 else iam0 in
        let indent := initial + indentAfterMarker in
        let idx := length (b_tokens st) in
        let st1 := bpush st s_list_item_open s_li 1
                         (fun t => (if isOrdered then (fun x => set_info x (slice (b_src st) start (posAfterMarker - 1))) else (fun x => x))
                                     (map_tok startLine 0 (set_markup t [markerChar]))) in
        let oldTight := b_tight st1 in
        do oldTShift <- tb (b_tShift st1) startLine;
        do oldSCount <- tb (b_sCount st1) startLine;
        let oldListIndent := b_listIndent st1 in
        do bms <- tb (b_bMarks st1) startLine;
        do ts' <- tb_set (b_tShift st1) startLine (contentStart - bms);
        do sc' <- tb_set (b_sCount st1) startLine offset;
        let st2 := st1 <| b_listIndent := b_blkIndent st1 |> <| b_blkIndent := indent |> <| b_tight := true |>
                       <| b_tShift := ts' |> <| b_sCount := sc' |> in
        do st3 <-
          (do e <- (if maximum <=? contentStart then is_empty st2 (startLine + 1) else Ok false);
           if e then Ok (st_line st2 (Z.min (b_line st2 + 2) endLine))
           else rec st2 startLine endLine);
        let tight' := if negb (b_tight st3) || prevEmptyEnd then false else tight in
        do pee <- (if 1 <? b_line st3 - startLine then is_empty st3 (b_line st3 - 1) else Ok false);
        do ts'' <- tb_set (b_tShift st3) startLine oldTShift;
        do sc'' <- tb_set (b_sCount st3) startLine oldSCount;
        let st4 := st3 <| b_blkIndent := b_listIndent st3 |> <| b_listIndent := oldListIndent |>
                       <| b_tShift := ts'' |> <| b_sCount := sc'' |> <| b_tight := oldTight |> in
        let st5 := bpush st4 s_list_item_close s_li (-1) (fun t => set_markup t [markerChar]) in
        let nl := b_line st5 in
        let st6 := st5 <| b_tokens := set_map_at (b_tokens st5) idx (fun _ => Some (startLine, nl)) |> in
        if endLine <=? nl then Ok (nl, tight', st6)
        else
          do scn2 <- tb (b_sCount st6) nl;
          if scn2 <? b_blkIndent st6 then Ok (nl, tight', st6)
          else
            do cb <- code_block_at st6 nl;
            if cb then Ok (nl, tight', st6)
            else
              do (t, st7) <- term nm_list st6 nl endLine;
              if t then Ok (nl, tight', st7)
              else
                do pam <- (if isOrdered then skip_ordered st7 nl else skip_bullet st7 nl);
                if pam <? 0 then Ok (nl, tight', st7)
                else
                  do start' <- (if isOrdered then line_start st7 nl else Ok start);
                  do mc <- py_idx (b_src st7) (pam - 1);
                  if negb (mc =? markerChar) then Ok (nl, tight', st7)
                  else list_items f rec term st7 isOrdered markerChar nl nl endLine pam start' tight' pee
  end.

Definition r_list (rec : rec_t) (term : term_t) (st : bstate) (startLine endLine : Z) (silent : bool)
  : res (bool * bstate) :=
  do cb <- code_block_at st startLine;
  if cb then Ok (false, st)
  else
    do sc <- tb (b_sCount st) startLine;
    if (0 <=? b_listIndent st) && (4 <=? sc - b_listIndent st) && (sc <? b_blkIndent st) then Ok (false, st)
    else
      let isTerm := silent && str_eqb (b_parentType st) nm_paragraph && (b_blkIndent st <=? sc) in
      do pamo <- skip_ordered st startLine;
      do start <- line_start st startLine;
      do sel <-
        (if 0 <=? pamo then
           let mv := int_of_digits (slice (b_src st) start (pamo - 1)) in
           if isTerm && negb (mv =? 1) then Ok None else Ok (Some (true, pamo, mv))
         else
           do pamb <- skip_bullet st startLine;
           if 0 <=? pamb then Ok (Some (false, pamb, 0)) else Ok None);
      match sel with
      | None => Ok (false, st)
      | Some (isOrdered, pam, markerValue) =>
          do em <- tb (b_eMarks st) startLine;
          if isTerm && (em <=? skip_spaces (b_src st) pam) then Ok (false, st)
          else
            do markerChar <- py_idx (b_src st) (pam - 1);
            if silent then Ok (true, st)
            else
              let listTokIdx := length (b_tokens st) in
              let st1 :=
                if isOrdered then
                  bpush st [111; 114; 100; 101; 114; 101; 100; 95; 108; 105; 115; 116; 95; 111; 112; 101; 110] [111; 108] 1
                        (fun t => map_tok startLine 0 (set_markup
                                    (if negb (markerValue =? 1) then set_attrs t [(s_start, AInt markerValue)] else t) [markerChar]))
                else
                  bpush st [98; 117; 108; 108; 101; 116; 95; 108; 105; 115; 116; 95; 111; 112; 101; 110] [117; 108] 1
                        (fun t => map_tok startLine 0 (set_markup t [markerChar])) in
              let oldParentType := b_parentType st1 in
              let st2 := st_parent st1 nm_list in
              do (nextLine, tight, st3) <- list_items (S (Z.to_nat (endLine - startLine))) rec term st2 isOrdered markerChar
                                                       startLine startLine endLine pam start true false;
              let st4 :=
                if isOrdered then
                  bpush st3 [111; 114; 100; 101; 114; 101; 100; 95; 108; 105; 115; 116; 95; 99; 108; 111; 115; 101] [111; 108] (-1)
                        (fun t => set_markup t [markerChar])
                else
                  bpush st3 [98; 117; 108; 108; 101; 116; 95; 108; 105; 115; 116; 95; 99; 108; 111; 115; 101] [117; 108] (-1)
                        (fun t => set_markup t [markerChar]) in
              let st5 := st_parent (st_line (st4 <| b_tokens := set_map_at (b_tokens st4) listTokIdx (fun _ => Some (startLine, nextLine)) |>) nextLine)
                                   oldParentType in
              let st6 := if tight
                         then st5 <| b_tokens := mark_tight (S (length (b_tokens st5))) (b_tokens st5) (Z.of_nat listTokIdx + 2)
                                                            (len (b_tokens st5) - 2) (b_level st5 + 2) |>
                         else st5 in
              Ok (true, st6)
      end.

(* ---- table ---- *)

Definition get_line (st : bstate) (line : Z) : res str :=
  do pos <- line_start st line; do maximum <- tb (b_eMarks st) line; Ok (slice (b_src st) pos maximum).

(* escapedSplit *)
Fixpoint esc_split (fuel : nat) (s : str) (pos mx lastPos : Z) (isEscaped : bool) (current : str) (acc : list str) : list str :=
  match fuel with
  | O => acc
  | S f =>
      if negb (pos <? mx) then acc ++ [current ++ slice_from s lastPos]
      else
        let ch := char_at s pos in
        let is_pipe := match ch with Some 124 => true | _ => false end in
        let '(acc', current', lastPos') :=
          if is_pipe then
            if negb isEscaped then (acc ++ [current ++ slice s lastPos pos], [], pos + 1)
            else (acc, current ++ slice s lastPos (pos - 1), pos)
          else (acc, current, lastPos) in
        esc_split f s (pos + 1) mx lastPos' (match ch with Some 92 => true | _ => false end) current' acc'
  end.
Definition escaped_split (s : str) : list str := esc_split (S (S (length s))) s 0 (len s) 0 false [] [].

Definition trim_cols (cols : list str) : list str :=
  let c1 := match cols with [] :: r => r | _ => cols end in
  match rev c1 with [] :: r => rev r | _ => c1 end.

Fixpoint table_aligns (cols : list str) (i n : Z) : option (list str) :=
  match cols with
  | [] => Some []
  | c :: rest =>
      let t := py_strip c in
      match t with
      | [] => if (i =? 0) || (i =? n - 1) then table_aligns rest (i + 1) n else None
      | _ =>
          if negb (test re_table_headerLineRe t) then None
          else
            let a := if match char_at t (len t - 1) with Some 58 => true | _ => false end
                     then (if match char_at t 0 with Some 58 => true | _ => false end
                           then [99; 101; 110; 116; 101; 114] else [114; 105; 103; 104; 116])
                     else if match char_at t 0 with Some 58 => true | _ => false end then [108; 101; 102; 116] else [] in
            match table_aligns rest (i + 1) n with Some r => Some (a :: r) | None => None end
      end
  end.

Fixpoint delim_chars (fuel : nat) (src : str) (pos maximum : Z) : res bool :=
  match fuel with
  | O => Ok true
  | S f =>
      if negb (pos <? maximum) then Ok true
      else do ch <- py_idx src pos;
           if negb ((ch =? 124) || (ch =? 45) || (ch =? 58)) && negb (is_space ch) then Ok false
           else delim_chars f src (pos + 1) maximum
  end.

Definition s_style : str := [115; 116; 121; 108; 101].
Definition s_text_align : str := [116; 101; 120; 116; 45; 97; 108; 105; 103; 110; 58].

Definition cell_attrs (a : str) (t : token) : token :=
  match a with [] => t | _ => set_attrs t [(s_style, AStr (s_text_align ++ a))] end.

Fixpoint push_cells (st : bstate) (open_ty close_ty tag : str) (aligns : list str) (cols : list str) (a b : Z) (strip_nonempty : bool) : bstate :=
  match aligns with
  | [] => st
  | al :: aligns' =>
      let col := match cols with c :: _ => Some c | [] => None end in
      let content := match col with
                     | Some c => if strip_nonempty then (match c with [] => [] | _ => strip_by is_space c end) else strip_by is_space c
                     | None => []
                     end in
      let st1 := bpush st open_ty tag 1 (cell_attrs al) in
      let st2 := push_inline st1 content a b in
      let st3 := bpush st2 close_ty tag (-1) (fun t => t) in
      push_cells st3 open_ty close_ty tag aligns' (match cols with _ :: r => r | [] => [] end) a b strip_nonempty
  end.

Definition s_tr_open : str := [116; 114; 95; 111; 112; 101; 110].
Definition s_tr_close : str := [116; 114; 95; 99; 108; 111; 115; 101].
Definition s_tr : str := [116; 114].

Fixpoint table_rows (fuel : nat) (term : term_t) (st : bstate) (aligns : list str) (startLine nextLine endLine : Z) (tbody : option nat)
  : res (Z * option nat * bstate) :=
  match fuel with
  | O => OutOfFuel
  | S f =>
      if negb (nextLine <? endLine) then Ok (nextLine, tbody, st)
      else
        do sc <- tb (b_sCount st) nextLine;
        if sc <? b_blkIndent st then Ok (nextLine, tbody, st)
        else
          do (t, st1) <- term nm_blockquote st nextLine endLine;
          if t then Ok (nextLine, tbody, st1)
          else
            do raw <- get_line st1 nextLine;
            let lineText := py_strip raw in
            match lineText with
            | [] => Ok (nextLine, tbody, st1)
            | _ =>
                do cb <- code_block_at st1 nextLine;
                if cb then Ok (nextLine, tbody, st1)
                else
                  let columns := trim_cols (escaped_split lineText) in
                  let '(st2, tbody') :=
                    if nextLine =? startLine + 2 then
                      (bpush st1 [116; 98; 111; 100; 121; 95; 111; 112; 101; 110] [116; 98; 111; 100; 121] 1
                             (map_tok (startLine + 2) 0), Some (length (b_tokens st1)))
                    else (st1, tbody) in
                  let st3 := bpush st2 s_tr_open s_tr 1 (map_tok nextLine (nextLine + 1)) in
                  let st4 := push_cells st3 [116; 100; 95; 111; 112; 101; 110] [116; 100; 95; 99; 108; 111; 115; 101] [116; 100]
                                        aligns columns nextLine (nextLine + 1) true in
                  let st5 := bpush st4 s_tr_close s_tr (-1) (fun t => t) in
                  table_rows f term st5 aligns startLine (nextLine + 1) endLine tbody'
            end
  end.

Definition r_table (term : term_t) (st : bstate) (startLine endLine : Z) (silent : bool) : res (bool * bstate) :=
  if endLine <? startLine + 2 then Ok (false, st)
  else
    let nextLine := startLine + 1 in
    do sc <- tb (b_sCount st) nextLine;
    if sc <? b_blkIndent st then Ok (false, st)
    else
      do cb <- code_block_at st nextLine;
      if cb then Ok (false, st)
      else
        do pos <- line_start st nextLine;
        do em <- tb (b_eMarks st) nextLine;
        if em <=? pos then Ok (false, st)
        else
          do first_ch <- py_idx (b_src st) pos;
          if negb ((first_ch =? 124) || (first_ch =? 45) || (first_ch =? 58)) then Ok (false, st)
          else if em <=? pos + 1 then Ok (false, st)
          else
            do second_ch <- py_idx (b_src st) (pos + 1);
            if negb ((second_ch =? 124) || (second_ch =? 45) || (second_ch =? 58)) && negb (is_space second_ch) then Ok (false, st)
            else if (first_ch =? 45) && is_space second_ch then Ok (false, st)
            else
              do okc <- delim_chars (S (length (b_src st))) (b_src st) (pos + 2) em;
              if negb okc then Ok (false, st)
              else
                do delim <- get_line st (startLine + 1);
                let dcols := split_char 124 delim in
                match table_aligns dcols 0 (len dcols) with
                | None => Ok (false, st)
                | Some aligns =>
                    do hraw <- get_line st startLine;
                    let lineText := py_strip hraw in
                    if negb (mem_z 124 lineText) then Ok (false, st)
                    else
                      do cb2 <- code_block_at st startLine;
                      if cb2 then Ok (false, st)
                      else
                        let columns := trim_cols (escaped_split lineText) in
                        let columnCount := len columns in
                        if (columnCount =? 0) || negb (columnCount =? len aligns) then Ok (false, st)
                        else if silent then Ok (true, st)
                        else
                          let old := b_parentType st in
                          let st0 := st_parent st nm_table in
                          let tidx := length (b_tokens st0) in
                          let st1 := bpush st0 [116; 97; 98; 108; 101; 95; 111; 112; 101; 110] nm_table 1 (map_tok startLine 0) in
                          let st2 := bpush st1 [116; 104; 101; 97; 100; 95; 111; 112; 101; 110] [116; 104; 101; 97; 100] 1 (map_tok startLine (startLine + 1)) in
                          let st3 := bpush st2 s_tr_open s_tr 1 (map_tok startLine (startLine + 1)) in
                          let st4 := push_cells st3 [116; 104; 95; 111; 112; 101; 110] [116; 104; 95; 99; 108; 111; 115; 101] [116; 104]
                                                aligns columns startLine (startLine + 1) false in
                          let st5 := bpush st4 s_tr_close s_tr (-1) (fun t => t) in
                          let st6 := bpush st5 [116; 104; 101; 97; 100; 95; 99; 108; 111; 115; 101] [116; 104; 101; 97; 100] (-1) (fun t => t) in
                          do (nl, tbody, st7) <- table_rows (S (Z.to_nat (endLine - startLine))) term st6 aligns startLine (startLine + 2) endLine None;
                          let st8 := match tbody with
                                     | Some bi =>
                                         let s1 := bpush st7 [116; 98; 111; 100; 121; 95; 99; 108; 111; 115; 101] [116; 98; 111; 100; 121] (-1) (fun t => t) in
                                         s1 <| b_tokens := set_map_at (b_tokens s1) bi (fun _ => Some (startLine + 2, nl)) |>
                                     | None => st7 end in
                          let st9 := bpush st8 [116; 97; 98; 108; 101; 95; 99; 108; 111; 115; 101] nm_table (-1) (fun t => t) in
                          let st10 := st9 <| b_tokens := set_map_at (b_tokens st9) tidx (fun _ => Some (startLine, nl)) |> in
                          Ok (true, st_line (st_parent st10 old) nl)
                end.

(* ---- dispatch and the parser loop ---------------------------------------------------- *)

Definition apply_rule (rec : rec_t) (term : term_t) (name : str) (st : bstate) (startLine endLine : Z) (silent : bool)
  : res (bool * bstate) :=
  if str_eqb name nm_table then r_table term st startLine endLine silent
  else if str_eqb name nm_code then r_code st startLine endLine silent
  else if str_eqb name nm_fence then r_fence st startLine endLine silent
  else if str_eqb name nm_blockquote then r_blockquote rec term st startLine endLine silent
  else if str_eqb name nm_hr then r_hr st startLine endLine silent
  else if str_eqb name nm_list then r_list rec term st startLine endLine silent
  else if str_eqb name nm_reference then r_reference term st startLine endLine silent
  else if str_eqb name nm_html_block then r_html_block st startLine endLine silent
  else if str_eqb name nm_heading then r_heading st startLine endLine silent
  else if str_eqb name nm_lheading then r_lheading term st startLine endLine silent
  else if str_eqb name nm_paragraph then r_paragraph term st startLine endLine silent
  else Ok (false, st).              (* unknown (plugin) rule: not modelled *)

Definition no_rec : rec_t := fun _ _ _ => OutOfFuel.
Definition no_term : term_t := fun _ _ _ _ => OutOfFuel.

(* a terminator chain: each rule in silent mode; silent rules never recurse or call terminators *)
Fixpoint run_chain (names : list str) (st : bstate) (line endLine : Z) : res (bool * bstate) :=
  match names with
  | [] => Ok (false, st)
  | n :: rest =>
      do (r, st') <- apply_rule no_rec no_term n st line endLine true;
      if r then Ok (true, st') else run_chain rest st' line endLine
  end.
Definition terminated : term_t := fun chain st line endLine => run_chain (c_term cfg chain) st line endLine.

Fixpoint try_rules (rec : rec_t) (names : list str) (st : bstate) (line endLine : Z) : res bstate :=
  match names with
  | [] => Ok st
  | n :: rest =>
      do (r, st') <- apply_rule rec terminated n st line endLine false;
      if r then Ok st' else try_rules rec rest st' line endLine
  end.

(* ParserBlock.tokenize: [depth] bounds the container nesting, [fuel] the line loop *)
Fixpoint tok_loop (fuel : nat) (rec : rec_t) (st : bstate) (line endLine : Z) (hasEmptyLines : bool) : res bstate :=
  match fuel with
  | O => OutOfFuel
  | S f =>
      if negb (line <? endLine) then Ok st
      else
        let line1 := skip_empty_lines (S (Z.to_nat (b_lineMax st))) st line in
        let st1 := st_line st line1 in
        if endLine <=? line1 then Ok st1
        else
          do sc <- tb (b_sCount st1) line1;
          if sc <? b_blkIndent st1 then Ok st1
          else if c_maxNesting cfg <=? b_level st1 then Ok (st_line st1 endLine)
          else
            do st2 <- try_rules rec (c_rules cfg) st1 line1 endLine;
            let st3 := st2 <| b_tight := negb hasEmptyLines |> in
            let line2 := b_line st3 in
            do e1 <- (if line2 - 1 <? endLine then is_empty st3 (line2 - 1) else Ok false);
            let hel := hasEmptyLines || e1 in
            do e2 <- (if line2 <? endLine then is_empty st3 line2 else Ok false);
            if e2 then tok_loop f rec (st_line st3 (line2 + 1)) (line2 + 1) endLine true
            else tok_loop f rec st3 line2 endLine hel
  end.

Fixpoint tokenize (depth : nat) (st : bstate) (startLine endLine : Z) : res bstate :=
  match depth with
  | O => OutOfFuel
  | S d => tok_loop (S (S (Z.to_nat (endLine - startLine)))) (tokenize d) st startLine endLine false
  end.

(* ParserBlock.parse *)
Definition block_parse (src : str) (env : envt) (tokens : list token) : res bstate :=
  match src with
  | [] => Ok (state_init src env tokens)
  | _ => let st := state_init src env tokens in
         tokenize (S (S (Z.to_nat (c_maxNesting cfg)))) st (b_line st) (b_lineMax st)
  end.

End Rules.
