(* Model of markdown_it/parser_inline.py, rules_inline/*.py, helpers/parse_link_label.py. *)
From RecordUpdate Require Import RecordUpdate.
From MD Require Import Base.Py Base.Str Base.Regex Base.Opt Model.Token Model.Utils Model.StateBlock
     Model.Helpers Model.Url Model.Render Model.Core.
From MD Require Import Gen.Regexes Gen.Tables Gen.Entities.

Record delim := mkD { d_marker : Z; d_length : Z; d_token : Z; d_end : Z; d_open : bool; d_close : bool }.
#[export] Instance eta_delim : Settable _ := settable! mkD <d_marker; d_length; d_token; d_end; d_open; d_close>.

Record istate := mkI {
  i_src : str; i_env : envt;
  i_tokens : list token;
  i_meta : list (option nat);          (* tokens_meta: Some id = {"delimiters": store[id]} *)
  i_pos : Z; i_posMax : Z; i_level : Z; i_pending : str; i_pendingLevel : Z;
  i_cache : list (Z * Z);
  i_dstore : list (list delim);        (* all delimiter lists; id 0 is the top-level one *)
  i_cur : nat;                         (* state.delimiters is store[i_cur] *)
  i_prev : list nat;                   (* _prev_delimiters, top first *)
  i_backticks : list (Z * Z); i_backticksScanned : bool; i_linkLevel : Z
}.
#[export] Instance eta_istate : Settable _ :=
  settable! mkI <i_src; i_env; i_tokens; i_meta; i_pos; i_posMax; i_level; i_pending; i_pendingLevel; i_cache;
                 i_dstore; i_cur; i_prev; i_backticks; i_backticksScanned; i_linkLevel>.

Definition istate_init (src : str) (env : envt) (tokens : list token) : istate :=
  mkI src env tokens (map (fun _ => None) tokens) 0 (len src) 0 [] 0 [] [[]] 0 [] [] false 0.

Record icfg := mkICfg {
  ic_rules : list str; ic_rules2 : list str;
  ic_maxNesting : Z; ic_html : bool; ic_linkify : bool; ic_store_labels : bool
}.

Fixpoint zlookup (k : Z) (m : list (Z * Z)) : option Z :=
  match m with [] => None | (k', v) :: m' => if k =? k' then Some v else zlookup k m' end.
Fixpoint zset (k v : Z) (m : list (Z * Z)) : list (Z * Z) :=
  match m with
  | [] => [(k, v)]
  | (k', v') :: m' => if k =? k' then (k, v) :: m' else (k', v') :: zset k v m'
  end.

Definition upd_nth_l {A} (n : nat) (f : A -> A) (l : list A) : list A :=
  (fix go (n : nat) (l : list A) : list A :=
     match l, n with
     | [], _ => []
     | x :: l', O => f x :: l'
     | x :: l', S n' => x :: go n' l'
     end) n l.

Definition update_nth_tok' (n : nat) (f : token -> token) (l : list token) : list token := upd_nth_l n f l.

Definition cur_delims (st : istate) : list delim := nth (i_cur st) (i_dstore st) [].
Definition add_delim (st : istate) (d : delim) : istate :=
  st <| i_dstore := upd_nth_l (i_cur st) (fun l => l ++ [d]) (i_dstore st) |>.

(* pushPending *)
Definition push_pending (st : istate) : istate :=
  st <| i_tokens := i_tokens st ++ [set_level (set_content (new_token s_text [] 0) (i_pending st)) (i_pendingLevel st)] |>
     <| i_pending := [] |>.

(* push *)
Definition ipush (st : istate) (ty tag : str) (nesting : Z) (f : token -> token) : res istate :=
  let st0 := match i_pending st with [] => st | _ => push_pending st end in
  do st1 <-
    (if nesting <? 0 then
       match i_prev st0 with
       | p :: rest => Ok (st0 <| i_level := i_level st0 - 1 |> <| i_cur := p |> <| i_prev := rest |>)
       | [] => Raise IndexError
       end
     else Ok st0);
  let t := f (set_level (new_token ty tag nesting) (i_level st1)) in
  let '(st2, meta) :=
    if 0 <? nesting then
      let id := length (i_dstore st1) in
      (st1 <| i_level := i_level st1 + 1 |> <| i_prev := i_cur st1 :: i_prev st1 |>
           <| i_dstore := i_dstore st1 ++ [[]] |> <| i_cur := id |>, Some id)
    else (st1, None) in
  Ok (st2 <| i_pendingLevel := i_level st2 |> <| i_tokens := i_tokens st2 ++ [t] |> <| i_meta := i_meta st2 ++ [meta] |>).

(* scanDelims(start, canSplitWord) -> (can_open, can_close, length) *)
Fixpoint run_len (fuel : nat) (src : str) (pos maximum marker : Z) : res Z :=
  match fuel with
  | O => Ok pos
  | S f => if pos <? maximum then do c <- py_idx src pos; if c =? marker then run_len f src (pos + 1) maximum marker else Ok pos
           else Ok pos
  end.

Definition scan_delims (st : istate) (start : Z) (canSplitWord : bool) : res (bool * bool * Z) :=
  do marker <- py_idx (i_src st) start;
  do lastChar <- (if 0 <? start then py_idx (i_src st) (start - 1) else Ok 32);
  do pos <- run_len (S (length (i_src st))) (i_src st) start (i_posMax st) marker;
  do nextChar <- (if pos <? i_posMax st then py_idx (i_src st) pos else Ok 32);
  let lastP := is_md_ascii_punct lastChar || is_punct_char lastChar in
  let nextP := is_md_ascii_punct nextChar || is_punct_char nextChar in
  let lastW := is_white_space lastChar in
  let nextW := is_white_space nextChar in
  let left := negb (nextW || (nextP && negb (lastW || lastP))) in
  let right := negb (lastW || (lastP && negb (nextW || nextP))) in
  Ok (if canSplitWord then (left, right, pos - start)
      else (left && (negb right || lastP), right && (negb left || nextP), pos - start)).

(* ---- the callbacks rules may use ---- *)
Record ifuncs := mkF {
  f_tokenize : istate -> res istate;          (* ParserInline.tokenize *)
  f_skip : istate -> res istate;              (* ParserInline.skipToken *)
  f_parse : str -> envt -> res (list token)   (* ParserInline.parse on a fresh state *)
}.

Section IRules.
Context (cfg : icfg).
Context (reformat casefold linktext : str -> str).
Context (F : ifuncs).

(* ---- text ---- *)
Fixpoint find_terminator (s : str) (i : Z) : option Z :=
  match s with
  | [] => None
  | c :: s' => if mem_z c text_terminators then Some i else find_terminator s' (i + 1)
  end.

Definition r_text (st : istate) (silent : bool) : res (bool * istate) :=
  let pos := match find_terminator (skipn (Z.to_nat (i_pos st)) (i_src st)) (i_pos st) with
             | Some p => p | None => i_posMax st end in
  if pos =? i_pos st then Ok (false, st)
  else Ok (true, (if silent then st else st <| i_pending := i_pending st ++ slice (i_src st) (i_pos st) pos |>) <| i_pos := pos |>).

(* ---- linkify (the optional linkifier is not installed: only its guard is modelled) ---- *)
Definition r_linkify (st : istate) (silent : bool) : res (bool * istate) :=
  if negb (ic_linkify cfg) then Ok (false, st)
  else if 0 <? i_linkLevel st then Ok (false, st)
  else Raise ModuleNotFound.

(* ---- newline ---- *)
Definition s_hardbreak_ : str := s_hardbreak.
Fixpoint skip_sp_fwd (fuel : nat) (src : str) (pos maximum : Z) : res Z :=
  match fuel with
  | O => Ok pos
  | S f => if pos <? maximum then do c <- py_idx src pos; if is_space c then skip_sp_fwd f src (pos + 1) maximum else Ok pos
           else Ok pos
  end.

Fixpoint ws_tail (fuel : nat) (pending : str) (ws : Z) : Z :=
  match fuel with
  | O => ws
  | S f => if (1 <=? ws) && (match char_at pending (ws - 1) with Some 32 => true | _ => false end)
           then ws_tail f pending (ws - 1) else ws
  end.

Definition s_br : str := [98; 114].

Definition r_newline (st : istate) (silent : bool) : res (bool * istate) :=
  do c <- py_idx (i_src st) (i_pos st);
  if negb (c =? 10) then Ok (false, st)
  else
    let pmax := len (i_pending st) - 1 in
    do st1 <-
      (if silent then Ok st
       else if (0 <=? pmax) && (match char_at (i_pending st) pmax with Some 32 => true | _ => false end) then
         if (1 <=? pmax) && (match char_at (i_pending st) (pmax - 1) with Some 32 => true | _ => false end) then
           let ws := ws_tail (S (length (i_pending st))) (i_pending st) (pmax - 1) in
           ipush (st <| i_pending := slice (i_pending st) 0 ws |>) s_hardbreak s_br 0 (fun t => t)
         else ipush (st <| i_pending := slice (i_pending st) 0 pmax |>) s_softbreak s_br 0 (fun t => t)
       else ipush st s_softbreak s_br 0 (fun t => t));
    do pos <- skip_sp_fwd (S (length (i_src st))) (i_src st) (i_pos st + 1) (i_posMax st);
    Ok (true, st1 <| i_pos := pos |>).

(* ---- escape ---- *)
Definition s_text_special_ : str := [116; 101; 120; 116; 95; 115; 112; 101; 99; 105; 97; 108].
Definition s_escape : str := [101; 115; 99; 97; 112; 101].
Definition s_entity : str := [101; 110; 116; 105; 116; 121].

Definition r_escape (st : istate) (silent : bool) : res (bool * istate) :=
  do c <- py_idx (i_src st) (i_pos st);
  if negb (c =? 92) then Ok (false, st)
  else
    let pos := i_pos st + 1 in
    if i_posMax st <=? pos then Ok (false, st)
    else
      do ch1 <- py_idx (i_src st) pos;
      if ch1 =? 10 then
        do st1 <- (if silent then Ok st else ipush st s_hardbreak s_br 0 (fun t => t));
        do p <- skip_sp_fwd (S (length (i_src st))) (i_src st) (pos + 1) (i_posMax st);
        Ok (true, st1 <| i_pos := p |>)
      else
        (* surrogate pairs cannot occur in valid text: escapedStr is the single character *)
        let escaped := [ch1] in
        let orig := 92 :: escaped in
        do st1 <- (if silent then Ok st
                   else ipush st s_text_special_ [] 0
                              (fun t => set_info (set_markup (set_content t (if mem_z ch1 escaped_table then escaped else orig)) orig) s_escape));
        Ok (true, st1 <| i_pos := pos + 1 |>).

(* ---- backticks ---- *)
Definition s_code : str := [99; 111; 100; 101].

Fixpoint bt_scan (fuel : nat) (st : istate) (matchEnd maximum openerLength : Z) (bts : list (Z * Z))
  : res (option (Z * Z) * list (Z * Z)) :=
  match fuel with
  | O => Ok (None, bts)
  | S f =>
      let ms := find_from [96] (i_src st) matchEnd in
      if ms =? -1 then Ok (None, bts)
      else
        do me <- run_len (S (length (i_src st))) (i_src st) (ms + 1) maximum 96;
        let closerLength := me - ms in
        if closerLength =? openerLength then Ok (Some (ms, me), bts)
        else bt_scan f st me maximum openerLength (zset closerLength ms bts)
  end.

Definition r_backticks (st : istate) (silent : bool) : res (bool * istate) :=
  let pos0 := i_pos st in
  do c <- py_idx (i_src st) pos0;
  if negb (c =? 96) then Ok (false, st)
  else
    let maximum := i_posMax st in
    do pos <- run_len (S (length (i_src st))) (i_src st) (pos0 + 1) maximum 96;
    let marker := slice (i_src st) pos0 pos in
    let openerLength := len marker in
    if i_backticksScanned st && ((match zlookup openerLength (i_backticks st) with Some v => v | None => 0 end) <=? pos0) then
      Ok (true, (if silent then st else st <| i_pending := i_pending st ++ marker |>) <| i_pos := i_pos st + openerLength |>)
    else
      do (found, bts) <- bt_scan (S (length (i_src st))) st pos maximum openerLength (i_backticks st);
      let st0 := st <| i_backticks := bts |> in
      match found with
      | Some (ms, me) =>
          do st1 <-
            (if silent then Ok st0
             else
               let raw := replace_char 10 [32] (slice (i_src st) pos ms) in
               let content := if starts_with [32] raw && ends_with [32] raw && negb (len (strip_by (Z.eqb 32) raw) =? 0)
                              then slice raw 1 (len raw - 1) else raw in
               ipush st0 s_code_inline s_code 0 (fun t => set_content (set_markup t marker) content));
          Ok (true, st1 <| i_pos := me |>)
      | None =>
          let st1 := st0 <| i_backticksScanned := true |> in
          Ok (true, (if silent then st1 else st1 <| i_pending := i_pending st1 ++ marker |>) <| i_pos := i_pos st1 + openerLength |>)
      end.

(* ---- strikethrough / emphasis tokenizers ---- *)
Fixpoint push_markers (n : nat) (st : istate) (content : str) (marker length : Z) (op cl : bool) : res istate :=
  match n with
  | O => Ok st
  | S n' =>
      do st1 <- ipush st s_text [] 0 (fun t => set_content t content);
      push_markers n' (add_delim st1 (mkD marker length (len (i_tokens st1) - 1) (-1) op cl)) content marker length op cl
  end.

Definition r_strikethrough (st : istate) (silent : bool) : res (bool * istate) :=
  do ch <- py_idx (i_src st) (i_pos st);
  if silent then Ok (false, st)
  else if negb (ch =? 126) then Ok (false, st)
  else
    do (op, cl, n) <- scan_delims st (i_pos st) true;
    if n <? 2 then Ok (false, st)
    else
      do st1 <- (if n mod 2 =? 1 then ipush st s_text [] 0 (fun t => set_content t [ch]) else Ok st);
      let pairs := (if n mod 2 =? 1 then n - 1 else n) / 2 in
      do st2 <- push_markers (Z.to_nat pairs) st1 [ch; ch] ch 0 op cl;
      Ok (true, st2 <| i_pos := i_pos st2 + n |>).

Definition r_emphasis (st : istate) (silent : bool) : res (bool * istate) :=
  do marker <- py_idx (i_src st) (i_pos st);
  if silent then Ok (false, st)
  else if negb ((marker =? 95) || (marker =? 42)) then Ok (false, st)
  else
    do (op, cl, n) <- scan_delims st (i_pos st) (marker =? 42);
    do st1 <- push_markers (Z.to_nat n) st [marker] marker n op cl;
    Ok (true, st1 <| i_pos := i_pos st1 + n |>).

(* ---- parseLinkLabel ---- *)
Fixpoint label_loop (fuel : nat) (st : istate) (level : Z) (disableNested : bool) (oldPos : Z) : res (Z * istate) :=
  match fuel with
  | O => OutOfFuel
  | S f =>
      if negb (i_pos st <? i_posMax st) then Ok (-1, st <| i_pos := oldPos |>)
      else
        do marker <- py_idx (i_src st) (i_pos st);
        if (marker =? 93) && (level - 1 =? 0) then Ok (i_pos st, st <| i_pos := oldPos |>)
        else
          let level1 := if marker =? 93 then level - 1 else level in
          let prevPos := i_pos st in
          do st1 <- f_skip F st;
          if marker =? 91 then
            if prevPos =? i_pos st1 - 1 then label_loop f st1 (level1 + 1) disableNested oldPos
            else if disableNested then Ok (-1, st1 <| i_pos := oldPos |>)
            else label_loop f st1 level1 disableNested oldPos
          else label_loop f st1 level1 disableNested oldPos
  end.

Definition parse_link_label (st : istate) (start : Z) (disableNested : bool) : res (Z * istate) :=
  label_loop (S (S (length (i_src st)))) (st <| i_pos := start + 1 |>) 1 disableNested (i_pos st).

(* ---- link / image ---- *)
Fixpoint skip_ws_nl_i (fuel : nat) (src : str) (pos maximum : Z) : res Z :=
  match fuel with
  | O => Ok pos
  | S f => if pos <? maximum then
             do c <- py_idx src pos;
             if is_space c || (c =? 10) then skip_ws_nl_i f src (pos + 1) maximum else Ok pos
           else Ok pos
  end.

Definition s_href : str := [104; 114; 101; 102].
Definition s_src : str := [115; 114; 99].
Definition s_title_ : str := [116; 105; 116; 108; 101].
Definition s_label_ : str := [108; 97; 98; 101; 108].
Definition s_a : str := [97].

Definition at_is (src : str) (pos maximum : Z) (c : Z) : res bool :=
  if pos <? maximum then do x <- py_idx src pos; Ok (x =? c) else Ok false.

(* the reference branch shared by link and image: returns None (-> return False, pos restored) or
   (href, title, label, pos) *)
Definition ref_branch (st : istate) (pos labelStart labelEnd maximum : Z) : res (option (str * str * str * Z) * istate) :=
  match e_refs (i_env st) with
  | None => Ok (None, st)
  | Some refs =>
      do br <- at_is (i_src st) pos maximum 91;
      do (label0, pos1, st1) <-
        (if br then
           do (p, st') <- parse_link_label st pos false;
           if 0 <=? p then Ok (slice (i_src st) (pos + 1) p, p + 1, st')
           else Ok ([], labelEnd + 1, st')
         else Ok ([], labelEnd + 1, st));
      let label1 := match label0 with [] => slice (i_src st) labelStart labelEnd | _ => label0 end in
      let label := normalize_reference casefold label1 in
      match alookup label refs with
      | None => Ok (None, st1)
      | Some r => Ok (Some (r_href r, r_title r, label, pos1), st1)
      end
  end.

Definition r_link (st : istate) (silent : bool) : res (bool * istate) :=
  let oldPos := i_pos st in
  let maximum := i_posMax st in
  do c <- py_idx (i_src st) (i_pos st);
  if negb (c =? 91) then Ok (false, st)
  else
    let labelStart := i_pos st + 1 in
    do (labelEnd, st0) <- parse_link_label st (i_pos st) true;
    if labelEnd <? 0 then Ok (false, st0)
    else
      let src := i_src st0 in
      let pos0 := labelEnd + 1 in
      do paren <- at_is src pos0 maximum 40;
      (* the inline form: Some (href, title, pos, parseReference) or None for "return False" *)
      do inlf <-
        (if paren then
           do p1 <- skip_ws_nl_i (S (length src)) src (pos0 + 1) maximum;
           if maximum <=? p1 then Ok None
           else
             let res := parse_link_destination src p1 (i_posMax st0) in
             do (href, title, p2) <-
               (if l_ok res then
                  let h := normalize_link reformat (l_str res) in
                  let '(href, p) := if validate_link_re h then (h, l_pos res) else ([], p1) in
                  do p' <- skip_ws_nl_i (S (length src)) src p maximum;
                  let tres := parse_link_title src p' (i_posMax st0) in
                  if (p' <? maximum) && negb (p =? p') && l_ok tres then
                    do p'' <- skip_ws_nl_i (S (length src)) src (l_pos tres) maximum;
                    Ok (href, l_str tres, p'')
                  else Ok (href, [], p')
                else Ok ([], [], p1));
             do close <- at_is src p2 maximum 41;
             Ok (Some (href, title, p2 + 1, negb close))
         else Ok (Some ([], [], pos0, true)));
      match inlf with
      | None => Ok (false, st0)
      | Some (href0, title0, pos1, parseReference) =>
          do fin <-
            (if parseReference then
               do (r, st1) <- ref_branch st0 pos1 labelStart labelEnd maximum;
               match r with
               | None => Ok (None, st1 <| i_pos := oldPos |>)
               | Some (h, t, l, p) => Ok (Some (h, t, l, p), st1)
               end
             else Ok (Some (href0, title0, [], pos1), st0));
          match fin with
          | (None, st1) => Ok (false, st1)
          | (Some (href, title, label, pos), st1) =>
              do st2 <-
                (if silent then Ok st1
                 else
                   do s1 <- ipush (st1 <| i_pos := labelStart |> <| i_posMax := labelEnd |>)
                                  s_link_open s_a 1
                                  (fun t => (fun t1 => if negb (len label =? 0) && ic_store_labels cfg
                                                       then set_meta t1 [(s_label_, label)] else t1)
                                              (set_attrs t ((s_href, AStr href) :: (match title with [] => [] | _ => [(s_title_, AStr title)] end))));
                   do s2 <- f_tokenize F (s1 <| i_linkLevel := i_linkLevel s1 + 1 |>);
                   ipush (s2 <| i_linkLevel := i_linkLevel s2 - 1 |>) s_link_close s_a (-1) (fun t => t));
              Ok (true, st2 <| i_pos := pos |> <| i_posMax := maximum |>)
          end
      end.

Definition r_image (st : istate) (silent : bool) : res (bool * istate) :=
  let oldPos := i_pos st in
  let maximum := i_posMax st in
  do c <- py_idx (i_src st) (i_pos st);
  if negb (c =? 33) then Ok (false, st)
  else
    do nb <- (if i_pos st + 1 <? i_posMax st then do x <- py_idx (i_src st) (i_pos st + 1); Ok (negb (x =? 91)) else Ok false);
    if nb then Ok (false, st)
    else
      let labelStart := i_pos st + 2 in
      do (labelEnd, st0) <- parse_link_label st (i_pos st + 1) false;
      if labelEnd <? 0 then Ok (false, st0)
      else
        let src := i_src st0 in
        let pos0 := labelEnd + 1 in
        do paren <- at_is src pos0 maximum 40;
        do fin <-
          (if paren then
             do p1 <- skip_ws_nl_i (S (length src)) src (pos0 + 1) maximum;
             if maximum <=? p1 then Ok (None, st0)
             else
               let res := parse_link_destination src p1 (i_posMax st0) in
               let '(href, p) :=
                 if l_ok res then
                   let h := normalize_link reformat (l_str res) in
                   if validate_link_re h then (h, l_pos res) else ([], p1)
                 else ([], p1) in
               do p' <- skip_ws_nl_i (S (length src)) src p maximum;
               let tres := parse_link_title src p' (i_posMax st0) in
               do (title, p2) <-
                 (if (p' <? maximum) && negb (p =? p') && l_ok tres then
                    do p'' <- skip_ws_nl_i (S (length src)) src (l_pos tres) maximum; Ok (l_str tres, p'')
                  else Ok ([], p'));
               do close <- at_is src p2 maximum 41;
               if negb close then Ok (None, st0 <| i_pos := oldPos |>)
               else Ok (Some (href, title, [], p2 + 1), st0)
           else
             do (r, st1) <- ref_branch st0 pos0 labelStart labelEnd maximum;
             match r with
             | None => Ok (None, match e_refs (i_env st0) with None => st1 | Some _ => st1 <| i_pos := oldPos |> end)
             | Some x => Ok (Some x, st1)
             end);
        match fin with
        | (None, st1) => Ok (false, st1)
        | (Some (href, title, label, pos), st1) =>
            do st2 <-
              (if silent then Ok st1
               else
                 let content := slice src labelStart labelEnd in
                 do toks <- f_parse F content (i_env st1);
                 ipush st1 s_image [105; 109; 103] 0
                       (fun t => (fun t1 => if negb (len label =? 0) && ic_store_labels cfg then set_meta t1 [(s_label_, label)] else t1)
                                   (set_content
                                      (set_children
                                         (set_attrs t ((s_src, AStr href) :: (s_alt, AStr []) ::
                                                       (match title with [] => [] | _ => [(s_title_, AStr title)] end)))
                                         (match toks with [] => None | _ => Some toks end))
                                      content)));
            Ok (true, st2 <| i_pos := pos |> <| i_posMax := maximum |>)
        end.

(* ---- autolink ---- *)
Fixpoint autolink_end (fuel : nat) (src : str) (pos maximum : Z) : res (option Z) :=
  match fuel with
  | O => Ok None
  | S f =>
      let p := pos + 1 in
      if maximum <=? p then Ok None
      else do ch <- py_idx src p;
           if ch =? 60 then Ok None else if ch =? 62 then Ok (Some p) else autolink_end f src p maximum
  end.

Definition s_autolink : str := [97; 117; 116; 111; 108; 105; 110; 107].
Definition s_mailto : str := [109; 97; 105; 108; 116; 111; 58].

Definition push_autolink (st : istate) (fullUrl url : str) : res istate :=
  do s1 <- ipush st s_link_open s_a 1 (fun t => set_info (set_markup (set_attrs t [(s_href, AStr fullUrl)]) s_autolink) s_auto);
  do s2 <- ipush s1 s_text [] 0 (fun t => set_content t (linktext url));
  ipush s2 s_link_close s_a (-1) (fun t => set_info (set_markup t s_autolink) s_auto).

Definition r_autolink (st : istate) (silent : bool) : res (bool * istate) :=
  do c <- py_idx (i_src st) (i_pos st);
  if negb (c =? 60) then Ok (false, st)
  else
    do e <- autolink_end (S (length (i_src st))) (i_src st) (i_pos st) (i_posMax st);
    match e with
    | None => Ok (false, st)
    | Some pos =>
        let url := slice (i_src st) (i_pos st + 1) pos in
        if test re_autolink_AUTOLINK_RE url then
          let full := normalize_link reformat url in
          if negb (validate_link_re full) then Ok (false, st)
          else do st1 <- (if silent then Ok st else push_autolink st full url);
               Ok (true, st1 <| i_pos := i_pos st1 + len url + 2 |>)
        else if test re_autolink_EMAIL_RE url then
          let full := normalize_link reformat (s_mailto ++ url) in
          if negb (validate_link_re full) then Ok (false, st)
          else do st1 <- (if silent then Ok st else push_autolink st full url);
               Ok (true, st1 <| i_pos := i_pos st1 + len url + 2 |>)
        else Ok (false, st)
    end.

(* ---- html_inline ---- *)
Definition is_letter (ch : Z) : bool := let lc := Z.lor ch 32 in (97 <=? lc) && (lc <=? 122).

Definition r_html_inline (st : istate) (silent : bool) : res (bool * istate) :=
  let pos := i_pos st in
  if negb (ic_html cfg) then Ok (false, st)
  else
    do c <- py_idx (i_src st) pos;
    if negb (c =? 60) || (i_posMax st <=? pos + 2) then Ok (false, st)
    else
      do ch <- py_idx (i_src st) (pos + 1);
      if negb ((ch =? 33) || (ch =? 63) || (ch =? 47)) && negb (is_letter ch) then Ok (false, st)
      else
        let tail := slice_from (i_src st) pos in
        match match_at re_html_inline_HTML_TAG_RE (init_state tail) with
        | None => Ok (false, st)
        | Some e =>
            let n := m_pos e in
            do st1 <-
              (if silent then Ok st
               else
                 let content := slice (i_src st) pos (pos + n) in
                 do s1 <- ipush st s_html_inline [] 0 (fun t => set_content t content);
                 let s2 := if test re_utils_LINK_OPEN_RE content then s1 <| i_linkLevel := i_linkLevel s1 + 1 |> else s1 in
                 Ok (if test re_utils_LINK_CLOSE_RE content then s2 <| i_linkLevel := i_linkLevel s2 - 1 |> else s2));
            Ok (true, st1 <| i_pos := i_pos st1 + n |>)
        end.

(* ---- entity ---- *)
Definition r_entity (st : istate) (silent : bool) : res (bool * istate) :=
  let pos := i_pos st in
  do c <- py_idx (i_src st) pos;
  if negb (c =? 38) then Ok (false, st)
  else if i_posMax st <=? pos + 1 then Ok (false, st)
  else
    do c1 <- py_idx (i_src st) (pos + 1);
    let tail := slice_from (i_src st) pos in
    if c1 =? 35 then
      match match_at re_entity_DIGITAL_RE (init_state tail) with
      | None => Ok (false, st)
      | Some e =>
          let whole := slice tail 0 (m_pos e) in
          do st1 <-
            (if silent then Ok st
             else
               let m1 := match group tail e 1 with Some g => g | None => [] end in
               let code := match m1 with
                           | x :: rest => if lower_ascii x =? 120 then int_of_hex rest else int_of_digits m1
                           | [] => 0 end in
               ipush st s_text_special_ [] 0
                     (fun t => set_info (set_markup (set_content t [if is_valid_entity_code code then code else 65533]) whole) s_entity));
          Ok (true, st1 <| i_pos := i_pos st1 + m_pos e |>)
      end
    else
      match match_at re_entity_NAMED_RE (init_state tail) with
      | None => Ok (false, st)
      | Some e =>
          let name := match group tail e 1 with Some g => g | None => [] end in
          match alookup name entity_table with
          | None => Ok (false, st)
          | Some v =>
              let whole := slice tail 0 (m_pos e) in
              do st1 <- (if silent then Ok st
                         else ipush st s_text_special_ [] 0 (fun t => set_info (set_markup (set_content t v) whole) s_entity));
              Ok (true, st1 <| i_pos := i_pos st1 + m_pos e |>)
          end
      end.

End IRules.

(* ---- rules2: balance_pairs ---------------------------------------------------------- *)

Definition dget (l : list delim) (i : Z) : res delim :=
  let j := if i <? 0 then i + len l else i in
  match (if j <? 0 then None else nth_error l (Z.to_nat j)) with Some d => Ok d | None => Raise IndexError end.
Definition dupd (l : list delim) (i : Z) (f : delim -> delim) : list delim := upd_nth_l (Z.to_nat i) f l.
Definition jget (l : list Z) (i : Z) : res Z := tb l i.
Definition jset (l : list Z) (i v : Z) : list Z := upd_nth_l (Z.to_nat i) (fun _ => v) l.

(* openersBottom: marker -> six lower bounds *)
Definition ob_get (ob : list (Z * list Z)) (marker idx : Z) : Z :=
  match find (fun kv => fst kv =? marker) ob with
  | Some (_, arr) => nth (Z.to_nat idx) arr (-1)
  | None => -1
  end.
Definition ob_set (ob : list (Z * list Z)) (marker idx v : Z) : list (Z * list Z) :=
  let arr0 := match find (fun kv => fst kv =? marker) ob with Some (_, a) => a | None => [-1; -1; -1; -1; -1; -1] end in
  let arr := upd_nth_l (Z.to_nat idx) (fun _ => v) arr0 in
  (marker, arr) :: filter (fun kv => negb (fst kv =? marker)) ob.

(* the inner "while openerIdx > minOpenerIdx": returns Some openerIdx of a match, or None *)
Fixpoint find_opener_d (fuel : nat) (ds : list delim) (jumps : list Z) (closer : delim) (openerIdx minOpenerIdx : Z)
  : res (option Z) :=
  match fuel with
  | O => Ok None
  | S f =>
      if negb (minOpenerIdx <? openerIdx) then Ok None
      else
        do opener <- dget ds openerIdx;
        do j <- jget jumps openerIdx;
        if negb (d_marker opener =? d_marker closer) then find_opener_d f ds jumps closer (openerIdx - (j + 1)) minOpenerIdx
        else if d_open opener && (d_end opener <? 0) then
          let odd := (d_close opener || d_open closer)
                     && ((d_length opener + d_length closer) mod 3 =? 0)
                     && (negb (d_length opener mod 3 =? 0) || negb (d_length closer mod 3 =? 0)) in
          if negb odd then Ok (Some openerIdx)
          else find_opener_d f ds jumps closer (openerIdx - (j + 1)) minOpenerIdx
        else find_opener_d f ds jumps closer (openerIdx - (j + 1)) minOpenerIdx
  end.

Fixpoint pd_loop (fuel : nat) (ds : list delim) (jumps : list Z) (ob : list (Z * list Z))
         (closerIdx headerIdx lastTokenIdx : Z) : res (list delim) :=
  match fuel with
  | O => Ok ds
  | S f =>
      if negb (closerIdx <? len ds) then Ok ds
      else
        do closer <- dget ds closerIdx;
        let jumps1 := jumps ++ [0] in
        do header <- dget ds headerIdx;
        let headerIdx1 := if negb (d_marker header =? d_marker closer) || negb (lastTokenIdx =? d_token closer - 1)
                          then closerIdx else headerIdx in
        let lastTokenIdx1 := d_token closer in
        if negb (d_close closer) then pd_loop f ds jumps1 ob (closerIdx + 1) headerIdx1 lastTokenIdx1
        else
          let slot := (if d_open closer then 3 else 0) + (d_length closer) mod 3 in
          let minOpenerIdx := ob_get ob (d_marker closer) slot in
          do jh <- jget jumps1 headerIdx1;
          let openerIdx0 := headerIdx1 - jh - 1 in
          do m <- find_opener_d (S (length ds)) ds jumps1 closer openerIdx0 minOpenerIdx;
          match m with
          | Some openerIdx =>
              do lastJump <-
                (if 0 <? openerIdx then
                   do prev <- dget ds (openerIdx - 1);
                   if negb (d_open prev) then do jp <- jget jumps1 (openerIdx - 1); Ok (jp + 1) else Ok 0
                 else Ok 0);
              let jumps2 := jset (jset jumps1 closerIdx (closerIdx - openerIdx + lastJump)) openerIdx lastJump in
              let ds1 := dupd (dupd ds closerIdx (fun d => d <| d_open := false |>))
                              openerIdx (fun d => d <| d_end := closerIdx |> <| d_close := false |>) in
              (* newMinOpenerIdx = -1: no lower bound update; next token starts a new run *)
              pd_loop f ds1 jumps2 (ob_set ob (d_marker closer) slot (ob_get ob (d_marker closer) slot)) (closerIdx + 1) headerIdx1 (-2)
          | None =>
              (* closer.open is unchanged here, so the slot is the same *)
              pd_loop f ds jumps1
                      (if openerIdx0 =? -1 then ob_set ob (d_marker closer) slot (ob_get ob (d_marker closer) slot)
                       else ob_set ob (d_marker closer) slot openerIdx0)
                      (closerIdx + 1) headerIdx1 lastTokenIdx1
          end
  end.

Definition process_delimiters (ds : list delim) : res (list delim) :=
  match ds with
  | [] => Ok ds
  | _ => pd_loop (S (length ds)) ds [] [] 0 0 (-2)
  end.

(* apply [f] to the top-level delimiter list, then to the list of every tokens_meta entry, in order *)
Fixpoint each_meta (f : istate -> nat -> res istate) (metas : list (option nat)) (st : istate) : res istate :=
  match metas with
  | [] => Ok st
  | Some id :: rest => do st' <- f st id; each_meta f rest st'
  | None :: rest => each_meta f rest st
  end.

Definition on_all_delims (f : istate -> nat -> res istate) (st : istate) : res istate :=
  do st1 <- f st (i_cur st); each_meta f (i_meta st) st1.

Definition r2_balance_pairs (st : istate) : res istate :=
  on_all_delims (fun s id => do ds <- process_delimiters (nth id (i_dstore s) []);
                             Ok (s <| i_dstore := upd_nth_l id (fun _ => ds) (i_dstore s) |>)) st.

(* ---- rules2: strikethrough / emphasis post-processing -------------------------------- *)

Definition tget (l : list token) (i : Z) : res token :=
  let j := if i <? 0 then i + len l else i in
  match (if j <? 0 then None else nth_error l (Z.to_nat j)) with Some t => Ok t | None => Raise IndexError end.
Definition tupd (l : list token) (i : Z) (f : token -> token) : list token :=
  let j := if i <? 0 then i + len l else i in update_nth_tok' (Z.to_nat j) f l.

Definition retag (ty tag : str) (nesting : Z) (markup : str) (t : token) : token :=
  set_content (set_markup (Tok ty tag nesting (tattrs t) (tmap t) (tlevel t) (tchildren t) (tcontent t) (tmarkup t)
                               (tinfo t) (tmeta t) (tblock t) (thidden t)) markup) [].

Definition s_s : str := [115].
Definition s_s_open : str := [115; 95; 111; 112; 101; 110].
Definition s_s_close : str := [115; 95; 99; 108; 111; 115; 101].

Fixpoint st_pass1 (fuel : nat) (ds : list delim) (tokens : list token) (i : Z) (lone : list Z) : res (list token * list Z) :=
  match fuel with
  | O => Ok (tokens, lone)
  | S f =>
      if negb (i <? len ds) then Ok (tokens, lone)
      else
        do sd <- dget ds i;
        if negb (d_marker sd =? 126) || (d_end sd =? -1) then st_pass1 f ds tokens (i + 1) lone
        else
          do ed <- dget ds (d_end sd);
          do _t1 <- tget tokens (d_token sd);
          let tokens1 := tupd tokens (d_token sd) (retag s_s_open s_s 1 [126; 126]) in
          do _t2 <- tget tokens1 (d_token ed);
          let tokens2 := tupd tokens1 (d_token ed) (retag s_s_close s_s (-1) [126; 126]) in
          do before <- tget tokens2 (d_token ed - 1);
          let lone' := if str_eqb (ttype before) s_text && str_eqb (tcontent before) [126]
                       then lone ++ [d_token ed - 1] else lone in
          st_pass1 f ds tokens2 (i + 1) lone'
  end.

Fixpoint count_s_close (fuel : nat) (tokens : list token) (j : Z) : Z :=
  match fuel with
  | O => j
  | S f => if j <? len tokens then
             match nth_error tokens (Z.to_nat j) with
             | Some t => if str_eqb (ttype t) s_s_close then count_s_close f tokens (j + 1) else j
             | None => j
             end
           else j
  end.

(* while loneMarkers: i = pop() (from the end) *)
Fixpoint st_pass2 (lone_rev : list Z) (tokens : list token) : res (list token) :=
  match lone_rev with
  | [] => Ok tokens
  | i :: rest =>
      let j := count_s_close (S (length tokens)) tokens (i + 1) - 1 in
      if negb (i =? j) then
        do ti <- tget tokens i; do tj <- tget tokens j;
        st_pass2 rest (tupd (tupd tokens j (fun _ => ti)) i (fun _ => tj))
      else st_pass2 rest tokens
  end.

Definition strike_post (ds : list delim) (tokens : list token) : res (list token) :=
  do (tokens1, lone) <- st_pass1 (S (length ds)) ds tokens 0 [];
  st_pass2 (rev lone) tokens1.

Definition r2_strikethrough (st : istate) : res istate :=
  on_all_delims (fun s id => do ts <- strike_post (nth id (i_dstore s) []) (i_tokens s); Ok (s <| i_tokens := ts |>)) st.

Fixpoint em_pass (fuel : nat) (ds : list delim) (tokens : list token) (i : Z) : res (list token) :=
  match fuel with
  | O => Ok tokens
  | S f =>
      if i <? 0 then Ok tokens
      else
        do sd <- dget ds i;
        if (negb (d_marker sd =? 95) && negb (d_marker sd =? 42)) || (d_end sd =? -1) then em_pass f ds tokens (i - 1)
        else
          do ed <- dget ds (d_end sd);
          do isStrong <-
            (if 0 <? i then
               do p <- dget ds (i - 1);
               if (d_end p =? d_end sd + 1) && (d_marker p =? d_marker sd) && (d_token p =? d_token sd - 1) then
                 do q <- dget ds (d_end sd + 1); Ok (d_token q =? d_token ed + 1)
               else Ok false
             else Ok false);
          let ch := d_marker sd in
          let mk := if isStrong then [ch; ch] else [ch] in
          let so := if isStrong then [115; 116; 114; 111; 110; 103; 95; 111; 112; 101; 110] else [101; 109; 95; 111; 112; 101; 110] in
          let sc := if isStrong then [115; 116; 114; 111; 110; 103; 95; 99; 108; 111; 115; 101] else [101; 109; 95; 99; 108; 111; 115; 101] in
          let tg := if isStrong then [115; 116; 114; 111; 110; 103] else [101; 109] in
          do _t1 <- tget tokens (d_token sd);
          let tokens1 := tupd tokens (d_token sd) (retag so tg 1 mk) in
          do _t2 <- tget tokens1 (d_token ed);
          let tokens2 := tupd tokens1 (d_token ed) (retag sc tg (-1) mk) in
          if isStrong then
            do p <- dget ds (i - 1);
            do q <- dget ds (d_end sd + 1);
            do _a <- tget tokens2 (d_token p);
            do _b <- tget tokens2 (d_token q);
            em_pass f ds (tupd (tupd tokens2 (d_token p) (fun t => set_content t [])) (d_token q) (fun t => set_content t [])) (i - 2)
          else em_pass f ds tokens2 (i - 1)
  end.

Definition r2_emphasis (st : istate) : res istate :=
  on_all_delims (fun s id => let ds := nth id (i_dstore s) [] in
                             do ts <- em_pass (S (length ds)) ds (i_tokens s) (len ds - 1); Ok (s <| i_tokens := ts |>)) st.

(* ---- rules2: fragments_join ------------------------------------------------------------ *)

(* walk with the running level; a text token followed by a text token is folded into the next *)
Fixpoint fj (tokens : list token) (level : Z) (carry : option str) : list token :=
  match tokens with
  | [] => []
  | t :: rest =>
      let level1 := if tnesting t <? 0 then level - 1 else level in
      let t1 := set_level (match carry with Some c => set_content t (c ++ tcontent t) | None => t end) level1 in
      let level2 := if 0 <? tnesting t then level1 + 1 else level1 in
      match rest with
      | n :: _ =>
          if str_eqb (ttype t) s_text && str_eqb (ttype n) s_text then fj rest level2 (Some (tcontent t1))
          else t1 :: fj rest level2 None
      | [] => t1 :: fj rest level2 None
      end
  end.

Definition r2_fragments_join (st : istate) : res istate := Ok (st <| i_tokens := fj (i_tokens st) 0 None |>).

(* ---- ParserInline: skipToken, tokenize, parse; tying the knot on a depth fuel ------------ *)

Section Parser.
Context (cfg : icfg).
Context (reformat casefold linktext : str -> str).

Definition n_text : str := s_text.
Definition n_linkify : str := [108; 105; 110; 107; 105; 102; 121].
Definition n_newline : str := [110; 101; 119; 108; 105; 110; 101].
Definition n_escape : str := [101; 115; 99; 97; 112; 101].
Definition n_backticks : str := [98; 97; 99; 107; 116; 105; 99; 107; 115].
Definition n_strikethrough : str := [115; 116; 114; 105; 107; 101; 116; 104; 114; 111; 117; 103; 104].
Definition n_emphasis : str := [101; 109; 112; 104; 97; 115; 105; 115].
Definition n_link : str := [108; 105; 110; 107].
Definition n_image : str := s_image.
Definition n_autolink : str := [97; 117; 116; 111; 108; 105; 110; 107].
Definition n_html_inline : str := s_html_inline.
Definition n_entity : str := [101; 110; 116; 105; 116; 121].
Definition n_balance_pairs : str := [98; 97; 108; 97; 110; 99; 101; 95; 112; 97; 105; 114; 115].
Definition n_fragments_join : str := [102; 114; 97; 103; 109; 101; 110; 116; 115; 95; 106; 111; 105; 110].

Definition iapply (F : ifuncs) (name : str) (st : istate) (silent : bool) : res (bool * istate) :=
  if str_eqb name n_text then r_text st silent
  else if str_eqb name n_linkify then r_linkify cfg st silent
  else if str_eqb name n_newline then r_newline st silent
  else if str_eqb name n_escape then r_escape st silent
  else if str_eqb name n_backticks then r_backticks st silent
  else if str_eqb name n_strikethrough then r_strikethrough st silent
  else if str_eqb name n_emphasis then r_emphasis st silent
  else if str_eqb name n_link then r_link cfg reformat casefold F st silent
  else if str_eqb name n_image then r_image cfg reformat casefold F st silent
  else if str_eqb name n_autolink then r_autolink reformat linktext st silent
  else if str_eqb name n_html_inline then r_html_inline cfg st silent
  else if str_eqb name n_entity then r_entity st silent
  else Ok (false, st).

Definition iapply2 (name : str) (st : istate) : res istate :=
  if str_eqb name n_balance_pairs then r2_balance_pairs st
  else if str_eqb name n_strikethrough then r2_strikethrough st
  else if str_eqb name n_emphasis then r2_emphasis st
  else if str_eqb name n_fragments_join then r2_fragments_join st
  else Ok st.

(* for rule in rules: ok = rule(state, silent); if ok: break.   [bump]: skipToken raises the
   level around each call *)
Fixpoint first_rule (F : ifuncs) (names : list str) (st : istate) (silent bump : bool) : res (bool * istate) :=
  match names with
  | [] => Ok (false, st)
  | n :: rest =>
      let st0 := if bump then st <| i_level := i_level st + 1 |> else st in
      do (ok, st1) <- iapply F n st0 silent;
      let st2 := if bump then st1 <| i_level := i_level st1 - 1 |> else st1 in
      if ok then Ok (true, st2) else first_rule F rest st2 silent bump
  end.

Definition skip_token (F : ifuncs) (st : istate) : res istate :=
  let pos := i_pos st in
  match zlookup pos (i_cache st) with
  | Some p => Ok (st <| i_pos := p |>)
  | None =>
      do (ok, st1) <-
        (if i_level st <? ic_maxNesting cfg then first_rule F (ic_rules cfg) st true true
         else Ok (false, st <| i_pos := i_posMax st |>));
      let st2 := if ok then st1 else st1 <| i_pos := i_pos st1 + 1 |> in
      Ok (st2 <| i_cache := zset pos (i_pos st2) (i_cache st2) |>)
  end.

Fixpoint tok_while (fuel : nat) (F : ifuncs) (st : istate) (endp : Z) (ok : bool) : res istate :=
  match fuel with
  | O => OutOfFuel
  | S f =>
      if negb (i_pos st <? endp) then Ok st
      else
        do (ok1, st1) <-
          (if i_level st <? ic_maxNesting cfg then first_rule F (ic_rules cfg) st false false else Ok (ok, st));
        if ok1 then
          if endp <=? i_pos st1 then Ok st1 else tok_while f F st1 endp ok1
        else
          do c <- py_idx (i_src st1) (i_pos st1);
          tok_while f F (st1 <| i_pending := i_pending st1 ++ [c] |> <| i_pos := i_pos st1 + 1 |>) endp ok1
  end.

Definition inline_tokenize (F : ifuncs) (st : istate) : res istate :=
  do st1 <- tok_while (S (S (length (i_src st)))) F st (i_posMax st) false;
  Ok (match i_pending st1 with [] => st1 | _ => push_pending st1 end).

Fixpoint run_rules2 (names : list str) (st : istate) : res istate :=
  match names with [] => Ok st | n :: rest => do st' <- iapply2 n st; run_rules2 rest st' end.

Definition inline_parse_with (F : ifuncs) (src : str) (env : envt) (tokens : list token) : res (list token) :=
  do st1 <- inline_tokenize F (istate_init src env tokens);
  do st2 <- run_rules2 (ic_rules2 cfg) st1;
  Ok (i_tokens st2).

Fixpoint ifs (depth : nat) : ifuncs :=
  match depth with
  | O => mkF (fun _ => OutOfFuel) (fun _ => OutOfFuel) (fun _ _ => OutOfFuel)
  | S d =>
      let F := ifs d in
      mkF (inline_tokenize F) (skip_token F) (fun src env => inline_parse_with F src env [])
  end.

Definition inline_depth : nat := Z.to_nat (4 * ic_maxNesting cfg + 16).

(* ParserInline.parse(src, md, env, tokens) *)
Definition inline_parse (src : str) (env : envt) (tokens : list token) : res (list token) :=
  inline_parse_with (ifs inline_depth) src env tokens.

End Parser.
