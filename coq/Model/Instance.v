(* Model of the MarkdownIt facade (markdown_it/main.py): options, the four
   rulers, render rules; enable/disable/configure/reset_rules and friends.
   Rule and render functions are identified by integer tags. *)
From MD Require Import Base.Py Base.Opt Model.Ruler.

Record inst := mkInst {
  i_opts : list (str * optval);
  i_core : ruler Z;
  i_block : ruler Z;
  i_inline : ruler Z;
  i_inline2 : ruler Z;
  i_render : list (str * Z)
}.

(* chains are numbered 0 core, 1 block, 2 inline, 3 inline2 *)
Definition get_chain (i : inst) (c : Z) : ruler Z :=
  match c with 0 => i_core i | 1 => i_block i | 2 => i_inline i | _ => i_inline2 i end.

Definition set_chain (i : inst) (c : Z) (r : ruler Z) : inst :=
  match c with
  | 0 => mkInst (i_opts i) r (i_block i) (i_inline i) (i_inline2 i) (i_render i)
  | 1 => mkInst (i_opts i) (i_core i) r (i_inline i) (i_inline2 i) (i_render i)
  | 2 => mkInst (i_opts i) (i_core i) (i_block i) r (i_inline2 i) (i_render i)
  | _ => mkInst (i_opts i) (i_core i) (i_block i) (i_inline i) r (i_render i)
  end.

Definition set_opts (i : inst) (o : list (str * optval)) : inst :=
  mkInst o (i_core i) (i_block i) (i_inline i) (i_inline2 i) (i_render i).

Definition set_render (i : inst) (m : list (str * Z)) : inst :=
  mkInst (i_opts i) (i_core i) (i_block i) (i_inline i) (i_inline2 i) m.

(* Parser*.__init__: push every registry entry; the function tag is the index *)
Fixpoint ruler_of_registry_from (reg : list (str * list str)) (k : Z) : list (rule Z) :=
  match reg with
  | [] => []
  | (n, alt) :: reg' => mkRule n true k alt :: ruler_of_registry_from reg' (k + 1)
  end.
Definition ruler_of_registry (reg : list (str * list str)) : ruler Z :=
  mkRuler (ruler_of_registry_from reg 0) None.

Definition bare_inst (core block inline inline2 : list (str * list str)) : inst :=
  mkInst [] (ruler_of_registry core) (ruler_of_registry block)
         (ruler_of_registry inline) (ruler_of_registry inline2) [].

Inductive mout :=
| MONone
| MONames4 (core block inline inline2 : list str)
| MOOpts (o : list (str * optval)).

Inductive mop :=
| MEnable (names : list str) (ign : bool)
| MDisable (names : list str) (ign : bool)
| MRuler (which : Z) (o : op Z)
| MConfigure (p : option preset) (update : list (str * optval))
| MSetItem (k : str) (v : optval)       (* md.options[k] = v  and  md.options.k = v *)
| MSetOptions (o : list (str * optval)) (* md.set(o) *)
| MAddRenderRule (name : str) (fn : Z) (fmt_ok : bool)
| MActive
| MAll
| MOptions
| MReset (body : list mop) (raise_at_end : option Z).

Definition names_of (o : res (out Z)) : list str :=
  match o with Ok (ONames l) => l | _ => [] end.

(* MarkdownIt.enable / disable: every ruler is called with ignoreInvalid=True *)
Definition md_toggle (v : bool) (names : list str) (ign : bool) (i : inst) : inst * res mout :=
  let '(c0, o0) := toggle v names true (i_core i) in
  let '(c1, o1) := toggle v names true (i_block i) in
  let '(c2, o2) := toggle v names true (i_inline i) in
  let '(c3, o3) := toggle v names true (i_inline2 i) in
  let result := names_of o0 ++ names_of o1 ++ names_of o2 ++ names_of o3 in
  let missed := filter (fun n => negb (mem_str n result)) names in
  (mkInst (i_opts i) c0 c1 c2 c3 (i_render i),
   match missed with
   | [] => Ok MONone
   | _ => if ign then Ok MONone else Raise ValueError
   end).

Definition chain_of_name (n : str) : option Z :=
  if str_eqb n [99; 111; 114; 101] then Some 0          (* core *)
  else if str_eqb n [98; 108; 111; 99; 107] then Some 1 (* block *)
  else if str_eqb n [105; 110; 108; 105; 110; 101] then Some 2 (* inline *)
  else None.

Definition enable_only_chain (i : inst) (c : Z) (names : list str) : inst * res mout :=
  let '(r', o) := step (get_chain i c) (OpEnableOnly names false) in
  (set_chain i c r', match o with Ok _ => Ok MONone | Raise e => Raise e | OutOfFuel => OutOfFuel end).

(* the components loop of configure() *)
Fixpoint configure_components (comps : list (str * (option (list str) * option (list str))))
         (i : inst) : inst * res mout :=
  match comps with
  | [] => (i, Ok MONone)
  | (name, (rules, rules2)) :: rest =>
      let after_rules :=
        match rules with
        | Some (x :: l) =>
            match chain_of_name name with
            | None => (i, Raise KeyError)
            | Some c => enable_only_chain i c (x :: l)
            end
        | _ => (i, Ok MONone)
        end in
      match after_rules with
      | (i1, Ok _) =>
          let after_rules2 :=
            match rules2 with
            | Some (x :: l) =>
                match chain_of_name name with
                | None => (i1, Raise KeyError)
                | Some 2 => enable_only_chain i1 3 (x :: l)
                | Some _ => (i1, Raise AttributeError)
                end
            | _ => (i1, Ok MONone)
            end in
          match after_rules2 with
          | (i2, Ok _) => configure_components rest i2
          | bad => bad
          end
      | bad => bad
      end
  end.

Definition configure (p : option preset) (update : list (str * optval)) (i : inst) : inst * res mout :=
  match p with
  | None => (i, Raise KeyError)
  | Some cfg =>
      let i1 := set_opts i (amerge (p_options cfg) update) in
      configure_components (p_components cfg) i1
  end.

Definition active4 (i : inst) : mout :=
  MONames4 (active_names (i_core i)) (active_names (i_block i))
           (active_names (i_inline i)) (active_names (i_inline2 i)).

(* exit of reset_rules: enableOnly(snapshot) on core, block, inline, then inline2 *)
Definition restore (snap : mout) (i : inst) : inst * res mout :=
  match snap with
  | MONames4 a b c d =>
      match enable_only_chain i 0 a with
      | (i0, Ok _) =>
          match enable_only_chain i0 1 b with
          | (i1, Ok _) =>
              match enable_only_chain i1 2 c with
              | (i2, Ok _) => enable_only_chain i2 3 d
              | bad => bad
              end
          | bad => bad
          end
      | bad => bad
      end
  | _ => (i, Ok MONone)
  end.

Section Step.
(* [finally] selects the shape of reset_rules: with try/finally (the tree after
   the repair) or without (the generator as it was: restore only on normal exit) *)
Context (finally : bool).

Fixpoint mstep (i : inst) (o : mop) {struct o} : inst * res mout :=
  match o with
  | MEnable names ign => md_toggle true names ign i
  | MDisable names ign => md_toggle false names ign i
  | MRuler c op =>
      let '(r', x) := step (get_chain i c) op in
      (set_chain i c r', match x with Ok _ => Ok MONone | Raise e => Raise e | OutOfFuel => OutOfFuel end)
  | MConfigure p upd => configure p upd i
  | MSetItem k v => (set_opts i (aset k v (i_opts i)), Ok MONone)
  | MSetOptions o => (set_opts i o, Ok MONone)
  | MAddRenderRule name fn ok =>
      (if ok then set_render i (aset name fn (i_render i)) else i, Ok MONone)
  | MActive => (i, Ok (active4 i))
  | MAll => (i, Ok (MONames4 (all_names (i_core i)) (all_names (i_block i))
                             (all_names (i_inline i)) (all_names (i_inline2 i))))
  | MOptions => (i, Ok (MOOpts (i_opts i)))
  | MReset body raise_at_end =>
      let snap := active4 i in
      let body_result :=
        (fix go (ops : list mop) (i : inst) : inst * res mout :=
           match ops with
           | [] => (i, match raise_at_end with Some n => Raise (UserExn n) | None => Ok MONone end)
           | o :: ops' =>
               match mstep i o with
               | (i', Ok _) => go ops' i'
               | bad => bad
               end
           end) body i in
      match body_result with
      | (i', Ok _) => restore snap i'
      | (i', bad) =>
          if finally then
            match restore snap i' with
            | (i'', Ok _) => (i'', bad)
            | other => other      (* an exception in the finally clause replaces the first *)
            end
          else (i', bad)
      end
  end.

Fixpoint mrun_trace (ops : list mop) (i : inst) : list (res mout) :=
  match ops with
  | [] => []
  | o :: ops' => let '(i', x) := mstep i o in x :: mrun_trace ops' i'
  end.

Definition mrun (ops : list mop) (i : inst) : inst :=
  fold_left (fun i o => fst (mstep i o)) ops i.

End Step.

(* what a parse may depend on *)
Record config := mkConfig {
  cf_opts : list (str * optval);
  cf_core : list Z; cf_block : list (str * list Z); cf_inline : list Z; cf_inline2 : list Z;
  cf_render : list (str * Z)
}.
