(* C13: several threads (or nested calls) asking one shared Ruler for its chains.
   Everything else a parse does is thread-local (frame condition generated in
   Gen/SharedWrites.v); the only shared mutable object is Ruler.__cache__.
   getRules/__compile__ are decomposed into the atomic actions in which the
   bytecode touches the shared attribute (GIL: one attribute/dict operation is
   atomic).  [legacy = true] is the code before the repair: the dict is
   published empty and filled in place. *)
From MD Require Import Base.Py Base.Opt Model.Ruler.

Section Conc.
Context {F : Type}.
Context (rs : list (rule F)).     (* the rules are not mutated concurrently (hypothesis of C13) *)

Inductive fill_action := ANew (chain : str) | AApp (chain : str) (fn : F).

(* legacy __compile__ after the publication of {}: for chain in chains: cache[chain] = [];
   for rule ...: cache[chain].append(rule.fn) *)
Definition fill_actions : list fill_action :=
  flat_map (fun c => ANew c :: map (AApp c) (compile_chain rs c)) (chains_of rs).

Definition apply_fill (a : fill_action) (d : list (str * list F)) : list (str * list F) :=
  match a with
  | ANew c => aset c [] d
  | AApp c f => aset c (cache_get d c ++ [f]) d
  end.

Inductive tstate :=
| TIdle
| TRead (chain : str)                                   (* if self.__cache__ is None *)
| TCompiled (chain : str) (local : list (str * list F)) (* repaired: local dict complete, not yet stored *)
| TFill (chain : str) (todo : list fill_action)         (* legacy: published, still filling in place *)
| TAssert (chain : str)                                 (* assert self.__cache__ is not None *)
| TLookup (chain : str)                                 (* self.__cache__.get(chain, []) or [] *)
| TFail.

Record thread := mkThread { ts : tstate; pending : list str; results : list (str * list F) }.
Record cworld := mkCW { ccache : option (list (str * list F)); threads : list thread }.

Context (legacy : bool).

Definition tstep (cache : option (list (str * list F))) (t : thread)
  : option (list (str * list F)) * thread :=
  match ts t with
  | TIdle =>
      match pending t with
      | [] => (cache, t)
      | c :: rest => (cache, mkThread (TRead c) rest (results t))
      end
  | TRead c =>
      match cache with
      | Some _ => (cache, mkThread (TLookup c) (pending t) (results t))
      | None =>
          if legacy then (Some [], mkThread (TFill c fill_actions) (pending t) (results t))
          else (cache, mkThread (TCompiled c (compile rs)) (pending t) (results t))
      end
  | TCompiled c local => (Some local, mkThread (TAssert c) (pending t) (results t))
  | TFill c [] => (cache, mkThread (TAssert c) (pending t) (results t))
  | TFill c (a :: todo) =>
      match cache with
      | Some d => (Some (apply_fill a d), mkThread (TFill c todo) (pending t) (results t))
      | None => (cache, mkThread TFail (pending t) (results t))
      end
  | TAssert c =>
      match cache with
      | Some _ => (cache, mkThread (TLookup c) (pending t) (results t))
      | None => (cache, mkThread TFail (pending t) (results t))
      end
  | TLookup c =>
      match cache with
      | Some d => (cache, mkThread TIdle (pending t) (results t ++ [(c, cache_get d c)]))
      | None => (cache, mkThread TFail (pending t) (results t))
      end
  | TFail => (cache, t)
  end.

Fixpoint upd_thread (n : nat) (t : thread) (l : list thread) : list thread :=
  match l, n with
  | [], _ => []
  | _ :: l', O => t :: l'
  | x :: l', S n' => x :: upd_thread n' t l'
  end.

(* one scheduling decision: thread [tid] performs its next atomic action *)
Definition cstep (w : cworld) (tid : nat) : cworld :=
  match nth_error (threads w) tid with
  | None => w
  | Some t => let '(c', t') := tstep (ccache w) t in mkCW c' (upd_thread tid t' (threads w))
  end.

Definition crun (schedule : list nat) (w : cworld) : cworld := fold_left cstep schedule w.

Definition start (cache : option (list (str * list F))) (programs : list (list str)) : cworld :=
  mkCW cache (map (fun p => mkThread TIdle p []) programs).

End Conc.

(* The atomic decomposition implemented by [tstep] with [legacy = false], as a
   sequence of accesses to the shared attribute (0 load, 1 store, 2 call compile):
   getRules = TRead (load) ; [compile] ; TAssert (load) ; TLookup (load),
   __compile__ = a single store of the locally built dict (TCompiled).
   Compared with the bytecode of /repo on every run (Gen/RulerShape.v). *)
Definition expected_getRules_shape : list Z := [0; 2; 0; 0].
Definition expected_compile_shape : list Z := [1].
