(* Base conventions of the model: Python strings as code-point lists, Python
   exceptions as values, a few list/str primitives with Python semantics. *)
From Coq Require Export List ZArith Bool Lia.
Export ListNotations.
Open Scope Z_scope.

Definition str := list Z.

Inductive exn :=
| IndexError | KeyError | ValueError | TypeError | AttributeError
| AssertionError | RecursionError | ModuleNotFound | UserExn (n : Z).

Inductive res (A : Type) :=
| Ok (a : A) | Raise (e : exn) | OutOfFuel.
Arguments Ok {A} a.
Arguments Raise {A} e.
Arguments OutOfFuel {A}.

Definition bind {A B} (m : res A) (f : A -> res B) : res B :=
  match m with Ok a => f a | Raise e => Raise e | OutOfFuel => OutOfFuel end.
Notation "'do' x <- m ; k" := (bind m (fun x => k))
  (at level 200, x pattern, m at level 100, k at level 200, right associativity).

Definition exn_code (e : exn) : Z :=
  match e with
  | IndexError => 1 | KeyError => 2 | ValueError => 3 | TypeError => 4
  | AttributeError => 5 | AssertionError => 6 | RecursionError => 7
  | ModuleNotFound => 8 | UserExn n => 100 + n
  end.

(* ---- strings -------------------------------------------------------- *)

Fixpoint str_eqb (a b : str) : bool :=
  match a, b with
  | [], [] => true
  | x :: a', y :: b' => (x =? y) && str_eqb a' b'
  | _, _ => false
  end.

Lemma str_eqb_spec a b : reflect (a = b) (str_eqb a b).
Proof.
  revert b; induction a as [|x a IH]; intros [|y b]; simpl; try (constructor; congruence).
  destruct (Z.eqb_spec x y) as [->|N]; simpl.
  - destruct (IH b) as [->|N]; constructor; congruence.
  - constructor; congruence.
Qed.

Lemma str_eqb_eq a b : str_eqb a b = true <-> a = b.
Proof. destruct (str_eqb_spec a b); split; congruence. Qed.

Lemma str_eqb_refl a : str_eqb a a = true.
Proof. apply str_eqb_eq; reflexivity. Qed.

Definition mem_str (s : str) (l : list str) : bool := existsb (str_eqb s) l.

Lemma mem_str_In s l : mem_str s l = true <-> In s l.
Proof.
  unfold mem_str; rewrite existsb_exists; split.
  - intros [x [Hx He]]; apply str_eqb_eq in He; subst; exact Hx.
  - intros H; exists s; split; [exact H | apply str_eqb_refl].
Qed.

Definition len {A} (l : list A) : Z := Z.of_nat (length l).

(* association lists keyed by str: first match wins on lookup *)
Fixpoint alookup {V} (k : str) (m : list (str * V)) : option V :=
  match m with
  | [] => None
  | (k', v) :: m' => if str_eqb k k' then Some v else alookup k m'
  end.
