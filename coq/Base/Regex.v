(* A backtracking regular-expression matcher with the semantics of CPython's [re]
   on the constructs the library uses (leftmost, first alternative first,
   greedy / lazy bounded repeats, capturing groups, look-ahead, ^ and $ with and
   without MULTILINE).  Patterns are terms of [re], generated from the compiled
   patterns of /repo by CPython's own parser (harness/gen.py -> Gen/Regexes.v);
   IGNORECASE and the \s class are expanded to explicit sets by the translator
   by asking CPython, so no case-folding logic is modelled here. *)
From MD Require Import Base.Py Base.Str.

Inductive cls_item := CChar (c : Z) | CRange (lo hi : Z).

Inductive re :=
| REps
| RFail
| RIn (neg : bool) (items : list cls_item)   (* one character in / not in the set *)
| RAny                                        (* . : any character except LF *)
| RCat (a b : re)
| RAlt (a b : re)
| RRep (mn : nat) (mx : option nat) (greedy : bool) (body : re)
| RGroup (idx : nat) (body : re)
| RBol (multiline : bool)
| REol (multiline : bool)
| RLook (neg : bool) (body : re).

Definition in_item (c : Z) (i : cls_item) : bool :=
  match i with CChar x => c =? x | CRange lo hi => (lo <=? c) && (c <=? hi) end.
Definition in_cls (c : Z) (items : list cls_item) : bool := existsb (in_item c) items.

Record mstate := mkM { m_before : list Z;   (* characters before the cursor, nearest first *)
                       m_after : list Z;
                       m_pos : Z;
                       m_groups : list (nat * (Z * Z)) }.

Definition set_group (g : nat) (a b : Z) (l : list (nat * (Z * Z))) : list (nat * (Z * Z)) :=
  (g, (a, b)) :: filter (fun x => negb (Nat.eqb (fst x) g)) l.

Definition advance (st : mstate) : option (Z * mstate) :=
  match m_after st with
  | [] => None
  | c :: rest => Some (c, mkM (c :: m_before st) rest (m_pos st + 1) (m_groups st))
  end.

Fixpoint mt (r : re) (st : mstate) (k : mstate -> option mstate) {struct r} : option mstate :=
  match r with
  | REps => k st
  | RFail => None
  | RIn neg items =>
      match advance st with
      | Some (c, st') => if xorb neg (in_cls c items) then k st' else None
      | None => None
      end
  | RAny =>
      match advance st with
      | Some (c, st') => if c =? 10 then None else k st'
      | None => None
      end
  | RCat a b => mt a st (fun st' => mt b st' k)
  | RAlt a b => match mt a st k with Some x => Some x | None => mt b st k end
  | RRep mn mx greedy body =>
      (fix loop (fuel : nat) (count : nat) (st : mstate) {struct fuel} : option mstate :=
         match fuel with
         | O => None
         | S fuel' =>
             let can_more := match mx with None => true | Some m => Nat.ltb count m end in
             let more (_ : unit) :=
               if can_more then
                 mt body st (fun st' =>
                   if (m_pos st' =? m_pos st) && Nat.leb mn (S count)
                   then k st'                      (* empty iteration: stop looping *)
                   else loop fuel' (S count) st')
               else None in
             let stop (_ : unit) := if Nat.leb mn count then k st else None in
             if greedy
             then match more tt with Some x => Some x | None => stop tt end
             else match stop tt with Some x => Some x | None => more tt end
         end) (S (length (m_after st)) + mn)%nat O st
  | RGroup g body =>
      let start := m_pos st in
      mt body st (fun st' => k (mkM (m_before st') (m_after st') (m_pos st')
                                    (set_group g start (m_pos st') (m_groups st'))))
  | RBol ml =>
      match m_before st with
      | [] => k st
      | c :: _ => if ml && (c =? 10) then k st else None
      end
  | REol ml =>
      match m_after st with
      | [] => k st
      | c :: rest =>
          if c =? 10 then
            (if ml then k st else match rest with [] => k st | _ => None end)
          else None
      end
  | RLook neg body =>
      let found := match mt body st (fun e => Some e) with Some _ => true | None => false end in
      if xorb neg found then k st else None
  end.

(* match anchored at the cursor: end state of the first successful path *)
Definition match_at (r : re) (st : mstate) : option mstate := mt r st (fun st' => Some st').

Definition init_state (s : str) : mstate := mkM [] s 0 [].

(* re.search: leftmost start; returns (start, end-state) *)
Fixpoint search_from (fuel : nat) (r : re) (st : mstate) : option (Z * mstate) :=
  match match_at r (mkM (m_before st) (m_after st) (m_pos st) []) with
  | Some e => Some (m_pos st, e)
  | None =>
      match fuel with
      | O => None
      | S f => match advance st with Some (_, st') => search_from f r st' | None => None end
      end
  end.

Definition search (r : re) (s : str) : option (Z * mstate) :=
  search_from (length s) r (init_state s).

Definition test (r : re) (s : str) : bool :=
  match search r s with Some _ => true | None => false end.

Definition fullmatch (r : re) (s : str) : option mstate :=
  mt r (init_state s) (fun st' => match m_after st' with [] => Some st' | _ => None end).

(* group(g) of a match over the original string *)
Definition group (s : str) (e : mstate) (g : nat) : option str :=
  match find (fun x => Nat.eqb (fst x) g) (m_groups e) with
  | Some (_, (a, b)) => Some (slice s a b)
  | None => None
  end.

(* re.sub with a replacement function of (matched text, end state).
   Non-overlapping matches left to right; an empty match advances by one character
   (CPython >= 3.7: empty matches adjacent to a previous match are allowed). *)
Fixpoint sub_loop (fuel : nat) (r : re) (f : str -> mstate -> str) (s : str) (st : mstate) (acc : str) : str :=
  match fuel with
  | O => acc ++ m_after st
  | S fuel' =>
      match match_at r (mkM (m_before st) (m_after st) (m_pos st) []) with
      | Some e =>
          let matched := slice s (m_pos st) (m_pos e) in
          let acc' := acc ++ f matched e in
          if m_pos e =? m_pos st then
            match advance st with
            | Some (c, st') => sub_loop fuel' r f s st' (acc' ++ [c])
            | None => acc'
            end
          else sub_loop fuel' r f s (mkM (m_before e) (m_after e) (m_pos e) []) acc'
      | None =>
          match advance st with
          | Some (c, st') => sub_loop fuel' r f s st' (acc ++ [c])
          | None => acc
          end
      end
  end.

Definition sub (r : re) (f : str -> mstate -> str) (s : str) : str :=
  sub_loop (S (length s)) r f s (init_state s) [].

(* replacement templates: literal text and \N group references *)
Inductive tpl := TLit (s : str) | TGroup (g : nat).
Definition expand (s : str) (t : list tpl) (matched : str) (e : mstate) : str :=
  flat_map (fun x => match x with
                     | TLit l => l
                     | TGroup g => match group s e g with Some v => v | None => [] end
                     end) t.
Definition sub_tpl (r : re) (t : list tpl) (s : str) : str := sub r (expand s t) s.
