(* Python str / list primitives with their Python semantics, on [str := list Z]. *)
From MD Require Import Base.Py.

(* s[i] for 0 <= i < len (no wrap): option *)
Definition get (s : str) (i : Z) : option Z :=
  if i <? 0 then None else nth_error s (Z.to_nat i).

(* an UNGUARDED s[i] of the Python source: negative indices wrap, out of range raises *)
Definition py_idx (s : str) (i : Z) : res Z :=
  let j := if i <? 0 then i + len s else i in
  match get s j with Some c => Ok c | None => Raise IndexError end.

(* charCodeAt / charStrAt: try s[pos] except IndexError -> None; negative indices wrap *)
Definition char_at (s : str) (i : Z) : option Z :=
  let j := if i <? 0 then i + len s else i in get s j.

Definition clamp (n i : Z) : Z :=
  let j := if i <? 0 then Z.max 0 (i + n) else i in Z.min j n.

(* s[a:b] with Python clipping (negative indices count from the end) *)
Definition slice {A} (s : list A) (a b : Z) : list A :=
  let n := len s in
  let a' := clamp n a in
  let b' := clamp n b in
  if b' <=? a' then [] else firstn (Z.to_nat (b' - a')) (skipn (Z.to_nat a') s).

Definition slice_from {A} (s : list A) (a : Z) : list A := slice s a (len s).
Definition slice_to {A} (s : list A) (b : Z) : list A := slice s 0 b.

Fixpoint repeat_z {A} (x : A) (n : nat) : list A := match n with O => [] | S n' => x :: repeat_z x n' end.
Definition rep {A} (x : A) (n : Z) : list A := repeat_z x (Z.to_nat n).

(* is [p] a prefix of [s] *)
Fixpoint starts_with (p s : str) : bool :=
  match p, s with
  | [], _ => true
  | x :: p', y :: s' => (x =? y) && starts_with p' s'
  | _ :: _, [] => false
  end.

Definition ends_with (p s : str) : bool := starts_with (rev p) (rev s).

(* s.find(sub, start): index of first occurrence at or after start, -1 if none *)
Fixpoint find_from_aux (sub s : str) (i : Z) : Z :=
  match s with
  | [] => if match sub with [] => true | _ => false end then i else -1
  | _ :: s' => if starts_with sub s then i else find_from_aux sub s' (i + 1)
  end.
Definition find_from (sub s : str) (start : Z) : Z :=
  let st := clamp (len s) start in
  find_from_aux sub (skipn (Z.to_nat st) s) st.

Definition contains (sub s : str) : bool := negb (find_from sub s 0 =? -1).
Definition mem_z (c : Z) (s : list Z) : bool := existsb (Z.eqb c) s.

(* s.replace(old, new) for a non-empty old, left to right, non-overlapping *)
Fixpoint replace_all_fuel (fuel : nat) (old new s : str) : str :=
  match fuel with
  | O => s
  | S f =>
      match s with
      | [] => []
      | c :: s' =>
          if starts_with old s
          then new ++ replace_all_fuel f old new (skipn (length old) s)
          else c :: replace_all_fuel f old new s'
      end
  end.
Definition replace_all (old new s : str) : str :=
  match old with [] => s | _ => replace_all_fuel (S (length s)) old new s end.

(* single-character replace, structurally recursive (used in proofs) *)
Definition replace_char (c : Z) (new : str) (s : str) : str :=
  flat_map (fun x => if x =? c then new else [x]) s.

(* strip over a character predicate *)
Fixpoint lstrip_by (p : Z -> bool) (s : str) : str :=
  match s with
  | c :: s' => if p c then lstrip_by p s' else s
  | [] => []
  end.
Definition rstrip_by (p : Z -> bool) (s : str) : str := rev (lstrip_by p (rev s)).
Definition strip_by (p : Z -> bool) (s : str) : str := rstrip_by p (lstrip_by p s).

(* decimal rendering of an int: str(n) *)
Fixpoint digits_fuel (fuel : nat) (n : Z) (acc : str) : str :=
  match fuel with
  | O => acc
  | S f => if n <? 10 then (48 + n) :: acc else digits_fuel f (n / 10) ((48 + n mod 10) :: acc)
  end.
Definition str_of_Z (n : Z) : str :=
  if n <? 0 then 45 :: digits_fuel (S (Z.to_nat (Z.log2 (- n)))) (- n) []
  else digits_fuel (S (Z.to_nat (Z.log2 n))) n [].

(* int(s) for a non-empty string of ASCII digits (callers check) *)
Definition int_of_digits (s : str) : Z := fold_left (fun acc c => acc * 10 + (c - 48)) s 0.

Definition is_digit (c : Z) : bool := (48 <=? c) && (c <=? 57).

(* ASCII lower-casing *)
Definition lower_ascii (c : Z) : Z := if (65 <=? c) && (c <=? 90) then c + 32 else c.

(* join *)
Definition join (sep : str) (l : list str) : str :=
  match l with
  | [] => []
  | x :: l' => x ++ flat_map (fun y => sep ++ y) l'
  end.

(* split on a single character (str.split(c)) *)
Fixpoint split_on (c : Z) (s : str) (cur : str) : list str :=
  match s with
  | [] => [rev cur]
  | x :: s' => if x =? c then rev cur :: split_on c s' [] else split_on c s' (x :: cur)
  end.
Definition split_char (c : Z) (s : str) : list str := split_on c s [].
