(* Option values and preset records (the shape of presets/*.make()). *)
From MD Require Import Base.Py.

Inductive optval :=
| OVNone | OVBool (b : bool) | OVInt (z : Z) | OVStr (s : str) | OVStrs (l : list str)
| OVFun (id : Z).   (* a callable (highlight), identified by a tag *)

Record preset := {
  p_options : list (str * optval);
  p_components : list (str * (option (list str) * option (list str)))
}.

Definition optval_eqb (a b : optval) : bool :=
  match a, b with
  | OVNone, OVNone => true
  | OVBool x, OVBool y => Bool.eqb x y
  | OVInt x, OVInt y => x =? y
  | OVStr x, OVStr y => str_eqb x y
  | OVStrs x, OVStrs y =>
      (fix go (x y : list str) := match x, y with
         | [], [] => true | a :: x', b :: y' => str_eqb a b && go x' y' | _, _ => false end) x y
  | OVFun x, OVFun y => x =? y
  | _, _ => false
  end.

(* dict semantics on association lists: assignment keeps the position of an
   existing key, appends a new one *)
Fixpoint aset {V} (k : str) (v : V) (m : list (str * V)) : list (str * V) :=
  match m with
  | [] => [(k, v)]
  | (k', v') :: m' => if str_eqb k k' then (k, v) :: m' else (k', v') :: aset k v m'
  end.

Definition amerge {V} (a b : list (str * V)) : list (str * V) :=
  fold_left (fun m kv => aset (fst kv) (snd kv) m) b a.
