(* A tiny s-expression type: the only wire format between the Python harness,
   the extracted OCaml driver and in-kernel evaluation.  All decoding of cases
   and encoding of results is written in Gallina so the driver stays generic. *)
From MD Require Import Base.Py.

Inductive sx := SI (z : Z) | SL (l : list sx).

Fixpoint sx_eqb (a b : sx) {struct a} : bool :=
  match a, b with
  | SI x, SI y => x =? y
  | SL xs, SL ys =>
      (fix go (xs ys : list sx) {struct xs} : bool :=
         match xs, ys with
         | [], [] => true
         | x :: xs', y :: ys' => sx_eqb x y && go xs' ys'
         | _, _ => false
         end) xs ys
  | _, _ => false
  end.

Definition sx_str (s : str) : sx := SL (map SI s).
Definition sx_bool (b : bool) : sx := SI (if b then 1 else 0).
Definition sx_list {A} (f : A -> sx) (l : list A) : sx := SL (map f l).
Definition sx_opt {A} (f : A -> sx) (o : option A) : sx :=
  match o with None => SL [] | Some a => SL [f a] end.
Definition sx_pair {A B} (f : A -> sx) (g : B -> sx) (p : A * B) : sx :=
  SL [f (fst p); g (snd p)].

Definition un_int (s : sx) : Z := match s with SI z => z | SL _ => 0 end.
Definition un_bool (s : sx) : bool := negb (un_int s =? 0).
Definition un_list (s : sx) : list sx := match s with SL l => l | SI _ => [] end.
Definition un_str (s : sx) : str := map un_int (un_list s).
Definition un_strs (s : sx) : list str := map un_str (un_list s).
Definition un_opt {A} (f : sx -> A) (s : sx) : option A :=
  match s with SL (x :: _) => Some (f x) | _ => None end.
Definition sx_nth (s : sx) (n : nat) : sx := nth n (un_list s) (SL []).

Definition sx_res {A} (f : A -> sx) (r : res A) : sx :=
  match r with
  | Ok a => SL [SI 0; f a]
  | Raise e => SL [SI 1; SI (exn_code e)]
  | OutOfFuel => SL [SI 2]
  end.
