Base/Py.vo Base/Py.glob Base/Py.v.beautified Base/Py.required_vo: Base/Py.v 
Base/Py.vio: Base/Py.v 
Base/Py.vos Base/Py.vok Base/Py.required_vos: Base/Py.v 
Base/Sx.vo Base/Sx.glob Base/Sx.v.beautified Base/Sx.required_vo: Base/Sx.v Base/Py.vo
Base/Sx.vio: Base/Sx.v Base/Py.vio
Base/Sx.vos Base/Sx.vok Base/Sx.required_vos: Base/Sx.v Base/Py.vos
Model/Ruler.vo Model/Ruler.glob Model/Ruler.v.beautified Model/Ruler.required_vo: Model/Ruler.v Base/Py.vo
Model/Ruler.vio: Model/Ruler.v Base/Py.vio
Model/Ruler.vos Model/Ruler.vok Model/Ruler.required_vos: Model/Ruler.v Base/Py.vos
Lemmas/RulerCoherent.vo Lemmas/RulerCoherent.glob Lemmas/RulerCoherent.v.beautified Lemmas/RulerCoherent.required_vo: Lemmas/RulerCoherent.v Base/Py.vo Model/Ruler.vo
Lemmas/RulerCoherent.vio: Lemmas/RulerCoherent.v Base/Py.vio Model/Ruler.vio
Lemmas/RulerCoherent.vos Lemmas/RulerCoherent.vok Lemmas/RulerCoherent.required_vos: Lemmas/RulerCoherent.v Base/Py.vos Model/Ruler.vos
Lemmas/RulerSets.vo Lemmas/RulerSets.glob Lemmas/RulerSets.v.beautified Lemmas/RulerSets.required_vo: Lemmas/RulerSets.v Base/Py.vo Model/Ruler.vo
Lemmas/RulerSets.vio: Lemmas/RulerSets.v Base/Py.vio Model/Ruler.vio
Lemmas/RulerSets.vos Lemmas/RulerSets.vok Lemmas/RulerSets.required_vos: Lemmas/RulerSets.v Base/Py.vos Model/Ruler.vos
Run/RunRuler.vo Run/RunRuler.glob Run/RunRuler.v.beautified Run/RunRuler.required_vo: Run/RunRuler.v Base/Py.vo Base/Sx.vo Model/Ruler.vo
Run/RunRuler.vio: Run/RunRuler.v Base/Py.vio Base/Sx.vio Model/Ruler.vio
Run/RunRuler.vos Run/RunRuler.vok Run/RunRuler.required_vos: Run/RunRuler.v Base/Py.vos Base/Sx.vos Model/Ruler.vos
Run/RunInstance.vo Run/RunInstance.glob Run/RunInstance.v.beautified Run/RunInstance.required_vo: Run/RunInstance.v Base/Py.vo Base/Sx.vo Base/Opt.vo Model/Ruler.vo Model/Instance.vo Run/RunRuler.vo Gen/Rules.vo
Run/RunInstance.vio: Run/RunInstance.v Base/Py.vio Base/Sx.vio Base/Opt.vio Model/Ruler.vio Model/Instance.vio Run/RunRuler.vio Gen/Rules.vio
Run/RunInstance.vos Run/RunInstance.vok Run/RunInstance.required_vos: Run/RunInstance.v Base/Py.vos Base/Sx.vos Base/Opt.vos Model/Ruler.vos Model/Instance.vos Run/RunRuler.vos Gen/Rules.vos
Run/Dispatch.vo Run/Dispatch.glob Run/Dispatch.v.beautified Run/Dispatch.required_vo: Run/Dispatch.v Base/Py.vo Base/Sx.vo Run/RunRuler.vo Run/RunInstance.vo
Run/Dispatch.vio: Run/Dispatch.v Base/Py.vio Base/Sx.vio Run/RunRuler.vio Run/RunInstance.vio
Run/Dispatch.vos Run/Dispatch.vok Run/Dispatch.required_vos: Run/Dispatch.v Base/Py.vos Base/Sx.vos Run/RunRuler.vos Run/RunInstance.vos
Extract/Extract.vo Extract/Extract.glob Extract/Extract.v.beautified Extract/Extract.required_vo: Extract/Extract.v Base/Py.vo Base/Sx.vo Run/Dispatch.vo
Extract/Extract.vio: Extract/Extract.v Base/Py.vio Base/Sx.vio Run/Dispatch.vio
Extract/Extract.vos Extract/Extract.vok Extract/Extract.required_vos: Extract/Extract.v Base/Py.vos Base/Sx.vos Run/Dispatch.vos
Props/C11.vo Props/C11.glob Props/C11.v.beautified Props/C11.required_vo: Props/C11.v Base/Py.vo Model/Ruler.vo Lemmas/RulerCoherent.vo Lemmas/RulerSets.vo
Props/C11.vio: Props/C11.v Base/Py.vio Model/Ruler.vio Lemmas/RulerCoherent.vio Lemmas/RulerSets.vio
Props/C11.vos Props/C11.vok Props/C11.required_vos: Props/C11.v Base/Py.vos Model/Ruler.vos Lemmas/RulerCoherent.vos Lemmas/RulerSets.vos
Base/Opt.vo Base/Opt.glob Base/Opt.v.beautified Base/Opt.required_vo: Base/Opt.v Base/Py.vo
Base/Opt.vio: Base/Opt.v Base/Py.vio
Base/Opt.vos Base/Opt.vok Base/Opt.required_vos: Base/Opt.v Base/Py.vos
Gen/Rules.vo Gen/Rules.glob Gen/Rules.v.beautified Gen/Rules.required_vo: Gen/Rules.v Base/Py.vo
Gen/Rules.vio: Gen/Rules.v Base/Py.vio
Gen/Rules.vos Gen/Rules.vok Gen/Rules.required_vos: Gen/Rules.v Base/Py.vos
Gen/Presets.vo Gen/Presets.glob Gen/Presets.v.beautified Gen/Presets.required_vo: Gen/Presets.v Base/Py.vo Base/Opt.vo
Gen/Presets.vio: Gen/Presets.v Base/Py.vio Base/Opt.vio
Gen/Presets.vos Gen/Presets.vok Gen/Presets.required_vos: Gen/Presets.v Base/Py.vos Base/Opt.vos
Model/Instance.vo Model/Instance.glob Model/Instance.v.beautified Model/Instance.required_vo: Model/Instance.v Base/Py.vo Base/Opt.vo Model/Ruler.vo
Model/Instance.vio: Model/Instance.v Base/Py.vio Base/Opt.vio Model/Ruler.vio
Model/Instance.vos Model/Instance.vok Model/Instance.required_vos: Model/Instance.v Base/Py.vos Base/Opt.vos Model/Ruler.vos
Lemmas/InstanceLemmas.vo Lemmas/InstanceLemmas.glob Lemmas/InstanceLemmas.v.beautified Lemmas/InstanceLemmas.required_vo: Lemmas/InstanceLemmas.v Base/Py.vo Base/Opt.vo Model/Ruler.vo Model/Instance.vo Lemmas/RulerCoherent.vo Lemmas/RulerSets.vo
Lemmas/InstanceLemmas.vio: Lemmas/InstanceLemmas.v Base/Py.vio Base/Opt.vio Model/Ruler.vio Model/Instance.vio Lemmas/RulerCoherent.vio Lemmas/RulerSets.vio
Lemmas/InstanceLemmas.vos Lemmas/InstanceLemmas.vok Lemmas/InstanceLemmas.required_vos: Lemmas/InstanceLemmas.v Base/Py.vos Base/Opt.vos Model/Ruler.vos Model/Instance.vos Lemmas/RulerCoherent.vos Lemmas/RulerSets.vos
