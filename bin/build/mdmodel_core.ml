
(** val negb : bool -> bool **)

let negb = function
| true -> false
| false -> true

type nat =
| O
| S of nat

(** val fst : ('a1 * 'a2) -> 'a1 **)

let fst = function
| (x, _) -> x

(** val snd : ('a1 * 'a2) -> 'a2 **)

let snd = function
| (_, y) -> y

(** val app : 'a1 list -> 'a1 list -> 'a1 list **)

let rec app l m =
  match l with
  | [] -> m
  | a :: l1 -> a :: (app l1 m)

(** val nth : nat -> 'a1 list -> 'a1 -> 'a1 **)

let rec nth n l default =
  match n with
  | O -> (match l with
          | [] -> default
          | x :: _ -> x)
  | S m -> (match l with
            | [] -> default
            | _ :: t -> nth m t default)

(** val map : ('a1 -> 'a2) -> 'a1 list -> 'a2 list **)

let rec map f = function
| [] -> []
| a :: t -> (f a) :: (map f t)

(** val flat_map : ('a1 -> 'a2 list) -> 'a1 list -> 'a2 list **)

let rec flat_map f = function
| [] -> []
| x :: t -> app (f x) (flat_map f t)

(** val fold_left : ('a1 -> 'a2 -> 'a1) -> 'a2 list -> 'a1 -> 'a1 **)

let rec fold_left f l a0 =
  match l with
  | [] -> a0
  | b :: t -> fold_left f t (f a0 b)

(** val existsb : ('a1 -> bool) -> 'a1 list -> bool **)

let rec existsb f = function
| [] -> false
| a :: l0 -> (||) (f a) (existsb f l0)

(** val filter : ('a1 -> bool) -> 'a1 list -> 'a1 list **)

let rec filter f = function
| [] -> []
| x :: l0 -> if f x then x :: (filter f l0) else filter f l0

type positive =
| XI of positive
| XO of positive
| XH

type z =
| Z0
| Zpos of positive
| Zneg of positive

module Pos =
 struct
  (** val succ : positive -> positive **)

  let rec succ = function
  | XI p -> XO (succ p)
  | XO p -> XI p
  | XH -> XO XH

  (** val add : positive -> positive -> positive **)

  let rec add x y =
    match x with
    | XI p ->
      (match y with
       | XI q -> XO (add_carry p q)
       | XO q -> XI (add p q)
       | XH -> XO (succ p))
    | XO p ->
      (match y with
       | XI q -> XI (add p q)
       | XO q -> XO (add p q)
       | XH -> XI p)
    | XH -> (match y with
             | XI q -> XO (succ q)
             | XO q -> XI q
             | XH -> XO XH)

  (** val add_carry : positive -> positive -> positive **)

  and add_carry x y =
    match x with
    | XI p ->
      (match y with
       | XI q -> XI (add_carry p q)
       | XO q -> XO (add_carry p q)
       | XH -> XI (succ p))
    | XO p ->
      (match y with
       | XI q -> XO (add_carry p q)
       | XO q -> XI (add p q)
       | XH -> XO (succ p))
    | XH ->
      (match y with
       | XI q -> XI (succ q)
       | XO q -> XO (succ q)
       | XH -> XI XH)

  (** val pred_double : positive -> positive **)

  let rec pred_double = function
  | XI p -> XI (XO p)
  | XO p -> XI (pred_double p)
  | XH -> XH

  (** val eqb : positive -> positive -> bool **)

  let rec eqb p q =
    match p with
    | XI p0 -> (match q with
                | XI q0 -> eqb p0 q0
                | _ -> false)
    | XO p0 -> (match q with
                | XO q0 -> eqb p0 q0
                | _ -> false)
    | XH -> (match q with
             | XH -> true
             | _ -> false)
 end

module Z =
 struct
  (** val double : z -> z **)

  let double = function
  | Z0 -> Z0
  | Zpos p -> Zpos (XO p)
  | Zneg p -> Zneg (XO p)

  (** val succ_double : z -> z **)

  let succ_double = function
  | Z0 -> Zpos XH
  | Zpos p -> Zpos (XI p)
  | Zneg p -> Zneg (Pos.pred_double p)

  (** val pred_double : z -> z **)

  let pred_double = function
  | Z0 -> Zneg XH
  | Zpos p -> Zpos (Pos.pred_double p)
  | Zneg p -> Zneg (XI p)

  (** val pos_sub : positive -> positive -> z **)

  let rec pos_sub x y =
    match x with
    | XI p ->
      (match y with
       | XI q -> double (pos_sub p q)
       | XO q -> succ_double (pos_sub p q)
       | XH -> Zpos (XO p))
    | XO p ->
      (match y with
       | XI q -> pred_double (pos_sub p q)
       | XO q -> double (pos_sub p q)
       | XH -> Zpos (Pos.pred_double p))
    | XH ->
      (match y with
       | XI q -> Zneg (XO q)
       | XO q -> Zneg (Pos.pred_double q)
       | XH -> Z0)

  (** val add : z -> z -> z **)

  let add x y =
    match x with
    | Z0 -> y
    | Zpos x' ->
      (match y with
       | Z0 -> x
       | Zpos y' -> Zpos (Pos.add x' y')
       | Zneg y' -> pos_sub x' y')
    | Zneg x' ->
      (match y with
       | Z0 -> x
       | Zpos y' -> pos_sub y' x'
       | Zneg y' -> Zneg (Pos.add x' y'))

  (** val eqb : z -> z -> bool **)

  let eqb x y =
    match x with
    | Z0 -> (match y with
             | Z0 -> true
             | _ -> false)
    | Zpos p -> (match y with
                 | Zpos q -> Pos.eqb p q
                 | _ -> false)
    | Zneg p -> (match y with
                 | Zneg q -> Pos.eqb p q
                 | _ -> false)
 end

type str = z list

type exn =
| IndexError
| KeyError
| ValueError
| TypeError
| AttributeError
| AssertionError
| RecursionError
| ModuleNotFound
| UserExn of z

type 'a res =
| Ok of 'a
| Raise of exn
| OutOfFuel

(** val exn_code : exn -> z **)

let exn_code = function
| IndexError -> Zpos XH
| KeyError -> Zpos (XO XH)
| ValueError -> Zpos (XI XH)
| TypeError -> Zpos (XO (XO XH))
| AttributeError -> Zpos (XI (XO XH))
| AssertionError -> Zpos (XO (XI XH))
| RecursionError -> Zpos (XI (XI XH))
| ModuleNotFound -> Zpos (XO (XO (XO XH)))
| UserExn n -> Z.add (Zpos (XO (XO (XI (XO (XO (XI XH))))))) n

(** val str_eqb : str -> str -> bool **)

let rec str_eqb a b =
  match a with
  | [] -> (match b with
           | [] -> true
           | _ :: _ -> false)
  | x :: a' ->
    (match b with
     | [] -> false
     | y :: b' -> (&&) (Z.eqb x y) (str_eqb a' b'))

(** val mem_str : str -> str list -> bool **)

let mem_str s l =
  existsb (str_eqb s) l

(** val alookup : str -> (str * 'a1) list -> 'a1 option **)

let rec alookup k = function
| [] -> None
| p :: m' -> let (k', v) = p in if str_eqb k k' then Some v else alookup k m'

type sx =
| SI of z
| SL of sx list

(** val sx_str : str -> sx **)

let sx_str s =
  SL (map (fun x -> SI x) s)

(** val sx_bool : bool -> sx **)

let sx_bool b =
  SI (if b then Zpos XH else Z0)

(** val sx_list : ('a1 -> sx) -> 'a1 list -> sx **)

let sx_list f l =
  SL (map f l)

(** val un_int : sx -> z **)

let un_int = function
| SI z0 -> z0
| SL _ -> Z0

(** val un_bool : sx -> bool **)

let un_bool s =
  negb (Z.eqb (un_int s) Z0)

(** val un_list : sx -> sx list **)

let un_list = function
| SI _ -> []
| SL l -> l

(** val un_str : sx -> str **)

let un_str s =
  map un_int (un_list s)

(** val un_strs : sx -> str list **)

let un_strs s =
  map un_str (un_list s)

(** val un_opt : (sx -> 'a1) -> sx -> 'a1 option **)

let un_opt f = function
| SI _ -> None
| SL l -> (match l with
           | [] -> None
           | x :: _ -> Some (f x))

(** val sx_nth : sx -> nat -> sx **)

let sx_nth s n =
  nth n (un_list s) (SL [])

(** val sx_res : ('a1 -> sx) -> 'a1 res -> sx **)

let sx_res f = function
| Ok a -> SL ((SI Z0) :: ((f a) :: []))
| Raise e -> SL ((SI (Zpos XH)) :: ((SI (exn_code e)) :: []))
| OutOfFuel -> SL ((SI (Zpos (XO XH))) :: [])

type 'f rule = { rname : str; renabled : bool; rfn : 'f; ralt : str list }

type 'f ruler = { rules : 'f rule list; cache : (str * 'f list) list option }

(** val ruler_init : 'a1 ruler **)

let ruler_init =
  { rules = []; cache = None }

(** val find_from : 'a1 rule list -> str -> nat -> nat option **)

let rec find_from rs name i =
  match rs with
  | [] -> None
  | r :: rs' ->
    if str_eqb r.rname name then Some i else find_from rs' name (S i)

(** val find : 'a1 rule list -> str -> nat option **)

let find rs name =
  find_from rs name O

(** val upd_nth :
    nat -> ('a1 rule -> 'a1 rule) -> 'a1 rule list -> 'a1 rule list **)

let rec upd_nth i f = function
| [] -> []
| r :: rs' ->
  (match i with
   | O -> (f r) :: rs'
   | S i' -> r :: (upd_nth i' f rs'))

(** val insert_at : nat -> 'a1 rule -> 'a1 rule list -> 'a1 rule list **)

let rec insert_at i x rs =
  match i with
  | O -> x :: rs
  | S i' ->
    (match rs with
     | [] -> x :: []
     | r :: rs' -> r :: (insert_at i' x rs'))

(** val set_enabled : bool -> 'a1 rule -> 'a1 rule **)

let set_enabled v r =
  { rname = r.rname; renabled = v; rfn = r.rfn; ralt = r.ralt }

(** val in_chain : str -> 'a1 rule -> bool **)

let in_chain chain r =
  match chain with
  | [] -> true
  | _ :: _ -> mem_str chain r.ralt

(** val compile_chain : 'a1 rule list -> str -> 'a1 list **)

let compile_chain rs chain =
  map (fun r -> r.rfn)
    (filter (fun r -> (&&) r.renabled (in_chain chain r)) rs)

(** val chains_of : 'a1 rule list -> str list **)

let chains_of rs =
  [] :: (flat_map (fun r -> if r.renabled then r.ralt else []) rs)

(** val compile : 'a1 rule list -> (str * 'a1 list) list **)

let compile rs =
  map (fun c -> (c, (compile_chain rs c))) (chains_of rs)

(** val cache_get : (str * 'a1 list) list -> str -> 'a1 list **)

let cache_get c chain =
  match alookup chain c with
  | Some l -> l
  | None -> []

type 'f op =
| OpAt of str * 'f * str list
| OpBefore of str * str * 'f * str list
| OpAfter of str * str * 'f * str list
| OpPush of str * 'f * str list
| OpEnable of str list * bool
| OpEnableOnly of str list * bool
| OpDisable of str list * bool
| OpGetRules of str
| OpAll
| OpActive

type 'f out =
| ONone
| ONames of str list
| OFns of 'f list

(** val toggle_loop :
    bool -> str list -> bool -> 'a1 rule list -> str list -> 'a1 rule
    list * str list res **)

let rec toggle_loop v names ign rs acc =
  match names with
  | [] -> (rs, (Ok acc))
  | n :: ns ->
    (match find rs n with
     | Some i ->
       toggle_loop v ns ign (upd_nth i (set_enabled v) rs) (app acc (n :: []))
     | None ->
       if ign then toggle_loop v ns ign rs acc else (rs, (Raise KeyError)))

(** val toggle :
    bool -> str list -> bool -> 'a1 ruler -> 'a1 ruler * 'a1 out res **)

let toggle v names ign r =
  let (rs', o) = toggle_loop v names ign r.rules [] in
  ({ rules = rs'; cache = None },
  (match o with
   | Ok l -> Ok (ONames l)
   | Raise e -> Raise e
   | OutOfFuel -> OutOfFuel))

(** val get_rules : 'a1 ruler -> str -> 'a1 ruler * 'a1 list **)

let get_rules r chain =
  match r.cache with
  | Some c -> (r, (cache_get c chain))
  | None ->
    let c = compile r.rules in
    ({ rules = r.rules; cache = (Some c) }, (cache_get c chain))

(** val all_names : 'a1 ruler -> str list **)

let all_names r =
  map (fun r0 -> r0.rname) r.rules

(** val active : 'a1 ruler -> 'a1 rule list **)

let active r =
  filter (fun r0 -> r0.renabled) r.rules

(** val active_names : 'a1 ruler -> str list **)

let active_names r =
  map (fun r0 -> r0.rname) (active r)

(** val step : 'a1 ruler -> 'a1 op -> 'a1 ruler * 'a1 out res **)

let step r = function
| OpAt (name, fn, alt) ->
  (match find r.rules name with
   | Some i ->
     ({ rules =
       (upd_nth i (fun x -> { rname = x.rname; renabled = x.renabled; rfn =
         fn; ralt = alt }) r.rules); cache = None }, (Ok ONone))
   | None -> (r, (Raise KeyError)))
| OpBefore (ref, name, fn, alt) ->
  (match find r.rules ref with
   | Some i ->
     ({ rules =
       (insert_at i { rname = name; renabled = true; rfn = fn; ralt = alt }
         r.rules); cache = None }, (Ok ONone))
   | None -> (r, (Raise KeyError)))
| OpAfter (ref, name, fn, alt) ->
  (match find r.rules ref with
   | Some i ->
     ({ rules =
       (insert_at (S i) { rname = name; renabled = true; rfn = fn; ralt =
         alt } r.rules); cache = None }, (Ok ONone))
   | None -> (r, (Raise KeyError)))
| OpPush (name, fn, alt) ->
  ({ rules =
    (app r.rules ({ rname = name; renabled = true; rfn = fn; ralt =
      alt } :: [])); cache = None }, (Ok ONone))
| OpEnable (names, ign) -> toggle true names ign r
| OpEnableOnly (names, ign) ->
  toggle true names ign { rules = (map (set_enabled false) r.rules); cache =
    r.cache }
| OpDisable (names, ign) -> toggle false names ign r
| OpGetRules chain -> let (r', l) = get_rules r chain in (r', (Ok (OFns l)))
| OpAll -> (r, (Ok (ONames (all_names r))))
| OpActive -> (r, (Ok (ONames (active_names r))))

(** val run_trace : 'a1 op list -> 'a1 ruler -> 'a1 out res list **)

let rec run_trace ops r =
  match ops with
  | [] -> []
  | o :: ops' -> let (r', x) = step r o in x :: (run_trace ops' r')

(** val toggle_legacy :
    bool -> str list -> bool -> 'a1 ruler -> 'a1 ruler * 'a1 out res **)

let toggle_legacy v names ign r =
  let (rs', o) = toggle_loop v names ign r.rules [] in
  (match o with
   | Ok l -> ({ rules = rs'; cache = None }, (Ok (ONames l)))
   | Raise e -> ({ rules = rs'; cache = r.cache }, (Raise e))
   | OutOfFuel -> ({ rules = rs'; cache = r.cache }, OutOfFuel))

(** val step_legacy : 'a1 ruler -> 'a1 op -> 'a1 ruler * 'a1 out res **)

let step_legacy r o = match o with
| OpEnable (names, ign) -> toggle_legacy true names ign r
| OpEnableOnly (names, ign) ->
  toggle_legacy true names ign { rules = (map (set_enabled false) r.rules);
    cache = r.cache }
| OpDisable (names, ign) -> toggle_legacy false names ign r
| _ -> step r o

(** val dec_op : sx -> z op **)

let dec_op s =
  let a = sx_nth s in
  (match un_int (a O) with
   | Z0 ->
     OpAt ((un_str (a (S O))), (un_int (a (S (S O)))),
       (un_strs (a (S (S (S O))))))
   | Zpos p ->
     (match p with
      | XI p0 ->
        (match p0 with
         | XI p1 ->
           (match p1 with
            | XH -> OpGetRules (un_str (a (S O)))
            | _ -> OpActive)
         | XO p1 ->
           (match p1 with
            | XH ->
              OpEnableOnly ((un_strs (a (S O))), (un_bool (a (S (S O)))))
            | _ -> OpActive)
         | XH ->
           OpPush ((un_str (a (S O))), (un_int (a (S (S O)))),
             (un_strs (a (S (S (S O)))))))
      | XO p0 ->
        (match p0 with
         | XI p1 ->
           (match p1 with
            | XH -> OpDisable ((un_strs (a (S O))), (un_bool (a (S (S O)))))
            | _ -> OpActive)
         | XO p1 ->
           (match p1 with
            | XI _ -> OpActive
            | XO p2 -> (match p2 with
                        | XH -> OpAll
                        | _ -> OpActive)
            | XH -> OpEnable ((un_strs (a (S O))), (un_bool (a (S (S O))))))
         | XH ->
           OpAfter ((un_str (a (S O))), (un_str (a (S (S O)))),
             (un_int (a (S (S (S O))))), (un_strs (a (S (S (S (S O))))))))
      | XH ->
        OpBefore ((un_str (a (S O))), (un_str (a (S (S O)))),
          (un_int (a (S (S (S O))))), (un_strs (a (S (S (S (S O))))))))
   | Zneg _ -> OpActive)

(** val enc_out : z out -> sx **)

let enc_out = function
| ONone -> SL ((SI Z0) :: [])
| ONames l -> SL ((SI (Zpos XH)) :: ((sx_list sx_str l) :: []))
| OFns l -> SL ((SI (Zpos (XO XH))) :: ((sx_list (fun x -> SI x) l) :: []))

(** val run_ruler_case : sx -> sx **)

let run_ruler_case s =
  sx_list (sx_res enc_out) (run_trace (map dec_op (un_list s)) ruler_init)

(** val run_ruler_legacy_case : sx -> sx **)

let run_ruler_legacy_case s =
  let go =
    let rec go ops r =
      match ops with
      | [] -> []
      | o :: ops' -> let (r', x) = step_legacy r o in x :: (go ops' r')
    in go
  in
  sx_list (sx_res enc_out) (go (map dec_op (un_list s)) ruler_init)

type optval =
| OVNone
| OVBool of bool
| OVInt of z
| OVStr of str
| OVStrs of str list
| OVFun of z

type preset = { p_options : (str * optval) list;
                p_components : (str * (str list option * str list option))
                               list }

(** val aset : str -> 'a1 -> (str * 'a1) list -> (str * 'a1) list **)

let rec aset k v = function
| [] -> (k, v) :: []
| p :: m' ->
  let (k', v') = p in
  if str_eqb k k' then (k, v) :: m' else (k', v') :: (aset k v m')

(** val amerge : (str * 'a1) list -> (str * 'a1) list -> (str * 'a1) list **)

let amerge a b =
  fold_left (fun m kv -> aset (fst kv) (snd kv) m) b a

type inst = { i_opts : (str * optval) list; i_core : z ruler;
              i_block : z ruler; i_inline : z ruler; i_inline2 : z ruler;
              i_render : (str * z) list }

(** val get_chain : inst -> z -> z ruler **)

let get_chain i = function
| Z0 -> i.i_core
| Zpos p ->
  (match p with
   | XI _ -> i.i_inline2
   | XO p0 -> (match p0 with
               | XH -> i.i_inline
               | _ -> i.i_inline2)
   | XH -> i.i_block)
| Zneg _ -> i.i_inline2

(** val set_chain : inst -> z -> z ruler -> inst **)

let set_chain i c r =
  match c with
  | Z0 ->
    { i_opts = i.i_opts; i_core = r; i_block = i.i_block; i_inline =
      i.i_inline; i_inline2 = i.i_inline2; i_render = i.i_render }
  | Zpos p ->
    (match p with
     | XI _ ->
       { i_opts = i.i_opts; i_core = i.i_core; i_block = i.i_block;
         i_inline = i.i_inline; i_inline2 = r; i_render = i.i_render }
     | XO p0 ->
       (match p0 with
        | XH ->
          { i_opts = i.i_opts; i_core = i.i_core; i_block = i.i_block;
            i_inline = r; i_inline2 = i.i_inline2; i_render = i.i_render }
        | _ ->
          { i_opts = i.i_opts; i_core = i.i_core; i_block = i.i_block;
            i_inline = i.i_inline; i_inline2 = r; i_render = i.i_render })
     | XH ->
       { i_opts = i.i_opts; i_core = i.i_core; i_block = r; i_inline =
         i.i_inline; i_inline2 = i.i_inline2; i_render = i.i_render })
  | Zneg _ ->
    { i_opts = i.i_opts; i_core = i.i_core; i_block = i.i_block; i_inline =
      i.i_inline; i_inline2 = r; i_render = i.i_render }

(** val set_opts : inst -> (str * optval) list -> inst **)

let set_opts i o =
  { i_opts = o; i_core = i.i_core; i_block = i.i_block; i_inline =
    i.i_inline; i_inline2 = i.i_inline2; i_render = i.i_render }

(** val set_render : inst -> (str * z) list -> inst **)

let set_render i m =
  { i_opts = i.i_opts; i_core = i.i_core; i_block = i.i_block; i_inline =
    i.i_inline; i_inline2 = i.i_inline2; i_render = m }

(** val ruler_of_registry_from : (str * str list) list -> z -> z rule list **)

let rec ruler_of_registry_from reg k =
  match reg with
  | [] -> []
  | p :: reg' ->
    let (n, alt) = p in
    { rname = n; renabled = true; rfn = k; ralt =
    alt } :: (ruler_of_registry_from reg' (Z.add k (Zpos XH)))

(** val ruler_of_registry : (str * str list) list -> z ruler **)

let ruler_of_registry reg =
  { rules = (ruler_of_registry_from reg Z0); cache = None }

(** val bare_inst :
    (str * str list) list -> (str * str list) list -> (str * str list) list
    -> (str * str list) list -> inst **)

let bare_inst core block inline inline2 =
  { i_opts = []; i_core = (ruler_of_registry core); i_block =
    (ruler_of_registry block); i_inline = (ruler_of_registry inline);
    i_inline2 = (ruler_of_registry inline2); i_render = [] }

type mout =
| MONone
| MONames4 of str list * str list * str list * str list
| MOOpts of (str * optval) list

type mop =
| MEnable of str list * bool
| MDisable of str list * bool
| MRuler of z * z op
| MConfigure of preset option * (str * optval) list
| MSetItem of str * optval
| MSetOptions of (str * optval) list
| MAddRenderRule of str * z * bool
| MActive
| MAll
| MOptions
| MReset of mop list * z option

(** val names_of : z out res -> str list **)

let names_of = function
| Ok a -> (match a with
           | ONames l -> l
           | _ -> [])
| _ -> []

(** val md_toggle : bool -> str list -> bool -> inst -> inst * mout res **)

let md_toggle v names ign i =
  let (c0, o0) = toggle v names true i.i_core in
  let (c1, o1) = toggle v names true i.i_block in
  let (c2, o2) = toggle v names true i.i_inline in
  let (c3, o3) = toggle v names true i.i_inline2 in
  let result =
    app (names_of o0) (app (names_of o1) (app (names_of o2) (names_of o3)))
  in
  let missed = filter (fun n -> negb (mem_str n result)) names in
  ({ i_opts = i.i_opts; i_core = c0; i_block = c1; i_inline = c2; i_inline2 =
  c3; i_render = i.i_render },
  (match missed with
   | [] -> Ok MONone
   | _ :: _ -> if ign then Ok MONone else Raise ValueError))

(** val chain_of_name : str -> z option **)

let chain_of_name n =
  if str_eqb n ((Zpos (XI (XI (XO (XO (XO (XI XH))))))) :: ((Zpos (XI (XI (XI
       (XI (XO (XI XH))))))) :: ((Zpos (XO (XI (XO (XO (XI (XI
       XH))))))) :: ((Zpos (XI (XO (XI (XO (XO (XI XH))))))) :: []))))
  then Some Z0
  else if str_eqb n ((Zpos (XO (XI (XO (XO (XO (XI XH))))))) :: ((Zpos (XO
            (XO (XI (XI (XO (XI XH))))))) :: ((Zpos (XI (XI (XI (XI (XO (XI
            XH))))))) :: ((Zpos (XI (XI (XO (XO (XO (XI XH))))))) :: ((Zpos
            (XI (XI (XO (XI (XO (XI XH))))))) :: [])))))
       then Some (Zpos XH)
       else if str_eqb n ((Zpos (XI (XO (XO (XI (XO (XI XH))))))) :: ((Zpos
                 (XO (XI (XI (XI (XO (XI XH))))))) :: ((Zpos (XO (XO (XI (XI
                 (XO (XI XH))))))) :: ((Zpos (XI (XO (XO (XI (XO (XI
                 XH))))))) :: ((Zpos (XO (XI (XI (XI (XO (XI
                 XH))))))) :: ((Zpos (XI (XO (XI (XO (XO (XI
                 XH))))))) :: []))))))
            then Some (Zpos (XO XH))
            else None

(** val enable_only_chain : inst -> z -> str list -> inst * mout res **)

let enable_only_chain i c names =
  let (r', o) = step (get_chain i c) (OpEnableOnly (names, false)) in
  ((set_chain i c r'),
  (match o with
   | Ok _ -> Ok MONone
   | Raise e -> Raise e
   | OutOfFuel -> OutOfFuel))

(** val configure_components :
    (str * (str list option * str list option)) list -> inst -> inst * mout
    res **)

let rec configure_components comps i =
  match comps with
  | [] -> (i, (Ok MONone))
  | p :: rest ->
    let (name, p0) = p in
    let (rules0, rules2) = p0 in
    let after_rules =
      match rules0 with
      | Some l0 ->
        (match l0 with
         | [] -> (i, (Ok MONone))
         | x :: l ->
           (match chain_of_name name with
            | Some c -> enable_only_chain i c (x :: l)
            | None -> (i, (Raise KeyError))))
      | None -> (i, (Ok MONone))
    in
    let (i1, r) = after_rules in
    (match r with
     | Ok _ ->
       let after_rules2 =
         match rules2 with
         | Some l0 ->
           (match l0 with
            | [] -> (i1, (Ok MONone))
            | x :: l ->
              (match chain_of_name name with
               | Some z0 ->
                 (match z0 with
                  | Zpos p1 ->
                    (match p1 with
                     | XO p2 ->
                       (match p2 with
                        | XH -> enable_only_chain i1 (Zpos (XI XH)) (x :: l)
                        | _ -> (i1, (Raise AttributeError)))
                     | _ -> (i1, (Raise AttributeError)))
                  | _ -> (i1, (Raise AttributeError)))
               | None -> (i1, (Raise KeyError))))
         | None -> (i1, (Ok MONone))
       in
       let (i2, r0) = after_rules2 in
       (match r0 with
        | Ok _ -> configure_components rest i2
        | _ -> after_rules2)
     | _ -> after_rules)

(** val configure :
    preset option -> (str * optval) list -> inst -> inst * mout res **)

let configure p update i =
  match p with
  | Some cfg ->
    let i1 = set_opts i (amerge cfg.p_options update) in
    configure_components cfg.p_components i1
  | None -> (i, (Raise KeyError))

(** val active4 : inst -> mout **)

let active4 i =
  MONames4 ((active_names i.i_core), (active_names i.i_block),
    (active_names i.i_inline), (active_names i.i_inline2))

(** val restore : mout -> inst -> inst * mout res **)

let restore snap i =
  match snap with
  | MONames4 (a, b, c, d) ->
    let (i0, r) = enable_only_chain i Z0 a in
    (match r with
     | Ok _ ->
       let (i1, r0) = enable_only_chain i0 (Zpos XH) b in
       (match r0 with
        | Ok _ ->
          let (i2, r1) = enable_only_chain i1 (Zpos (XO XH)) c in
          (match r1 with
           | Ok _ -> enable_only_chain i2 (Zpos (XI XH)) d
           | x -> (i2, x))
        | x -> (i1, x))
     | x -> (i0, x))
  | _ -> (i, (Ok MONone))

(** val mstep : bool -> inst -> mop -> inst * mout res **)

let rec mstep finally i = function
| MEnable (names, ign) -> md_toggle true names ign i
| MDisable (names, ign) -> md_toggle false names ign i
| MRuler (c, op0) ->
  let (r', x) = step (get_chain i c) op0 in
  ((set_chain i c r'),
  (match x with
   | Ok _ -> Ok MONone
   | Raise e -> Raise e
   | OutOfFuel -> OutOfFuel))
| MConfigure (p, upd) -> configure p upd i
| MSetItem (k, v) -> ((set_opts i (aset k v i.i_opts)), (Ok MONone))
| MSetOptions o0 -> ((set_opts i o0), (Ok MONone))
| MAddRenderRule (name, fn, ok) ->
  ((if ok then set_render i (aset name fn i.i_render) else i), (Ok MONone))
| MActive -> (i, (Ok (active4 i)))
| MAll ->
  (i, (Ok (MONames4 ((all_names i.i_core), (all_names i.i_block),
    (all_names i.i_inline), (all_names i.i_inline2)))))
| MOptions -> (i, (Ok (MOOpts i.i_opts)))
| MReset (body, raise_at_end) ->
  let snap = active4 i in
  let body_result =
    let rec go ops i0 =
      match ops with
      | [] ->
        (i0,
          (match raise_at_end with
           | Some n -> Raise (UserExn n)
           | None -> Ok MONone))
      | o0 :: ops' ->
        let (i', r) = mstep finally i0 o0 in
        (match r with
         | Ok _ -> go ops' i'
         | x -> (i', x))
    in go body i
  in
  let (i', bad) = body_result in
  (match bad with
   | Ok _ -> restore snap i'
   | _ ->
     if finally
     then let (i'', r) = restore snap i' in
          (match r with
           | Ok _ -> (i'', bad)
           | x -> (i'', x))
     else (i', bad))

(** val core_registry : (str * str list) list **)

let core_registry =
  (((Zpos (XO (XI (XI (XI (XO (XI XH))))))) :: ((Zpos (XI (XI (XI (XI (XO (XI
    XH))))))) :: ((Zpos (XO (XI (XO (XO (XI (XI XH))))))) :: ((Zpos (XI (XO
    (XI (XI (XO (XI XH))))))) :: ((Zpos (XI (XO (XO (XO (XO (XI
    XH))))))) :: ((Zpos (XO (XO (XI (XI (XO (XI XH))))))) :: ((Zpos (XI (XO
    (XO (XI (XO (XI XH))))))) :: ((Zpos (XO (XI (XO (XI (XI (XI
    XH))))))) :: ((Zpos (XI (XO (XI (XO (XO (XI XH))))))) :: []))))))))),
    []) :: ((((Zpos (XO (XI (XO (XO (XO (XI XH))))))) :: ((Zpos (XO (XO (XI
    (XI (XO (XI XH))))))) :: ((Zpos (XI (XI (XI (XI (XO (XI
    XH))))))) :: ((Zpos (XI (XI (XO (XO (XO (XI XH))))))) :: ((Zpos (XI (XI
    (XO (XI (XO (XI XH))))))) :: []))))), []) :: ((((Zpos (XI (XO (XO (XI (XO
    (XI XH))))))) :: ((Zpos (XO (XI (XI (XI (XO (XI XH))))))) :: ((Zpos (XO
    (XO (XI (XI (XO (XI XH))))))) :: ((Zpos (XI (XO (XO (XI (XO (XI
    XH))))))) :: ((Zpos (XO (XI (XI (XI (XO (XI XH))))))) :: ((Zpos (XI (XO
    (XI (XO (XO (XI XH))))))) :: [])))))), []) :: ((((Zpos (XO (XO (XI (XI
    (XO (XI XH))))))) :: ((Zpos (XI (XO (XO (XI (XO (XI XH))))))) :: ((Zpos
    (XO (XI (XI (XI (XO (XI XH))))))) :: ((Zpos (XI (XI (XO (XI (XO (XI
    XH))))))) :: ((Zpos (XI (XO (XO (XI (XO (XI XH))))))) :: ((Zpos (XO (XI
    (XI (XO (XO (XI XH))))))) :: ((Zpos (XI (XO (XO (XI (XI (XI
    XH))))))) :: []))))))), []) :: ((((Zpos (XO (XI (XO (XO (XI (XI
    XH))))))) :: ((Zpos (XI (XO (XI (XO (XO (XI XH))))))) :: ((Zpos (XO (XO
    (XO (XO (XI (XI XH))))))) :: ((Zpos (XO (XO (XI (XI (XO (XI
    XH))))))) :: ((Zpos (XI (XO (XO (XO (XO (XI XH))))))) :: ((Zpos (XI (XI
    (XO (XO (XO (XI XH))))))) :: ((Zpos (XI (XO (XI (XO (XO (XI
    XH))))))) :: ((Zpos (XI (XO (XI (XI (XO (XI XH))))))) :: ((Zpos (XI (XO
    (XI (XO (XO (XI XH))))))) :: ((Zpos (XO (XI (XI (XI (XO (XI
    XH))))))) :: ((Zpos (XO (XO (XI (XO (XI (XI XH))))))) :: ((Zpos (XI (XI
    (XO (XO (XI (XI XH))))))) :: [])))))))))))), []) :: ((((Zpos (XI (XI (XO
    (XO (XI (XI XH))))))) :: ((Zpos (XI (XO (XI (XI (XO (XI
    XH))))))) :: ((Zpos (XI (XO (XO (XO (XO (XI XH))))))) :: ((Zpos (XO (XI
    (XO (XO (XI (XI XH))))))) :: ((Zpos (XO (XO (XI (XO (XI (XI
    XH))))))) :: ((Zpos (XI (XO (XO (XO (XI (XI XH))))))) :: ((Zpos (XI (XO
    (XI (XO (XI (XI XH))))))) :: ((Zpos (XI (XI (XI (XI (XO (XI
    XH))))))) :: ((Zpos (XO (XO (XI (XO (XI (XI XH))))))) :: ((Zpos (XI (XO
    (XI (XO (XO (XI XH))))))) :: ((Zpos (XI (XI (XO (XO (XI (XI
    XH))))))) :: []))))))))))), []) :: ((((Zpos (XO (XO (XI (XO (XI (XI
    XH))))))) :: ((Zpos (XI (XO (XI (XO (XO (XI XH))))))) :: ((Zpos (XO (XO
    (XO (XI (XI (XI XH))))))) :: ((Zpos (XO (XO (XI (XO (XI (XI
    XH))))))) :: ((Zpos (XI (XI (XI (XI (XI (XO XH))))))) :: ((Zpos (XO (XI
    (XO (XI (XO (XI XH))))))) :: ((Zpos (XI (XI (XI (XI (XO (XI
    XH))))))) :: ((Zpos (XI (XO (XO (XI (XO (XI XH))))))) :: ((Zpos (XO (XI
    (XI (XI (XO (XI XH))))))) :: []))))))))), []) :: []))))))

(** val block_registry : (str * str list) list **)

let block_registry =
  (((Zpos (XO (XO (XI (XO (XI (XI XH))))))) :: ((Zpos (XI (XO (XO (XO (XO (XI
    XH))))))) :: ((Zpos (XO (XI (XO (XO (XO (XI XH))))))) :: ((Zpos (XO (XO
    (XI (XI (XO (XI XH))))))) :: ((Zpos (XI (XO (XI (XO (XO (XI
    XH))))))) :: []))))), (((Zpos (XO (XO (XO (XO (XI (XI XH))))))) :: ((Zpos
    (XI (XO (XO (XO (XO (XI XH))))))) :: ((Zpos (XO (XI (XO (XO (XI (XI
    XH))))))) :: ((Zpos (XI (XO (XO (XO (XO (XI XH))))))) :: ((Zpos (XI (XI
    (XI (XO (XO (XI XH))))))) :: ((Zpos (XO (XI (XO (XO (XI (XI
    XH))))))) :: ((Zpos (XI (XO (XO (XO (XO (XI XH))))))) :: ((Zpos (XO (XO
    (XO (XO (XI (XI XH))))))) :: ((Zpos (XO (XO (XO (XI (XO (XI
    XH))))))) :: []))))))))) :: (((Zpos (XO (XI (XO (XO (XI (XI
    XH))))))) :: ((Zpos (XI (XO (XI (XO (XO (XI XH))))))) :: ((Zpos (XO (XI
    (XI (XO (XO (XI XH))))))) :: ((Zpos (XI (XO (XI (XO (XO (XI
    XH))))))) :: ((Zpos (XO (XI (XO (XO (XI (XI XH))))))) :: ((Zpos (XI (XO
    (XI (XO (XO (XI XH))))))) :: ((Zpos (XO (XI (XI (XI (XO (XI
    XH))))))) :: ((Zpos (XI (XI (XO (XO (XO (XI XH))))))) :: ((Zpos (XI (XO
    (XI (XO (XO (XI XH))))))) :: []))))))))) :: []))) :: ((((Zpos (XI (XI (XO
    (XO (XO (XI XH))))))) :: ((Zpos (XI (XI (XI (XI (XO (XI
    XH))))))) :: ((Zpos (XO (XO (XI (XO (XO (XI XH))))))) :: ((Zpos (XI (XO
    (XI (XO (XO (XI XH))))))) :: [])))), []) :: ((((Zpos (XO (XI (XI (XO (XO
    (XI XH))))))) :: ((Zpos (XI (XO (XI (XO (XO (XI XH))))))) :: ((Zpos (XO
    (XI (XI (XI (XO (XI XH))))))) :: ((Zpos (XI (XI (XO (XO (XO (XI
    XH))))))) :: ((Zpos (XI (XO (XI (XO (XO (XI XH))))))) :: []))))), (((Zpos
    (XO (XO (XO (XO (XI (XI XH))))))) :: ((Zpos (XI (XO (XO (XO (XO (XI
    XH))))))) :: ((Zpos (XO (XI (XO (XO (XI (XI XH))))))) :: ((Zpos (XI (XO
    (XO (XO (XO (XI XH))))))) :: ((Zpos (XI (XI (XI (XO (XO (XI
    XH))))))) :: ((Zpos (XO (XI (XO (XO (XI (XI XH))))))) :: ((Zpos (XI (XO
    (XO (XO (XO (XI XH))))))) :: ((Zpos (XO (XO (XO (XO (XI (XI
    XH))))))) :: ((Zpos (XO (XO (XO (XI (XO (XI
    XH))))))) :: []))))))))) :: (((Zpos (XO (XI (XO (XO (XI (XI
    XH))))))) :: ((Zpos (XI (XO (XI (XO (XO (XI XH))))))) :: ((Zpos (XO (XI
    (XI (XO (XO (XI XH))))))) :: ((Zpos (XI (XO (XI (XO (XO (XI
    XH))))))) :: ((Zpos (XO (XI (XO (XO (XI (XI XH))))))) :: ((Zpos (XI (XO
    (XI (XO (XO (XI XH))))))) :: ((Zpos (XO (XI (XI (XI (XO (XI
    XH))))))) :: ((Zpos (XI (XI (XO (XO (XO (XI XH))))))) :: ((Zpos (XI (XO
    (XI (XO (XO (XI XH))))))) :: []))))))))) :: (((Zpos (XO (XI (XO (XO (XO
    (XI XH))))))) :: ((Zpos (XO (XO (XI (XI (XO (XI XH))))))) :: ((Zpos (XI
    (XI (XI (XI (XO (XI XH))))))) :: ((Zpos (XI (XI (XO (XO (XO (XI
    XH))))))) :: ((Zpos (XI (XI (XO (XI (XO (XI XH))))))) :: ((Zpos (XI (XO
    (XO (XO (XI (XI XH))))))) :: ((Zpos (XI (XO (XI (XO (XI (XI
    XH))))))) :: ((Zpos (XI (XI (XI (XI (XO (XI XH))))))) :: ((Zpos (XO (XO
    (XI (XO (XI (XI XH))))))) :: ((Zpos (XI (XO (XI (XO (XO (XI
    XH))))))) :: [])))))))))) :: (((Zpos (XO (XO (XI (XI (XO (XI
    XH))))))) :: ((Zpos (XI (XO (XO (XI (XO (XI XH))))))) :: ((Zpos (XI (XI
    (XO (XO (XI (XI XH))))))) :: ((Zpos (XO (XO (XI (XO (XI (XI
    XH))))))) :: [])))) :: []))))) :: ((((Zpos (XO (XI (XO (XO (XO (XI
    XH))))))) :: ((Zpos (XO (XO (XI (XI (XO (XI XH))))))) :: ((Zpos (XI (XI
    (XI (XI (XO (XI XH))))))) :: ((Zpos (XI (XI (XO (XO (XO (XI
    XH))))))) :: ((Zpos (XI (XI (XO (XI (XO (XI XH))))))) :: ((Zpos (XI (XO
    (XO (XO (XI (XI XH))))))) :: ((Zpos (XI (XO (XI (XO (XI (XI
    XH))))))) :: ((Zpos (XI (XI (XI (XI (XO (XI XH))))))) :: ((Zpos (XO (XO
    (XI (XO (XI (XI XH))))))) :: ((Zpos (XI (XO (XI (XO (XO (XI
    XH))))))) :: [])))))))))), (((Zpos (XO (XO (XO (XO (XI (XI
    XH))))))) :: ((Zpos (XI (XO (XO (XO (XO (XI XH))))))) :: ((Zpos (XO (XI
    (XO (XO (XI (XI XH))))))) :: ((Zpos (XI (XO (XO (XO (XO (XI
    XH))))))) :: ((Zpos (XI (XI (XI (XO (XO (XI XH))))))) :: ((Zpos (XO (XI
    (XO (XO (XI (XI XH))))))) :: ((Zpos (XI (XO (XO (XO (XO (XI
    XH))))))) :: ((Zpos (XO (XO (XO (XO (XI (XI XH))))))) :: ((Zpos (XO (XO
    (XO (XI (XO (XI XH))))))) :: []))))))))) :: (((Zpos (XO (XI (XO (XO (XI
    (XI XH))))))) :: ((Zpos (XI (XO (XI (XO (XO (XI XH))))))) :: ((Zpos (XO
    (XI (XI (XO (XO (XI XH))))))) :: ((Zpos (XI (XO (XI (XO (XO (XI
    XH))))))) :: ((Zpos (XO (XI (XO (XO (XI (XI XH))))))) :: ((Zpos (XI (XO
    (XI (XO (XO (XI XH))))))) :: ((Zpos (XO (XI (XI (XI (XO (XI
    XH))))))) :: ((Zpos (XI (XI (XO (XO (XO (XI XH))))))) :: ((Zpos (XI (XO
    (XI (XO (XO (XI XH))))))) :: []))))))))) :: (((Zpos (XO (XI (XO (XO (XO
    (XI XH))))))) :: ((Zpos (XO (XO (XI (XI (XO (XI XH))))))) :: ((Zpos (XI
    (XI (XI (XI (XO (XI XH))))))) :: ((Zpos (XI (XI (XO (XO (XO (XI
    XH))))))) :: ((Zpos (XI (XI (XO (XI (XO (XI XH))))))) :: ((Zpos (XI (XO
    (XO (XO (XI (XI XH))))))) :: ((Zpos (XI (XO (XI (XO (XI (XI
    XH))))))) :: ((Zpos (XI (XI (XI (XI (XO (XI XH))))))) :: ((Zpos (XO (XO
    (XI (XO (XI (XI XH))))))) :: ((Zpos (XI (XO (XI (XO (XO (XI
    XH))))))) :: [])))))))))) :: (((Zpos (XO (XO (XI (XI (XO (XI
    XH))))))) :: ((Zpos (XI (XO (XO (XI (XO (XI XH))))))) :: ((Zpos (XI (XI
    (XO (XO (XI (XI XH))))))) :: ((Zpos (XO (XO (XI (XO (XI (XI
    XH))))))) :: [])))) :: []))))) :: ((((Zpos (XO (XO (XO (XI (XO (XI
    XH))))))) :: ((Zpos (XO (XI (XO (XO (XI (XI XH))))))) :: [])), (((Zpos
    (XO (XO (XO (XO (XI (XI XH))))))) :: ((Zpos (XI (XO (XO (XO (XO (XI
    XH))))))) :: ((Zpos (XO (XI (XO (XO (XI (XI XH))))))) :: ((Zpos (XI (XO
    (XO (XO (XO (XI XH))))))) :: ((Zpos (XI (XI (XI (XO (XO (XI
    XH))))))) :: ((Zpos (XO (XI (XO (XO (XI (XI XH))))))) :: ((Zpos (XI (XO
    (XO (XO (XO (XI XH))))))) :: ((Zpos (XO (XO (XO (XO (XI (XI
    XH))))))) :: ((Zpos (XO (XO (XO (XI (XO (XI
    XH))))))) :: []))))))))) :: (((Zpos (XO (XI (XO (XO (XI (XI
    XH))))))) :: ((Zpos (XI (XO (XI (XO (XO (XI XH))))))) :: ((Zpos (XO (XI
    (XI (XO (XO (XI XH))))))) :: ((Zpos (XI (XO (XI (XO (XO (XI
    XH))))))) :: ((Zpos (XO (XI (XO (XO (XI (XI XH))))))) :: ((Zpos (XI (XO
    (XI (XO (XO (XI XH))))))) :: ((Zpos (XO (XI (XI (XI (XO (XI
    XH))))))) :: ((Zpos (XI (XI (XO (XO (XO (XI XH))))))) :: ((Zpos (XI (XO
    (XI (XO (XO (XI XH))))))) :: []))))))))) :: (((Zpos (XO (XI (XO (XO (XO
    (XI XH))))))) :: ((Zpos (XO (XO (XI (XI (XO (XI XH))))))) :: ((Zpos (XI
    (XI (XI (XI (XO (XI XH))))))) :: ((Zpos (XI (XI (XO (XO (XO (XI
    XH))))))) :: ((Zpos (XI (XI (XO (XI (XO (XI XH))))))) :: ((Zpos (XI (XO
    (XO (XO (XI (XI XH))))))) :: ((Zpos (XI (XO (XI (XO (XI (XI
    XH))))))) :: ((Zpos (XI (XI (XI (XI (XO (XI XH))))))) :: ((Zpos (XO (XO
    (XI (XO (XI (XI XH))))))) :: ((Zpos (XI (XO (XI (XO (XO (XI
    XH))))))) :: [])))))))))) :: (((Zpos (XO (XO (XI (XI (XO (XI
    XH))))))) :: ((Zpos (XI (XO (XO (XI (XO (XI XH))))))) :: ((Zpos (XI (XI
    (XO (XO (XI (XI XH))))))) :: ((Zpos (XO (XO (XI (XO (XI (XI
    XH))))))) :: [])))) :: []))))) :: ((((Zpos (XO (XO (XI (XI (XO (XI
    XH))))))) :: ((Zpos (XI (XO (XO (XI (XO (XI XH))))))) :: ((Zpos (XI (XI
    (XO (XO (XI (XI XH))))))) :: ((Zpos (XO (XO (XI (XO (XI (XI
    XH))))))) :: [])))), (((Zpos (XO (XO (XO (XO (XI (XI XH))))))) :: ((Zpos
    (XI (XO (XO (XO (XO (XI XH))))))) :: ((Zpos (XO (XI (XO (XO (XI (XI
    XH))))))) :: ((Zpos (XI (XO (XO (XO (XO (XI XH))))))) :: ((Zpos (XI (XI
    (XI (XO (XO (XI XH))))))) :: ((Zpos (XO (XI (XO (XO (XI (XI
    XH))))))) :: ((Zpos (XI (XO (XO (XO (XO (XI XH))))))) :: ((Zpos (XO (XO
    (XO (XO (XI (XI XH))))))) :: ((Zpos (XO (XO (XO (XI (XO (XI
    XH))))))) :: []))))))))) :: (((Zpos (XO (XI (XO (XO (XI (XI
    XH))))))) :: ((Zpos (XI (XO (XI (XO (XO (XI XH))))))) :: ((Zpos (XO (XI
    (XI (XO (XO (XI XH))))))) :: ((Zpos (XI (XO (XI (XO (XO (XI
    XH))))))) :: ((Zpos (XO (XI (XO (XO (XI (XI XH))))))) :: ((Zpos (XI (XO
    (XI (XO (XO (XI XH))))))) :: ((Zpos (XO (XI (XI (XI (XO (XI
    XH))))))) :: ((Zpos (XI (XI (XO (XO (XO (XI XH))))))) :: ((Zpos (XI (XO
    (XI (XO (XO (XI XH))))))) :: []))))))))) :: (((Zpos (XO (XI (XO (XO (XO
    (XI XH))))))) :: ((Zpos (XO (XO (XI (XI (XO (XI XH))))))) :: ((Zpos (XI
    (XI (XI (XI (XO (XI XH))))))) :: ((Zpos (XI (XI (XO (XO (XO (XI
    XH))))))) :: ((Zpos (XI (XI (XO (XI (XO (XI XH))))))) :: ((Zpos (XI (XO
    (XO (XO (XI (XI XH))))))) :: ((Zpos (XI (XO (XI (XO (XI (XI
    XH))))))) :: ((Zpos (XI (XI (XI (XI (XO (XI XH))))))) :: ((Zpos (XO (XO
    (XI (XO (XI (XI XH))))))) :: ((Zpos (XI (XO (XI (XO (XO (XI
    XH))))))) :: [])))))))))) :: [])))) :: ((((Zpos (XO (XI (XO (XO (XI (XI
    XH))))))) :: ((Zpos (XI (XO (XI (XO (XO (XI XH))))))) :: ((Zpos (XO (XI
    (XI (XO (XO (XI XH))))))) :: ((Zpos (XI (XO (XI (XO (XO (XI
    XH))))))) :: ((Zpos (XO (XI (XO (XO (XI (XI XH))))))) :: ((Zpos (XI (XO
    (XI (XO (XO (XI XH))))))) :: ((Zpos (XO (XI (XI (XI (XO (XI
    XH))))))) :: ((Zpos (XI (XI (XO (XO (XO (XI XH))))))) :: ((Zpos (XI (XO
    (XI (XO (XO (XI XH))))))) :: []))))))))), []) :: ((((Zpos (XO (XO (XO (XI
    (XO (XI XH))))))) :: ((Zpos (XO (XO (XI (XO (XI (XI XH))))))) :: ((Zpos
    (XI (XO (XI (XI (XO (XI XH))))))) :: ((Zpos (XO (XO (XI (XI (XO (XI
    XH))))))) :: ((Zpos (XI (XI (XI (XI (XI (XO XH))))))) :: ((Zpos (XO (XI
    (XO (XO (XO (XI XH))))))) :: ((Zpos (XO (XO (XI (XI (XO (XI
    XH))))))) :: ((Zpos (XI (XI (XI (XI (XO (XI XH))))))) :: ((Zpos (XI (XI
    (XO (XO (XO (XI XH))))))) :: ((Zpos (XI (XI (XO (XI (XO (XI
    XH))))))) :: [])))))))))), (((Zpos (XO (XO (XO (XO (XI (XI
    XH))))))) :: ((Zpos (XI (XO (XO (XO (XO (XI XH))))))) :: ((Zpos (XO (XI
    (XO (XO (XI (XI XH))))))) :: ((Zpos (XI (XO (XO (XO (XO (XI
    XH))))))) :: ((Zpos (XI (XI (XI (XO (XO (XI XH))))))) :: ((Zpos (XO (XI
    (XO (XO (XI (XI XH))))))) :: ((Zpos (XI (XO (XO (XO (XO (XI
    XH))))))) :: ((Zpos (XO (XO (XO (XO (XI (XI XH))))))) :: ((Zpos (XO (XO
    (XO (XI (XO (XI XH))))))) :: []))))))))) :: (((Zpos (XO (XI (XO (XO (XI
    (XI XH))))))) :: ((Zpos (XI (XO (XI (XO (XO (XI XH))))))) :: ((Zpos (XO
    (XI (XI (XO (XO (XI XH))))))) :: ((Zpos (XI (XO (XI (XO (XO (XI
    XH))))))) :: ((Zpos (XO (XI (XO (XO (XI (XI XH))))))) :: ((Zpos (XI (XO
    (XI (XO (XO (XI XH))))))) :: ((Zpos (XO (XI (XI (XI (XO (XI
    XH))))))) :: ((Zpos (XI (XI (XO (XO (XO (XI XH))))))) :: ((Zpos (XI (XO
    (XI (XO (XO (XI XH))))))) :: []))))))))) :: (((Zpos (XO (XI (XO (XO (XO
    (XI XH))))))) :: ((Zpos (XO (XO (XI (XI (XO (XI XH))))))) :: ((Zpos (XI
    (XI (XI (XI (XO (XI XH))))))) :: ((Zpos (XI (XI (XO (XO (XO (XI
    XH))))))) :: ((Zpos (XI (XI (XO (XI (XO (XI XH))))))) :: ((Zpos (XI (XO
    (XO (XO (XI (XI XH))))))) :: ((Zpos (XI (XO (XI (XO (XI (XI
    XH))))))) :: ((Zpos (XI (XI (XI (XI (XO (XI XH))))))) :: ((Zpos (XO (XO
    (XI (XO (XI (XI XH))))))) :: ((Zpos (XI (XO (XI (XO (XO (XI
    XH))))))) :: [])))))))))) :: [])))) :: ((((Zpos (XO (XO (XO (XI (XO (XI
    XH))))))) :: ((Zpos (XI (XO (XI (XO (XO (XI XH))))))) :: ((Zpos (XI (XO
    (XO (XO (XO (XI XH))))))) :: ((Zpos (XO (XO (XI (XO (XO (XI
    XH))))))) :: ((Zpos (XI (XO (XO (XI (XO (XI XH))))))) :: ((Zpos (XO (XI
    (XI (XI (XO (XI XH))))))) :: ((Zpos (XI (XI (XI (XO (XO (XI
    XH))))))) :: []))))))), (((Zpos (XO (XO (XO (XO (XI (XI
    XH))))))) :: ((Zpos (XI (XO (XO (XO (XO (XI XH))))))) :: ((Zpos (XO (XI
    (XO (XO (XI (XI XH))))))) :: ((Zpos (XI (XO (XO (XO (XO (XI
    XH))))))) :: ((Zpos (XI (XI (XI (XO (XO (XI XH))))))) :: ((Zpos (XO (XI
    (XO (XO (XI (XI XH))))))) :: ((Zpos (XI (XO (XO (XO (XO (XI
    XH))))))) :: ((Zpos (XO (XO (XO (XO (XI (XI XH))))))) :: ((Zpos (XO (XO
    (XO (XI (XO (XI XH))))))) :: []))))))))) :: (((Zpos (XO (XI (XO (XO (XI
    (XI XH))))))) :: ((Zpos (XI (XO (XI (XO (XO (XI XH))))))) :: ((Zpos (XO
    (XI (XI (XO (XO (XI XH))))))) :: ((Zpos (XI (XO (XI (XO (XO (XI
    XH))))))) :: ((Zpos (XO (XI (XO (XO (XI (XI XH))))))) :: ((Zpos (XI (XO
    (XI (XO (XO (XI XH))))))) :: ((Zpos (XO (XI (XI (XI (XO (XI
    XH))))))) :: ((Zpos (XI (XI (XO (XO (XO (XI XH))))))) :: ((Zpos (XI (XO
    (XI (XO (XO (XI XH))))))) :: []))))))))) :: (((Zpos (XO (XI (XO (XO (XO
    (XI XH))))))) :: ((Zpos (XO (XO (XI (XI (XO (XI XH))))))) :: ((Zpos (XI
    (XI (XI (XI (XO (XI XH))))))) :: ((Zpos (XI (XI (XO (XO (XO (XI
    XH))))))) :: ((Zpos (XI (XI (XO (XI (XO (XI XH))))))) :: ((Zpos (XI (XO
    (XO (XO (XI (XI XH))))))) :: ((Zpos (XI (XO (XI (XO (XI (XI
    XH))))))) :: ((Zpos (XI (XI (XI (XI (XO (XI XH))))))) :: ((Zpos (XO (XO
    (XI (XO (XI (XI XH))))))) :: ((Zpos (XI (XO (XI (XO (XO (XI
    XH))))))) :: [])))))))))) :: [])))) :: ((((Zpos (XO (XO (XI (XI (XO (XI
    XH))))))) :: ((Zpos (XO (XO (XO (XI (XO (XI XH))))))) :: ((Zpos (XI (XO
    (XI (XO (XO (XI XH))))))) :: ((Zpos (XI (XO (XO (XO (XO (XI
    XH))))))) :: ((Zpos (XO (XO (XI (XO (XO (XI XH))))))) :: ((Zpos (XI (XO
    (XO (XI (XO (XI XH))))))) :: ((Zpos (XO (XI (XI (XI (XO (XI
    XH))))))) :: ((Zpos (XI (XI (XI (XO (XO (XI XH))))))) :: [])))))))),
    []) :: ((((Zpos (XO (XO (XO (XO (XI (XI XH))))))) :: ((Zpos (XI (XO (XO
    (XO (XO (XI XH))))))) :: ((Zpos (XO (XI (XO (XO (XI (XI
    XH))))))) :: ((Zpos (XI (XO (XO (XO (XO (XI XH))))))) :: ((Zpos (XI (XI
    (XI (XO (XO (XI XH))))))) :: ((Zpos (XO (XI (XO (XO (XI (XI
    XH))))))) :: ((Zpos (XI (XO (XO (XO (XO (XI XH))))))) :: ((Zpos (XO (XO
    (XO (XO (XI (XI XH))))))) :: ((Zpos (XO (XO (XO (XI (XO (XI
    XH))))))) :: []))))))))), []) :: []))))))))))

(** val inline_registry : (str * str list) list **)

let inline_registry =
  (((Zpos (XO (XO (XI (XO (XI (XI XH))))))) :: ((Zpos (XI (XO (XI (XO (XO (XI
    XH))))))) :: ((Zpos (XO (XO (XO (XI (XI (XI XH))))))) :: ((Zpos (XO (XO
    (XI (XO (XI (XI XH))))))) :: [])))), []) :: ((((Zpos (XO (XO (XI (XI (XO
    (XI XH))))))) :: ((Zpos (XI (XO (XO (XI (XO (XI XH))))))) :: ((Zpos (XO
    (XI (XI (XI (XO (XI XH))))))) :: ((Zpos (XI (XI (XO (XI (XO (XI
    XH))))))) :: ((Zpos (XI (XO (XO (XI (XO (XI XH))))))) :: ((Zpos (XO (XI
    (XI (XO (XO (XI XH))))))) :: ((Zpos (XI (XO (XO (XI (XI (XI
    XH))))))) :: []))))))), []) :: ((((Zpos (XO (XI (XI (XI (XO (XI
    XH))))))) :: ((Zpos (XI (XO (XI (XO (XO (XI XH))))))) :: ((Zpos (XI (XI
    (XI (XO (XI (XI XH))))))) :: ((Zpos (XO (XO (XI (XI (XO (XI
    XH))))))) :: ((Zpos (XI (XO (XO (XI (XO (XI XH))))))) :: ((Zpos (XO (XI
    (XI (XI (XO (XI XH))))))) :: ((Zpos (XI (XO (XI (XO (XO (XI
    XH))))))) :: []))))))), []) :: ((((Zpos (XI (XO (XI (XO (XO (XI
    XH))))))) :: ((Zpos (XI (XI (XO (XO (XI (XI XH))))))) :: ((Zpos (XI (XI
    (XO (XO (XO (XI XH))))))) :: ((Zpos (XI (XO (XO (XO (XO (XI
    XH))))))) :: ((Zpos (XO (XO (XO (XO (XI (XI XH))))))) :: ((Zpos (XI (XO
    (XI (XO (XO (XI XH))))))) :: [])))))), []) :: ((((Zpos (XO (XI (XO (XO
    (XO (XI XH))))))) :: ((Zpos (XI (XO (XO (XO (XO (XI XH))))))) :: ((Zpos
    (XI (XI (XO (XO (XO (XI XH))))))) :: ((Zpos (XI (XI (XO (XI (XO (XI
    XH))))))) :: ((Zpos (XO (XO (XI (XO (XI (XI XH))))))) :: ((Zpos (XI (XO
    (XO (XI (XO (XI XH))))))) :: ((Zpos (XI (XI (XO (XO (XO (XI
    XH))))))) :: ((Zpos (XI (XI (XO (XI (XO (XI XH))))))) :: ((Zpos (XI (XI
    (XO (XO (XI (XI XH))))))) :: []))))))))), []) :: ((((Zpos (XI (XI (XO (XO
    (XI (XI XH))))))) :: ((Zpos (XO (XO (XI (XO (XI (XI XH))))))) :: ((Zpos
    (XO (XI (XO (XO (XI (XI XH))))))) :: ((Zpos (XI (XO (XO (XI (XO (XI
    XH))))))) :: ((Zpos (XI (XI (XO (XI (XO (XI XH))))))) :: ((Zpos (XI (XO
    (XI (XO (XO (XI XH))))))) :: ((Zpos (XO (XO (XI (XO (XI (XI
    XH))))))) :: ((Zpos (XO (XO (XO (XI (XO (XI XH))))))) :: ((Zpos (XO (XI
    (XO (XO (XI (XI XH))))))) :: ((Zpos (XI (XI (XI (XI (XO (XI
    XH))))))) :: ((Zpos (XI (XO (XI (XO (XI (XI XH))))))) :: ((Zpos (XI (XI
    (XI (XO (XO (XI XH))))))) :: ((Zpos (XO (XO (XO (XI (XO (XI
    XH))))))) :: []))))))))))))), []) :: ((((Zpos (XI (XO (XI (XO (XO (XI
    XH))))))) :: ((Zpos (XI (XO (XI (XI (XO (XI XH))))))) :: ((Zpos (XO (XO
    (XO (XO (XI (XI XH))))))) :: ((Zpos (XO (XO (XO (XI (XO (XI
    XH))))))) :: ((Zpos (XI (XO (XO (XO (XO (XI XH))))))) :: ((Zpos (XI (XI
    (XO (XO (XI (XI XH))))))) :: ((Zpos (XI (XO (XO (XI (XO (XI
    XH))))))) :: ((Zpos (XI (XI (XO (XO (XI (XI XH))))))) :: [])))))))),
    []) :: ((((Zpos (XO (XO (XI (XI (XO (XI XH))))))) :: ((Zpos (XI (XO (XO
    (XI (XO (XI XH))))))) :: ((Zpos (XO (XI (XI (XI (XO (XI
    XH))))))) :: ((Zpos (XI (XI (XO (XI (XO (XI XH))))))) :: [])))),
    []) :: ((((Zpos (XI (XO (XO (XI (XO (XI XH))))))) :: ((Zpos (XI (XO (XI
    (XI (XO (XI XH))))))) :: ((Zpos (XI (XO (XO (XO (XO (XI
    XH))))))) :: ((Zpos (XI (XI (XI (XO (XO (XI XH))))))) :: ((Zpos (XI (XO
    (XI (XO (XO (XI XH))))))) :: []))))), []) :: ((((Zpos (XI (XO (XO (XO (XO
    (XI XH))))))) :: ((Zpos (XI (XO (XI (XO (XI (XI XH))))))) :: ((Zpos (XO
    (XO (XI (XO (XI (XI XH))))))) :: ((Zpos (XI (XI (XI (XI (XO (XI
    XH))))))) :: ((Zpos (XO (XO (XI (XI (XO (XI XH))))))) :: ((Zpos (XI (XO
    (XO (XI (XO (XI XH))))))) :: ((Zpos (XO (XI (XI (XI (XO (XI
    XH))))))) :: ((Zpos (XI (XI (XO (XI (XO (XI XH))))))) :: [])))))))),
    []) :: ((((Zpos (XO (XO (XO (XI (XO (XI XH))))))) :: ((Zpos (XO (XO (XI
    (XO (XI (XI XH))))))) :: ((Zpos (XI (XO (XI (XI (XO (XI
    XH))))))) :: ((Zpos (XO (XO (XI (XI (XO (XI XH))))))) :: ((Zpos (XI (XI
    (XI (XI (XI (XO XH))))))) :: ((Zpos (XI (XO (XO (XI (XO (XI
    XH))))))) :: ((Zpos (XO (XI (XI (XI (XO (XI XH))))))) :: ((Zpos (XO (XO
    (XI (XI (XO (XI XH))))))) :: ((Zpos (XI (XO (XO (XI (XO (XI
    XH))))))) :: ((Zpos (XO (XI (XI (XI (XO (XI XH))))))) :: ((Zpos (XI (XO
    (XI (XO (XO (XI XH))))))) :: []))))))))))), []) :: ((((Zpos (XI (XO (XI
    (XO (XO (XI XH))))))) :: ((Zpos (XO (XI (XI (XI (XO (XI
    XH))))))) :: ((Zpos (XO (XO (XI (XO (XI (XI XH))))))) :: ((Zpos (XI (XO
    (XO (XI (XO (XI XH))))))) :: ((Zpos (XO (XO (XI (XO (XI (XI
    XH))))))) :: ((Zpos (XI (XO (XO (XI (XI (XI XH))))))) :: [])))))),
    []) :: [])))))))))))

(** val inline2_registry : (str * str list) list **)

let inline2_registry =
  (((Zpos (XO (XI (XO (XO (XO (XI XH))))))) :: ((Zpos (XI (XO (XO (XO (XO (XI
    XH))))))) :: ((Zpos (XO (XO (XI (XI (XO (XI XH))))))) :: ((Zpos (XI (XO
    (XO (XO (XO (XI XH))))))) :: ((Zpos (XO (XI (XI (XI (XO (XI
    XH))))))) :: ((Zpos (XI (XI (XO (XO (XO (XI XH))))))) :: ((Zpos (XI (XO
    (XI (XO (XO (XI XH))))))) :: ((Zpos (XI (XI (XI (XI (XI (XO
    XH))))))) :: ((Zpos (XO (XO (XO (XO (XI (XI XH))))))) :: ((Zpos (XI (XO
    (XO (XO (XO (XI XH))))))) :: ((Zpos (XI (XO (XO (XI (XO (XI
    XH))))))) :: ((Zpos (XO (XI (XO (XO (XI (XI XH))))))) :: ((Zpos (XI (XI
    (XO (XO (XI (XI XH))))))) :: []))))))))))))), []) :: ((((Zpos (XI (XI (XO
    (XO (XI (XI XH))))))) :: ((Zpos (XO (XO (XI (XO (XI (XI
    XH))))))) :: ((Zpos (XO (XI (XO (XO (XI (XI XH))))))) :: ((Zpos (XI (XO
    (XO (XI (XO (XI XH))))))) :: ((Zpos (XI (XI (XO (XI (XO (XI
    XH))))))) :: ((Zpos (XI (XO (XI (XO (XO (XI XH))))))) :: ((Zpos (XO (XO
    (XI (XO (XI (XI XH))))))) :: ((Zpos (XO (XO (XO (XI (XO (XI
    XH))))))) :: ((Zpos (XO (XI (XO (XO (XI (XI XH))))))) :: ((Zpos (XI (XI
    (XI (XI (XO (XI XH))))))) :: ((Zpos (XI (XO (XI (XO (XI (XI
    XH))))))) :: ((Zpos (XI (XI (XI (XO (XO (XI XH))))))) :: ((Zpos (XO (XO
    (XO (XI (XO (XI XH))))))) :: []))))))))))))), []) :: ((((Zpos (XI (XO (XI
    (XO (XO (XI XH))))))) :: ((Zpos (XI (XO (XI (XI (XO (XI
    XH))))))) :: ((Zpos (XO (XO (XO (XO (XI (XI XH))))))) :: ((Zpos (XO (XO
    (XO (XI (XO (XI XH))))))) :: ((Zpos (XI (XO (XO (XO (XO (XI
    XH))))))) :: ((Zpos (XI (XI (XO (XO (XI (XI XH))))))) :: ((Zpos (XI (XO
    (XO (XI (XO (XI XH))))))) :: ((Zpos (XI (XI (XO (XO (XI (XI
    XH))))))) :: [])))))))), []) :: ((((Zpos (XO (XI (XI (XO (XO (XI
    XH))))))) :: ((Zpos (XO (XI (XO (XO (XI (XI XH))))))) :: ((Zpos (XI (XO
    (XO (XO (XO (XI XH))))))) :: ((Zpos (XI (XI (XI (XO (XO (XI
    XH))))))) :: ((Zpos (XI (XO (XI (XI (XO (XI XH))))))) :: ((Zpos (XI (XO
    (XI (XO (XO (XI XH))))))) :: ((Zpos (XO (XI (XI (XI (XO (XI
    XH))))))) :: ((Zpos (XO (XO (XI (XO (XI (XI XH))))))) :: ((Zpos (XI (XI
    (XO (XO (XI (XI XH))))))) :: ((Zpos (XI (XI (XI (XI (XI (XO
    XH))))))) :: ((Zpos (XO (XI (XO (XI (XO (XI XH))))))) :: ((Zpos (XI (XI
    (XI (XI (XO (XI XH))))))) :: ((Zpos (XI (XO (XO (XI (XO (XI
    XH))))))) :: ((Zpos (XO (XI (XI (XI (XO (XI
    XH))))))) :: [])))))))))))))), []) :: [])))

(** val dec_optval : sx -> optval **)

let dec_optval s =
  let a = sx_nth s in
  (match un_int (a O) with
   | Z0 -> OVNone
   | Zpos p ->
     (match p with
      | XI p0 ->
        (match p0 with
         | XH -> OVStr (un_str (a (S O)))
         | _ -> OVFun (un_int (a (S O))))
      | XO p0 ->
        (match p0 with
         | XI _ -> OVFun (un_int (a (S O)))
         | XO p1 ->
           (match p1 with
            | XH -> OVStrs (un_strs (a (S O)))
            | _ -> OVFun (un_int (a (S O))))
         | XH -> OVInt (un_int (a (S O))))
      | XH -> OVBool (un_bool (a (S O))))
   | Zneg _ -> OVFun (un_int (a (S O))))

(** val enc_optval : optval -> sx **)

let enc_optval = function
| OVNone -> SL ((SI Z0) :: [])
| OVBool b -> SL ((SI (Zpos XH)) :: ((sx_bool b) :: []))
| OVInt z0 -> SL ((SI (Zpos (XO XH))) :: ((SI z0) :: []))
| OVStr s -> SL ((SI (Zpos (XI XH))) :: ((sx_str s) :: []))
| OVStrs l -> SL ((SI (Zpos (XO (XO XH)))) :: ((sx_list sx_str l) :: []))
| OVFun z0 -> SL ((SI (Zpos (XI (XO XH)))) :: ((SI z0) :: []))

(** val dec_opts : sx -> (str * optval) list **)

let dec_opts s =
  map (fun kv -> ((un_str (sx_nth kv O)), (dec_optval (sx_nth kv (S O)))))
    (un_list s)

(** val enc_opts : (str * optval) list -> sx **)

let enc_opts o =
  sx_list (fun kv -> SL ((sx_str (fst kv)) :: ((enc_optval (snd kv)) :: [])))
    o

(** val dec_preset : sx -> preset **)

let dec_preset s =
  { p_options = (dec_opts (sx_nth s O)); p_components =
    (map (fun c -> ((un_str (sx_nth c O)),
      ((un_opt un_strs (sx_nth c (S O))),
      (un_opt un_strs (sx_nth c (S (S O))))))) (un_list (sx_nth s (S O)))) }

(** val dec_mop : nat -> sx -> mop **)

let rec dec_mop fuel s =
  let a = sx_nth s in
  (match fuel with
   | O -> MActive
   | S fuel' ->
     (match un_int (a O) with
      | Z0 -> MEnable ((un_strs (a (S O))), (un_bool (a (S (S O)))))
      | Zpos p ->
        (match p with
         | XI p0 ->
           (match p0 with
            | XI p1 ->
              (match p1 with
               | XH -> MActive
               | _ ->
                 MReset ((map (dec_mop fuel') (un_list (a (S O)))),
                   (un_opt un_int (a (S (S O))))))
            | XO p1 ->
              (match p1 with
               | XI _ ->
                 MReset ((map (dec_mop fuel') (un_list (a (S O)))),
                   (un_opt un_int (a (S (S O)))))
               | XO p2 ->
                 (match p2 with
                  | XH -> MOptions
                  | _ ->
                    MReset ((map (dec_mop fuel') (un_list (a (S O)))),
                      (un_opt un_int (a (S (S O))))))
               | XH -> MSetOptions (dec_opts (a (S O))))
            | XH ->
              MConfigure ((un_opt dec_preset (a (S O))),
                (dec_opts (a (S (S O))))))
         | XO p0 ->
           (match p0 with
            | XI p1 ->
              (match p1 with
               | XH ->
                 MAddRenderRule ((un_str (a (S O))), (un_int (a (S (S O)))),
                   (un_bool (a (S (S (S O))))))
               | _ ->
                 MReset ((map (dec_mop fuel') (un_list (a (S O)))),
                   (un_opt un_int (a (S (S O))))))
            | XO p1 ->
              (match p1 with
               | XI _ ->
                 MReset ((map (dec_mop fuel') (un_list (a (S O)))),
                   (un_opt un_int (a (S (S O)))))
               | XO p2 ->
                 (match p2 with
                  | XH -> MAll
                  | _ ->
                    MReset ((map (dec_mop fuel') (un_list (a (S O)))),
                      (un_opt un_int (a (S (S O))))))
               | XH ->
                 MSetItem ((un_str (a (S O))), (dec_optval (a (S (S O))))))
            | XH -> MRuler ((un_int (a (S O))), (dec_op (a (S (S O))))))
         | XH -> MDisable ((un_strs (a (S O))), (un_bool (a (S (S O))))))
      | Zneg _ ->
        MReset ((map (dec_mop fuel') (un_list (a (S O)))),
          (un_opt un_int (a (S (S O)))))))

(** val enc_mout : mout -> sx **)

let enc_mout = function
| MONone -> SL ((SI Z0) :: [])
| MONames4 (a, b, c, d) ->
  SL ((SI (Zpos
    XH)) :: ((sx_list sx_str a) :: ((sx_list sx_str b) :: ((sx_list sx_str c) :: (
    (sx_list sx_str d) :: [])))))
| MOOpts o0 -> SL ((SI (Zpos (XO XH))) :: ((enc_opts o0) :: []))

(** val fresh_inst : inst **)

let fresh_inst =
  bare_inst core_registry block_registry inline_registry inline2_registry

(** val observe : str list -> inst -> sx **)

let observe probes i =
  let ch = fun r -> SL
    ((sx_list sx_str (all_names r)) :: ((sx_list sx_str (active_names r)) :: (
    (sx_list (fun c -> sx_list (fun x -> SI x) (snd (get_rules r c))) probes) :: [])))
  in
  SL
  ((enc_opts i.i_opts) :: ((ch i.i_core) :: ((ch i.i_block) :: ((ch
                                                                  i.i_inline) :: (
  (ch i.i_inline2) :: ((sx_list (fun kv -> SL ((sx_str (fst kv)) :: ((SI
                         (snd kv)) :: []))) i.i_render) :: []))))))

(** val observe_compile : str list -> inst -> inst **)

let rec observe_compile probes i =
  match probes with
  | [] -> i
  | c :: ps ->
    let i0 = set_chain i Z0 (fst (get_rules i.i_core c)) in
    let i1 = set_chain i0 (Zpos XH) (fst (get_rules i0.i_block c)) in
    let i2 = set_chain i1 (Zpos (XO XH)) (fst (get_rules i1.i_inline c)) in
    let i3 = set_chain i2 (Zpos (XI XH)) (fst (get_rules i2.i_inline2 c)) in
    observe_compile ps i3

(** val run_inst_trace : bool -> str list -> mop list -> inst -> sx list **)

let rec run_inst_trace fin probes ops i =
  match ops with
  | [] -> []
  | o :: ops' ->
    let (i', x) = mstep fin i o in
    (SL
    ((sx_res enc_mout x) :: ((observe probes i') :: []))) :: (run_inst_trace
                                                               fin probes
                                                               ops'
                                                               (observe_compile
                                                                 probes i'))

(** val run_inst_case : sx -> sx **)

let run_inst_case s =
  let fin = un_bool (sx_nth s O) in
  let probes = un_strs (sx_nth s (S O)) in
  let ops =
    map (dec_mop (S (S (S (S (S (S (S (S O)))))))))
      (un_list (sx_nth s (S (S O))))
  in
  SL (run_inst_trace fin probes ops fresh_inst)

(** val dispatch : sx -> sx **)

let dispatch s =
  let payload = sx_nth s (S O) in
  (match un_int (sx_nth s O) with
   | Zpos p ->
     (match p with
      | XI p0 ->
        (match p0 with
         | XI p1 ->
           (match p1 with
            | XO p2 ->
              (match p2 with
               | XI _ -> SL ((SI (Zneg XH)) :: [])
               | XO p3 ->
                 (match p3 with
                  | XI p4 ->
                    (match p4 with
                     | XI p5 ->
                       (match p5 with
                        | XI p6 ->
                          (match p6 with
                           | XI p7 ->
                             (match p7 with
                              | XI p8 ->
                                (match p8 with
                                 | XH -> run_ruler_legacy_case payload
                                 | _ -> SL ((SI (Zneg XH)) :: []))
                              | _ -> SL ((SI (Zneg XH)) :: []))
                           | _ -> SL ((SI (Zneg XH)) :: []))
                        | _ -> SL ((SI (Zneg XH)) :: []))
                     | _ -> SL ((SI (Zneg XH)) :: []))
                  | _ -> SL ((SI (Zneg XH)) :: []))
               | XH -> run_ruler_case payload)
            | _ -> SL ((SI (Zneg XH)) :: []))
         | _ -> SL ((SI (Zneg XH)) :: []))
      | XO p0 ->
        (match p0 with
         | XO p1 ->
           (match p1 with
            | XI p2 ->
              (match p2 with
               | XH -> run_inst_case payload
               | _ -> SL ((SI (Zneg XH)) :: []))
            | _ -> SL ((SI (Zneg XH)) :: []))
         | _ -> SL ((SI (Zneg XH)) :: []))
      | XH -> SL ((SI (Zneg XH)) :: []))
   | _ -> SL ((SI (Zneg XH)) :: []))
