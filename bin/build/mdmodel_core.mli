
val negb : bool -> bool

type nat =
| O
| S of nat

val fst : ('a1 * 'a2) -> 'a1

val snd : ('a1 * 'a2) -> 'a2

val app : 'a1 list -> 'a1 list -> 'a1 list

val nth : nat -> 'a1 list -> 'a1 -> 'a1

val map : ('a1 -> 'a2) -> 'a1 list -> 'a2 list

val flat_map : ('a1 -> 'a2 list) -> 'a1 list -> 'a2 list

val fold_left : ('a1 -> 'a2 -> 'a1) -> 'a2 list -> 'a1 -> 'a1

val existsb : ('a1 -> bool) -> 'a1 list -> bool

val filter : ('a1 -> bool) -> 'a1 list -> 'a1 list

type positive =
| XI of positive
| XO of positive
| XH

type z =
| Z0
| Zpos of positive
| Zneg of positive

module Pos :
 sig
  val succ : positive -> positive

  val add : positive -> positive -> positive

  val add_carry : positive -> positive -> positive

  val pred_double : positive -> positive

  val eqb : positive -> positive -> bool
 end

module Z :
 sig
  val double : z -> z

  val succ_double : z -> z

  val pred_double : z -> z

  val pos_sub : positive -> positive -> z

  val add : z -> z -> z

  val eqb : z -> z -> bool
 end

type str = z list

type exn =
| IndexError
| KeyError
| ValueError
| TypeError
| AttributeError
| AssertionError
| RecursionError
| ModuleNotFound
| UserExn of z

type 'a res =
| Ok of 'a
| Raise of exn
| OutOfFuel

val exn_code : exn -> z

val str_eqb : str -> str -> bool

val mem_str : str -> str list -> bool

val alookup : str -> (str * 'a1) list -> 'a1 option

type sx =
| SI of z
| SL of sx list

val sx_str : str -> sx

val sx_bool : bool -> sx

val sx_list : ('a1 -> sx) -> 'a1 list -> sx

val un_int : sx -> z

val un_bool : sx -> bool

val un_list : sx -> sx list

val un_str : sx -> str

val un_strs : sx -> str list

val un_opt : (sx -> 'a1) -> sx -> 'a1 option

val sx_nth : sx -> nat -> sx

val sx_res : ('a1 -> sx) -> 'a1 res -> sx

type 'f rule = { rname : str; renabled : bool; rfn : 'f; ralt : str list }

type 'f ruler = { rules : 'f rule list; cache : (str * 'f list) list option }

val ruler_init : 'a1 ruler

val find_from : 'a1 rule list -> str -> nat -> nat option

val find : 'a1 rule list -> str -> nat option

val upd_nth : nat -> ('a1 rule -> 'a1 rule) -> 'a1 rule list -> 'a1 rule list

val insert_at : nat -> 'a1 rule -> 'a1 rule list -> 'a1 rule list

val set_enabled : bool -> 'a1 rule -> 'a1 rule

val in_chain : str -> 'a1 rule -> bool

val compile_chain : 'a1 rule list -> str -> 'a1 list

val chains_of : 'a1 rule list -> str list

val compile : 'a1 rule list -> (str * 'a1 list) list

val cache_get : (str * 'a1 list) list -> str -> 'a1 list

type 'f op =
| OpAt of str * 'f * str list
| OpBefore of str * str * 'f * str list
| OpAfter of str * str * 'f * str list
| OpPush of str * 'f * str list
| OpEnable of str list * bool
| OpEnableOnly of str list * bool
| OpDisable of str list * bool
| OpGetRules of str
| OpAll
| OpActive

type 'f out =
| ONone
| ONames of str list
| OFns of 'f list

val toggle_loop :
  bool -> str list -> bool -> 'a1 rule list -> str list -> 'a1 rule
  list * str list res

val toggle : bool -> str list -> bool -> 'a1 ruler -> 'a1 ruler * 'a1 out res

val get_rules : 'a1 ruler -> str -> 'a1 ruler * 'a1 list

val all_names : 'a1 ruler -> str list

val active : 'a1 ruler -> 'a1 rule list

val active_names : 'a1 ruler -> str list

val step : 'a1 ruler -> 'a1 op -> 'a1 ruler * 'a1 out res

val run_trace : 'a1 op list -> 'a1 ruler -> 'a1 out res list

val toggle_legacy :
  bool -> str list -> bool -> 'a1 ruler -> 'a1 ruler * 'a1 out res

val step_legacy : 'a1 ruler -> 'a1 op -> 'a1 ruler * 'a1 out res

val dec_op : sx -> z op

val enc_out : z out -> sx

val run_ruler_case : sx -> sx

val run_ruler_legacy_case : sx -> sx

type optval =
| OVNone
| OVBool of bool
| OVInt of z
| OVStr of str
| OVStrs of str list
| OVFun of z

type preset = { p_options : (str * optval) list;
                p_components : (str * (str list option * str list option))
                               list }

val aset : str -> 'a1 -> (str * 'a1) list -> (str * 'a1) list

val amerge : (str * 'a1) list -> (str * 'a1) list -> (str * 'a1) list

type inst = { i_opts : (str * optval) list; i_core : z ruler;
              i_block : z ruler; i_inline : z ruler; i_inline2 : z ruler;
              i_render : (str * z) list }

val get_chain : inst -> z -> z ruler

val set_chain : inst -> z -> z ruler -> inst

val set_opts : inst -> (str * optval) list -> inst

val set_render : inst -> (str * z) list -> inst

val ruler_of_registry_from : (str * str list) list -> z -> z rule list

val ruler_of_registry : (str * str list) list -> z ruler

val bare_inst :
  (str * str list) list -> (str * str list) list -> (str * str list) list ->
  (str * str list) list -> inst

type mout =
| MONone
| MONames4 of str list * str list * str list * str list
| MOOpts of (str * optval) list

type mop =
| MEnable of str list * bool
| MDisable of str list * bool
| MRuler of z * z op
| MConfigure of preset option * (str * optval) list
| MSetItem of str * optval
| MSetOptions of (str * optval) list
| MAddRenderRule of str * z * bool
| MActive
| MAll
| MOptions
| MReset of mop list * z option

val names_of : z out res -> str list

val md_toggle : bool -> str list -> bool -> inst -> inst * mout res

val chain_of_name : str -> z option

val enable_only_chain : inst -> z -> str list -> inst * mout res

val configure_components :
  (str * (str list option * str list option)) list -> inst -> inst * mout res

val configure :
  preset option -> (str * optval) list -> inst -> inst * mout res

val active4 : inst -> mout

val restore : mout -> inst -> inst * mout res

val mstep : bool -> inst -> mop -> inst * mout res

val core_registry : (str * str list) list

val block_registry : (str * str list) list

val inline_registry : (str * str list) list

val inline2_registry : (str * str list) list

val dec_optval : sx -> optval

val enc_optval : optval -> sx

val dec_opts : sx -> (str * optval) list

val enc_opts : (str * optval) list -> sx

val dec_preset : sx -> preset

val dec_mop : nat -> sx -> mop

val enc_mout : mout -> sx

val fresh_inst : inst

val observe : str list -> inst -> sx

val observe_compile : str list -> inst -> inst

val run_inst_trace : bool -> str list -> mop list -> inst -> sx list

val run_inst_case : sx -> sx

val dispatch : sx -> sx
