"""Token <-> wire format (see coq/Run/RunStream.v) and canonical forms for comparison."""
from __future__ import annotations


def enc_token(t):
    attrs = []
    for k, v in t.attrs.items():
        if isinstance(v, bool) or not isinstance(v, (str, int)):
            raise TypeError(f"attr value {v!r}")
        attrs.append([k, [0, v] if isinstance(v, str) else [1, v]])
    meta = []
    for k, v in (t.meta or {}).items():
        if not isinstance(k, str) or not isinstance(v, str):
            raise TypeError(f"meta {k!r}: {v!r}")
        meta.append([k, v])
    return [t.type, t.tag, t.nesting, attrs, list(t.map) if t.map is not None else [], t.level,
            [] if t.children is None else [[enc_token(c) for c in t.children]],
            t.content, t.markup, t.info, meta, bool(t.block), bool(t.hidden)]


def enc_tokens(ts):
    return [enc_token(t) for t in ts]


def s_of(l):
    return "".join(map(chr, l))


def canon_model_token(m):
    """model output (nested ints) -> same nested structure as canon_py_token"""
    return [s_of(m[0]), s_of(m[1]), m[2], [[s_of(k), (s_of(v[1]) if v[0] == 0 else v[1])] for k, v in m[3]],
            list(m[4]), m[5], None if not m[6] else [canon_model_token(c) for c in m[6][0]],
            s_of(m[7]), s_of(m[8]), s_of(m[9]), [[s_of(k), s_of(v)] for k, v in m[10]], bool(m[11]), bool(m[12])]


def canon_py_token(t):
    return [t.type, t.tag, t.nesting, [[k, v] for k, v in t.attrs.items()], list(t.map) if t.map is not None else [],
            t.level, None if t.children is None else [canon_py_token(c) for c in t.children],
            t.content, t.markup, t.info, [[k, v] for k, v in (t.meta or {}).items()], bool(t.block), bool(t.hidden)]


def encodable(ts) -> bool:
    try:
        enc_tokens(ts)
        return True
    except TypeError:
        return False
